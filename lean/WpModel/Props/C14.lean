/-
C14 — Paged-media furniture.  Property theorems only (helper lemmas are `private`).
Statements are over the models of `Model/PageBoxes`, `Model/PageState`, `Model/PageSelectors`,
`Model/PdfBoxes` and the tables of `Gen/MarginBoxes` (regenerated from
/repo/weasyprint/layout/page.py on every run: an edit of the source table re-checks every
`decide` below).
-/
import WpModel.Model.PageBoxes
import WpModel.Model.PageState
import WpModel.Model.PageSelectors
import WpModel.Model.PdfBoxes
import WpModel.Model.PageDoc

namespace Wp.C14
open Wp Wp.PageBoxes Wp.PageState Wp.PageSel Wp.PdfBoxes Wp.PageDoc

/-! ## page_box — `page_width_or_height`, `page_width` / `page_height` -/

/-- Unless all three of width, margin-left, margin-right (resp. height, margin-top, margin-bottom)
are given, the page box fills its containing block exactly:
`margin_a + padding/border + inner + margin_b = containing block size`. -/
theorem page_box (b : OBox) (cb : Rat) (h : ¬ (b.inner.isSome ∧ b.ma.isSome ∧ b.mb.isSome)) :
    (pageWidthOrHeight b cb).ma + b.ppb + (pageWidthOrHeight b cb).inner + (pageWidthOrHeight b cb).mb = cb := by
  obtain ⟨i, a, m, p⟩ := b
  cases i <;> cases a <;> cases m <;> simp [pageWidthOrHeight] at * <;> grind

example : ¬ ((⟨none, some 10, none, 4⟩ : OBox).inner.isSome ∧ (⟨none, some 10, none, 4⟩ : OBox).ma.isSome ∧
    (⟨none, some 10, none, 4⟩ : OBox).mb.isSome) := by simp

/-- Over-constrained (all three given): the given values are kept — the content area is "what
remains" by definition and the page sheet is resized instead (css-page-3 §7). -/
theorem page_box_over_constrained (w ma mb ppb cb : Rat) :
    pageWidthOrHeight ⟨some w, some ma, some mb, ppb⟩ cb = ⟨w, ma, mb⟩ := rfl

/-- A given size is never changed; given margins are never changed. -/
theorem page_box_keeps_given (b : OBox) (cb : Rat) :
    (∀ w, b.inner = some w → (pageWidthOrHeight b cb).inner = w) ∧
    (∀ m, b.ma = some m → (pageWidthOrHeight b cb).ma = m) ∧
    (∀ m, b.mb = some m → (pageWidthOrHeight b cb).mb = m) := by
  obtain ⟨i, a, m, p⟩ := b
  cases i <;> cases a <;> cases m <;> simp [pageWidthOrHeight]

/-- `auto` size: `auto` margins are 0 and the size takes the remainder. -/
theorem page_box_auto_inner (ma mb : Len) (ppb cb : Rat) :
    (ma = none → (pageWidthOrHeight ⟨none, ma, mb, ppb⟩ cb).ma = 0) ∧
    (mb = none → (pageWidthOrHeight ⟨none, ma, mb, ppb⟩ cb).mb = 0) := by
  cases ma <;> cases mb <;> simp [pageWidthOrHeight]

/-- Given size, both margins `auto`: they split the remainder equally (the page box is centred). -/
theorem page_box_auto_margins_equal (w ppb cb : Rat) :
    (pageWidthOrHeight ⟨some w, none, none, ppb⟩ cb).ma = (pageWidthOrHeight ⟨some w, none, none, ppb⟩ cb).mb := rfl

private theorem keepInner (b : OBox) (cb v : Rat) : (pageWidthOrHeight { b with inner := some v } cb).inner = v := by
  obtain ⟨i, a, m, p⟩ := b
  cases a <;> cases m <;> simp [pageWidthOrHeight]

/-- min/max: the used size respects `min-*` (which wins over `max-*`), and `max-*` when compatible. -/
theorem page_min_max_bounds (b : OBox) (cb minV : Rat) (maxV : Option Rat) :
    minV ≤ (pageDimMinMax b cb minV maxV).inner ∧
    (∀ mx, maxV = some mx → minV ≤ mx → (pageDimMinMax b cb minV maxV).inner ≤ mx) := by
  unfold pageDimMinMax
  cases maxV <;> simp only <;> grind [keepInner]

example : (pageDimMinMax ⟨none, some 10, some 10, 0⟩ 100 0 (some 50)).inner = 50 := by
  simp [pageDimMinMax, pageWidthOrHeight]; grind

/-- min/max keep the page-box equation as long as one margin is `auto` (otherwise the clamped size
makes the box over-constrained and the margins are kept, as above). -/
theorem page_min_max_equation (b : OBox) (cb minV : Rat) (maxV : Option Rat) (h : b.ma = none ∨ b.mb = none) :
    (pageDimMinMax b cb minV maxV).ma + b.ppb + (pageDimMinMax b cb minV maxV).inner +
      (pageDimMinMax b cb minV maxV).mb = cb := by
  have eq : ∀ (i : Len), (pageWidthOrHeight { b with inner := i } cb).ma + b.ppb +
      (pageWidthOrHeight { b with inner := i } cb).inner + (pageWidthOrHeight { b with inner := i } cb).mb = cb := by
    intro i
    have := page_box { b with inner := i } cb (by
      rcases h with h | h <;> simp [h])
    simpa using this
  have eq0 : (pageWidthOrHeight b cb).ma + b.ppb + (pageWidthOrHeight b cb).inner + (pageWidthOrHeight b cb).mb = cb := by
    have := eq b.inner
    simpa using this
  unfold pageDimMinMax
  cases maxV <;> simp only <;> grind

/-! ## fixed_dimension — `compute_fixed_dimension` -/

/-- Rules 3–6 and the final assertion, on the box left by rule 2. -/
private def fixedPost (b : OBox) (outer : Rat) (tl : Bool) : Except PyErr RBox :=
  let b := fixedRule3 b tl
  let b := fixedRule4 b outer
  let b := fixedRule5 b outer
  let b := fixedRule6 b outer
  match b.ma, b.mb, b.inner with
  | some ma, some mb, some w => .ok ⟨w, ma, mb⟩
  | _, _, _ => .error (.assertFailed "compute_fixed_dimension")

private theorem computeFixed_eq (b : OBox) (outer : Rat) (tl : Bool) :
    computeFixed b outer tl = fixedPost (fixedRule2 b outer) outer tl := rfl

private theorem fixedPost_total (b : OBox) (outer : Rat) (tl : Bool) : ∃ r, fixedPost b outer tl = .ok r := by
  obtain ⟨i, a, m, p⟩ := b
  cases i <;> cases a <;> cases m <;> cases tl <;>
    simp [fixedPost, fixedRule3, fixedRule4, fixedRule5, fixedRule6, countAuto]

private theorem fixedPost_eq (b : OBox) (outer : Rat) (tl : Bool) (r : RBox) (h : fixedPost b outer tl = .ok r) :
    r.ma + b.ppb + r.inner + r.mb = outer := by
  obtain ⟨i, a, m, p⟩ := b
  cases i <;> cases a <;> cases m <;> cases tl <;>
    simp [fixedPost, fixedRule3, fixedRule4, fixedRule5, fixedRule6, countAuto] at h <;>
    subst h <;> simp <;> grind

private theorem fixedRule2_ppb (b : OBox) (outer : Rat) : (fixedRule2 b outer).ppb = b.ppb := by
  unfold fixedRule2
  simp only
  split <;> rfl

/-- The `assert` at the end of `compute_fixed_dimension` is unreachable: for every box (any pattern
of `auto`, any signs and magnitudes) the function returns three numbers. -/
theorem fixed_dimension_total (b : OBox) (outer : Rat) (tl : Bool) : ∃ r, computeFixed b outer tl = .ok r := by
  rw [computeFixed_eq]
  exact fixedPost_total _ _ _

/-- The margin box fills its fixed dimension exactly:
`margin_a + padding/border + inner + margin_b = outer` (css-page-3 §5.3.1). -/
theorem fixed_dimension (b : OBox) (outer : Rat) (tl : Bool) (r : RBox) (h : computeFixed b outer tl = .ok r) :
    r.ma + b.ppb + r.inner + r.mb = outer := by
  rw [computeFixed_eq] at h
  have := fixedPost_eq _ _ _ _ h
  rwa [fixedRule2_ppb] at this

example : computeFixed ⟨none, some 5, none, 2⟩ 40 true = .ok ⟨33, 5, 0⟩ := by
  simp [computeFixed, fixedRule2, fixedRule3, fixedRule4, fixedRule5, fixedRule6, countAuto, sumNonAuto, orZero]
  grind

private theorem rule2_cases (b : OBox) (outer : Rat) :
    (fixedRule2 b outer = b ∧ b.ppb + sumNonAuto [b.ma, b.mb, b.inner] ≤ outer) ∨
    (b.ppb + sumNonAuto [b.ma, b.mb, b.inner] > outer ∧
      fixedRule2 b outer = { b with ma := orZero b.ma, mb := orZero b.mb, inner := orZero b.inner }) := by
  unfold fixedRule2
  simp only
  split
  · right; exact ⟨‹_›, rfl⟩
  · left; exact ⟨rfl, Rat.not_lt.mp ‹_›⟩

/-- A given size is kept. -/
theorem fixed_dimension_keeps_inner (w : Rat) (ma mb : Len) (ppb outer : Rat) (tl : Bool) (r : RBox)
    (h : computeFixed ⟨some w, ma, mb, ppb⟩ outer tl = .ok r) : r.inner = w := by
  rw [computeFixed_eq] at h
  rcases rule2_cases ⟨some w, ma, mb, ppb⟩ outer with ⟨e, _⟩ | ⟨_, e⟩ <;> rw [e] at h <;>
    cases ma <;> cases mb <;> cases tl <;>
    simp [fixedPost, fixedRule3, fixedRule4, fixedRule5, fixedRule6, countAuto, orZero] at h <;>
    subst h <;> rfl

/-- Rule 3: when the three values are given (over-constrained) the margin on the side *away from the
page edge* is recomputed — `margin_a` (top / left) for boxes in the top / left half, else `margin_b`;
the other margin and the size are kept. -/
theorem fixed_dimension_over_constrained (w ma mb ppb outer : Rat) (tl : Bool) (r : RBox)
    (h : computeFixed ⟨some w, some ma, some mb, ppb⟩ outer tl = .ok r) :
    r.inner = w ∧ (if tl then r.mb = mb else r.ma = ma) := by
  rw [computeFixed_eq] at h
  rcases rule2_cases ⟨some w, some ma, some mb, ppb⟩ outer with ⟨e, _⟩ | ⟨_, e⟩ <;> rw [e] at h <;>
    cases tl <;>
    simp [fixedPost, fixedRule3, fixedRule4, fixedRule5, fixedRule6, countAuto, orZero] at h <;>
    subst h <;> simp

/-- An `auto` size never resolves to a negative number (the "not in the spec" clause of rule 2). -/
theorem fixed_dimension_inner_nonneg (ma mb : Len) (ppb outer : Rat) (tl : Bool) (r : RBox)
    (h : computeFixed ⟨none, ma, mb, ppb⟩ outer tl = .ok r) : 0 ≤ r.inner := by
  rw [computeFixed_eq] at h
  rcases rule2_cases ⟨none, ma, mb, ppb⟩ outer with ⟨e, hle⟩ | ⟨hle, e⟩ <;> rw [e] at h <;>
    cases ma <;> cases mb <;> cases tl <;>
    simp [fixedPost, fixedRule3, fixedRule4, fixedRule5, fixedRule6, countAuto, orZero, sumNonAuto] at h hle ⊢ <;>
    subst h <;> simp <;> grind

example : computeFixed ⟨none, some 30, some 30, 0⟩ 40 false = .ok ⟨0, 30, 10⟩ := by
  simp [computeFixed, fixedRule2, fixedRule3, fixedRule4, fixedRule5, fixedRule6, countAuto, sumNonAuto, orZero]
  grind


/-! ## variable_dimension — `compute_variable_dimension` -/

/-- `x'` is `x` (whose size was given), or `x` had an `auto` size which the `outer` setter resolved. -/
private def Upd (x x' : VBox) : Prop := (x' = x ∧ x.inner.isSome) ∨ (x.inner = none ∧ ∃ v, x' = x.setOuter v)

private theorem upd_set (x : VBox) (v : Rat) (h : x.inner = none) : Upd x (x.setOuter v) := Or.inr ⟨h, v, rfl⟩
private theorem upd_refl (x : VBox) (h : x.inner.isSome) : Upd x x := Or.inl ⟨rfl, h⟩

private theorem noB_fst (a c : VBox) (avail : Rat) : ∃ v, (varNoBBothAuto a c avail).1 = a.setOuter v := by
  unfold varNoBBothAuto
  simp only
  split
  · exact ⟨_, rfl⟩
  · split <;> exact ⟨_, rfl⟩

private theorem noB_snd (a c : VBox) (avail : Rat) : ∃ v, (varNoBBothAuto a c avail).2 = c.setOuter v := by
  unfold varNoBBothAuto
  simp only
  split
  · exact ⟨_, rfl⟩
  · split <;> exact ⟨_, rfl⟩

private theorem resolveB_set (a b c : VBox) (avail : Rat) : ∃ v, varResolveB a b c avail = b.setOuter v := by
  unfold varResolveB
  simp only
  split
  · exact ⟨_, rfl⟩
  · split <;> exact ⟨_, rfl⟩

private theorem step_upd (a b c a' b' c' : VBox) (g : Bool) (avail : Rat)
    (h : variableStep a b c g avail = .ok (a', b', c')) : Upd a a' ∧ Upd b b' ∧ Upd c c' := by
  unfold variableStep at h
  cases g
  · simp only [Bool.not_false, ↓reduceIte] at h
    split at h
    · cases h
    · rename_i hb
      have hb' : b.inner = some 0 := by simpa using hb
      have ub : Upd b b := upd_refl b (by simp [hb'])
      split at h <;> simp only [Except.ok.injEq, Prod.mk.injEq] at h <;> obtain ⟨rfl, rfl, rfl⟩ := h
      · rename_i ha hc
        obtain ⟨v1, e1⟩ := noB_fst a c avail
        obtain ⟨v2, e2⟩ := noB_snd a c avail
        exact ⟨e1 ▸ upd_set a v1 ha, ub, e2 ▸ upd_set c v2 hc⟩
      · rename_i ci ha hc
        exact ⟨upd_set a _ ha, ub, upd_refl c (by simp [hc])⟩
      · rename_i ai ha hc
        exact ⟨upd_refl a (by simp [ha]), ub, upd_set c _ hc⟩
      · rename_i ai ci ha hc
        exact ⟨upd_refl a (by simp [ha]), ub, upd_refl c (by simp [hc])⟩
  · simp only [Bool.not_true, Bool.false_eq_true, ↓reduceIte] at h
    split at h
    · cases h
    · simp only [Except.ok.injEq, Prod.mk.injEq] at h
      obtain ⟨rfl, rfl, rfl⟩ := h
      refine ⟨?_, ?_, ?_⟩
      · cases ha : a.inner with
        | none => exact upd_set a _ ha
        | some w => exact upd_refl a (by simp [ha])
      · cases hb : b.inner with
        | none =>
          obtain ⟨v, e⟩ := resolveB_set a b c avail
          simp only
          rw [e]; exact upd_set b v hb
        | some w => exact upd_refl b (by simp [hb])
      · cases hc : c.inner with
        | none => exact upd_set c _ hc
        | some w => exact upd_refl c (by simp [hc])

private theorem upd_some (x x' : VBox) (h : Upd x x') : ∃ w, x'.inner = some w := by
  rcases h with ⟨rfl, hs⟩ | ⟨_, v, rfl⟩
  · exact Option.isSome_iff_exists.mp hs
  · exact ⟨_, rfl⟩

private theorem upd_fields (x x' : VBox) (h : Upd x x') :
    x'.ma = x.ma ∧ x'.mb = x.mb ∧ x'.ppb = x.ppb ∧ x'.minC = x.minC ∧ x'.maxC = x.maxC := by
  rcases h with ⟨rfl, _⟩ | ⟨_, v, rfl⟩ <;> simp [VBox.setOuter]

private theorem upd_given (x x' : VBox) (w : Rat) (h : Upd x x') (hw : x.inner = some w) : x'.inner = some w := by
  rcases h with ⟨rfl, _⟩ | ⟨hn, _⟩
  · exact hw
  · rw [hn] at hw; cases hw

private theorem upd_within (x x' : VBox) (w : Rat) (h : Upd x x') (hn : x.inner = none) (hw : x'.inner = some w)
    (hm : x.minC ≤ x.maxC) : x.minC ≤ w ∧ w ≤ x.maxC := by
  rcases h with ⟨rfl, hs⟩ | ⟨_, v, rfl⟩
  · rw [hn] at hs; cases hs
  · simp only [VBox.setOuter, Option.some.injEq] at hw
    subst hw
    grind

/-- The two assertions of `compute_variable_dimension` are the only ways it can fail, and the final
one (`'auto' not in [box.inner …]`) is unreachable: when the middle box is generated, or is the
zero-sized box `make_margin_boxes` passes for a non-generated one, three sizes are returned. -/
theorem variable_dimension_total (a b c : VBox) (g : Bool) (avail : Rat) (hb : g = false → b.inner = some 0) :
    ∃ r, computeVariable a b c g avail = .ok r := by
  unfold computeVariable
  cases hstep : variableStep a b c g avail with
  | error e =>
    exfalso
    unfold variableStep at hstep
    cases g
    · simp [hb rfl] at hstep
      split at hstep <;> cases hstep
    · simp only [Bool.not_true, Bool.false_eq_true, ↓reduceIte] at hstep
      split at hstep
      · rename_i hnone
        cases hbi : b.inner with
        | none =>
          obtain ⟨v, e⟩ := resolveB_set a b c avail
          simp only [hbi] at hnone
          rw [e] at hnone
          simp [VBox.setOuter] at hnone
        | some w => simp [hbi] at hnone
      · cases hstep
  | ok r =>
    obtain ⟨a', b', c'⟩ := r
    obtain ⟨ua, ub, uc⟩ := step_upd _ _ _ _ _ _ _ _ hstep
    obtain ⟨wa, ha⟩ := upd_some _ _ ua
    obtain ⟨wb, hb'⟩ := upd_some _ _ ub
    obtain ⟨wc, hc⟩ := upd_some _ _ uc
    simp [ha, hb', hc]

/-- Given sizes are kept; margins come out as given (`auto` → 0 was done by the first loop). -/
theorem variable_dimension_keeps_given (a b c : VBox) (g : Bool) (avail : Rat) (ra rb rc : RBox)
    (h : computeVariable a b c g avail = .ok (ra, rb, rc)) :
    (∀ w, a.inner = some w → ra.inner = w) ∧ (∀ w, b.inner = some w → rb.inner = w) ∧
    (∀ w, c.inner = some w → rc.inner = w) ∧
    ra.ma = a.ma ∧ ra.mb = a.mb ∧ rb.ma = b.ma ∧ rb.mb = b.mb ∧ rc.ma = c.ma ∧ rc.mb = c.mb := by
  unfold computeVariable at h
  cases hstep : variableStep a b c g avail with
  | error e => simp [hstep] at h
  | ok r =>
    obtain ⟨a', b', c'⟩ := r
    obtain ⟨ua, ub, uc⟩ := step_upd _ _ _ _ _ _ _ _ hstep
    obtain ⟨wa, ha⟩ := upd_some _ _ ua
    obtain ⟨wb, hb'⟩ := upd_some _ _ ub
    obtain ⟨wc, hc⟩ := upd_some _ _ uc
    simp [hstep, ha, hb', hc] at h
    obtain ⟨rfl, rfl, rfl⟩ := h
    have fa := upd_fields _ _ ua
    have fb := upd_fields _ _ ub
    have fc := upd_fields _ _ uc
    refine ⟨?_, ?_, ?_, fa.1, fa.2.1, fb.1, fb.2.1, fc.1, fc.2.1⟩
    · intro w hw; have := upd_given _ _ w ua hw; rw [ha] at this; exact Option.some.inj this
    · intro w hw; have := upd_given _ _ w ub hw; rw [hb'] at this; exact Option.some.inj this
    · intro w hw; have := upd_given _ _ w uc hw; rw [hc] at this; exact Option.some.inj this

/-- Every `auto` size is resolved inside `[min-content, max-content]` of its box. -/
theorem variable_dimension_within_content (a b c : VBox) (g : Bool) (avail : Rat) (ra rb rc : RBox)
    (h : computeVariable a b c g avail = .ok (ra, rb, rc)) :
    (a.inner = none → a.minC ≤ a.maxC → a.minC ≤ ra.inner ∧ ra.inner ≤ a.maxC) ∧
    (b.inner = none → b.minC ≤ b.maxC → b.minC ≤ rb.inner ∧ rb.inner ≤ b.maxC) ∧
    (c.inner = none → c.minC ≤ c.maxC → c.minC ≤ rc.inner ∧ rc.inner ≤ c.maxC) := by
  unfold computeVariable at h
  cases hstep : variableStep a b c g avail with
  | error e => simp [hstep] at h
  | ok r =>
    obtain ⟨a', b', c'⟩ := r
    obtain ⟨ua, ub, uc⟩ := step_upd _ _ _ _ _ _ _ _ hstep
    obtain ⟨wa, ha⟩ := upd_some _ _ ua
    obtain ⟨wb, hb'⟩ := upd_some _ _ ub
    obtain ⟨wc, hc⟩ := upd_some _ _ uc
    simp [hstep, ha, hb', hc] at h
    obtain ⟨rfl, rfl, rfl⟩ := h
    exact ⟨fun hn hm => upd_within _ _ _ ua hn ha hm, fun hn hm => upd_within _ _ _ ub hn hb' hm,
           fun hn hm => upd_within _ _ _ uc hn hc hm⟩

example : (match computeVariable ⟨none, 0, 0, 0, 20, 60⟩ ⟨some 0, 0, 0, 0, 0, 0⟩ ⟨none, 0, 0, 0, 10, 30⟩ false 300 with
    | .ok (ra, rb, rc) => ra.inner == 60 && rb.inner == 0 && rc.inner == 30
    | .error _ => false) = true := by decide +kernel

/-- Without B, one of A / C `auto`: it takes what the other leaves, within its content sizes; when
that amount lies between its min- and max-content size the two boxes fill the side exactly. -/
theorem variable_dimension_one_auto (a b c : VBox) (avail ci : Rat) (ra rb rc : RBox)
    (ha : a.inner = none) (hc : c.inner = some ci)
    (h : computeVariable a b c false avail = .ok (ra, rb, rc))
    (hlo : a.minC ≤ avail - (c.sugar + ci) - a.sugar) (hhi : avail - (c.sugar + ci) - a.sugar ≤ a.maxC) :
    ra.outer a.ppb + rc.outer c.ppb = avail := by
  have hb0 : b.inner = some 0 := by
    cases hb : b.inner with
    | none => simp [computeVariable, variableStep, hb] at h
    | some w =>
      by_cases hw : w = 0
      · rw [hw]
      · simp [computeVariable, variableStep, hb, hw] at h
  have hstep : variableStep a b c false avail = .ok (a.setOuter (avail - (c.sugar + ci)), b, c) := by
    simp [variableStep, hb0, ha, hc]
  simp only [computeVariable, hstep, VBox.setOuter, hb0, hc, Except.ok.injEq, Prod.mk.injEq] at h
  obtain ⟨rfl, rfl, rfl⟩ := h
  simp only [RBox.outer, VBox.sugar] at *
  grind

/-- With B generated, an `auto` A (and likewise C) gets the outer size `(avail − B.outer) / 2`, so that
B, placed at offset ½, is centred between them — as far as A's content sizes allow. -/
theorem variable_dimension_b_centred (a b c : VBox) (avail : Rat) (ra rb rc : RBox)
    (ha : a.inner = none)
    (h : computeVariable a b c true avail = .ok (ra, rb, rc))
    (hlo : a.minC ≤ (avail - rb.outer b.ppb) / 2 - a.sugar) (hhi : (avail - rb.outer b.ppb) / 2 - a.sugar ≤ a.maxC) :
    ra.outer a.ppb = (avail - rb.outer b.ppb) / 2 := by
  -- the resolved middle box: `b` itself, or `b` with the size set by the flex-fit
  have key : ∀ b' : VBox, ∀ bi : Rat, b'.inner = some bi → b'.ma = b.ma → b'.mb = b.mb → b'.ppb = b.ppb →
      variableStep a b c true avail =
        .ok (a.setOuter ((avail - (b'.sugar + bi)) / 2), b',
             match c.inner with | none => c.setOuter ((avail - (b'.sugar + bi)) / 2) | some _ => c) →
      ra.outer a.ppb = (avail - rb.outer b.ppb) / 2 := by
    intro b' bi hbi e1 e2 e3 hstep
    simp only [computeVariable, hstep, VBox.setOuter, hbi] at h
    cases hc : c.inner with
    | none =>
      simp only [hc, Except.ok.injEq, Prod.mk.injEq] at h
      obtain ⟨rfl, rfl, rfl⟩ := h
      simp only [RBox.outer, VBox.sugar] at *
      grind
    | some ci =>
      simp only [hc, Except.ok.injEq, Prod.mk.injEq] at h
      obtain ⟨rfl, rfl, rfl⟩ := h
      simp only [RBox.outer, VBox.sugar] at *
      grind
  cases hb : b.inner with
  | none =>
    obtain ⟨v, e⟩ := resolveB_set a b c avail
    refine key (b.setOuter v) _ rfl rfl rfl rfl ?_
    simp only [variableStep, Bool.not_true, Bool.false_eq_true, ↓reduceIte, hb, ha, e]
    rfl
  | some w =>
    refine key b w hb rfl rfl rfl ?_
    simp only [variableStep, Bool.not_true, Bool.false_eq_true, ↓reduceIte, hb, ha]
    rfl

private theorem div_nonneg' (x s : Rat) (hx : 0 ≤ x) (hs : 0 < s) : 0 ≤ x / s := by
  rw [Rat.div_def]
  exact Rat.mul_nonneg hx (Rat.le_of_lt (Rat.inv_pos.mpr hs))

private theorem share_sum (x fa fc : Rat) :
    x * fa / flexSum (fa + fc) + x * fc / flexSum (fa + fc) = if fa + fc = 0 then 0 else x := by
  unfold flexSum
  split
  · rename_i h
    have : fc = -fa := by grind
    subst this
    grind
  · grind

private theorem share_nonneg (x f s : Rat) (hx : 0 ≤ x) (hf : 0 ≤ f) (hs : 0 < s) : 0 ≤ x * f / s :=
  div_nonneg' _ _ (Rat.mul_nonneg hx hf) hs

private theorem flexSum_pos (x : Rat) (h : 0 ≤ x) : 0 < flexSum x := by
  unfold flexSum; split <;> grind

/-- css-page-3 §5.3.2 flex-fit, A and C both `auto`, no B: whenever the two boxes fit at their
min-content sizes (`avail > Σ outer min-content`: the first two branches) the resolved outer sizes
do not exceed the available size — the boxes do not overlap.  (In the third branch the code keeps
each box at its min-content size, "even if boxes overlap".) -/
theorem variable_dimension_fits (a c : VBox) (avail : Rat) (ha : a.inner = none) (hc : c.inner = none)
    (hsa : 0 ≤ a.sugar) (hsc : 0 ≤ c.sugar) (hma : a.minC ≤ a.maxC) (hmc : c.minC ≤ c.maxC)
    (hfit : avail > a.outerMin + c.outerMin) :
    ∃ wa wc, (varNoBBothAuto a c avail).1.inner = some wa ∧ (varNoBBothAuto a c avail).2.inner = some wc ∧
      (a.sugar + wa) + (c.sugar + wc) ≤ avail := by
  unfold varNoBBothAuto
  simp only [VBox.outerMin, VBox.outerMax, ha, hc] at *
  split
  · rename_i h1
    refine ⟨_, _, rfl, rfl, ?_⟩
    grind
  · refine ⟨_, _, rfl, rfl, ?_⟩
    have hs := share_sum (avail - (a.sugar + a.minC) - (c.sugar + c.minC)) (a.maxC - a.minC) (c.maxC - c.minC)
    have hpos : 0 < flexSum (a.maxC - a.minC + (c.maxC - c.minC)) := flexSum_pos _ (by grind)
    have h1 := share_nonneg (avail - (a.sugar + a.minC) - (c.sugar + c.minC)) (a.maxC - a.minC) _ (by grind) (by grind) hpos
    have h2 := share_nonneg (avail - (a.sugar + a.minC) - (c.sugar + c.minC)) (c.maxC - c.minC) _ (by grind) (by grind) hpos
    grind


/-! ## margin_box_rects — `make_margin_boxes` (tables regenerated from page.py) -/

/-- The margin strip of a side (css-page-3 §5.3, fig. "page-margin boxes"): origin, width, height. -/
def strip (g : PageGeom) : String → Rat × Rat × Rat × Rat
  | "top" => (g.marginLeft, 0, g.maxBoxWidth, g.marginTop)
  | "bottom" => (g.marginLeft, g.marginTop + g.maxBoxHeight, g.maxBoxWidth, g.marginBottom)
  | "left" => (0, g.marginTop, g.marginLeft, g.maxBoxHeight)
  | "right" => (g.marginLeft + g.maxBoxWidth, g.marginTop, g.marginRight, g.maxBoxHeight)
  | _ => (0, 0, 0, 0)

theorem side_table_spec : Gen.sideTable.map (·.pre) = ["top", "bottom", "left", "right"] := by decide

theorem side_table_strips (g : PageGeom) : ∀ row ∈ Gen.sideTable,
    g.eval row.posX = (strip g row.pre).1 ∧ g.eval row.posY = (strip g row.pre).2.1 ∧
    (row.vertical = (row.pre == "left" || row.pre == "right")) ∧
    (let fixedFirst := if row.vertical then Gen.verticalFixedFirst else Gen.horizontalFixedFirst
     let fixedOuter := if fixedFirst then g.eval row.cb0 else g.eval row.cb1
     let variableOuter := if fixedFirst then g.eval row.cb1 else g.eval row.cb0
     if row.vertical then fixedOuter = (strip g row.pre).2.2.1 ∧ variableOuter = (strip g row.pre).2.2.2
     else fixedOuter = (strip g row.pre).2.2.2 ∧ variableOuter = (strip g row.pre).2.2.1) := by
  intro row hrow
  simp only [Gen.sideTable, List.mem_cons, List.not_mem_nil, or_false] at hrow
  rcases hrow with rfl | rfl | rfl | rfl <;>
    simp [PageGeom.eval, PageGeom.evalBase, strip, Gen.pageEndXDef, Gen.pageEndYDef, Gen.verticalFixedFirst,
      Gen.horizontalFixedFirst]

theorem place_side_rect (row : SideRow) (g : PageGeom) (vo fo : Rat) (m : MBox) (off : Rat) (p : Placed)
    (h : placeSide row g vo fo m off = .ok p) :
    if row.vertical then
      p.x = g.eval row.posX ∧ p.marginWidth = fo ∧ p.y = g.eval row.posY + off * (vo - p.marginHeight)
    else
      p.y = g.eval row.posY ∧ p.marginHeight = fo ∧ p.x = g.eval row.posX + off * (vo - p.marginWidth) := by
  unfold placeSide at h
  cases hv : row.vertical
  · simp only [hv, Bool.false_eq_true, ↓reduceIte] at h ⊢
    split at h
    · rename_i w ml mr e1 e2 e3
      split at h
      · cases h
      · rename_i r hr
        simp only [Except.ok.injEq] at h
        subst h
        have := fixed_dimension _ _ _ _ hr
        simp only [Placed.marginHeight, Placed.marginWidth, MBox.vertical] at *
        grind
    · cases h
  · simp only [hv, ↓reduceIte] at h ⊢
    split at h
    · rename_i w ml mr e1 e2 e3
      split at h
      · cases h
      · rename_i r hr
        simp only [Except.ok.injEq] at h
        subst h
        have := fixed_dimension _ _ _ _ hr
        simp only [Placed.marginHeight, Placed.marginWidth, MBox.horizontal] at *
        grind
    · cases h

theorem corner_table_spec : Gen.cornerTable.map (·.kw) =
    ["@top-left-corner", "@top-right-corner", "@bottom-left-corner", "@bottom-right-corner"] := by decide

/-- corner areas -/
def cornerArea (g : PageGeom) : String → Rat × Rat × Rat × Rat
  | "@top-left-corner" => (0, 0, g.marginLeft, g.marginTop)
  | "@top-right-corner" => (g.marginLeft + g.maxBoxWidth, 0, g.marginRight, g.marginTop)
  | "@bottom-left-corner" => (0, g.marginTop + g.maxBoxHeight, g.marginLeft, g.marginBottom)
  | "@bottom-right-corner" => (g.marginLeft + g.maxBoxWidth, g.marginTop + g.maxBoxHeight, g.marginRight, g.marginBottom)
  | _ => (0, 0, 0, 0)

theorem corner_table_areas (g : PageGeom) : ∀ row ∈ Gen.cornerTable,
    (g.eval row.posX, g.eval row.posY, g.eval row.cbW, g.eval row.cbH) = cornerArea g row.kw ∧
    row.isTop = (row.kw == "@top-left-corner" || row.kw == "@top-right-corner") ∧
    row.isLeft = (row.kw == "@top-left-corner" || row.kw == "@bottom-left-corner") := by
  intro row hrow
  simp only [Gen.cornerTable, List.mem_cons, List.not_mem_nil, or_false] at hrow
  rcases hrow with rfl | rfl | rfl | rfl <;>
    simp [PageGeom.eval, PageGeom.evalBase, cornerArea, Gen.pageEndXDef, Gen.pageEndYDef]

theorem corner_box_rect (row : CornerRow) (g : PageGeom) (styles : List MStyle) (ps : List Placed)
    (h : cornerBox row g styles = .ok ps) :
    ∀ p ∈ ps, p.x = g.eval row.posX ∧ p.y = g.eval row.posY ∧ p.marginWidth = g.eval row.cbW ∧
      p.marginHeight = g.eval row.cbH ∧ p.kw = row.kw ∧ (findStyle styles row.kw).generated = true := by
  unfold cornerBox at h
  simp only at h
  split at h
  · simp only [Except.ok.injEq] at h; subst h; simp
  · rename_i hgen
    split at h
    · cases h
    · rename_i rv hrv
      split at h
      · cases h
      · rename_i rh hrh
        simp only [Except.ok.injEq] at h
        subst h
        intro p hp
        simp only [List.mem_singleton] at hp
        subst hp
        have e1 := fixed_dimension _ _ _ _ hrv
        have e2 := fixed_dimension _ _ _ _ hrh
        have hg : (makeBox (findStyle styles row.kw) (g.eval row.cbW) (g.eval row.cbH)).generated = true := by
          simpa using hgen
        have hk : (findStyle styles row.kw).generated = true := by
          unfold makeBox at hg
          split at hg
          · assumption
          · simp at hg
        have hkw : (makeBox (findStyle styles row.kw) (g.eval row.cbW) (g.eval row.cbH)).kw = (findStyle styles row.kw).kw := by
          unfold makeBox; split <;> rfl
        have hfk : (findStyle styles row.kw).kw = row.kw := by
          unfold findStyle
          split
          · rename_i s hs
            have := List.find?_some hs
            simpa using this
          · rfl
        simp only [Placed.marginHeight, Placed.marginWidth, MBox.vertical, MBox.horizontal] at *
        refine ⟨trivial, trivial, ?_, ?_, ?_, hk⟩
        · grind
        · grind
        · rw [hkw, hfk]

private theorem findStyle_kw (styles : List MStyle) (kw : String) : (findStyle styles kw).kw = kw := by
  unfold findStyle
  split
  · rename_i s hs
    have := List.find?_some hs
    simpa using this
  · rfl

private theorem makeBox_kw (s : MStyle) (w h : Rat) : (makeBox s w h).kw = s.kw ∧ (makeBox s w h).generated = s.generated := by
  unfold makeBox; split <;> simp_all

private theorem placeSide_kw (row : SideRow) (g : PageGeom) (vo fo : Rat) (m : MBox) (off : Rat) (p : Placed)
    (h : placeSide row g vo fo m off = .ok p) : p.kw = m.kw := by
  unfold placeSide at h
  simp only at h
  split at h <;> split at h
  all_goals first
    | cases h
    | (split at h
       · cases h
       · simp only [Except.ok.injEq] at h; subst h; rfl)

private theorem inner_fold (row : SideRow) (g : PageGeom) (vo fo : Rat) (l : List (MBox × Option Rat)) (acc res : List Placed)
    (h : l.foldlM (fun acc (x : MBox × Option Rat) =>
          if !x.1.generated then (.ok acc : Except PyErr (List Placed))
          else match x.2 with
            | none => .error (.indexError "make_margin_boxes:offsets")
            | some o =>
              match placeSide row g vo fo x.1 o with
              | .error e => .error e
              | .ok p => .ok (acc ++ [p])) acc = .ok res) :
    ∀ p ∈ res, p ∈ acc ∨ ∃ m o, (m, some o) ∈ l ∧ m.generated = true ∧ placeSide row g vo fo m o = .ok p := by
  induction l generalizing acc with
  | nil =>
    simp only [List.foldlM_nil, pure, Except.pure, Except.ok.injEq] at h
    subst h
    intro p hp; exact Or.inl hp
  | cons x xs ih =>
    simp only [List.foldlM_cons, bind, Except.bind] at h
    split at h
    · cases h
    · rename_i acc' hacc
      intro p hp
      rcases ih acc' h p hp with hin | ⟨m, o, hm, hg, hpl⟩
      · split at hacc
        · simp only [Except.ok.injEq] at hacc; subst hacc; exact Or.inl hin
        · rename_i hgen
          split at hacc
          · cases hacc
          · rename_i o ho
            split at hacc
            · cases hacc
            · rename_i p' hp'
              simp only [Except.ok.injEq] at hacc
              subst hacc
              rcases List.mem_append.mp hin with h1 | h1
              · exact Or.inl h1
              · simp only [List.mem_singleton] at h1
                subst h1
                refine Or.inr ⟨x.1, o, ?_, by simpa using hgen, hp'⟩
                have : x = (x.1, some o) := by rw [← ho]
                rw [← this]; exact List.mem_cons_self
      · exact Or.inr ⟨m, o, List.mem_cons_of_mem _ hm, hg, hpl⟩

theorem side_boxes_generated (row : SideRow) (g : PageGeom) (styles : List MStyle) (ps : List Placed)
    (h : sideBoxes row g styles = .ok ps) :
    ∀ p ∈ ps, (findStyle styles p.kw).generated = true := by
  unfold sideBoxes at h
  simp only at h
  split at h
  · rename_i a b c hboxes
    split at h
    · simp only [Except.ok.injEq] at h; subst h; simp
    · split at h
      · cases h
      · rename_i ra rb rc hcv
        intro p hp
        rcases inner_fold _ _ _ _ _ _ _ h p hp with hin | ⟨m, o, hm, hg, hpl⟩
        · cases hin
        · have hkw := placeSide_kw _ _ _ _ _ _ _ hpl
          -- every box of the side is a `makeBox (findStyle styles kw)`; restoring keeps kw / generated
          have hsrc : ∀ x ∈ [a, b, c], (findStyle styles x.kw).generated = x.generated := by
            intro x hx
            rw [← hboxes] at hx
            simp only [List.mem_map] at hx
            obtain ⟨sfx, _, rfl⟩ := hx
            have := makeBox_kw (findStyle styles ("@" ++ row.pre ++ "-" ++ sfx))
              (g.eval row.cb0) (g.eval row.cb1)
            rw [this.1, findStyle_kw, this.2]
          have hres : ∀ (x : MBox) (r : RBox), ((if row.vertical then x.restoreV r else x.restoreH r).kw = x.kw ∧
              (if row.vertical then x.restoreV r else x.restoreH r).generated = x.generated) := by
            intro x r; split <;> simp [MBox.restoreV, MBox.restoreH]
          simp only [List.mem_cons, Prod.mk.injEq, List.not_mem_nil, or_false] at hm
          rcases hm with ⟨rfl, _⟩ | ⟨rfl, _⟩ | ⟨rfl, _⟩
          · rw [hkw, (hres a ra).1, hsrc a (by simp)]; rw [(hres a ra).2] at hg; exact hg
          · rw [hkw, (hres b rb).1, hsrc b (by simp)]; rw [(hres b rb).2] at hg; exact hg
          · rw [hkw, (hres c rc).1, hsrc c (by simp)]; rw [(hres c rc).2] at hg; exact hg
  · cases h

private theorem fold_append {α : Type} (f : α → Except PyErr (List Placed)) (l : List α) (acc res : List Placed)
    (h : l.foldlM (fun acc row => do
      let ps ← f row
      pure (acc ++ ps)) acc = .ok res) :
    ∀ p ∈ res, p ∈ acc ∨ ∃ row ∈ l, ∃ ps, f row = .ok ps ∧ p ∈ ps := by
  induction l generalizing acc with
  | nil =>
    simp only [List.foldlM_nil, pure, Except.pure, Except.ok.injEq] at h
    subst h
    intro p hp; exact Or.inl hp
  | cons x xs ih =>
    simp only [List.foldlM_cons, bind, Except.bind] at h
    split at h
    · cases h
    · rename_i acc' hacc
      split at hacc
      · cases hacc
      · rename_i ps hps
        simp only [pure, Except.pure, Except.ok.injEq] at hacc
        subst hacc
        intro p hp
        rcases ih _ h p hp with hin | ⟨row, hrow, ps', hf, hin⟩
        · rcases List.mem_append.mp hin with h1 | h1
          · exact Or.inl h1
          · exact Or.inr ⟨x, List.mem_cons_self, ps, hps, h1⟩
        · exact Or.inr ⟨row, List.mem_cons_of_mem _ hrow, ps', hf, hin⟩

private theorem mmb_split (g : PageGeom) (styles : List MStyle) (res : List Placed)
    (h : makeMarginBoxes g styles = .ok res) :
    ∀ p ∈ res, (∃ row ∈ Gen.sideTable, ∃ ps, sideBoxes row g styles = .ok ps ∧ p ∈ ps) ∨
               (∃ row ∈ Gen.cornerTable, ∃ ps, cornerBox row g styles = .ok ps ∧ p ∈ ps) := by
  unfold makeMarginBoxes at h
  simp only [bind, Except.bind] at h
  split at h
  · cases h
  · rename_i sides hs
    split at h
    · cases h
    · rename_i corners hc
      simp only [pure, Except.pure, Except.ok.injEq] at h
      subst h
      intro p hp
      rcases List.mem_append.mp hp with h1 | h1
      · rcases fold_append (fun row => sideBoxes row g styles) _ _ _ hs p h1 with hin | hex
        · cases hin
        · exact Or.inl hex
      · rcases fold_append (fun row => cornerBox row g styles) _ _ _ hc p h1 with hin | hex
        · cases hin
        · exact Or.inr hex

/-- Margin boxes are generated only when they have content: every box `make_margin_boxes` yields
comes from a style whose `content` is not `normal` / `none` (boxes needed only for the layout of
their neighbours are computed, zero-sized, and not yielded). -/
theorem margin_boxes_generated_only (g : PageGeom) (styles : List MStyle) (res : List Placed)
    (h : makeMarginBoxes g styles = .ok res) : ∀ p ∈ res, (findStyle styles p.kw).generated = true := by
  intro p hp
  rcases mmb_split g styles res h p hp with ⟨row, _, ps, hs, hin⟩ | ⟨row, _, ps, hs, hin⟩
  · exact side_boxes_generated row g styles ps hs p hin
  · have := corner_box_rect row g styles ps hs p hin
    rw [this.2.2.2.2.1]; exact this.2.2.2.2.2

/-- Every corner box yielded by `make_margin_boxes` occupies exactly its corner area. -/
theorem corner_boxes_fill_their_corner (g : PageGeom) (styles : List MStyle) (row : CornerRow) (hrow : row ∈ Gen.cornerTable)
    (ps : List Placed) (h : cornerBox row g styles = .ok ps) :
    ∀ p ∈ ps, (p.x, p.y, p.marginWidth, p.marginHeight) = cornerArea g row.kw := by
  intro p hp
  have r := corner_box_rect row g styles ps h p hp
  have a := (corner_table_areas g row hrow).1
  rw [← a, r.1, r.2.1, r.2.2.1, r.2.2.2.1]

/-- A side box, in the *fixed* dimension, spans its margin strip exactly; in the *variable* dimension
it sits at `start + offset · (strip length − its outer size)`: `offset = 0` start-aligned (A),
`½` centred (B), `1` end-aligned (C).  Hence it lies inside the strip iff its outer size does not
exceed the strip length (`side_box_inside`). -/
theorem side_box_in_strip (g : PageGeom) (row : SideRow) (hrow : row ∈ Gen.sideTable) (vo fo : Rat) (m : MBox)
    (off : Rat) (p : Placed) (h : placeSide row g vo fo m off = .ok p) :
    if row.vertical then
      p.x = (strip g row.pre).1 ∧ p.marginWidth = fo ∧ p.y = (strip g row.pre).2.1 + off * (vo - p.marginHeight)
    else
      p.y = (strip g row.pre).2.1 ∧ p.marginHeight = fo ∧ p.x = (strip g row.pre).1 + off * (vo - p.marginWidth) := by
  have r := place_side_rect row g vo fo m off p h
  have s := side_table_strips g row hrow
  rw [← s.1, ← s.2.1]
  exact r

/-- Inside the strip along the variable dimension whenever the box is not larger than the strip. -/
theorem side_box_inside (start len size off : Rat) (h0 : 0 ≤ off) (h1 : off ≤ 1) (hs : size ≤ len) :
    start ≤ start + off * (len - size) ∧ start + off * (len - size) + size ≤ start + len := by
  have hd : 0 ≤ len - size := by grind
  have hm : 0 ≤ off * (len - size) := Rat.mul_nonneg h0 hd
  have hm' : 0 ≤ (1 - off) * (len - size) := Rat.mul_nonneg (by grind) hd
  constructor
  · grind
  · grind

/-- The centred box (offset ½) has its centre on the centre of the strip, whatever its size. -/
theorem side_box_centred (start len size : Rat) :
    (start + (1 / 2 : Rat) * (len - size)) + size / 2 = start + len / 2 := by grind

example : Gen.offsets = [0, 1 / 2, 1] := by decide +kernel


/-! ## sides_alternate / blank — `initialize_page_maker`, `remake_page` -/

/-- Sides alternate -/
theorem sides_alternate (i : Nat) (nb : NextBreak) (nm : String) (rp ltr fn : Bool) :
    (remakeHead i nb nm rp ltr fn).2 = !rp ∧
    (remakeHead i nb nm rp ltr fn).1.side = (if rp then .right else .left) ∧
    (remakeHead i nb nm rp ltr fn).1.index = i := by
  simp [remakeHead]

/-- blank iff the requested side is the other one (or a footnote is pending) -/
theorem blank_iff (i : Nat) (nb : NextBreak) (nm : String) (rp ltr fn : Bool) :
    (remakeHead i nb nm rp ltr fn).1.blank =
      (fn || match nextPageSide nb ltr with
             | some s => s != (remakeHead i nb nm rp ltr fn).1.side
             | none => false) := by
  simp only [remakeHead, blankPage]
  cases nextPageSide nb ltr with
  | none => cases rp <;> cases fn <;> simp
  | some s => cases s <;> cases rp <;> cases fn <;> decide

theorem blank_has_no_name (i : Nat) (nb : NextBreak) (nm : String) (rp ltr fn : Bool) :
    (remakeHead i nb nm rp ltr fn).1.name = if (remakeHead i nb nm rp ltr fn).1.blank then "" else nm := rfl

/-- the requested side: left/right as asked; recto = right in ltr -/
theorem next_side_spec (b : Brk) (ltr : Bool) :
    nextPageSide (.brk b) ltr =
      match b with
      | .left => some .left
      | .right => some .right
      | .recto => some (if ltr then .right else .left)
      | .verso => some (if ltr then .left else .right)
      | _ => none := by
  cases b <;> cases ltr <;> rfl

theorem second_not_blank (i : Nat) (nb : NextBreak) (nm : String) (rp ltr : Bool)
    (h : (remakeHead i nb nm rp ltr false).1.blank = true) :
    (remakeHead (i + 1) nb nm (!rp) ltr false).1.blank = false := by
  simp only [remakeHead, blankPage] at *
  generalize nextPageSide nb ltr = s at *
  cases s with
  | none => cases rp <;> simp at h
  | some s => cases s <;> cases rp <;> revert h <;> decide

/-- a request yields one page, or a blank page then one page; the last is on the requested side, not blank and named -/
def sideOf (rp : Bool) : Side := if rp then .right else .left

/-- the pages made for one request, in closed form -/
theorem request_pages (i : Nat) (r : Request) (rp ltr : Bool) :
    pagesForRequest i r rp ltr =
      if blankPage (nextPageSide r.nb ltr) rp false then
        ([⟨sideOf rp, true, "", i⟩, ⟨sideOf (!rp), false, r.name, i + 1⟩], rp)
      else ([⟨sideOf rp, false, r.name, i⟩], !rp) := by
  have h2 := second_not_blank i r.nb r.name rp ltr
  simp only [pagesForRequest, remakeHead, sideOf] at *
  by_cases hb : blankPage (nextPageSide r.nb ltr) rp false = true
  · have := h2 hb
    simp [hb, this]
  · have hf : blankPage (nextPageSide r.nb ltr) rp false = false := by simpa using hb
    simp [hf]

/-- a requested side is honoured by the non-blank page -/
theorem requested_side (nb : NextBreak) (ltr rp : Bool) (s : Side) (hn : nextPageSide nb ltr = some s) :
    (if blankPage (nextPageSide nb ltr) rp false then sideOf (!rp) else sideOf rp) = s := by
  rw [hn]
  cases s <;> cases rp <;> decide

theorem init_right_page_spec (b : Brk) (ltr : Bool) :
    initRightPage b ltr =
      match b with
      | .right => true
      | .left => false
      | .verso => !ltr
      | _ => ltr := by
  cases b <;> rfl

/-- consecutive indexes from `idx`, sides alternating from `rp` -/
def Alternates : List PageHead → Nat → Bool → Prop
  | [], _, _ => True
  | h :: t, idx, rp => h.index = idx ∧ h.side = sideOf rp ∧ Alternates t (idx + 1) (!rp)

private theorem alternates_append (l1 l2 : List PageHead) (idx : Nat) (rp rp2 : Bool)
    (h1 : Alternates l1 idx rp) (hrp : rp2 = (if l1.length % 2 = 0 then rp else !rp))
    (h2 : Alternates l2 (idx + l1.length) rp2) : Alternates (l1 ++ l2) idx rp := by
  induction l1 generalizing idx rp with
  | nil => simp at hrp h2; subst hrp; simpa using h2
  | cons x xs ih =>
    obtain ⟨e1, e2, e3⟩ := h1
    refine ⟨e1, e2, ?_⟩
    apply ih (idx + 1) (!rp) e3
    · subst hrp
      simp only [List.length_cons]
      by_cases hx : xs.length % 2 = 0
      · have : (xs.length + 1) % 2 ≠ 0 := by omega
        simp [hx, this]
      · have : (xs.length + 1) % 2 = 0 := by omega
        simp [hx, this]
    · simp only [List.length_cons] at h2
      have : idx + 1 + xs.length = idx + (xs.length + 1) := by omega
      rw [this]; exact h2

theorem page_sequence_alternates (ltr : Bool) (reqs : List Request) (idx : Nat) (rp : Bool) :
    Alternates (pageSequence ltr reqs idx rp) idx rp := by
  induction reqs generalizing idx rp with
  | nil => trivial
  | cons r rs ih =>
    simp only [pageSequence]
    rw [request_pages]
    by_cases hb : blankPage (nextPageSide r.nb ltr) rp false = true
    · simp only [hb, ↓reduceIte]
      refine alternates_append _ _ idx rp rp ⟨rfl, rfl, rfl, rfl, trivial⟩ (by simp) (ih _ _)
    · have hf : blankPage (nextPageSide r.nb ltr) rp false = false := by simpa using hb
      simp only [hf, Bool.false_eq_true, ↓reduceIte]
      refine alternates_append _ _ idx rp (!rp) ⟨rfl, rfl, trivial⟩ (by simp) (ih _ _)

def noTwoBlanks : List PageHead → Bool
  | [] => true
  | [_] => true
  | a :: b :: t => !(a.blank && b.blank) && noTwoBlanks (b :: t)

theorem page_sequence_no_two_blanks (ltr : Bool) (reqs : List Request) (idx : Nat) (rp : Bool) :
    noTwoBlanks (pageSequence ltr reqs idx rp) = true := by
  induction reqs generalizing idx rp with
  | nil => rfl
  | cons r rs ih =>
    simp only [pageSequence]
    rw [request_pages]
    by_cases hb : blankPage (nextPageSide r.nb ltr) rp false = true
    · simp only [hb, ↓reduceIte, List.cons_append, List.nil_append]
      have := ih (idx + 2) rp
      cases hrest : pageSequence ltr rs (idx + 2) rp with
      | nil => simp [noTwoBlanks]
      | cons y ys => rw [hrest] at this; simp [noTwoBlanks, this]
    · have hf : blankPage (nextPageSide r.nb ltr) rp false = false := by simpa using hb
      simp only [hf, Bool.false_eq_true, ↓reduceIte, List.cons_append, List.nil_append]
      have := ih (idx + 1) (!rp)
      cases hrest : pageSequence ltr rs (idx + 1) (!rp) with
      | nil => simp [noTwoBlanks]
      | cons y ys => rw [hrest] at this; simp [noTwoBlanks, this]

example : (pagesForRequest 3 ⟨.brk .left, "chap"⟩ false true).1.length = 1 := by decide
example : (pagesForRequest 3 ⟨.brk .left, "chap"⟩ true true).1.map (·.blank) = [true, false] := by decide

/-! ## page_counter — `_standardize_page_based_counters`, `update_counters`, the `pages` update -/

private theorem getStack_setStack_same (vs : CounterValues) (n : String) (s : List Int) :
    getStack (setStack vs n s) n = some s := by
  induction vs with
  | nil => simp [setStack, getStack]
  | cons x xs ih =>
    obtain ⟨m, t⟩ := x
    simp only [setStack]
    by_cases h : (m == n) = true
    · simp [h, getStack]
    · simp [h, getStack, ih]

private theorem getStack_setStack_other (vs : CounterValues) (n m : String) (s : List Int) (h : m ≠ n) :
    getStack (setStack vs n s) m = getStack vs m := by
  induction vs with
  | nil =>
    have : (n == m) = false := by simpa using fun e => h e.symm
    simp [setStack, getStack, this]
  | cons x xs ih =>
    obtain ⟨k, t⟩ := x
    simp only [setStack]
    by_cases hk : (k == n) = true
    · have e : k = n := by simpa using hk
      subst e
      have : (k == m) = false := by simpa using fun e => h e.symm
      simp [getStack, this]
    · simp only [hk, Bool.false_eq_true, ↓reduceIte, getStack]
      split
      · rfl
      · exact ih

/-- invariant of a page state: every counter of the scope has a non-empty stack -/
def StateInv (st : CState) : Prop := ∀ n ∈ st.scope, ∃ x xs, getStack st.values n = some (x :: xs)

theorem inv_initial : StateInv initialState := by
  intro n hn
  simp [initialState] at hn
  subst hn
  exact ⟨0, [], by simp [initialState, getStack]⟩

private theorem mapLast_ne_nil (f : Int → Int) (l : List Int) (h : l ≠ []) : mapLast f l ≠ [] := by
  cases l with
  | nil => exact absurd rfl h
  | cons x xs => cases xs <;> simp [mapLast]

private theorem resetOne_inv (st : CState) (n : String) (v : Int) (h : StateInv st) :
    ∃ st', resetOne st n v = .ok st' ∧ StateInv st' := by
  unfold resetOne
  by_cases hs : st.scope.contains n = true
  · simp only [hs, ↓reduceIte]
    have hmem : n ∈ st.scope := by simpa using hs
    obtain ⟨x, xs, hx⟩ := h n hmem
    simp only [hx]
    refine ⟨_, rfl, ?_⟩
    intro m hm
    by_cases e : m = n
    · subst e
      rw [getStack_setStack_same]
      cases hd : (x :: xs).dropLast ++ [v] with
      | nil => simp at hd
      | cons y ys => exact ⟨y, ys, rfl⟩
    · rw [getStack_setStack_other _ _ _ _ e]
      exact h m hm
  · simp only [hs, Bool.false_eq_true, ↓reduceIte]
    refine ⟨_, rfl, ?_⟩
    intro m hm
    by_cases e : m = n
    · subst e
      simp only [getStack_setStack_same]
      cases hd : (getStack st.values m).getD [] ++ [v] with
      | nil => simp at hd
      | cons y ys => exact ⟨y, ys, rfl⟩
    · simp only [getStack_setStack_other _ _ _ _ e]
      simp only [List.mem_append, List.mem_singleton] at hm
      rcases hm with hm | hm
      · exact h m hm
      · exact absurd hm e

private theorem touchOne_inv (st : CState) (n : String) (f : Int → Int) (h : StateInv st) :
    ∃ st', touchOne st n f = .ok st' ∧ StateInv st' := by
  unfold touchOne
  simp only
  by_cases he : ((getStack st.values n).getD []).isEmpty = true
  · simp only [he, ↓reduceIte]
    by_cases hs : st.scope.contains n = true
    · exfalso
      have hmem : n ∈ st.scope := by simpa using hs
      obtain ⟨x, xs, hx⟩ := h n hmem
      simp [hx] at he
    · simp only [hs, Bool.false_eq_true, ↓reduceIte]
      refine ⟨_, rfl, ?_⟩
      intro m hm
      by_cases e : m = n
      · subst e
        exact ⟨f 0, [], by simp [getStack_setStack_same]⟩
      · simp only [getStack_setStack_other _ _ _ _ e]
        simp only [List.mem_append, List.mem_singleton] at hm
        rcases hm with hm | hm
        · exact h m hm
        · exact absurd hm e
  · simp only [he, Bool.false_eq_true, ↓reduceIte]
    refine ⟨_, rfl, ?_⟩
    intro m hm
    by_cases e : m = n
    · subst e
      simp only [getStack_setStack_same]
      have hne : (getStack st.values m).getD [] ≠ [] := by simpa using he
      cases hd : mapLast f ((getStack st.values m).getD []) with
      | nil => exact absurd hd (mapLast_ne_nil f _ hne)
      | cons y ys => exact ⟨y, ys, rfl⟩
    · simp only [getStack_setStack_other _ _ _ _ e]
      exact h m hm

private theorem foldlM_inv {α : Type} (g : CState → α → Except PyErr CState)
    (hg : ∀ st a, StateInv st → ∃ st', g st a = .ok st' ∧ StateInv st') (l : List α) (st : CState) (h : StateInv st) :
    ∃ st', l.foldlM g st = .ok st' ∧ StateInv st' := by
  induction l generalizing st with
  | nil => exact ⟨st, rfl, h⟩
  | cons a as ih =>
    obtain ⟨st1, e1, i1⟩ := hg st a h
    obtain ⟨st2, e2, i2⟩ := ih st1 i1
    refine ⟨st2, ?_, i2⟩
    simp only [List.foldlM_cons, bind, Except.bind, e1]
    exact e2

/-- `update_counters` never fails on a state satisfying the invariant (its `assert`s and `pop()` are
unreachable from page states) and keeps the invariant. -/
theorem update_counters_total (st : CState) (s : CStyle) (h : StateInv st) :
    ∃ st', updateCounters st s = .ok st' ∧ StateInv st' := by
  unfold updateCounters
  obtain ⟨st1, e1, i1⟩ := foldlM_inv (fun st (p : String × Int) => resetOne st p.1 p.2)
    (fun st a hi => resetOne_inv st a.1 a.2 hi) s.reset st h
  obtain ⟨st2, e2, i2⟩ := foldlM_inv (fun st (p : String × Int) => touchOne st p.1 (fun _ => p.2))
    (fun st a hi => touchOne_inv st a.1 _ hi) s.set st1 i1
  obtain ⟨st3, e3, i3⟩ := foldlM_inv (fun st (p : String × Int) => touchOne st p.1 (· + p.2))
    (fun st a hi => touchOne_inv st a.1 _ hi)
    (match s.incr with | some l => l | none => if s.listItem then [("list-item", 1)] else []) st2 i2
  refine ⟨st3, ?_, i3⟩
  simp only [bind, Except.bind]
  have e1' : List.foldlM (fun st (x : String × Int) => match x with | (n, v) => resetOne st n v) st s.reset = .ok st1 := e1
  rw [e1']
  have e2' : List.foldlM (fun st (x : String × Int) => match x with | (n, v) => touchOne st n (fun _ => v)) st1 s.set = .ok st2 := e2
  simp only [e2']
  exact e3

/-- The page states of any sequence of `@page` counter styles exist (no Python failure point is
reachable from `initialize_page_maker`'s state), one per page. -/
theorem page_states_total (styles : List RawCStyle) (st : CState) (h : StateInv st) :
    ∃ l, pageStates styles st = .ok l ∧ l.length = styles.length ∧ ∀ s ∈ l, StateInv s := by
  induction styles generalizing st with
  | nil => exact ⟨[], rfl, rfl, by simp⟩
  | cons s rest ih =>
    obtain ⟨st', e, i⟩ := update_counters_total st (standardize s true) h
    obtain ⟨l, el, hl, hi⟩ := ih st' i
    refine ⟨st' :: l, ?_, by simp [hl], ?_⟩
    · simp [pageStates, e, el]
    · intro x hx
      rcases List.mem_cons.mp hx with rfl | hx
      · exact i
      · exact hi x hx

/-- the @page style after `_standardize_page_based_counters` when only `page` is incremented by `k`:
no `counter-*` at all (`k = 1`, the implicit increment), or `counter-increment: page k` -/
def incrStyle (k : Int) : CStyle := { reset := [], set := [], incr := some [("page", k)] }

theorem standardize_default : standardize ⟨some [], some [], none⟩ true = incrStyle 1 := by
  simp [standardize, touchesPage, justify, dropPages, incrStyle]

theorem standardize_increment (k : Int) : standardize ⟨some [], some [], some [("page", k)]⟩ true = incrStyle k := by
  simp [standardize, touchesPage, justify, dropPages, incrStyle]

private theorem update_incr (st : CState) (k : Int) : updateCounters st (incrStyle k) = touchOne st "page" (· + k) := by
  simp [updateCounters, incrStyle, List.foldlM, bind, Except.bind, pure, Except.pure]
  cases touchOne st "page" (· + k) <;> rfl

/-- first page: the counter does not exist yet -/
private theorem touch_first (st : CState) (k : Int) (h1 : getStack st.values "page" = none) (h2 : ¬ "page" ∈ st.scope) :
    ∃ st', touchOne st "page" (· + k) = .ok st' ∧ getStack st'.values "page" = some [k] := by
  refine ⟨{ values := setStack st.values "page" [k], scope := st.scope ++ ["page"] }, ?_, ?_⟩
  · simp [touchOne, h1, h2]
  · simp [getStack_setStack_same]

private theorem touch_next (st : CState) (k v : Int) (h1 : getStack st.values "page" = some [v]) :
    ∃ st', touchOne st "page" (· + k) = .ok st' ∧ getStack st'.values "page" = some [v + k] := by
  refine ⟨{ st with values := setStack st.values "page" [v + k] }, ?_, ?_⟩
  · simp [touchOne, h1, mapLast]
  · simp [getStack_setStack_same]

private theorem page_states_incr_aux (raw : RawCStyle) (k : Int) (hs : standardize raw true = incrStyle k)
    (n : Nat) (st : CState) (v : Int) (h : getStack st.values "page" = some [v]) :
    ∃ l, pageStates (List.replicate n raw) st = .ok l ∧ l.length = n ∧
      ∀ i (hi : i < l.length), getStack l[i].values "page" = some [v + k * (i + 1)] := by
  induction n generalizing st v with
  | zero => exact ⟨[], rfl, rfl, by simp⟩
  | succ n ih =>
    obtain ⟨st', e, hv⟩ := touch_next st k v h
    obtain ⟨l, el, hl, hi⟩ := ih st' (v + k) hv
    refine ⟨st' :: l, ?_, by simp [hl], ?_⟩
    · simp [List.replicate_succ, pageStates, hs, update_incr, e, el]
    · intro i hi'
      cases i with
      | zero => simp [hv]
      | succ j =>
        simp only [List.getElem_cons_succ]
        have := hi j (by simpa using hi')
        rw [this]
        congr 2
        have hc : ((j + 1 : Nat) : Int) = (j : Int) + 1 := by omega
        rw [hc, Int.mul_add k ((j : Int) + 1) 1, Int.mul_one]
        omega

/-- By induction over the pages: when every page's `@page` style only increments `page` by `k`
(`k = 1`: no `counter-*` on `@page` at all), page `i` (0-based) has `counter(page) = k·(i+1)`. -/
theorem page_counter_incr (raw : RawCStyle) (k : Int) (hs : standardize raw true = incrStyle k) (n : Nat) :
    ∃ l, pageStates (List.replicate n raw) initialState = .ok l ∧ l.length = n ∧
      ∀ i (hi : i < l.length), counterValue l[i] "page" = .ok (k * (i + 1)) := by
  cases n with
  | zero => exact ⟨[], rfl, rfl, by simp⟩
  | succ n =>
    obtain ⟨st', e, hv⟩ := touch_first initialState k (by simp [initialState, getStack]) (by simp [initialState])
    obtain ⟨l, el, hl, hi⟩ := page_states_incr_aux raw k hs n st' k hv
    refine ⟨st' :: l, ?_, by simp [hl], ?_⟩
    · simp [List.replicate_succ, pageStates, hs, update_incr, e, el]
    · intro i hi'
      cases i with
      | zero => simp [counterValue, hv]
      | succ j =>
        simp only [List.getElem_cons_succ]
        have := hi j (by simpa using hi')
        simp only [counterValue, this, List.getLast?_singleton]
        congr 1
        have hc : ((j + 1 : Nat) : Int) = (j : Int) + 1 := by omega
        rw [hc, Int.mul_add k ((j : Int) + 1) 1, Int.mul_one]
        omega

/-- `counter(page)` numbers the pages from 1 when no `counter-*` is set on `@page`. -/
theorem page_counter_default (n : Nat) :
    ∃ l, pageStates (List.replicate n ⟨some [], some [], none⟩) initialState = .ok l ∧ l.length = n ∧
      ∀ i (hi : i < l.length), counterValue l[i] "page" = .ok ((i : Int) + 1) := by
  obtain ⟨l, e, hl, hi⟩ := page_counter_incr _ 1 standardize_default n
  exact ⟨l, e, hl, fun i h => by rw [hi i h, Int.one_mul]⟩

/-- `counter(pages)`: after the last pass every page state carries the final page count, and this
does not disturb any other counter. -/
theorem pages_counter (st : CState) (n : Nat) :
    counterValue (setPages st n) "pages" = .ok (n : Int) ∧
    ∀ name, name ≠ "pages" → counterValue (setPages st n) name = counterValue st name := by
  constructor
  · simp [counterValue, setPages, getStack_setStack_same]
  · intro name hne
    simp [counterValue, setPages, getStack_setStack_other _ _ _ _ hne]

/-- `pages` cannot be manipulated from `@page` or margin-box styles. -/
theorem standardize_drops_pages (s : RawCStyle) (isPage : Bool) :
    (∀ p ∈ (standardize s isPage).reset, p.1 ≠ "pages") ∧ (∀ p ∈ (standardize s isPage).set, p.1 ≠ "pages") ∧
    (∀ l, (standardize s isPage).incr = some l → ∀ p ∈ l, p.1 ≠ "pages") := by
  have hj : ∀ (l : Option (List (String × Int))), ∀ p ∈ justify l, p.1 ≠ "pages" := by
    intro l p hp
    cases l with
    | none => simp [justify] at hp
    | some l =>
      simp only [justify, dropPages, List.mem_filter] at hp
      simpa using hp.2
  refine ⟨hj _, hj _, ?_⟩
  intro l hl p hp
  simp only [standardize, Option.some.injEq] at hl
  subst hl
  split at hp
  · rcases List.mem_cons.mp hp with rfl | hp
    · decide
    · exact hj _ p hp
  · exact hj _ p hp

example : (match pageStates (List.replicate 3 ⟨some [], some [], none⟩) initialState with
    | .ok l => l.map (fun st => getStack st.values "page") == [some [1], some [2], some [3]]
    | .error _ => false) = true := by decide

/-! ## strings — `get_string_or_element_for`;  pdf_boxes — `generate_pdf` -/

/-! strings -/

/-- On a page with assignments. -/
theorem strings_on_page (s : NameStore) (cur : Nat) (chain : List Bool) (v : String) (vs : List String)
    (h : storeGet s cur = some (v :: vs)) :
    getStringFor s cur .first chain = .ok (some v) ∧
    getStringFor s cur .last chain = .ok ((v :: vs).getLast?) ∧
    getStringFor s cur .firstExcept chain = .ok none ∧
    (chain.any id = true → getStringFor s cur .start chain = .ok (some v)) ∧
    (chain.any id = false → getStringFor s cur .start chain = searchBack s (cur - 1)) := by
  have hl : ∃ l, (v :: vs).getLast? = some l := by
    cases hq : (v :: vs).getLast? with
    | none => simp at hq
    | some l => exact ⟨l, rfl⟩
  obtain ⟨l, hl⟩ := hl
  refine ⟨?_, ?_, ?_, ?_, ?_⟩
  · simp [getStringFor, h, hl]
  · simp [getStringFor, h, hl]
  · simp [getStringFor, h, hl]
  · intro hany
    simp only [getStringFor, h, hl, List.head?_cons, hany, ↓reduceIte]
  · intro hany
    simp only [getStringFor, h, hl, List.head?_cons, hany, Bool.false_eq_true, ↓reduceIte]

/-- Without assignment on the page: whatever the keyword, the search goes backwards. -/
theorem strings_off_page (s : NameStore) (cur : Nat) (kw : Keyword) (chain : List Bool) (h : storeGet s cur = none) :
    getStringFor s cur kw chain = searchBack s (cur - 1) := by
  simp [getStringFor, h]

/-- the backward search returns the last value of the nearest earlier page that has one -/
theorem search_back_found (s : NameStore) (p q : Nat) (vals : List String) (v : String)
    (hq : 1 ≤ q ∧ q ≤ p) (hs : storeGet s q = some vals) (hv : vals.getLast? = some v)
    (hnone : ∀ r, q < r → r ≤ p → storeGet s r = none) : searchBack s p = .ok (some v) := by
  induction p with
  | zero => omega
  | succ p ih =>
    by_cases e : q = p + 1
    · subst e
      simp [searchBack, hs, hv]
    · have h1 : storeGet s (p + 1) = none := hnone (p + 1) (by omega) (by omega)
      simp only [searchBack, h1]
      exact ih ⟨hq.1, by omega⟩ (fun r hr hr' => hnone r hr (by omega))

theorem search_back_none (s : NameStore) (p : Nat) (h : ∀ r, 1 ≤ r → r ≤ p → storeGet s r = none) :
    searchBack s p = .ok none := by
  induction p with
  | zero => rfl
  | succ p ih =>
    simp only [searchBack, h (p + 1) (by omega) (by omega)]
    exact ih (fun r h1 h2 => h r h1 (by omega))

/-- total when every stored list is non-empty (as `layout_document` builds them) -/
theorem strings_total (s : NameStore) (cur : Nat) (kw : Keyword) (chain : List Bool)
    (hne : ∀ p vals, storeGet s p = some vals → vals ≠ []) : ∃ r, getStringFor s cur kw chain = .ok r := by
  have back : ∀ p, ∃ r, searchBack s p = .ok r := by
    intro p
    induction p with
    | zero => exact ⟨none, rfl⟩
    | succ p ih =>
      cases hq : storeGet s (p + 1) with
      | none => simpa [searchBack, hq] using ih
      | some vals =>
        have := hne _ _ hq
        cases hl : vals.getLast? with
        | none => simp at hl; exact absurd hl this
        | some v => exact ⟨some v, by simp [searchBack, hq, hl]⟩
  cases hc : storeGet s cur with
  | none => simpa [getStringFor, hc] using back (cur - 1)
  | some vals =>
    have hv := hne _ _ hc
    cases vals with
    | nil => exact absurd rfl hv
    | cons v vs =>
      have hl : ∃ l, (v :: vs).getLast? = some l := by
        cases hq : (v :: vs).getLast? with
        | none => simp at hq
        | some l => exact ⟨l, rfl⟩
      obtain ⟨l, hl⟩ := hl
      obtain ⟨rb, hb⟩ := back (cur - 1)
      cases kw <;> simp [getStringFor, hc, hl, hb]
      split <;> simp

/-! pdf -/

theorem pdf_boxes (w h : Rat) (b : Bleed) (zoom : Rat) :
    (pageBoxes w h b zoom).trim = ⟨0, 0, scaleOf zoom * w, scaleOf zoom * h⟩ ∧
    (pageBoxes w h b zoom).media =
      ⟨-(scaleOf zoom * b.left), -(scaleOf zoom * b.top), scaleOf zoom * (w + b.right), scaleOf zoom * (h + b.bottom)⟩ := by
  constructor <;> simp [pageBoxes, Rect.mk.injEq] <;> grind

/-- BleedBox lies between TrimBox and MediaBox, at most `10 · zoom` points outside the TrimBox (the cap
scales with zoom like every other coordinate: repaired by d924a7c, before it was the constant 10). -/
theorem bleed_box_between (w h : Rat) (b : Bleed) (zoom : Rat) (hz : 0 ≤ zoom)
    (hb : 0 ≤ b.top ∧ 0 ≤ b.right ∧ 0 ≤ b.bottom ∧ 0 ≤ b.left) :
    let bx := pageBoxes w h b zoom
    bx.media.x0 ≤ bx.bleed.x0 ∧ bx.bleed.x0 ≤ bx.trim.x0 ∧ bx.trim.x0 - bx.bleed.x0 ≤ 10 * zoom ∧
    bx.media.y0 ≤ bx.bleed.y0 ∧ bx.bleed.y0 ≤ bx.trim.y0 ∧ bx.trim.y0 - bx.bleed.y0 ≤ 10 * zoom ∧
    bx.trim.x1 ≤ bx.bleed.x1 ∧ bx.bleed.x1 ≤ bx.media.x1 ∧ bx.bleed.x1 - bx.trim.x1 ≤ 10 * zoom ∧
    bx.trim.y1 ≤ bx.bleed.y1 ∧ bx.bleed.y1 ≤ bx.media.y1 ∧ bx.bleed.y1 - bx.trim.y1 ≤ 10 * zoom := by
  have hs : 0 ≤ scaleOf zoom := by unfold scaleOf; exact Rat.mul_nonneg hz (by grind)
  have h1 := Rat.mul_nonneg hb.1 hs
  have h2 := Rat.mul_nonneg hb.2.1 hs
  have h3 := Rat.mul_nonneg hb.2.2.1 hs
  have h4 := Rat.mul_nonneg hb.2.2.2 hs
  simp only [pageBoxes]
  refine ⟨?_, ?_, ?_, ?_, ?_, ?_, ?_, ?_, ?_, ?_, ?_, ?_⟩ <;> grind

/-- The BleedBox exactly: each edge is `min (10 · zoom) (bleed · scale)` outside the TrimBox. -/
theorem bleed_box_exact (w h : Rat) (b : Bleed) (zoom : Rat) :
    let bx := pageBoxes w h b zoom
    let s := scaleOf zoom
    bx.bleed = ⟨bx.trim.x0 - min (10 * zoom) (b.left * s), bx.trim.y0 - min (10 * zoom) (b.top * s),
                bx.trim.x1 + min (10 * zoom) (b.right * s), bx.trim.y1 + min (10 * zoom) (b.bottom * s)⟩ := by
  simp only [pageBoxes]

private theorem min_mul_nonneg (k x y : Rat) (hk : 0 ≤ k) : min (k * x) (k * y) = k * min x y := by
  by_cases hxy : x ≤ y
  · have : k * x ≤ k * y := Rat.mul_le_mul_of_nonneg_left hxy hk
    rw [Rat.min_def, Rat.min_def]; simp [hxy, this]
  · have hyx : y ≤ x := Rat.le_of_lt (Rat.not_le.mp hxy)
    have h2 : k * y ≤ k * x := Rat.mul_le_mul_of_nonneg_left hyx hk
    rw [Rat.min_def, Rat.min_def]
    by_cases h3 : k * x ≤ k * y
    · have : k * x = k * y := Rat.le_antisymm h3 h2
      simp [hxy, h3, this]
    · simp [hxy, h3]

/-- **Zoom is a uniform scale of all three PDF page boxes** (full strength since repair d924a7c; before,
the constant 10pt cap of the BleedBox broke it — C19 finding `bleedbox-cap-not-zoomed`): the boxes at zoom
`k · zoom` are `k` times the boxes at `zoom`, for every `k ≥ 0`. -/
theorem page_boxes_zoom_homogeneous (w h : Rat) (b : Bleed) (zoom k : Rat) (hk : 0 ≤ k) :
    (pageBoxes w h b (k * zoom)).media = (pageBoxes w h b zoom).media.scale k ∧
    (pageBoxes w h b (k * zoom)).trim = (pageBoxes w h b zoom).trim.scale k ∧
    (pageBoxes w h b (k * zoom)).bleed = (pageBoxes w h b zoom).bleed.scale k := by
  have hm : ∀ x : Rat, min (10 * (k * zoom)) (x * scaleOf (k * zoom)) = k * min (10 * zoom) (x * scaleOf zoom) := by
    intro x
    rw [← min_mul_nonneg k _ _ hk]
    congr 1
    · grind
    · unfold scaleOf; grind
  refine ⟨?_, ?_, ?_⟩
  · simp only [pageBoxes, Rect.scale, Rect.mk.injEq, scaleOf]
    refine ⟨?_, ?_, ?_, ?_⟩ <;> grind
  · simp only [pageBoxes, Rect.scale, Rect.mk.injEq, scaleOf]
    refine ⟨?_, ?_, ?_, ?_⟩ <;> grind
  · simp only [pageBoxes, Rect.scale, Rect.mk.injEq, hm]
    simp only [scaleOf]
    refine ⟨?_, ?_, ?_, ?_⟩ <;> grind

/-- Regression case of the repaired cap: `@page { size: 100px; bleed: 20px }` — BleedBox `[-10 -10 85 85]`
at zoom 1 and exactly twice that at zoom 2 (it was `[-10 -10 160 160]` before d924a7c). -/
example : (pageBoxes 100 100 ⟨20, 20, 20, 20⟩ 1).bleed = ⟨-10, -10, 85, 85⟩ ∧
    (pageBoxes 100 100 ⟨20, 20, 20, 20⟩ 2).bleed = ⟨-20, -20, 170, 170⟩ := by decide +kernel

example : getStringFor [(1, ["a", "b"]), (3, ["c"])] 2 .first [] = .ok (some "b") := by
  simp [getStringFor, storeGet, searchBack]
example : getStringFor [(1, ["a", "b"]), (3, ["c"])] 1 .start [false, true] = .ok (some "a") := by
  simp [getStringFor, storeGet]

/-- MediaBox is the image of the CSS bleed area `[-bl, W+br] × [-bt, H+bb]` under the page
transformation `(x, y) ↦ (s·x, s·(H − y))` — **only when `bleed-top = bleed-bottom`**: the code uses
`bleed-top` for the lower edge and `bleed-bottom` for the upper one although the PDF y axis points
up (see `Witness.C14.media_box_mirrored`, known finding `media-box-vertical-mirror`).
Full statement (false of the code): the same without the hypothesis `hsym`. -/
theorem media_box_is_bleed_area_partial (w h : Rat) (b : Bleed) (zoom : Rat) (hsym : b.top = b.bottom) :
    let s := scaleOf zoom
    (pageBoxes w h b zoom).media = ⟨s * (-b.left), s * (h - (h + b.bottom)), s * (w + b.right), s * (h - (-b.top))⟩ := by
  simp only [pageBoxes, Rect.mk.injEq, hsym]
  refine ⟨?_, ?_, ?_, ?_⟩ <;> grind

/-- TrimBox is the image of the page box `[0, W] × [0, H]` under the same transformation, at every zoom. -/
theorem trim_box_is_page_box (w h : Rat) (b : Bleed) (zoom : Rat) :
    let s := scaleOf zoom
    (pageBoxes w h b zoom).trim = ⟨s * 0, s * (h - h), s * w, s * (h - 0)⟩ := by
  simp only [pageBoxes, Rect.mk.injEq]
  refine ⟨?_, ?_, ?_, ?_⟩ <;> grind

/-! ## page_selectors / page_specificity — `_page_type_match`, `add_page_declarations` -/

/-- `:nth(an+b)` selects exactly the pages whose 1-based number is `a·n + b` for some `n ≥ 0` -/
theorem nth_match_iff (a b : Int) (index : Nat) :
    nthMatch a b index = true ↔ ∃ n : Nat, (index : Int) + 1 = a * n + b := by
  unfold nthMatch
  simp only
  by_cases ha : a = 0
  · subst ha
    simp only [↓reduceIte, beq_iff_eq, Int.zero_mul, Int.zero_add]
    constructor
    · intro h; exact ⟨0, by omega⟩
    · rintro ⟨_, h⟩; omega
  · simp only [ha, ↓reduceIte, Bool.and_eq_true, decide_eq_true_eq, beq_iff_eq]
    have hsq : 0 < a * a := by
      rcases Int.lt_or_gt_of_ne ha with h | h
      · exact Int.mul_pos_of_neg_of_neg h h
      · exact Int.mul_pos h h
    constructor
    · rintro ⟨hsign, hmod⟩
      obtain ⟨k, hk⟩ := Int.dvd_of_emod_eq_zero hmod
      have hk0 : 0 ≤ k := by
        rw [hk] at hsign
        have e : a * k * a = a * a * k := by rw [Int.mul_assoc, Int.mul_comm k a, ← Int.mul_assoc]
        rw [e] at hsign
        by_cases hk' : k < 0
        · have := Int.mul_neg_of_pos_of_neg hsq hk'
          omega
        · omega
      refine ⟨k.toNat, ?_⟩
      rw [Int.toNat_of_nonneg hk0]
      omega
    · rintro ⟨n, hn⟩
      have hoff : (index : Int) + 1 - b = a * n := by omega
      rw [hoff]
      constructor
      · have e : a * (n : Int) * a = a * a * n := by rw [Int.mul_assoc, Int.mul_comm (n : Int) a, ← Int.mul_assoc]
        rw [e]
        exact Int.mul_nonneg (Int.le_of_lt hsq) (Int.natCast_nonneg n)
      · exact Int.mul_emod_right a n

example : nthMatch 2 1 4 = true := by decide

/-- `:first` is page index 0, `:blank` the computed blank flag, `:left`/`:right` the page side, a name the page name -/
theorem simple_selectors (p : PageType) :
    (pageTypeMatch { first := true } p = (p.index == 0)) ∧
    (pageTypeMatch { blank := true } p = p.blank) ∧
    (∀ s, pageTypeMatch { side := some s } p = (s == p.side)) ∧
    (∀ n, pageTypeMatch { name := some n } p = (n == p.name)) ∧
    (pageTypeMatch {} p = true) := by
  refine ⟨?_, ?_, ?_, ?_, ?_⟩
  · cases h : p.index <;> simp [pageTypeMatch, h]
  · cases h : p.blank <;> simp [pageTypeMatch, h]
  · intro s; by_cases h : s = p.side <;> simp [pageTypeMatch, h]
  · intro n; by_cases h : n = p.name <;> simp [pageTypeMatch, h]
  · simp [pageTypeMatch]

/-- a conjunction of simple selectors matches iff each part does -/
theorem compound_selector (s : Sel) (p : PageType) :
    pageTypeMatch s p =
      ((match s.side with | none => true | some sd => sd == p.side) &&
       (!s.blank || p.blank) && (!s.first || p.index == 0) &&
       (match s.name with | none => true | some n => n == p.name) &&
       (match s.index with
        | none => true
        | some (a, b, none) => nthMatch a b p.index
        | some (a, b, some g) => g == p.name && p.groups.any (fun x => x.1 == g && nthMatch a b x.2))) := by
  unfold pageTypeMatch
  cases hs : s.side <;> cases hb : s.blank <;> cases hf : s.first <;> cases hn : s.name <;>
    simp <;> (try split) <;> simp_all <;> grind

/-! specificity and the weight fold -/

theorem weight_le_iff (x y : Weight) :
    x.le y = true ↔
      (x.prec < y.prec ∨ (x.prec = y.prec ∧ (x.spec.1 < y.spec.1 ∨ (x.spec.1 = y.spec.1 ∧
        (x.spec.2.1 < y.spec.2.1 ∨ (x.spec.2.1 = y.spec.2.1 ∧ x.spec.2.2 ≤ y.spec.2.2)))))) := by
  unfold Weight.le
  by_cases h1 : x.prec = y.prec <;> by_cases h2 : x.spec.1 = y.spec.1 <;> by_cases h3 : x.spec.2.1 = y.spec.2.1 <;>
    simp [h1, h2, h3] <;> omega

theorem weight_le_total (x y : Weight) : x.le y = true ∨ y.le x = true := by
  rw [weight_le_iff, weight_le_iff]; omega

theorem weight_le_trans (x y z : Weight) (h1 : x.le y = true) (h2 : y.le z = true) : x.le z = true := by
  rw [weight_le_iff] at *; omega

theorem weight_le_refl (x : Weight) : x.le x = true := by
  rw [weight_le_iff]; omega

/-- page specificity: a page name outranks any number of pseudo-classes, `:first` / `:blank` / `:nth()`
outrank any number of `:left` / `:right` (lexicographic order of the triple); origin and importance
come first -/
theorem page_specificity (prec : Nat) (a b c a' b' c' : Nat) :
    (a < a' → (Weight.mk prec (a, b, c)).le ⟨prec, (a', b', c')⟩ = true ∧ (Weight.mk prec (a', b', c')).le ⟨prec, (a, b, c)⟩ = false) ∧
    (a = a' → b < b' → (Weight.mk prec (a, b, c)).le ⟨prec, (a', b', c')⟩ = true ∧
        (Weight.mk prec (a', b', c')).le ⟨prec, (a, b, c)⟩ = false) := by
  constructor
  · intro h
    constructor
    · rw [weight_le_iff]; simp; omega
    · rw [← Bool.not_eq_true, weight_le_iff]; simp; omega
  · intro h1 h2
    constructor
    · rw [weight_le_iff]; simp; omega
    · rw [← Bool.not_eq_true, weight_le_iff]; simp; omega

theorem precedence_order :
    declarationPrecedence .userAgent false < declarationPrecedence .user false ∧
    declarationPrecedence .user false < declarationPrecedence .author false ∧
    declarationPrecedence .author false < declarationPrecedence .author true ∧
    declarationPrecedence .author true < declarationPrecedence .user true ∧
    declarationPrecedence .userAgent true = declarationPrecedence .userAgent false := by decide

section cascade
variable {α : Type}

private theorem get_set_same (c : Cascaded α) (n : String) (v : α) (w : Weight) : (c.set n v w).get n = some (v, w) := by
  induction c with
  | nil => simp [Cascaded.set, Cascaded.get]
  | cons x xs ih =>
    obtain ⟨m, v', w'⟩ := x
    simp only [Cascaded.set]
    by_cases h : (m == n) = true
    · simp [h, Cascaded.get]
    · simp [h, Cascaded.get, ih]

private theorem get_set_other (c : Cascaded α) (n m : String) (v : α) (w : Weight) (h : m ≠ n) :
    (c.set n v w).get m = c.get m := by
  induction c with
  | nil =>
    have : (n == m) = false := by simpa using fun e => h e.symm
    simp [Cascaded.set, Cascaded.get, this]
  | cons x xs ih =>
    obtain ⟨k, v', w'⟩ := x
    simp only [Cascaded.set]
    by_cases hk : (k == n) = true
    · have e : k = n := by simpa using hk
      subst e
      have : (k == m) = false := by simpa using fun e => h e.symm
      simp [Cascaded.get, this]
    · simp only [hk, Bool.false_eq_true, ↓reduceIte, Cascaded.get]
      split
      · rfl
      · exact ih

/-- what the fold maintains: the stored declaration of a name is one of those seen, and no seen
declaration of that name outweighs it; every seen name is stored -/
private def CascInv (c : Cascaded α) (seen : List (String × α × Weight)) : Prop :=
  (∀ n v w, c.get n = some (v, w) → (n, v, w) ∈ seen ∧ ∀ v' w', (n, v', w') ∈ seen → w'.le w = true) ∧
  (∀ n v' w', (n, v', w') ∈ seen → ∃ v w, c.get n = some (v, w))

private theorem applyDecl_inv (c : Cascaded α) (seen : List (String × α × Weight)) (n : String) (v : α) (w : Weight)
    (h : CascInv c seen) : CascInv (applyDecl c n v w) (seen ++ [(n, v, w)]) := by
  obtain ⟨h1, h2⟩ := h
  unfold applyDecl
  cases hc : c.get n with
  | none =>
    simp only
    constructor
    · intro m v1 w1 hm
      by_cases e : m = n
      · subst e
        rw [get_set_same] at hm
        simp only [Option.some.injEq, Prod.mk.injEq] at hm
        obtain ⟨rfl, rfl⟩ := hm
        refine ⟨by simp, ?_⟩
        intro v' w' hin
        rcases List.mem_append.mp hin with hin | hin
        · obtain ⟨v2, w2, e2⟩ := h2 _ _ _ hin
          rw [hc] at e2; cases e2
        · simp only [List.mem_singleton, Prod.mk.injEq] at hin
          rw [hin.2.2]; exact weight_le_refl _
      · rw [get_set_other _ _ _ _ _ e] at hm
        obtain ⟨i1, i2⟩ := h1 _ _ _ hm
        refine ⟨List.mem_append_left _ i1, ?_⟩
        intro v' w' hin
        rcases List.mem_append.mp hin with hin | hin
        · exact i2 _ _ hin
        · simp only [List.mem_singleton, Prod.mk.injEq] at hin
          exact absurd hin.1 e
    · intro m v' w' hin
      by_cases e : m = n
      · subst e; exact ⟨v, w, get_set_same _ _ _ _⟩
      · rw [get_set_other _ _ _ _ _ e]
        rcases List.mem_append.mp hin with hin | hin
        · exact h2 _ _ _ hin
        · simp only [List.mem_singleton, Prod.mk.injEq] at hin
          exact absurd hin.1 e
  | some old =>
    obtain ⟨v0, w0⟩ := old
    simp only
    obtain ⟨i1, i2⟩ := h1 _ _ _ hc
    by_cases hle : w0.le w = true
    · simp only [hle, ↓reduceIte]
      constructor
      · intro m v1 w1 hm
        by_cases e : m = n
        · subst e
          rw [get_set_same] at hm
          simp only [Option.some.injEq, Prod.mk.injEq] at hm
          obtain ⟨rfl, rfl⟩ := hm
          refine ⟨by simp, ?_⟩
          intro v' w' hin
          rcases List.mem_append.mp hin with hin | hin
          · exact weight_le_trans _ _ _ (i2 _ _ hin) hle
          · simp only [List.mem_singleton, Prod.mk.injEq] at hin
            rw [hin.2.2]; exact weight_le_refl _
        · rw [get_set_other _ _ _ _ _ e] at hm
          obtain ⟨j1, j2⟩ := h1 _ _ _ hm
          refine ⟨List.mem_append_left _ j1, ?_⟩
          intro v' w' hin
          rcases List.mem_append.mp hin with hin | hin
          · exact j2 _ _ hin
          · simp only [List.mem_singleton, Prod.mk.injEq] at hin
            exact absurd hin.1 e
      · intro m v' w' hin
        by_cases e : m = n
        · subst e; exact ⟨v, w, get_set_same _ _ _ _⟩
        · rw [get_set_other _ _ _ _ _ e]
          rcases List.mem_append.mp hin with hin | hin
          · exact h2 _ _ _ hin
          · simp only [List.mem_singleton, Prod.mk.injEq] at hin
            exact absurd hin.1 e
    · simp only [hle, Bool.false_eq_true, ↓reduceIte]
      have hgt : w.le w0 = true := by
        rcases weight_le_total w0 w with h | h
        · exact absurd h hle
        · exact h
      constructor
      · intro m v1 w1 hm
        obtain ⟨j1, j2⟩ := h1 _ _ _ hm
        refine ⟨List.mem_append_left _ j1, ?_⟩
        intro v' w' hin
        rcases List.mem_append.mp hin with hin | hin
        · exact j2 _ _ hin
        · simp only [List.mem_singleton, Prod.mk.injEq] at hin
          obtain ⟨rfl, _, rfl⟩ := hin
          rw [hc] at hm
          simp only [Option.some.injEq, Prod.mk.injEq] at hm
          rw [← hm.2]; exact hgt
      · intro m v' w' hin
        rcases List.mem_append.mp hin with hin | hin
        · exact h2 _ _ _ hin
        · simp only [List.mem_singleton, Prod.mk.injEq] at hin
          obtain ⟨rfl, _, _⟩ := hin
          exact ⟨v0, w0, hc⟩

private theorem fold_inv (ds : List (String × α × Weight)) (c : Cascaded α) (seen : List (String × α × Weight))
    (h : CascInv c seen) :
    CascInv (ds.foldl (fun c (d : String × α × Weight) => applyDecl c d.1 d.2.1 d.2.2) c) (seen ++ ds) := by
  induction ds generalizing c seen with
  | nil => simpa using h
  | cons d ds ih =>
    simp only [List.foldl_cons]
    have := ih _ _ (applyDecl_inv c seen d.1 d.2.1 d.2.2 h)
    simpa using this

/-- The cascade of `add_page_declarations` refines the spec order: the value kept for a property is
a declared one, no declaration of that property outweighs it, and every declared property is kept. -/
theorem cascade_winner (ds : List (String × α × Weight)) :
    let c := ds.foldl (fun c (d : String × α × Weight) => applyDecl c d.1 d.2.1 d.2.2) []
    (∀ n v w, c.get n = some (v, w) → (n, v, w) ∈ ds ∧ ∀ v' w', (n, v', w') ∈ ds → w'.le w = true) ∧
    (∀ n v' w', (n, v', w') ∈ ds → ∃ v w, c.get n = some (v, w)) := by
  have h0 : CascInv ([] : Cascaded α) [] := ⟨by intro n v w h; simp [Cascaded.get] at h, by simp⟩
  have := fold_inv ds [] [] h0
  simp only [List.nil_append] at this
  exact this

/-- Ties go to the later declaration (`old_weight <= weight`). -/
theorem cascade_tie_later_wins (c : Cascaded α) (n : String) (v0 v : α) (w : Weight) (h : c.get n = some (v0, w)) :
    (applyDecl c n v w).get n = some (v, w) := by
  simp [applyDecl, h, weight_le_refl, get_set_same]

end cascade

/-- the weighted declarations that apply to `(page_type, pseudo_type)`, in sheet order -/
def weightedDecls {α : Type} (rules : List (PageRule α)) (p : PageType) (pseudo : String) : List (String × α × Weight) :=
  rules.flatMap (fun r =>
    if r.pseudo == pseudo && pageTypeMatch r.sel p then
      r.decls.map (fun d => (d.1, d.2.1, ⟨declarationPrecedence r.origin d.2.2, r.sel.spec⟩))
    else [])

theorem add_page_declarations_is_fold {α : Type} (rules : List (PageRule α)) (p : PageType) (pseudo : String) :
    addPageDeclarations rules p pseudo =
      (weightedDecls rules p pseudo).foldl (fun c (d : String × α × Weight) => applyDecl c d.1 d.2.1 d.2.2) [] := by
  unfold addPageDeclarations weightedDecls
  rw [List.foldl_flatMap]
  congr 1
  funext c r
  split
  · rw [List.foldl_map]
  · rfl


/-! ## page_specificity on the parser — `parse_page_selectors` -/

/-- what a selector constrains is reflected in its specificity -/
def SpecSound (s : Sel) : Prop :=
  (s.side.isSome → 1 ≤ s.spec.2.2) ∧ ((s.blank = true ∨ s.first = true ∨ s.index.isSome) → 1 ≤ s.spec.2.1) ∧
  (s.name.isSome → 1 ≤ s.spec.1)

private theorem sound_side (s : Sel) (l : String) (h : SpecSound s) : SpecSound (bump2 { s with side := some l }) := by
  obtain ⟨h1, h2, h3⟩ := h
  refine ⟨?_, ?_, ?_⟩ <;> simp_all [bump2]

private theorem sound_blank (s : Sel) (h : SpecSound s) : SpecSound (bump1 { s with blank := true }) := by
  obtain ⟨h1, h2, h3⟩ := h
  refine ⟨?_, ?_, ?_⟩ <;> simp_all [bump1]

private theorem sound_first (s : Sel) (h : SpecSound s) : SpecSound (bump1 { s with first := true }) := by
  obtain ⟨h1, h2, h3⟩ := h
  refine ⟨?_, ?_, ?_⟩ <;> simp_all [bump1]

private theorem sound_index (s : Sel) (ix : Int × Int × Option String) (h : SpecSound s) :
    SpecSound (bump1 { s with index := some ix }) := by
  obtain ⟨h1, h2, h3⟩ := h
  refine ⟨?_, ?_, ?_⟩ <;> simp_all [bump1]

private theorem sound_bump0 (s : Sel) (h : SpecSound s) : SpecSound (bump0 s) := by
  obtain ⟨h1, h2, h3⟩ := h
  refine ⟨?_, ?_, ?_⟩
  · simpa [bump0] using h1
  · simpa [bump0] using h2
  · intro _; simp [bump0]

/-- The specificity computed by `parse_page_selectors` is sound (everything a selector constrains
counts in the right component), and the inner loop consumes tokens (so the outer loop terminates). -/
theorem parseInner_sound (toks : List Tok) (types : Sel) (h : SpecSound types) (t' : Sel) (rest : List Tok)
    (hp : parseInner toks types = .ok (t', rest)) : SpecSound t' ∧ rest.length ≤ toks.length := by
  fun_induction parseInner toks types generalizing t' rest
  case case1 => simp only [PRes.ok.injEq, Prod.mk.injEq] at hp; obtain ⟨rfl, rfl⟩ := hp; exact ⟨h, Nat.le_refl _⟩
  case case4 ih =>
    obtain ⟨a, b⟩ := ih (sound_side _ _ h) t' rest hp
    exact ⟨a, by simp only [List.length_cons]; omega⟩
  case case5 ih =>
    obtain ⟨a, b⟩ := ih (sound_side _ _ h) t' rest hp
    exact ⟨a, by simp only [List.length_cons]; omega⟩
  case case6 ih =>
    obtain ⟨a, b⟩ := ih (sound_blank _ h) t' rest hp
    exact ⟨a, by simp only [List.length_cons]; omega⟩
  case case7 ih =>
    obtain ⟨a, b⟩ := ih (sound_first _ h) t' rest hp
    exact ⟨a, by simp only [List.length_cons]; omega⟩
  case case12 ih =>
    rename_i types0 _ _ _ _ _ a b group _ types1 types2
    have s1 : SpecSound types2 := by
      have base : SpecSound types1 := sound_index types0 (a, b, group) h
      cases group with
      | none => simpa only [types2] using base
      | some g =>
        simp only [types2]
        split
        · exact base
        · exact sound_bump0 _ base
    obtain ⟨x, y⟩ := ih s1 t' rest hp
    exact ⟨x, by simp only [List.length_cons]; omega⟩
  case case14 =>
    simp only [PRes.ok.injEq, Prod.mk.injEq] at hp; obtain ⟨rfl, rfl⟩ := hp
    exact ⟨h, by simp⟩
  case case16 ih =>
    obtain ⟨a, b⟩ := ih h t' rest hp
    exact ⟨a, by simp only [List.length_cons]; omega⟩
  all_goals cases hp

private theorem parseOuter_sound (fuel : Nat) (toks : List Tok) (acc res : List Sel) (hacc : ∀ s ∈ acc, SpecSound s)
    (h : parseOuter fuel toks acc = .ok res) : ∀ s ∈ res, SpecSound s := by
  induction fuel generalizing toks acc with
  | zero => simp [parseOuter] at h
  | succ fuel ih =>
    unfold parseOuter at h
    -- the optional leading page name
    have key : ∀ (types : Sel) (tokens : List Tok), SpecSound types →
        (if tokens.length == 1 then (PRes.reject : PRes (List Sel))
         else if tokens.isEmpty then .ok (acc ++ [types])
         else match parseInner tokens types with
           | .reject => .reject
           | .raised cls => .raised cls
           | .ok (types, rest) =>
             if rest.isEmpty then .ok (acc ++ [types]) else parseOuter fuel rest (acc ++ [types])) = .ok res →
        ∀ s ∈ res, SpecSound s := by
      intro types tokens hs hres
      have happ : ∀ t, SpecSound t → ∀ s ∈ acc ++ [t], SpecSound s := by
        intro t ht s hs'
        rcases List.mem_append.mp hs' with h1 | h1
        · exact hacc s h1
        · simp only [List.mem_singleton] at h1; subst h1; exact ht
      split at hres
      · cases hres
      · split at hres
        · simp only [PRes.ok.injEq] at hres; subst hres; exact happ types hs
        · split at hres
          · cases hres
          · cases hres
          · rename_i t2 rest hpi
            have := (parseInner_sound _ _ hs _ _ hpi).1
            split at hres
            · simp only [PRes.ok.injEq] at hres; subst hres; exact happ t2 this
            · exact ih _ _ (happ t2 this) hres
    have hdef : SpecSound ({} : Sel) := by refine ⟨?_, ?_, ?_⟩ <;> simp
    have hname : ∀ v : String, SpecSound ({ name := some v, spec := (1, 0, 0) } : Sel) := by
      intro v; refine ⟨?_, ?_, ?_⟩ <;> simp
    split at h
    rename_i types tokens heq
    have hty : SpecSound types := by
      split at heq
      · simp only [Prod.mk.injEq] at heq; rw [← heq.1]; exact hname _
      · simp only [Prod.mk.injEq] at heq; rw [← heq.1]; exact hdef
    exact key types tokens hty h

/-- Every selector returned by `parse_page_selectors` has a sound specificity: a page name counts in
the first component, `:first` / `:blank` / `:nth()` in the second, `:left` / `:right` in the third —
so with `page_specificity` a rule naming a page outranks any rule that does not, etc. -/
theorem parse_specificity_sound (prelude : List Tok) (sels : List Sel)
    (h : parsePageSelectors prelude = .ok sels) : ∀ s ∈ sels, SpecSound s := by
  unfold parsePageSelectors at h
  simp only at h
  split at h
  · simp only [PRes.ok.injEq] at h; subst h
    intro s hs; simp only [List.mem_singleton] at hs; subst hs
    refine ⟨?_, ?_, ?_⟩ <;> simp
  · exact parseOuter_sound _ _ [] _ (by simp) h

example : (match parsePageSelectors [.ident "chap" "chap", .literal ":", .ident "first" "first", .literal ":",
      .ident "LEFT" "left"] with
    | .ok [s] => s.spec == (1, 1, 1) && s.name == some "chap" && s.first && s.side == some "left"
    | _ => false) = true := by decide

/-! ## the whole document — `layout_document` page sequence -/

private theorem attach_heads (hs : List PageHead) (cs : List (Request × List Section)) :
    (attach hs cs).map (·.1) = hs := by
  induction hs generalizing cs with
  | nil => simp [attach]
  | cons h t ih =>
    unfold attach
    split
    · simp [ih]
    · split <;> simp [ih]

private theorem page_sequence_nonempty (ltr : Bool) (r : Request) (rs : List Request) (idx : Nat) (rp : Bool) :
    pageSequence ltr (r :: rs) idx rp ≠ [] := by
  simp only [pageSequence]
  rw [request_pages]
  split <;> simp

/-- Document level: whatever the sections and the `@page` rules, a document has at least one page,
its pages are numbered 0, 1, 2, …, alternate between right and left starting from the side
`initialize_page_maker` chose, and no two consecutive pages are blank. -/
theorem doc_pages (d : Doc) :
    (docPages d).length ≥ 1 ∧
    Alternates ((docPages d).map (·.1)) 0 (initRightPage d.rootBreak d.ltr) ∧
    noTwoBlanks ((docPages d).map (·.1)) = true := by
  unfold docPages
  simp only [attach_heads]
  refine ⟨?_, page_sequence_alternates _ _ _ _, page_sequence_no_two_blanks _ _ _ _⟩
  have hlen : ∀ hs cs, (attach hs cs).length = hs.length := by
    intro hs cs
    have := congrArg List.length (attach_heads hs cs)
    simpa using this
  rw [hlen]
  split
  · have := page_sequence_nonempty d.ltr ⟨.any, ""⟩ [] 0 (initRightPage d.rootBreak d.ltr)
    cases hq : pageSequence d.ltr [⟨.any, ""⟩] 0 (initRightPage d.rootBreak d.ltr) with
    | nil => exact absurd hq this
    | cons _ _ => simp
  · rename_i hne
    cases hc : (chunks (withPositions d.sections 0 none) none).map (·.1) with
    | nil => simp at hc; simp [hc] at hne
    | cons r rs =>
      have := page_sequence_nonempty d.ltr r rs 0 (initRightPage d.rootBreak d.ltr)
      cases hq : pageSequence d.ltr (r :: rs) 0 (initRightPage d.rootBreak d.ltr) with
      | nil => exact absurd hq this
      | cons _ _ => simp


/-! ## margin_box_rects — every yielded margin box, by the generated tables -/

/-- Every box yielded for a side row sits in that row's strip: exact in the fixed dimension, at one of
the three offsets (0 start, ½ centre, 1 end) in the variable one. -/
theorem side_boxes_rect (row : SideRow) (hrow : row ∈ Gen.sideTable) (g : PageGeom) (styles : List MStyle)
    (ps : List Placed) (h : sideBoxes row g styles = .ok ps) :
    ∀ p ∈ ps, ∃ off ∈ Gen.offsets,
      if row.vertical then
        p.x = (strip g row.pre).1 ∧ p.marginWidth = (strip g row.pre).2.2.1 ∧
        p.y = (strip g row.pre).2.1 + off * ((strip g row.pre).2.2.2 - p.marginHeight)
      else
        p.y = (strip g row.pre).2.1 ∧ p.marginHeight = (strip g row.pre).2.2.2 ∧
        p.x = (strip g row.pre).1 + off * ((strip g row.pre).2.2.1 - p.marginWidth) := by
  have hs := side_table_strips g row hrow
  unfold sideBoxes at h
  simp only at h
  split at h
  · rename_i a b c hboxes
    split at h
    · simp only [Except.ok.injEq] at h; subst h; simp
    · split at h
      · cases h
      · rename_i ra rb rc hcv
        intro p hp
        rcases inner_fold _ _ _ _ _ _ _ h p hp with hin | ⟨m, o, hm, hg, hpl⟩
        · cases hin
        · have hoff : o ∈ Gen.offsets := by
            simp only [List.mem_cons, Prod.mk.injEq, List.not_mem_nil, or_false] at hm
            rcases hm with ⟨_, e⟩ | ⟨_, e⟩ | ⟨_, e⟩
            · exact List.mem_of_getElem? e.symm
            · exact List.mem_of_getElem? e.symm
            · exact List.mem_of_getElem? e.symm
          refine ⟨o, hoff, ?_⟩
          have r := side_box_in_strip g row hrow _ _ m o p hpl
          have dims := hs.2.2.2
          simp only at dims
          cases hv : row.vertical
          · simp only [hv, Bool.false_eq_true, ↓reduceIte] at r dims ⊢
            refine ⟨r.1, ?_, ?_⟩
            · rw [r.2.1]; exact dims.1
            · rw [r.2.2, dims.2]
          · simp only [hv, ↓reduceIte] at r dims ⊢
            refine ⟨r.1, ?_, ?_⟩
            · rw [r.2.1]; exact dims.1
            · rw [r.2.2, dims.2]
  · cases h

/-- **margin_box_rects.**  Every box `make_margin_boxes` yields has content, and is either a corner box
occupying exactly its corner area, or a side box spanning its margin strip exactly in the fixed
dimension and placed at offset 0 (start), ½ (centre) or 1 (end) of the free space in the variable
dimension.  The strips / corners are those of css-page-3 §5.3 (`strip`, `cornerArea`), tied to the
tables regenerated from `make_margin_boxes` by `side_table_strips` / `corner_table_areas`. -/
theorem margin_box_rects (g : PageGeom) (styles : List MStyle) (res : List Placed)
    (h : makeMarginBoxes g styles = .ok res) :
    ∀ p ∈ res, (findStyle styles p.kw).generated = true ∧
      ((∃ row ∈ Gen.cornerTable, (p.x, p.y, p.marginWidth, p.marginHeight) = cornerArea g row.kw) ∨
       (∃ row ∈ Gen.sideTable, ∃ off ∈ Gen.offsets,
          if row.vertical then
            p.x = (strip g row.pre).1 ∧ p.marginWidth = (strip g row.pre).2.2.1 ∧
            p.y = (strip g row.pre).2.1 + off * ((strip g row.pre).2.2.2 - p.marginHeight)
          else
            p.y = (strip g row.pre).2.1 ∧ p.marginHeight = (strip g row.pre).2.2.2 ∧
            p.x = (strip g row.pre).1 + off * ((strip g row.pre).2.2.1 - p.marginWidth))) := by
  intro p hp
  refine ⟨margin_boxes_generated_only g styles res h p hp, ?_⟩
  rcases mmb_split g styles res h p hp with ⟨row, hrow, ps, hs, hin⟩ | ⟨row, hrow, ps, hs, hin⟩
  · right
    obtain ⟨off, hoff, hr⟩ := side_boxes_rect row hrow g styles ps hs p hin
    exact ⟨row, hrow, off, hoff, hr⟩
  · left
    exact ⟨row, hrow, corner_boxes_fill_their_corner g styles row hrow ps hs p hin⟩

/-! ## the page box on the sheet — `make_page` -/

/-- "its content area is exactly what remains": when a horizontal (vertical) page margin is `auto` the
page box — margins, borders, paddings, content — fills the sheet width (height) given by `size`,
whatever `width` / `min-width` / `max-width` say. -/
theorem page_fills_sheet (s : PStyle) :
    ((s.ml = .auto ∨ s.mr = .auto) → (makePageBox s).marginWidth = s.sizeW) ∧
    ((s.mt = .auto ∨ s.mb = .auto) → (makePageBox s).marginHeight = s.sizeH) := by
  constructor
  · intro h
    have := page_min_max_equation
      ⟨s.width.resolve s.sizeW, s.ml.resolve s.sizeW, s.mr.resolve s.sizeW,
        numOr0 (s.pl.resolve s.sizeW) + numOr0 (s.pr.resolve s.sizeW) + s.bl + s.br⟩ s.sizeW
      (resolveMin s.minW s.sizeW) (resolveMax s.maxW s.sizeW)
      (by rcases h with h | h <;> simp [h, Dim.resolve])
    simp only [makePageBox, PageBox.marginWidth]
    simp only at this
    grind
  · intro h
    have := page_min_max_equation
      ⟨s.height.resolve s.sizeH, s.mt.resolve s.sizeH, s.mb.resolve s.sizeH,
        numOr0 (s.pt.resolve s.sizeH) + numOr0 (s.pb.resolve s.sizeH) + s.bt + s.bb⟩ s.sizeH
      (resolveMin s.minH s.sizeH) (resolveMax s.maxH s.sizeH)
      (by rcases h with h | h <;> simp [h, Dim.resolve])
    simp only [makePageBox, PageBox.marginHeight]
    simp only at this
    grind

/-- With `width: auto` and neither `min-width` nor `max-width` in effect the content width is what the sheet leaves
after margins, borders and paddings (`auto` margins count 0) — as long as that is not negative. -/
theorem page_content_is_what_remains (s : PStyle) (hw : s.width = .auto) (hmin : s.minW = .auto) (hmax : s.maxW = none)
    (hfit : 0 ≤ (pageWidthOrHeight ⟨none, s.ml.resolve s.sizeW, s.mr.resolve s.sizeW,
        numOr0 (s.pl.resolve s.sizeW) + numOr0 (s.pr.resolve s.sizeW) + s.bl + s.br⟩ s.sizeW).inner) :
    (makePageBox s).marginWidth = s.sizeW := by
  have eq := page_box ⟨none, s.ml.resolve s.sizeW, s.mr.resolve s.sizeW,
        numOr0 (s.pl.resolve s.sizeW) + numOr0 (s.pr.resolve s.sizeW) + s.bl + s.br⟩ s.sizeW (by simp)
  simp only [makePageBox, PageBox.marginWidth, hw, hmin, hmax, Dim.resolve, resolveMin, resolveMax, numOr0,
    pageDimMinMax] at *
  have hn : ¬ (pageWidthOrHeight ⟨none, s.ml.resolve s.sizeW, s.mr.resolve s.sizeW,
        numOr0 (s.pl.resolve s.sizeW) + numOr0 (s.pr.resolve s.sizeW) + s.bl + s.br⟩ s.sizeW).inner < 0 :=
    Rat.not_lt.mpr hfit
  simp only [numOr0, Dim.resolve] at hn
  simp only [hn, ↓reduceIte]
  grind


/-! ## the parser's fuel is a device — `parse_page_selectors` terminates by consuming tokens -/

/-- the inner loop never returns more tokens than it was given, and fewer if it was given any -/
theorem parseInner_length (toks : List Tok) (types t' : Sel) (rest : List Tok)
    (hp : parseInner toks types = .ok (t', rest)) :
    rest.length ≤ toks.length ∧ (toks ≠ [] → rest.length < toks.length) := by
  fun_induction parseInner toks types generalizing t' rest
  case case1 => simp only [PRes.ok.injEq, Prod.mk.injEq] at hp; obtain ⟨_, rfl⟩ := hp; simp
  case case4 ih => have := (ih t' rest hp).1; simp only [List.length_cons]; constructor <;> (try intro _) <;> omega
  case case5 ih => have := (ih t' rest hp).1; simp only [List.length_cons]; constructor <;> (try intro _) <;> omega
  case case6 ih => have := (ih t' rest hp).1; simp only [List.length_cons]; constructor <;> (try intro _) <;> omega
  case case7 ih => have := (ih t' rest hp).1; simp only [List.length_cons]; constructor <;> (try intro _) <;> omega
  case case12 ih => have := (ih t' rest hp).1; simp only [List.length_cons]; constructor <;> (try intro _) <;> omega
  case case14 =>
    simp only [PRes.ok.injEq, Prod.mk.injEq] at hp; obtain ⟨_, rfl⟩ := hp
    simp only [List.length_cons]; constructor <;> (try intro _) <;> omega
  case case16 ih => have := (ih t' rest hp).1; simp only [List.length_cons]; constructor <;> (try intro _) <;> omega
  all_goals cases hp

/-- The fuel of the outer loop is a modelling device only: any amount above the number of tokens gives
the same result (every iteration of `while tokens:` consumes at least one token), so the `fuel = 0`
exit of the model is unreachable from `parsePageSelectors`. -/
theorem parse_fuel_irrelevant (f1 f2 : Nat) (toks : List Tok) (acc : List Sel)
    (h1 : toks.length < f1) (h2 : toks.length < f2) : parseOuter f1 toks acc = parseOuter f2 toks acc := by
  induction f1 generalizing f2 toks acc with
  | zero => omega
  | succ k ih =>
    cases f2 with
    | zero => omega
    | succ m =>
      unfold parseOuter
      -- the optional leading page name
      have key : ∀ (types : Sel) (tokens : List Tok), tokens.length ≤ toks.length →
          (if tokens.length == 1 then (PRes.reject : PRes (List Sel))
           else if tokens.isEmpty then .ok (acc ++ [types])
           else match parseInner tokens types with
             | .reject => .reject
             | .raised cls => .raised cls
             | .ok (types, rest) =>
               if rest.isEmpty then .ok (acc ++ [types]) else parseOuter k rest (acc ++ [types])) =
          (if tokens.length == 1 then (PRes.reject : PRes (List Sel))
           else if tokens.isEmpty then .ok (acc ++ [types])
           else match parseInner tokens types with
             | .reject => .reject
             | .raised cls => .raised cls
             | .ok (types, rest) =>
               if rest.isEmpty then .ok (acc ++ [types]) else parseOuter m rest (acc ++ [types])) := by
        intro types tokens hlen
        split
        · rfl
        · split
          · rfl
          · rename_i hne
            cases hpi : parseInner tokens types with
            | reject => rfl
            | raised cls => rfl
            | ok r =>
              obtain ⟨t2, rest⟩ := r
              simp only
              split
              · rfl
              · have hl := (parseInner_length _ _ _ _ hpi).2 (by
                  intro e; simp [e] at hne)
                exact ih m rest _ (by omega) (by omega)
      split
      rename_i types tokens heq
      have hlen : tokens.length ≤ toks.length := by
        split at heq
        · simp only [Prod.mk.injEq] at heq; rw [← heq.2]; simp
        · simp only [Prod.mk.injEq] at heq; rw [← heq.2]; exact Nat.le_refl _
      exact key types tokens hlen

/-! ## page_counter with `counter-reset` on `@page` -/

/-- `counter-reset: page r` on `@page` (every page): the implicit increment is switched off
(`page_counter_touched`) and every page shows `r` — "subject to counter-reset on @page". -/
theorem page_counter_reset (r : Int) (n : Nat) :
    ∃ l, pageStates (List.replicate n ⟨some [], some [("page", r)], none⟩) initialState = .ok l ∧ l.length = n ∧
      ∀ i (hi : i < l.length), counterValue l[i] "page" = .ok r := by
  have hstd : standardize ⟨some [], some [("page", r)], none⟩ true = { reset := [("page", r)], set := [], incr := some [] } := by
    simp [standardize, touchesPage, justify, dropPages]
  have hupd : ∀ st : CState, updateCounters st { reset := [("page", r)], set := [], incr := some [] } = resetOne st "page" r := by
    intro st
    simp [updateCounters, List.foldlM, bind, Except.bind, pure, Except.pure]
    cases resetOne st "page" r <;> rfl
  -- invariant: the page counter is `[r]` and in scope
  have step : ∀ st : CState, (getStack st.values "page" = some [r] ∧ "page" ∈ st.scope) →
      ∃ st', resetOne st "page" r = .ok st' ∧ getStack st'.values "page" = some [r] ∧ "page" ∈ st'.scope := by
    intro st ⟨h1, h2⟩
    refine ⟨{ st with values := setStack st.values "page" [r] }, ?_, getStack_setStack_same _ _ _, h2⟩
    simp [resetOne, h1, h2]
  have rest : ∀ (n : Nat) (st : CState), (getStack st.values "page" = some [r] ∧ "page" ∈ st.scope) →
      ∃ l, pageStates (List.replicate n ⟨some [], some [("page", r)], none⟩) st = .ok l ∧ l.length = n ∧
        ∀ i (hi : i < l.length), counterValue l[i] "page" = .ok r := by
    intro n
    induction n with
    | zero => intro st _; exact ⟨[], rfl, rfl, by simp⟩
    | succ n ih =>
      intro st hst
      obtain ⟨st', e, hv⟩ := step st hst
      obtain ⟨l, el, hl, hi⟩ := ih st' hv
      refine ⟨st' :: l, ?_, by simp [hl], ?_⟩
      · simp [List.replicate_succ, pageStates, hstd, hupd, e, el]
      · intro i hi'
        cases i with
        | zero => simp [counterValue, hv.1]
        | succ j => simpa using hi j (by simpa using hi')
  cases n with
  | zero => exact ⟨[], rfl, rfl, by simp⟩
  | succ n =>
    -- first page: the counter is created
    have e0 : resetOne initialState "page" r =
        .ok { values := setStack initialState.values "page" [r], scope := initialState.scope ++ ["page"] } := by
      simp [resetOne, initialState, getStack]
    obtain ⟨l, el, hl, hi⟩ := rest n
      { values := setStack initialState.values "page" [r], scope := initialState.scope ++ ["page"] }
      ⟨getStack_setStack_same initialState.values "page" [r], by simp⟩
    refine ⟨{ values := setStack initialState.values "page" [r], scope := initialState.scope ++ ["page"] } :: l,
      ?_, by simp [hl], ?_⟩
    · simp only [List.replicate_succ, pageStates, hstd, hupd, e0, el]
    · intro i hi'
      cases i with
      | zero => simp [counterValue, getStack_setStack_same]
      | succ j => simpa using hi j (by simpa using hi')


/-! ## rule 3 on the corner boxes — which flag `make_margin_boxes` passes for which axis -/

/-- Rule 3 on corner boxes: a generated corner box whose width and horizontal margins are all given
keeps its width and the margin on the side of the page area — `margin-right` for the two left corners,
`margin-left` for the two right corners (`'left' in at_keyword`); likewise vertically with
`'top' in at_keyword`. -/
theorem corner_box_over_constrained (row : CornerRow) (g : PageGeom) (styles : List MStyle) (p : Placed)
    (h : cornerBox row g styles = .ok [p]) :
    let m := makeBox (findStyle styles row.kw) (g.eval row.cbW) (g.eval row.cbH)
    (∀ w ml mr, m.width = some w → m.ml = some ml → m.mr = some mr →
        p.width = w ∧ (if row.isLeft then p.mr = mr else p.ml = ml)) ∧
    (∀ ht mt mb, m.height = some ht → m.mt = some mt → m.mb = some mb →
        p.height = ht ∧ (if row.isTop then p.mb = mb else p.mt = mt)) := by
  unfold cornerBox at h
  simp only at h
  split at h
  · simp at h
  · split at h
    · cases h
    · rename_i rv hrv
      split at h
      · cases h
      · rename_i rh hrh
        simp only [Except.ok.injEq, List.cons.injEq, and_true] at h
        subst h
        constructor
        · intro w ml mr hw hml hmr
          simp only [MBox.horizontal, hw, hml, hmr] at hrh
          exact fixed_dimension_over_constrained _ _ _ _ _ _ _ hrh
        · intro ht mt mb hh hmt hmb
          simp only [MBox.vertical, hh, hmt, hmb] at hrv
          exact fixed_dimension_over_constrained _ _ _ _ _ _ _ hrv

end Wp.C14
