/-
C15 — `list-style-type` values and `symbols()`: theorems about `Model/ListStyleType.lean` (the validator
`list_style_type` of css/validation/properties.py) and their link to `render_value` (`Model/Counters.lean`):
what the validator accepts as `symbols()` is an anonymous style with the symbols its system needs, so that
`render_value` never raises on it and never falls back to decimal for want of symbols.
-/
import WpModel.Model.ListStyleType
import WpModel.Props.C15
import WpModel.Gen.CounterStyles

namespace Wp.C15
open Wp.Counters Wp.ContentFns Wp.ListStyleType

theorem allStrings_length : ∀ (args : List ATok) (strs : List String), allStrings args = some strs →
    strs.length = args.length := by
  intro args
  induction args with
  | nil => intro strs h; simp [allStrings] at h; subst h; rfl
  | cons x xs ih =>
    intro strs h
    cases x with
    | str v =>
      simp only [allStrings] at h
      cases hr : allStrings xs with
      | none => simp [hr] at h
      | some r => simp [hr] at h; subst h; simp [ih r hr]
    | ident v => simp [allStrings] at h
    | url v => simp [allStrings] at h
    | attr => simp [allStrings] at h
    | comma => simp [allStrings] at h
    | other => simp [allStrings] at h

/-- **C15.symbols_validated_shape** — what the `symbols()` branch of `list_style_type` accepts: one of the five
systems (`symbolic` when none is written), at least one string, at least two for `alphabetic` and `numeric`. -/
theorem symbols_validated_shape (args : List ATok) (c : CName) (h : symbolsFn args = some c) :
    ∃ sys strs, c = .symbols sys strs ∧ sys ∈ allowedTypes ∧ 1 ≤ strs.length ∧
      ((sys = "alphabetic" ∨ sys = "numeric") → 2 ≤ strs.length) := by
  unfold symbolsFn at h
  split at h
  · simp at h
  · rename_i v rest
    split at h
    · rename_i hal
      split at h
      · simp at h
      · rename_i hlen
        cases hs : allStrings rest with
        | none => simp [hs] at h
        | some strs =>
          simp only [hs] at h
          have hl := allStrings_length rest strs hs
          split at h
          · simp at h
          · rename_i hcond
            simp only [Option.some.injEq] at h
            subst h
            refine ⟨v, strs, rfl, by simpa using hal, by omega, ?_⟩
            intro hv
            have : (v = "alphabetic" || v = "numeric") = true := by
              rcases hv with hv | hv <;> simp [hv]
            simp [this] at hcond
            omega
    · simp at h
  · rename_i first rest _
    cases hs : allStrings (first :: rest) with
    | none => simp [hs] at h
    | some strs =>
      simp only [hs, Option.some.injEq] at h
      subst h
      have hl := allStrings_length _ strs hs
      refine ⟨"symbolic", strs, rfl, by decide, by simp at hl; omega, ?_⟩
      intro hv; rcases hv with hv | hv <;> simp at hv

/-- The anonymous style `resolve_counter` builds for a `symbols()` value. -/
def symbolsDesc (sys : String) (strs : List String) : Desc :=
  anonDesc ⟨false, sys, if sys = "fixed" then some 1 else none⟩ (strs.map .str) (.str " ")

theorem resolve_symbols (cs : Styles) (sys : String) (strs : List String) (prev : Option (List CName)) :
    resolveCounter cs (.symbols sys strs) prev = .ok (some (symbolsDesc sys strs), prev) := rfl

/-- **C15.symbols_style_step3_ok** — with the symbol counts the validator guarantees, step 3 of `render_value`
on the anonymous style yields an initial representation or asks for the fallback: it never raises and never
takes the "wrong number of symbols → decimal" exit. -/
theorem symbols_style_step3_ok (sys : String) (strs : List String) (hsys : sys ∈ allowedTypes)
    (h1 : 1 ≤ strs.length) (h2 : (sys = "alphabetic" ∨ sys = "numeric") → 2 ≤ strs.length) (v : Int) (b : Bool) :
    (∃ t, step3 (symbolsDesc sys strs) sys (if sys = "fixed" then some 1 else none) v b = .initial t) ∨
    (∃ w, step3 (symbolsDesc sys strs) sys (if sys = "fixed" then some 1 else none) v b = .fallback w) := by
  have hsym : (symbolsDesc sys strs).symbols = some (strs.map .str) := rfl
  have hk1 : 1 ≤ (strs.map Sym.str).length := by simpa using h1
  simp only [allowedTypes, List.mem_cons, List.mem_nil_iff, or_false] at hsys
  rcases hsys with h | h | h | h | h
  · subst h; left
    exact ⟨_, (cyclic_formula _ _ _ v b hsym hk1).1⟩
  · subst h; left
    have hk2 : 2 ≤ (strs.map Sym.str).length := by simpa using h2 (Or.inr rfl)
    by_cases hv : v = 0
    · subst hv; exact ⟨_, numeric_zero_formula _ _ _ b hsym hk2⟩
    · exact ⟨_, numeric_formula _ _ _ v b hsym hk2 hv⟩
  · subst h; left
    have hk2 : 2 ≤ (strs.map Sym.str).length := by simpa using h2 (Or.inl rfl)
    exact ⟨_, alphabetic_formula _ _ _ v b hsym hk2⟩
  · subst h; left
    exact ⟨_, symbolic_formula _ _ _ v b hsym hk1⟩
  · subst h
    have := fixed_formula (symbolsDesc "fixed" strs) _ 1 v b hsym hk1
    simp only [if_true]
    rw [this]
    split
    · exact Or.inl ⟨_, rfl⟩
    · exact Or.inr ⟨_, rfl⟩

/-- **C15.validated_symbols_steps_total** — from the token to `render_value`: every `symbols()` value the real
validator accepts resolves to an anonymous style on which, for every counter value, the range test does not
raise and step 3 gives an initial representation or the fallback (never an exception, never the decimal exit
for want of symbols). -/
theorem validated_symbols_steps_total (cs : Styles) (args : List ATok) (c : CName)
    (h : ListStyleType.listStyleType (.func "symbols" args) = some c) (prev : Option (List CName)) (v : Int) (b : Bool) :
    ∃ sys strs, c = .symbols sys strs ∧
      resolveCounter cs c prev = .ok (some (symbolsDesc sys strs), prev) ∧
      sysOf (symbolsDesc sys strs) = (false, sys, if sys = "fixed" then some 1 else none) ∧
      (∃ r, inRange (symbolsDesc sys strs) sys v = .ok r) ∧
      ((∃ t, step3 (symbolsDesc sys strs) sys (if sys = "fixed" then some 1 else none) v b = .initial t) ∨
       (∃ w, step3 (symbolsDesc sys strs) sys (if sys = "fixed" then some 1 else none) v b = .fallback w)) := by
  simp only [ListStyleType.listStyleType, if_true] at h
  obtain ⟨sys, strs, hc, hsys, h1, h2⟩ := symbols_validated_shape args c h
  subst hc
  refine ⟨sys, strs, rfl, rfl, rfl, ?_, symbols_style_step3_ok sys strs hsys h1 h2 v b⟩
  exact ⟨(autoRange sys).1.leInt v && (autoRange sys).2.geInt v, by simp only [inRange, symbolsDesc, anonDesc]⟩

private theorem extLoop_noext' (cs : Styles) (c : Desc) (system : String) (fixed : Option Int) (prev : List CName) :
    renderExtLoop cs (loopFuel cs) c false system fixed prev = .ok (.go c system fixed prev) := by
  rw [show loopFuel cs = (2 * cs.length + 3) + 1 by simp [loopFuel]]; simp [renderExtLoop]

/-- **C15.validated_symbols_render_value** — `render_value(v, symbols(…))` for a validated `symbols()` style, on
any style table: the text is the padded / signed initial representation of the anonymous style, or — outside the
automatic range of the system, or for a `fixed` style outside its window — exactly what `decimal` renders for the
same value (`render_value(v, 'decimal', previous_types=[the style])`).  No exception, no other exit. -/
theorem validated_symbols_render_value (cs : Styles) (args : List ATok) (c : CName)
    (h : ListStyleType.listStyleType (.func "symbols" args) = some c) (fuel : Nat) (v : Int) :
    ∃ sys strs, c = .symbols sys strs ∧
      ((∃ t, renderValue cs (fuel + 1) v c none =
          .ok (padNeg (symbolsDesc sys strs) (decide (v < 0) && usesNegative sys) t)) ∨
       renderValue cs (fuel + 1) v c none = renderValue cs fuel v (.named "decimal") (some [c])) := by
  obtain ⟨sys, strs, hc, hres, hso, ⟨r, hin⟩, h3⟩ :=
    validated_symbols_steps_total cs args c h none v (decide (v < 0))
  subst hc
  refine ⟨sys, strs, rfl, ?_⟩
  have hfb : (symbolsDesc sys strs).fallback = some "decimal" := rfl
  -- the value step 3 works on
  have key : ∀ b : Bool, (∃ t, step3 (symbolsDesc sys strs) sys (if sys = "fixed" then some 1 else none)
        (step3Value sys v) b = .initial t) ∨
      (∃ w, step3 (symbolsDesc sys strs) sys (if sys = "fixed" then some 1 else none) (step3Value sys v) b = .fallback w) := by
    intro b
    obtain ⟨_, _, hc', _, _, _, h'⟩ := validated_symbols_steps_total cs args _ h none (step3Value sys v) b
    cases hc'
    exact h'
  have hL : renderValue cs (fuel + 1) v (CName.symbols sys strs) none =
      renderTail (renderValue cs fuel) v (symbolsDesc sys strs) sys (if sys = "fixed" then some 1 else none)
        [CName.symbols sys strs] := by
    conv => lhs; unfold renderValue
    simp only [hres, hso, isCircular, Bool.false_eq_true, if_false, Option.getD_none, List.nil_append, extLoop_noext']
  rw [hL]
  simp only [renderTail, hin, hfb, Option.getD_some]
  cases r with
  | false => right; rfl
  | true =>
    rcases key (decide (v < 0)) with ⟨t, ht⟩ | ⟨w, hw⟩
    · left; exact ⟨t, by simp only [ht]⟩
    · right
      have := fallback_original_value _ _ _ v w hw
      subst this
      simp only [hw]

/-! Non-vacuity -/
section Examples
example : ListStyleType.listStyleType (.func "symbols" [.ident "numeric", .str "0", .str "1"]) =
    some (.symbols "numeric" ["0", "1"]) := by decide
example : ListStyleType.listStyleType (.func "symbols" [.str "*", .str "+"]) = some (.symbols "symbolic" ["*", "+"]) := by
  decide
example : ListStyleType.listStyleType (.func "symbols" [.ident "numeric", .str "0"]) = none := by decide
example : ListStyleType.listStyleType (.func "symbols" [.ident "fixed"]) = none := by decide
example : ListStyleType.listStyleType (.func "symbols" [.ident "cyclic", .str "a", .comma, .str "b"]) = none := by decide
example : ListStyleType.listStyleType (.func "SYMBOLS" [.str "a"]) = none := by decide
example : ListStyleType.listStyleType (.tok (.ident "Lower-Roman")) = some (.named "Lower-Roman") := by decide
-- binary numbering: 5 is "101"; a `fixed` style outside its window goes to decimal
example : renderValueTop Gen.uaCounterStyles 5 (.symbols "numeric" ["0", "1"]) = .ok "101" := by decide
example : renderValueTop Gen.uaCounterStyles 3 (.symbols "fixed" ["p", "q"]) = .ok "3" := by decide
end Examples

end Wp.C15
