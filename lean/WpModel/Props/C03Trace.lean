/-
C03 on the wide grammar: soundness of the geometric trace checker. The traces (bottom edges of in-flow
line boxes / table rows per page, with the "first content on its page or column" flag) are sampled
from real renders.
-/
import WpModel.Model.Trace

namespace Wp.C03Trace
open Wp Wp.Trace

/-- If the checker reports nothing, every item either was the first content placed on its page
(column) or ends at or above the bottom edge of the page content box (same fudge factor as the
layout's own test). -/
theorem fits_sound (pageBottom : Rat) (items : List Item) (h : overflowing pageBottom items = []) :
    ∀ it ∈ items, it.first = true ∨ overflows pageBottom it.bottom = false := by
  intro it hit
  unfold overflowing at h
  simp only [List.map_eq_nil_iff, List.filter_eq_nil_iff] at h
  obtain ⟨i, hlt, hget⟩ := List.mem_iff_getElem.mp hit
  have hm : (it, i) ∈ items.zipIdx := by
    rw [List.mem_zipIdx_iff_getElem?]
    simp [hget, hlt]
  have := h (it, i) hm
  simp only [Bool.and_eq_true, Bool.not_eq_eq_eq_not, Bool.not_true, not_and, Bool.not_eq_false] at this
  cases hf : it.first with
  | true => left; rfl
  | false =>
    right
    cases ho : overflows pageBottom it.bottom with
    | false => rfl
    | true => have := this ho; rw [hf] at this; cases this

/-- The overflow test is exact on the boundary: a bottom edge equal to the page bottom does not overflow. -/
theorem boundary_fits (b : Rat) (hb : 0 ≤ b) : overflows b b = false := by
  unfold overflows
  simp only [decide_eq_false_iff_not]
  have h1 : b * (1 + 1 / 1000000000) = b + b * (1 / 1000000000) := by grind
  have h2 : 0 ≤ b * (1 / 1000000000) := Rat.mul_nonneg hb (by decide +kernel)
  grind

example : overflowing 100 [⟨120, true⟩, ⟨100, false⟩, ⟨40, false⟩] = [] := by decide +kernel
example : overflowing 100 [⟨20, true⟩, ⟨101, false⟩] = [1] := by decide +kernel

end Wp.C03Trace
