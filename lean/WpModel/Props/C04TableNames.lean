/-
C04 / css-page "page" around tables (Model/TableNames.lean): the start name of a table is the name of its first top
caption - its own when it has none - whatever is written on its row groups, rows and cells; the page checker of the
section table-name-pages is sound.
-/
import WpModel.Model.TableNames

namespace Wp.C04TableNames
open Wp Wp.TableBreaks Wp.TableNames

/-- `auto` inherits, anything else is kept. -/
theorem used_spec (d i : String) : used d i = if d = "" then i else d := by
  unfold used
  by_cases h : d = "" <;> simp [h]

private theorem orElse_used (c u : String) : orElse (used c u) u = used c u := by
  unfold orElse used
  by_cases hc : c.isEmpty = true
  · simp [hc]
  · simp [hc]

/-- The start value of a list of boxes whose first box is in flow is the start value of that box. -/
private theorem firstLast_head (t : Bool) (p : String) (ks rest : List PBox) :
    ∃ e, firstLast (.mk t true p ks :: rest) = some ((pageValues (.mk t true p ks)).1, e) := by
  rw [firstLast]
  simp only [↓reduceIte]
  cases firstLast rest with
  | none => exact ⟨_, rfl⟩
  | some se => exact ⟨se.2, rfl⟩

private theorem pageValues_leafP (p : String) : pageValues (leafP p) = (p, p) := by
  simp [leafP, pageValues, firstLast]

/-- **The start name of a table with a top caption is the caption's name** (the table's own, if the caption says
`auto`), for every table name, every further caption and every inherited name. -/
theorem table_start_caption (inh p c : String) (tops bottoms : List String) :
    (pageValues (toP inh (.table p (c :: tops) bottoms))).1 = used c (used p inh) := by
  rw [toP]
  simp only [List.map_cons, List.cons_append]
  rw [pageValues]
  simp only [Bool.false_eq_true, ↓reduceIte]
  unfold leafP
  obtain ⟨e, he⟩ := firstLast_head false (used c (used p inh)) []
    (tops.map (fun c => PBox.mk false true (used c (used p inh)) []) ++ [PBox.mk true true (used p inh) []] ++
      bottoms.map (fun c => PBox.mk false true (used c (used p inh)) []))
  simp only [List.append_assoc, List.cons_append, List.nil_append] at he ⊢
  rw [he]
  have := pageValues_leafP (used c (used p inh))
  unfold leafP at this
  simp only [this]
  exact orElse_used c (used p inh)

/-- Without a top caption the start name is the table's own (the table box ends the descent: nothing written inside
the grid is read). -/
theorem table_start_no_caption (inh p : String) (bottoms : List String) :
    (pageValues (toP inh (.table p [] bottoms))).1 = used p inh := by
  rw [toP]
  simp only [List.map_nil, List.nil_append, List.cons_append]
  rw [pageValues]
  simp only [Bool.false_eq_true, ↓reduceIte]
  obtain ⟨e, he⟩ := firstLast_head true (used p inh) []
    (bottoms.map (fun c => leafP (used c (used p inh))))
  rw [he]
  simp [pageValues, orElse]

/-- **Soundness of the page-name checker**: on an accepted document, wherever the model says that
`block_level_page_name` asks for a non-empty name `n` at a boundary, the words after the boundary start on a later
page than the words before it, and that page's type is named `n`. -/
theorem names_sound (bs : List (Option (PBox × PBox))) (os : List (Option (NameObs × Bool)))
    (h : namesBad bs os = []) (i : Nat) (ab : PBox × PBox) (o : NameObs) (fresh : Bool)
    (hb : bs[i]? = some (some ab)) (ho : os[i]? = some (some (o, fresh)))
    (n : String) (hn : pageNameBetween ab.1 ab.2 = some n) (hne : n ≠ "") :
    o.pageA < o.pageB ∧ o.nameB = n := by
  unfold namesBad at h
  simp only [List.map_eq_nil_iff, List.filter_eq_nil_iff] at h
  have hz : (bs.zip os)[i]? = some (some ab, some (o, fresh)) := by
    rw [List.getElem?_zip_eq_some]; exact ⟨hb, ho⟩
  have hm : ((some ab, some (o, fresh)), i) ∈ (bs.zip os).zipIdx := by
    rw [List.mem_zipIdx_iff_getElem?]; simpa using hz
  have hok := h _ hm
  simp only [Bool.not_eq_eq_eq_not, Bool.not_true, Bool.not_eq_false] at hok
  unfold nameOk at hok
  rw [hn] at hok
  have he : n.isEmpty = false := by
    cases hie : n.isEmpty with
    | false => rfl
    | true => exact absurd (String.isEmpty_iff.mp hie) hne
  simp only [he, Bool.false_eq_true, ↓reduceIte, Bool.and_eq_true, decide_eq_true_eq, beq_iff_eq] at hok
  exact hok

/-- Non-vacuity: previous sibling on page `a`, table `page: b` with a top caption `page: a` and a bottom caption
`page: c`: no name asked before the table, `b` between caption and grid, `c` before the bottom caption, `a` after. -/
example : (nameBoundaries "" (.para "a") "b" ["a"] ["c"] (.para "a")).map
    (fun b => b.map (fun ab => pageNameBetween ab.1 ab.2)) =
    [some none, some (some "b"), some (some "c"), some (some "a")] := by decide

/-- The observation "grid on the caption's page" of that document is rejected at boundary 1; the right one passes. -/
example : namesBad (nameBoundaries "" (.para "a") "b" ["a"] ["c"] (.para "a"))
      [some (⟨0, 0, "a"⟩, false), some (⟨0, 0, "a"⟩, false), some (⟨0, 1, "c"⟩, true), some (⟨1, 2, "a"⟩, true)] = [1] ∧
    namesBad (nameBoundaries "" (.para "a") "b" ["a"] ["c"] (.para "a"))
      [some (⟨0, 0, "a"⟩, false), some (⟨0, 1, "b"⟩, true), some (⟨1, 2, "c"⟩, true), some (⟨2, 3, "a"⟩, true)] = [] := by
  decide

end Wp.C04TableNames
