/-
C10 — a table row split by a page break is resumed cell by cell where each cell stopped
(`Model/TableCellSplit.lean` ↔ the `cell_skip_stack` / `resume_at[index_row][index_cell]` bookkeeping
of `group_layout` in `weasyprint/layout/table.py`).  The correspondence section `doc-cell-skips` of
`py/props/c10.py` compares both functions with every `block_container_layout` call made for a table
cell while rendering the generated documents.
-/
import WpModel.Model.TableCellSplit
import Mathlib.Tactic.Linarith

namespace Wp.C10Split
open Wp Wp.TableSplit

/-- What the cell at position `j` of `rs` (first position = index `k`) binds. -/
private theorem lookup_resumeBindings (rs : List (Option Chain)) (k i : Nat) :
    lookup (resumeBindings k rs) i =
      if k ≤ i then (match rs[i - k]? with
                     | some (some (a :: c)) => some (a :: c)
                     | _ => none)
      else none := by
  induction rs generalizing k with
  | nil => simp [resumeBindings, lookup]
  | cons r rs ih =>
    by_cases hki : k = i
    · subst hki
      have hnot : ¬ (k + 1 ≤ k) := by omega
      cases r with
      | none => simp [resumeBindings, ih, hnot]
      | some ch =>
        cases ch with
        | nil => simp [resumeBindings, ih, hnot]
        | cons a c => simp [resumeBindings, lookup]
    · by_cases hle : k ≤ i
      · have hlt : k + 1 ≤ i := by omega
        have hsub : i - k = (i - (k + 1)) + 1 := by omega
        have hstep : lookup (resumeBindings k (r :: rs)) i = lookup (resumeBindings (k + 1) rs) i := by
          cases r with
          | none => simp [resumeBindings]
          | some ch =>
            cases ch with
            | nil => simp [resumeBindings]
            | cons a c => simp [resumeBindings, lookup, hki]
        rw [hstep, ih, hsub]
        simp [hle, hlt]
      · have hlt : ¬ (k + 1 ≤ i) := by omega
        have hstep : lookup (resumeBindings k (r :: rs)) i = lookup (resumeBindings (k + 1) rs) i := by
          cases r with
          | none => simp [resumeBindings]
          | some ch =>
            cases ch with
            | nil => simp [resumeBindings]
            | cons a c => simp [resumeBindings, lookup, hki]
        rw [hstep, ih]
        simp [hle, hlt]

/-- **split_roundtrip.**  When a row is broken by the page (`resume_at[index_row] = d`, built from the
`cell_resume_at` of its cells), the next fragment resumes every cell exactly where *that* cell
stopped, and a cell that was finished is resumed after its last child (it stays empty): nothing of a
pending cell is dropped, no cell receives the skip stack of another cell.  `i` is the index of the
cell in the row. -/
theorem split_roundtrip (results : List (Option Chain)) (d : RowSkip) (h : rowResume results = some d)
    (i n : Nat) :
    cellSkip (some d) i n =
      match results[i]? with
      | some (some (a :: c)) => some (a :: c)
      | _ => some [n] := by
  unfold rowResume at h
  have hd : d = resumeBindings 0 results := by
    split at h
    · cases h
    · injection h with h; exact h.symm
  have hne : d ≠ [] := by
    intro hnil
    rw [hnil] at hd
    rw [← hd] at h
    simp at h
  have hl := lookup_resumeBindings results 0 i
  simp only [Nat.zero_le, if_true, Nat.sub_zero] at hl
  rw [← hd] at hl
  unfold cellSkip
  cases d with
  | nil => exact absurd rfl hne
  | cons b bs =>
    simp only
    rw [hl]
    rcases hr : results[i]? with _ | (_ | (_ | ⟨a, c⟩)) <;> simp

/-- The row is reported as broken exactly when some cell was: `resume_at` stays `None` iff every
`cell_resume_at` is falsy. -/
theorem resume_none_iff (results : List (Option Chain)) :
    rowResume results = none ↔ ∀ r ∈ results, truthy r = false := by
  have key : ∀ (k : Nat) (rs : List (Option Chain)),
      resumeBindings k rs = [] ↔ ∀ r ∈ rs, truthy r = false := by
    intro k rs
    induction rs generalizing k with
    | nil => simp [resumeBindings]
    | cons r rs ih =>
      cases r with
      | none => simp [resumeBindings, truthy, ih]
      | some ch =>
        cases ch with
        | nil => simp [resumeBindings, truthy, ih]
        | cons a c => simp [resumeBindings, truthy]
  unfold rowResume
  rw [← key 0 results]
  split
  · rename_i hnil; simp [hnil]
  · rename_i hne; simp only [reduceCtorEq, false_iff]; exact fun h => hne h

/-- **unplaced_cell_keeps_position** (repair a7ed065; the finding `table-cell-restarts-after-empty-fragment`
is filed under C01).  A continued cell of which nothing more fits on a page reports the position it was
given, so that — by `split_roundtrip` — the next page resumes it exactly there instead of restarting
it; only a cell that had not started reports `{0: None}`. -/
theorem unplaced_cell_keeps_position (skip result : Option Chain) (a : Nat) (c : Chain) :
    cellResume false (some (a :: c)) result = some (a :: c) ∧
    cellResume false none result = some [0] ∧ cellResume false (some []) result = some [0] ∧
    cellResume true skip result = result := by
  refine ⟨rfl, rfl, rfl, rfl⟩

/-- End to end over one empty page: the cell stopped at `a :: c`, places nothing on the next page, and
is resumed on the page after at `a :: c` again (`i` = its index in the row, `rs` = what the other
cells report). -/
theorem empty_page_roundtrip (pre post : List (Option Chain)) (a : Nat) (c : Chain) (result : Option Chain)
    (n : Nat) (d : RowSkip)
    (h : rowResume (pre ++ cellResume false (some (a :: c)) result :: post) = some d) :
    cellSkip (some d) pre.length n = some (a :: c) := by
  rw [split_roundtrip _ d h pre.length n]
  simp [cellResume, truthy]

/-- Without a skip stack (first fragment, or any row after the resumed one: `skip_stack = None`), and
with the empty dict left by an avoided break (`resume_at = {index_row: {}}`), every cell starts at
its beginning. -/
theorem fresh_row_starts (i n : Nat) : cellSkip none i n = none ∧ cellSkip (some []) i n = none := ⟨rfl, rfl⟩

/-- Non-vacuity, and why the key must be the cell's index in the row: in `<td colspan=2>`, `<td>` the
second cell has index 1 and grid column 2.  It stops at child 3; looked up by its index it resumes
there, looked up by its grid column it would be taken for finished (`{len(children): None}`) and
the rest of its content would be dropped. -/
example : rowResume [none, some [3, 0]] = some [(1, [3, 0])] ∧
    cellSkip (some [(1, [3, 0])]) 1 7 = some [3, 0] ∧ cellSkip (some [(1, [3, 0])]) 2 7 = some [7] ∧
    cellSkip (some [(1, [3, 0])]) 0 4 = some [4] := by
  refine ⟨rfl, rfl, rfl, rfl⟩

end Wp.C10Split
