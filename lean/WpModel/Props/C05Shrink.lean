/-
C05 — shrink-to-fit widths (floats, inline-blocks): clauses (b) (the box fits its containing block) and
(c) (min/max) on the model of `float_layout` / `inline_block_box_layout` (`Model/ShrinkFit.lean`).
Since the repairs /repo 802b9d8 and 8719f13 (`fixed:` `float-explicit-width-ignores-min-max`,
`float-shrink-to-fit-ignores-own-extras`) floats and inline-blocks have the same theorems, at full strength
(`float_minmax`, `float_fits`, `float_eq_inline_block`); `Witness/C05Shrink.lean` keeps the two former
counterexamples as regression theorems.  Core Lean only.
-/
import WpModel.Props.C05
import WpModel.Model.ShrinkFit

namespace Wp.C05Shrink
open Wp Wp.BoxModel Wp.ShrinkFit Wp.C05

set_option linter.unusedSimpArgs false

/-- CSS 2.1 §10.3.5: the shrink-to-fit width lies between the min-content and the max-content width. -/
theorem shrinkToFit_bounds (minC maxC a : Rat) (h : minC ≤ maxC) :
    minC ≤ shrinkToFit minC maxC a ∧ shrinkToFit minC maxC a ≤ maxC := by
  unfold shrinkToFit; constructor <;> grind

/-- …it is the available width whenever that lies between them… -/
theorem shrinkToFit_fill (minC maxC a : Rat) (h1 : minC ≤ a) (h2 : a ≤ maxC) : shrinkToFit minC maxC a = a := by
  unfold shrinkToFit; grind

/-- …and never more than the available width unless the min-content width is. -/
theorem shrinkToFit_le (minC maxC a : Rat) : shrinkToFit minC maxC a ≤ max a minC := by
  unfold shrinkToFit; grind

/-- It is monotone in the available width. -/
theorem shrinkToFit_mono (minC maxC a b : Rat) (h : a ≤ b) : shrinkToFit minC maxC a ≤ shrinkToFit minC maxC b := by
  unfold shrinkToFit; grind

example : shrinkToFit 30 110 80 = 80 ∧ shrinkToFit 30 110 20 = 30 ∧ shrinkToFit 30 110 500 = 110 := by
  decide +kernel

theorem keepsSize_inlineBlock (cbw minC maxC : Rat) : KeepsSize (inlineBlockWidthCore cbw minC maxC) where
  size := by
    intro b b' w h hw
    rcases b with ⟨ml, mr, pl, pr, bl, br, w', minW, maxW, posX, col⟩
    simp only at hw; subst hw
    cases ml <;> cases mr <;> simp [inlineBlockWidthCore] at h
    subst h; rfl
  bounds := by
    intro b b' h
    rcases b with ⟨ml, mr, pl, pr, bl, br, w', minW, maxW, posX, col⟩
    cases ml <;> cases mr <;> cases w' <;> simp [inlineBlockWidthCore] at h <;> subst h <;> exact ⟨rfl, rfl⟩

theorem keepsSize_float (cbw minC maxC : Rat) : KeepsSize (floatWidthCore cbw minC maxC) where
  size := by
    intro b b' w h hw
    unfold floatWidthCore at h
    simp only [hw, Except.ok.injEq] at h; subst h; exact hw
  bounds := by
    intro b b' h
    rcases b with ⟨ml, mr, pl, pr, bl, br, w', minW, maxW, posX, col⟩
    cases ml <;> cases mr <;> cases w' <;> simp [floatWidthCore] at h <;> subst h <;> exact ⟨rfl, rfl⟩

/-- (c) inline-blocks: the used width is within `min-width` / `max-width`, for every input. -/
theorem inline_block_minmax (cbw minC maxC : Rat) (b r : ABox)
    (h : inlineBlockLayoutWidth cbw minC maxC b = .ok r) :
    ∃ w, r.w = some w ∧ b.minW ≤ w ∧ (∀ m, b.maxW = .fin m → b.minW ≤ m → w ≤ m) := by
  obtain ⟨w, h1, h2, h3, _⟩ := minmax_width _ (keepsSize_inlineBlock cbw minC maxC) (zeroAutoMargins b) r h
  exact ⟨w, h1, h2, h3⟩

/-- (c) **floats: the used width is within `min-width` / `max-width`, for every input** — `auto` or
specified width (full strength since /repo 802b9d8: `float_layout` always calls the decorated
`float_width`; the former `float_minmax_partial` needed `width: auto`). -/
theorem float_minmax (cbw minC maxC : Rat) (b r : ABox)
    (h : floatLayoutWidth cbw minC maxC b = .ok r) :
    ∃ w, r.w = some w ∧ b.minW ≤ w ∧ (∀ m, b.maxW = .fin m → b.minW ≤ m → w ≤ m) := by
  obtain ⟨w, h1, h2, h3, _⟩ := minmax_width _ (keepsSize_float cbw minC maxC) (zeroAutoMargins b) r h
  exact ⟨w, h1, h2, h3⟩

/-- On a box whose margins are numbers (which `zeroAutoMargins` guarantees) the width functions of floats
and of inline-blocks are the same function. -/
theorem floatWidthCore_eq_inlineBlock (cbw minC maxC : Rat) (x : ABox) (l r : Rat)
    (hl : x.ml = some l) (hr : x.mr = some r) :
    floatWidthCore cbw minC maxC x = inlineBlockWidthCore cbw minC maxC x := by
  rcases x with ⟨ml, mr, pl, pr, bl, br, w, minW, maxW, posX, col⟩
  simp only at hl hr; subst hl hr
  cases w
  · simp only [floatWidthCore, inlineBlockWidthCore, Except.ok.injEq, ABox.mk.injEq, Option.some.injEq, and_true,
      true_and]
    congr 1
    grind
  · rfl

/-- The passes of the wrapper around a function that only fills an `auto` width (on every box with the
margins, paddings and borders of `b`): the result keeps them, and its width is the filled one,
`max-width` or `min-width`. -/
private theorem fill_passes (f : ABox → Except BErr ABox) (fillW : Rat) (b r : ABox) (hb : b.w = none)
    (hf : ∀ x : ABox, x.ml = b.ml → x.mr = b.mr → x.pl = b.pl → x.pr = b.pr → x.bl = b.bl → x.br = b.br →
      f x = .ok (match x.w with | none => { x with w := some fillW } | some _ => x))
    (h : handleMinMaxWidth f b = .ok r) :
    r.ml = b.ml ∧ r.mr = b.mr ∧ r.pl = b.pl ∧ r.pr = b.pr ∧ r.bl = b.bl ∧ r.br = b.br ∧
    (r.w = some fillW ∨ r.w = some b.minW ∨ ∃ m, b.maxW = .fin m ∧ r.w = some m ∧ m < fillW) := by
  obtain ⟨b1, w1, b2, w2, h1, hw1, hmax, hw2, hmin⟩ := minmax_passes f b r h
  rw [hf b rfl rfl rfl rfl rfl rfl] at h1
  simp only [hb, Except.ok.injEq] at h1
  subst h1
  simp only [Option.some.injEq] at hw1
  subst hw1
  rcases hmax with ⟨hlt, m, hm, h2⟩ | ⟨_, e2⟩
  · have e := hf { ({ b with w := some fillW } : ABox) with w := some m, ml := b.ml, mr := b.mr, posX := b.posX }
      rfl rfl rfl rfl rfl rfl
    rw [e] at h2
    simp only [Except.ok.injEq] at h2
    subst h2
    simp only at hm hlt
    have hgt : m < fillW := by rw [hm] at hlt; simpa [Ext.ltRat] using hlt
    rcases hmin with ⟨_, h3⟩ | ⟨_, er⟩
    · have e' := hf { ({ b with w := some m } : ABox) with w := some b.minW, ml := b.ml, mr := b.mr, posX := b.posX }
        rfl rfl rfl rfl rfl rfl
      rw [e'] at h3
      simp only [Except.ok.injEq] at h3
      subst h3
      exact ⟨rfl, rfl, rfl, rfl, rfl, rfl, Or.inr (Or.inl rfl)⟩
    · subst er
      exact ⟨rfl, rfl, rfl, rfl, rfl, rfl, Or.inr (Or.inr ⟨m, hm, rfl, hgt⟩)⟩
  · subst e2
    rcases hmin with ⟨_, h3⟩ | ⟨_, er⟩
    · have e' := hf { ({ b with w := some fillW } : ABox) with
          w := some b.minW, ml := b.ml, mr := b.mr, posX := b.posX } rfl rfl rfl rfl rfl rfl
      rw [e'] at h3
      simp only [Except.ok.injEq] at h3
      subst h3
      exact ⟨rfl, rfl, rfl, rfl, rfl, rfl, Or.inr (Or.inl rfl)⟩
    · subst er
      exact ⟨rfl, rfl, rfl, rfl, rfl, rfl, Or.inl rfl⟩

/-- (b)(f) **an inline-block with `width: auto` fits its containing block**: when the min-content width
and `min-width` fit in the available width (containing block minus the box's own margins, borders and
paddings), the margin box is not wider than the containing block. -/
theorem inline_block_fits (cbw minC maxC : Rat) (b r : ABox) (hauto : b.w = none)
    (h : inlineBlockLayoutWidth cbw minC maxC b = .ok r)
    (hminC : minC ≤ cbw - (orZero b.ml + orZero b.mr + b.bl + b.br + b.pl + b.pr))
    (hminW : b.minW ≤ cbw - (orZero b.ml + orZero b.mr + b.bl + b.br + b.pl + b.pr)) :
    ∃ o, outer? r = some o ∧ o ≤ cbw := by
  unfold inlineBlockLayoutWidth at h
  have hz : (zeroAutoMargins b).w = none := hauto
  have hf : ∀ x : ABox, x.ml = (zeroAutoMargins b).ml → x.mr = (zeroAutoMargins b).mr →
      x.pl = (zeroAutoMargins b).pl → x.pr = (zeroAutoMargins b).pr → x.bl = (zeroAutoMargins b).bl →
      x.br = (zeroAutoMargins b).br →
      inlineBlockWidthCore cbw minC maxC x = .ok (match x.w with
        | none => { x with w := some (shrinkToFit minC maxC
            (cbw - (orZero b.ml + orZero b.mr + b.bl + b.br + b.pl + b.pr))) }
        | some _ => x) := by
    intro x h1 h2 h3 h4 h5 h6
    simp only [zeroAutoMargins] at h1 h2 h3 h4 h5 h6
    unfold inlineBlockWidthCore
    simp only [h1, h2, h3, h4, h5, h6]
    cases x.w <;> rfl
  obtain ⟨e1, e2, e3, e4, e5, e6, hw⟩ := fill_passes _ _ (zeroAutoMargins b) r hz hf h
  have hstf := shrinkToFit_le minC maxC (cbw - (orZero b.ml + orZero b.mr + b.bl + b.br + b.pl + b.pr))
  simp only [zeroAutoMargins] at e1 e2 e3 e4 e5 e6 hw
  rcases hw with hw | hw | ⟨m, _, hw, hlt⟩ <;>
    refine ⟨_, by simp only [outer?, e1, e2, hw]; rfl, ?_⟩ <;> rw [e3, e4, e5, e6] <;> grind

/-- **The width part of `float_layout` is the width part of `inline_block_box_layout`**, for every input
(CSS 2.1 §10.3.5 and §10.3.9 are the same rule; true of the code since /repo 802b9d8 + 8719f13). -/
theorem float_eq_inline_block (cbw minC maxC : Rat) (b : ABox) :
    floatLayoutWidth cbw minC maxC b = inlineBlockLayoutWidth cbw minC maxC b := by
  unfold floatLayoutWidth inlineBlockLayoutWidth
  -- every pass of the wrapper runs on a box with the computed (numeric) margins of `zeroAutoMargins b`
  exact minmax_congr _ _ _ (fun x h1 h2 => floatWidthCore_eq_inlineBlock cbw minC maxC x _ _ h1 h2)

/-- (b)(f) **a float with `width: auto` fits its containing block** under the hypotheses of
`inline_block_fits` (full strength since /repo 8719f13; the former `float_fits_partial` needed the float
to have no margins, borders or paddings of its own). -/
theorem float_fits (cbw minC maxC : Rat) (b r : ABox) (hauto : b.w = none)
    (h : floatLayoutWidth cbw minC maxC b = .ok r)
    (hminC : minC ≤ cbw - (orZero b.ml + orZero b.mr + b.bl + b.br + b.pl + b.pr))
    (hminW : b.minW ≤ cbw - (orZero b.ml + orZero b.mr + b.bl + b.br + b.pl + b.pr)) :
    ∃ o, outer? r = some o ∧ o ≤ cbw := by
  rw [float_eq_inline_block] at h
  exact inline_block_fits cbw minC maxC b r hauto h hminC hminW

/-- Non-vacuity / regression: `float: left; padding: 0 10px` around a long text in a 100px block gets an
80px content box (100px before the repair), margin box 100px. -/
example : (match floatLayoutWidth 100 30 230
      { ml := some 0, mr := some 0, pl := 10, pr := 10, bl := 0, br := 0, w := none, minW := 0, maxW := .inf,
        posX := 0, isColumn := false } with
    | .ok r => outer? r
    | .error _ => none) = some 100 := by decide +kernel

/-! ## the remaining functions of percent.py -/

/-- (d) `left` / `right` percentages refer to the containing block **width**, `top` / `bottom` to its
**height** (`resolve_position_percentages`). -/
theorem resolvePosition_spec (l r t b : DimQ) (cbW cbH : Rat) (out : Len × Len × Len × Len)
    (h : resolvePosition l r t b cbW cbH = .ok out) :
    percentageQ l cbW = .ok out.1 ∧ percentageQ r cbW = .ok out.2.1 ∧
    percentageQ t cbH = .ok out.2.2.1 ∧ percentageQ b cbH = .ok out.2.2.2 := by
  unfold resolvePosition at h
  cases h1 : percentageQ l cbW <;> cases h2 : percentageQ r cbW <;> cases h3 : percentageQ t cbH <;>
    cases h4 : percentageQ b cbH <;> simp [h1, h2, h3, h4, bind, Except.bind, pure, Except.pure] at h
  subst h
  exact ⟨rfl, rfl, rfl, rfl⟩

example : resolvePosition (.pct 50) .auto (.pct 25) (.px 3) 200 80 = .ok (some 100, none, some 20, some 3) :=
  okEq_iff.mp (by decide +kernel)

/-- (d) a percentage border radius refers to the border box, horizontally to its width and vertically to
its height; a `0px` radius or a corner on a side without decoration is `(0, 0)`. -/
theorem resolveRadius_spec (vx vy bw bh : Rat) :
    resolveRadius (.pct vx) (.pct vy) false bw bh = .ok (bw * vx / 100, bh * vy / 100) ∧
    (∀ ry removed, resolveRadius (.px 0) ry removed bw bh = .ok (0, 0)) ∧
    (∀ rx ry, resolveRadius rx ry true bw bh = .ok (0, 0)) := by
  refine ⟨by simp [resolveRadius, percentageQ, bind, Except.bind, pure, Except.pure], ?_, ?_⟩
  · intro ry removed; simp [resolveRadius]
  · intro rx ry; unfold resolveRadius; split <;> rfl

/-- The used border width under `border-collapse`: the one set by the border conflict resolution when
there is one, else the computed one; always the computed one for separated borders. -/
theorem effectiveBorder_spec (preset : Option Rat) (w : Rat) :
    effectiveBorder false preset w = w ∧ effectiveBorder true none w = w ∧
    (∀ p, effectiveBorder true (some p) w = p) := by
  refine ⟨?_, rfl, fun p => rfl⟩
  cases preset <;> rfl

/-! ## the used width as one closed formula (the reference of the harness's `clause_shrink`, for all inputs) -/

/-- CSS 2.1 §10.4 on a tentative width `t`: `max-width` first, `min-width` last (so the minimum wins). -/
def cssClamp (t minW : Rat) (maxW : Ext) : Rat :=
  let t' := match maxW with
    | .fin m => if t > m then m else t
    | _ => t
  if t' < minW then minW else t'

/-- The wrapper around a function that fills an `auto` width with `t` and keeps a specified one, **is**
the CSS formula applied to the width `t` of the first pass: one closed expression for every input (`max-width ≠ -inf`). -/
theorem minmax_fill_formula (f : ABox → Except BErr ABox) (t : Rat) (b : ABox)
    (hfill : f b = .ok { b with w := some t })
    (hkeep : ∀ x : ABox, x.w ≠ none → f x = .ok x) (hmax : b.maxW ≠ .ninf) :
    handleMinMaxWidth f b = .ok { b with w := some (cssClamp t b.minW b.maxW) } := by
  unfold handleMinMaxWidth
  simp only [bind, Except.bind, hfill, widthOf]
  cases hm : b.maxW with
  | ninf => exact absurd hm hmax
  | inf =>
    simp only [Ext.ltRat, Bool.false_eq_true, if_false, pure, Except.pure, cssClamp]
    by_cases h2 : t < b.minW
    · simp only [if_pos h2]
      rw [hkeep _ (by simp)]
    · simp [if_neg h2]
  | nan =>
    simp only [Ext.ltRat, Bool.false_eq_true, if_false, pure, Except.pure, cssClamp]
    by_cases h2 : t < b.minW
    · simp only [if_pos h2]
      rw [hkeep _ (by simp)]
    · simp [if_neg h2]
  | fin m =>
    simp only [Ext.ltRat, decide_eq_true_eq, cssClamp]
    by_cases h1 : t > m
    · simp only [if_pos h1, extAsLen]
      rw [hkeep _ (by simp)]
      simp only [pure, Except.pure]
      by_cases h2 : m < b.minW
      · simp only [if_pos h2]
        rw [hkeep _ (by simp)]
      · simp [if_neg h2]
    · simp only [if_neg h1, pure, Except.pure]
      by_cases h2 : t < b.minW
      · simp only [if_pos h2]
        rw [hkeep _ (by simp)]
      · simp [if_neg h2]

/-- The tentative width of a float / inline-block (CSS 2.1 §10.3.5, §10.3.9): the specified one, or the
shrink-to-fit width for the available width (containing block minus the box's own margins, borders, paddings). -/
def tentativeWidth (cbw minC maxC : Rat) (b : ABox) : Rat :=
  match b.w with
  | some w => w
  | none => shrinkToFit minC maxC
      (cbw - (orZero b.ml + orZero b.mr + b.pl + b.pr + b.bl + b.br))

/-- (b)(c) **The used width of a float is the CSS formula, for every input** — what the harness's reference
`clause_shrink` computes for the rendered boxes, now a theorem of the model: auto margins are 0, the width is
`cssClamp` of the tentative width (`max-width` first, `min-width` last), everything else is untouched. -/
theorem float_width_css (cbw minC maxC : Rat) (b : ABox) (hmax : b.maxW ≠ .ninf) :
    floatLayoutWidth cbw minC maxC b =
      .ok { zeroAutoMargins b with w := some (cssClamp (tentativeWidth cbw minC maxC b) b.minW b.maxW) } := by
  unfold floatLayoutWidth
  have hkeep : ∀ x : ABox, x.w ≠ none → floatWidthCore cbw minC maxC x = .ok x := by
    intro x hx
    unfold floatWidthCore
    cases hw : x.w with
    | none => exact absurd hw hx
    | some v => rfl
  have hfill : floatWidthCore cbw minC maxC (zeroAutoMargins b) =
      .ok { zeroAutoMargins b with w := some (tentativeWidth cbw minC maxC b) } := by
    rcases b with ⟨ml, mr, pl, pr, bl, br, w, minW, maxW, posX, col⟩
    cases w <;> simp [floatWidthCore, zeroAutoMargins, tentativeWidth]
  exact minmax_fill_formula _ _ (zeroAutoMargins b) hfill hkeep hmax

/-- The same for inline-blocks. -/
theorem inline_block_width_css (cbw minC maxC : Rat) (b : ABox) (hmax : b.maxW ≠ .ninf) :
    inlineBlockLayoutWidth cbw minC maxC b =
      .ok { zeroAutoMargins b with w := some (cssClamp (tentativeWidth cbw minC maxC b) b.minW b.maxW) } := by
  rw [← float_eq_inline_block]
  exact float_width_css cbw minC maxC b hmax

/-- `cssClamp` is the clause: at least `min-width`, at most `max-width` when that is not below `min-width`, and the
tentative width itself when it lies between them. -/
theorem cssClamp_spec (t minW : Rat) (maxW : Ext) :
    minW ≤ cssClamp t minW maxW ∧ (∀ m, maxW = .fin m → minW ≤ m → cssClamp t minW maxW ≤ m) ∧
    (minW ≤ t → (∀ m, maxW = .fin m → t ≤ m) → cssClamp t minW maxW = t) := by
  unfold cssClamp
  cases maxW <;> simp <;> grind

/-- `float: left; padding: 0 10px; width: auto`. -/
def exPadded : ABox :=
  { ml := some 0, mr := some 0, pl := 10, pr := 10, bl := 0, br := 0, w := none, minW := 0, maxW := .inf, posX := 0,
    isColumn := false }

/-- Non-vacuity: `float:left; padding:0 10px` around a long text in 100px: 80; `width:80px; max-width:50px`: 50;
`min-width:60px; max-width:50px`: the minimum wins, 60. -/
example :
    tentativeWidth 100 30 230 exPadded = 80 ∧
    cssClamp 80 0 (.fin 50) = 50 ∧ cssClamp 80 60 (.fin 50) = 60 ∧ cssClamp 80 0 .inf = 80 := by
  decide +kernel

/-! ## the decorated `block_level_width` as one closed formula (the reference `css_used` of the judges) -/

/-- (b)(c) **The decorated `block_level_width` is CSS 2.1 §10.3.3 solved for the §10.4 width, for every input**
(the reference `css_used` of the harness's judges `clause_width` / `doc_oracle`, now a theorem of the model):
with `t` the width of the first, tentative, pass, the result is that pass itself when `t` already satisfies
`min-width` / `max-width`, and otherwise (or as well) **one** plain pass of `block_level_width` from the computed margins, the
original `position_x` and the width `cssClamp t min max` (`max-width` first, `min-width` last). -/
theorem blw_minmax_css (cbw : Rat) (dir : Dir) (b r : ABox)
    (h : handleMinMaxWidth (fun b => .ok (blwCore cbw dir b)) b = .ok r) :
    ∃ t, (blwCore cbw dir b).w = some t ∧
      ((cssClamp t b.minW b.maxW = t ∧ r = blwCore cbw dir b) ∨
       r = pass cbw dir b (cssClamp t b.minW b.maxW) b.posX) := by
  obtain ⟨t, ht, hcase⟩ := minmax_reentry cbw dir b r h
  refine ⟨t, ht, ?_⟩
  rcases hcase with ⟨hlt, hmin, e⟩ | ⟨m, hm, hgt, hmin, e⟩ | ⟨hlt, hmin, e⟩ | ⟨m, hm, hgt, hmin, e⟩
  · left
    refine ⟨?_, e⟩
    unfold cssClamp
    cases hmx : b.maxW with
    | fin m =>
      rw [hmx] at hlt
      have : ¬ t > m := by simpa [Ext.ltRat] using hlt
      simp only [if_neg this, if_neg hmin]
    | inf => simp only [if_neg hmin]
    | ninf => rw [hmx] at hlt; simp [Ext.ltRat] at hlt
    | nan => simp only [if_neg hmin]
  · right
    have hc : cssClamp t b.minW b.maxW = m := by
      unfold cssClamp; rw [hm]; simp only [if_pos hgt, if_neg hmin]
    rw [hc]
    exact e
  · right
    have hc : cssClamp t b.minW b.maxW = b.minW := by
      unfold cssClamp
      cases hmx : b.maxW with
      | fin m =>
        rw [hmx] at hlt
        have : ¬ t > m := by simpa [Ext.ltRat] using hlt
        simp only [if_neg this, if_pos hmin]
      | inf => simp only [if_pos hmin]
      | ninf => rw [hmx] at hlt; simp [Ext.ltRat] at hlt
      | nan => simp only [if_pos hmin]
    rw [hc]
    exact e
  · right
    have hc : cssClamp t b.minW b.maxW = b.minW := by
      unfold cssClamp; rw [hm]; simp only [if_pos hgt, if_pos hmin]
    rw [hc]
    exact e

/-- The used width after the decorated `block_level_width` **is** `cssClamp` of the tentative width — clause (c) as
an equation, for every input on which the wrapper succeeds. -/
theorem blw_minmax_width_css (cbw : Rat) (dir : Dir) (b r : ABox)
    (h : handleMinMaxWidth (fun b => .ok (blwCore cbw dir b)) b = .ok r) :
    ∃ t, (blwCore cbw dir b).w = some t ∧ r.w = some (cssClamp t b.minW b.maxW) := by
  obtain ⟨t, ht, hcase⟩ := blw_minmax_css cbw dir b r h
  refine ⟨t, ht, ?_⟩
  rcases hcase with ⟨hc, e⟩ | e
  · rw [e, hc]; exact ht
  · rw [e]; exact (specified_kept cbw dir _).1 _ rfl

/-- `width: 200px; max-width: 50px; margin: 0`. -/
def exClamped : ABox :=
  { ml := some 0, mr := some 0, pl := 0, pr := 0, bl := 0, br := 0, w := some 200, minW := 0, maxW := .fin 50,
    posX := 0, isColumn := false }

/-- Non-vacuity: in a 100px rtl containing block the tentative width 200 is clamped to 50; one pass from x = 0
puts the box at x = 50. -/
example : cssClamp 200 0 (.fin 50) = 50 ∧ (pass 100 .rtl exClamped 50 0).posX = 50 := by
  decide +kernel

end Wp.C05Shrink
