/-
C16 — file level: "header, object syntax, cross-reference offsets and trailer are correct".
Theorems about the model of pydyf's writer (Model/PdfFile, tied to the installed pydyf by the `pydyf-data`,
`file-writer` and `document-file` correspondence sections) and soundness of the executable file checker that is run on
the real bytes of generated documents.
-/
import WpModel.Model.PdfFile
import WpModel.Lemmas.PdfFile

namespace Wp.C16
open Wp Wp.PdfFile

/-- **xref_offsets_correct**: for every list of objects (any data, generations, free or in use), every version string
and every trailer option, in the bytes `PDF.write` produces the offset recorded for in-use object number `i` — the one
printed in cross-reference entry `i` — is exactly where the bytes `i g obj\n<data>\nendobj\n` of that object start, and
the number after `startxref` is exactly where the line `xref` starts. -/
theorem xref_offsets_correct (version : Bytes) (objs : List PObject) (t : Trailer) :
    (∀ (i : Nat) (o : PObject), objs[i]? = some o → o.free = false →
      ∃ off, (writeFile version objs t).offsets[i]? = some off ∧
        line (indirect i o) <+: (writeFile version objs t).bytes.drop off) ∧
    (writeFile version objs t).offsets.length = objs.length ∧
    line (str "xref") <+: (writeFile version objs t).bytes.drop (writeFile version objs t).xrefPos :=
  ⟨fun i o hi hf => writeFile_offsets version objs t i o hi hf, writeObjects_length _ _ _,
   writeFile_xref_position version objs t⟩

/-- Decimal numbers survive the trip through the file: what the writer prints (`str(n)`, and the zero-padded
`f'{offset:010}'` / `f'{generation:05}'` of the table) reads back as the same number. -/
theorem decimal_round_trip (n w : Nat) : parseNat (natStr n) = some n ∧ parseNat (padNat w n) = some n :=
  ⟨parseNat_natStr n, parseNat_padNat w n⟩

/-- The file-level clauses of C16 for a classic (cross-reference table) file with `n` objects and the table at `x`. -/
structure FileOK (f : Bytes) (n x : Nat) : Prop where
  /-- the file starts with `%PDF-`; -/
  header : str "%PDF-" <+: f
  /-- it ends with `startxref`, the decimal position `x`, `%%EOF`; -/
  tail : ∃ pre digits, f = pre ++ str "startxref" ++ '\n' :: digits ++ str "\n%%EOF\n" ∧ parseNat digits = some x
  /-- at `x` there is `xref`, one subsection header `0 n`, then `n` entries of 20 bytes, then `trailer`; every entry is
  well formed and every in-use entry `i` points at the bytes `i g obj\n`. -/
  table : ∃ sub entries, f.drop x = line (str "xref") ++ line sub ++ entries ∧ ['0', ' '] <+: sub ∧
    parseNat (sub.drop 2) = some n ∧ str "trailer\n" <+: entries.drop (20 * n) ∧
    ∀ i, i < n → ∃ off gen free, parseEntry (entries.drop (20 * i)) = some (off, gen, free) ∧
      (free = false → PdfFile.header i gen <+: f.drop off)

/-- **check_file_sound**: a file accepted by the executable checker (run on the real bytes of every generated
classic-xref document) satisfies the file-level clauses. -/
theorem check_file_sound (f : Bytes) (n x : Nat) (h : checkFile f = some (n, x)) : FileOK f n x := by
  unfold checkFile at h
  split at h
  · simp at h
  · rename_i hhead
    cases ht : parseTail f with
    | none => rw [ht] at h; simp at h
    | some xp =>
      rw [ht] at h
      simp only at h
      have hl1 := (splitLine_spec (f.drop xp)).2
      generalize (splitLine (f.drop xp)).1 = a1 at hl1 h
      generalize (splitLine (f.drop xp)).2 = r1 at hl1 h
      split at h
      · simp at h
      · rename_i hx
        have hl2 := (splitLine_spec r1).2
        generalize (splitLine r1).1 = a2 at hl2 h
        generalize (splitLine r1).2 = r2 at hl2 h
        split at h
        · simp at h
        · rename_i h0
          cases hn : parseNat (a2.drop 2) with
          | none => rw [hn] at h; simp at h
          | some m =>
            rw [hn] at h
            simp only at h
            split at h
            · simp at h
            · rename_i hent
              split at h
              · simp at h
              · rename_i htr
                split at h
                · simp at h
                  obtain ⟨rfl, rfl⟩ := h
                  have ha1 : a1 = str "xref" := by simpa using hx
                  have hr1 : f.drop xp = line (str "xref") ++ r1 := by
                    rcases hl1 with e | ⟨e, e2⟩
                    · rw [e, ha1]; simp [line]
                    · -- no line feed after `xref`: then the next line is empty and cannot start with `0 `
                      subst e2
                      rcases hl2 with e3 | ⟨e3, _⟩
                      · simp at e3
                      · have : a2 = [] := by simpa using e3.symm
                        subst this
                        simp [startsWith] at h0
                  have hr2 : r1 = line a2 ++ r2 := by
                    rcases hl2 with e | ⟨e, e2⟩
                    · rw [e]; simp [line]
                    · subst e2
                      -- the table would be empty: `trailer` cannot follow
                      simp [startsWith, str] at htr
                  refine ⟨(startsWith_iff _ _).mp (by simpa using hhead), parseTail_sound f xp ht,
                    a2, r2, by rw [hr1, hr2, List.append_assoc], (startsWith_iff _ _).mp (by simpa using h0), hn,
                    (startsWith_iff _ _).mp (by simpa using htr), ?_⟩
                  intro i hi
                  obtain ⟨off, gen, free, p1, p2⟩ := checkEntries_sound f m 0 r2 (by simpa using hent) i hi
                  exact ⟨off, gen, free, p1, fun hf => by simpa using p2 hf⟩
                · simp at h

/-- **checker_accepts_writer** (refinement writer model → checker): for every object list, version and trailer
options, the bytes the writer model produces are accepted by the file checker, which reports exactly the number of
objects and the table position — provided the fixed-width table entries can hold the numbers (every offset below 10¹⁰,
i.e. a file below 10 GB, and every generation below 10⁵).  Together with `check_file_sound`: `FileOK` holds of every
file the model writes. -/
theorem checker_accepts_writer (version : Bytes) (objs : List PObject) (t : Trailer)
    (hoff : ∀ off ∈ (writeFile version objs t).offsets, off < 10 ^ 10)
    (hgen : ∀ o ∈ objs, o.generation < 10 ^ 5) :
    checkFile (writeFile version objs t).bytes = some (objs.length, (writeFile version objs t).xrefPos) ∧
    FileOK (writeFile version objs t).bytes objs.length (writeFile version objs t).xrefPos :=
  ⟨checkFile_writeFile version objs t hoff hgen,
   check_file_sound _ _ _ (checkFile_writeFile version objs t hoff hgen)⟩

/-- Non-vacuity and the refinement on an instance: the file the writer model produces for a catalog, a page tree, a
free object and an object with a generation is accepted by the checker, with the right count and table position. -/
example :
    let w := writeFile (str "1.7")
      [⟨65535, true, []⟩, ⟨0, false, str "<</Type /Pages/Kids []/Count 0>>"⟩,
       ⟨0, false, str "<</Type /Catalog/Pages 1 0 R>>"⟩, ⟨0, true, []⟩, ⟨2, false, str "(a\\(b)"⟩]
      ⟨(2, 0), none, some (str "ab", str "cd")⟩
    checkFile w.bytes = some (5, w.xrefPos) := by decide +kernel

end Wp.C16
