/-
C19 — the image cache key, tied to the source.  `Gen/ImageKey.lean` is regenerated from `weasyprint/images.py` on every
run (py/extract/image_key.py): the parts of the f-string assigned to `key` in `get_image_from_uri`, every expression
that indexes `cache` there, every `options[...]` the image code reads.

  `keyStr_renders_source_key`  the hand-written `ImageCache.keyStr` is, for all inputs, the rendering of exactly those
                               parts (so `C19.key_injective` / `cache_transparent` speak about the key of the source)
  `options_read_are_keyed`     every option read by the image code is a field of the key — the class of defect of
                               `image-cache-ignores-options` (and, for the orientation, of F18): a new
                               `options['…']` in `RasterImage` that is not added to the key breaks this proof
  `cache_indexed_by_key_only`  the cache is only ever indexed by `key` (the class of seeded change C19-3)
-/
import WpModel.Gen.ImageKey
import WpModel.Model.ImageCache

namespace Wp.C19.Key
open Wp Wp.ImageCache Wp.Gen.ImageKey

/-- The value of a key field for a request, as Python's `str()` renders it inside the f-string. -/
def fieldValue (url : String) (o : Orientation) (opts : Opts) : String → Option String
  | "url" => some url
  | "orientation" => some o.render
  | "options.optimize_images" => some (pyBool opts.optimize)
  | "options.jpeg_quality" => some (pyOptNat opts.jpegQuality)
  | "options.dpi" => some (pyOptNat opts.dpi)
  | _ => none

/-- Render the parts of an f-string; `none` if a field is unknown to the model. -/
def renderParts (value : String → Option String) : List (Bool × String) → Option String
  | [] => some ""
  | (false, text) :: rest => (renderParts value rest).map (text ++ ·)
  | (true, field) :: rest =>
    match value field, renderParts value rest with
    | some v, some r => some (v ++ r)
    | _, _ => none

/-- **The model's key is the source's key**: for every request, `keyStr` is the rendering of the f-string parts
extracted from `get_image_from_uri` (every field known, in the same order, with the same separators). -/
theorem keyStr_renders_source_key (url : String) (o : Orientation) (opts : Opts) :
    renderParts (fieldValue url o opts) keyParts = some (keyStr url o opts) := by
  simp [keyParts, renderParts, fieldValue, keyStr, String.append_assoc]

/-- The fields of the source's key. -/
def keyFields : List String := keyParts.filterMap (fun p => if p.1 then some p.2 else none)

theorem key_fields :
    keyFields = ["url", "orientation", "options.optimize_images", "options.jpeg_quality", "options.dpi"] := by decide

/-- **Every option the image code reads is part of the key** (so two requests with the same key are decoded and
re-encoded with the same options: the premise of `C19.cache_transparent` / `payload_transparent` holds of the source,
not only of the model). -/
theorem options_read_are_keyed : ∀ r ∈ optionReads, ("options." ++ r.2) ∈ keyFields := by decide

/-- … and the model's `Opts` has exactly the options that are read. -/
theorem options_read_are_modelled :
    ∀ r ∈ optionReads, r.2 ∈ ["optimize_images", "jpeg_quality", "dpi"] := by decide

/-- **The cache is only indexed by `key`**: membership test, read and store of `get_image_from_uri` all use the one
variable that holds the full key. -/
theorem cache_indexed_by_key_only :
    cacheIndexExprs = [("in", "key"), ("load", "key"), ("store", "key")] := by decide

/-- Non-vacuity: the generated lists are not empty, and the rendering on a concrete request. -/
example : optionReads ≠ [] ∧ cacheIndexExprs ≠ [] ∧
    renderParts (fieldValue "u" (.angle .q90 true) ⟨true, some 30, none⟩) keyParts =
      some "u (90, True) True 30 None" := by decide

end Wp.C19.Key
