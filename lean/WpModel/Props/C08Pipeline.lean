/-
C08 — text through the whole box-generation pipeline (`element_to_box` → `create_anonymous_boxes`).
Property theorems only; lemmas in `WpModel/Lemmas/{Pipeline,TableText,BoxGenTidy}.lean`.

`Tidy b`: text lives in text boxes and text boxes are leaves.  `vis t`: the characters of `t` that
`is_whitespace` does not call white space (all but CSS white space: `visible_is_non_css_white`); `PT a b`: `vis a` is a permutation of `vis b`
(tables move captions, header and footer groups).  `ColQuiet b`: columns and column groups hold no
visible text (they are not rendered; `table_boxes_children` empties them).
-/
import WpModel.Lemmas.BoxGenTidy
import WpModel.Lemmas.Fuel
import WpModel.Lemmas.TableFuel
import WpModel.Lemmas.Wrappers

namespace Wp.C08
open Wp Wp.Bx

/-- `flex_boxes` / `grid_boxes`: the text of a tidy tree is kept in order up to U+0020 characters (only
text runs made of spaces are dropped between items), and the tree stays tidy. -/
theorem flex_grid_text (grid : Bool) (b : KBox) (h : Tidy b) :
    noSp (leafText (fgb grid b)) = noSp (leafText b) ∧ Tidy (fgb grid b) := fgb_text grid b h

/-- `inline_in_block` on any tidy tree (no hypothesis on the classes of the children). -/
theorem inline_in_block_text_tidy (b b' : KBox) (force : Bool) (h : Tidy b) (hr : iib force b = .ok b') :
    noSp (leafText b') = noSp (leafText b) ∧ Tidy b' := iib_tidy b force b' h hr

/-- `anonymous_table_boxes`: the visible characters of the tree are kept, up to the order in which a
table arranges its parts; what disappears is white-space text between table parts (rules 1.3 / 1.4)
and the content of columns. -/
theorem table_fixup_text (b r : KBox) (ht : Tidy b) (hq : ColQuiet b) (h : atb b = .ok r) :
    PT (leafText r) (leafText b) ∧ Tidy r := atb_text b r ht hq h

/-- The five passes of `create_anonymous_boxes` in sequence, for every tree and every run that ends. -/
theorem create_anonymous_boxes_text (b r : KBox) (ht : Tidy b) (hq : ColQuiet b)
    (h : createAnonymousBoxes b = .ok r) : PT (leafText r) (leafText b) := pipeline_text b r ht hq h

/-- Every box `element_to_box` returns — with markers, `::before` / `::after`, merged tails, after
`process_whitespace` and `process_text_transform` — is tidy. -/
theorem element_to_box_tidy (root : Bool) (d : Dom) (depth : Nat) (out : List KBox) (depth' : Nat)
    (h : elementToBox root d depth = .ok (out, depth')) : ∀ b ∈ out, Tidy b :=
  (tidyL_iff out).1 (elementToBox_tidy root d depth out depth' h)

/-- End to end: the box tree `build_formatting_structure` returns has the visible characters of the box
`element_to_box` made for the root element (white-space processed, transformed, with generated
content), up to the order of table parts — "text reaches the box tree unchanged". -/
theorem build_formatting_structure_text (d : Dom) (r : KBox) (h : buildFormattingStructure d = .ok r) :
    ∃ b depth, elementToBox true d 0 = .ok ([b], depth) ∧ Tidy b ∧
      (ColQuiet b → PT (leafText r) (leafText b)) := by
  unfold buildFormattingStructure at h
  split at h
  · cases h
  · rename_i b depth he
    have ht : Tidy b := (elementToBox_tidy true d 0 [b] depth he).1
    exact ⟨b, depth, he, ht, fun hq => pipeline_text b r ht hq h⟩
  · cases h

/-! ## termination of `block_in_inline`

The source loops `while True` over `_inner_block_in_inline` with a resume stack; the model runs it with
fuel.  `needA b` steps always suffice, `needA b ≤ 5 · (number of boxes)`, and every iteration of the
loop strictly decreases the weight `bwAt` of the blocks still to be found after the resume position. -/

/-- No run of `block_in_inline` with at least `needA b` steps stops for lack of fuel. -/
theorem block_in_inline_fuel (n : Nat) (b : KBox) (h : needA b ≤ n) : bii n b ≠ .error .fuel :=
  (biiFuelOk n).bii b h

/-- The need is linear in the size of the tree. -/
theorem block_in_inline_need_linear (b : KBox) : needA b + 2 ≤ 5 * sz b := (need_linear b).1

/-- The fuel `create_anonymous_boxes` gives is never exhausted: `block_in_inline` terminates. -/
theorem block_in_inline_terminates (b : KBox) : bii (biiFuel b) b ≠ .error .fuel := bii_terminates b

/-- Progress of the `while True` loop: when `_inner_block_in_inline` finds a block, what remains to be
found after the new resume position weighs strictly less (by the block and its own processing). -/
theorem block_in_inline_progress (n : Nat) (line newLine block : KBox) (stack stack' : List Nat)
    (h : inner n line stack = .ok (newLine, some block, stack')) :
    bwAt line stack' < bwAt line stack ∧ stack' ≠ [] := by
  have := (biiDec n).inner line stack newLine (some block) stack' h
  simp only at this
  exact ⟨by omega, this.2⟩

example : needA (.mk .BlockBox {} {} {} [] [.mk .LineBox {} {} {} [] [.mk .InlineBox {} {} {} []
    [.mk .BlockBox {} {} {} [] [] []] []] []] []) = 14 := by decide

/-! Non-vacuity: `div[ " a", caption"c", td"b", span(inline-flex)[" ", "x"] ]`: the caption moves before
the cell and the flex container loses its space-only run. -/
private def tx (s : List Nat) : KBox := .mk .TextBox {} {} {} s [] []
private def sample : KBox :=
  .mk .BlockBox {} {} {} [] [tx [32, 97], .mk .TableCellBox {} {} {} [] [tx [98]] [],
    .mk .TableCaptionBox {} {} {} [] [tx [99]] [],
    .mk .InlineFlexBox {} {} {} [] [tx [32], tx [120]] []] []

example : Tidy sample ∧ ColQuiet sample := by
  constructor
  · simp [sample, tx, Tidy, TidyL]; decide
  · simp [sample, tx, ColQuiet, ColQuietL]

example : (match createAnonymousBoxes sample with | .ok r => leafText r | .error _ => []) = [32, 97, 99, 98, 120] ∧
    leafText sample = [32, 97, 98, 99, 32, 120] := by
  constructor <;> decide +kernel

/-- Why `ColQuiet` is needed (CSS-conforming, not a defect): text inside a column is not rendered. -/
example : (match atb (.mk .TableBox {} {} {} [] [.mk .TableColumnBox {} {} {} [] [tx [97]] []] []) with
    | .ok r => leafText r | .error _ => [0]) = [] := by decide +kernel


/-! ## Termination of the table fix-up and of the whole pipeline

`table_boxes_children` re-applies its rules to every wrapper it creates (`wrap_improper` calls it on
the new box, `wrap_table` wraps rows and columns in groups).  The nesting is bounded: a table gets rows,
a row gets cells, a cell gets a table for its stray proper table children, that table gets nothing
more; so the recursion is at most five levels deep and every level walks at most `m` children. -/

/-- **Fuel sufficiency for `table_boxes_children`**, for every box and every list of children:
`5·m + 14` steps are enough, `m` = the number of children plus the `span` of a column group (rule
1.2 creates `span` anonymous columns). -/
theorem table_boxes_children_fuel (n : Nat) (box : KBox) (children : List KBox)
    (h : 5 * (children.length + groupSpan box) + 14 ≤ n) : tbc n box children ≠ .error .fuel :=
  tbc_nofuel n box children h

/-- The levels of the bound: a table whose children are all proper, the anonymous cell of rule 2.3, a
row. -/
theorem table_boxes_children_fuel_levels (n : Nat) (box : KBox) (l : List KBox) :
    ((box.kind = .TableBox ∨ box.kind = .InlineTableBox) →
      (∀ c ∈ l, Gen.properTableChild c.kind = true) → 2 * l.length + 7 ≤ n → tbc n box l ≠ .error .fuel) ∧
    (box.kind = .TableCellBox → (∀ c ∈ l, c.isA .TableCellBox = false) → 3 * l.length + 9 ≤ n →
      tbc n box l ≠ .error .fuel) ∧
    (box.kind = .TableRowBox → 4 * l.length + 11 ≤ n → tbc n box l ≠ .error .fuel) :=
  ⟨fun hk hl hn => tbc_nofuel_table n box l hk hl hn, fun hk hl hn => tbc_nofuel_cell n box l hk hl hn,
    fun hk hn => tbc_nofuel_row n box l hk hn⟩

/-- `anonymous_table_boxes` terminates on every tree. -/
theorem table_fixup_terminates (b : KBox) : atb b ≠ .error .fuel := atb_nofuel b

/-- `create_anonymous_boxes` terminates on every tree: none of the loops of the model that stand for a
Python `while True` or for a recursion on freshly made boxes runs out of the fuel the model gives. -/
theorem create_anonymous_boxes_terminates (b : KBox) : createAnonymousBoxes b ≠ .error .fuel :=
  createAnonymousBoxes_nofuel b

/-- `build_formatting_structure` terminates on every document tree; its only failures are the Python
exceptions the model makes explicit. -/
theorem build_formatting_structure_terminates (d : Dom) : buildFormattingStructure d ≠ .error .fuel :=
  buildFormattingStructure_nofuel d

/-- Hence: whenever the pipeline fails, it is with one of the Python exceptions. -/
theorem build_formatting_structure_errors (d : Dom) (e : BErr) (h : buildFormattingStructure d = .error e) :
    e = .assertion ∨ e = .keyError ∨ e = .attributeError ∨ e = .indexError := by
  cases e
  · exact Or.inl rfl
  · exact Or.inr (Or.inl rfl)
  · exact Or.inr (Or.inr (Or.inl rfl))
  · exact Or.inr (Or.inr (Or.inr rfl))
  · exact absurd h (buildFormattingStructure_nofuel d)

/-! Non-vacuity: the old fuel `8·(children + 8)` without the span term is exhausted by a column group
with `span="70"` (the reason `atb` counts `groupSpan`); with it the fix-up ends.  And the bound of
`table_boxes_children_fuel` is within a factor of the truth: a `div` holding one cell needs fuel for
all five levels. -/
private def colGroup70 : KBox := .mk .TableColumnGroupBox {} { span := some 70 } {} [] [] []

example : (match tbc (tableFuel 0) colGroup70 [] with | .error .fuel => true | _ => false) = true ∧
    (match atb colGroup70 with | .ok r => r.kids.length | .error _ => 0) = 70 := by
  constructor <;> decide +kernel

example : (match tbc 8 (.mk .BlockBox {} {} {} [] [] []) [.mk .TableCellBox {} {} {} [] [] []] with
      | .error .fuel => true | _ => false) = true ∧
    (match tbc 19 (.mk .BlockBox {} {} {} [] [] []) [.mk .TableCellBox {} {} {} [] [] []] with
      | .ok r => r.kids.length | .error _ => 0) = 1 := by
  constructor <;> decide +kernel

/-! ## Repaired findings, now theorems

`inline-table-item-loses-wrapper` (97f25f2), `unicode-space-between-table-parts-dropped` (f280b41),
`marker-display-none-crash` (848642f): the witness inputs are regression cases in `Witness/C08.lean`;
here is what holds for every input since the repairs. -/

/-- CSS white space: the characters the `white-space` property acts on (css-text-3 §4.1; CSS 2.1 §16.6.1
lists space, tab, LF, CR; FF is white space of the syntax, CSS 2.1 §4.1.1). -/
def cssWhite (c : Nat) : Bool := c == 32 || c == 9 || c == 10 || c == 13 || c == 12

/-- The character class of `is_whitespace` — the complete graph of the real function, regenerated on
every run — is exactly CSS white space, for every code point: no-break space, U+2003, U+2028, U+3000
are text.  (Before f280b41 the regex was `\S` and this failed at 160, 8195, 8232, 12288.) -/
theorem is_whitespace_is_css_white_space (c : Nat) : Gen.reSpaceCp c = cssWhite c := by
  unfold Gen.reSpaceCp cssWhite
  split <;> simp_all

/-- The pattern the real function searches with: a character that is *not* CSS white space. -/
theorem is_whitespace_pattern : Gen.isWhitespaceRe = "[^ \\t\\n\\r\\f]" := by decide

/-- `is_whitespace(box)`: a text box all of whose characters are CSS white space. -/
theorem is_whitespace_iff (b : KBox) : isWhitespace b = (b.isA .TextBox && b.text.all cssWhite) := by
  unfold isWhitespace allReSpace
  have : Gen.reSpaceCp = cssWhite := funext is_whitespace_is_css_white_space
  rw [this]

/-- Hence the "visible characters" of `table_fixup_text`, `create_anonymous_boxes_text` and
`build_formatting_structure_text` are all characters but CSS white space: the anonymous-table rules
delete nothing else (rules 1.3 / 1.4 now keep NBSP-like text and wrap it in an anonymous cell). -/
theorem visible_is_non_css_white (t : Text) : vis t = t.filter (fun c => !cssWhite c) := by
  unfold vis
  have : Gen.reSpaceCp = cssWhite := funext is_whitespace_is_css_white_space
  rw [this]

/-- `flex_boxes` / `grid_boxes` keep every table box inside a table wrapper (`Wrapped`: outside running
elements a table box is a child of a box with `is_table_wrapper`): the anonymous block that replaces an
inline-block item takes over the flag, so the wrapper of an `inline-table` item stays one. -/
theorem flex_grid_keeps_wrappers (grid : Bool) (b : KBox) (h : Wrapped b) : Wrapped (fgb grid b) :=
  fgb_wrapped grid b h

/-- The same through both passes, as `create_anonymous_boxes` runs them. -/
theorem flex_then_grid_keeps_wrappers (b : KBox) (h : Wrapped b) : Wrapped (fgb true (fgb false b)) :=
  fgb_wrapped true _ (fgb_wrapped false b h)

/-- `::marker { display: none }` (after blockification nothing else computes to `none`): no box, no
failure, whatever the content, the list-style type and the position; the quote depth is unchanged. -/
theorem marker_display_none (m : MarkerSpec) (attrs : El) (outside : Bool) (depth : Nat)
    (h : blockify m.st.display m.st.float m.st.position false = ["none"]) :
    markerToBox m attrs outside depth = .ok ([], depth) := by
  unfold markerToBox
  simp [h]

/-- `display: none` stays `none` under any `float` / `position`. -/
theorem blockify_none (f p : String) (root : Bool) : blockify ["none"] f p root = ["none"] := by
  unfold blockify
  split
  · rfl
  · rfl

/-! Non-vacuity: the table pass hands `div(flex)[ wrapper[inline-table] ]` over `Wrapped`; the flex pass
keeps it so, with the wrapper flag on the anonymous block (cf. `Witness.C08.inline_table_item_keeps_wrapper`). -/
private def flexWithInlineTable : KBox :=
  .mk .FlexBox {} {} {} [] [.mk .InlineBlockBox { anon := true } {} { wrapper := true } []
    [.mk .InlineTableBox {} {} {} [] [] []] []] []

example : Wrapped flexWithInlineTable := by
  simp [flexWithInlineTable, Wrapped, WrappedL, NoTableKid]
  decide

example : (fgb false flexWithInlineTable).kids.map (fun (w : KBox) => (w.kind, w.inst.wrapper)) =
    [(.BlockBox, true)] := by decide +kernel

example : isWhitespace (tx [32, 10, 9]) = true ∧ isWhitespace (tx [160]) = false ∧
    isWhitespace (tx [8195]) = false ∧ isWhitespace (tx [12288]) = false := by decide


end Wp.C08
