/-
C17 — from the styles to the painted page (fourth file of C17): which boxes have a background of their
own after layout, where the canvas background comes from (CSS 2.1 14.2: every background is used exactly
once — on the canvas or on its own box), which boxes get their `transform` as a matrix, and how these
layout results enter the display list of `Page.paint` (`LaidOut.drawDocument`).

Models: `Model/LaidOut.lean` (layout_box_backgrounds, layout_backgrounds, the guard of gather_anchors),
`Model/Transform.lean`, `Model/PaintOrder.lean`.  The class test of `gather_anchors` is the generated table
`Kind.gaTransformable` (graph of the real function on one box of every class).
-/
import WpModel.Props.C17Paint
import WpModel.Props.C17Text
import WpModel.Model.LaidOut

set_option linter.unusedSimpArgs false

namespace Wp.C17
open Wp Wp.Stacking Wp.Gen

/-! ## Which boxes are transformed -/

/-- **Every box class but the non-replaced inline box is transformable** (regenerated table: an edit of
the class test of `gather_anchors` re-checks this): a `transform` is turned into a matrix exactly on the
classes that are not `InlineBox` — the only class an element "which may be split into multiple
inline-level boxes" is laid out as. -/
theorem transformable_classes (k : Kind) : k.gaTransformable = !k.drawInline := by
  cases k <;> decide

/-- The box classes of css-transforms-1's *transformable elements* (block-level or atomic inline-level
boxes, table rows, row groups, cells, captions; here also flex / grid containers of either level). -/
def specTransformable (k : Kind) : Bool :=
  k.dispBlockLevel || k.dispStackingClass || k.dispCell || k.drawReplaced ||
    k == .TableRowBox || k == .TableRowGroupBox || k == .TableCaptionBox

/-- Every transformable element of the specification gets its matrix. -/
theorem spec_transformable_gets_matrix (k : Kind) (h : specTransformable k = true) :
    k.gaTransformable = true := by
  revert h; cases k <;> decide

example : specTransformable .TableCellBox = true ∧ specTransformable .InlineFlexBox = true ∧
    specTransformable .InlineBox = false := by decide

/-- `gather_anchors` sets `box.transformation_matrix` iff `transform` is not `none` and the box is not
an inline box; it is then the matrix of `Transform.transformationMatrix`. -/
theorem gather_matrix_spec (k : Kind) (t : StyleTransform) :
    gatherMatrix k t =
      if t.fns ≠ [] ∧ k.drawInline = false then
        some (Transform.transformationMatrix t.bbx t.bby t.bw t.bh t.ox t.oy t.fns)
      else none := by
  unfold gatherMatrix
  rw [transformable_classes]
  cases hf : t.fns <;> cases hk : k.drawInline <;> simp

/-- **The early return of `draw_stacking_context`** (nothing of the subtree is painted) is taken exactly
for a transformed, transformable box whose functions have a vanishing product of determinants — neither
the origin nor translations matter. -/
theorem box_matrix_singular_iff (k : Kind) (t : StyleTransform) :
    boxMatrix k t = .singular ↔
      t.fns ≠ [] ∧ k.drawInline = false ∧
        t.fns.foldl (fun p fn => (Transform.fnMatrix t.bw t.bh fn).det * p) 1 = 0 := by
  unfold boxMatrix
  rw [gather_matrix_spec]
  by_cases h : t.fns ≠ [] ∧ k.drawInline = false
  · rw [if_pos h]
    simp only [matOf, transform_determinant]
    by_cases hd : t.fns.foldl (fun p fn => (Transform.fnMatrix t.bw t.bh fn).det * p) 1 = 0
    · simp [hd, h.1, h.2]
    · simp [hd]
  · rw [if_neg h]
    simp only [matOf]
    constructor
    · intro hh; cases hh
    · intro hh; exact absurd ⟨hh.1, hh.2.1⟩ h

/-- No matrix at all: `transform: none`, or an inline box. -/
theorem box_matrix_none_iff (k : Kind) (t : StyleTransform) :
    boxMatrix k t = .none ↔ t.fns = [] ∨ k.drawInline = true := by
  unfold boxMatrix
  rw [gather_matrix_spec]
  by_cases h : t.fns ≠ [] ∧ k.drawInline = false
  · rw [if_pos h]
    simp only [matOf]
    constructor
    · intro hh; split at hh <;> cases hh
    · intro hh
      rcases hh with hh | hh
      · exact absurd hh h.1
      · rw [h.2] at hh; cases hh
  · rw [if_neg h]
    simp only [matOf, true_iff]
    by_cases hf : t.fns = []
    · exact Or.inl hf
    · right
      cases hk : k.drawInline
      · exact absurd ⟨hf, hk⟩ h
      · rfl

/-- A translation of a table cell: regular, tagged by its x offset. -/
def exTranslate : StyleTransform :=
  { bbx := 10, bby := 20, bw := 100, bh := 50, ox := ⟨50, true⟩, oy := ⟨50, true⟩,
    fns := [.translate ⟨1001, false⟩ ⟨0, false⟩] }

example : boxMatrix .TableCellBox exTranslate = .regular 1001 ∧ boxMatrix .InlineBox exTranslate = .none ∧
    boxMatrix .TableRowBox { exTranslate with fns := [.scale 0 1] } = .singular ∧
    boxMatrix .BlockBox { exTranslate with fns := [] } = .none := by
  decide +kernel

/-- **Document-level link for transforms**: a transformed, transformable box with a regular matrix roots
a context all of whose items — own decoration, descendants in whatever nested context, outlines — are
painted under that matrix. -/
theorem transformed_box_paints_under_matrix (pov : Bool) (a : Attrs) (t : StyleTransform)
    (kids children blocks floats bc : List Node) (env : Env) (code : Nat)
    (hm : a.matrix = boxMatrix a.kind t) (hr : boxMatrix a.kind t = .regular code) :
    ∀ it ∈ paint pov (mkCtx (.node a kids) children blocks floats bc) env,
      ∀ r i c f, it = .paint r i c f → code ∈ f.transforms :=
  transform_applies_to_subtree pov a kids children blocks floats bc env code (hm.trans hr)

/-- … and with a singular one paints nothing. -/
theorem singular_box_paints_nothing (pov : Bool) (a : Attrs) (t : StyleTransform)
    (kids children blocks floats bc : List Node) (env : Env)
    (hm : a.matrix = boxMatrix a.kind t) (hs : boxMatrix a.kind t = .singular) :
    paint pov (mkCtx (.node a kids) children blocks floats bc) env = [] :=
  paint_singular pov a kids children blocks floats bc env (hm.trans hs)

/-! ## `visibility` acts box by box -/

/-- **`visibility` is not subtree-atomic**: `draw_inline_level` on an inline (or line) box paints the box's
own decoration — nothing, when it is hidden: `boxBackground` gave it no background and `drawBorder` tests
`visible` — and then always runs the children loop.  A `visibility: visible` descendant of a hidden inline
box is painted (CSS 2.1 11.2: "descendants of the element will be visible if they have 'visibility: visible'"). -/
theorem inline_children_painted_whatever_visibility (a : Attrs) (kidsItems : Env → List Item) (env : Env)
    (h : a.kind.dilInlineOrLine = true) :
    inlBoxWith a kidsItems env = decoration a env ++ kidsItems env := by
  simp [inlBoxWith, h]

/-- A hidden box whose background layout removed paints no decoration of its own. -/
theorem hidden_box_paints_no_decoration (a : Attrs) (env : Env) (hv : a.visible = false) (hb : a.bg = none) :
    decoration a env = [] := by
  simp [decoration, drawBackground, drawBorder, hv, hb]

/-- `<span style="visibility:hidden; background:…; border:…">h<span style="visibility:visible">v</span></span>`:
only the text of the visible grandchild is shown. -/
example :
    inlList true
      [.node { plain 1 .InlineBox with visible := false, bg := none, border := some 6, borderSides := 4 }
        [.leaf { plain 2 .TextBox with visible := false, bg := none },
         .node { plain 3 .InlineBox with bg := none } [.leaf { plain 4 .TextBox with bg := none }]]] {} =
      [.paint .text 4 17 {}] := by
  simp [inlList, inlKids, inlBoxWith, decoration, drawBackground, drawBorder, drawText, plain,
    Kind.dilInlineOrLine, Kind.dilTextChild]

/-! ## Which boxes have a background -/

/-- `layout_box_backgrounds`: a box other than the page box has no `Background` iff its `visibility` is not
`visible` or its colour is transparent and it has no image; otherwise the background carries the colour. -/
theorem box_background_spec (s : StyleBg) :
    boxBackground false s =
      if s.visibility ≠ .visible ∨ (s.colour = none ∧ s.images = 0) then none else some s.colour := by
  unfold boxBackground StyleBg.hidden
  cases hv : s.visibility <;> cases hc : s.colour <;> by_cases hi : s.images = 0 <;> simp [hv, hc, hi]

/-- **CSS 2.1 11.2 ("an invisible box paints nothing"), full strength** (was `box_background_css_partial`
with the hypothesis `visibility ≠ collapse`, dropped after repair af29a5d): a box other than the page box
has a `Background` iff it is *visible* and has a colour or an image. -/
theorem box_background_css (s : StyleBg) :
    (boxBackground false s).isSome = true ↔
      s.visibility = .visible ∧ (s.colour ≠ none ∨ s.images ≠ 0) := by
  rw [box_background_spec]
  cases hv : s.visibility <;> cases hc : s.colour <;> by_cases hi : s.images = 0 <;> simp_all

/-- A box that is not visible paints no decoration at all: no background (layout gives it none), no
border (`drawBorder` tests `visible`). -/
theorem invisible_box_paints_no_decoration (a : Attrs) (s : StyleBg) (env : Env)
    (hv : s.visibility ≠ .visible) (hvis : a.visible = false) (hb : a.bg = boxBackground false s) :
    decoration a env = [] := by
  have : boxBackground false s = none := by rw [box_background_spec]; simp [hv]
  simp [decoration, drawBackground, drawBorder, hvis, hb, this]

/-- The page box always has one ("Pages need a background for bleed box"). -/
theorem page_background_some (s : StyleBg) : (boxBackground true s).isSome = true := by
  unfold boxBackground StyleBg.hidden
  cases hv : s.visibility <;> cases hc : s.colour <;> by_cases hi : s.images = 0 <;> simp [hv, hc, hi]

example : boxBackground false ⟨.visible, some 8, 0⟩ = some (some 8) ∧
    boxBackground false ⟨.hidden, some 8, 2⟩ = none ∧
    boxBackground false ⟨.visible, none, 1⟩ = some none ∧ boxBackground true ⟨.visible, none, 0⟩ = some none := by
  decide

example : boxBackground false ⟨.collapse, some 8, 1⟩ = none := by decide

/-! ## The canvas background: every background is used exactly once -/

/-- The `Background` a box carries: (box id, colour). -/
def ownBg (a : Attrs) : List (Nat × Option Nat) :=
  match a.bg with
  | none => []
  | some c => [(a.id, c)]

mutual
/-- Every `box.background` of a subtree, in tree order. -/
def bgsOf : Box → List (Nat × Option Nat)
  | .leaf a => ownBg a
  | .node a kids => ownBg a ++ bgsOfL kids
  | .ph b => bgsOf b
def bgsOfL : List Box → List (Nat × Option Nat)
  | [] => []
  | b :: bs => bgsOf b ++ bgsOfL bs
end

private theorem bgsOf_split : ∀ b : Box, bgsOf b = ownBg b.attrs ++ bgsOfL b.kids
  | .leaf a => by simp [bgsOf, Box.attrs, Box.kids, bgsOfL]
  | .node a kids => by simp [bgsOf, Box.attrs, Box.kids]
  | .ph b => by rw [bgsOf, Box.attrs, Box.kids]; exact bgsOf_split b

private theorem attrs_withKids : ∀ (b : Box) (ks : List Box), (b.withKids ks).attrs = b.attrs
  | .leaf _, _ => rfl
  | .node _ _, _ => rfl
  | .ph b, ks => by rw [Box.withKids, Box.attrs, Box.attrs]; exact attrs_withKids b ks

/-- Rewriting the children list of a parent box; a non-parent keeps having none. -/
private theorem bgsOf_withKids : ∀ (b : Box) (ks : List Box), (b.kids = [] → ks = []) →
    bgsOf (b.withKids ks) = ownBg b.attrs ++ bgsOfL ks
  | .leaf a, ks, h => by
    have : ks = [] := h rfl
    simp [Box.withKids, bgsOf, Box.attrs, this, bgsOfL]
  | .node a kids, ks, _ => by simp [Box.withKids, bgsOf, Box.attrs]
  | .ph b, ks, h => by rw [Box.withKids, bgsOf, Box.attrs]; exact bgsOf_withKids b ks h

private theorem count_clearBg : ∀ (b : Box) (c : Option Nat) (p : Nat × Option Nat), b.attrs.bg = some c →
    (bgsOf b.clearBg).count p + (if p = (b.attrs.id, c) then 1 else 0) = (bgsOf b).count p
  | .leaf a, c, p, h => by
    simp only [Box.attrs] at h
    simp only [Box.clearBg, bgsOf, ownBg, h, Box.attrs]
    by_cases hp : p = (a.id, c)
    · subst hp; simp [List.count_cons]
    · have hq : ¬ ((a.id, c) = p) := fun h' => hp h'.symm
      simp [hp, hq, List.count_cons]
  | .node a kids, c, p, h => by
    simp only [Box.attrs] at h
    simp only [Box.clearBg, bgsOf, ownBg, h, Box.attrs, List.count_append]
    by_cases hp : p = (a.id, c)
    · subst hp; simp [List.count_cons]; omega
    · have hq : ¬ ((a.id, c) = p) := fun h' => hp h'.symm
      simp [hp, hq, List.count_cons]
  | .ph b, c, p, h => by
    simp only [Box.attrs] at h
    simp only [Box.clearBg, bgsOf, Box.attrs]
    exact count_clearBg b c p h

private theorem count_clearAt : ∀ (l : List Box) (i : Nat) (b : Box) (c : Option Nat) (p : Nat × Option Nat),
    l[i]? = some b → b.attrs.bg = some c →
    (bgsOfL (clearAt i l)).count p + (if p = (b.attrs.id, c) then 1 else 0) = (bgsOfL l).count p
  | [], i, b, c, p, h, _ => by simp at h
  | x :: xs, 0, b, c, p, h, hb => by
    simp only [List.getElem?_cons_zero, Option.some.injEq] at h
    subst h
    simp only [clearAt, bgsOfL, List.count_append]
    have := count_clearBg x c p hb
    omega
  | x :: xs, i + 1, b, c, p, h, hb => by
    simp only [List.getElem?_cons_succ] at h
    simp only [clearAt, bgsOfL, List.count_append]
    have := count_clearAt xs i b c p h hb
    omega

private theorem clearAt_nil_of_nil (i : Nat) (l : List Box) (h : l = []) : clearAt i l = [] := by
  subst h; cases i <;> rfl

/-- **CSS 2.1 14.2, as laid out: every background is used exactly once.**  `layout_backgrounds` either
leaves the page's children untouched and the canvas without background, or moves the `Background` of one
box — `(i, c)` — to the canvas and leaves every other background in place: for every (box, colour) pair
the boxes still carrying it plus the canvas account for exactly the occurrences before.  In particular
the propagated background is not painted a second time at its own box. -/
theorem canvas_takes_one_background (rootHtml : Bool) (flags : List Bool) (kids kids' : List Box)
    (canvas : Option (Option Nat)) (h : layoutBackgrounds rootHtml flags kids = .ok (canvas, kids')) :
    (canvas = none ∧ kids' = kids) ∨
    ∃ i c, canvas = some c ∧ (i, c) ∈ bgsOfL kids ∧
      ∀ p, (bgsOfL kids').count p + (if p = (i, c) then 1 else 0) = (bgsOfL kids).count p := by
  unfold layoutBackgrounds at h
  cases kids with
  | nil => simp at h
  | cons root margins =>
    simp only at h
    cases hch : chosenBody rootHtml root flags with
    | none =>
      rw [hch] at h
      cases hbg : root.attrs.bg with
      | none =>
        rw [hbg] at h
        simp only [Except.ok.injEq, Prod.mk.injEq] at h
        exact Or.inl ⟨h.1.symm, h.2.symm⟩
      | some c =>
        rw [hbg] at h
        simp only [Except.ok.injEq, Prod.mk.injEq] at h
        refine Or.inr ⟨root.attrs.id, c, h.1.symm, ?_, ?_⟩
        · simp only [bgsOfL, List.mem_append]
          left
          rw [bgsOf_split]
          simp [ownBg, hbg]
        · intro p
          rw [← h.2]
          simp only [bgsOfL, List.count_append]
          have := count_clearBg root c p hbg
          omega
    | some i =>
      rw [hch] at h
      cases hb : root.kids[i]? with
      | none =>
        simp only [hb, Option.map_none, Except.ok.injEq, Prod.mk.injEq] at h
        exact Or.inl ⟨h.1.symm, h.2.symm⟩
      | some body =>
        cases hbg : body.attrs.bg with
        | none =>
          simp only [hb, Option.map_some, hbg, Except.ok.injEq, Prod.mk.injEq] at h
          exact Or.inl ⟨h.1.symm, h.2.symm⟩
        | some c =>
          simp only [hb, Option.map_some, hbg, Except.ok.injEq, Prod.mk.injEq] at h
          have hcount := fun p => count_clearAt root.kids i body c p hb hbg
          refine Or.inr ⟨body.attrs.id, c, h.1.symm, ?_, ?_⟩
          · simp only [bgsOfL, List.mem_append]
            left
            have h1 := hcount (body.attrs.id, c)
            simp only [↓reduceIte] at h1
            have : 0 < (bgsOfL root.kids).count (body.attrs.id, c) := by omega
            rw [bgsOf_split]
            exact List.mem_append_right _ (List.count_pos_iff.mp this)
          · intro p
            rw [← h.2]
            simp only [bgsOfL, List.count_append]
            rw [bgsOf_withKids root _ (fun hk => clearAt_nil_of_nil i _ hk), bgsOf_split root]
            simp only [List.count_append]
            have := hcount p
            omega

/-- Where the canvas background comes from: the root element's own `Background` when it has one … -/
theorem canvas_from_root (rootHtml : Bool) (flags : List Bool) (root : Box) (margins : List Box)
    (c : Option Nat) (h : root.attrs.bg = some c) :
    layoutBackgrounds rootHtml flags (root :: margins) = .ok (some c, root.clearBg :: margins) := by
  simp [layoutBackgrounds, chosenBody, h]

/-- … else, for an `html` root, that of its first `body` child (then the root's stays absent and the
body's is cleared); a root that is not `html` never looks at its children. -/
theorem canvas_from_body (flags : List Bool) (root : Box) (margins : List Box) (i : Nat) (body : Box)
    (c : Option Nat) (hr : root.attrs.bg = none) (hf : firstBody flags = some i)
    (hb : root.kids[i]? = some body) (hc : body.attrs.bg = some c) :
    layoutBackgrounds true flags (root :: margins) =
      .ok (some c, root.withKids (clearAt i root.kids) :: margins) := by
  have hi : i < root.kids.length := by
    rcases List.getElem?_eq_some_iff.mp hb with ⟨hlt, _⟩
    exact hlt
  have hb' : root.kids[i] = body := by
    rw [List.getElem?_eq_getElem hi] at hb
    exact Option.some.inj hb
  simp [layoutBackgrounds, chosenBody, hr, hf, hi, hb', hc]

theorem canvas_not_from_children_unless_html (flags : List Bool) (root : Box) (margins : List Box)
    (hr : root.attrs.bg = none) :
    layoutBackgrounds false flags (root :: margins) = .ok (none, root :: margins) := by
  simp [layoutBackgrounds, chosenBody, hr]

/-- `<html><body style="background:…"><p>…` after `layout_box_backgrounds`: only body has a background. -/
def exDoc : List Box :=
  [.node { plain 1 .BlockBox with bg := none, isRoot := true } [
     .node (plain 2 .BlockBox) [.node { plain 3 .BlockBox with bg := none } []]]]

/-- Body's background goes to the canvas and no box keeps one. -/
example : (layoutBackgrounds true [true] exDoc).toOption.map (fun r => (r.1, bgsOfL r.2)) =
    some (some (some 8), []) := by
  decide +kernel

/-- When the root is not `html` nothing is propagated from a child. -/
example : (layoutBackgrounds false [true] exDoc).toOption.map (fun r => (r.1, bgsOfL r.2)) =
    some (none, [(2, some 8)]) := by
  decide +kernel

example : bgsOfL exDoc = [(2, some 8)] := by decide +kernel

/-! ## `Page.paint` -/

/-- `Page.paint` is `draw_page` on the result of `layout_backgrounds`: every theorem about `drawPage`
(`paint_count_page`, `draw_page_total`, `paint_once_page_partial`) speaks about the painted document. -/
theorem draw_document_eq (page : Attrs) (rootHtml : Bool) (flags : List Bool) (kids kids' : List Box)
    (canvas : Option (Option Nat)) (h : layoutBackgrounds rootHtml flags kids = .ok (canvas, kids')) :
    drawDocument page rootHtml flags kids = drawPage page canvas kids' := by
  simp [drawDocument, h]

/-- `layout_backgrounds` cannot fail on a page that has its root box (`page.children[0]`). -/
theorem layout_backgrounds_total (rootHtml : Bool) (flags : List Bool) (root : Box) (margins : List Box) :
    ∃ r, layoutBackgrounds rootHtml flags (root :: margins) = .ok r := by
  unfold layoutBackgrounds
  simp only
  split
  · split <;> exact ⟨_, rfl⟩
  · split <;> exact ⟨_, rfl⟩

/-- **The canvas background is painted once, the propagated box's own background not at all**: in the
display list of `Page.paint` the number of canvas fills is 1 when `layout_backgrounds` found a coloured
background to propagate and 0 otherwise — over the grammar of `paint_count_page`. -/
theorem canvas_painted_once (page : Attrs) (rootHtml : Bool) (flags : List Bool) (kids kids' : List Box)
    (canvas : Option (Option Nat)) (h : layoutBackgrounds rootHtml flags kids = .ok (canvas, kids'))
    (hp2 : page.kind.drawOwnDecoration = false) (hp6 : page.kind.drawInline = false)
    (hpr : page.kind.drawReplaced = false) (hpm : page.matrix ≠ .singular)
    (hk : ∀ b ∈ kids', hRoot b) (hs : singOKL kids') :
    (drawDocument page rootHtml flags kids).countP (pickRole .canvas page.id) =
      (if isColour canvas then 1 else 0) + (kids'.map (dueRoot (roleSel .canvas page.id))).sum := by
  rw [draw_document_eq page rootHtml flags kids kids' canvas h]
  have := paint_count_page (roleSel .canvas page.id) page canvas kids' hp2 hp6 hpr hpm hk hs
  simpa [Sel.cnt, roleSel] using this

private theorem expBg_clearBg : ∀ b : Box,
    Box.expBg b.clearBg = if b.attrs.matrix = .singular then [] else Box.expBgL b.kids
  | .leaf a => by
    by_cases hm : a.matrix = .singular <;>
      simp [Box.clearBg, Box.expBg, Box.attrs, Box.kids, bgOf, Box.expBgL, hm]
  | .node a kids => by
    by_cases hm : a.matrix = .singular <;> simp [Box.clearBg, Box.expBg, Box.attrs, Box.kids, bgOf, hm]
  | .ph b => by rw [Box.clearBg, Box.expBg, Box.attrs, Box.kids]; exact expBg_clearBg b

/-- **The root element's background, once propagated to the canvas, is not painted at the root box**
(CSS 2.1 14.2; the clause a retained `root_box.background` would break): in the display list of
`Page.paint` the background fills of any id `i` are those of the page box, of the root's descendants and of
the margin boxes — the root box itself contributes none (with distinct ids: `cntBg root.id … = 0`).
Grammar and hypotheses of `paint_once_page_partial`, on the page as `layout_backgrounds` leaves it. -/
theorem propagated_root_background_not_painted (page : Attrs) (rootHtml : Bool) (flags : List Bool)
    (root : Box) (margins : List Box) (c : Option Nat) (h : root.attrs.bg = some c)
    (hp2 : page.kind.drawOwnDecoration = false) (hp6 : page.kind.drawInline = false)
    (hpm : page.matrix ≠ .singular) (hk : ∀ b ∈ root.clearBg :: margins, gRoot b)
    (hs : singOKL (root.clearBg :: margins)) (i : Nat) :
    cntBg i (drawDocument page rootHtml flags (root :: margins)) =
      (bgOf page ++ (if root.attrs.matrix = .singular then [] else Box.expBgL root.kids) ++
        Box.expBgL margins).count i := by
  rw [draw_document_eq page rootHtml flags _ _ _ (canvas_from_root rootHtml flags root margins c h),
    paint_once_page_partial page (some c) _ hp2 hp6 hpm hk hs i]
  simp [Box.expBgL, expBg_clearBg]

private theorem expBgL_clearAt : ∀ (l : List Box) (i : Nat) (b : Box), l[i]? = some b →
    Box.expBgL (clearAt i l) =
      Box.expBgL (l.take i) ++ (Box.expBg b.clearBg ++ Box.expBgL (l.drop (i + 1)))
  | [], i, b, h => by simp at h
  | x :: xs, 0, b, h => by
    simp only [List.getElem?_cons_zero, Option.some.injEq] at h
    subst h
    simp [clearAt, Box.expBgL]
  | x :: xs, i + 1, b, h => by
    simp only [List.getElem?_cons_succ] at h
    simp [clearAt, Box.expBgL, expBgL_clearAt xs i b h, List.append_assoc]

private theorem expBg_withKids : ∀ (b : Box) (ks : List Box), (b.kids = [] → ks = []) →
    Box.expBg (b.withKids ks) = if b.attrs.matrix = .singular then [] else bgOf b.attrs ++ Box.expBgL ks
  | .leaf a, ks, h => by
    have : ks = [] := h rfl
    by_cases hm : a.matrix = .singular <;> simp [Box.withKids, Box.expBg, Box.attrs, this, Box.expBgL, hm]
  | .node a kids, ks, _ => by
    by_cases hm : a.matrix = .singular <;> simp [Box.withKids, Box.expBg, Box.attrs, hm]
  | .ph b, ks, h => by rw [Box.withKids, Box.expBg, Box.attrs]; exact expBg_withKids b ks h

/-- **The `<body>` background, once propagated to the canvas, is not painted at the body box** — the
clause seeded change C17-5 broke (it kept `chosen_box.background`).  For an `html` root without background
whose `i`-th child is the first `body` and has one: in the display list of `Page.paint` the background
fills of any id `j` are those of the page box, of the root's other children, of body's *descendants* and
of the margin boxes; the body box itself contributes none (with distinct ids: `cntBg body.id … = 0`), and
nothing below a singular transform.  Grammar and hypotheses of `paint_once_page_partial`, on the page as
`layout_backgrounds` leaves it. -/
theorem propagated_body_background_not_painted (page : Attrs) (flags : List Bool)
    (root : Box) (margins : List Box) (i : Nat) (body : Box) (c : Option Nat)
    (hr : root.attrs.bg = none) (hf : firstBody flags = some i)
    (hb : root.kids[i]? = some body) (hc : body.attrs.bg = some c)
    (hp2 : page.kind.drawOwnDecoration = false) (hp6 : page.kind.drawInline = false)
    (hpm : page.matrix ≠ .singular)
    (hk : ∀ b ∈ root.withKids (clearAt i root.kids) :: margins, gRoot b)
    (hs : singOKL (root.withKids (clearAt i root.kids) :: margins)) (j : Nat) :
    cntBg j (drawDocument page true flags (root :: margins)) =
      (bgOf page ++
        (if root.attrs.matrix = .singular then [] else
          Box.expBgL (root.kids.take i) ++
            ((if body.attrs.matrix = .singular then [] else Box.expBgL body.kids) ++
              Box.expBgL (root.kids.drop (i + 1)))) ++
        Box.expBgL margins).count j := by
  rw [draw_document_eq page true flags _ _ _ (canvas_from_body flags root margins i body c hr hf hb hc),
    paint_once_page_partial page (some c) _ hp2 hp6 hpm hk hs j]
  have hroot : bgOf root.attrs = [] := by simp [bgOf, hr]
  simp only [Box.expBgL, expBg_withKids root _ (fun h => clearAt_nil_of_nil i _ h), hroot, List.nil_append,
    expBgL_clearAt root.kids i body hb, expBg_clearBg, List.append_nil, List.append_assoc]

/-- `<html style="background:…"><body><p>…`: the root's colour goes to the canvas. -/
def exRootDoc : Box :=
  .node { plain 1 .BlockBox with isRoot := true } [
    .node { plain 2 .BlockBox with bg := none } [.node (plain 3 .BlockBox) []]]

example : (layoutBackgrounds true [true] [exRootDoc]).toOption.map (fun r => (r.1, bgsOfL r.2)) =
    some (some (some 4), [(3, some 12)]) := by
  decide +kernel

/-- The hypotheses of `propagated_root_background_not_painted` hold on it. -/
example : (∀ b ∈ [exRootDoc.clearBg], gRoot b) ∧ singOKL [exRootDoc.clearBg] := by
  simp [exRootDoc, Box.clearBg, gRoot, rootPainted, plain, listS, dispatchS, coreS, definesContext, lastIsLine,
    Node.attrs?, gInlineL, gInline, gFlowL, gFlow, leavesTree, bgOf, Delta.append, singOKL, singOK,
    Kind.drawOwnDecoration, Kind.drawInline, Kind.drawReplaced, Kind.dispBlockLevel, Kind.dispCell,
    Kind.drawLine, Kind.dilInlineOrLine, Kind.dilTextChild, Kind.dispStackingClass, Kind.drawTable]

/-- The hypotheses of `propagated_body_background_not_painted` hold on `exDoc` (html without background, body
with one, a paragraph with one): `firstBody [true] = some 0`, body is child 0, and the page as
`layout_backgrounds` leaves it follows the grammar. -/
example : firstBody [true] = some 0 ∧
    (∀ b ∈ [(Box.node { plain 1 .BlockBox with bg := none, isRoot := true } []).withKids
        (clearAt 0 [.node (plain 2 .BlockBox) [.node (plain 3 .BlockBox) []]])], gRoot b) ∧
    singOKL [(Box.node { plain 1 .BlockBox with bg := none, isRoot := true } []).withKids
        (clearAt 0 [.node (plain 2 .BlockBox) [.node (plain 3 .BlockBox) []]])] := by
  refine ⟨rfl, ?_, ?_⟩ <;>
  simp [singOKL, singOK, Box.withKids, clearAt, Box.clearBg, gRoot, rootPainted, plain, listS, dispatchS, coreS, definesContext,
    lastIsLine, Node.attrs?, gInlineL, gInline, gFlowL, gFlow, leavesTree, bgOf, Delta.append,
    Kind.drawOwnDecoration, Kind.drawInline, Kind.drawReplaced, Kind.dispBlockLevel, Kind.dispCell,
    Kind.drawLine, Kind.dilInlineOrLine, Kind.dilTextChild, Kind.dispStackingClass, Kind.drawTable]

example : Box.expBgL exRootDoc.kids = [3] := by
  simp [exRootDoc, Box.kids, Box.expBgL, Box.expBg, bgOf, plain]

end Wp.C17
