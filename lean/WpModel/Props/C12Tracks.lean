/-
C12 (round 2) — track sizing for arbitrary lists of fixed (`px`, `%`, `minmax()` of those) and
flexible (`fr`) tracks: `_resolve_tracks_sizes` 1.3 conserves the space it distributes, fixed tracks
stay within their bounds, and as soon as some free space is left for the `fr` tracks (factor sum
at least 1) tracks and gaps partition the container exactly.
-/
import WpModel.Props.C12

namespace Wp.C12
open Wp Wp.Grid

/-! ## 1.3 "maximize tracks" conserves space (all track lists) -/

/-- `maximize` only moves space from `free_space` into the base sizes. -/
theorem maximize_conserves (d : Rat) :
    ∀ (tracks : List TSize) (free : Rat),
      sumBase (maximize d tracks free).1 + (maximize d tracks free).2 = sumBase tracks + free := by
  intro tracks
  induction tracks with
  | nil => intro free; rfl
  | cons t rest ih =>
    intro free
    simp only [maximize]
    cases hl : t.limit with
    | none =>
      simp only []
      by_cases h : t.base + d > t.base
      · simp only [h, if_true, sumBase]
        have := ih (free - (t.base - t.base))
        grind
      · simp only [h, if_false, sumBase]
        have := ih (free - d)
        grind
    | some l =>
      simp only []
      by_cases h : t.base + d > l
      · simp only [h, if_true, sumBase]
        have := ih (free - (l - t.base))
        grind
      · simp only [h, if_false, sumBase]
        have := ih (free - d)
        grind

theorem maximize_length (d : Rat) :
    ∀ (tracks : List TSize) (free : Rat), (maximize d tracks free).1.length = tracks.length := by
  intro tracks
  induction tracks with
  | nil => intro free; rfl
  | cons t rest ih =>
    intro free
    simp only [maximize]
    split <;> split <;> simp [ih]

/-- a track that had room (`base ≤ limit`) ends between its base size and its growth limit -/
def Bounded (t t' : TSize) : Prop :=
  t'.limit = t.limit ∧ ∀ l, t.limit = some l → t.base ≤ l → t.base ≤ t'.base ∧ t'.base ≤ l

/-- pointwise relation between two lists of the same length -/
def Forall₂' {α β} (R : α → β → Prop) : List α → List β → Prop
  | [], [] => True
  | a :: as, b :: bs => R a b ∧ Forall₂' R as bs
  | _, _ => False

/-- `maximize` never shrinks a track and never pushes it beyond its growth limit. -/
theorem maximize_bounded (d : Rat) (hd : 0 ≤ d) :
    ∀ (tracks : List TSize) (free : Rat), Forall₂' Bounded tracks (maximize d tracks free).1 := by
  intro tracks
  induction tracks with
  | nil => intro free; trivial
  | cons t rest ih =>
    intro free
    simp only [maximize]
    cases hl : t.limit with
    | none =>
      simp only []
      by_cases h : t.base + d > t.base
      · simp only [h, if_true]
        exact ⟨⟨hl.symm ▸ rfl, by intro l h'; rw [hl] at h'; cases h'⟩, ih _⟩
      · simp only [h, if_false]
        exact ⟨⟨hl.symm ▸ rfl, by intro l h'; rw [hl] at h'; cases h'⟩, ih _⟩
    | some l =>
      simp only []
      by_cases h : t.base + d > l
      · simp only [h, if_true]
        refine ⟨⟨hl.symm ▸ rfl, ?_⟩, ih _⟩
        intro l' h' hle
        rw [hl] at h'; cases h'
        exact ⟨hle, Rat.le_refl⟩
      · simp only [h, if_false]
        refine ⟨⟨hl.symm ▸ rfl, ?_⟩, ih _⟩
        intro l' h' _
        rw [hl] at h'; cases h'
        constructor <;> grind

/-! ## Fixed (`px`, `%`, `minmax()` of those) and flexible (`fr`) tracks -/

/-- the length a `px` / `%` breadth resolves to -/
def lenOf (pbox : Rat) : Breadth → Option Rat
  | .px q => some q
  | .pct q => some (pctOf q pbox)
  | _ => none

/-- sizing functions of a fixed track (`a` to `b`, both lengths) or of a flexible track -/
inductive FixedOrFr (pbox : Rat) : (Breadth × Breadth) → Prop
  | fixed (mn mx : Breadth) (a b : Rat) (ha : lenOf pbox mn = some a) (hb : lenOf pbox mx = some b) :
      FixedOrFr pbox (mn, mx)
  | fr (f : Rat) (h : 0 ≤ f) : FixedOrFr pbox (.auto, .fr f)

/-- a track after 1.1–1.2.5 when no item contributes -/
def prepG (pbox : Rat) (fn : Breadth × Breadth) : TSize :=
  match (initTrack pbox fn).limit with
  | none => { initTrack pbox fn with limit := some (initTrack pbox fn).base }
  | _ => initTrack pbox fn

private theorem zipWith3_replicate_nil' (dirX : Bool) (fns : List (Breadth × Breadth)) (ts : List TSize)
    (h : ts.length = fns.length) :
    zipWith3 (fun f t c => fitNonSpanning dirX f t c) fns ts (List.replicate ts.length []) = ts := by
  induction fns generalizing ts with
  | nil => cases ts <;> simp_all [zipWith3]
  | cons f fs ih =>
    cases ts with
    | nil => simp at h
    | cons t tr =>
      simp only [List.length_cons, List.replicate_succ, zipWith3]
      rw [ih tr (by simpa using h)]
      simp [fitNonSpanning]

/-- 1.1–1.2.5 without items, for every list of sizing functions. -/
theorem prepare_empty_general (fns : List (Breadth × Breadth)) (pbox : Rat) (start : Int) (dirX : Bool) :
    prepareTracks fns pbox [] start dirX = .ok (fns.map (prepG pbox)) := by
  unfold prepareTracks
  simp only [assignChildren, checkSpanning, List.filter_nil, List.foldlM_nil, List.length_nil, List.range_zero,
    List.zip_nil_right, List.forM_eq_forM, List.forM_nil, bind, Except.bind, pure, Except.pure]
  rw [zipWith3_replicate_nil' dirX fns _ (by simp)]
  congr 1
  rw [List.map_map]
  apply List.map_congr_left
  intro fn _
  simp only [Function.comp, prepG]
  split <;> simp_all

/-- the flexible tracks of `z` have a zero base size and a non-negative factor -/
def FrOk (z : List TF) : Prop := ∀ p ∈ z, isFr p.2.2 = true → p.1.base = 0 ∧ 0 ≤ frValue p.2.2

private theorem frOk_tail {p : TF} {z : List TF} (h : FrOk (p :: z)) : FrOk z :=
  fun q hq => h q (by simp [hq])

theorem frLeftover_zero (z : List TF) (h : FrOk z) : frLeftover z = 0 := by
  induction z with
  | nil => rfl
  | cons p r ih =>
    obtain ⟨t, f⟩ := p
    simp only [frLeftover]
    rw [ih (frOk_tail h)]
    by_cases hf : isFr f.2 = true
    · have := (h (t, f) (by simp) hf).1
      simp only [hf, if_true]
      simp only [] at this
      rw [this]; grind
    · simp only [hf, Bool.false_eq_true, if_false]; grind

/-- `Σ` of the flex factors of `z` -/
def frSumZ : List TF → Rat
  | [] => 0
  | p :: r => frValue p.2.2 + frSumZ r

private theorem frValue_nonfr (b : Breadth) (h : isFr b = false) : frValue b = 0 := by
  cases b <;> simp_all [isFr, frValue]

theorem frFactorSum_general (z : List TF) (i : Nat) : frFactorSum [] z i = frSumZ z := by
  induction z generalizing i with
  | nil => rfl
  | cons p r ih =>
    obtain ⟨t, f⟩ := p
    simp only [frFactorSum, frSumZ]
    rw [ih]
    by_cases hf : isFr f.2 = true
    · simp [hf]
    · have hf' : isFr f.2 = false := by simpa using hf
      simp [hf', frValue_nonfr _ hf']

theorem frMark_general (hyp : Rat) (hh : 0 ≤ hyp) (z : List TF) (h : FrOk z) (i : Nat) (free : Rat) (stop : Bool) :
    frMark hyp z i ([], free, stop) = ([], free, stop) := by
  induction z generalizing i with
  | nil => rfl
  | cons p r ih =>
    obtain ⟨t, f⟩ := p
    simp only [frMark]
    have hcond : (!([] : List Nat).contains i && isFr f.2 && decide (hyp * frValue f.2 < t.base)) = false := by
      by_cases hf : isFr f.2 = true
      · obtain ⟨h0, h1⟩ := h (t, f) (by simp) hf
        simp only [] at h0 h1
        have : 0 ≤ hyp * frValue f.2 := Rat.mul_nonneg hh h1
        have hn : ¬ (hyp * frValue f.2 < t.base) := by rw [h0]; exact Rat.not_lt.mpr this
        simp [hn]
      · have hf' : isFr f.2 = false := by simpa using hf
        simp [hf']
    simp only [hcond, Bool.false_eq_true, if_false]
    exact ih (frOk_tail h) _

/-- the final size of a track of `z`: flexible tracks take `flex fraction × factor` -/
def expandG (ff : Rat) (p : TF) : TSize :=
  if isFr p.2.2 then { p.1 with base := ff * frValue p.2.2 } else p.1

theorem frExpand_general (ff : Rat) (hff : 0 ≤ ff) (z : List TF) (h : FrOk z) (i : Nat) (free : Rat) :
    frExpand ff [] z i (some free) = (z.map (expandG ff), some (free - ff * frSumZ z)) := by
  induction z generalizing i free with
  | nil => simp [frExpand, frSumZ]; grind
  | cons p r ih =>
    obtain ⟨t, f⟩ := p
    have ihr := ih (frOk_tail h)
    simp only [frExpand, List.map_cons, frSumZ]
    by_cases hf : isFr f.2 = true
    · obtain ⟨h0, h1⟩ := h (t, f) (by simp) hf
      simp only [] at h0 h1
      by_cases hpos : ff * frValue f.2 > t.base
      · have hc : (isFr f.2 && !([] : List Nat).contains i && decide (ff * frValue f.2 > t.base)) = true := by
          simp [hf, hpos]
        simp only [hc, if_true, Option.map_some, ihr]
        simp only [expandG, hf, if_true]
        congr 2; grind
      · have hc : (isFr f.2 && !([] : List Nat).contains i && decide (ff * frValue f.2 > t.base)) = false := by
          simp [hpos]
        have hz : ff * frValue f.2 = 0 := by
          have : 0 ≤ ff * frValue f.2 := Rat.mul_nonneg hff h1
          rw [h0] at hpos
          grind
        simp only [hc, Bool.false_eq_true, if_false, ihr]
        simp only [expandG, hf, if_true, hz]
        congr 2
        · cases t; simp_all
        · grind
    · have hf' : isFr f.2 = false := by simpa using hf
      simp only [hf', Bool.false_and, Bool.false_eq_true, if_false, ihr]
      simp only [expandG, hf', Bool.false_eq_true, if_false, frValue_nonfr _ hf']
      congr 2; grind

theorem sumBase_expand (ff : Rat) (z : List TF) (h : FrOk z) :
    sumBase (z.map (expandG ff)) = sumBase (z.map (·.1)) + ff * frSumZ z := by
  induction z with
  | nil => simp [sumBase, frSumZ]; grind
  | cons p r ih =>
    obtain ⟨t, f⟩ := p
    simp only [List.map_cons, sumBase, frSumZ]
    rw [ih (frOk_tail h)]
    by_cases hf : isFr f.2 = true
    · have h0 := (h (t, f) (by simp) hf).1
      simp only [] at h0
      simp only [expandG, hf, if_true, h0]; grind
    · have hf' : isFr f.2 = false := by simpa using hf
      simp only [expandG, hf', Bool.false_eq_true, if_false, frValue_nonfr _ hf']; grind

private theorem prepG_fr (pbox f : Rat) : prepG pbox (.auto, .fr f) = { base := 0, limit := some 0 } := by
  simp [prepG, initTrack]

private theorem frOk_of_bounded (pbox : Rat) :
    ∀ (fns : List (Breadth × Breadth)) (T1 : List TSize),
      (∀ fn ∈ fns, FixedOrFr pbox fn) → Forall₂' Bounded (fns.map (prepG pbox)) T1 → FrOk (List.zip T1 fns) := by
  intro fns
  induction fns with
  | nil => intro T1 _ _ p hp; cases T1 <;> simp at hp
  | cons fn rest ih =>
    intro T1 hfns hb
    cases T1 with
    | nil => simp [Forall₂'] at hb
    | cons t tr =>
      simp only [List.map_cons, Forall₂'] at hb
      intro p hp
      simp only [List.zip_cons_cons, List.mem_cons] at hp
      rcases hp with rfl | hp
      · intro hfr
        cases hfns fn (by simp) with
        | fixed mn mx a b ha hb' =>
          simp only [] at hfr
          cases mx <;> simp_all [lenOf, isFr]
        | fr f h =>
          simp only [frValue]
          refine ⟨?_, h⟩
          have hbd := hb.1
          rw [prepG_fr] at hbd
          have := hbd.2 0 rfl (Rat.le_refl)
          simp only [] at this
          exact Rat.le_antisymm this.2 this.1
      · exact ih tr (fun x hx => hfns x (by simp [hx])) hb.2 p hp

private theorem zip_fst_snd (T : List TSize) (fns : List (Breadth × Breadth)) (h : T.length = fns.length) :
    sumBase ((List.zip T fns).map (·.1)) = sumBase T ∧ frSumZ (List.zip T fns) = frSum fns := by
  induction T generalizing fns with
  | nil => cases fns <;> simp_all [sumBase, frSumZ, frSum]
  | cons t tr ih =>
    cases fns with
    | nil => simp at h
    | cons f fr =>
      have := ih fr (by simpa using h)
      simp [List.zip_cons_cons, List.map_cons, sumBase, frSumZ, frSum, this.1, this.2]

private theorem rat_div_pos' (x y : Rat) (hx : 0 < x) (hy : 0 < y) : 0 < x / y := by
  rw [Rat.div_def]; exact Rat.mul_pos hx (Rat.inv_pos.mpr hy)

/-- `tracks_partition` for arbitrary lists of fixed (`px`, `%`, `minmax()` of those) and `fr`
tracks, no item contribution, a definite container size `b`, flex factors summing to at least 1:
if some free space is left after 1.3 has grown the fixed tracks (`hleft`), `_resolve_tracks_sizes`
succeeds, each `fr` track gets `factor × left / Σ factors`, every fixed track stays between its
minimum and its maximum, and tracks and gaps fill the container exactly. -/
theorem tracks_partition_general (fns : List (Breadth × Breadth)) (b gap : Rat) (start : Int)
    (dirX stretch : Bool)
    (hfns : ∀ fn ∈ fns, FixedOrFr b fn) (hne : fns ≠ []) (hsum : frSum fns ≥ 1)
    (free : Rat) (hfree : free = tracksFree b gap (fns.map (prepG b))) (hpos : free > 0)
    (T1 : List TSize) (left : Rat)
    (hmax : maximize (free / (fns.map (prepG b)).length) (fns.map (prepG b)) free = (T1, left))
    (hleft : left > 0) :
    resolveTracks fns (some b) [] start dirX gap stretch =
      .ok ((List.zip T1 fns).map (expandG (left / frSum fns))) ∧
    sumBase ((List.zip T1 fns).map (expandG (left / frSum fns))) + ((fns.length : Int) - 1 : Int) * gap = b ∧
    Forall₂' Bounded (fns.map (prepG b)) T1 := by
  have hS : frSum fns ≠ 0 := by grind
  have hSpos : frSum fns > 0 := by grind
  have hff : 0 ≤ left / frSum fns := Rat.le_of_lt (rat_div_pos' _ _ hleft hSpos)
  have hlen0 : (fns.map (prepG b)).length ≠ 0 := by
    rw [List.length_map]; cases fns <;> simp_all
  have hd : free / ((fns.map (prepG b)).length : Nat) > 0 := by
    have : (0 : Rat) < ((fns.map (prepG b)).length : Nat) := by
      have := Nat.pos_of_ne_zero hlen0
      exact_mod_cast this
    exact rat_div_pos' _ _ hpos this
  have hbounded : Forall₂' Bounded (fns.map (prepG b)) T1 := by
    have := maximize_bounded _ (Rat.le_of_lt hd) (fns.map (prepG b)) free
    rw [hmax] at this; exact this
  have hlenT : T1.length = fns.length := by
    have := maximize_length (free / ((fns.map (prepG b)).length : Nat)) (fns.map (prepG b)) free
    rw [hmax] at this; simpa using this
  have hok : FrOk (List.zip T1 fns) := frOk_of_bounded b fns T1 hfns hbounded
  have hz := zip_fst_snd T1 fns hlenT
  have hcons : sumBase T1 + left = sumBase (fns.map (prepG b)) + free := by
    have := maximize_conserves (free / ((fns.map (prepG b)).length : Nat)) (fns.map (prepG b)) free
    rw [hmax] at this; exact this
  refine ⟨?_, ?_, hbounded⟩
  · unfold resolveTracks
    simp only [prepare_empty_general, bind, Except.bind, Option.map_some, ← hfree]
    have hstep : maximizeStep (fns.map (prepG b)) (some free) = .ok (T1, some left) := by
      unfold maximizeStep
      simp only [hpos, if_true, beq_iff_eq, hlen0, if_false, hmax, pure, Except.pure]
    rw [hstep]
    simp only []
    have hpass : frPass (List.zip T1 fns) [] left = (left / frSum fns, [], left, true) := by
      unfold frPass
      simp only [frLeftover_zero _ hok, frFactorSum_general, hz.2]
      have hm : max 1 (frSum fns) = frSum fns := by grind
      have h0 : left + 0 = left := by grind
      rw [hm, h0, frMark_general _ hff _ hok]
    have hflex : flexStep (List.zip T1 fns) (some left) = .ok (left / frSum fns, [], some left) := by
      unfold flexStep
      have : ¬ (left ≤ 0) := by grind
      simp only [this, if_false]
      unfold frLoop
      simp only [hpass, if_true, pure, Except.pure]
    rw [hflex]
    simp only [frExpand_general _ hff _ hok, pure, Except.pure]
    congr 1
    unfold stretchStep
    have hzero : left - left / frSum fns * frSumZ (List.zip T1 fns) = 0 := by
      rw [hz.2]
      have := Rat.div_mul_cancel (a := left) hS
      grind
    simp only [hzero]
    have : ¬ ((0 : Rat) > 0) := by grind
    simp [this]
  · rw [sumBase_expand _ _ hok, hz.1, hz.2]
    have h1 := Rat.div_mul_cancel (a := left) hS
    have h2 : free = b - sumBase (fns.map (prepG b)) - ((fns.length : Int) - 1 : Int) * gap := by
      rw [hfree]; unfold tracksFree; rw [List.length_map]
    grind

/-- the space the fixed tracks can still take: `Σ (growth limit − base size)` -/
def growRoom : List TSize → Rat
  | [] => 0
  | t :: r => (match t.limit with | some l => l - t.base | none => 0) + growRoom r

/-- 1.3 never hands out more than the room the tracks have. -/
theorem maximize_left_ge (d : Rat) :
    ∀ (tracks : List TSize) (free : Rat), (∀ t ∈ tracks, ∀ l, t.limit = some l → t.base ≤ l) →
      (maximize d tracks free).2 ≥ free - growRoom tracks := by
  intro tracks
  induction tracks with
  | nil => intro free _; simp [maximize, growRoom]; grind
  | cons t rest ih =>
    intro free h
    have ihr := fun fr => ih fr (fun x hx => h x (by simp [hx]))
    simp only [maximize, growRoom]
    cases hl : t.limit with
    | none =>
      simp only []
      by_cases hc : t.base + d > t.base
      · simp only [hc, if_true]; have := ihr (free - (t.base - t.base)); grind
      · simp only [hc, if_false]; have := ihr (free - d); grind
    | some l =>
      simp only []
      have hle := h t (by simp) l hl
      by_cases hc : t.base + d > l
      · simp only [hc, if_true]; have := ihr (free - (l - t.base)); grind
      · simp only [hc, if_false]; have := ihr (free - d); grind

private theorem prepG_room (pbox : Rat) (fn : Breadth × Breadth) :
    ∀ l, (prepG pbox fn).limit = some l → (prepG pbox fn).base ≤ l := by
  intro l hl
  unfold prepG at hl ⊢
  split at hl
  · simp at hl; subst hl; simp_all
  · rename_i hne
    unfold initTrack at hl hne ⊢
    simp only [] at hl hne ⊢
    split at hl
    · simp at hl; subst hl; grind
    · simp at hl

/-- `tracks_partition_general` with a checkable premise: there is room in the container for every
track maximum (`Σ growth limits + gaps < b`). -/
theorem tracks_partition_room (fns : List (Breadth × Breadth)) (b gap : Rat) (start : Int)
    (dirX stretch : Bool)
    (hfns : ∀ fn ∈ fns, FixedOrFr b fn) (hne : fns ≠ []) (hsum : frSum fns ≥ 1)
    (hroom : tracksFree b gap (fns.map (prepG b)) - growRoom (fns.map (prepG b)) > 0)
    (hnonneg : growRoom (fns.map (prepG b)) ≥ 0) :
    ∃ ts, resolveTracks fns (some b) [] start dirX gap stretch = .ok ts ∧
      sumBase ts + ((fns.length : Int) - 1 : Int) * gap = b := by
  have hpos : tracksFree b gap (fns.map (prepG b)) > 0 := by grind
  have hlen0 : (fns.map (prepG b)).length ≠ 0 := by
    rw [List.length_map]; cases fns <;> simp_all
  have hd : 0 ≤ tracksFree b gap (fns.map (prepG b)) / ((fns.map (prepG b)).length : Nat) := by
    have : (0 : Rat) < ((fns.map (prepG b)).length : Nat) := by
      have := Nat.pos_of_ne_zero hlen0
      exact_mod_cast this
    exact Rat.le_of_lt (rat_div_pos' _ _ hpos this)
  have hge := maximize_left_ge (tracksFree b gap (fns.map (prepG b)) / ((fns.map (prepG b)).length : Nat)) (fns.map (prepG b)) (tracksFree b gap (fns.map (prepG b)))
    (by
      intro t ht l hl
      obtain ⟨fn, _, rfl⟩ := List.mem_map.mp ht
      exact prepG_room b fn l hl)
  obtain ⟨h1, h2, _⟩ := tracks_partition_general fns b gap start dirX stretch hfns hne hsum _ rfl hpos
    _ _ rfl (by grind)
  exact ⟨_, h1, h2⟩

/-! Non-vacuity -/

-- `minmax(10px, 30px) 25% 1fr 3fr` with a 4px gap in 200px: the fixed tracks end at 30 and 50, 108 is left
example :
    let fns : List (Breadth × Breadth) := [(.px 10, .px 30), (.pct 25, .pct 25), (.auto, .fr 1), (.auto, .fr 3)]
    (∀ fn ∈ fns, fn = (.px 10, .px 30) ∨ fn = (.pct 25, .pct 25) ∨ fn = (.auto, .fr 1) ∨ fn = (.auto, .fr 3)) ∧
    frSum fns ≥ 1 ∧
    tracksFree 200 4 (fns.map (prepG 200)) - growRoom (fns.map (prepG 200)) > 0 ∧
    (resolveTracks fns (some 200) [] 0 true 4 false).toOption.map (List.map (·.base)) = some [30, 50, 27, 81] := by
  decide +kernel

example : FixedOrFr 200 (.px 10, .px 30) ∧ FixedOrFr 200 (.pct 25, .pct 25) ∧ FixedOrFr 200 (.auto, .fr 3) :=
  ⟨.fixed _ _ 10 30 rfl rfl, .fixed _ _ _ _ rfl rfl, .fr 3 (by decide +kernel)⟩

/-- the flex factors of fixed / flexible tracks add up to something non-negative -/
theorem frSum_nonneg_general (b : Rat) (fns : List (Breadth × Breadth)) (hfns : ∀ fn ∈ fns, FixedOrFr b fn) :
    0 ≤ frSum fns := by
  induction fns with
  | nil => simp [frSum]
  | cons fn rest ih =>
    have hr := ih (fun f hf => hfns f (by simp [hf]))
    simp only [frSum]
    cases hfns fn (by simp) with
    | fixed mn mx a c ha hb =>
      have : frValue mx = 0 := by cases mx <;> simp_all [lenOf, frValue]
      simp only [this]; grind
    | fr f h => simp only [frValue]; grind

/-- `tracks_partition`, no overflow (the clause of the `tracks_fit_violation` oracle, for all inputs of the model):
for arbitrary lists of fixed (`px`, `%`, `minmax()` of those) and `fr` tracks — *whatever the sum of the flex factors,
none included* —, no item contribution, a definite container size `b` in which the minimum sizes and gaps fit with
room to spare (`hpos`), `_resolve_tracks_sizes` succeeds and the tracks and gaps never exceed the container: 1.3 hands
to 1.4 exactly what it did not use (`maximize_conserves`) and 1.4 hands out at most that.  `_partial`: stated without
step 1.5 (content alignment other than `normal` / `stretch`; with them the rest goes to the `auto` minimums) and for
`left > 0` (with nothing left after 1.3 the tracks are those of 1.3 and fill the container). -/
theorem tracks_no_overflow_partial (fns : List (Breadth × Breadth)) (b gap : Rat) (start : Int) (dirX : Bool)
    (hfns : ∀ fn ∈ fns, FixedOrFr b fn) (hne : fns ≠ [])
    (free : Rat) (hfree : free = tracksFree b gap (fns.map (prepG b))) (hpos : free > 0)
    (T1 : List TSize) (left : Rat)
    (hmax : maximize (free / (fns.map (prepG b)).length) (fns.map (prepG b)) free = (T1, left))
    (hleft : left > 0) :
    resolveTracks fns (some b) [] start dirX gap false =
      .ok ((List.zip T1 fns).map (expandG (left / max 1 (frSum fns)))) ∧
    sumBase ((List.zip T1 fns).map (expandG (left / max 1 (frSum fns)))) + ((fns.length : Int) - 1 : Int) * gap ≤ b := by
  have hS0 : 0 ≤ frSum fns := frSum_nonneg_general b fns hfns
  have hm1 : (1 : Rat) ≤ max 1 (frSum fns) := by rw [Rat.max_def]; split <;> grind
  have hmS : frSum fns ≤ max 1 (frSum fns) := by rw [Rat.max_def]; split <;> grind
  have hmpos : max 1 (frSum fns) > 0 := by grind
  have hmne : max 1 (frSum fns) ≠ 0 := by grind
  have hff : 0 ≤ left / max 1 (frSum fns) := Rat.le_of_lt (rat_div_pos' _ _ hleft hmpos)
  have hlen0 : (fns.map (prepG b)).length ≠ 0 := by
    rw [List.length_map]; cases fns <;> simp_all
  have hd : free / ((fns.map (prepG b)).length : Nat) > 0 := by
    have : (0 : Rat) < ((fns.map (prepG b)).length : Nat) := by
      have := Nat.pos_of_ne_zero hlen0
      exact_mod_cast this
    exact rat_div_pos' _ _ hpos this
  have hbounded : Forall₂' Bounded (fns.map (prepG b)) T1 := by
    have := maximize_bounded _ (Rat.le_of_lt hd) (fns.map (prepG b)) free
    rw [hmax] at this; exact this
  have hlenT : T1.length = fns.length := by
    have := maximize_length (free / ((fns.map (prepG b)).length : Nat)) (fns.map (prepG b)) free
    rw [hmax] at this; simpa using this
  have hok : FrOk (List.zip T1 fns) := frOk_of_bounded b fns T1 hfns hbounded
  have hz := zip_fst_snd T1 fns hlenT
  have hcons : sumBase T1 + left = sumBase (fns.map (prepG b)) + free := by
    have := maximize_conserves (free / ((fns.map (prepG b)).length : Nat)) (fns.map (prepG b)) free
    rw [hmax] at this; exact this
  refine ⟨?_, ?_⟩
  · unfold resolveTracks
    simp only [prepare_empty_general, bind, Except.bind, Option.map_some, ← hfree]
    have hstep : maximizeStep (fns.map (prepG b)) (some free) = .ok (T1, some left) := by
      unfold maximizeStep
      simp only [hpos, if_true, beq_iff_eq, hlen0, if_false, hmax, pure, Except.pure]
    rw [hstep]
    simp only []
    have hpass : frPass (List.zip T1 fns) [] left = (left / max 1 (frSum fns), [], left, true) := by
      unfold frPass
      simp only [frLeftover_zero _ hok, frFactorSum_general, hz.2]
      have h0 : left + 0 = left := by grind
      rw [h0, frMark_general _ hff _ hok]
    have hflex : flexStep (List.zip T1 fns) (some left) = .ok (left / max 1 (frSum fns), [], some left) := by
      unfold flexStep
      have : ¬ (left ≤ 0) := by grind
      simp only [this, if_false]
      unfold frLoop
      simp only [hpass, if_true, pure, Except.pure]
    rw [hflex]
    simp only [frExpand_general _ hff _ hok, pure, Except.pure]
    congr 1
  · rw [sumBase_expand _ _ hok, hz.1, hz.2]
    have h2 : free = b - sumBase (fns.map (prepG b)) - ((fns.length : Int) - 1 : Int) * gap := by
      rw [hfree]; unfold tracksFree; rw [List.length_map]
    have hle : left / max 1 (frSum fns) * frSum fns ≤ left := by
      have h1 : left / max 1 (frSum fns) * frSum fns ≤ left / max 1 (frSum fns) * max 1 (frSum fns) :=
        Rat.mul_le_mul_of_nonneg_left hmS hff
      rw [Rat.div_mul_cancel hmne] at h1
      exact h1
    grind

-- tracks_no_overflow_partial: `minmax(0, 10px) 0.5fr` in 100px, `justify-content: start`: 1.3 leaves 90 of the 100px of
-- free space (the first track stops at its limit), 1.4 hands out half of it: 10 + 45 <= 100
example :
    let fns : List (Breadth × Breadth) := [(.px 0, .px 10), (.auto, .fr (1/2))]
    (∀ fn ∈ fns, fn = (.px 0, .px 10) ∨ fn = (.auto, .fr (1/2))) ∧
    tracksFree 100 0 (fns.map (prepG 100)) = 100 ∧
    (maximize (100 / 2) (fns.map (prepG 100)) 100).2 = 90 ∧
    (resolveTracks fns (some 100) [] 0 true 0 false).toOption.map (List.map (·.base)) = some [10, 45] := by
  decide +kernel

end Wp.C12
