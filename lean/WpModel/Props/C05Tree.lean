/-
C05 — the document-level geometry (`Model/BlockTreeV.lean`: every box's x, y, width, height on one page) is
tied by proof to the two models it composes:

  * horizontally it **is** `BlockTree.layoutDoc` (the model compared with rendered documents in the
    `documents` section; refinement to the verified checker: `C05Refine.layoutNode_accepted`);
  * vertically it **is** the root fragment that `PM.remakePage` lays out for the tree of *used* values
    (`verticalOf_refines_pm`), so every theorem of the pagination model about fragments holds of documents
    over the whole value domain of the property (%, em, box-sizing, auto): in particular clause (g), no overlap
    of stacked children when the used vertical margins are non-negative (`document_no_overlap`).
Core Lean only.
-/
import WpModel.Props.C05Refine
import WpModel.Props.C05Pm
import WpModel.Model.BlockTreeV

namespace Wp.C05Tree
open Wp Wp.BoxModel Wp.BlockTree Wp.BlockTreeV

set_option linter.unusedSimpArgs false

private theorem bind_eq_ok {α β} (a : Except BErr α) (f : α → Except BErr β) (r : β) :
    (a >>= f) = .ok r ↔ ∃ x, a = .ok x ∧ f x = .ok r := by
  cases a <;> simp [bind, Except.bind]

/-! ### the horizontal half is `BlockTree.layoutNode` -/

mutual
/-- The tree-keeping layout is the layout of the `doc` command, box for box (preorder). -/
theorem layoutTree_flat (cb : CB) (cbH : Len) (x : Rat) (d : Dir) (fs : Rat) : ∀ n : Node,
    (layoutTree cb cbH x d fs n).map HTree.flat = layoutNode cb cbH x d fs n
  | .mk s kids => by
    simp only [layoutTree, layoutNode, bind, Except.bind]
    cases layoutBox cb cbH x (match s.fontSize with | some f => f | none => fs) s with
    | error e => rfl
    | ok gu =>
      obtain ⟨g, u⟩ := gu
      simp only
      rw [← layoutTreeKids_flat]
      cases layoutTreeKids (CB.box g.w (match s.dir with | some d' => d' | none => d)) u.height g.contentX
        (match s.dir with | some d' => d' | none => d) (match s.fontSize with | some f => f | none => fs) kids with
      | error e => rfl
      | ok rest => simp [Except.map, pure, Except.pure, HTree.flat]
theorem layoutTreeKids_flat (cb : CB) (cbH : Len) (x : Rat) (d : Dir) (fs : Rat) : ∀ ns : List Node,
    (layoutTreeKids cb cbH x d fs ns).map HTree.flatList = layoutKids cb cbH x d fs ns
  | [] => rfl
  | n :: ns => by
    simp only [layoutTreeKids, layoutKids, bind, Except.bind]
    rw [← layoutTree_flat cb cbH x d fs n, ← layoutTreeKids_flat cb cbH x d fs ns]
    cases layoutTree cb cbH x d fs n with
    | error e => rfl
    | ok a =>
      cases layoutTreeKids cb cbH x d fs ns with
      | error e => rfl
      | ok b => simp [Except.map, pure, Except.pure, HTree.flatList]
end

/-- `zipGeo` keeps the horizontal geometry, in order, when there is one vertical entry per box. -/
theorem zipGeo_g (dy : Rat) : ∀ (gs : List Geo) (vs : List PM.Geo), vs.length = gs.length →
    (zipGeo dy gs vs).map (·.g) = gs
  | [], [], _ => rfl
  | [], _ :: _, h => by simp at h
  | _ :: _, [], h => by simp at h
  | g :: gs, v :: vs, h => by
    simp only [zipGeo, List.map_cons, List.cons.injEq, true_and]
    exact zipGeo_g dy gs vs (by simpa using h)

theorem zipGeo_length (dy : Rat) : ∀ (gs : List Geo) (vs : List PM.Geo), vs.length = gs.length →
    (zipGeo dy gs vs).length = gs.length
  | [], [], _ => rfl
  | [], _ :: _, h => by simp at h
  | _ :: _, [], h => by simp at h
  | g :: gs, v :: vs, h => by
    simp only [zipGeo, List.length_cons, Nat.add_right_cancel_iff]
    exact zipGeo_length dy gs vs (by simpa using h)

/-! ### the vertical half is the pagination model on the used values -/

/-- The first (and only) `next_page` of a document without named pages and break properties. -/
def firstNextPage (root : PM.PBox) : PM.NextPage := { brk := none, page := some (PM.boxPageStart root) }

private theorem makeAllPages_ne_nil (d : PM.Doc) (fuel index : Nat) (resume : Option PM.Resume)
    (np : PM.NextPage) (right : Bool) (ps : List PM.Page)
    (h : PM.makeAllPages d fuel index resume np right = some ps) : ps ≠ [] := by
  cases fuel with
  | zero => simp [PM.makeAllPages] at h
  | succ k =>
    simp only [PM.makeAllPages] at h
    split at h
    · simp at h
    · split at h
      · simp only [Option.some.injEq] at h; subst h; simp
      · split at h
        · simp only [Option.some.injEq] at h; subst h; simp
        · simp at h

/-- **Refinement (vertical)**: when `verticalOf` succeeds, the tree of used values was accepted by the
pagination model as a one-page document, and the vertical geometry it returns is, box for box (preorder),
the geometry of the root fragment `remake_page` lays out on that page, translated by the top of the page's
content box; the horizontal entries are untouched. -/
theorem verticalOf_refines_pm (pageH dy : Rat) (t : HTree) (vs : List VGeo)
    (h : verticalOf pageH dy t = .ok vs) :
    ∃ (root : PM.PBox) (n : Nat) (p : PM.Page),
      toPBox true 0 t = .ok (root, n) ∧
      PM.remakePage { pageH, rootLtr := true, root } 0 none (firstNextPage root)
        (PM.firstRight { pageH, rootLtr := true, root }) = some p ∧
      p.resume = none ∧
      (fragFlat p.root).length = t.flat.length ∧
      vs = zipGeo dy t.flat (fragFlat p.root) ∧ vs.map (·.g) = t.flat := by
  unfold verticalOf at h
  simp only [bind_eq_ok] at h
  obtain ⟨⟨root, n⟩, hroot, h⟩ := h
  simp only at h
  refine ⟨root, n, ?_⟩
  split at h
  · rename_i p hp
    unfold PM.paginate at hp
    -- one page: the first `remake_page` succeeded and left nothing to resume
    have key : ∀ (fuel : Nat), PM.makeAllPages { pageH, rootLtr := true, root } fuel 0 none (firstNextPage root)
        (PM.firstRight { pageH, rootLtr := true, root }) = some [p] →
        PM.remakePage { pageH, rootLtr := true, root } 0 none (firstNextPage root)
          (PM.firstRight { pageH, rootLtr := true, root }) = some p ∧ p.resume = none := by
      intro fuel hf
      cases fuel with
      | zero => exact absurd hf (by simp [PM.makeAllPages])
      | succ k =>
        simp only [PM.makeAllPages] at hf
        split at hf
        · simp at hf
        · rename_i q hq
          split at hf
          · rename_i hres
            simp only [Option.some.injEq, List.cons.injEq, and_true] at hf
            subst hf
            exact ⟨hq, hres⟩
          · split at hf
            · rename_i ps hps
              simp only [Option.some.injEq, List.cons.injEq] at hf
              exact absurd hf.2 (makeAllPages_ne_nil _ _ _ _ _ _ _ hps)
            · simp at hf
    obtain ⟨hrp, hres⟩ := key _ hp
    split at h
    · rename_i hlen
      simp only [pure, Except.pure, Except.ok.injEq] at h
      subst h
      exact ⟨p, hroot, hrp, hres, hlen, rfl, zipGeo_g dy _ _ hlen⟩
    · simp at h
  · simp at h
  · simp at h

/-- The horizontal half of `layoutDocV` is `BlockTree.layoutDoc`: the `docv` command of the driver prints
exactly the boxes of the `doc` command, with `y` and the used height added. -/
theorem layoutDocV_horizontal (devW devH : Rat) (page : NStyle) (root : Node) (pg : VGeo) (vs : List VGeo)
    (h : layoutDocV devW devH page root = .ok (pg, vs)) :
    layoutDoc devW devH page root = .ok (pg.g :: vs.map (·.g)) := by
  obtain ⟨s, kids⟩ := root
  unfold layoutDocV at h
  unfold layoutDoc
  simp only [bind_eq_ok] at h ⊢
  obtain ⟨⟨pg', pageH⟩, hpage, t, ht, vs', hv, hout⟩ := h
  simp only [pure, Except.pure, Except.ok.injEq, Prod.mk.injEq] at hout
  obtain ⟨rfl, rfl⟩ := hout
  obtain ⟨_, _, _, _, _, _, _, _, hg⟩ := verticalOf_refines_pm _ _ _ _ hv
  refine ⟨(pg', pageH), hpage, t.flat, ?_, ?_⟩
  · have h2 := congrArg (Except.map HTree.flat) ht
    exact (layoutTree_flat _ _ _ _ _ _).symm.trans h2
  · simp only [pure, Except.pure, hg]

/-! ### clause (g) for documents: no overlap when the used vertical margins are non-negative -/

mutual
/-- Every used top and bottom margin of the laid-out tree is non-negative. -/
def NonNegV : HTree → Prop
  | .mk g _ kids => (0 ≤ g.mt ∧ 0 ≤ g.mb) ∧ NonNegVList kids
def NonNegVList : List HTree → Prop
  | [] => True
  | t :: ts => NonNegV t ∧ NonNegVList ts
end

private theorem pstyleOf_margins (g : Geo) (u : Used) (isRoot : Bool) (st : PM.PStyle)
    (h : pstyleOf g u isRoot = .ok st) : st.mt = g.mt ∧ st.mb = g.mb := by
  unfold pstyleOf at h
  simp only [bind_eq_ok] at h
  obtain ⟨m, _, h⟩ := h
  simp only [pure, Except.pure, Except.ok.injEq] at h
  subst h
  exact ⟨rfl, rfl⟩

mutual
theorem toPBox_nonneg (isRoot : Bool) (next : Nat) : ∀ (t : HTree) (b : PM.PBox) (n : Nat),
    toPBox isRoot next t = .ok (b, n) → NonNegV t → PM.NonNegMargins b
  | .mk g u kids, b, n => by
    intro h hn
    simp only [toPBox, bind_eq_ok] at h
    obtain ⟨st, hst, ⟨ks, n'⟩, hks, h⟩ := h
    simp only [pure, Except.pure, Except.ok.injEq, Prod.mk.injEq] at h
    obtain ⟨rfl, rfl⟩ := h
    obtain ⟨e1, e2⟩ := pstyleOf_margins g u isRoot st hst
    simp only [NonNegV] at hn
    simp only [PM.NonNegMargins, e1, e2]
    exact ⟨hn.1, toPBoxKids_nonneg (next + 1) kids ks n' hks hn.2⟩
theorem toPBoxKids_nonneg (next : Nat) : ∀ (ts : List HTree) (bs : List PM.PBox) (n : Nat),
    toPBoxKids next ts = .ok (bs, n) → NonNegVList ts → PM.NonNegMarginsList bs
  | [], bs, n => by
    intro h _
    simp only [toPBoxKids, pure, Except.pure, Except.ok.injEq, Prod.mk.injEq] at h
    obtain ⟨rfl, _⟩ := h
    trivial
  | t :: ts, bs, n => by
    intro h hn
    simp only [toPBoxKids, bind_eq_ok] at h
    obtain ⟨⟨k, n1⟩, hk, ⟨ks, n2⟩, hks, h⟩ := h
    simp only [pure, Except.pure, Except.ok.injEq, Prod.mk.injEq] at h
    obtain ⟨rfl, rfl⟩ := h
    simp only [NonNegVList] at hn
    simp only [PM.NonNegMarginsList]
    exact ⟨toPBox_nonneg false next t k n1 hk hn.1, toPBoxKids_nonneg n1 ts ks n2 hks hn.2⟩
end

/-- (g) **No overlap, documents**: for every tree of block boxes of the property's domain whose *used* top and
bottom margins are all non-negative (whatever they were specified as: px, %, em, auto), the vertical geometry
of the document is that of a root fragment which starts at or below the top of the page area and in which,
recursively, the children of every box are stacked: each border box starts at or below the current
position, which then moves to the bottom of that border box (or stays, for a child that collapsed through). -/
theorem document_no_overlap (pageH dy : Rat) (t : HTree) (vs : List VGeo) (hn : NonNegV t)
    (h : verticalOf pageH dy t = .ok vs) :
    ∃ p : PM.Page, vs = zipGeo dy t.flat (fragFlat p.root) ∧
      0 ≤ p.root.geo.borderBoxY ∧ PM.FragStacked p.root := by
  obtain ⟨root, n, p, hroot, hrp, _, _, hvs, _⟩ := verticalOf_refines_pm pageH dy t vs h
  have hnn : PM.NonNegMargins root := toPBox_nonneg true 0 t root n hroot hn
  obtain ⟨h1, h2⟩ := C05Pm.remakePage_no_overlap_partial { pageH, rootLtr := true, root } hnn 0 none
    (firstNextPage root) _ p hrp
  exact ⟨p, hvs, h1, h2⟩

/-! ### non-vacuity -/

/-- html (root, 1em = 16px) > body with `margin: 8px` > three divs: `margin: 10% 0 1em` in a 200px page
(20px / 16px), an empty one with `margin: 5px 0` that collapses through, one `height: 50%` of an auto parent
(→ auto, empty: height 0) with `padding-top: 2em`, `box-sizing: border-box`. -/
def exPlain : NStyle := C05Refine.exStyle

def exDocTree : Node :=
  .mk { exPlain with fontSize := some 16, dir := some .ltr }
    [.mk { exPlain with mt := .px 8, mb := .px 8, ml := .px 8, mr := .px 8 }
      [.mk { exPlain with mt := .pct 10, mb := .em 1, height := .px 30 } [],
       .mk { exPlain with mt := .px 5, mb := .px 5 } [],
       .mk { exPlain with height := .pct 50, pt := .em 2, boxSizing := .borderBox } []]]

/-- (x, top of the border box, width, used height) of html, body and the three divs: the body's 8px margin
collapses with the first div's 18.4px (10% of 184): border boxes at 18.4; the second div collapses through
(margins 16, 5, 5 → 16) and stays with the third one at 64.4 = 18.4 + 30 + 16; that one is 32px of padding
around a 0px content box (`height: 50%` of an auto height is auto); html is 18.4 + 78 + 8 high. -/
example : (match layoutDocV 200 1000 exPlain exDocTree with
    | .ok (_, vs) => vs.map (fun (v : VGeo) => (v.g.x, v.y + v.g.mt, v.g.w, v.h))
    | .error _ => []) =
    [(0, 0, 200, (522 : Rat) / 5), (0, (92 : Rat) / 5, 184, 78), (8, (92 : Rat) / 5, 184, 30),
     (8, (322 : Rat) / 5, 184, 0), (8, (322 : Rat) / 5, 184, 0)] := by
  decide +kernel

/-- The hypothesis of `document_no_overlap` holds of that document. -/
example : (match layoutTree (.box 200 .ltr) (some 1000) 0 .ltr 16 exDocTree with
    | .ok t => t.flat.all (fun g => decide (0 ≤ g.mt) && decide (0 ≤ g.mb))
    | .error _ => false) = true := by
  decide +kernel

/-! ### clauses (a)(c) for documents: the used height of the root element -/

private theorem remakePage_blank (d : PM.Doc) (index : Nat) (resume : Option PM.Resume) (np : PM.NextPage)
    (right : Bool) (p : PM.Page) (hp : PM.remakePage d index resume np right = some p) :
    p.type.blank = PM.isBlank (PM.requestedSide d.rootLtr np.brk) right := by
  unfold PM.remakePage at hp
  dsimp only at hp
  split at hp
  · simp at hp
  · simp only [Option.some.injEq] at hp
    subst hp
    rfl

private theorem toPBox_root_st (g : Geo) (u : Used) (kids : List HTree) (root : PM.PBox) (n : Nat)
    (h : toPBox true 0 (.mk g u kids) = .ok (root, n)) :
    root.st.minH = u.minHeight ∧ maxOfExt u.maxHeight = .ok root.st.maxH := by
  simp only [toPBox, bind, Except.bind] at h
  cases hst : pstyleOf g u true with
  | error e => simp [hst] at h
  | ok st =>
    simp only [hst] at h
    cases hk : toPBoxKids 1 kids with
    | error e => simp [hk] at h
    | ok ksn =>
      simp only [hk, pure, Except.pure, Except.ok.injEq, Prod.mk.injEq] at h
      obtain ⟨rfl, _⟩ := h
      unfold pstyleOf at hst
      cases hm : maxOfExt u.maxHeight with
      | error e => simp [hm, bind, Except.bind] at hst
      | ok mx =>
        simp only [hm, bind, Except.bind, pure, Except.pure, Except.ok.injEq] at hst
        subst hst
        exact ⟨rfl, rfl⟩

/-- (a)(c) **The used height of the root element, documents**: whatever its content, its margins and the
units its height, min-height and max-height were given in, the root element's used height (`h` of its entry,
the first one, in the document's geometry) is at least its used `min-height` and, when that is not above the
used `max-height`, at most the used `max-height` — `max(min(h, max-height), min-height)` of
`block_container_layout`, seen from the document. -/
theorem document_root_height (pageH dy : Rat) (g : Geo) (u : Used) (kids : List HTree) (vs : List VGeo)
    (h : verticalOf pageH dy (.mk g u kids) = .ok vs) :
    ∃ v rest, vs = v :: rest ∧ v.g = g ∧ u.minHeight ≤ v.h ∧
      (∀ m, u.maxHeight = .fin m → u.minHeight ≤ m → v.h ≤ m) := by
  obtain ⟨root, n, p, hroot, hrp, hres, _, hvs, _⟩ := verticalOf_refines_pm pageH dy _ vs h
  obtain ⟨hmin, hmax⟩ := toPBox_root_st g u kids root n hroot
  have hblank : p.type.blank = false := by
    rw [remakePage_blank _ _ _ _ _ p hrp]
    rfl
  obtain ⟨c, _, hfrag, hresume⟩ := PM.remakePage_root _ 0 none _ _ p hrp
  have hsrc : PM.pageSource { pageH, rootLtr := true, root } p = root := by
    simp [PM.pageSource, hblank]
  rw [hsrc] at hfrag hresume
  have hr : (PM.layoutBox c root 0 0 0 none false true []).resume = none := by
    rw [← hresume hblank]; exact hres
  obtain ⟨hb1, hb2⟩ := C05Pm.height_bounds c root 0 0 0 none false true [] p.root hfrag hr
  -- the first entry of the geometry is the root fragment's
  have hff : ∃ rest, fragFlat p.root = p.root.geo :: rest := by
    cases p.root <;> exact ⟨_, rfl⟩
  obtain ⟨frest, hff⟩ := hff
  rw [hff] at hvs
  simp only [HTree.flat, zipGeo] at hvs
  refine ⟨_, _, hvs, rfl, ?_, ?_⟩
  · rw [← hmin]; exact hb1
  · intro m hm hle
    rw [hm] at hmax
    simp only [maxOfExt, Except.ok.injEq] at hmax
    exact hb2 m hmax.symm (by rw [hmin]; exact hle)

/-- Non-vacuity on the example document of this file: the root element (`html`) is 104.4px high. -/
example : (match layoutTree (.box 200 .ltr) (some 1000) 0 .ltr 16 exDocTree with
    | .ok t => (match verticalOf 1000 0 t with
        | .ok (v :: _) => decide (v.h = (522 : Rat) / 5)
        | _ => false)
    | .error _ => false) = true := by
  decide +kernel

end Wp.C05Tree
