/-
C02 — rendering is total (PM model part, DESIGN.md §4 C02): the only assertion on the pagination
path of the modelled grammar (`assert root_box` in `make_page`) is unreachable, paragraphs are never
aborted on an empty page, and `make_all_pages` fails only by running out of the explicit fuel.
-/
import WpModel.Props.C03

namespace Wp.C02
open Wp Wp.PM

/-- `make_page`'s `assert root_box` holds for every document, page index, resume position, pending
break and side. -/
theorem root_assert_unreachable (d : Doc) (index : Nat) (resume : Option Resume) (np : NextPage) (right : Bool) :
    (remakePage d index resume np right).isSome = true :=
  C03.remakePage_total d index resume np right

/-- One page is always produced: with at least one unit of fuel `make_all_pages` either returns pages
or has consumed all its fuel on pages that each left content to resume (never an assertion failure). -/
theorem makeAllPages_first_page (d : Doc) (fuel index : Nat) (resume : Option Resume) (np : NextPage) (right : Bool)
    (h : makeAllPages d (fuel + 1) index resume np right = none) :
    ∃ p, remakePage d index resume np right = some p ∧ p.resume.isSome = true ∧
      makeAllPages d fuel (index + 1) p.resume p.nextPage (!right) = none := by
  unfold makeAllPages at h
  have hs := root_assert_unreachable d index resume np right
  cases hp : remakePage d index resume np right with
  | none => rw [hp] at hs; simp at hs
  | some p =>
    rw [hp] at h
    simp only at h
    cases hr : p.resume with
    | none => rw [hr] at h; simp at h
    | some r =>
      refine ⟨p, rfl, by simp [hr], ?_⟩
      rw [hr] at h
      simp only at h
      split at h
      · simp at h
      · rename_i hnone; rw [hr]; exact hnone

/-- A successful pagination has at least one page (clause (b)). -/
theorem at_least_one_page (d : Doc) (fuel index : Nat) (resume : Option Resume) (np : NextPage) (right : Bool)
    (pages : List Page) (h : makeAllPages d fuel index resume np right = some pages) : pages ≠ [] := by
  cases fuel with
  | zero => simp [makeAllPages] at h
  | succ k =>
    unfold makeAllPages at h
    split at h
    · simp at h
    · split at h
      · simp at h; rw [← h]; simp
      · split at h
        · simp at h; rw [← h]; simp
        · simp at h

end Wp.C02
