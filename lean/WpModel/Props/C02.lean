/-
C02 — rendering is total (PM model part, DESIGN.md §4 C02): the only assertion on the pagination
path of the modelled grammar (`assert root_box` in `make_page`) is unreachable, paragraphs are never
aborted on an empty page, and `make_all_pages` fails only by running out of the explicit fuel.
-/
import WpModel.Props.C03

namespace Wp.C02
open Wp Wp.PM

/-- `make_page`'s `assert root_box` holds for every document, page index, resume position, pending
break and side. -/
theorem root_assert_unreachable (d : Doc) (index : Nat) (resume : Option Resume) (np : NextPage) (right : Bool) :
    (remakePage d index resume np right).isSome = true :=
  C03.remakePage_total d index resume np right

/-- One page is always produced: with at least one unit of fuel `make_all_pages` either returns pages
or has consumed all its fuel on pages that each left content to resume (never an assertion failure). -/
theorem makeAllPages_first_page (d : Doc) (fuel index : Nat) (resume : Option Resume) (np : NextPage) (right : Bool)
    (h : makeAllPages d (fuel + 1) index resume np right = none) :
    ∃ p, remakePage d index resume np right = some p ∧ p.resume.isSome = true ∧
      makeAllPages d fuel (index + 1) p.resume p.nextPage (!right) = none := by
  unfold makeAllPages at h
  have hs := root_assert_unreachable d index resume np right
  cases hp : remakePage d index resume np right with
  | none => rw [hp] at hs; simp at hs
  | some p =>
    rw [hp] at h
    simp only at h
    cases hr : p.resume with
    | none => rw [hr] at h; simp at h
    | some r =>
      refine ⟨p, rfl, by simp [hr], ?_⟩
      rw [hr] at h
      simp only at h
      split at h
      · simp at h
      · rename_i hnone; rw [hr]; exact hnone

/-- A successful pagination has at least one page (clause (b)). -/
theorem at_least_one_page (d : Doc) (fuel index : Nat) (resume : Option Resume) (np : NextPage) (right : Bool)
    (pages : List Page) (h : makeAllPages d fuel index resume np right = some pages) : pages ≠ [] := by
  cases fuel with
  | zero => simp [makeAllPages] at h
  | succ k =>
    unfold makeAllPages at h
    split at h
    · simp at h
    · split at h
      · simp at h; rw [← h]; simp
      · split at h
        · simp at h; rw [← h]; simp
        · simp at h

/-! ### termination: the fuel never runs out

Every non-blank page strictly advances `pos` (C03.page_progress), `pos < size`, and a blank page is
followed by a non-blank one: from a state `(resume, next_page, right_page)` at most
`pagesNeeded` more pages are made. -/

/-- Upper bound of the number of pages still to be made from a page-maker state. -/
def pagesNeeded (d : Doc) (resume : Option Resume) (np : NextPage) (right : Bool) : Nat :=
  2 * (size d.root - pos d.root resume) + (if isBlank (requestedSide d.rootLtr np.brk) right then 1 else 0)

/-- More fuel never changes a result. -/
theorem makeAllPages_fuel_mono (d : Doc) : ∀ (fuel k index : Nat) (resume : Option Resume) (np : NextPage)
    (right : Bool) (pages : List Page), makeAllPages d fuel index resume np right = some pages →
    makeAllPages d (fuel + k) index resume np right = some pages := by
  intro fuel
  induction fuel with
  | zero => intro k index resume np right pages h; simp [makeAllPages] at h
  | succ fuel ih =>
    intro k index resume np right pages h
    have : fuel + 1 + k = (fuel + k) + 1 := by omega
    rw [this]
    unfold makeAllPages at h ⊢
    cases hp : remakePage d index resume np right with
    | none => rw [hp] at h; cases h
    | some p =>
      rw [hp] at h
      simp only at h ⊢
      cases hr : p.resume with
      | none => rw [hr] at h; exact h
      | some r =>
        rw [hr] at h
        simp only at h ⊢
        cases hps : makeAllPages d fuel (index + 1) (some r) p.nextPage (!right) with
        | none => rw [hps] at h; cases h
        | some ps =>
          rw [hps] at h
          rw [ih k _ _ _ _ ps hps]
          exact h

/-- **`make_all_pages` terminates**: with at least `pagesNeeded` units of fuel it returns, with at most
that many pages — from every page-maker state (any resume position, pending break, side). -/
theorem makeAllPages_terminates (d : Doc) (hN : NoFixedHeight d.root) (hW : WellFormed d.root) :
    ∀ (fuel index : Nat) (resume : Option Resume) (np : NextPage) (right : Bool),
    pagesNeeded d resume np right ≤ fuel →
    ∃ pages, makeAllPages d fuel index resume np right = some pages ∧
      pages.length ≤ pagesNeeded d resume np right := by
  intro fuel
  induction fuel with
  | zero =>
    intro index resume np right h
    have := PM.pos_lt_size d.root resume
    unfold pagesNeeded at h
    omega
  | succ fuel ih =>
    intro index resume np right h
    have hlt := PM.pos_lt_size d.root resume
    have hs := root_assert_unreachable d index resume np right
    cases hp : remakePage d index resume np right with
    | none => rw [hp] at hs; simp at hs
    | some p =>
      unfold makeAllPages
      simp only [hp]
      cases hr : p.resume with
      | none =>
        refine ⟨[p], rfl, ?_⟩
        unfold pagesNeeded
        simp only [List.length_singleton]
        omega
      | some r =>
        simp only
        obtain ⟨hbl, _, _⟩ := remakePage_spec d index resume np right p hp
        have key : pagesNeeded d (some r) p.nextPage (!right) + 1 ≤ pagesNeeded d resume np right := by
          cases hb : p.type.blank with
          | true =>
            obtain ⟨hres, hnp, hnext⟩ := C03.blank_then_nonblank d index resume np right p hp hb
            have hflip : isBlank (requestedSide d.rootLtr np.brk) (!right) = false := by
              cases hside : requestedSide d.rootLtr np.brk with
              | none => cases right <;> simp [isBlank]
              | some sd =>
                rw [hb, hside] at hbl
                revert hbl; cases sd <;> cases right <;> simp [isBlank]
            unfold pagesNeeded
            rw [hnp, hflip, ← hbl, hb, ← hr, hres]
            simp
          | false =>
            have hprog := C03.page_progress d hN hW index resume np right p hp hb
            rw [hr] at hprog
            have hprog : pos d.root resume < pos d.root (some r) := by
              rcases hprog with h | h
              · cases h
              · exact h
            have hlt' := PM.pos_lt_size d.root (some r)
            unfold pagesNeeded
            rw [← hbl, hb]
            split <;> simp <;> omega
        obtain ⟨ps, hps, hlen⟩ := ih (index + 1) (some r) p.nextPage (!right) (by omega)
        rw [hps]
        refine ⟨p :: ps, rfl, ?_⟩
        simp only [List.length_cons]
        omega

/-- **Pagination terminates** (clause: rendering is total on the pagination path): `2 * size + 2` units of
fuel are always enough, and the document has at most `2 * size` pages. -/
theorem paginate_terminates (d : Doc) (hN : NoFixedHeight d.root) (hW : WellFormed d.root) :
    ∃ pages, paginate d (2 * size d.root + 2) = some pages ∧ pages.length ≤ 2 * size d.root := by
  unfold paginate
  have hn : pagesNeeded d none { brk := none, page := some (boxPageStart d.root) } (firstRight d) ≤ 2 * size d.root := by
    unfold pagesNeeded
    simp [requestedSide, isBlank]
    omega
  obtain ⟨pages, hp, hl⟩ := makeAllPages_terminates d hN hW (2 * size d.root + 2) 0 none
    { brk := none, page := some (boxPageStart d.root) } (firstRight d) (by omega)
  exact ⟨pages, hp, by omega⟩

/-- The result does not depend on the fuel once it is at least `2 * size`. -/
theorem paginate_fuel_irrelevant (d : Doc) (hN : NoFixedHeight d.root) (hW : WellFormed d.root) (fuel : Nat)
    (hf : 2 * size d.root ≤ fuel) : paginate d fuel = paginate d (2 * size d.root) := by
  unfold paginate
  have hn : pagesNeeded d none { brk := none, page := some (boxPageStart d.root) } (firstRight d) ≤ 2 * size d.root := by
    unfold pagesNeeded
    simp [requestedSide, isBlank]
    omega
  obtain ⟨pages, hp, _⟩ := makeAllPages_terminates d hN hW (2 * size d.root) 0 none
    { brk := none, page := some (boxPageStart d.root) } (firstRight d) hn
  have := makeAllPages_fuel_mono d (2 * size d.root) (fuel - 2 * size d.root) 0 none _ _ pages hp
  have he : 2 * size d.root + (fuel - 2 * size d.root) = fuel := by omega
  rw [he] at this
  rw [this, hp]

/-! Non-vacuity: `C03.exDoc` (size 9) has 5 pages ≤ 18, one of them blank. -/
example : NoFixedHeight C03.exDoc.root ∧ WellFormed C03.exDoc.root ∧
    (paginate C03.exDoc (2 * size C03.exDoc.root + 2)).map List.length = some 5 :=
  ⟨by simp [C03.exDoc, NoFixedHeight, NoFixedHeightList, C03.exSt],
   by simp [C03.exDoc, WellFormed, WellFormedList, C03.exSt], by decide +kernel⟩

end Wp.C02
