/-
C03 — content stays on its page and every page makes progress (PM model, DESIGN.md §4 C03).
-/
import WpModel.Model.Paginate
import WpModel.Lemmas.SegmentPages

namespace Wp.C03
open Wp Wp.PM

/-! ### the overflow test -/

private theorem fudge_pos : (0 : Rat) < 1 + 1 / 1000000000 := by decide +kernel

/-- `overflows` is monotone in the position… -/
theorem overflows_mono_y (b y y' : Rat) (h : y ≤ y') (ho : overflows b y = true) : overflows b y' = true := by
  unfold overflows at *
  simp only [decide_eq_true_eq] at *
  grind

/-- …and antitone in the bottom edge (the fudge factor `1 + 10⁻⁹` is positive). -/
theorem overflows_anti_bottom (b b' y : Rat) (h : b ≤ b') (ho : overflows b' y = true) :
    overflows b y = true := by
  unfold overflows at *
  simp only [decide_eq_true_eq] at *
  have : b * (1 + 1 / 1000000000) ≤ b' * (1 + 1 / 1000000000) :=
    Rat.mul_le_mul_of_nonneg_right h (Rat.le_of_lt fudge_pos)
  grind

/-- A larger bottom space only makes more positions overflow. -/
theorem overflowsPage_mono_space (c : Ctx) (bs bs' y : Rat) (h : bs ≤ bs')
    (ho : c.overflowsPage bs y = true) : c.overflowsPage bs' y = true := by
  unfold Ctx.overflowsPage at *
  apply overflows_anti_bottom _ _ _ _ ho
  grind

end Wp.C03

namespace Wp.C03
open Wp Wp.PM

/-! ### the first content of an empty page is always accepted -/

private theorem finish_some (c : Ctx) (st : PStyle) (b : BoxSt) (isStart : Bool) (bs : Rat)
    (cwc dbd : Bool) (resume : Option Resume) (posY : Rat) (adjL cur : List Rat) (curIsL : Bool)
    (np : NextPage) (hasKids : Bool) (pageEnd : String) (mk : Geo → Frag) :
    (finishContainer c st b isStart true bs cwc dbd resume posY adjL cur curIsL np hasKids pageEnd mk).frag.isSome := by
  unfold finishContainer
  simp

private theorem breakLine_no_abort (st : PStyle) (n i : Nat) (lines : List (Nat × Rat))
    (skip resume : Option Resume) : (breakLine st n i lines true skip resume).1 = false := by
  unfold breakLine
  simp

private theorem lineLoop_no_abort (c : Ctx) (st : PStyle) (b : BoxSt) (n : Nat) (lineH bs : Rat)
    (fuel i : Nat) (y : Rat) (s : LineLoop) :
    ∀ a stp r s', lineLoop c st b n lineH true bs fuel i y s = .broke a stp r s' → a = false := by
  fun_induction lineLoop c st b n lineH true bs fuel i y s with
  | case1 => intro a stp r s' h; cases h
  | case2 fuel i y s resume newPosY dbd offset overflow hov abort stop r lines' hb =>
    intro a stp r2 s' h
    have := breakLine_no_abort st n i s.lines s.skip resume
    rw [hb] at this
    simp only [LineOutcome.broke.injEq] at h
    rw [← h.1]; exact this
  | case3 fuel i y s resume newPosY dbd offset overflow hov shift newPosY' lineY mt' ih =>
    exact ih

private theorem linebox_no_abort (c : Ctx) (st : PStyle) (b : BoxSt) (n : Nat) (lineH : Rat)
    (adj : List Rat) (bs posY : Rat) (skip : Option Resume) (dbd : Bool) :
    (lineboxLayout c st b n lineH true adj bs posY skip dbd).abort = false := by
  unfold lineboxLayout
  split
  · rfl
  · rename_i a st' r s heq
    unfold lineboxLoop at heq
    exact lineLoop_no_abort c st b n lineH bs _ _ _ _ a st' r s heq

end Wp.C03

namespace Wp.C03
open Wp Wp.PM

private theorem finishPara_some (c : Ctx) (st : PStyle) (p : Prep) (id idx n : Nat) (r : LineResult)
    (h : r.abort = false) : (finishPara c st p true id idx n r).frag.isSome = true := by
  unfold finishPara
  simp only [h, Bool.false_eq_true, ↓reduceIte]
  exact finish_some ..

private theorem finishBlock_some (c : Ctx) (st : PStyle) (p : Prep) (id idx : Nat) (out : KidsOutcome)
    (h : ∀ page s, out ≠ .aborted page s) : (finishBlock c st p true id idx out).frag.isSome = true := by
  unfold finishBlock
  split
  · rename_i page s; exact absurd rfl (h page s)
  · exact finish_some ..
  · exact finish_some ..

/-- With `page_is_empty` and no child placed yet, the first pass never discards the child. -/
private theorem firstPass_keeps (c : Ctx) (bs posY : Rat) (r : LayoutResult) (h : r.frag.isSome = true) :
    (∃ f y, firstPass c bs true posY r = .keep (some f) y) := by
  unfold firstPass
  cases hf : r.frag with
  | none => simp [hf] at h
  | some f =>
    simp only [Bool.not_true, Bool.false_and, Bool.false_eq_true, ↓reduceIte]
    split
    · exact ⟨f, _, rfl⟩
    · exact ⟨f, _, rfl⟩

private theorem conclude_not_aborted (index : Nat) (pb : Brk) (child : PBox) (s : KidsLoop)
    (frag : Option Frag) (resume : Option Resume)
    (h : frag.isSome = true ∨ s.newChildren.isEmpty = false) :
    ∀ page s' s'', concludeKid index true pb child s frag resume ≠ (some (.aborted page s'), s'') := by
  intro page s' s''
  unfold concludeKid
  cases frag with
  | some f =>
    simp only
    split <;> simp
  | none =>
    simp only [Bool.not_true, Bool.and_false, Bool.false_eq_true, ↓reduceIte]
    have hne : s.newChildren.isEmpty = false := by
      rcases h with h | h
      · simp at h
      · exact h
    split
    · simp
    · simp [hne]

@[simp] private theorem setCur_newChildren (s : KidsLoop) (l : List Rat) (b : Bool) :
    (s.setCur l b).newChildren = s.newChildren := by
  unfold KidsLoop.setCur; split <;> rfl

@[simp] private theorem appendCur_newChildren (s : KidsLoop) (m : Rat) :
    (s.appendCur m).newChildren = s.newChildren := by
  unfold KidsLoop.appendCur; split <;> rfl

@[simp] private theorem adoptAdj_newChildren (s : KidsLoop) (h : Bool) (a : AdjOut) (f : Option Frag) :
    (s.adoptAdj h a f).newChildren = s.newChildren := by
  unfold KidsLoop.adoptAdj
  split
  · rfl
  · cases a <;> cases f <;> simp

mutual
private theorem box_some : (box : PBox) → ∀ (c : Ctx) (idx : Nat) (y bs : Rat) (skip : Option Resume)
    (cb : Bool) (adjL : List Rat), (layoutBox c box idx y bs skip cb true adjL).frag.isSome = true
  | .para id n lineH st => by
    intro c idx y bs skip cb adjL
    unfold layoutBox
    exact finishPara_some _ _ _ _ _ _ _ (linebox_no_abort ..)
  | .block id st kids => by
    intro c idx y bs skip cb adjL
    unfold layoutBox
    exact finishBlock_some _ _ _ _ _ _ (fun page s => kids_not_aborted kids _ _ _ _ _ _ page s)
private theorem kids_not_aborted : (kids : List PBox) → ∀ (c : Ctx) (st : PStyle) (index skipIdx : Nat)
    (bs : Rat) (s : KidsLoop) (page : String) (s' : KidsLoop),
    layoutKids c st kids index skipIdx bs true s ≠ .aborted page s'
  | [] => by
    intro c st index skipIdx bs s page s'
    simp [layoutKids]
  | child :: rest => by
    intro c st index skipIdx bs s page s'
    unfold layoutKids
    split
    · exact kids_not_aborted rest _ _ _ _ _ _ _ _
    · dsimp only
      split
      · simp
      · simp only [Bool.true_and]
        cases hne : s.newChildren.isEmpty with
        | true =>
          -- first content of the page: the child is laid out with page_is_empty and is kept
          have hsome := box_some child c index s.posY bs s.skip st.isRoot s.cur
          obtain ⟨f, y', hk⟩ := firstPass_keeps c bs s.posY _ hsome
          rw [hk]
          dsimp only
          split
          · rename_i out s3 heq
            intro hcontra
            subst hcontra
            exact conclude_not_aborted _ _ _ _ _ _ (Or.inl rfl) _ _ _ heq
          · exact kids_not_aborted rest _ _ _ _ _ _ _ _
        | false =>
          split
          · split
            · rename_i out s3 heq
              intro hcontra
              subst hcontra
              refine conclude_not_aborted _ _ _ _ _ _ (Or.inr ?_) _ _ _ heq
              simpa using hne
            · exact kids_not_aborted rest _ _ _ _ _ _ _ _
          · split
            · rename_i out s3 heq
              intro hcontra
              subst hcontra
              refine conclude_not_aborted _ _ _ _ _ _ (Or.inr ?_) _ _ _ heq
              simpa using hne
            · exact kids_not_aborted rest _ _ _ _ _ _ _ _
end

/-- **The root assertion of `make_page` is unreachable / first content is always accepted**:
laid out with `page_is_empty`, a box always yields a fragment (it is never pushed to a later page).
This is what makes every non-blank page show something. -/
theorem first_content_accepted (box : PBox) (c : Ctx) (idx : Nat) (y bs : Rat) (skip : Option Resume)
    (cb : Bool) (adjL : List Rat) : (layoutBox c box idx y bs skip cb true adjL).frag.isSome = true :=
  box_some box c idx y bs skip cb adjL

/-- `remake_page` never fails its `assert root_box`, for any document, page and resume position. -/
theorem remakePage_total (d : Doc) (index : Nat) (resume : Option Resume) (np : NextPage) (right : Bool) :
    (remakePage d index resume np right).isSome = true := by
  unfold remakePage
  dsimp only
  have key : ∀ (c : Ctx) (b : PBox), (layoutBox c b 0 0 0 resume false true []).frag ≠ none := by
    intro c b h
    have := first_content_accepted b c 0 0 0 resume false []
    rw [h] at this
    simp at this
  split
  · rename_i h; exact absurd h (key _ _)
  · rfl

/-! ### every page makes progress

`pos box σ` = units of the box consumed before the resume position `σ` (one unit per line, one per
box: `size`), read exactly as the layout reads its `skip_stack`. Same hypotheses as C01: no fixed
`height`, `orphans, widows ≥ 1`. -/

/-- A position never reaches the size of the box. -/
theorem pos_lt_size (box : PBox) (σ : Option Resume) : pos box σ < size box := PM.pos_lt_size box σ

/-- **Strict progress of `block_level_layout`**: whenever a layout returns a fragment and a resume position,
that position is strictly later than the skip position it was given — on an empty page or not, at any
depth (so a box is never returned "fragmented at its own start"). -/
theorem layout_progress (box : PBox) (hN : NoFixedHeight box) (hW : WellFormed box) (c : Ctx) (idx : Nat)
    (y bs : Rat) (skip : Option Resume) (cb pie : Bool) (adjL : List Rat) (f : Frag) (r : Resume)
    (hf : (layoutBox c box idx y bs skip cb pie adjL).frag = some f)
    (hr : (layoutBox c box idx y bs skip cb pie adjL).resume = some r) :
    pos box skip < pos box (some r) := by
  have := box_spec box (good_of box hN hW) c idx y bs skip cb pie adjL
  rw [hr] at this
  exact boxPost_progress _ _ _ _ _ this hf

/-- **Strict progress of pages**: a non-blank page either finishes the document or hands a strictly later
resume position to the next page. -/
theorem page_progress (d : Doc) (hN : NoFixedHeight d.root) (hW : WellFormed d.root) (index : Nat)
    (resume : Option Resume) (np : NextPage) (right : Bool) (p : Page)
    (hp : remakePage d index resume np right = some p) (hnb : p.type.blank = false) :
    p.resume = none ∨ pos d.root resume < pos d.root p.resume := by
  obtain ⟨_, h2⟩ := remakePage_lines d (good_of _ hN hW) index resume np right p hp
  cases hr : p.resume with
  | none => left; rfl
  | some r => right; exact (h2 hnb).2 r hr

private theorem isBlank_flip (side : Option Bool) (right : Bool) (h : isBlank side right = true) :
    isBlank side (!right) = false := by
  cases side with
  | none => cases right <;> simp [isBlank] at h
  | some s => cases s <;> cases right <;> simp [isBlank] at h ⊢

/-- A blank page changes nothing and is followed by a non-blank page (so two consecutive pages always
make progress). -/
theorem blank_then_nonblank (d : Doc) (index : Nat) (resume : Option Resume) (np : NextPage) (right : Bool)
    (p : Page) (hp : remakePage d index resume np right = some p) (hb : p.type.blank = true) :
    p.resume = resume ∧ p.nextPage = np ∧
    ∀ p', remakePage d (index + 1) p.resume p.nextPage (!right) = some p' → p'.type.blank = false := by
  obtain ⟨hbl, h1, _⟩ := remakePage_spec d index resume np right p hp
  obtain ⟨hr, hn, _⟩ := h1 hb
  refine ⟨hr, hn, ?_⟩
  intro p' hp'
  obtain ⟨hbl', _, _⟩ := remakePage_spec d (index + 1) p.resume p.nextPage (!right) p' hp'
  rw [hbl', hn]
  apply isBlank_flip
  rw [← hbl]; exact hb

/-! Non-vacuity: a two-paragraph document on 25px pages; page 2 resumes inside the first paragraph
(position 2 of 9 units) and hands over position 4. -/
def exSt : PStyle where
  mt := 0
  mb := 0
  pt := 0
  pb := 0
  bt := 0
  bb := 0
  height := none
  minH := 0
  maxH := none
  brkBefore := .auto
  brkAfter := .auto
  brkInside := .auto
  clone := false
  page := ""
  orphans := 1
  widows := 1
  isRoot := false

def exDoc : Doc :=
  { pageH := 25, rootLtr := true,
    root := .block 0 { exSt with isRoot := true } [.para 1 3 10 exSt, .para 2 3 10 { exSt with brkBefore := .left }] }

example : NoFixedHeight exDoc.root ∧ WellFormed exDoc.root ∧ size exDoc.root = 9 := by
  simp [exDoc, NoFixedHeight, NoFixedHeightList, WellFormed, WellFormedList, exSt, size, sizeList]

example : (remakePage exDoc 1 (some (.node 0 (some (.node 0 (some (.line 2)))))) { brk := none, page := none } false).map
      (fun p => (p.type.blank, pos exDoc.root (some (.node 0 (some (.node 0 (some (.line 2)))))), pos exDoc.root p.resume)) =
    some (false, 2, 4) := by decide +kernel

example : (paginate exDoc 20).map (fun ps => ps.map (fun p => (p.type.blank, pos exDoc.root p.resume))) =
    some [(false, 2), (false, 4), (true, 4), (false, 6), (false, 0)] := by decide +kernel

end Wp.C03
