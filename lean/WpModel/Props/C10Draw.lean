/-
C10 — which grid line of the whole table a line of a table *fragment* shows when the collapsed
borders are painted (`Model/TableBorderDraw.lean` ↔ `draw_collapsed_borders` / `row_number` of
`weasyprint/draw/__init__.py`), and the painting order.  Correspondence: section
`doc-painted-borders` of `py/props/c10.py` (every fragment of every rendered collapsed table).
-/
import WpModel.Model.TableBorderDraw
import Mathlib.Tactic.Linarith

namespace Wp.C10Draw
open Wp Wp.Borders Wp.BorderDraw

/-- **painted_unsplit.**  A table laid out in one piece (no skipped rows, the fragment has all the rows
of the grid) paints every line and every row with its own grid entry. -/
theorem painted_unsplit (d : DrawIn) (hs : d.skippedRows = 0) (hh : d.vertical.length = gridHeight d)
    (y : Int) (hz : Bool) : rowNumber d y hz = y := by
  unfold rowNumber bodyOffset footerOffset
  simp only [hs, hh]
  split
  · rfl
  · split <;> simp

/-- **painted_header_lines.**  On every fragment, the rows of the repeated header *and the line just
under it* are painted with the header's own grid entries (rows `0 … header_rows − 1`, lines
`0 … header_rows`): the edge shared by the header and the first body row of the page shows the border
that was resolved for the header's bottom edge, which is the one the header cells' used
border-bottom widths come from.  (The seeded change C10-4 broke exactly the line `y = header_rows`.) -/
theorem painted_header_lines (d : DrawIn) (hh : d.headerRows ≠ 0) (y : Int) (hy : y ≤ d.headerRows) :
    rowNumber d y true = y := by
  unfold rowNumber b2i
  have : y < (d.headerRows : Int) + 1 := by omega
  simp [hh, this]

theorem painted_header_rows (d : DrawIn) (hh : d.headerRows ≠ 0) (y : Int) (hy : y < d.headerRows) :
    rowNumber d y false = y := by
  unfold rowNumber b2i
  simp [hh, hy]

/-- **painted_body_rows.**  The body rows of a fragment (vertical borders) show the rows of the grid
they are: shifted by the rows skipped on earlier pages. -/
theorem painted_body_rows (d : DrawIn) (y : Int) (h1 : (d.headerRows : Int) ≤ y)
    (h2 : y < (gridHeight d : Int) - d.footerRows) : rowNumber d y false = y + bodyOffset d := by
  unfold rowNumber b2i
  simp only [Bool.false_eq_true, if_false, add_zero, sub_zero]
  rw [if_neg (by intro h; omega), if_neg (by intro h; omega)]

/-- **painted_footer.**  The rows of the repeated footer and the lines from its top edge down are the
footer's own. -/
theorem painted_footer (d : DrawIn) (hf : d.footerRows ≠ 0) (y : Int) (hz : Bool)
    (h1 : (d.headerRows : Int) + 1 ≤ y) (h2 : (gridHeight d : Int) - d.footerRows ≤ y) :
    rowNumber d y hz = y + footerOffset d := by
  unfold rowNumber b2i
  have ha : ¬ (d.headerRows ≠ 0 ∧ y < (d.headerRows : Int) + (if hz then 1 else 0)) := by
    intro h; split at h <;> omega
  have hb : d.footerRows ≠ 0 ∧ y ≥ (gridHeight d : Int) - (d.footerRows : Int) := ⟨hf, by omega⟩
  simp [ha, hb]

/-- **painted_body_lines** (full strength since the repair 4d1447f; was `painted_body_lines_partial`,
finding `collapsed-footer-line-off-by-one`).  Every line between two body rows of the fragment — and
the line under the last body row when no footer is repeated — shows the grid line between the same
two rows of the whole table. -/
theorem painted_body_lines (d : DrawIn) (y : Int) (h1 : (d.headerRows : Int) < y)
    (h2 : y < (gridHeight d : Int) - d.footerRows ∨ d.footerRows = 0) :
    rowNumber d y true = y + bodyOffset d := by
  unfold rowNumber b2i
  simp only [if_true]
  rw [if_neg (by intro h; omega), if_neg (by intro h; rcases h2 with h2 | h2 <;> omega)]

/-! ### painting order -/

/-- The order of the sort key, spelled out (Python compares the score tuples lexicographically). -/
private theorem le_iff (a b : Score) : Score.le a b = true ↔
    a.hidden < b.hidden ∨ (a.hidden = b.hidden ∧ (a.width < b.width ∨ (a.width = b.width ∧ a.rank ≤ b.rank))) := by
  unfold Score.le Score.lt
  by_cases h1 : a.hidden < b.hidden
  · have : ¬ b.hidden < a.hidden := by omega
    have h' : ¬ b.hidden = a.hidden := by omega
    simp [h1, this, h']
  · by_cases h2 : b.hidden < a.hidden
    · have h' : ¬ a.hidden = b.hidden := by omega
      simp [h1, h2, h']
    · have he : a.hidden = b.hidden := by omega
      by_cases h3 : a.width < b.width
      · have : ¬ b.width < a.width := by linarith
        have h' : ¬ b.width = a.width := by intro h; linarith
        simp [he, h3, this, h']
      · by_cases h4 : b.width < a.width
        · have h' : ¬ a.width = b.width := by intro h; linarith
          simp [he, h3, h4, h']
        · have hw : a.width = b.width := le_antisymm (not_lt.mp h4) (not_lt.mp h3)
          simp [he, hw]

private theorem le_total' (a b : Score) : Score.le a b = true ∨ Score.le b a = true := by
  rw [le_iff, le_iff]
  rcases Nat.lt_trichotomy a.hidden b.hidden with h | h | h
  · left; left; exact h
  · rcases lt_trichotomy a.width b.width with hw | hw | hw
    · left; right; exact ⟨h, Or.inl hw⟩
    · rcases Nat.le_total a.rank b.rank with hr | hr
      · left; right; exact ⟨h, Or.inr ⟨hw, hr⟩⟩
      · right; right; exact ⟨h.symm, Or.inr ⟨hw.symm, hr⟩⟩
    · right; right; exact ⟨h.symm, Or.inl hw⟩
  · right; left; exact h

private theorem le_trans' (a b c : Score) (h1 : Score.le a b = true) (h2 : Score.le b c = true) :
    Score.le a c = true := by
  rw [le_iff] at *
  rcases h1 with h1 | ⟨e1, h1⟩
  · rcases h2 with h2 | ⟨e2, _⟩
    · left; omega
    · left; omega
  · rcases h2 with h2 | ⟨e2, h2⟩
    · left; omega
    · right
      refine ⟨by omega, ?_⟩
      rcases h1 with h1 | ⟨w1, r1⟩
      · rcases h2 with h2 | ⟨w2, _⟩
        · left; linarith
        · left; linarith
      · rcases h2 with h2 | ⟨w2, r2⟩
        · left; linarith
        · right; exact ⟨by linarith, by omega⟩

private theorem insert_perm (s : Segment) (acc : List Segment) : (insertByScore s acc).Perm (s :: acc) := by
  induction acc with
  | nil => exact List.Perm.refl _
  | cons t ts ih =>
    unfold insertByScore
    split
    · exact (List.Perm.cons t ih).trans (List.Perm.swap s t ts)
    · exact List.Perm.refl _

/-- Sorting loses and adds nothing: every generated segment is painted exactly once. -/
theorem sort_perm (l : List Segment) : (sortByScore l).Perm l := by
  have hfold : ∀ (l acc : List Segment), (l.foldl (fun acc s => insertByScore s acc) acc).Perm (acc ++ l) := by
    intro l
    induction l with
    | nil => intro acc; simp
    | cons s ss ih =>
      intro acc
      simp only [List.foldl_cons]
      refine (ih _).trans ?_
      refine ((insert_perm s acc).append_right ss).trans ?_
      simp only [List.cons_append]
      exact (List.perm_middle (a := s) (l₁ := acc) (l₂ := ss)).symm
  simpa [sortByScore] using hfold l []

/-- **painted_in_score_order.**  Segments are painted in non-decreasing order of their conflict score
`(hidden, width, style rank)`: where two lines cross, the stronger border is drawn on top. -/
theorem painted_in_score_order (l : List Segment) :
    (sortByScore l).Pairwise (fun a b => Score.le a.score b.score = true) := by
  have hins : ∀ (s : Segment) (acc : List Segment),
      acc.Pairwise (fun a b => Score.le a.score b.score = true) →
      (insertByScore s acc).Pairwise (fun a b => Score.le a.score b.score = true) := by
    intro s acc
    induction acc with
    | nil => intro _; simp [insertByScore]
    | cons t ts ih =>
      intro hp
      unfold insertByScore
      rw [List.pairwise_cons] at hp
      split
      · rename_i hle
        rw [List.pairwise_cons]
        refine ⟨?_, ih hp.2⟩
        intro b hb
        rcases List.mem_cons.mp ((insert_perm s ts).mem_iff.mp hb) with rfl | hb'
        · exact hle
        · exact hp.1 b hb'
      · rename_i hnle
        have hst : Score.le s.score t.score = true := by
          rcases le_total' t.score s.score with h | h
          · exact absurd h hnle
          · exact h
        rw [List.pairwise_cons]
        refine ⟨?_, List.pairwise_cons.mpr hp⟩
        intro b hb
        rcases List.mem_cons.mp hb with rfl | hb'
        · exact hst
        · exact le_trans' _ _ _ hst (hp.1 b hb')
  have hfold : ∀ (l acc : List Segment), acc.Pairwise (fun a b => Score.le a.score b.score = true) →
      (l.foldl (fun acc s => insertByScore s acc) acc).Pairwise (fun a b => Score.le a.score b.score = true) := by
    intro l
    induction l with
    | nil => intro acc h; exact h
    | cons s ss ih => intro acc h; exact ih _ (hins s acc h)
  exact hfold l [] List.Pairwise.nil

/-! ### what is painted is what was resolved -/

private theorem addVertical_spec (d : DrawIn) (x y : Nat) (s : Segment) (h : addVertical d x y = .ok (some s)) :
    gridAt d.vertical (rowNumber d y false) x = .ok ⟨s.score, ⟨s.style, s.width, s.color⟩⟩ ∧
    s.side = .left ∧ s.width ≠ 0 ∧ s.color ≠ 0 := by
  unfold addVertical at h
  simp only [bind, Except.bind, pure, Except.pure] at h
  split at h
  · cases h
  · rename_i e he
    split at h
    · cases h
    · rename_i hvis
      repeat' (split at h)
      all_goals (first | (cases h; done) | (cases h; exact ⟨by rw [he], rfl, by tauto, by tauto⟩))

private theorem addHorizontal_spec (d : DrawIn) (x y : Nat) (s : Segment) (h : addHorizontal d x y = .ok (some s)) :
    gridAt d.horizontal (rowNumber d y true) x = .ok ⟨s.score, ⟨s.style, s.width, s.color⟩⟩ ∧
    s.side = .top ∧ s.width ≠ 0 ∧ s.color ≠ 0 := by
  unfold addHorizontal at h
  simp only [bind, Except.bind, pure, Except.pure] at h
  split at h
  · cases h
  · split at h
    · cases h
    · split at h
      · cases h
      · rename_i e he
        split at h
        · cases h
        · rename_i hvis
          repeat' (split at h)
          all_goals (first | (cases h; done) | (cases h; exact ⟨by rw [he], rfl, by tauto, by tauto⟩))

private theorem fold_err (d : DrawIn) (calls : List (Bool × Nat × Nat)) (e : PyErr) :
    calls.foldl (segStep d) (.error e) = .error e := by
  induction calls with
  | nil => rfl
  | cons c cs ih => simpa [List.foldl_cons, segStep] using ih

private theorem fold_mem (d : DrawIn) (calls : List (Bool × Nat × Nat)) (acc segs : List Segment)
    (h : calls.foldl (segStep d) (.ok acc) = .ok segs) (s : Segment) (hs : s ∈ segs) :
    s ∈ acc ∨ ∃ c ∈ calls, (if c.1 then addHorizontal d c.2.1 c.2.2 else addVertical d c.2.1 c.2.2) = .ok (some s) := by
  induction calls generalizing acc with
  | nil =>
    simp only [List.foldl_nil] at h
    injection h with h; subst h; exact Or.inl hs
  | cons c cs ih =>
    simp only [List.foldl_cons] at h
    cases hstep : (if c.1 then addHorizontal d c.2.1 c.2.2 else addVertical d c.2.1 c.2.2) with
    | error e =>
      have : segStep d (.ok acc) c = .error e := by simp [segStep, hstep]
      rw [this, fold_err] at h
      cases h
    | ok r =>
      cases r with
      | none =>
        have : segStep d (.ok acc) c = .ok acc := by simp [segStep, hstep]
        rw [this] at h
        rcases ih acc h with h1 | ⟨c', hc', h2⟩
        · exact Or.inl h1
        · exact Or.inr ⟨c', List.mem_cons_of_mem _ hc', h2⟩
      | some s' =>
        have : segStep d (.ok acc) c = .ok (acc ++ [s']) := by simp [segStep, hstep]
        rw [this] at h
        rcases ih _ h with h1 | ⟨c', hc', h2⟩
        · rcases List.mem_append.mp h1 with h1 | h1
          · exact Or.inl h1
          · simp only [List.mem_singleton] at h1
            subst h1
            exact Or.inr ⟨c, List.mem_cons_self, hstep⟩
        · exact Or.inr ⟨c', List.mem_cons_of_mem _ hc', h2⟩

/-- **painted_from_grid.**  Every line that is painted carries exactly an entry of the border grids that
`collapse_table_borders` resolved — its conflict score, its (mapped) style, its width and its colour —
namely the entry at `row_number(y)` of the edge it is drawn on; nothing of width 0 or transparent is
painted.  With `C10.border_winner_grid` (each grid entry is the first maximum of the offers made to
that edge in the order cell, row, row group, column, column group, table) this is the clause "each
shared edge takes the winning border by the CSS 2.1 17.6.2 precedence" for what reaches the page. -/
theorem painted_from_grid (d : DrawIn) (segs : List Segment) (h : segments d = .ok segs) (s : Segment)
    (hs : s ∈ segs) :
    s.width ≠ 0 ∧ s.color ≠ 0 ∧ ∃ x y : Nat,
      (s.side = .left ∧ gridAt d.vertical (rowNumber d y false) x = .ok ⟨s.score, ⟨s.style, s.width, s.color⟩⟩) ∨
      (s.side = .top ∧ gridAt d.horizontal (rowNumber d y true) x = .ok ⟨s.score, ⟨s.style, s.width, s.color⟩⟩) := by
  unfold segments at h
  split at h
  · injection h with h; subst h; cases hs
  · split at h
    · cases h
    · split at h
      · cases h
      · rename_i raw hraw
        injection h with h
        subst h
        have hs' : s ∈ raw := (sort_perm raw).mem_iff.mp hs
        unfold rawSegments at hraw
        rcases fold_mem d _ [] raw hraw s hs' with h0 | ⟨c, _, hc⟩
        · cases h0
        · by_cases hz : c.1
          · simp only [hz, if_true] at hc
            obtain ⟨g, sd, w, cl⟩ := addHorizontal_spec d _ _ s hc
            exact ⟨w, cl, c.2.1, c.2.2, Or.inr ⟨sd, g⟩⟩
          · simp only [hz, if_false] at hc
            obtain ⟨g, sd, w, cl⟩ := addVertical_spec d _ _ s hc
            exact ⟨w, cl, c.2.1, c.2.2, Or.inl ⟨sd, g⟩⟩

/-- `add_horizontal` skips a line silently (`return` without a segment) only for a split-cell edge, a
border of width 0 or a transparent one. -/
theorem addHorizontal_none (d : DrawIn) (x y : Nat) (h : addHorizontal d x y = .ok none) :
    (y = 0 ∧ d.skipTop = true) ∨ (y = gridHeight d ∧ d.skipBottom = true) ∨
    ∃ e, gridAt d.horizontal (rowNumber d y true) x = .ok e ∧ (e.border.width = 0 ∨ e.border.color = 0) := by
  unfold addHorizontal at h
  simp only [bind, Except.bind, pure, Except.pure] at h
  split at h
  · rename_i h1; exact Or.inl h1
  · split at h
    · rename_i _ h2; exact Or.inr (Or.inl h2)
    · split at h
      · cases h
      · rename_i e he
        split at h
        · rename_i hv; exact Or.inr (Or.inr ⟨e, he, hv⟩)
        · exfalso
          repeat' (split at h)
          all_goals (cases h)

theorem addVertical_none (d : DrawIn) (x y : Nat) (h : addVertical d x y = .ok none) :
    ∃ e, gridAt d.vertical (rowNumber d y false) x = .ok e ∧ (e.border.width = 0 ∨ e.border.color = 0) := by
  unfold addVertical at h
  simp only [bind, Except.bind, pure, Except.pure] at h
  split at h
  · cases h
  · rename_i e he
    split at h
    · rename_i hv; exact ⟨e, he, hv⟩
    · exfalso
      repeat' (split at h)
      all_goals (cases h)


private theorem fold_acc_sub (d : DrawIn) (calls : List (Bool × Nat × Nat)) (acc segs : List Segment)
    (h : calls.foldl (segStep d) (.ok acc) = .ok segs) : ∀ a ∈ acc, a ∈ segs := by
  induction calls generalizing acc with
  | nil =>
    simp only [List.foldl_nil] at h
    injection h with h; subst h; exact fun a ha => ha
  | cons c cs ih =>
    simp only [List.foldl_cons] at h
    cases hstep : (if c.1 then addHorizontal d c.2.1 c.2.2 else addVertical d c.2.1 c.2.2) with
    | error e =>
      have : segStep d (.ok acc) c = .error e := by simp [segStep, hstep]
      rw [this, fold_err] at h; cases h
    | ok r =>
      cases r with
      | none =>
        have : segStep d (.ok acc) c = .ok acc := by simp [segStep, hstep]
        rw [this] at h; exact ih acc h
      | some s' =>
        have : segStep d (.ok acc) c = .ok (acc ++ [s']) := by simp [segStep, hstep]
        rw [this] at h
        exact fun a ha => ih _ h a (List.mem_append_left _ ha)

private theorem fold_collects (d : DrawIn) (calls : List (Bool × Nat × Nat)) (acc segs : List Segment)
    (h : calls.foldl (segStep d) (.ok acc) = .ok segs) (c : Bool × Nat × Nat) (hc : c ∈ calls) :
    ∃ r, (if c.1 then addHorizontal d c.2.1 c.2.2 else addVertical d c.2.1 c.2.2) = .ok r ∧
      ∀ s, r = some s → s ∈ segs := by
  induction calls generalizing acc with
  | nil => cases hc
  | cons c0 cs ih =>
    simp only [List.foldl_cons] at h
    cases hstep : (if c0.1 then addHorizontal d c0.2.1 c0.2.2 else addVertical d c0.2.1 c0.2.2) with
    | error e =>
      have : segStep d (.ok acc) c0 = .error e := by simp [segStep, hstep]
      rw [this, fold_err] at h; cases h
    | ok r =>
      have hnext : ∃ acc', segStep d (.ok acc) c0 = .ok acc' ∧ ∀ s, r = some s → s ∈ acc' := by
        cases r with
        | none => exact ⟨acc, by simp [segStep, hstep], fun s hs => by cases hs⟩
        | some s' =>
          refine ⟨acc ++ [s'], by simp [segStep, hstep], fun s hs => ?_⟩
          injection hs with hs; subst hs; simp
      obtain ⟨acc', hacc', hin⟩ := hnext
      rw [hacc'] at h
      rcases List.mem_cons.mp hc with rfl | hc'
      · exact ⟨r, hstep, fun s hs => fold_acc_sub d cs acc' segs h s (hin s hs)⟩
      · exact ih acc' h hc'

private theorem mem_callOrder_h (gw gh x y : Nat) (hx : x < gw) (hy : y ≤ gh) :
    (true, x, y) ∈ callOrder gw gh := by
  unfold callOrder
  cases y with
  | zero =>
    apply List.mem_append_left
    simp only [List.mem_map, List.mem_range]
    exact ⟨x, hx, rfl⟩
  | succ y =>
    apply List.mem_append_right
    simp only [List.mem_flatMap, List.mem_range]
    refine ⟨y, by omega, ?_⟩
    apply List.mem_cons_of_mem
    simp only [List.mem_flatMap, List.mem_range]
    exact ⟨x, hx, by simp⟩

/-- **visible_line_is_painted.**  When `draw_collapsed_borders` succeeds, every horizontal grid line
`y ≤ grid_height` of the fragment over every column `x < grid_width` is either painted — a segment on
that side carrying exactly the grid entry `row_number(y)` selects — or left out for one of exactly three
reasons: it is the top line of a fragment whose first row is cut (`skip_cell_border_top`), the bottom
line of one whose last row is cut (`skip_cell_border_bottom`), or its border has width 0 or is
transparent.  (The clause the oracles "the outer lines of a repeated header / footer are never
skipped" and "the outer body lines are left open only where a row is cut" sample.) -/
theorem visible_line_is_painted (d : DrawIn) (segs : List Segment) (h : segments d = .ok segs)
    (hne : d.rowHeights ≠ [] ∧ d.colWidths ≠ []) (x y : Nat) (hx : x < gridWidth d) (hy : y ≤ gridHeight d) :
    (y = 0 ∧ d.skipTop = true) ∨ (y = gridHeight d ∧ d.skipBottom = true) ∨
    (∃ e, gridAt d.horizontal (rowNumber d y true) x = .ok e ∧ (e.border.width = 0 ∨ e.border.color = 0)) ∨
    (∃ s ∈ segs, s.side = .top ∧
      gridAt d.horizontal (rowNumber d y true) x = .ok ⟨s.score, ⟨s.style, s.width, s.color⟩⟩) := by
  unfold segments at h
  have hemp : ¬ (d.rowHeights.isEmpty ∨ d.colWidths.isEmpty) := by
    intro hc
    rcases hc with hc | hc
    · exact hne.1 (List.isEmpty_iff.mp hc)
    · exact hne.2 (List.isEmpty_iff.mp hc)
  rw [if_neg (by simpa using hemp)] at h
  split at h
  · cases h
  · split at h
    · cases h
    · rename_i raw hraw
      injection h with h
      subst h
      unfold rawSegments at hraw
      obtain ⟨r, hr, hin⟩ := fold_collects d _ [] raw hraw (true, x, y) (mem_callOrder_h _ _ x y hx hy)
      simp only [if_true] at hr
      cases r with
      | none =>
        rcases addHorizontal_none d x y hr with h1 | h2 | h3
        · exact Or.inl h1
        · exact Or.inr (Or.inl h2)
        · exact Or.inr (Or.inr (Or.inl h3))
      | some s =>
        obtain ⟨g, sd, _, _⟩ := addHorizontal_spec d x y s hr
        exact Or.inr (Or.inr (Or.inr ⟨s, (sort_perm raw).mem_iff.mpr (hin s rfl), sd, g⟩))

private def exLine (skipTop : Bool) : DrawIn :=
  let e0 : Edge := weakNull
  let red : Edge := ⟨⟨0, 4, styleRank .solid⟩, ⟨.solid, 4, 1⟩⟩
  ⟨[10], [0], [20], [0], 0, 0, 0, skipTop, false, [[e0, e0]], [[red], [red]]⟩

/-- Non-vacuity of `visible_line_is_painted`: one row, one column, 4px lines above and below: both are
painted (y = 0 and y = 10); with `skip_cell_border_top` only the lower one. -/
example : (segments (exLine false)).toOption.map (·.map (fun s => (s.width, s.y))) = some [(4, 0), (4, 10)] ∧
    (segments (exLine true)).toOption.map (·.map (fun s => (s.width, s.y))) = some [(4, 10)] := by
  constructor <;> decide +kernel

/-- Non-vacuity: a 2-row fragment with a repeated 1-row header that continues a table whose first
three body rows were shown before (`skipped_rows = 4`): its lines 0, 1 are the header's, line 2 is
grid line 5. -/
example :
    let d : DrawIn := ⟨[10, 10], [0, 10], [20], [0], 1, 0, 4, false, false, List.replicate 6 [], []⟩
    rowNumber d 0 true = 0 ∧ rowNumber d 1 true = 1 ∧ rowNumber d 2 true = 5 ∧ rowNumber d 1 false = 4 := by
  decide +kernel

end Wp.C10Draw
