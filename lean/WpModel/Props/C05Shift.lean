/-
C05 — the metamorphic pair "uniform translation" (`Model/UsedShift.lean`, section `translation` of the
harness): what the comparator's `ok` means (soundness), that it accepts exactly-translated trees
(completeness), and that the clauses of the property itself do not depend on where the page area is
(`nodeVerdict_shift`: the checker of used values gives the same verdict on a box and on the translated box in
the translated context; `usedOk_shift`: the whole checker, stacking and containment included) — so a rendering
that changes under translation is a defect of the layout, not an artefact of the statement.  Core Lean only.
-/
import WpModel.Props.C05Check
import WpModel.Model.UsedShift

namespace Wp.C05Shift
open Wp Wp.UsedCheck Wp.UsedShift

set_option linter.unusedSimpArgs false

/-- What `boxMoved … = true` says: the position moved by `(dx, dy)`, everything else kept, within `eps`. -/
structure Moved (eps dx dy : Rat) (a b : UBox) : Prop where
  x : (a.x + dx) - b.x ≤ eps ∧ b.x - (a.x + dx) ≤ eps
  y : (a.y + dy) - b.y ≤ eps ∧ b.y - (a.y + dy) ≤ eps
  w : a.w - b.w ≤ eps ∧ b.w - a.w ≤ eps
  h : a.h - b.h ≤ eps ∧ b.h - a.h ≤ eps
  margins : (a.ml - b.ml ≤ eps ∧ b.ml - a.ml ≤ eps) ∧ (a.mr - b.mr ≤ eps ∧ b.mr - a.mr ≤ eps) ∧
    (a.mt - b.mt ≤ eps ∧ b.mt - a.mt ≤ eps) ∧ (a.mb - b.mb ≤ eps ∧ b.mb - a.mb ≤ eps)
  paddings : (a.pl - b.pl ≤ eps ∧ b.pl - a.pl ≤ eps) ∧ (a.pr - b.pr ≤ eps ∧ b.pr - a.pr ≤ eps) ∧
    (a.pt - b.pt ≤ eps ∧ b.pt - a.pt ≤ eps) ∧ (a.pb - b.pb ≤ eps ∧ b.pb - a.pb ≤ eps)
  borders : (a.bl - b.bl ≤ eps ∧ b.bl - a.bl ≤ eps) ∧ (a.br - b.br ≤ eps ∧ b.br - a.br ≤ eps) ∧
    (a.bt - b.bt ≤ eps ∧ b.bt - a.bt ≤ eps) ∧ (a.bb - b.bb ≤ eps ∧ b.bb - a.bb ≤ eps)
  kind : a.kind = b.kind

theorem boxMoved_iff (eps dx dy : Rat) (a b : UBox) : boxMoved eps dx dy a b = true ↔ Moved eps dx dy a b := by
  simp only [boxMoved, Bool.and_eq_true, C05Check.near_iff, decide_eq_true_eq]
  constructor
  · rintro ⟨⟨⟨⟨⟨⟨⟨⟨⟨⟨⟨⟨⟨⟨⟨⟨h1, h2⟩, h3⟩, h4⟩, h5⟩, h6⟩, h7⟩, h8⟩, h9⟩, h10⟩, h11⟩, h12⟩, h13⟩, h14⟩, h15⟩, h16⟩, h17⟩
    exact ⟨h1, h2, h3, h4, ⟨h5, h6, h7, h8⟩, ⟨h9, h10, h11, h12⟩, ⟨h13, h14, h15, h16⟩, h17⟩
  · rintro ⟨h1, h2, h3, h4, ⟨h5, h6, h7, h8⟩, ⟨h9, h10, h11, h12⟩, ⟨h13, h14, h15, h16⟩, h17⟩
    exact ⟨⟨⟨⟨⟨⟨⟨⟨⟨⟨⟨⟨⟨⟨⟨⟨h1, h2⟩, h3⟩, h4⟩, h5⟩, h6⟩, h7⟩, h8⟩, h9⟩, h10⟩, h11⟩, h12⟩, h13⟩, h14⟩, h15⟩, h16⟩, h17⟩

/-- With tolerance 0 the second box **is** the translated first one, up to the fields the comparator does
not read (constraints, flags). -/
theorem boxMoved_exact (dx dy : Rat) (a b : UBox) (h : boxMoved 0 dx dy a b = true) :
    b.x = a.x + dx ∧ b.y = a.y + dy ∧ b.w = a.w ∧ b.h = a.h ∧ b.outer = a.outer ∧
    b.borderBottom = a.borderBottom + dy ∧ b.contentX = a.contentX + dx := by
  obtain ⟨h1, h2, h3, h4, ⟨h5, h6, h7, h8⟩, ⟨h9, h10, h11, h12⟩, ⟨h13, h14, h15, h16⟩, _⟩ :=
    (boxMoved_iff 0 dx dy a b).mp h
  simp only [UBox.outer, UBox.borderBottom, UBox.contentX]
  refine ⟨?_, ?_, ?_, ?_, ?_, ?_, ?_⟩ <;> grind

/-- Pairwise `Moved`, same length. -/
inductive AllMoved (eps dx dy : Rat) : List UBox → List UBox → Prop where
  | nil : AllMoved eps dx dy [] []
  | cons {a b : UBox} {as bs : List UBox} :
      Moved eps dx dy a b → AllMoved eps dx dy as bs → AllMoved eps dx dy (a :: as) (b :: bs)

theorem AllMoved.append {eps dx dy : Rat} : ∀ {as bs cs ds : List UBox},
    AllMoved eps dx dy as bs → AllMoved eps dx dy cs ds → AllMoved eps dx dy (as ++ cs) (bs ++ ds)
  | _, _, _, _, .nil, h2 => h2
  | _, _, _, _, .cons h t, h2 => .cons h (AllMoved.append t h2)

/-- `AllMoved` as a statement about positions in the two lists. -/
theorem AllMoved.spec {eps dx dy : Rat} : ∀ {as bs : List UBox}, AllMoved eps dx dy as bs →
    as.length = bs.length ∧ ∀ (i : Nat) (a b : UBox), as[i]? = some a → bs[i]? = some b → Moved eps dx dy a b
  | _, _, .nil => ⟨rfl, by intro i a b h; simp at h⟩
  | _, _, .cons h t => by
    obtain ⟨hl, hi⟩ := AllMoved.spec t
    refine ⟨by simp [hl], ?_⟩
    intro i a b ha hb
    cases i with
    | zero =>
      simp only [List.getElem?_cons_zero, Option.some.injEq] at ha hb
      subst ha hb
      exact h
    | succ k =>
      simp only [List.getElem?_cons_succ] at ha hb
      exact hi k a b ha hb

mutual
/-- **Soundness**: when the comparator accepts, the two trees have the same number of boxes and, in preorder,
every box of the second is the corresponding box of the first moved by `(dx, dy)`. -/
theorem treeMoved_sound (eps dx dy : Rat) : ∀ a b : UTree, treeMoved eps dx dy a b = true →
    AllMoved eps dx dy (boxes a) (boxes b)
  | .mk a ka, .mk b kb => by
    intro h
    simp only [treeMoved, Bool.and_eq_true] at h
    simp only [boxes]
    exact .cons ((boxMoved_iff eps dx dy a b).mp h.1) (listMoved_sound eps dx dy ka kb h.2)
theorem listMoved_sound (eps dx dy : Rat) : ∀ as bs : List UTree, listMoved eps dx dy as bs = true →
    AllMoved eps dx dy (boxesList as) (boxesList bs)
  | [], [] => by intro _; exact .nil
  | [], _ :: _ => by intro h; simp [listMoved] at h
  | _ :: _, [] => by intro h; simp [listMoved] at h
  | a :: as, b :: bs => by
    intro h
    simp only [listMoved, Bool.and_eq_true] at h
    simp only [boxesList]
    exact (treeMoved_sound eps dx dy a b h.1).append (listMoved_sound eps dx dy as bs h.2)
end

/-- Soundness, by position: same number of boxes, and the `i`-th box of the second rendering is the `i`-th
box of the first one moved by `(dx, dy)`. -/
theorem treeMoved_spec (eps dx dy : Rat) (a b : UTree) (h : treeMoved eps dx dy a b = true) :
    (boxes a).length = (boxes b).length ∧
    ∀ (i : Nat) (x y : UBox), (boxes a)[i]? = some x → (boxes b)[i]? = some y → Moved eps dx dy x y :=
  (treeMoved_sound eps dx dy a b h).spec

private theorem near_self (eps a : Rat) (h : 0 ≤ eps) : near eps a a = true := by
  rw [C05Check.near_iff]; constructor <;> grind

mutual
/-- **Completeness**: a tree translated exactly (`Box.translate(dx, dy)`) is accepted, with any tolerance
`≥ 0`. -/
theorem treeMoved_shift (eps dx dy : Rat) (he : 0 ≤ eps) : ∀ t : UTree,
    treeMoved eps dx dy t (shiftTree dx dy t) = true
  | .mk b kids => by
    simp only [shiftTree, treeMoved, Bool.and_eq_true]
    refine ⟨?_, listMoved_shift eps dx dy he kids⟩
    simp [boxMoved, shiftBox, near_self _ _ he]
theorem listMoved_shift (eps dx dy : Rat) (he : 0 ≤ eps) : ∀ ts : List UTree,
    listMoved eps dx dy ts (shiftList dx dy ts) = true
  | [] => rfl
  | t :: ts => by
    simp only [shiftList, listMoved, Bool.and_eq_true]
    exact ⟨treeMoved_shift eps dx dy he t, listMoved_shift eps dx dy he ts⟩
end

/-- The report agrees with the verdict. -/
theorem firstUnmoved_none_iff (eps dx dy : Rat) (a b : UTree) :
    firstUnmoved eps dx dy a b = none ↔ treeMoved eps dx dy a b = true := by
  unfold firstUnmoved
  by_cases h : treeMoved eps dx dy a b = true
  · simp [h]
  · simp only [h, Bool.false_eq_true, if_false, false_iff]
    split <;> simp

/-! ### the property's clauses do not depend on where the page area is -/

private theorem near_add (eps a b d : Rat) : near eps (a + d) (b + d) = near eps a b := by
  have h1 : a + d - (b + d) = a - b := by grind
  have h2 : b + d - (a + d) = b - a := by grind
  simp only [near, h1, h2]

/-- The context of a translated parent. -/
def shiftCtx (dx : Rat) (c : Ctx) : Ctx := { c with cx := c.cx + dx }

/-- **Translation invariance of the statement**: the checker of used values gives the same verdict
(same clause, or none) for a box in its context and for the translated box in the translated context. -/
theorem nodeVerdict_shift (eps dx dy : Rat) (c : Ctx) (b : UBox) :
    nodeVerdict eps (shiftCtx dx c) (shiftBox dx dy b) = nodeVerdict eps c b := by
  have hn : nonneg (shiftBox dx dy b) = nonneg b := rfl
  have hw : minMaxW eps (shiftBox dx dy b) = minMaxW eps b := rfl
  have hh : minMaxH eps (shiftBox dx dy b) = minMaxH eps b := rfl
  have hk : (shiftBox dx dy b).kind = b.kind := rfl
  have ho : (shiftBox dx dy b).outer = b.outer := rfl
  have he : edge eps (shiftCtx dx c) (shiftBox dx dy b) = edge eps c b := by
    simp only [edge, shiftCtx, ho]
    split
    · have : (shiftBox dx dy b).x + b.outer = (b.x + b.outer) + dx := by simp only [shiftBox]; grind
      have h2 : c.cx + dx + c.pw = (c.cx + c.pw) + dx := by grind
      rw [this, h2, near_add]
    · exact near_add eps b.x c.cx dx
  have hq : equation eps (shiftCtx dx c) (shiftBox dx dy b) = equation eps c b := rfl
  unfold nodeVerdict
  rw [hn, hw, hh, hk, he, hq]

/-- The children of a translated box are checked in the translated context. -/
theorem kidCtx_shift (dx dy : Rat) (b : UBox) : kidCtx (shiftBox dx dy b) = shiftCtx dx (kidCtx b) := by
  simp only [kidCtx, shiftCtx, shiftBox, UBox.contentX, Ctx.mk.injEq, and_true]
  grind

mutual
/-- Box by box (preorder), with the contexts the checker uses: the translated tree's boxes are the
translated boxes in the translated contexts. -/
theorem nodes_shift (dx dy : Rat) (c : Ctx) : ∀ t : UTree,
    nodes (shiftCtx dx c) (shiftTree dx dy t) =
      (nodes c t).map (fun p => (shiftCtx dx p.1, shiftBox dx dy p.2))
  | .mk b kids => by
    simp only [shiftTree, nodes, List.map_cons, List.cons.injEq, true_and]
    rw [kidCtx_shift]
    exact nodesList_shift dx dy (kidCtx b) kids
theorem nodesList_shift (dx dy : Rat) (c : Ctx) : ∀ ts : List UTree,
    nodesList (shiftCtx dx c) (shiftList dx dy ts) =
      (nodesList c ts).map (fun p => (shiftCtx dx p.1, shiftBox dx dy p.2))
  | [] => rfl
  | t :: ts => by
    simp only [shiftList, nodesList, List.map_append]
    rw [nodes_shift dx dy c t, nodesList_shift dx dy c ts]
end

/-- (a)–(f) for whole trees: every box of a tree passes the per-box clauses iff every box of the translated
tree does, in the translated page area. -/
theorem nodes_all_shift (eps dx dy : Rat) (c : Ctx) (t : UTree) :
    (nodes (shiftCtx dx c) (shiftTree dx dy t)).all (fun p => nodeOk eps p.1 p.2) =
      (nodes c t).all (fun p => nodeOk eps p.1 p.2) := by
  rw [nodes_shift, List.all_map]
  congr 1
  funext p
  simp only [Function.comp, nodeOk, nodeVerdict_shift]

/-! ### the whole checker is translation invariant (clauses (a)–(g)) -/

theorem shiftTree_box (dx dy : Rat) (t : UTree) : (shiftTree dx dy t).box = shiftBox dx dy t.box := by
  cases t; rfl

theorem shiftTree_kids (dx dy : Rat) (t : UTree) : (shiftTree dx dy t).kids = shiftList dx dy t.kids := by
  cases t; rfl

mutual
theorem nonNegMargins_shift (dx dy : Rat) : ∀ t : UTree, nonNegMargins (shiftTree dx dy t) = nonNegMargins t
  | .mk b kids => by
    simp only [shiftTree, nonNegMargins]
    rw [nonNegMarginsList_shift dx dy kids]
    rfl
theorem nonNegMarginsList_shift (dx dy : Rat) : ∀ ts : List UTree,
    nonNegMarginsList (shiftList dx dy ts) = nonNegMarginsList ts
  | [] => rfl
  | t :: ts => by
    simp only [shiftList, nonNegMarginsList]
    rw [nonNegMargins_shift dx dy t, nonNegMarginsList_shift dx dy ts]
end

theorem allOof_shift (dx dy : Rat) : ∀ ts : List UTree,
    (shiftList dx dy ts).all (fun k => k.box.kind == .oof) = ts.all (fun k => k.box.kind == .oof)
  | [] => rfl
  | t :: ts => by
    simp only [shiftList, List.all_cons]
    rw [allOof_shift dx dy ts, shiftTree_box]
    rfl

theorem isEmpty_shift (dx dy : Rat) (t : UTree) : isEmpty (shiftTree dx dy t) = isEmpty t := by
  cases t with
  | mk b kids =>
    simp only [shiftTree, isEmpty]
    rw [allOof_shift]
    rfl

private theorem decide_le_add (p q d : Rat) : decide (p + d ≤ q + d) = decide (p ≤ q) := by
  have : (p + d ≤ q + d) ↔ (p ≤ q) := by constructor <;> intro h <;> grind
  simp only [this]

/-- (g) the stacking walk is translation covariant: same verdict, final position moved by `dy`. -/
theorem stackKids_shift (eps dx dy : Rat) : ∀ (kids : List UTree) (pos : Option Rat),
    stackKids eps (pos.map (· + dy)) (shiftList dx dy kids) =
      ((stackKids eps pos kids).1, (stackKids eps pos kids).2.map (· + dy))
  | [], pos => rfl
  | t :: ts, pos => by
    simp only [shiftList, stackKids, shiftTree_box]
    have hk : (shiftBox dx dy t.box).kind = t.box.kind := rfl
    rw [hk]
    cases hkind : t.box.kind with
    | oof => simp only; exact stackKids_shift eps dx dy ts pos
    | other => simp only; exact stackKids_shift eps dx dy ts none
    | flow =>
      simp only [nonNegMargins_shift, isEmpty_shift]
      split
      · have hbt : (shiftBox dx dy t.box).borderTop = t.box.borderTop + dy := by
          simp only [UBox.borderTop, shiftBox]; grind
        have hbb : (shiftBox dx dy t.box).borderBottom = t.box.borderBottom + dy := by
          simp only [UBox.borderBottom, shiftBox]; grind
        have hpos' : (if isEmpty t = true then pos.map (· + dy) else some (shiftBox dx dy t.box).borderBottom) =
            (if isEmpty t = true then pos else some t.box.borderBottom).map (· + dy) := by
          split <;> simp [hbb]
        rw [hpos', stackKids_shift eps dx dy ts _]
        cases pos with
        | none => rfl
        | some p =>
          simp only [Option.map_some, hbt]
          have : t.box.borderTop + dy + eps = (t.box.borderTop + eps) + dy := by grind
          rw [this, decide_le_add]
      · exact stackKids_shift eps dx dy ts none
    | line =>
      simp only [nonNegMargins_shift, isEmpty_shift]
      split
      · have hbt : (shiftBox dx dy t.box).borderTop = t.box.borderTop + dy := by
          simp only [UBox.borderTop, shiftBox]; grind
        have hbb : (shiftBox dx dy t.box).borderBottom = t.box.borderBottom + dy := by
          simp only [UBox.borderBottom, shiftBox]; grind
        have hpos' : (if isEmpty t = true then pos.map (· + dy) else some (shiftBox dx dy t.box).borderBottom) =
            (if isEmpty t = true then pos else some t.box.borderBottom).map (· + dy) := by
          split <;> simp [hbb]
        rw [hpos', stackKids_shift eps dx dy ts _]
        cases pos with
        | none => rfl
        | some p =>
          simp only [Option.map_some, hbt]
          have : t.box.borderTop + dy + eps = (t.box.borderTop + eps) + dy := by grind
          rw [this, decide_le_add]
      · exact stackKids_shift eps dx dy ts none

/-- (g) stacking and containment of the children of one box: same verdict after translation. -/
theorem kidsVerdict_shift (eps dx dy : Rat) (t : UTree) :
    kidsVerdict eps (shiftTree dx dy t) = kidsVerdict eps t := by
  cases t with
  | mk b kids =>
    simp only [shiftTree, kidsVerdict]
    have hk : (shiftBox dx dy b).kind = b.kind := rfl
    have hct : (shiftBox dx dy b).contentTop = b.contentTop + dy := by
      simp only [UBox.contentTop, shiftBox]; grind
    have hs := stackKids_shift eps dx dy kids (some b.contentTop)
    simp only [Option.map_some] at hs
    rw [hk, hct, hs]
    have h1 : (shiftBox dx dy b).hAuto = b.hAuto := rfl
    have h2 : (shiftBox dx dy b).whole = b.whole := rfl
    have h3 : (shiftBox dx dy b).maxH = b.maxH := rfl
    have h4 : (shiftBox dx dy b).h = b.h := rfl
    rw [h1, h2, h3, h4]
    cases (stackKids eps (some b.contentTop) kids).2 with
    | none => rfl
    | some p =>
      simp only [Option.map_some]
      have : b.contentTop + dy + b.h + eps = (b.contentTop + b.h + eps) + dy := by grind
      rw [this, decide_le_add]

mutual
theorem subtrees_shift (dx dy : Rat) : ∀ t : UTree,
    subtrees (shiftTree dx dy t) = (subtrees t).map (shiftTree dx dy)
  | .mk b kids => by
    simp only [shiftTree, subtrees, List.map_cons, List.cons.injEq, true_and]
    exact subtreesList_shift dx dy kids
theorem subtreesList_shift (dx dy : Rat) : ∀ ts : List UTree,
    subtreesList (shiftList dx dy ts) = (subtreesList ts).map (shiftTree dx dy)
  | [] => rfl
  | t :: ts => by
    simp only [shiftList, subtreesList, List.map_append]
    rw [subtrees_shift dx dy t, subtreesList_shift dx dy ts]
end

/-- **The property statement is translation invariant**: the verified checker of used values accepts a tree
in a page area iff it accepts the translated tree in the translated page area — all clauses, (a)–(g). -/
theorem usedOk_shift (eps dx dy : Rat) (c : Ctx) (t : UTree) :
    usedOk eps (shiftCtx dx c) (shiftTree dx dy t) = usedOk eps c t := by
  unfold usedOk
  rw [nodes_all_shift, subtrees_shift, List.all_map]
  congr 2
  funext s
  simp only [Function.comp, kidsOk, kidsVerdict_shift]

/-! ### the metamorphic pair "neutral wrapper div" uses the comparator with the translation (0, 0) -/

mutual
theorem shiftTree_zero : ∀ t : UTree, shiftTree 0 0 t = t
  | .mk b kids => by
    simp only [shiftTree, shiftList_zero kids, shiftBox, Rat.add_zero]
theorem shiftList_zero : ∀ ts : List UTree, shiftList 0 0 ts = ts
  | [] => rfl
  | t :: ts => by simp only [shiftList, shiftTree_zero t, shiftList_zero ts]
end

/-- A subtree that did not change at all is accepted with the translation `(0, 0)`; and what the comparator
accepts then is, box by box, the same geometry (`treeMoved_spec` / `boxMoved_exact` at `dx = dy = 0`). -/
theorem treeMoved_refl (eps : Rat) (he : 0 ≤ eps) (t : UTree) : treeMoved eps 0 0 t t = true := by
  have := treeMoved_shift eps 0 0 he t
  rwa [shiftTree_zero] at this

/-! ### non-vacuity -/

def exBox : UBox :=
  { x := 0, y := 10, w := 80, h := 20, ml := 10, mr := 10, mt := 0, mb := 5, pl := 0, pr := 0, pt := 0, pb := 0,
    bl := 0, br := 0, bt := 0, bb := 0, minW := 0, maxW := none, minH := 0, maxH := none, mlAuto := false,
    mrAuto := false, wAuto := true, hAuto := true, kind := .flow, rtl := false, whole := true }

def exTree : UTree := .mk { exBox with y := 0, w := 100, h := 60, ml := 0, mr := 0, mb := 0 }
  [.mk exBox [], .mk { exBox with y := 35, kind := .oof } []]

/-- Accepted: the translated tree; rejected with the index of the culprit: a tree whose float (box 2) stayed
at the page origin — the shape of `avoid_collisions` returning `(0, 0)` for a zero-height float before
/repo 50ab141; rejected as `shape`: a missing box. -/
example : firstUnmoved 0 16 8 exTree (shiftTree 16 8 exTree) = none ∧
    firstUnmoved 0 16 8 exTree
      (.mk (shiftBox 16 8 exTree.box) [shiftTree 16 8 (.mk exBox []), .mk { exBox with y := 35, kind := .oof } []]) =
        some "moved 2" ∧
    firstUnmoved 0 16 8 exTree (.mk (shiftBox 16 8 exTree.box) [shiftTree 16 8 (.mk exBox [])]) = some "shape" := by
  decide +kernel

end Wp.C05Shift
