/-
C17 — What is painted is what was laid out, in CSS paint order.  Property theorems only.

The statements are about `Wp.Stacking` (`Model/Stacking.lean`, `Model/PaintOrder.lean`): the literal
models of `weasyprint/stacking.py` and of the paint sequence of `weasyprint/draw/__init__.py`, run
against the real code by `py/props/c17.py` on every check.  Every class test in them comes from
`Gen/StackKinds.lean` (regenerated from the source).  Helper developments: `WpModel/Lemmas/Stacking*`.
-/
import WpModel.Lemmas.StackingSpec
import WpModel.Lemmas.StackingSort
import WpModel.Lemmas.StackingPartition
import WpModel.Lemmas.PaintEnv
import WpModel.Lemmas.PaintOnce
import WpModel.Lemmas.PaintOnceTransfer
import WpModel.Lemmas.RoundedBox

set_option linter.unusedSimpArgs false

namespace Wp.C17
open Wp Wp.Stacking Wp.Gen

/-! ## Example objects (non-vacuity) -/

/-- A plain static, opaque, visible box of a given class. -/
def plain (id : Nat) (kind : Kind) : Attrs :=
  { id := id, kind := kind, positioned := false, absPos := false, z := none, gridItem := false,
    opacity := 1, styleTransform := false, overflowVisible := true, floated := false, visible := true,
    matrix := .none, clipProp := false, isRoot := false, bg := some (some (4 * id)), border := none, borderSides := 0,
    outline := none, color := 4 * id + 1, collapse := false, emptyCellsShow := true, cellEmpty := false,
    colGroups := [] }

/-- `<div><p>t</p><div style="position:relative;z-index:-1">…</div><div style="float:left">
<div style="position:absolute">…</div></div></div>` after layout. -/
def exTree : Box :=
  .node (plain 1 .BlockBox) [
    .node (plain 2 .BlockBox) [.node (plain 3 .LineBox) [.leaf (plain 4 .TextBox)]],
    .node { plain 5 .BlockBox with positioned := true, z := some (-1) } [],
    .node { plain 6 .BlockBox with floated := true } [
      .ph (.node { plain 7 .BlockBox with positioned := true, absPos := true } [])]]

/-! ## Facts about the class tests of the source (regenerated tables: an edit of a tuple in
`stacking.py` / `draw/__init__.py` or of the class hierarchy re-checks these) -/

/-- The `assert isinstance(stacking_context.box, allowed_boxes)` of `draw_inline_level` holds for every
context the dispatcher leaves inside a tree: `stacking_classes ⊆ allowed_boxes`. -/
theorem stacking_classes_allowed (k : Kind) : k.dispStackingClass = true → k.dilAllowed = true := by
  cases k <;> decide

/-- Which classes `_dispatch` keeps in the tree as atomic contexts. -/
theorem stacking_classes_eq (k : Kind) :
    k.dispStackingClass = true ↔ k ∈ [Kind.InlineBlockBox, .InlineFlexBox, .InlineGridBox] := by
  cases k <;> decide

/-- A cell is never block-level (so the `if / elif` of `_dispatch` lists it once). -/
theorem cell_not_block_level (k : Kind) : k.dispCell = true → k.dispBlockLevel = false := by
  cases k <;> decide

/-- The classes whose own background and border are painted when they root a context: point 2 (grid
containers included since repair a9887a3), or point 6 for inline boxes; the page box is painted by
`draw_page`.  Every other instantiable class is listed here by name: table parts — the subject of known
finding `context-root-loses-decoration` — or classes that cannot root a context (line and text boxes,
abstract classes). -/
theorem own_decoration_classes (k : Kind) :
    k.drawOwnDecoration = true ∨ k.drawInline = true ∨ k.drawPage = true ∨
    k ∈ [Kind.TableBox, .InlineTableBox, .TableRowGroupBox,
         .TableRowBox, .TableColumnGroupBox, .TableColumnBox, .LineBox, .TextBox,
         .Box, .ParentBox, .BlockLevelBox, .BlockContainerBox, .InlineLevelBox, .AtomicInlineLevelBox] := by
  cases k <;> decide

/-- Every flex and grid container class, block-level or inline-level, is painted by point 2. -/
theorem flex_grid_roots_decorated (k : Kind) :
    k ∈ [Kind.FlexContainerBox, .FlexBox, .InlineFlexBox, .GridContainerBox, .GridBox, .InlineGridBox] →
      k.drawOwnDecoration = true := by
  cases k <;> decide

/-- Point 2 covers every block-level class except tables (painted by `draw_table` at point 4 when
they are in flow). -/
theorem block_level_decoration (k : Kind) :
    k.dispBlockLevel = true →
      k.drawOwnDecoration = true ∨ k ∈ [Kind.TableBox, .InlineTableBox, .BlockLevelBox] := by
  cases k <;> decide

/-- The two `LineBox` tests and the two `TextBox` tests of the drawing code agree, inline boxes take the
children loop of `draw_inline_level`, replaced boxes are leaves. -/
theorem draw_class_tests_coherent (k : Kind) :
    (k.drawLine = k.dilLine) ∧ (k.dilTextChild = k.dilText) ∧
    (k.drawInline = true → k.dilInlineOrLine = true) ∧ (k.dilLine = true → k.dilInlineOrLine = true) ∧
    (k.dilText = true → k.dispParent = false) ∧ (k.dilInlineReplaced = true → k.drawReplaced = true) ∧
    (k.drawReplaced = true → k.dispParent = false) ∧ (k.drawTable = true → k.dispBlockLevel = true) := by
  cases k <;> decide

/-! ## The literal model computes the pure specification; the `assert` of `_dispatch` cannot fail -/

/-- `_dispatch` with its four mutable lists, remembered lengths and `insert`s appends exactly the
`Delta` of the pure `dispatchS`, and never raises the assert flag. -/
theorem dispatch_refines (b : Box) (st : St) :
    dispatch b st = ((dispatchS b).1, st.app (dispatchS b).2) ∧ (dispatch b st).2.failed = st.failed := by
  rw [dispatch_eq]; exact ⟨rfl, rfl⟩

/-- `StackingContext.from_page`: the pure specification, and the assert is unreachable. -/
theorem fromPage_refines (page : Attrs) (children : List Box) :
    fromPage page children = (fromPageS page children, false) := fromPage_eq page children

example : (fromPage (plain 0 .PageBox) [exTree]).2 = false := by rw [fromPage_refines]

/-! ## dispatch_partition -/

/-- Every box of the subtree ends in exactly one place — the returned (pruned) tree, a child context
appended to `child_contexts`, or a float context: the ids at those places are a permutation of the
ids of the subtree (nothing dropped, nothing duplicated). -/
theorem dispatch_partition (b : Box) :
    (optIds (dispatchS b).1 ++ Node.idsL (dispatchS b).2.cc ++ Node.idsL (dispatchS b).2.floats).Perm
      b.ids := by
  rw [List.perm_iff_count]
  intro i
  have := count_dispatchS b i
  simp only [List.count_append]
  omega

/-- The same for a whole page: `from_page` keeps the page box and every box below it exactly once. -/
theorem fromPage_partition (page : Attrs) (children : List Box) :
    (fromPage page children).1.ids.Perm (page.id :: Box.idsL children) := by
  rw [fromPage_refines, List.perm_iff_count]
  intro i
  have := count_map_fromBoxS children i
  simp only [fromPageS, count_ids_mkCtx, Node.ids, Node.idsL, List.count_cons, List.count_nil]
  omega

/-- With distinct box ids, every id occurs exactly once in the built structure. -/
theorem fromPage_each_once (page : Attrs) (children : List Box)
    (h : (page.id :: Box.idsL children).Nodup) : (fromPage page children).1.ids.Nodup :=
  (fromPage_partition page children).nodup_iff.mpr h

example : (Box.ids exTree) = [1, 2, 3, 4, 5, 6, 7] := by decide
example : (page : Attrs) → page = plain 0 .PageBox → (page.id :: Box.idsL [exTree]).Nodup := by
  intro p hp; subst hp; decide

/-- Tree order inside the buckets: `blocks` (resp. `blocks_and_cells`) appended by a `_dispatch` call
are exactly the block-level boxes (resp. block-level boxes and cells) of the tree it returns, in
preorder — parents before descendants, earlier siblings first; contexts standing in the tree are
opaque. -/
theorem dispatch_blocks_tree_order (b : Box) :
    (dispatchS b).2.blocks = (optRegion (dispatchS b).1).filter Node.isBlockLevel ∧
    (dispatchS b).2.bc = (optRegion (dispatchS b).1).filter Node.isBlockOrCell :=
  blocks_dispatchS b

/-- Tree order of the contexts: the boxes rooting the appended child contexts, and those rooting the
appended float contexts, appear in the order of the tree (subsequences of the preorder ids). -/
theorem dispatch_contexts_tree_order (b : Box) :
    (rootIds (dispatchS b).2.cc).Sublist b.ids ∧ (rootIds (dispatchS b).2.floats).Sublist b.ids :=
  order_dispatchS b

example : rootIds (dispatchS exTree).2.cc = [5, 7] ∧ rootIds (dispatchS exTree).2.floats = [6] := by
  decide +kernel

/-! ## context_creation -/

/-- The condition tested by `_dispatch`, in the words of CSS 2.1 9.9.1 (+ grid items, opacity,
transforms, overflow). -/
theorem defines_context_iff (a : Attrs) :
    definesContext a = true ↔
      (a.positioned = true ∧ a.z ≠ none) ∨ (a.gridItem = true ∧ a.z ≠ none) ∨ a.opacity < 1 ∨
        a.styleTransform = true ∨ a.overflowVisible = false := by
  simp [definesContext, Bool.or_eq_true, Bool.and_eq_true, or_assoc]

/-- A box satisfying the condition roots a *real* context: it leaves the tree, is appended to the
parent's `child_contexts`, and owns every context found below it (nothing of its subtree reaches the
parent's lists). -/
theorem context_creation_real (a : Attrs) (kids : List Box) (h : definesContext a = true) :
    dispatchS (.node a kids) =
      (none, { cc := [mkCtx (.node a (listS kids).1) (listS kids).2.cc (listS kids).2.blocks
                        (listS kids).2.floats (listS kids).2.bc] }) := by
  simp [dispatchS, coreS, h]

/-- A positioned box with `z-index: auto` is painted atomically (a context without child contexts,
at z 0) but the contexts found below it belong to the parent's list, right after it. -/
theorem context_creation_positioned_auto (a : Attrs) (kids : List Box)
    (h : definesContext a = false) (hp : a.positioned = true) :
    dispatchS (.node a kids) =
      (none, { cc := mkCtx (.node a (listS kids).1) [] (listS kids).2.blocks (listS kids).2.floats
                      (listS kids).2.bc :: (listS kids).2.cc }) ∧ a.z = none := by
  refine ⟨by simp [dispatchS, coreS, h, hp], ?_⟩
  cases hz : a.z with
  | none => rfl
  | some z => simp [definesContext, hp, hz] at h

/-- A float that creates no context is painted atomically among the floats; contexts below it go to
the parent's list. -/
theorem context_creation_float (a : Attrs) (kids : List Box)
    (h : definesContext a = false) (hp : a.positioned = false) (hf : a.floated = true) :
    dispatchS (.node a kids) =
      (none, { cc := (listS kids).2.cc,
               floats := [mkCtx (.node a (listS kids).1) [] (listS kids).2.blocks (listS kids).2.floats
                            (listS kids).2.bc] }) := by
  simp [dispatchS, coreS, h, hp, hf]

/-- Inline-blocks (the `stacking_classes` tuple) stay in the tree, as an atomic context. -/
theorem context_creation_inline_block (a : Attrs) (kids : List Box)
    (h : definesContext a = false) (hp : a.positioned = false) (hf : a.floated = false)
    (hs : a.kind.dispStackingClass = true) :
    dispatchS (.node a kids) =
      (some (mkCtx (.node a (listS kids).1) [] (listS kids).2.blocks (listS kids).2.floats
              (listS kids).2.bc), { cc := (listS kids).2.cc }) := by
  simp [dispatchS, coreS, h, hp, hf, hs]

/-- Every other box stays in the tree as a box and creates no context. -/
theorem context_creation_none (a : Attrs) (kids : List Box)
    (h : definesContext a = false) (hp : a.positioned = false) (hf : a.floated = false)
    (hs : a.kind.dispStackingClass = false) :
    (dispatchS (.node a kids)).1 = some (.node a (listS kids).1) ∧
    (dispatchS (.node a kids)).2.cc = (listS kids).2.cc ∧
    (dispatchS (.node a kids)).2.floats = (listS kids).2.floats := by
  simp [dispatchS, coreS, h, hp, hf, hs]

/-- The z-index of a context is the `z-index` of its box, `auto` counting as 0. -/
theorem context_z (a : Attrs) (kids c b f bc : List Node) :
    (mkCtx (.node a kids) c b f bc).zIndex = zOfStyle a.z := rfl

example : definesContext { plain 5 .BlockBox with positioned := true, z := some (-1) } = true := by
  decide +kernel
example : definesContext { plain 7 .BlockBox with positioned := true } = false := by decide +kernel

/-! ## The split and the sort of `StackingContext.__init__` -/

/-- The three lists of a context: the child contexts of negative / zero / positive z-index, the
outer two stably sorted by z-index. -/
theorem init_lists (box : Node) (children blocks floats bc : List Node) :
    mkCtx box children blocks floats bc =
      .ctx box (sortZ (children.filter (fun n => decide (n.zIndex < 0))))
        (children.filter (fun n => decide (n.zIndex = 0)))
        (sortZ (children.filter (fun n => decide (0 < n.zIndex)))) blocks floats bc
        (zOfStyle box.styleZ) := by
  simp [mkCtx, splitZ_eq]

/-- `list.sort(key=z_index)`: a permutation, ordered by z-index, and stable (for every z the contexts
of that z-index keep their original, i.e. tree, order). -/
theorem sort_spec (l : List Node) :
    (sortZ l).Perm l ∧ (sortZ l).Pairwise (fun a b => a.zIndex ≤ b.zIndex) ∧
    ∀ k : Int, (sortZ l).filter (fun n => decide (n.zIndex = k)) = l.filter (fun n => decide (n.zIndex = k)) :=
  ⟨sortZ_perm l, sortZ_sorted l, fun k => sortZ_stable k l⟩

/-! ## paint_order -/

/-- The paint sequence of one stacking context (`draw_stacking_context`, points 2–10), for a context
built by `__init__` around a parent box whose transform is not singular:
own background and border (only for the classes of point 2); then, inside the overflow clip:
negative-z child contexts in increasing z, tree order on ties; the decoration of the in-flow block-level
boxes in tree order; floats; the inline content of the box itself if it is an inline box; the inline
content of the box and of `blocks_and_cells` in tree order; child contexts of z = 0 / auto in tree order;
positive-z child contexts in increasing z, tree order on ties; finally (outside the overflow clip) the
outlines of the box and of the boxes of its tree. -/
theorem paint_order (pov : Bool) (a : Attrs) (kids children blocks floats bc : List Node) (env : Env)
    (h : a.matrix ≠ .singular) :
    paint pov (mkCtx (.node a kids) children blocks floats bc) env =
      (((if a.kind.drawOwnDecoration then decoration a (ctxEnv a pov env) else []) ++
        (paintList pov (sortZ (children.filter (fun n => decide (n.zIndex < 0)))) (innerEnv a pov env) ++
         blocks.flatMap (drawBlock · (innerEnv a pov env)) ++
         paintList pov floats (innerEnv a pov env) ++
         (if a.kind.drawInline then inlBoxWith a (inlKids pov kids) (innerEnv a pov env) else []) ++
         (point7With a kids (inlList pov kids) (innerEnv a pov env) ++
            point7List pov bc (innerEnv a pov env)) ++
         paintList pov (children.filter (fun n => decide (n.zIndex = 0))) (innerEnv a pov env) ++
         paintList pov (sortZ (children.filter (fun n => decide (0 < n.zIndex)))) (innerEnv a pov env))) ++
       ownOutline a (ctxEnv a pov env)) ++ outlineList kids (ctxEnv a pov env) := by
  simp [init_lists, paint, paintBodyWith, innerEnv, h]

example : (plain 1 .BlockBox).matrix ≠ .singular := by decide

/-- A box with a singular transform paints nothing at all: neither itself nor anything of its subtree. -/
theorem paint_singular (pov : Bool) (a : Attrs) (kids children blocks floats bc : List Node) (env : Env)
    (h : a.matrix = .singular) :
    paint pov (mkCtx (.node a kids) children blocks floats bc) env = [] := by
  simp [init_lists, paint, paintBodyWith, h]

/-- The sorted lists used by `paint_order` are ordered by z-index and keep tree order on ties. -/
theorem paint_order_sorted (children : List Node) :
    (sortZ (children.filter (fun n => decide (n.zIndex < 0)))).Pairwise (fun x y => x.zIndex ≤ y.zIndex) ∧
    (sortZ (children.filter (fun n => decide (0 < n.zIndex)))).Pairwise (fun x y => x.zIndex ≤ y.zIndex) ∧
    (∀ n ∈ sortZ (children.filter (fun n => decide (n.zIndex < 0))), n.zIndex < 0) ∧
    (∀ n ∈ sortZ (children.filter (fun n => decide (0 < n.zIndex))), 0 < n.zIndex) ∧
    (∀ k : Int, (sortZ (children.filter (fun n => decide (n.zIndex < 0)))).filter (fun n => decide (n.zIndex = k)) =
      (children.filter (fun n => decide (n.zIndex < 0))).filter (fun n => decide (n.zIndex = k))) ∧
    (∀ k : Int, (sortZ (children.filter (fun n => decide (0 < n.zIndex)))).filter (fun n => decide (n.zIndex = k)) =
      (children.filter (fun n => decide (0 < n.zIndex))).filter (fun n => decide (n.zIndex = k))) := by
  refine ⟨sortZ_sorted _, sortZ_sorted _, ?_, ?_, fun k => sortZ_stable k _, fun k => sortZ_stable k _⟩
  · intro n hn
    have := (sortZ_perm _).mem_iff.mp hn
    simpa using (List.mem_filter.mp this).2
  · intro n hn
    have := (sortZ_perm _).mem_iff.mp hn
    simpa using (List.mem_filter.mp this).2

/-! ## subtree_atomic -/

/-- Everything a context paints — own decoration, every descendant (in whatever nested context),
outlines — is painted in the graphics environment of the call extended by the context's own viewport
clip, `clip`, opacity group and transform: the opacity groups and transforms of every item have the
context's as a prefix and its clip depth is at least the context's.  (Together with `paint_order`: the
items of a context are one contiguous block of the parent's list, and the overflow clip `innerEnv`
applies to the descendants but not to the context's own border, background and outline.) -/
theorem subtree_atomic (pov : Bool) (a : Attrs) (kids children blocks floats bc : List Node) (env : Env) :
    ∀ it ∈ paint pov (mkCtx (.node a kids) children blocks floats bc) env,
      ∀ r i c f, it = .paint r i c f → (ctxEnv a pov env).le f := by
  intro it hit r i c f hf
  subst hf
  have hk := ge_list pov kids
  have hbl : ∀ e', AllGe e' (blocks.flatMap (drawBlock · e')) :=
    fun e' => AllGe.flatMap _ _ (fun b _ => allGe_drawBlock b e')
  have := allGe_paintBodyWith pov a
    (paintList pov (sortZ (children.filter (fun n => decide (n.zIndex < 0)))))
    (fun e => blocks.flatMap (drawBlock · e)) (paintList pov floats) (inlKids pov kids)
    (fun e => point7With a kids (inlList pov kids) e ++ point7List pov bc e)
    (paintList pov (children.filter (fun n => decide (n.zIndex = 0))))
    (paintList pov (sortZ (children.filter (fun n => decide (0 < n.zIndex))))) (outlineList kids) env
    (fun e' => ⟨(ge_list pov _ e').paint, hbl e', (ge_list pov _ e').paint, (hk e').kids,
      (allGe_point7With a kids _ e' (hk e').lines).append (ge_list pov _ e').pt7,
      (ge_list pov _ e').paint, (ge_list pov _ e').paint, (hk e').outl⟩)
  rw [init_lists, paint] at hit
  exact this _ hit

example : ({ plain 1 .BlockBox with opacity := 1 / 2 } : Attrs).opacity < 1 := by decide +kernel
example : (ctxEnv { plain 1 .BlockBox with opacity := 1 / 2, matrix := .regular 7 } true {}) =
    { alphas := [1 / 2], transforms := [7], clips := [] } := by decide +kernel

/-- An opacity below 1 reaches every item of the subtree: the group is in the item's list. -/
theorem opacity_applies_to_subtree (pov : Bool) (a : Attrs) (kids children blocks floats bc : List Node)
    (env : Env) (h : a.opacity < 1) :
    ∀ it ∈ paint pov (mkCtx (.node a kids) children blocks floats bc) env,
      ∀ r i c f, it = .paint r i c f → a.opacity ∈ f.alphas := by
  intro it hit r i c f hf
  have hle := subtree_atomic pov a kids children blocks floats bc env it hit r i c f hf
  have : a.opacity ∈ (ctxEnv a pov env).alphas := by
    unfold ctxEnv
    cases a.matrix <;> simp [h]
  exact hle.1.subset this

/-! ## paint_once -/

/-- Points 4 and 7 of a context built by the dispatcher are recursions over the context's own pruned
tree: `block_level_boxes` and `blocks_and_cells` add nothing that is not in the tree and skip nothing
of it (no hypothesis on the tree). -/
theorem points_4_7_follow_the_tree (pov : Bool) (kids : List Box) (e : Env) :
    (listS kids).2.blocks.flatMap (drawBlock · e) = flow4L (listS kids).1 e ∧
    point7List pov (listS kids).2.bc e = flow7L pov (listS kids).1 e := by
  rw [(blocks_listS kids).1, (blocks_listS kids).2]
  exact ⟨flow4L_region _ e, flow7L_region pov _ e⟩

/-- **paint_once (partial: backgrounds, block / line / inline / inline-block grammar, painted root
classes).**  Full statement of the property clause: *every box's background occurs exactly once in
the display list of its page, unless it lies under a box with a singular transform (then not at all)*.
It is false of the current code when a table row / row group roots a context (`Witness.C17`; grid
containers were repaired by a9887a3 and are inside `rootPainted` now), so it is proved for structures in which every context root is of a class painted by
point 2 or point 6 (`rootPainted`), whose `blocks` / `blocks_and_cells` are those of the dispatcher, and
whose trees follow the block / line / inline / atomic-inline grammar (`wfCtx`; tables in flow are
outside this theorem and covered by the correspondence only).  `expBg` lists the boxes with a painted
background colour at the tree positions of the structure, pruned below singular transforms. -/
theorem paint_once_partial (pov : Bool) (c : Node) (h : wfCtx c) (i : Nat) (e : Env) :
    cntBg i (paint pov c e) = (expBg c).count i := by
  have := (once_node pov i c).ctx (by simp [wfCtxL, h]) e
  simpa [paintList, expBgL] using this

/-- A well-formed context: a positioned block with one line of text and an inline box in it. -/
def exCtx : Node :=
  mkCtx (.node { plain 1 .BlockBox with positioned := true }
      [.node { plain 2 .LineBox with bg := none }
        [.leaf { plain 3 .TextBox with bg := none },
         .node (plain 4 .InlineBox) [.leaf { plain 5 .TextBox with bg := none }]]]) [] [] [] []

example : wfCtx exCtx := by
  simp [exCtx, mkCtx, splitZ, sortZ, wfCtx, wfCtxL, wfInlineL, wfInline, wfFlowL, rootPainted, plain,
    Node.regionL, Node.region, Node.isBlockLevel, Node.isBlockOrCell, lastIsLine, Node.attrs?, bgOf,
    Kind.drawOwnDecoration, Kind.drawInline, Kind.drawReplaced, Kind.dispBlockLevel, Kind.dispCell,
    Kind.drawLine, Kind.dilInlineOrLine, Kind.dilTextChild]

example : expBg exCtx = [1, 4] := by
  simp [exCtx, mkCtx, splitZ, sortZ, expBg, expBgL, bgOf, plain]

/-- The grammar on the laid-out tree is inherited by everything the dispatcher builds: contexts
appended to `child_contexts` and to `floats` are well-formed, what stays in the tree is inline-level
(resp. block-flow) content. -/
theorem dispatch_preserves_grammar (b : Box) :
    (gInline b → optWfInline (dispatchS b).1 ∧ wfCtxL (dispatchS b).2.cc ∧ wfCtxL (dispatchS b).2.floats) ∧
    (gFlow b → optWfFlow (dispatchS b).1 ∧ wfCtxL (dispatchS b).2.cc ∧ wfCtxL (dispatchS b).2.floats) :=
  ⟨(transfer_box b).inl, (transfer_box b).flow⟩

private theorem cntBg_canvas (i id : Nat) (bg : Option (Option Nat)) (cb : Bool) (e : Env) :
    cntBg i (drawBackground .canvas id bg cb e) = 0 := by
  unfold drawBackground
  cases bg with
  | none => simp
  | some b => cases b <;> simp [cntBg, isBg]

private theorem count_map_fromBoxS_exp (l : List Box) (hk : ∀ b ∈ l, gRoot b) (hs : singOKL l) (i : Nat) :
    (expBgL (l.map fromBoxS)).count i = (Box.expBgL l).count i := by
  induction l with
  | nil => rfl
  | cons x xs ih =>
    rw [singOKL] at hs
    have hx : ∀ b', x ≠ .ph b' := by
      intro b' hb
      have := hk x (by simp)
      rw [hb, gRoot] at this
      exact this
    simp [expBgL, Box.expBgL, List.count_append, count_expBg_fromBoxS x hs.1 hx,
      ih (fun b hb => hk b (by simp [hb])) hs.2]

private theorem wfCtxL_map_fromBoxS (l : List Box) (hk : ∀ b ∈ l, gRoot b) : wfCtxL (l.map fromBoxS) := by
  rw [wfCtxL_iff]
  intro n hn
  rcases List.mem_map.mp hn with ⟨b, hb, rfl⟩
  exact wfCtx_fromBoxS b (hk b hb)

/-- **paint_once for a page (partial: backgrounds; grammar without tables in flow; painted root
classes).**  In the display list of `draw_page`, the background of every box of the page is painted
exactly as often as it occurs in the laid-out tree outside singular transforms — once for distinct
ids (`fromPage_each_once`), never below a singular transform — provided the children of the page are
context roots of painted classes (`gRoot`), the tree follows the block / line / inline / atomic-inline
grammar with painted root classes for everything that leaves the tree (`gFlow` / `gInline`), and a
singular matrix only occurs on boxes that create a context (`singOK`: it comes from `transform`). -/
theorem paint_once_page_partial (page : Attrs) (canvas : Option (Option Nat)) (kids : List Box)
    (hp2 : page.kind.drawOwnDecoration = false) (hp6 : page.kind.drawInline = false)
    (hpm : page.matrix ≠ .singular) (hk : ∀ b ∈ kids, gRoot b) (hs : singOKL kids) (i : Nat) :
    cntBg i (drawPage page canvas kids) = (bgOf page ++ Box.expBgL kids).count i := by
  have hw := wfCtxL_map_fromBoxS kids hk
  have hsum := count_expBgL_init (kids.map fromBoxS) i
  have hmap := count_map_fromBoxS_exp kids hk hs i
  have hn := (once_list page.overflowVisible i _).ctx (wfCtxL_sortZ (wfCtxL_filter (fun n => decide (n.zIndex < 0)) hw))
  have hz := (once_list page.overflowVisible i _).ctx (wfCtxL_filter (fun n => decide (n.zIndex = 0)) hw)
  have hp := (once_list page.overflowVisible i _).ctx (wfCtxL_sortZ (wfCtxL_filter (fun n => decide (0 < n.zIndex)) hw))
  unfold drawPage
  rw [fromPage_refines]
  simp only [fromPageS, init_lists, paint, cntBg_append, cntBg_drawBackground_bg, cntBg_canvas,
    cntBg_drawBorder]
  rw [cntBg_paintBodyWith _ _ _ _ _ _ _ _ _ _ _ _ (fun _ => by simp [outlineList])]
  simp only [hpm, ↓reduceIte, hp2, hp6, Bool.false_eq_true, List.flatMap_nil, cntBg_nil, cntBg_append,
    cntBg_point7With_nil, point7List, paintList, hn, hz, hp, List.count_append, bgOf]
  omega

example : gRoot (.node (plain 1 .BlockBox) [.node { plain 2 .LineBox with bg := none } [.leaf { plain 3 .TextBox with bg := none }]]) := by
  simp [gRoot, rootPainted, plain, listS, dispatchS, coreS, definesContext, lastIsLine, Node.attrs?, gInlineL,
    gInline, leavesTree, bgOf, Delta.append,
    Kind.drawOwnDecoration, Kind.drawInline, Kind.drawReplaced, Kind.dispBlockLevel, Kind.dispCell,
    Kind.drawLine, Kind.dilInlineOrLine, Kind.dilTextChild, Kind.dispStackingClass]

/-! ## Rounded boxes: the rectangle and radii of every painted border, background clip and overflow clip -/

section Rounded
open Wp.Rounded

/-- The corner-overlap ratio `rounded_box` scales the reduced radii with. -/
def roundedRatio (g : Geo) (bt br bb bl : Rat) : Rat :=
  overlapRatio
    [(g.borderWidth - bl - br, shrink g.tl.1 bl + shrink g.tr.1 br),
     (g.borderWidth - bl - br, shrink g.bl.1 bl + shrink g.br.1 br),
     (g.borderHeight - bt - bb, shrink g.tl.2 bt + shrink g.bl.2 bb),
     (g.borderHeight - bt - bb, shrink g.tr.2 bt + shrink g.br.2 bb)]

/-- **Inner radius = max(0, outer radius − inset), per corner and per axis** (css-backgrounds-3 "corner
shaping"), times the common corner-overlap ratio: the horizontal radius of a corner is reduced by the
inset of its *vertical* side (left / right), the vertical radius by the inset of its *horizontal* side
(top / bottom) — top-left: (left, top), top-right: (right, top), bottom-right: (right, bottom),
bottom-left: (left, bottom). -/
theorem rounded_box_radii (g : Geo) (bt br bb bl : Rat) :
    let r := roundedBox g bt br bb bl
    let ρ := roundedRatio g bt br bb bl
    r.tl = (max 0 (g.tl.1 - bl) * ρ, max 0 (g.tl.2 - bt) * ρ) ∧
    r.tr = (max 0 (g.tr.1 - br) * ρ, max 0 (g.tr.2 - bt) * ρ) ∧
    r.br = (max 0 (g.br.1 - br) * ρ, max 0 (g.br.2 - bb) * ρ) ∧
    r.bl = (max 0 (g.bl.1 - bl) * ρ, max 0 (g.bl.2 - bb) * ρ) :=
  ⟨rfl, rfl, rfl, rfl⟩

/-- The rectangle: the border box moved in by the four insets. -/
theorem rounded_box_rect (g : Geo) (bt br bb bl : Rat) :
    let r := roundedBox g bt br bb bl
    r.x = g.borderBoxX + bl ∧ r.y = g.borderBoxY + bt ∧
    r.w = g.borderWidth - bl - br ∧ r.h = g.borderHeight - bt - bb :=
  ⟨rfl, rfl, rfl, rfl⟩

/-- The ratio only shrinks, and it is positive when the rounded sides have positive length. -/
theorem rounded_ratio_bounds (g : Geo) (bt br bb bl : Rat) :
    roundedRatio g bt br bb bl ≤ 1 ∧
    (0 < g.borderWidth - bl - br → 0 < g.borderHeight - bt - bb → 0 < roundedRatio g bt br bb bl) := by
  refine ⟨overlapRatio_le_one _, fun hw hh => overlapRatio_pos _ ?_⟩
  intro p hp _
  simp only [List.mem_cons, List.mem_nil_iff, or_false] at hp
  rcases hp with rfl | rfl | rfl | rfl <;> assumption

/-- Without corner overlap the inner radii are exactly `max(0, outer − inset)`. -/
theorem rounded_inner_radius (g : Geo) (bt br bb bl : Rat)
    (h1 : shrink g.tl.1 bl + shrink g.tr.1 br ≤ g.borderWidth - bl - br)
    (h2 : shrink g.bl.1 bl + shrink g.br.1 br ≤ g.borderWidth - bl - br)
    (h3 : shrink g.tl.2 bt + shrink g.bl.2 bb ≤ g.borderHeight - bt - bb)
    (h4 : shrink g.tr.2 bt + shrink g.br.2 bb ≤ g.borderHeight - bt - bb) :
    let r := roundedBox g bt br bb bl
    r.tl = (max 0 (g.tl.1 - bl), max 0 (g.tl.2 - bt)) ∧
    r.tr = (max 0 (g.tr.1 - br), max 0 (g.tr.2 - bt)) ∧
    r.br = (max 0 (g.br.1 - br), max 0 (g.br.2 - bb)) ∧
    r.bl = (max 0 (g.bl.1 - bl), max 0 (g.bl.2 - bb)) := by
  have hρ : roundedRatio g bt br bb bl = 1 := by
    apply overlapRatio_eq_one
    intro p hp _
    simp only [List.mem_cons, List.mem_nil_iff, or_false] at hp
    rcases hp with rfl | rfl | rfl | rfl <;> assumption
  have := rounded_box_radii g bt br bb bl
  simp only [hρ, Rat.mul_one] at this
  exact this

/-- Corner overlap is resolved: after scaling, the two radii on every side fit that side
(for an inner rectangle of non-negative size). -/
theorem rounded_corners_fit (g : Geo) (bt br bb bl : Rat)
    (hw : 0 ≤ g.borderWidth - bl - br) (hh : 0 ≤ g.borderHeight - bt - bb) :
    let r := roundedBox g bt br bb bl
    r.tl.1 + r.tr.1 ≤ r.w ∧ r.bl.1 + r.br.1 ≤ r.w ∧ r.tl.2 + r.bl.2 ≤ r.h ∧ r.tr.2 + r.br.2 ≤ r.h := by
  refine ⟨?_, ?_, ?_, ?_⟩
  · exact scaled_sum_fits _ _ _ _ (List.mem_cons_self) (shrink_nonneg _ _) (shrink_nonneg _ _) hw
  · exact scaled_sum_fits _ _ _ _ (List.mem_cons_of_mem _ List.mem_cons_self)
      (shrink_nonneg _ _) (shrink_nonneg _ _) hw
  · exact scaled_sum_fits _ _ _ _ (List.mem_cons_of_mem _ (List.mem_cons_of_mem _ List.mem_cons_self))
      (shrink_nonneg _ _) (shrink_nonneg _ _) hh
  · exact scaled_sum_fits _ _ _ _
      (List.mem_cons_of_mem _ (List.mem_cons_of_mem _ (List.mem_cons_of_mem _ List.mem_cons_self)))
      (shrink_nonneg _ _) (shrink_nonneg _ _) hh

/-- The three boxes the drawing code asks for: insets 0 (border box: background clip, outer border
edge), the border widths (padding box: inner border edge, `background-clip: padding-box`, overflow
clip), border + padding (content box: `background-clip: content-box`). -/
theorem rounded_named_boxes (g : Geo) :
    roundedBorderBox g = roundedBox g 0 0 0 0 ∧
    roundedPaddingBox g = roundedBox g g.borderTop g.borderRight g.borderBottom g.borderLeft ∧
    roundedContentBox g = roundedBox g (g.borderTop + g.padTop) (g.borderRight + g.padRight)
      (g.borderBottom + g.padBottom) (g.borderLeft + g.padLeft) :=
  ⟨rfl, rfl, rfl⟩

/-- `resolve_radii_percentages`: a percentage radius refers to the border-box width (horizontal) /
height (vertical); a corner with a zero-px component, or on a side whose decoration was removed by a
page break, has no radius. -/
theorem resolve_corner_spec (rx ry : Dim) (removed : Bool) (bw bh : Rat) :
    resolveCorner rx ry removed bw bh =
      if rx.isZeroPx || ry.isZeroPx || removed then (0, 0)
      else ((if rx.percent then bw * rx.value / 100 else rx.value),
            (if ry.percent then bh * ry.value / 100 else ry.value)) := by
  unfold resolveCorner percentage
  by_cases h1 : (rx.isZeroPx || ry.isZeroPx) = true <;> by_cases h2 : removed = true <;> simp [h1, h2]

/-- The seed geometry: 40px radii, border widths 4 / 10 / 30 / 10 on a 150 × 100 content box. -/
def exGeo : Geo :=
  { positionX := 0, positionY := 0, marginLeft := 20, marginTop := 20, borderTop := 4, borderRight := 10,
    borderBottom := 30, borderLeft := 10, padTop := 0, padRight := 0, padBottom := 0, padLeft := 0,
    width := 150, height := 100, tl := (40, 40), tr := (40, 40), br := (40, 40), bl := (40, 40) }

example : (roundedPaddingBox exGeo).bl = (30, 10) ∧ (roundedPaddingBox exGeo).tl = (30, 36) := by
  decide +kernel

example : shrink exGeo.tl.2 exGeo.borderTop + shrink exGeo.bl.2 exGeo.borderBottom ≤
    exGeo.borderHeight - exGeo.borderTop - exGeo.borderBottom := by decide +kernel

end Rounded

end Wp.C17
