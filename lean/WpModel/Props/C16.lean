/-
C16 — the output is a well-formed, self-consistent PDF.  Property theorems only (helpers in Lemmas/).

Content streams: `StreamWellFormed` is the declarative statement of the content-stream clauses; `check_sound` proves
that the executable checker run on every stream of every generated document implies it; `balanced` proves that the
stream model only produces bracket structures the checker accepts, for every API-level well-bracketed call sequence.
-/
import WpModel.Model.PdfStream
import WpModel.Model.ContentCheck
import WpModel.Model.PdfPages
import WpModel.Lemmas.ContentCheck
import WpModel.Lemmas.PdfStream
import WpModel.Lemmas.PdfPages
import WpModel.Lemmas.PdfWorld
import WpModel.Lemmas.DrawSkeleton
import WpModel.Lemmas.PdfCache

namespace Wp.C16
open Wp Wp.Pdf

/-- The if/elif chain read from the source (AST) and the real function called on every HTML element name agree. -/
theorem tag_graph_agrees : ∀ e ∈ Gen.tagCalled ++ Gen.tagCalledUnknown, markedTag e.1 = e.2 := by decide +kernel

/-- PDF 32000-1 §14.8.4 standard structure types used for HTML elements. -/
def standardStructureTypes : List String :=
  ["Document", "Part", "Art", "Sect", "Div", "BlockQuote", "Caption", "TOC", "TOCI", "Index", "NonStruct", "Private",
   "P", "H", "H1", "H2", "H3", "H4", "H5", "H6", "L", "LI", "Lbl", "LBody", "Table", "TR", "TH", "TD", "THead",
   "TBody", "TFoot", "Span", "Quote", "Note", "Reference", "BibEntry", "Code", "Link", "Annot", "Ruby", "Warichu",
   "Figure", "Formula", "Form"]

/-- Every tag `get_marked_content_tag` can return is a standard structure type (table regenerated from the source). -/
theorem tags_standard : (∀ e ∈ Gen.tagGraph, e.2 ∈ standardStructureTypes) ∧ Gen.tagDefault ∈ standardStructureTypes := by
  decide +kernel

/-- The structure types expected for the HTML elements that have one (PDF 32000-1 §14.8.4.2–4: grouping elements,
paragraph-like elements with headings, lists — every list child is an `LI` —, tables), stated independently of the
source: an edit of the if/elif chain that drops or misroutes one of them breaks this obligation. -/
theorem tags_expected : ∀ e ∈ [("div", "Div"), ("span", "Span"), ("article", "Art"), ("section", "Sect"),
    ("blockquote", "BlockQuote"), ("p", "P"), ("h1", "H1"), ("h2", "H2"), ("h3", "H3"), ("h4", "H4"), ("h5", "H5"),
    ("h6", "H6"), ("dl", "L"), ("ul", "L"), ("ol", "L"), ("li", "LI"), ("dt", "LI"), ("dd", "LI"),
    ("table", "Table"), ("tr", "TR"), ("th", "TH"), ("td", "TD"), ("thead", "THead"), ("tbody", "TBody"),
    ("tfoot", "TFoot"), ("a", "NonStruct"), ("img", "NonStruct"), ("html", "NonStruct"), ("body", "NonStruct")],
    markedTag e.1 = e.2 := by decide +kernel

/-! ## The checker is sound -/

/-- The content-stream clauses of C16, stated on the operator sequence of one stream and the names of the resource
dictionary in effect.  `opensK k` / `closesK k` select the operators that open / close bracket kind `k`
(`q`/`Q`, `BT`/`ET`, `BMC`|`BDC`/`EMC`). -/
structure StreamWellFormed (res : ResNames) (toks : List Tok) : Prop where
  /-- no prefix closes more than it opened, for each of `q/Q`, `BT/ET`, `BMC|BDC/EMC`; -/
  prefix_le : ∀ k n, (toks.take n).countP (closesK k) ≤ (toks.take n).countP (opensK k)
  /-- at the end of the stream everything is closed; -/
  total_eq : ∀ k, toks.countP (closesK k) = toks.countP (opensK k)
  /-- text objects do not nest; -/
  text_flat : ∀ n, (toks.take n).countP (opensK .T) ≤ (toks.take n).countP (closesK .T) + 1
  /-- `q`, `BT`, `cm`, path construction / painting / clipping, `Do`, `sh`, inline images only outside text objects; -/
  graphics_outside : ∀ n t, toks[n]? = some t → (t.cls = .graphics ∨ t.cls = .q ∨ t.cls = .BT) →
    (toks.take n).countP (opensK .T) = (toks.take n).countP (closesK .T)
  /-- text-positioning and text-showing operators only inside a text object; -/
  glyphs_inside : ∀ n t, toks[n]? = some t → t.cls = .textOnly →
    (toks.take n).countP (closesK .T) < (toks.take n).countP (opensK .T)
  /-- every operator is a PDF operator with the operand count of Annex A; -/
  operators_ok : ∀ t ∈ toks, t.wellFormed = true
  /-- every font, XObject, graphics state, pattern, shading, colour space and property list named is defined. -/
  names_defined : ∀ t ∈ toks, ∀ c name, t.ref = some (c, name) → name ∈ res.get c

private theorem drop_of_getElem? {α} (l : List α) (n : Nat) (x : α) (h : l[n]? = some x) :
    l.drop n = x :: l.drop (n + 1) := by
  obtain ⟨hn, hx⟩ := List.getElem?_eq_some_iff.mp h
  rw [List.drop_eq_getElem_cons hn, hx]

private theorem state_before (res : ResNames) (toks : List Tok) (h : runToks res [] toks = some [])
    (n : Nat) (t : Tok) (ht : toks[n]? = some t) :
    ∃ stMid stNext, runToks res [] (toks.take n) = some stMid ∧ tokStep t.cls stMid = some stNext := by
  obtain ⟨stMid, h1, h2⟩ := runToks_prefix res [] [] toks n h
  rw [drop_of_getElem? toks n t ht] at h2
  obtain ⟨stNext, hs⟩ := runToks_head_step res stMid [] t _ h2
  exact ⟨stMid, stNext, h1, hs⟩

/-- **Soundness of the checker**: an accepted stream satisfies every content-stream clause. -/
theorem check_sound (res : ResNames) (toks : List Tok) (h : checkStream res toks = true) :
    StreamWellFormed res toks := by
  have hrun : runToks res [] toks = some [] := by simpa [checkStream] using h
  refine ⟨?_, ?_, ?_, ?_, ?_, ?_, ?_⟩
  · intro k n
    obtain ⟨stMid, h1, _⟩ := runToks_prefix res [] [] toks n hrun
    have := runToks_count res k [] stMid _ h1
    simp at this; omega
  · intro k
    have := runToks_count res k [] [] toks hrun
    simp at this; omega
  · intro n
    obtain ⟨stMid, h1, _⟩ := runToks_prefix res [] [] toks n hrun
    have hc := runToks_count res .T [] stMid _ h1
    have hle := runToks_T_le_one res [] stMid _ h1 (by simp)
    simp at hc; omega
  · intro n t ht hcls
    obtain ⟨stMid, stNext, h1, hs⟩ := state_before res toks hrun n t ht
    have hc := runToks_count res .T [] stMid _ h1
    have := (tokStep_text_rule t.cls stMid stNext hs).1 hcls
    simp at hc; omega
  · intro n t ht hcls
    obtain ⟨stMid, stNext, h1, hs⟩ := state_before res toks hrun n t ht
    have hc := runToks_count res .T [] stMid _ h1
    have := (tokStep_text_rule t.cls stMid stNext hs).2.1 hcls
    simp at hc; omega
  · intro t ht
    have := runToks_all_ok res [] [] toks hrun t ht
    simp [tokOk] at this; exact this.1
  · intro t ht c name href
    have := runToks_all_ok res [] [] toks hrun t ht
    simp [tokOk, href] at this
    exact this.2

/-- The hypotheses of `check_sound` are satisfiable on a stream with all three bracket kinds and three names. -/
example : checkStream { extGState := ["a0.5"], xObject := ["x0"], font := ["F"] }
    [mkTok "q" 0 none, mkTok "BDC" 2 none, mkTok "gs" 1 (some "a0.5"), mkTok "BT" 0 none,
     mkTok "Tf" 2 (some "F"), mkTok "TJ" 1 none, mkTok "ET" 0 none, mkTok "EMC" 0 none,
     mkTok "Do" 1 (some "x0"), mkTok "Q" 0 none] = true := by decide +kernel

/-- … and the checker rejects the stream of the repaired defect F16 (an `EMC` missing on the page stream). -/
example : checkStream {} [mkTok "q" 0 none, mkTok "BDC" 2 none, mkTok "Q" 0 none] = false := by decide +kernel

/-! ## The stream machine only emits balanced operator sequences -/

/-- **balanced**: for every call sequence that is well bracketed at the API level (`with stacked(stream)`,
`begin_text … end_text`, `begin_marked_content … end_marked_content` properly nested; no save / restore, transform,
path or XObject call inside a text object; glyph calls only inside one), on a stream with or without `_mark`,
starting from a fresh `Stream` and any resource dictionary:
* no call raises — in particular `assert self._ctm_stack` in `pop_state` is unreachable and `_ctm_stack.pop()` never
  pops an empty list;
* the emitted operators, peepholes included (`pop_state` deleting a trailing `q`, `begin_text` deleting a trailing
  `ET`), are accepted by the bracket checker with nothing left open;
* `_ctm_stack` is back to its base entry. -/
theorem balanced (mark : Bool) (r : Res) (calls : List Call) (h : WB calls) :
    ∃ s' r', runS r { mark := mark } calls = .ok (s', r') ∧ cfg s'.rops = some [] ∧ s'.ctm.length = 1 := by
  have hinit : Inv ({ mark := mark } : SState) [] := ⟨by simp [cfg, vis], by simp⟩
  obtain ⟨s', r', hrun, hinv, _⟩ := runS_inv calls r _ [] [] hinit h
  refine ⟨s', r', hrun, ?_, ?_⟩
  · have := hinv.cfg_eq
    simpa [vis] using this
  · simpa using hinv.ctm_len

/-- The same from any reachable state: a well-bracketed block of calls (`apiRun st calls = some st`) leaves the open
brackets of the stream exactly as they were and cannot raise (this is what `with stacked(stream): …` relies on). -/
theorem balanced_block (r : Res) (s : SState) (st : List Fr) (calls : List Call) (hi : Inv s st)
    (h : apiRun st calls = some st) :
    ∃ s' r', runS r s calls = .ok (s', r') ∧ Inv s' st := by
  obtain ⟨s', r', hrun, hinv, _⟩ := runS_inv calls r s st st hi h
  exact ⟨s', r', hrun, hinv⟩

/-- The model's operators as checker tokens (no resource reference, operand counts are pydyf's). -/
def opTok (o : Op) : Tok := { cls := o.tc }

private theorem cfg_eq_runToks (rops : List Op) : cfg rops = runToks {} [] (rops.reverse.map opTok) := by
  induction rops with
  | nil => rfl
  | cons o r ih =>
    rw [cfg_cons, List.reverse_cons, List.map_append, runToks_append, ← ih]
    cases cfg r with
    | none => rfl
    | some st =>
      simp only [Option.bind_some, List.map_cons, List.map_nil, runToks, opStep, opTok, tokOk]
      cases tokStep o.tc st <;> simp

/-- Consequence through `check_sound`: the operators emitted for a well-bracketed call sequence satisfy the declarative
bracket clauses (every prefix closes at most what it opened, all closed at the end, text objects flat, graphics
operators outside and glyph operators inside text objects). -/
theorem balanced_wellformed (mark : Bool) (r : Res) (calls : List Call) (h : WB calls) :
    ∃ s' r', runS r { mark := mark } calls = .ok (s', r') ∧
      StreamWellFormed {} (s'.rops.reverse.map opTok) := by
  obtain ⟨s', r', hrun, hcfg, _⟩ := balanced mark r calls h
  refine ⟨s', r', hrun, check_sound _ _ ?_⟩
  have := cfg_eq_runToks s'.rops
  rw [hcfg] at this
  unfold checkStream
  rw [← this]
  rfl

/-- Non-vacuity: a well-bracketed sequence that exercises both peepholes and the caches
(`q` dropped by an empty `stacked`, two text runs merged, a colour set twice). -/
example : WB [.push, .push, .pop, .beginMarked "p" true none,
    .setColor ⟨"srgb", .flt 1, .flt 0, .flt 0, .flt (1/2), .flt 1, .flt 0, .flt 0⟩ false, .beginText,
    .raw .showText [] false "<0041>", .endText,
    .setColor ⟨"srgb", .flt 1, .flt 0, .flt 0, .flt (1/2), .flt 1, .flt 0, .flt 0⟩ false, .beginText,
    .raw .showText [] false "<0042>", .endText, .endMarked, .pop] := by
  unfold WB; decide +kernel

/-! ## The caches are sound -/

/-- **cache_sound** (full strength for everything WeasyPrint's drawing code calls through `Stream`'s own setters,
since the repair of finding `alpha-state-stale-cache`): for every call sequence (well bracketed or not) — `set_color`,
`set_alpha`, `set_font_size`, `push_state` / `pop_state`, text objects, marked content, transforms, XObjects, shadings,
blend modes, **`set_alpha_state` (soft masks of mask-border, gradients and SVG masks: `Call.softMaskState`)**, and every
pass-through pydyf method — whose colours convert consistently (`Consistent`: tinycss2's conversion is a function of the
colour), if the real emission (setters skipped on a cache hit, `pop_state` dropping an empty `q`, `begin_text` merging
into the previous text object and restoring `_old_font`) succeeds, then the cache-free reference emission succeeds with
the same resource dictionary, and the reference graphics-state interpreter sees **the same painting operators under the
same fill colour, stroke colour, fill alpha, stroke alpha and font** in both streams: every fill, stroke, glyph run,
XObject and shading is executed under exactly what the caller last requested.

`Call.cacheSafe` only excludes the three *raw* pydyf-level setters that bypass the caches by construction
(`set_color_space`, `set_color_special`, a bare `set_state` with a `ca` / `CA` dictionary — the latter has no caller
left outside `set_alpha_state`; the first two are scoped by `cache_sound_scoped` in Props/C16Cache.lean);
`Witness.bare_set_state_still_stale` shows the hypothesis cannot be dropped for them. -/
theorem cache_sound (mark : Bool) (r : Res) (calls : List Call)
    (hsafe : ∀ c ∈ calls, c.cacheSafe = true) (hcons : Consistent (callColours calls))
    (sc' : SState) (r' : Res) (hrun : runS r { mark := mark } calls = .ok (sc', r')) :
    ∃ sn', runNaive r { mark := mark } calls = .ok (sn', r') ∧ paints sc'.rops = paints sn'.rops ∧
      G sc'.rops = G sn'.rops := by
  obtain ⟨sn', hn, hsim⟩ := run_sim (callColours calls) hcons calls hsafe
    (fun col st h => mem_callColours calls col st h) (Sim.init _ r mark) sc' r' hrun
  exact ⟨sn', hn, hsim.p, hsim.g⟩

/-- Non-vacuity: the hypotheses hold for a sequence with cache hits on colour, alpha and font, an empty `stacked`,
a soft mask (`set_alpha_state`) between two texts of the same translucent colour, and two merged text runs. -/
example : (∀ c ∈ ([.push, .push, .pop,
      .setColor ⟨"srgb", .flt 1, .flt 0, .flt 0, .flt (1/2), .flt 1, .flt 0, .flt 0⟩ false, .beginText,
      .setFont "F" (.int 12), .raw .showText [] false "<0041>", .endText, .softMaskState,
      .setColor ⟨"srgb", .flt 1, .flt 0, .flt 0, .flt (1/2), .flt 1, .flt 0, .flt 0⟩ false, .beginText,
      .setFont "F" (.int 12), .raw .showText [] false "<0042>", .endText, .pop] : List Call), c.cacheSafe = true) ∧
    Consistent (callColours [.setColor ⟨"srgb", .flt 1, .flt 0, .flt 0, .flt (1/2), .flt 1, .flt 0, .flt 0⟩ false,
      .setColor ⟨"srgb", .flt 1, .flt 0, .flt 0, .flt (1/2), .flt 1, .flt 0, .flt 0⟩ false]) := by
  constructor
  · intro c hc
    simp only [List.mem_cons, List.mem_nil_iff, or_false] at hc
    rcases hc with rfl | rfl | rfl | rfl | rfl | rfl | rfl | rfl | rfl | rfl | rfl | rfl | rfl | rfl | rfl <;> rfl
  · intro c c' hc hc' _
    simp [callColours] at hc hc'
    subst hc hc'
    exact ⟨rfl, rfl⟩

/-! ## Resources -/

/-- **resources_defined**: after any sequence of document-level calls (API calls on any stream, `add_group`,
`add_pattern`, `add_shading`, `add_image`, `set_alpha_state`, `clone`, new page streams) starting from the state
`generate_pdf` sets up, in which callers only pass names they obtained from the same stream's registration calls
(`ScopedRun`), every `gs`, `Do`, `sh` and pattern `scn` operator of every stream — page streams, groups, patterns,
soft masks — names a key of the resource dictionary *of the stream that emits it* (the dictionary `_use_references`
later turns into `/Resources`).  `set_state`, `set_alpha`, `set_blend_mode` register what they emit themselves. -/
theorem resources_defined (mark : Bool) (pages : Nat) (calls : List WCall) (w' : World)
    (hs : ScopedRun (World.init mark pages) calls) (hrun : (World.init mark pages).run calls = .ok w') :
    ∀ (i : Nat) (s : SState), w'.streams[i]? = some s →
      ∃ r, w'.res[s.res]? = some r ∧ ∀ o ∈ s.rops, opRefOK r o := by
  have hok := World.run_ok calls _ w' (init_ok mark pages) hs hrun
  intro i s hsi
  have hlt := hok.resIdx i s hsi
  refine ⟨w'.res[s.res], by simp, ?_⟩
  exact hok.good i s _ hsi (by simp)

/-- **keys_fresh**: in every resource dictionary of the document the keys are pairwise distinct, the `s{n}` / `x{n}`
keys sit at position `n` (so `f's{len(d)}'` / `f'x{len(d)}'` can never collide with an existing key: entries are
never removed), under the same hypotheses. -/
theorem keys_fresh (mark : Bool) (pages : Nat) (calls : List WCall) (w' : World)
    (hs : ScopedRun (World.init mark pages) calls) (hrun : (World.init mark pages).run calls = .ok w') :
    ∀ (j : Nat) (r : Res), w'.res[j]? = some r →
      (r.extG.map (·.1)).Nodup ∧ (r.xobj.map (·.1)).Nodup ∧
      r.hasG (.s r.extG.length) = false ∧ r.hasX (.x r.xobj.length) = false := by
  have hok := World.run_ok calls _ w' (init_ok mark pages) hs hrun
  intro j r hr
  have wf := hok.wf j r hr
  exact ⟨wf.gNodup, wf.xNodup, fresh_s r wf, fresh_x r wf⟩

/-- What the hypothesis `ScopedRun` asks of `draw_x_object(group.id)` is provided by `add_group` itself: the group is
registered, under its own id, in the dictionary of the stream it was created from. -/
theorem group_registered (w w' : World) (h : Nat) (hstep : w.addGroup h = .ok w') :
    ∃ s r g k, w'.streams[h]? = some s ∧ w'.res[s.res]? = some r ∧ w'.streams[w.streams.length]? = some g ∧
      g.id = some (XKey.render k) ∧ r.hasX k = true ∧ g.rops = [] ∧ g.res = w.res.length := by
  unfold World.addGroup at hstep
  split at hstep
  · simp at hstep
  · rename_i s hs
    split at hstep
    · simp at hstep
    · rename_i r hr
      simp at hstep; subst hstep
      have hhlt : h < w.streams.length := (List.getElem?_eq_some_iff.mp hs).1
      have hjlt : s.res < w.res.length := (List.getElem?_eq_some_iff.mp hr).1
      refine ⟨s, { r with xobj := r.xobj ++ [(XKey.x r.xobj.length, some w.streams.length)] },
        freshStream s w.res.length (some (XKey.x r.xobj.length).render),
        XKey.x r.xobj.length, ?_, ?_, ?_, rfl, ?_, rfl, rfl⟩
      · simp [List.getElem?_append_left hhlt, hs]
      · simp [List.getElem?_append_left, hjlt]
      · simp
      · rw [hasX_iff]; simp

/-- Non-vacuity of `ScopedRun`: a page stream draws an opacity group, sets an alpha and a soft mask. -/
example : ScopedRun (World.init true 1)
    [.on 0 .push, .addGroup 0, .on 1 (.setAlpha (.flt (1/2)) false none), .on 0 (.drawX (.x 0)),
     .setAlphaState 0, .on 0 .pop] := by
  simp only [ScopedRun, WCall.scoped, Call.scoped]
  refine ⟨by intros; trivial, ?_⟩
  intro w1 h1; simp [World.step, World.onCall, World.init, stepS, SState.emit] at h1; subst h1
  refine ⟨trivial, ?_⟩
  intro w2 h2; simp [World.step, World.addGroup, freshStream] at h2; subst h2
  refine ⟨by intros; trivial, ?_⟩
  intro w3 h3
  simp [World.step, World.onCall, stepS, setAlpha, fillFlag, alphaStrokePart, setAlphaFill, SState.emit,
    Res.ensureG, Res.hasG, Res.addG] at h3
  subst h3
  refine ⟨?_, ?_⟩
  · intro s r hs hr
    simp at hs; subst hs
    simp at hr; subst hr
    simp [Res.hasX]
  · intro w4 h4
    simp [World.step, World.onCall, stepS, SState.emit] at h4
    subst h4
    refine ⟨trivial, ?_⟩
    intro w5 _
    exact ⟨by intros; trivial, fun _ _ => trivial⟩

/-! ## The skeleton of draw_stacking_context -/

/-- **skeleton_stack_neutral**: `draw_stacking_context(stream, ctx)` — outer `stacked`, marked content, viewport clip,
clip rectangle, opacity group switch, regular transform or the singular-transform early return (as repaired: the
marked-content sequence is closed on the original stream), point 2, inner `stacked` with the overflow clip, points 3–9
with arbitrarily nested stacking contexts, outline, drawing the group, `end_marked_content` — called on a stream with
API-level bracket stack `st` outside a text object, for every tree whose delegated drawing consists of calls on the
current stream that leave it as they found it (`ctxOK`):
* does not raise;
* leaves that stream with exactly the stack `st` (so its emitted operators stay well bracketed);
* does not touch any other existing stream;
* every stream created meanwhile — one group stream per context with opacity < 1, at any depth — ends balanced.
Holds with and without `_mark`, for every combination of opacity, transform kind and clips. -/
theorem skeleton_stack_neutral (c : Ctx) (hc : ctxOK c) (w : World) (orig : Nat) (st : List Fr)
    (hs : StkAt w orig st) (hnt : inText st = false) :
    ∃ w', drawCtx w orig c = .ok w' ∧ Eff w w' orig st :=
  ctx_stage c hc orig st hnt w hs

/-- **skeleton_balanced**: drawing any such stacking-context tree on a page stream of the state `generate_pdf` sets up
leaves *every* stream of the document — all page streams and every group stream — balanced in `q/Q`, `BT/ET`,
`BDC|BMC/EMC`, with `_ctm_stack` at its base.  (Full statement: no exception for opacity < 1 with a singular transform,
the case of the repaired defect F16.  Delegated drawing that creates its own streams — images, gradients, patterns — is
outside this theorem: it is covered by `balanced` per stream once its calls are known, and by the recorded-call
correspondence on generated documents.) -/
theorem skeleton_balanced (mark : Bool) (pages : Nat) (h : Nat) (hh : h < pages) (c : Ctx) (hc : ctxOK c) :
    ∃ w', drawCtx (World.init mark pages) h c = .ok w' ∧
      ∀ (i : Nat) (s : SState), w'.streams[i]? = some s → cfg s.rops = some [] ∧ s.ctm.length = 1 := by
  have hinit : ∀ i, i < pages → StkAt (World.init mark pages) i [] := by
    intro i hi
    refine ⟨{ mark := mark }, by simp [World.init, List.getElem?_replicate, hi], ⟨by simp [cfg, vis], by simp⟩, ?_⟩
    simp [World.init]
  obtain ⟨w', hrun, eff⟩ := skeleton_stack_neutral c hc _ h [] (hinit h hh) (by simp [inText])
  refine ⟨w', hrun, ?_⟩
  intro i s hsi
  have hfin : StkAt w' i [] := by
    by_cases hi : i < pages
    · by_cases hih : i = h
      · subst hih; exact eff.target
      · exact (hinit i hi).mono (eff.frame i (by simpa [World.init] using hi) hih) eff.rlen
    · have hlt : i < w'.streams.length := (List.getElem?_eq_some_iff.mp hsi).1
      exact eff.fresh i (by simp [World.init]; omega) hlt
  obtain ⟨s', hs', hinv, _⟩ := hfin
  rw [hsi] at hs'
  cases hs'
  exact ⟨by simpa [vis] using hinv.cfg_eq, by simpa using hinv.ctm_len⟩

/-- Non-vacuity: a context with opacity < 1 and a singular transform (F16) nested, inside marked content of point 7,
in a context with opacity < 1, a regular transform and both clips. -/
example : ctxOK (.mk ⟨"div", true, some "0_0_1_1_re", .flt (1/2), .regular (.int 1) (.int 0) (.int 0) (.int 1) (.int 0) (.int 0), true⟩
    [.onCur (.rawTok .path "0_0_9_9_re")]
    [.onCur .push, .onCur (.rawTok .paint "f"), .onCur .pop]
    []
    [.onCur (.beginMarked "p" true none),
     .ctx (.mk ⟨"span", false, none, .flt (1/4), .singular, false⟩ [] [] [] [] []),
     .onCur .beginText, .onCur (.rawTok .textShow "[<0041>]_TJ"), .onCur .endText, .onCur .endMarked]
    []) := by
  simp only [ctxOK, itemsOK, itemOK, Neutral]
  repeat' (first | (apply And.intro) | trivial)
  all_goals
    intro st hst
    simp [itemsApi, apiStep, Call.graphicsOnly, Call.textOnly, hst, inText_cons_q, inText_cons_M, inText_cons_T]

/-! ## Page tree -/

/-- **page_tree**: `generate_pdf` adds exactly one page object per `document.pages` entry, in order, each computed
from that page alone. -/
theorem page_tree (zoom : Rat) (pages : List PageGeom) :
    (pageTree zoom pages).length = pages.length ∧
    ∀ i : Nat, (pageTree zoom pages)[i]? = (pages[i]?).map (pdfPage zoom) := by
  rw [pageTree_eq]
  exact ⟨by simp, fun i => by simp⟩

/-- MediaBox = page size × 0.75 × zoom plus bleed; TrimBox = the page box at the origin (the bleed is scaled by `zoom`
like everything else: repaired defect F15). -/
theorem page_boxes (zoom : Rat) (p : PageGeom) :
    (pdfPage zoom p).trimBox = ⟨0, 0, zoom * (3 / 4) * p.width, zoom * (3 / 4) * p.height⟩ ∧
    (pdfPage zoom p).mediaBox.x1 - (pdfPage zoom p).mediaBox.x0
      = zoom * (3 / 4) * (p.width + p.bleedLeft + p.bleedRight) ∧
    (pdfPage zoom p).mediaBox.y1 - (pdfPage zoom p).mediaBox.y0
      = zoom * (3 / 4) * (p.height + p.bleedTop + p.bleedBottom) ∧
    (pdfPage zoom p).mediaBox.x0 = -(zoom * (3 / 4) * p.bleedLeft) ∧
    (pdfPage zoom p).mediaBox.y0 = -(zoom * (3 / 4) * p.bleedTop) := by
  simp only [pdfPage]
  refine ⟨?_, ?_, ?_, ?_, ?_⟩
  · congr 1 <;> grind
  all_goals grind

/-- MediaBox ⊇ BleedBox ⊇ TrimBox for non-negative bleed and zoom. -/
theorem page_boxes_nested (zoom : Rat) (p : PageGeom) (hz : 0 ≤ zoom)
    (h1 : 0 ≤ p.bleedLeft) (h2 : 0 ≤ p.bleedTop) (h3 : 0 ≤ p.bleedRight) (h4 : 0 ≤ p.bleedBottom) :
    (pdfPage zoom p).mediaBox.x0 ≤ (pdfPage zoom p).bleedBox.x0 ∧
    (pdfPage zoom p).bleedBox.x0 ≤ (pdfPage zoom p).trimBox.x0 ∧
    (pdfPage zoom p).mediaBox.y0 ≤ (pdfPage zoom p).bleedBox.y0 ∧
    (pdfPage zoom p).bleedBox.y0 ≤ (pdfPage zoom p).trimBox.y0 ∧
    (pdfPage zoom p).trimBox.x1 ≤ (pdfPage zoom p).bleedBox.x1 ∧
    (pdfPage zoom p).bleedBox.x1 ≤ (pdfPage zoom p).mediaBox.x1 ∧
    (pdfPage zoom p).trimBox.y1 ≤ (pdfPage zoom p).bleedBox.y1 ∧
    (pdfPage zoom p).bleedBox.y1 ≤ (pdfPage zoom p).mediaBox.y1 := by
  have hs : 0 ≤ zoom * (3 / 4) := Rat.mul_nonneg hz (by decide +kernel)
  have b1 := Rat.mul_nonneg h1 hs
  have b2 := Rat.mul_nonneg h2 hs
  have b3 := Rat.mul_nonneg h3 hs
  have b4 := Rat.mul_nonneg h4 hs
  have hcap : 0 ≤ 10 * zoom := Rat.mul_nonneg (by decide +kernel) hz
  have m1 := minR_le_right (10 * zoom) (p.bleedLeft * (zoom * (3 / 4)))
  have m2 := minR_le_right (10 * zoom) (p.bleedTop * (zoom * (3 / 4)))
  have m3 := minR_le_right (10 * zoom) (p.bleedRight * (zoom * (3 / 4)))
  have m4 := minR_le_right (10 * zoom) (p.bleedBottom * (zoom * (3 / 4)))
  have n1 := minR_nonneg (10 * zoom) _ hcap b1
  have n2 := minR_nonneg (10 * zoom) _ hcap b2
  have n3 := minR_nonneg (10 * zoom) _ hcap b3
  have n4 := minR_nonneg (10 * zoom) _ hcap b4
  simp only [pdfPage]
  refine ⟨?_, ?_, ?_, ?_, ?_, ?_, ?_, ?_⟩ <;> grind

example : (pdfPage 2 ⟨100, 100, 10, 10, 10, 10⟩).trimBox = ⟨0, 0, 150, 150⟩ := by
  rw [(page_boxes _ _).1]; congr 1 <;> decide +kernel

/-- A rectangle scaled about the origin. -/
def Box4.scale (z : Rat) (b : Box4) : Box4 := ⟨z * b.x0, z * b.y0, z * b.x1, z * b.y1⟩

private theorem minR_scale (z a b : Rat) (hz : 0 ≤ z) : minR (z * a) (z * b) = z * minR a b := by
  unfold minR
  by_cases h : a ≤ b
  · have : z * a ≤ z * b := Rat.mul_le_mul_of_nonneg_left h hz
    simp [h, this]
  · by_cases hz0 : z = 0
    · subst hz0; simp
    · have hzpos : 0 < z := by
        rcases Rat.le_iff_lt_or_eq.mp hz with h' | h'
        · exact h'
        · exact absurd h'.symm hz0
      have hlt : b < a := Rat.not_le.mp h
      have : ¬ z * a ≤ z * b := by
        intro hle
        have := Rat.mul_lt_mul_of_pos_left hlt hzpos
        exact absurd hle (Rat.not_le.mpr this)
      simp [h, this]

/-- **page_boxes_zoom** (full strength since the repair that scales the 10pt BleedBox cap — and, earlier, the bleed —
with `zoom`): for every page geometry and every `zoom ≥ 0`, *all three* page boxes of the zoomed document are the page
boxes of the unzoomed document scaled by `zoom`: MediaBox = (page size + bleed) × 0.75 × zoom, and the same for
TrimBox and BleedBox.  (Before the repairs only the MediaBox was.) -/
theorem page_boxes_zoom (zoom : Rat) (hz : 0 ≤ zoom) (p : PageGeom) :
    (pdfPage zoom p).mediaBox = Box4.scale zoom (pdfPage 1 p).mediaBox ∧
    (pdfPage zoom p).trimBox = Box4.scale zoom (pdfPage 1 p).trimBox ∧
    (pdfPage zoom p).bleedBox = Box4.scale zoom (pdfPage 1 p).bleedBox := by
  have e : ∀ b : Rat, b * (zoom * (3 / 4)) = zoom * (b * (1 * (3 / 4))) := by intro b; grind
  have c : (10 : Rat) * zoom = zoom * (10 * 1) := by grind
  have m := fun b : Rat => minR_scale zoom (10 * 1) (b * (1 * (3 / 4))) hz
  simp only [pdfPage, Box4.scale]
  refine ⟨?_, ?_, ?_⟩
  · congr 1 <;> grind
  · congr 1 <;> grind
  · rw [e p.bleedLeft, e p.bleedTop, e p.bleedRight, e p.bleedBottom, c, m, m, m, m]
    congr 1 <;> grind

/-- Non-vacuity, on the input of the repaired defect: `@page{size:100px;bleed:20px}` at zoom 2 — the BleedBox is
20pt (not 10pt) from the TrimBox. -/
example : (pdfPage 2 ⟨100, 100, 20, 20, 20, 20⟩).bleedBox = ⟨-20, -20, 170, 170⟩ ∧
    (pdfPage 1 ⟨100, 100, 20, 20, 20, 20⟩).bleedBox = ⟨-10, -10, 85, 85⟩ := by
  constructor <;> (simp only [pdfPage, minR]; congr 1 <;> decide +kernel)

end Wp.C16
