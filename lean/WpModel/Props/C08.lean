/-
C08 — Box generation: right boxes, anonymous fix-ups, text preserved.
Property theorems only; helper lemmas live in `WpModel/Lemmas/{Grid,Whitespace,Boxes}.lean`.
Statements are over the executable models of `Model/{TableGrid,Whitespace,AnonBoxes,BoxGen}.lean`,
whose class tables (`Gen/BoxKinds.lean`) are regenerated from /repo on every run.
-/
import WpModel.Model.BoxGen
import WpModel.Lemmas.Grid
import WpModel.Lemmas.Whitespace
import WpModel.Lemmas.Boxes
import WpModel.Lemmas.Tables
import WpModel.Lemmas.TableKinds
import WpModel.Lemmas.Threading
import WpModel.Lemmas.SpaceFlags
import WpModel.Lemmas.RowGroups
import WpModel.Lemmas.TableRules

namespace Wp.C08
open Wp Wp.Bx Wp.TableGrid

/-! ## display → box class -/

/-- The table read from the source text and the table of the imported module agree. -/
theorem display_table_ast_eq_graph : Gen.displayTableAst = Gen.displayTableGraph := by decide

/-- `computed_values.display` as modelled = the complete graph of the real function over every value
of the validator × float × position × root. -/
theorem blockify_graph : ∀ e ∈ Gen.blockifyGraph, blockify e.1 e.2.1 e.2.2.1 e.2.2.2.1 = e.2.2.2.2 := by
  decide +kernel

theorem float_graph : ∀ e ∈ Gen.floatGraph, computeFloat e.1 e.2.1 = e.2.2 := by decide +kernel

/-- `BOX_TYPE_FROM_DISPLAY` is total on what `element_to_box` looks up: every display value the
validator accepts, after the computation of `display` for any float / position / root, is `none`
(no box) or has a box class. -/
theorem display_to_box_total :
    ∀ v ∈ Gen.displayValues, ∀ f ∈ ["none", "left", "right", "footnote"],
    ∀ p ∈ ["static", "relative", "absolute", "fixed", "running"], ∀ r : Bool,
      blockify v f p r = ["none"] ∨ (boxTypeFromDisplay (blockify v f p r)).isSome = true := by
  decide +kernel


/-- What css-display-3 §2 prescribes for a computed `display`: the outer type decides block-level /
inline-level, the inner type the kind of container; `table-*` values their own classes.
(`InlineTableBox` is not an `InlineLevelBox` in boxes.py: it always ends up inside an inline-block
wrapper, see `wrapTable`.) -/
def rightBox (d : List String) (k : BoxKind) : Bool :=
  match d with
  | [outer, inner] =>
    (if outer == "block" then Gen.isSub k .BlockLevelBox && !Gen.isSub k .InlineLevelBox
     else outer == "inline" && (Gen.isSub k .InlineLevelBox || k == .InlineTableBox) &&
          (k == .InlineTableBox || !Gen.isSub k .BlockLevelBox)) &&
    (if inner == "flow" then
       (if outer == "block" then Gen.isSub k .BlockContainerBox else k == .InlineBox)
     else if inner == "flow-root" then Gen.isSub k .BlockContainerBox
     else if inner == "table" then Gen.isSub k .TableBox &&
       (Gen.isSub k .InlineTableBox == (outer == "inline"))
     else if inner == "flex" then Gen.isSub k .FlexContainerBox
     else if inner == "grid" then Gen.isSub k .GridContainerBox
     else false)
  | ["table-row"] => k == .TableRowBox
  | ["table-row-group"] => k == .TableRowGroupBox
  | ["table-header-group"] => k == .TableRowGroupBox
  | ["table-footer-group"] => k == .TableRowGroupBox
  | ["table-column"] => k == .TableColumnBox
  | ["table-column-group"] => k == .TableColumnGroupBox
  | ["table-cell"] => k == .TableCellBox
  | ["table-caption"] => k == .TableCaptionBox
  | _ => false

/-- Every entry of `BOX_TYPE_FROM_DISPLAY` maps a display to a box class of the prescribed nature,
and every display the validator can produce (other than `none`) has an entry that does. -/
theorem display_to_box_right :
    (∀ e ∈ Gen.displayTableAst, rightBox e.1 e.2 = true) ∧
    (∀ v ∈ Gen.displayValues, v = ["none"] ∨
      ∃ k, boxTypeFromDisplay v = some k ∧ rightBox (v.take 2) k = true) := by
  decide +kernel

/-- The class attributes the anonymous-table rules read are the definitions of CSS 2.1 §17.2.1:
proper table child, internal table box or caption, tabular container, proper parents; and the class
lattice keeps block-level and inline-level apart, text and inline boxes inline-level, line boxes
neither. -/
theorem table_class_attributes :
    (∀ k, Gen.properTableChild k = [BoxKind.TableRowGroupBox, .TableRowBox, .TableColumnGroupBox,
        .TableColumnBox, .TableCaptionBox].contains k) ∧
    (∀ k, Gen.internalTableOrCaption k = [BoxKind.TableRowGroupBox, .TableRowBox, .TableColumnGroupBox,
        .TableColumnBox, .TableCellBox, .TableCaptionBox].contains k) ∧
    (∀ k, Gen.tabularContainer k = [BoxKind.TableBox, .InlineTableBox, .TableRowGroupBox, .TableRowBox].contains k) ∧
    Gen.properParents .TableRowGroupBox = [.TableBox, .InlineTableBox] ∧
    Gen.properParents .TableRowBox = [.TableBox, .InlineTableBox, .TableRowGroupBox] ∧
    Gen.properParents .TableColumnGroupBox = [.TableBox, .InlineTableBox] ∧
    Gen.properParents .TableColumnBox = [.TableBox, .InlineTableBox, .TableColumnGroupBox] ∧
    Gen.properParents .TableCaptionBox = [.TableBox, .InlineTableBox] ∧
    (∀ k, !(Gen.isSub k .BlockLevelBox && Gen.isSub k .InlineLevelBox) = true) ∧
    (∀ k, Gen.isSub k .InlineLevelBox = [BoxKind.InlineBox, .TextBox, .InlineBlockBox, .InlineReplacedBox,
        .InlineFlexBox, .InlineGridBox].contains k) ∧
    (∀ k, Gen.isSub k .BlockLevelBox = [BoxKind.BlockBox, .BlockReplacedBox, .TableBox, .InlineTableBox,
        .TableCaptionBox, .FlexBox, .GridBox].contains k) ∧
    (∀ k, Gen.isSub k .BlockContainerBox = [BoxKind.BlockBox, .InlineBlockBox, .TableCellBox,
        .TableCaptionBox].contains k) ∧
    (∀ k, Gen.isSub k .ParentBox = ![BoxKind.TextBox, .BlockReplacedBox, .InlineReplacedBox].contains k) := by
  refine ⟨?_, ?_, ?_, rfl, rfl, rfl, rfl, rfl, ?_, ?_, ?_, ?_, ?_⟩ <;> intro k <;> cases k <;> rfl

/-- Do two styles agree on the entry `key` (the kind-tree model keeps `float` as two flags, `position` as two,
`display` as the header / footer / other distinction)? -/
def sameEntry (key : String) (a b : Style) : Bool :=
  if key == "float" then a.flt == b.flt && a.foot == b.foot
  else if key == "position" then a.abs == b.abs && a.run == b.run
  else if key == "display" then a.disp == b.disp
  else if key == "white_space" then a.ws == b.ws
  else if key == "text_transform" then a.tt == b.tt
  else if key == "hyphens" then a.hyph == b.hyph
  else if key == "caption_side" then a.capBottom == b.capBottom
  else true

/-- `AnonymousStyle` as modelled (`anonStyle`) = the real class, entry by entry: the graph of
`AnonymousStyle.__missing__` regenerated on every run says which entries an anonymous box takes from its
parent (`white-space`, `text-transform`, `hyphens`, `caption-side`: inherited properties) and which get the
initial value (`float`, `position`, `display`); the model does exactly that, for every parent style; and the
seven entries are all the entries of a `Style` but the `anon` mark itself. -/
theorem anonymous_style_inherits :
    Gen.anonInherits.map (·.1) = ["float", "position", "display", "white_space", "text_transform", "hyphens",
      "caption_side"] ∧
    ∀ e ∈ Gen.anonInherits, ∀ p : Style,
      sameEntry e.1 (anonStyle p) (if e.2 then p else {}) = true ∧ (anonStyle p).anon = true := by
  refine ⟨by decide, ?_⟩
  intro e he p
  simp only [Gen.anonInherits, List.mem_cons, List.mem_nil_iff, or_false] at he
  rcases he with rfl | rfl | rfl | rfl | rfl | rfl | rfl
  · exact ⟨rfl, rfl⟩
  · exact ⟨rfl, rfl⟩
  · exact ⟨rfl, rfl⟩
  · refine ⟨?_, rfl⟩
    show ((anonStyle p).ws == p.ws) = true
    unfold anonStyle; cases p.ws <;> rfl
  · refine ⟨?_, rfl⟩
    show ((anonStyle p).tt == p.tt) = true
    unfold anonStyle; cases p.tt <;> rfl
  · refine ⟨?_, rfl⟩
    show ((anonStyle p).hyph == p.hyph) = true
    unfold anonStyle; cases p.hyph <;> rfl
  · refine ⟨?_, rfl⟩
    show ((anonStyle p).capBottom == p.capBottom) = true
    unfold anonStyle; cases p.capBottom <;> rfl

example : sameEntry "white_space" { ws := .pre } {} = false ∧ sameEntry "float" { flt := true } {} = false ∧
    (anonStyle { ws := .pre, flt := true, capBottom := true }).ws = .pre ∧
    (anonStyle { ws := .pre, flt := true, capBottom := true }).flt = false := by decide

/-- CSS 2.1 §9.7 / css-display-3 §2.7: the display a floated, absolutely positioned or root element
must compute to. -/
def blockified : List String → List String
  | ["inline", inner] => ["block", inner]
  | ["inline", inner, "list-item"] => ["block", inner, "list-item"]
  | [single] => if single.startsWith "table-" then ["block", "flow"] else [single]
  | v => v

def outOfFlowOrRoot (f p : String) (r : Bool) : Bool :=
  p == "absolute" || p == "fixed" || f != "none" || r

/-- An element that is neither floated, absolutely positioned nor the root keeps its display
(any value, not only the validator's). -/
theorem blockify_in_flow (v : List String) (f p : String) (h : outOfFlowOrRoot f p false = false) :
    blockify v f p false = v := by
  simp only [outOfFlowOrRoot, Bool.or_false, Bool.or_eq_false_iff] at h
  obtain ⟨⟨h1, h2⟩, h3⟩ := h
  simp [blockify, h1, h2, h3]

/-- The three values whose blockification the code gets wrong (known finding
`blockify-inline-table-flex-grid`, see `Witness.C08.blockify_inline_flex`). -/
def blockifyDefect (v : List String) : Bool :=
  v.take 2 == ["inline", "table"] || v.take 2 == ["inline", "flex"] || v.take 2 == ["inline", "grid"]

/- Full statement (false of the current code, see the witness):
   ∀ v ∈ Gen.displayValues, v ≠ ["none"] → outOfFlowOrRoot f p r →
     boxTypeFromDisplay (blockify v f p r) = boxTypeFromDisplay (blockified v) ∧ list-item kept -/
/-- Floats, absolutely positioned elements and the root get the box class of the CSS 2.1 §9.7
table, and keep `list-item`, for every validator value except inline-table / -flex / -grid. -/
theorem blockify_partial :
    ∀ v ∈ Gen.displayValues, blockifyDefect v = false →
    ∀ f ∈ ["none", "left", "right", "footnote"],
    ∀ p ∈ ["static", "relative", "absolute", "fixed", "running"], ∀ r : Bool,
      outOfFlowOrRoot f p r = true →
        boxTypeFromDisplay (blockify v f p r) = boxTypeFromDisplay (blockified v) ∧
        (blockify v f p r).contains "list-item" = v.contains "list-item" := by
  decide +kernel

/-! ## slot assignment of `wrap_table` -/

/-- The slot loop never fails: one set of occupied columns is popped per row (no IndexError). -/
theorem slots_total (rows : List (List CellIn)) (w : Nat) : ∃ r, placeGroup rows w = .ok r :=
  placeRows_ok rows _ w (by simp)

/- Full statement (false of the current code: `Witness.C08.colspan_overlaps_rowspan`):
   placeGroup rows w = .ok (outs, w') → (tagRows 0 outs).Pairwise Disj -/
/-- The rectangles `[grid_x, grid_x+colspan) × [row, row+rowspan')` of the cells of a row group are
pairwise disjoint, for every group in which no cell reaches (through `colspan > 1`) over a column
already taken in its row by a cell spanning from an earlier row. -/
theorem slots_disjoint_partial (rows : List (List CellIn)) (w : Nat) (outs : List (List CellOut)) (w' : Nat)
    (h : placeGroup rows w = .ok (outs, w')) (hno : NoOverhang rows (rows.map (fun _ => [])) w) :
    (tagRows 0 outs).Pairwise Disj := by
  have := placeRows_disjoint rows _ w [] 0 outs w' h hno (complete_nil _ _) (by simp) List.Pairwise.nil
  simpa using this

/-- No overhang is possible when every colspan is 1: any mix of rowspans (clipped, 0) is safe. -/
theorem slots_disjoint_colspan_one (rows : List (List CellIn)) (w : Nat) (outs : List (List CellOut)) (w' : Nat)
    (h : placeGroup rows w = .ok (outs, w')) (hc : ∀ row ∈ rows, ∀ c ∈ row, c.colspan ≤ 1) :
    (tagRows 0 outs).Pairwise Disj :=
  slots_disjoint_partial rows w outs w' h (noOverhang_of_colspan rows _ w hc)

/-- … nor when every rowspan is 1: any mix of colspans is safe. -/
theorem slots_disjoint_rowspan_one (rows : List (List CellIn)) (w : Nat) (outs : List (List CellOut)) (w' : Nat)
    (h : placeGroup rows w = .ok (outs, w')) (hr : ∀ row ∈ rows, ∀ c ∈ row, c.rowspan = 1) :
    (tagRows 0 outs).Pairwise Disj :=
  slots_disjoint_partial rows w outs w' h
    (noOverhang_of_rowspan rows _ w hr (by intro o ho; simp only [List.mem_map] at ho; obtain ⟨_, _, rfl⟩ := ho; rfl))

/-- Unconditionally (any colspans ≥ 1, any rowspans): the origin slot `(row, grid_x)` of a cell lies
in the rectangle of no other cell of the group. -/
theorem origin_slot_exclusive (rows : List (List CellIn)) (w : Nat) (outs : List (List CellOut)) (w' : Nat)
    (h : placeGroup rows w = .ok (outs, w')) (hpos : ∀ row ∈ rows, ∀ c ∈ row, 1 ≤ c.colspan) :
    (tagRows 0 outs).Pairwise OriginFree := by
  have := placeRows_originFree rows _ w [] 0 outs w' h hpos (complete_nil _ _) (by simp) List.Pairwise.nil
  simpa using this

/-- Every cell spans at least its own row and never leaves its row group. -/
theorem rowspan_in_group (rows : List (List CellIn)) (w : Nat) (outs : List (List CellOut)) (w' : Nat)
    (h : placeGroup rows w = .ok (outs, w')) :
    ∀ a ∈ tagRows 0 outs, 1 ≤ a.2.rowspan ∧ a.1 + a.2.rowspan ≤ rows.length := by
  intro a ha
  have := placeRows_rowspan rows _ w 0 outs w' h (by simp) a ha
  omega

/-- The spans written on the cells of row `i`: `colspan` is kept; `rowspan = 0` becomes "all the
rows left in the group", `rowspan = n > 0` becomes `min n (rows left)`. -/
theorem spans_written (rows : List (List CellIn)) (w : Nat) (outs : List (List CellOut)) (w' : Nat)
    (h : placeGroup rows w = .ok (outs, w')) (i : Nat) (row : List CellIn) (hi : rows[i]? = some row) :
    ∃ orow, outs[i]? = some orow ∧
      orow.map (·.rowspan) = row.map (fun c => if c.rowspan = 0 then rows.length - i
                                              else min c.rowspan (rows.length - i)) ∧
      orow.map (·.colspan) = row.map (·.colspan) := by
  obtain ⟨orow, h1, h2, h3⟩ := placeRows_spans rows _ w outs w' h (by simp) i row hi
  refine ⟨orow, h1, ?_, h3⟩
  rw [h2]
  have hlt : i < rows.length := (List.getElem?_eq_some_iff.mp hi).1
  apply List.map_congr_left
  intro c _
  by_cases h0 : c.rowspan = 0
  · rw [effRowspan_zero c _ h0]; simp only [h0, if_true]; omega
  · rw [effRowspan_clip c _ h0]; simp only [h0, if_false]
    have : rows.length - 1 - i + 1 = rows.length - i := by omega
    rw [this]

/-- `grid_width` after a group is the maximum of its previous value and the right edges of the
cells: it bounds every cell and is attained. -/
theorem grid_width_is_max (rows : List (List CellIn)) (w : Nat) (outs : List (List CellOut)) (w' : Nat)
    (h : placeGroup rows w = .ok (outs, w')) :
    w ≤ w' ∧ (∀ a ∈ tagRows 0 outs, a.2.gridX + a.2.colspan ≤ w') ∧
    (w' = w ∨ ∃ a ∈ tagRows 0 outs, w' = a.2.gridX + a.2.colspan) :=
  placeRows_width rows _ w 0 outs w' h

/-! Non-vacuity: a group with a colspan-2 cell beside a rowspan-3 cell (clipped to 2), a
`rowspan = 0` cell, and a second row that must skip an occupied column. -/
example :
    placeGroup [[⟨2, 1⟩, ⟨1, 3⟩, ⟨1, 0⟩], [⟨1, 1⟩, ⟨1, 1⟩, ⟨1, 1⟩]] 0 =
      .ok ([[⟨0, 2, 1⟩, ⟨2, 1, 2⟩, ⟨3, 1, 2⟩], [⟨0, 1, 1⟩, ⟨1, 1, 1⟩, ⟨4, 1, 1⟩]], 5) ∧
    NoOverhang [[⟨2, 1⟩, ⟨1, 3⟩, ⟨1, 0⟩], [⟨1, 1⟩, ⟨1, 1⟩, ⟨1, 1⟩]] [[], []] 0 :=
  ⟨by rfl, by decide⟩


/-! ## white space (CSS 2.1 §16.6.1, first part) on one text -/

/-- The scanners of `Model/Whitespace.lean` were written for exactly these patterns (read from the
source on every run): an edit of a regular expression in build.py breaks this theorem. -/
theorem whitespace_patterns :
    Gen.lineFeedRe = "\r\n?" ∧ Gen.tabRe = "[\t ]*\n[\t ]*" ∧ Gen.spaceRe = "[\t ]+" := by decide

/-- Which `white-space` values collapse what (the tuples are read from the source on every run). -/
theorem whitespace_modes :
    (∀ ws ∈ [WS.normal, .nowrap], newLineCollapse ws = true ∧ spaceCollapse ws = true) ∧
    (newLineCollapse .preLine = false ∧ spaceCollapse .preLine = true) ∧
    (∀ ws ∈ [WS.pre, .preWrap], newLineCollapse ws = false ∧ spaceCollapse ws = false) ∧
    (∀ ws : WS, (Gen.validWs.contains ws.toCss) = true) ∧ Gen.validWs.length = WS.all.length := by
  refine ⟨by decide, by decide, by decide, ?_, by decide⟩
  intro ws; cases ws <;> decide

/-- `inline_in_block` may leave out a text box holding one space at the start of a line only when that
space is collapsible: the `white-space` values of that test are exactly those for which
`process_whitespace` collapses spaces (both tuples are read from the source on every run).  Under
`pre` / `pre-wrap` a lone space is content. -/
theorem line_start_space_collapsible :
    ∀ ws : WS, Gen.lineStartSpaceWs.contains ws = spaceCollapse ws := by
  intro ws; cases ws <;> decide

private theorem nlc_imp_sc (ws : WS) (h : newLineCollapse ws = true) : spaceCollapse ws = true := by
  cases ws <;> first | rfl | (exact absurd h (by decide))

/-- Under every `white-space` value the characters other than space, tab, LF, CR come out
unchanged and in the same order. -/
theorem whitespace_preserves_text (ws : WS) (t : Text) (f : Bool) :
    nonWhite (processText ws t f).text = nonWhite t := by
  unfold processText
  have h1 : nonWhite (lineFeed t) = nonWhite t := nonWhite_lineFeedGo t false
  by_cases hs : spaceCollapse ws = true
  · have h2 : nonWhite (tabSub (lineFeed t)) = nonWhite t := by
      unfold tabSub; rw [nonWhite_tabSubGo _ _ _ (by simp), h1]
    by_cases hn : newLineCollapse ws = true
    · simp only [hs, hn, if_true]
      have h3 : nonWhite (spaceSub (nlToSpace (tabSub (lineFeed t)))) = nonWhite t := by
        unfold spaceSub; rw [nonWhite_spaceSubGo, nonWhite_nlToSpace, h2]
      split
      · rename_i hc
        simp only [Bool.and_eq_true] at hc
        rw [nonWhite_drop_sp _ hc.2, h3]
      · exact h3
    · simp only [hs, hn, if_true, Bool.false_eq_true, if_false]
      have h3 : nonWhite (spaceSub (tabSub (lineFeed t))) = nonWhite t := by
        unfold spaceSub; rw [nonWhite_spaceSubGo, h2]
      split
      · rename_i hc
        simp only [Bool.and_eq_true] at hc
        rw [nonWhite_drop_sp _ hc.2, h3]
      · exact h3
  · have hn : newLineCollapse ws = false := by
      cases hn : newLineCollapse ws
      · rfl
      · exact absurd (nlc_imp_sc ws hn) hs
    simp only [hs, hn, Bool.false_eq_true, if_false]
    exact h1

/-- … and the words (maximal runs of such characters) are the same: two words are separated in the
output iff they were separated in the input. -/
theorem whitespace_preserves_words (ws : WS) (t : Text) (f : Bool) :
    words (processText ws t f).text = words t := by
  unfold processText
  have h1 : words (lineFeed t) = words t := words_lineFeedGo t false [] (by simp)
  by_cases hs : spaceCollapse ws = true
  · have h2 : words (tabSub (lineFeed t)) = words t := by
      unfold tabSub words
      rw [words_tabSubGo _ _ _ _ (by simp) (by simp)]
      exact h1
    by_cases hn : newLineCollapse ws = true
    · simp only [hs, hn, if_true]
      have h3 : words (spaceSub (nlToSpace (tabSub (lineFeed t)))) = words t := by
        unfold spaceSub words
        rw [words_spaceSubGo _ _ _ (by simp), words_nlToSpace]
        exact h2
      split
      · rename_i hc
        simp only [Bool.and_eq_true] at hc
        rw [words_drop_sp _ hc.2, h3]
      · exact h3
    · simp only [hs, hn, if_true, Bool.false_eq_true, if_false]
      have h3 : words (spaceSub (tabSub (lineFeed t))) = words t := by
        unfold spaceSub words
        rw [words_spaceSubGo _ _ _ (by simp)]
        exact h2
      split
      · rename_i hc
        simp only [Bool.and_eq_true] at hc
        rw [words_drop_sp _ hc.2, h3]
      · exact h3
  · have hn : newLineCollapse ws = false := by
      cases hn : newLineCollapse ws
      · rfl
      · exact absurd (nlc_imp_sc ws hn) hs
    simp only [hs, hn, Bool.false_eq_true, if_false]
    exact h1

private theorem mem_of_mem_drop {c : Nat} {t : Text} (h : c ∈ t.drop 1) : c ∈ t := List.mem_of_mem_drop h

/-- `white-space: normal | nowrap`: no tab, no line feed, no carriage return is left. -/
theorem whitespace_collapses_newlines (ws : WS) (h : newLineCollapse ws = true) (t : Text) (f : Bool) :
    ∀ c ∈ (processText ws t f).text, c ≠ 9 ∧ c ≠ 10 ∧ c ≠ 13 := by
  have hs := nlc_imp_sc ws h
  have key : ∀ c ∈ spaceSub (nlToSpace (tabSub (lineFeed t))), c ≠ 9 ∧ c ≠ 10 ∧ c ≠ 13 := by
    intro c hc
    obtain ⟨h9, h1⟩ := mem_spaceSubGo _ _ c hc
    refine ⟨h9, ?_⟩
    rcases h1 with h1 | rfl
    · obtain ⟨h10, h2⟩ := mem_nlToSpace _ c h1
      refine ⟨h10, ?_⟩
      rcases h2 with h2 | rfl
      · rcases mem_tabSubGo _ _ _ c h2 with h3 | h3
        · exact (mem_lineFeedGo t false c h3).1
        · cases h3
      · decide
    · decide
  unfold processText
  simp only [hs, h, if_true]
  split
  · intro c hc; exact key c (mem_of_mem_drop hc)
  · exact key

/-- `white-space: normal | nowrap | pre-line`: never two consecutive spaces, no tab, no CR. -/
theorem whitespace_collapses_spaces (ws : WS) (h : spaceCollapse ws = true) (t : Text) (f : Bool) :
    noDoubleSp (processText ws t f).text = true ∧ ∀ c ∈ (processText ws t f).text, c ≠ 9 ∧ c ≠ 13 := by
  have key : ∀ u : Text, (∀ c ∈ u, c ≠ 13) → noDoubleSp (spaceSub u) = true ∧ ∀ c ∈ spaceSub u, c ≠ 9 ∧ c ≠ 13 := by
    intro u hu
    refine ⟨(spaceSubGo_spec u false).1, ?_⟩
    intro c hc
    obtain ⟨h9, h1⟩ := mem_spaceSubGo _ _ c hc
    refine ⟨h9, ?_⟩
    rcases h1 with h1 | rfl
    · exact hu c h1
    · decide
  have hcr : ∀ c ∈ tabSub (lineFeed t), c ≠ 13 := by
    intro c hc
    rcases mem_tabSubGo _ _ _ c hc with h3 | h3
    · exact (mem_lineFeedGo t false c h3).1
    · cases h3
  have hcr2 : ∀ c ∈ nlToSpace (tabSub (lineFeed t)), c ≠ 13 := by
    intro c hc
    rcases (mem_nlToSpace _ c hc).2 with h2 | rfl
    · exact hcr c h2
    · decide
  unfold processText
  by_cases hn : newLineCollapse ws = true
  · simp only [h, hn, if_true]
    have k := key _ hcr2
    split
    · exact ⟨noDoubleSp_drop1 _ k.1, fun c hc => k.2 c (mem_of_mem_drop hc)⟩
    · exact k
  · simp only [h, hn, if_true, Bool.false_eq_true, if_false]
    have k := key _ hcr
    split
    · exact ⟨noDoubleSp_drop1 _ k.1, fun c hc => k.2 c (mem_of_mem_drop hc)⟩
    · exact k

/-- `white-space: pre-line` keeps exactly the line breaks of the text (CRLF / CR / LF counted once). -/
theorem whitespace_pre_line_newlines (t : Text) (f : Bool) :
    (processText .preLine t f).text.count 10 = (lineFeed t).count 10 := by
  have hs : spaceCollapse .preLine = true := by decide
  have hn : newLineCollapse .preLine = false := by decide
  have key : (spaceSub (tabSub (lineFeed t))).count 10 = (lineFeed t).count 10 := by
    unfold spaceSub tabSub
    rw [count_lf_spaceSubGo, count_lf_tabSubGo _ _ _ (by simp)]
  unfold processText
  simp only [hs, hn, if_true, Bool.false_eq_true, if_false]
  split
  · rename_i hc
    simp only [Bool.and_eq_true] at hc
    generalize spaceSub (tabSub (lineFeed t)) = u at hc key ⊢
    cases u with
    | nil => exact key
    | cons c cs =>
      simp only [startsWithSp, Ch.sp, beq_iff_eq] at hc
      rw [← key, hc.2, count10_cons_ne _ _ (by decide)]
      rfl
  · exact key

/-- `white-space: pre | pre-wrap`: only CRLF / CR → LF; no flag is set. -/
theorem whitespace_pre (ws : WS) (h : spaceCollapse ws = false) (t : Text) (f : Bool) :
    processText ws t f = ⟨lineFeed t, false, false⟩ ∧ (∀ c ∈ lineFeed t, c ≠ 13) ∧
    ((∀ c ∈ t, c ≠ 13) → lineFeed t = t) := by
  have hn : newLineCollapse ws = false := by
    cases hn : newLineCollapse ws
    · rfl
    · rw [nlc_imp_sc ws hn] at h; cases h
  refine ⟨by simp [processText, h, hn], fun c hc => (mem_lineFeedGo t false c hc).1, lineFeedGo_id t⟩

/-- Threading of `following_collapsible_space` through one text: the text and the outgoing flag
without an incoming flag are the collapsed text and "it ends with a space"; with an incoming flag
the leading space is removed (and recorded in `leading_collapsible_space`) iff there is one, and the
result then never starts with a space. -/
theorem whitespace_threading (ws : WS) (h : spaceCollapse ws = true) (t : Text) :
    let plain := processText ws t false
    let after := processText ws t true
    plain.setLeading = false ∧ plain.following = endsWithSp plain.text ∧
    after.setLeading = startsWithSp plain.text ∧ after.following = plain.following ∧
    after.text = (if startsWithSp plain.text then plain.text.drop 1 else plain.text) ∧
    startsWithSp after.text = false := by
  have hnd := (whitespace_collapses_spaces ws h t false).1
  revert hnd
  unfold processText
  simp only [h, if_true, Bool.false_and, Bool.false_eq_true, if_false, Bool.true_and]
  generalize spaceSub (if newLineCollapse ws = true then nlToSpace (tabSub (lineFeed t)) else tabSub (lineFeed t)) = u
  intro hnd
  by_cases hsp : startsWithSp u = true
  · simp only [hsp, if_true, true_and]
    cases u with
    | nil => simp [startsWithSp] at hsp
    | cons c cs =>
      simp only [startsWithSp, Ch.sp, beq_iff_eq] at hsp
      subst hsp
      cases cs with
      | nil => simp [startsWithSp]
      | cons d ds =>
        simp only [noDoubleSp, Bool.and_eq_true, Bool.not_eq_true', Bool.and_eq_false_iff] at hnd
        simp only [List.drop_succ_cons, List.drop_zero, startsWithSp, Ch.sp]
        rcases hnd.1 with h1 | h1
        · simp at h1
        · exact h1
  · have hsp' : startsWithSp u = false := by simpa using hsp
    simp [hsp']

/-- Across the boxes of one inline formatting context (text boxes and inline boxes in normal flow,
collapsing `white-space`): the concatenated text after `process_whitespace` has no two consecutive
spaces — a leading space is removed exactly when the previous in-flow text ended with a collapsible
one — it does not start with a space when a collapsible space precedes the box, and the returned
`following_collapsible_space` says whether it ends with one. -/
theorem whitespace_across_boxes (b : KBox) (f : Bool) (h : IC b) :
    noDoubleSp (leafText (pw b f).1) = true ∧
    (f = true → startsWithSp (leafText (pw b f).1) = false) ∧
    (pw b f).2 = (endsWithSp (leafText (pw b f).1) || ((leafText (pw b f).1).isEmpty && f)) :=
  pw_threaded b f h

/-- Full strength since b7d94f7 (finding out-of-flow-container-spaces-not-collapsed repaired): the same for
the inline content of **any** container — nothing is asked of the box's own `float` / `position` / class
(`IFC`: not a text box, children are inline content in normal flow).  Inside a float, an absolutely
positioned box, a running element, a cell, a block: no two consecutive spaces, no leading space after a
collapsible one; the returned flag is the "ends with a collapsible space" state, and `false` for a running
box. -/
theorem whitespace_across_boxes_any_container (b : KBox) (f : Bool) (h : IFC b) :
    noDoubleSp (leafText (pw b f).1) = true ∧
    (f = true → startsWithSp (leafText (pw b f).1) = false) ∧
    (pw b f).2 = ((endsWithSp (leafText (pw b f).1) || ((leafText (pw b f).1).isEmpty && f)) && !b.st.run) := by
  obtain ⟨⟨h1, h2, h3⟩, h4⟩ := pw_ifc b f h
  refine ⟨h1, h2, ?_⟩
  unfold FlagOk at h3
  rw [h4, h3]

/-- `div(float: left)[ "a ", span[" b"] ]` → `a b`, as in normal flow. -/
example :
    let t (s : List Nat) : KBox := .mk .TextBox {} {} {} s [] []
    let b : KBox := .mk .BlockBox { flt := true } {} {} [] [t [97, 32], .mk .InlineBox {} {} {} [] [t [32, 98]] []] []
    IFC b ∧ b.inFlow = false ∧ leafText (pw b false).1 = [97, 32, 98] := by
  refine ⟨?_, by rfl, by rfl⟩
  simp [IFC, IC, ICL, KBox.isA, KBox.kind, KBox.text, KBox.kids]
  decide

/-- `span[ "a ", em[" b "], " c" ]` → `a b c`. -/
example :
    let t (s : List Nat) : KBox := .mk .TextBox {} {} {} s [] []
    let b : KBox := .mk .InlineBox {} {} {} [] [t [97, 32], .mk .InlineBox {} {} {} [] [t [32, 98, 32]] [], t [32, 99]] []
    IC b ∧ leafText (pw b false).1 = [97, 32, 98, 32, 99] ∧ (pw b false).2 = false := by
  refine ⟨?_, by rfl, by rfl⟩
  simp [IC, ICL]
  decide

/-! ## generated content: strings and quotes (`compute_content_list`) -/

/-- Content lists are processed item by item: the text and the quote depth reached after a prefix are
the starting point of the rest. -/
theorem content_append (q : Quotes) (l1 l2 : List CItem) (acc : Text) (d : Nat) :
    contentText q (l1 ++ l2) acc d =
      match contentText q l1 acc d with
      | .error e => .error e
      | .ok (a, d') => contentText q l2 a d' := by
  induction l1 generalizing acc d with
  | nil => simp [contentText]
  | cons c cs ih =>
    cases c with
    | str t => simp only [List.cons_append, contentText]; exact ih _ _
    | quote o i =>
      simp only [List.cons_append, contentText]
      split
      · rfl
      · exact ih _ _

/-- A list of strings yields their concatenation and leaves the quote depth alone. -/
theorem content_strings (q : Quotes) (ts : List Text) (acc : Text) (d : Nat) :
    contentText q (ts.map .str) acc d = .ok (acc ++ ts.flatten, d) := by
  induction ts generalizing acc with
  | nil => simp [contentText]
  | cons t ts ih => simp [contentText, ih, List.append_assoc]

/-- `no-open-quote` / `no-close-quote`, and every quote keyword under `quotes: none`, insert nothing
and only move the depth (never below zero). -/
theorem content_silent_quote (q : Quotes) (isOpen insert : Bool) (rest : List CItem) (acc : Text) (d : Nat)
    (h : insert = false ∨ q = .none) :
    contentText q (.quote isOpen insert :: rest) acc d =
      contentText q rest acc (if isOpen then d + 1 else d - 1) := by
  have hq : quoteText q isOpen insert (if (!isOpen) = true then d - 1 else d) = .ok [] := by
    rcases h with rfl | rfl
    · cases q <;> rfl
    · rfl
  simp only [contentText, hq, List.append_nil]
  cases isOpen <;> simp

/-- An `open-quote` at depth `d` inserts the opening mark of level `min d (last level)` and goes one
level deeper; the `close-quote` met at depth `d + 1` inserts the closing mark of that same level and
returns to depth `d`: marks are paired level by level, whatever lies in between is processed at depth
`d + 1`. -/
theorem content_quote_pair (opens closes : List Text) (acc : Text) (d : Nat) (o c : Text)
    (ho : opens[min d (opens.length - 1)]? = some o) (hc : closes[min d (closes.length - 1)]? = some c)
    (inner rest : List CItem) (a1 : Text)
    (hin : contentText (.pairs opens closes) inner (acc ++ o) (d + 1) = .ok (a1, d + 1)) :
    contentText (.pairs opens closes) (.quote true true :: inner ++ .quote false true :: rest) acc d =
      contentText (.pairs opens closes) rest (a1 ++ c) d := by
  have step1 : contentText (.pairs opens closes) (.quote true true :: (inner ++ .quote false true :: rest)) acc d =
      contentText (.pairs opens closes) (inner ++ .quote false true :: rest) (acc ++ o) (d + 1) := by
    simp [contentText, quoteText, quoteAt, ho]
  rw [List.cons_append, step1, content_append, hin]
  simp [contentText, quoteText, quoteAt, hc]

/-- With `quotes: auto`, `none`, or at least one pair of marks, no content list of strings and quote
keywords can fail (no IndexError). -/
theorem content_total (q : Quotes) (hq : match q with | .pairs o c => o ≠ [] ∧ c ≠ [] | _ => True)
    (l : List CItem) (acc : Text) (d : Nat) : ∃ r, contentText q l acc d = .ok r := by
  have hne : ∀ (qs : List Text), qs ≠ [] → ∀ k, ∃ t, quoteAt qs k = .ok t := by
    intro qs hqs k
    unfold quoteAt
    have : min k (qs.length - 1) < qs.length := by
      have : 0 < qs.length := List.length_pos_iff.mpr hqs
      omega
    rw [List.getElem?_eq_getElem this]
    exact ⟨_, rfl⟩
  have hqt : ∀ o i k, ∃ t, quoteText q o i k = .ok t := by
    intro o i k
    cases q with
    | none => exact ⟨_, rfl⟩
    | auto =>
      cases i
      · exact ⟨_, rfl⟩
      · cases o
        · exact hne Gen.autoQuotes.2 (by decide) k
        · exact hne Gen.autoQuotes.1 (by decide) k
    | pairs op cl =>
      cases i
      · exact ⟨_, rfl⟩
      · cases o
        · exact hne cl hq.2 k
        · exact hne op hq.1 k
  induction l generalizing acc d with
  | nil => exact ⟨_, rfl⟩
  | cons c cs ih =>
    cases c with
    | str t => simp only [contentText]; exact ih _ _
    | quote o i =>
      simp only [contentText]
      obtain ⟨t, ht⟩ := hqt o i (if (!o) = true then d - 1 else d)
      rw [ht]
      exact ih _ _

/-- `« a ‹ b › c »` from `open-quote "a" open-quote "b" close-quote "c" close-quote` with two levels of marks. -/
example : contentText (.pairs [[171], [8249]] [[187], [8250]])
    [.quote true true, .str [97], .quote true true, .str [98], .quote false true, .str [99], .quote false true] [] 0 =
    .ok ([171, 97, 8249, 98, 8250, 99, 187], 0) := by rfl

/-! ## `text-transform: capitalize` -/

private theorem ucat_beq (a b : UCat) : (a == b) = decide (a = b) := by
  cases a <;> cases b <;> rfl

private theorem capGo_sep (a b : Text) (z : Nat) (hz : Gen.ucatCp z = .Z) (f : Bool) :
    capitalizeGo (a ++ z :: b) f = capitalizeGo a f ++ z :: capitalizeGo b false := by
  induction a generalizing f with
  | nil =>
    simp only [List.nil_append, capitalizeGo, hz, ucat_beq]
    cases f <;> simp
  | cons c cs ih =>
    simp only [List.cons_append, capitalizeGo]
    split
    · rw [ih]; simp
    · split
      · rw [ih]; simp
      · rw [ih]; simp

/-- Words are capitalised independently: a separator (category Z) is kept and restarts the search
for a first letter. -/
theorem capitalize_separator (a b : Text) (z : Nat) (hz : Gen.ucatCp z = .Z) :
    capitalize (a ++ z :: b) = capitalize a ++ z :: capitalize b := capGo_sep a b z hz false

private theorem capGo_found (w : Text) (h : ∀ r ∈ w, Gen.ucatCp r ≠ .Z) : capitalizeGo w true = w := by
  induction w with
  | nil => rfl
  | cons c cs ih =>
    have hc := h c List.mem_cons_self
    simp only [capitalizeGo, Bool.not_true, Bool.false_and, Bool.false_eq_true, if_false]
    have : (Gen.ucatCp c == UCat.Z) = false := by simpa [ucat_beq] using hc
    simp only [this, Bool.false_eq_true, if_false]
    rw [ih (fun r hr => h r (List.mem_cons_of_mem _ hr))]

/-- Inside a word exactly the first letter or number is upper-cased; what precedes it (punctuation,
marks, …) and everything after it is unchanged. -/
theorem capitalize_word (pre rest : Text) (c : Nat)
    (hpre : ∀ p ∈ pre, Gen.ucatCp p ≠ .L ∧ Gen.ucatCp p ≠ .N ∧ Gen.ucatCp p ≠ .Z)
    (hc : Gen.ucatCp c = .L ∨ Gen.ucatCp c = .N) (hrest : ∀ r ∈ rest, Gen.ucatCp r ≠ .Z) :
    capitalize (pre ++ c :: rest) = pre ++ Gen.upperCp c ++ rest := by
  unfold capitalize
  induction pre with
  | nil =>
    have : (Gen.ucatCp c == UCat.L || Gen.ucatCp c == UCat.N) = true := by
      rcases hc with h | h <;> simp [h, ucat_beq]
    simp only [List.nil_append, capitalizeGo, Bool.not_false, Bool.true_and, this, if_true]
    rw [capGo_found rest hrest]
  | cons p ps ih =>
    obtain ⟨h1, h2, h3⟩ := hpre p List.mem_cons_self
    have e1 : (Gen.ucatCp p == UCat.L || Gen.ucatCp p == UCat.N) = false := by simp [h1, h2, ucat_beq]
    have e2 : (Gen.ucatCp p == UCat.Z) = false := by simpa [ucat_beq] using h3
    simp only [List.cons_append, capitalizeGo, Bool.not_false, Bool.true_and, e1, e2,
      Bool.false_eq_true, if_false]
    rw [ih (fun q hq => hpre q (List.mem_cons_of_mem _ hq))]

/-- A text without letters and numbers is unchanged. -/
theorem capitalize_no_letter (w : Text) (h : ∀ p ∈ w, Gen.ucatCp p ≠ .L ∧ Gen.ucatCp p ≠ .N) :
    capitalize w = w := by
  unfold capitalize
  induction w with
  | nil => rfl
  | cons p ps ih =>
    obtain ⟨h1, h2⟩ := h p List.mem_cons_self
    have e1 : (Gen.ucatCp p == UCat.L || Gen.ucatCp p == UCat.N) = false := by simp [h1, h2, ucat_beq]
    simp only [capitalizeGo, Bool.not_false, Bool.true_and, e1, Bool.false_eq_true, if_false]
    have := ih (fun q hq => h q (List.mem_cons_of_mem _ hq))
    split <;> rw [this]

example : capitalize [40, 97, 98, 32, 223, 120, 160, 49, 97] = [40, 65, 98, 32, 83, 83, 120, 160, 49, 97] := by
  decide

/-! Non-vacuity for the white-space laws: `" a\t\r\n b  "` under the three families. -/
example : (processText .normal [32, 97, 9, 13, 10, 32, 98, 32, 32] true).text = [97, 32, 98, 32] ∧
    (processText .preLine [32, 97, 9, 13, 10, 32, 98, 32, 32] false).text = [32, 97, 10, 98, 32] ∧
    (processText .pre [32, 97, 9, 13, 10, 32, 98, 32, 32] true).text = [32, 97, 9, 10, 32, 98, 32, 32] ∧
    words [32, 97, 9, 13, 10, 32, 98, 32, 32] = [[97], [98]] := by decide


/-! ## anonymous table boxes (CSS 2.1 §17.2.1) on kind-trees

`atb` = `anonymous_table_boxes`; the rules are re-applied to fresh wrappers with fuel (the driver gives
`8·(children + 8)`, never exhausted in the correspondence); statements are about every run that ends.
Running elements are skipped by the source (`box.is_running()`), hence the hypothesis `run = false`:
see `Witness.C08.running_row_not_fixed`. -/

private theorem atb_unfold (b b' : KBox) (hrun : b.st.run = false) (hp : b.isA .ParentBox = true)
    (h : atb b = .ok b') : ∃ children n, tbc (n + 2) b children = .ok b' := by
  obtain ⟨k, st, el, inst, text, kids, cols⟩ := b
  unfold atb at h
  simp only [KBox.st] at hrun
  simp only [KBox.isA, KBox.kind] at hp
  simp only [hrun, hp, Bool.not_true, Bool.or_false, Bool.false_eq_true, if_false] at h
  split at h
  · cases h
  · rename_i children _
    refine ⟨children, 8 * (children.length + groupSpan (.mk k st el inst text kids cols)) + 62, ?_⟩
    have : ∀ m, tableFuel m = 8 * m + 62 + 2 := by intro m; unfold tableFuel; omega
    rw [← this]; exact h

/-- Every table box ends up as `wrapper ⊃ top captions, table, bottom captions`; the table's children
are row groups, its `column_groups` column groups; the wrapper is an inline-block for an inline table
and takes over `float` / `position`. -/
theorem table_fixup_table (b b' : KBox) (hrun : b.st.run = false)
    (hk : b.kind = .TableBox ∨ b.kind = .InlineTableBox) (h : atb b = .ok b') :
    ∃ c3, TableShape b c3 b' ∧ ∀ o ∈ c3, Gen.properTableChild o.kind = true := by
  have hp : b.isA .ParentBox = true := by unfold KBox.isA; rcases hk with hk | hk <;> rw [hk] <;> rfl
  obtain ⟨children, n, ht⟩ := atb_unfold b b' hrun hp h
  exact tbc_table (n + 1) b children b' hk ht

/-- The children of a row group are rows, of a row cells, of a column group (at least one) columns;
a column has none — whatever the element contained. -/
theorem table_fixup_parts (b b' : KBox) (hrun : b.st.run = false) (h : atb b = .ok b') :
    (b.kind = .TableRowGroupBox → ∀ o ∈ b'.kids, o.kind = .TableRowBox) ∧
    (b.kind = .TableRowBox → ∀ o ∈ b'.kids, o.kind = .TableCellBox) ∧
    (b.kind = .TableColumnGroupBox → b'.kids ≠ [] ∧ ∀ o ∈ b'.kids, o.kind = .TableColumnBox) ∧
    (b.kind = .TableColumnBox → b'.kids = []) := by
  refine ⟨?_, ?_, ?_, ?_⟩
  · intro hk
    obtain ⟨children, n, ht⟩ := atb_unfold b b' hrun (by unfold KBox.isA; rw [hk]; rfl) h
    obtain ⟨ks, rfl, hks⟩ := tbc_row_group (n + 1) b children b' hk ht
    rw [(withKids_proj b ks).2.2.2]; exact hks
  · intro hk
    obtain ⟨children, n, ht⟩ := atb_unfold b b' hrun (by unfold KBox.isA; rw [hk]; rfl) h
    obtain ⟨ks, rfl, hks⟩ := tbc_row (n + 1) b children b' hk ht
    rw [(withKids_proj b ks).2.2.2]; exact hks
  · intro hk
    obtain ⟨children, n, ht⟩ := atb_unfold b b' hrun (by unfold KBox.isA; rw [hk]; rfl) h
    obtain ⟨ks, rfl, hks⟩ := tbc_column_group (n + 1) b children b' hk ht
    rw [(withKids_proj b ks).2.2.2]; exact hks
  · intro hk
    obtain ⟨children, n, ht⟩ := atb_unfold b b' hrun (by unfold KBox.isA; rw [hk]; rfl) h
    rw [tbc_column n b children b' hk ht, (withKids_proj b []).2.2.2]

/-- Under any other parent (block, inline, inline-block, cell, caption, flex, grid, line …) no
internal table box or caption is left as a child: stray cells went into anonymous rows, stray rows /
row groups / columns / captions into anonymous tables, i.e. table wrappers. -/
theorem table_fixup_other (b b' : KBox) (hrun : b.st.run = false) (hp : b.isA .ParentBox = true)
    (hk : b.kind ∉ [BoxKind.TableBox, .InlineTableBox, .TableRowGroupBox, .TableRowBox,
      .TableColumnGroupBox, .TableColumnBox]) (h : atb b = .ok b') :
    ∀ o ∈ b'.kids, Gen.internalTableOrCaption o.kind = false := by
  obtain ⟨children, n, ht⟩ := atb_unfold b b' hrun hp h
  have hpp : ∀ j, (Gen.properParents j).contains b.kind = false := by
    intro j
    revert hk
    cases b.kind <;> cases j <;> decide
  have e : ∀ cls ∈ [BoxClass.TableColumnBox, .TableColumnGroupBox, .TableBox, .TableRowGroupBox, .TableRowBox],
      Gen.isSub b.kind cls = false := by
    revert hk
    cases b.kind <;> decide
  obtain ⟨ks, rfl, hks⟩ := tbc_other (n + 1) b children b'
    (e _ (by simp)) (e _ (by simp)) (e _ (by simp)) (e _ (by simp)) (e _ (by simp)) hpp ht
  intro o ho
  rw [(withKids_proj b ks).2.2.2] at ho
  rcases hks o ho with ⟨_, h1⟩ | ⟨_, h1⟩
  · exact h1
  · rcases h1 with h1 | h1 <;> rw [h1] <;> rfl

/-- CSS 2.1 §17.2, the order of row groups — for every table and every list of children: the table
`wrap_table` puts in the wrapper holds the row groups (the given ones and the anonymous ones made for stray
rows, `rowGroups0`) in the order `orderedGroups`: the **first** group with `display: table-header-group`
first, marked `is_header`; the **first** with `table-footer-group` last, marked `is_footer`; all others —
further header / footer groups included — in document order in between.  (`groupKey`: class, style, element
attributes, marks and number of rows, i.e. everything but the `grid_x` / `rowspan` written on the cells.) -/
theorem wrap_table_row_group_order (n : Nat) (box : KBox) (children : List KBox) (w : KBox)
    (h : wrapTable (n + 1) box children = .ok w) :
    ∃ columns rows caps rowGroups0 table, sortTableKids children = .ok (columns, rows, caps) ∧
      wrapImproper n box rows .TableRowGroupBox (fun c => c.isA .TableRowGroupBox) [] = .ok rowGroups0 ∧
      table ∈ w.kids ∧ table.kind = box.kind ∧ table.kids.map groupKey = (orderedGroups rowGroups0).map groupKey :=
  wrapTable_groups n box children w h

/-- … and nothing is lost or duplicated: the first header group, the groups in between and the first footer
group are the row groups of the table, each exactly once. -/
theorem row_groups_conserved (gs : List KBox) :
    ((gs.find? isHeaderGroup).toList ++ (gs.eraseP isHeaderGroup).eraseP isFooterGroup ++
      (gs.find? isFooterGroup).toList).Perm gs ∧ (orderedGroups gs).length = gs.length := by
  refine ⟨splitGroups_perm gs, ?_⟩
  have := (splitGroups_perm gs).length_eq
  simp only [orderedGroups, List.length_append, Option.toList_map, List.length_map] at this ⊢
  exact this

/-- Groups with displays `body, header, footer, header, footer, body` (numbered 1-6): 2 first as header,
3 last as footer, the second header / footer groups 4 and 5 stay where they are as bodies. -/
example :
    let g (n : Int) (d : GDisp) : KBox := .mk .TableRowGroupBox { disp := d } { span := some n } {} [] [] []
    (orderedGroups [g 1 .other, g 2 .header, g 3 .footer, g 4 .header, g 5 .footer, g 6 .other]).map
      (fun (x : KBox) => (x.el.span, x.inst.isHeader, x.inst.isFooter)) =
    [(some 2, true, false), (some 1, false, false), (some 4, false, false), (some 5, false, false),
     (some 6, false, false), (some 3, false, true)] := by
  decide

/-- Rules 1.3 / 1.4, exactly (the clause the Python oracle `box_segments` samples: "white-space text may vanish
only between two internal table boxes or at the edge of a tabular container"), for every list of children:
* rule 1.4 as modelled is the source's comprehension over `zip([None]+children[:-1], children, children[1:]+[None])`;
* its result is a sublist of the children and keeps every child that is not white-space text, in order;
* a child with a neighbour that is no internal table box / caption on either side — or that is no white-space
  text — is kept where it is;
* rule 1.3 removes at most the first and the last child, both white-space text. -/
theorem table_rules_13_14_exact :
    (∀ (prev : Option KBox) (l : List KBox), rule14 prev l =
      (contexts prev l).filterMap (fun t => if rule14Drop t.1 t.2.1 t.2.2 = true then none else some t.2.1)) ∧
    (∀ (prev : Option KBox) (l : List KBox), (rule14 prev l).Sublist l ∧
      (rule14 prev l).filter (fun c => !isWhitespace c) = l.filter (fun c => !isWhitespace c)) ∧
    (∀ (prev : Option KBox) (c : KBox) (cs : List KBox),
      ((match prev with | some p => Gen.internalTableOrCaption p.kind | none => false) = false ∨
       (match cs with | nx :: _ => Gen.internalTableOrCaption nx.kind | [] => false) = false ∨
       isWhitespace c = false) → rule14 prev (c :: cs) = c :: rule14 (some c) cs) ∧
    (∀ l : List KBox, ∃ a b, l = a ++ rule13 l ++ b ∧ a.length ≤ 1 ∧ b.length ≤ 1 ∧
      ∀ c ∈ a ++ b, isWhitespace c = true) :=
  ⟨rule14_eq_comprehension, fun prev l => ⟨rule14_sublist prev l, rule14_keeps_nonwhite prev l⟩,
    rule14_keeps_head, rule13_shape⟩

/-- `tr, " ", td, " ", span, " "` in a table: the space between row and cell goes (rule 1.4), the space between
cell and span stays, the last space stays (its neighbour is no table part); `" ", tr, " "`: both go (1.3). -/
example :
    let t (s : List Nat) : KBox := .mk .TextBox {} {} {} s [] []
    let k (kind : BoxKind) : KBox := .mk kind {} {} {} [] [] []
    (rule14 none (rule13 [k .TableRowBox, t [32], k .TableCellBox, t [32], k .InlineBox, t [32]])).map
        (fun (c : KBox) => c.kind) = [.TableRowBox, .TableCellBox, .TextBox, .InlineBox, .TextBox] ∧
    (rule14 none (rule13 [t [32], k .TableRowBox, t [10]])).map (fun (c : KBox) => c.kind) = [.TableRowBox] := by
  decide

/-- Rule 3.2 — *which* anonymous table: under a parent that is no table part, every child after the
fix-up is a (fixed-up) child of the box that is no internal table box, or an anonymous table wrapper
generated by the rule, and that wrapper is an inline-block around an inline-table exactly when the parent
is an inline box; under a block, inline-block, inline-flex / inline-grid, cell, caption … it is a block
around a block-level table (`Rule32Wrapper`). -/
theorem table_fixup_anonymous_table_kind (b b' : KBox) (hrun : b.st.run = false) (hp : b.isA .ParentBox = true)
    (hk : b.kind ∉ [BoxKind.TableBox, .InlineTableBox, .TableRowGroupBox, .TableRowBox,
      .TableColumnGroupBox, .TableColumnBox]) (h : atb b = .ok b') :
    ∃ children, atbKids b.kids = .ok children ∧
      ∀ o ∈ b'.kids, (o ∈ children ∧ Gen.internalTableOrCaption o.kind = false) ∨ Rule32Wrapper b o := by
  have hpp : ∀ j, (Gen.properParents j).contains b.kind = false := by
    intro j
    revert hk
    cases b.kind <;> cases j <;> decide
  have e : ∀ cls ∈ [BoxClass.TableColumnBox, .TableColumnGroupBox, .TableBox, .TableRowGroupBox, .TableRowBox],
      Gen.isSub b.kind cls = false := by
    revert hk
    cases b.kind <;> decide
  obtain ⟨k, st, el, inst, text, kids, cols⟩ := b
  unfold atb at h
  simp only [KBox.st] at hrun
  simp only [KBox.isA, KBox.kind] at hp
  simp only [hrun, hp, Bool.not_true, Bool.or_false, Bool.false_eq_true, if_false] at h
  split at h
  · cases h
  · rename_i children hkids
    refine ⟨children, hkids, ?_⟩
    have hf : ∀ m, tableFuel m = (8 * m + 63) + 1 := by intro m; unfold tableFuel; omega
    rw [hf] at h
    obtain ⟨ks, rfl, hks⟩ := tbc_other_kinds _ _ children b'
      (e _ (by simp)) (e _ (by simp)) (e _ (by simp)) (e _ (by simp)) (e _ (by simp)) hpp h
    intro o ho
    rw [(withKids_proj _ ks).2.2.2] at ho
    exact hks o ho

/-! Non-vacuity: a stray cell in a `span` gets an inline-table in an inline-block; the same cell in an
inline-block (or an inline-flex container) gets a block-level table in a block. -/
example :
    let cell : KBox := .mk .TableCellBox {} {} {} [] [] []
    let shape (r : Except BErr KBox) := match r with
      | .ok b => b.kids.map (fun (w : KBox) => (w.kind, w.inst.wrapper, w.kids.map (fun (t : KBox) => t.kind)))
      | .error _ => []
    shape (atb (.mk .InlineBox {} {} {} [] [cell] [])) = [(.InlineBlockBox, true, [.InlineTableBox])] ∧
    shape (atb (.mk .InlineBlockBox {} {} {} [] [cell] [])) = [(.BlockBox, true, [.TableBox])] ∧
    shape (atb (.mk .InlineFlexBox {} {} {} [] [cell] [])) = [(.BlockBox, true, [.TableBox])] := by
  refine ⟨by rfl, by rfl, by rfl⟩

/-! Non-vacuity: `div[ td"a", " ", tr[ "b" ], caption ]` becomes
`div[ wrapper[ caption, table[ rowgroup[ row[cell a], row[cell[b]] ] ] ] ]`. -/
private def tk (k : BoxKind) (kids : List KBox) : KBox := .mk k {} {} {} [] kids []

example : (match atb (tk .BlockBox [tk .TableCellBox [.mk .TextBox {} {} {} [97] [] []],
      .mk .TextBox {} {} {} [32] [] [], tk .TableRowBox [.mk .TextBox {} {} {} [98] [] []], tk .TableCaptionBox []]) with
    | .ok b => b.kids.map (fun (w : KBox) => (w.kind, w.inst.wrapper, w.kids.map (fun (t : KBox) =>
        (t.kind, t.kids.map (fun (g : KBox) => (g.kind, g.kids.map (fun (r : KBox) =>
          (r.kind, r.kids.map (fun (c : KBox) => (c.kind, c.inst.gridX))))))))))
    | .error _ => []) =
    [(.BlockBox, true, [(.TableCaptionBox, []), (.TableBox, [(.TableRowGroupBox,
      [(.TableRowBox, [(.TableCellBox, some 0)]), (.TableRowBox, [(.TableCellBox, some 0)])])])])] := by
  rfl

/-! ## `inline_in_block` (CSS 2.1 §9.2.1.1) on kind-trees

`Good b`: no line box yet, children of block containers are inline-level or block-level, text boxes
are leaves — what the table / flex / grid passes hand over.  `WF b'`: outside running elements every
block container holds exactly one line box of inline content (inline-level boxes, and floats /
absolutely positioned boxes kept where they occur) or only block-level boxes. -/

/-- No `assert` of `inline_in_block` can fail. -/
theorem inline_in_block_total (b : KBox) (force : Bool) (h : Good b) : ∃ b', iib force b = .ok b' :=
  iib_ok b force h

/-- A block container holds only block-level boxes or only one inline formatting context; line
boxes hold only inline-level (or out-of-flow) boxes — at every depth. -/
theorem inline_in_block_structure (b b' : KBox) (force : Bool) (h : Good b) (hr : iib force b = .ok b') :
    WF b' := iib_wf b force b' h hr

/-- The box itself keeps its class, style, element and text. -/
theorem inline_in_block_same (b b' : KBox) (force : Bool) (hr : iib force b = .ok b') :
    b'.kind = b.kind ∧ b'.st = b.st ∧ b'.text = b.text ∧ b'.el = b.el :=
  let h := iib_same force b b' hr; ⟨h.1, h.2.1, h.2.2.2.1, h.2.2.2.2⟩

/-- Collapsed spaces are remembered as break opportunities (the state `trailing_collapsible_space` of the
property): whenever the last child of a box that is not running is a text box emptied by
`process_whitespace` with `leading_collapsible_space` set (`CollapsedSpace`), `inline_in_block` removes it
and the box carries `trailing_collapsible_space` afterwards — for every box class, every other child and
every incoming flag.  (This is the flag `split_inline_box` reads as the line-break opportunity after the
box; a regression here changes no text and no box, only line breaking.) -/
theorem inline_in_block_trailing_flag (force : Bool) (b b' : KBox) (ks : List KBox) (t : KBox)
    (hrun : b.st.run = false) (hk : b.kids = ks ++ [t]) (ht : CollapsedSpace t) (h : iib force b = .ok b') :
    b'.inst.tcs = true := iib_trailing force b b' ks t hrun hk ht h

/-- `word <b> </b>word`, function level to pipeline: an inline box holding one run of spaces / tabs under
any collapsing `white-space`, met after a collapsible space, goes through `process_whitespace` and
`inline_in_block` as an inline box without children that carries `leading_` and
`trailing_collapsible_space`, and the state handed to what follows is still "a collapsible space precedes". -/
theorem collapsed_space_is_break_opportunity (st : Style) (el : El) (inst : Inst)
    (tk : BoxKind) (tst : Style) (tel : El) (tinst : Inst) (text : Text)
    (hrun : st.run = false) (htk : Gen.isSub tk .TextBox = true) (htrun : tst.run = false)
    (hws : spaceCollapse tst.ws = true) (hne : text ≠ []) (hsp : AllSpTab text) :
    ∃ b', iib false (pw (.mk .InlineBox st el inst [] [.mk tk tst tel tinst text [] []] []) true).1 = .ok b' ∧
      b'.kids = [] ∧ b'.inst.tcs = true ∧ b'.inst.lcs = true ∧
      (pw (.mk .InlineBox st el inst [] [.mk tk tst tel tinst text [] []] []) true).2 = true :=
  emptied_inline_keeps_break_opportunity st el inst tk tst tel tinst text hrun htk htrun hws hne hsp

/-- `p[ "a ", b[" "], "c" ]`: after `process_whitespace` and `inline_in_block` the line holds `a `, an empty
`b` with both flags, and `c`. -/
example :
    let t (s : List Nat) : KBox := .mk .TextBox {} {} {} s [] []
    let p : KBox := .mk .BlockBox {} {} {} [] [t [97, 32], .mk .InlineBox {} {} {} [] [t [32]] [], t [99]] []
    (match iib false (pw p false).1 with
      | .ok r => r.kids.map (fun (l : KBox) => l.kids.map (fun (c : KBox) => (c.kind, c.text, c.inst.lcs, c.inst.tcs)))
      | .error _ => []) =
    [[(.TextBox, [97, 32], false, false), (.InlineBox, [], true, true), (.TextBox, [99], false, false)]] := by
  decide +kernel

/-- Leaf preservation: the text of the tree is unchanged, in order, except for U+0020 characters
(the only leaves removed are empty text boxes and a single collapsible space at the start of a line). -/
theorem inline_in_block_text (b b' : KBox) (force : Bool) (h : Good b) (hr : iib force b = .ok b') :
    noSp (leafText b') = noSp (leafText b) := iib_text b force b' h hr

/-! ## `block_in_inline` (CSS 2.1 §9.2.1.1, second case) on kind-trees

`Pre b`: line boxes are not children of line or inline boxes (true of every output of
`inline_in_block`).  `WF2 b'`: outside running elements no line box has a block-level box in normal
flow as a child or below it through inline boxes.  The `while True` loop of the source is run with
fuel; the statement is about every run that ends (the driver gives `6·size + 16`, never exhausted
in the correspondence). -/
theorem block_in_inline_structure (n : Nat) (b b' : KBox) (hp : Pre b) (hk : b.kind ≠ .LineBox)
    (hr : bii n b = .ok b') : WF2 b' := (biiFacts n).bii b b' hp hk hr

/-- The box itself keeps its class, style and instance attributes. -/
theorem block_in_inline_same (n : Nat) (b b' : KBox) (hr : bii n b = .ok b') :
    b'.kind = b.kind ∧ b'.st = b.st ∧ b'.inst = b.inst := bii_same n b b' hr

/-- Leaf preservation: `block_in_inline` moves boxes but neither drops, duplicates nor reorders any
text (`Leafy`: line and inline boxes carry no text of their own — text lives in text boxes). -/
theorem block_in_inline_text (n : Nat) (b b' : KBox) (hl : Leafy b) (hr : bii n b = .ok b') :
    leafText b' = leafText b := (biiText n).bii b b' hl hr

/-- The two fix-ups in sequence, as `create_anonymous_boxes` runs them: the output of
`inline_in_block` meets the preconditions of `block_in_inline`; after both, no line box holds a
block-level box in normal flow at any inline depth, and the text of the tree is the original text up
to U+0020 characters. -/
theorem inline_then_block (n : Nat) (b b1 b2 : KBox) (hg : Good b) (hl : Leafy b)
    (h1 : iib false b = .ok b1) (h2 : bii n b1 = .ok b2) :
    Pre b1 ∧ Leafy b1 ∧ WF b1 ∧ WF2 b2 ∧ noSp (leafText b2) = noSp (leafText b) := by
  obtain ⟨hp, hl1⟩ := iib_post b false b1 hg hl h1
  have hk : b1.kind ≠ .LineBox := by rw [(iib_same false b b1 h1).1]; exact good_kind hg
  refine ⟨hp, hl1, iib_wf b false b1 hg h1, (biiFacts n).bii b1 b2 hp hk h2, ?_⟩
  rw [(biiText n).bii b1 b2 hl1 h2]
  exact iib_text b false b1 hg h1

/-! Non-vacuity: `div[ "a", span[ "b", div["c"], "d" ], p["e"] ]`. -/
private def tx (s : List Nat) : KBox := .mk .TextBox {} {} {} s [] []
private def sample : KBox :=
  .mk .BlockBox {} {} {} [] [tx [97], .mk .InlineBox {} {} {} [] [tx [98], .mk .BlockBox {} {} {} [] [tx [99]] [], tx [100]] [],
    .mk .BlockBox {} {} {} [] [tx [101]] []] []

example : Good sample := by
  simp [sample, tx, Good, GoodList, KBox.isA, KBox.kind]
  decide

example : Leafy sample := by
  simp [sample, tx, Leafy, LeafyL]
  decide

example : (match iib false sample with
    | .ok b => b.kids.map (fun c => (c.kind, c.kids.map (·.kind), c.st.anon))
    | .error _ => []) =
    [(.BlockBox, [.LineBox], true), (.BlockBox, [.LineBox], false)] := by rfl

example : (match iib false sample with
    | .ok b => (match bii 100 b with
      | .ok b2 => b2.kids.map (fun (c : KBox) => (c.kind, c.st.anon,
          c.kids.map (fun (d : KBox) => (d.kind, d.st.anon, leafText d))))
      | .error _ => [])
    | .error _ => []) =
    [(.BlockBox, true, [(.BlockBox, true, [97, 98]), (.BlockBox, false, [99]), (.BlockBox, true, [100])]),
     (.BlockBox, false, [(.LineBox, true, [101])])] := by
  rfl

end Wp.C08
