/-
C14 — margin boxes sharing a side (css-page-3 §5.3.2, `compute_variable_dimension`): the three boxes
A (start-aligned), B (centred), C (end-aligned) do not overlap and lie inside the side, for all
min- and max-content inputs, whenever the content fits at its min-content sizes.  When it does not fit the
code keeps every box at its min-content size (upstream tests: "use at least minimum widths, even if
boxes overlap"), so the hypothesis is necessary: `Witness.C14.margin_boxes_overlap`.
-/
import WpModel.Model.PageBoxes

namespace Wp.C14
open Wp Wp.PageBoxes

/-- Outer size of a resolved box. -/
def VBox.outerOf (b : VBox) (w : Rat) : Rat := b.sugar + w

private theorem div_nonneg'' (x s : Rat) (hx : 0 ≤ x) (hs : 0 < s) : 0 ≤ x / s := by
  rw [Rat.div_def]
  exact Rat.mul_nonneg hx (Rat.le_of_lt (Rat.inv_pos.mpr hs))

private theorem flexSum_pos' (x : Rat) (h : 0 ≤ x) : 0 < flexSum x := by
  unfold flexSum; split <;> grind

private theorem flexSum_ge (x : Rat) (h : 0 ≤ x) : x ≤ flexSum x := by
  unfold flexSum; split <;> grind

/-- A flex share never exceeds the flex space: `0 ≤ space · f / Σ ≤ space` for `0 ≤ f ≤ Σ`. -/
private theorem share_bounds (space f s : Rat) (hsp : 0 ≤ space) (hf : 0 ≤ f) (hs : 0 < s) (hfs : f ≤ s) :
    0 ≤ space * f / s ∧ space * f / s ≤ space := by
  have h1 : 0 ≤ space * f / s := div_nonneg'' _ _ (Rat.mul_nonneg hsp hf) hs
  have h2 : 0 ≤ space * (s - f) / s := div_nonneg'' _ _ (Rat.mul_nonneg hsp (by grind)) hs
  have h3 : space * f / s + space * (s - f) / s = space := by
    have : s ≠ 0 := by grind
    grind
  exact ⟨h1, by grind⟩

/-- The `outer` setter never makes a box larger than asked, provided the request leaves room for its
min-content size. -/
theorem setOuter_le (a : VBox) (x : Rat) (_hm : a.minC ≤ a.maxC) (hx : a.sugar + a.minC ≤ x) :
    ∃ w, (a.setOuter x).inner = some w ∧ a.sugar + w ≤ x ∧ a.minC ≤ w ∧ w ≤ a.maxC := by
  refine ⟨_, rfl, ?_, ?_, ?_⟩ <;> grind

/-- … and never smaller than its min-content size, whatever is asked. -/
theorem setOuter_ge_min (a : VBox) (x : Rat) (hm : a.minC ≤ a.maxC) :
    ∃ w, (a.setOuter x).inner = some w ∧ a.minC ≤ w ∧ w ≤ a.maxC := by
  refine ⟨_, rfl, ?_, ?_⟩ <;> grind

/-- Resolution of an `auto` middle box B against the imaginary box AC: when the three fit at their
min-content sizes, B leaves at least `2 · max(A, C outer min-content)` free. -/
theorem resolve_b_leaves_room (a b c : VBox) (avail : Rat)
    (hsb : 0 ≤ b.sugar) (hmb : b.minC ≤ b.maxC) (hma : a.minC ≤ a.maxC) (hmc : c.minC ≤ c.maxC)
    (hb : b.inner = none)
    (hfit : avail > b.outerMin + 2 * max a.outerMin c.outerMin) :
    ∃ w, (varResolveB a b c avail).inner = some w ∧
      b.sugar + w ≤ avail - 2 * max a.outerMin c.outerMin ∧ b.minC ≤ w ∧ w ≤ b.maxC := by
  have hamono : a.outerMin ≤ a.outerMax := by
    unfold VBox.outerMin VBox.outerMax; cases a.inner <;> grind
  have hcmono : c.outerMin ≤ c.outerMax := by
    unfold VBox.outerMin VBox.outerMax; cases c.inner <;> grind
  unfold varResolveB
  generalize a.outerMin = am at *
  generalize a.outerMax = aM at *
  generalize c.outerMin = cm at *
  generalize c.outerMax = cM at *
  simp only [VBox.outerMin, VBox.outerMax, hb] at *
  split
  · -- the three fit at max-content: B is clamped at its max-content size
    refine ⟨_, rfl, ?_, ?_, ?_⟩ <;> grind
  ·    -- they fit at min-content: B gets its share of the flex space
    have hs := flexSum_pos' (b.maxC - b.minC + (2 * max aM cM - 2 * max am cm)) (by grind)
    have hge := flexSum_ge (b.maxC - b.minC + (2 * max aM cM - 2 * max am cm)) (by grind)
    have sb := share_bounds (avail - (b.sugar + b.minC) - 2 * max am cm) (b.maxC - b.minC) _
      (by grind) (by grind) hs (by grind)
    refine ⟨_, rfl, ?_, ?_, ?_⟩ <;> grind


private theorem resolveB_is_set (a b c : VBox) (avail : Rat) : ∃ v, varResolveB a b c avail = b.setOuter v := by
  unfold varResolveB
  simp only
  split
  · exact ⟨_, rfl⟩
  · split <;> exact ⟨_, rfl⟩

/-- With B generated, `auto` A and C are both given the outer size `(avail − B.outer) / 2`; whenever that
leaves room for their min-content sizes they do not reach into B (placed at offset ½): no overlap on the
side, and the three boxes lie inside it. -/
theorem variable_dimension_no_overlap_b (a b c : VBox) (avail : Rat) (ra rb rc : RBox)
    (ha : a.inner = none) (hc : c.inner = none) (hma : a.minC ≤ a.maxC) (hmc : c.minC ≤ c.maxC)
    (h : computeVariable a b c true avail = .ok (ra, rb, rc))
    (hroom : max a.outerMin c.outerMin ≤ (avail - rb.outer b.ppb) / 2) :
    ra.outer a.ppb ≤ (avail - rb.outer b.ppb) / 2 ∧ rc.outer c.ppb ≤ (avail - rb.outer b.ppb) / 2 ∧
    ra.outer a.ppb + rb.outer b.ppb + rc.outer c.ppb ≤ avail := by
  have key : ∀ b' : VBox, ∀ bi : Rat, b'.inner = some bi → b'.ma = b.ma → b'.mb = b.mb → b'.ppb = b.ppb →
      variableStep a b c true avail =
        .ok (a.setOuter ((avail - (b'.sugar + bi)) / 2), b', c.setOuter ((avail - (b'.sugar + bi)) / 2)) →
      ra.outer a.ppb ≤ (avail - rb.outer b.ppb) / 2 ∧ rc.outer c.ppb ≤ (avail - rb.outer b.ppb) / 2 ∧
      ra.outer a.ppb + rb.outer b.ppb + rc.outer c.ppb ≤ avail := by
    intro b' bi hbi e1 e2 e3 hstep
    simp only [computeVariable, hstep, VBox.setOuter, hbi, Except.ok.injEq, Prod.mk.injEq] at h
    obtain ⟨rfl, rfl, rfl⟩ := h
    simp only [RBox.outer, VBox.sugar, VBox.outerMin, ha, hc] at *
    grind
  cases hb : b.inner with
  | none =>
    obtain ⟨v, e⟩ := resolveB_is_set a b c avail
    refine key (b.setOuter v) _ rfl rfl rfl rfl ?_
    simp only [variableStep, Bool.not_true, Bool.false_eq_true, ↓reduceIte, hb, ha, hc, e]
    try rfl
  | some w =>
    refine key b w hb rfl rfl rfl ?_
    simp only [variableStep, Bool.not_true, Bool.false_eq_true, ↓reduceIte, hb, ha, hc]
    try rfl

/-- **variable_dimension (B generated, everything `auto`).**  For all min-content / max-content sizes
with `min ≤ max`, non-negative padding + border + margins of B: if the three boxes fit at their
min-content sizes (the first two flex-fit branches), the resolved boxes share the side without
overlapping: `A.outer ≤ (avail − B.outer)/2`, `C.outer ≤ (avail − B.outer)/2`, total `≤ avail`, and each
size lies within its box's content sizes. -/
theorem variable_dimension_three_fit (a b c : VBox) (avail : Rat) (ra rb rc : RBox)
    (ha : a.inner = none) (hb : b.inner = none) (hc : c.inner = none)
    (hsb : 0 ≤ b.sugar) (hma : a.minC ≤ a.maxC) (hmb : b.minC ≤ b.maxC) (hmc : c.minC ≤ c.maxC)
    (hfit : avail > b.outerMin + 2 * max a.outerMin c.outerMin)
    (h : computeVariable a b c true avail = .ok (ra, rb, rc)) :
    ra.outer a.ppb ≤ (avail - rb.outer b.ppb) / 2 ∧ rc.outer c.ppb ≤ (avail - rb.outer b.ppb) / 2 ∧
    ra.outer a.ppb + rb.outer b.ppb + rc.outer c.ppb ≤ avail := by
  obtain ⟨w, hw, hle, _, _⟩ := resolve_b_leaves_room a b c avail hsb hmb hma hmc hb hfit
  -- identify rb with the resolved B
  have hrb : rb.outer b.ppb = b.sugar + w := by
    obtain ⟨v, e⟩ := resolveB_is_set a b c avail
    have hstep : variableStep a b c true avail =
        .ok (a.setOuter ((avail - ((b.setOuter v).sugar + w)) / 2), b.setOuter v,
             c.setOuter ((avail - ((b.setOuter v).sugar + w)) / 2)) := by
      have hw' : (b.setOuter v).inner = some w := by rw [← e]; exact hw
      simp only [variableStep, Bool.not_true, Bool.false_eq_true, ↓reduceIte, hb, ha, hc, e, hw']
      try rfl
    have h' := h
    simp only [computeVariable, hstep, VBox.setOuter, Except.ok.injEq, Prod.mk.injEq] at h'
    have hw'' : (b.setOuter v).inner = some w := by rw [← e]; exact hw
    simp only [VBox.setOuter, Option.some.injEq] at hw''
    obtain ⟨_, rfl, _⟩ := h'
    simp only [RBox.outer, VBox.sugar] at *
    grind
  exact variable_dimension_no_overlap_b a b c avail ra rb rc ha hc hma hmc h (by rw [hrb]; grind)

/-- **variable_dimension (no B, A and C `auto`).**  Whenever A and C fit at their min-content sizes, the
resolved boxes (A start-aligned, C end-aligned) do not overlap: `A.outer + C.outer ≤ avail`. -/
theorem variable_dimension_two_fit (a b c : VBox) (avail : Rat) (ra rb rc : RBox)
    (ha : a.inner = none) (hc : c.inner = none)
    (hsa : 0 ≤ a.sugar) (hsc : 0 ≤ c.sugar) (hma : a.minC ≤ a.maxC) (hmc : c.minC ≤ c.maxC)
    (hfit : avail > a.outerMin + c.outerMin)
    (h : computeVariable a b c false avail = .ok (ra, rb, rc)) :
    ra.outer a.ppb + rc.outer c.ppb ≤ avail := by
  have hb0 : b.inner = some 0 := by
    cases hb : b.inner with
    | none => simp [computeVariable, variableStep, hb] at h
    | some w =>
      by_cases hw : w = 0
      · rw [hw]
      · simp [computeVariable, variableStep, hb, hw] at h
  have hstep : variableStep a b c false avail =
      .ok ((varNoBBothAuto a c avail).1, b, (varNoBBothAuto a c avail).2) := by
    simp [variableStep, hb0, ha, hc]
  simp only [computeVariable, hstep, hb0] at h
  -- the two resolved sizes
  have hbranch : ∃ wa wc, (varNoBBothAuto a c avail).1 = { a with inner := some wa } ∧
      (varNoBBothAuto a c avail).2 = { c with inner := some wc } ∧ (a.sugar + wa) + (c.sugar + wc) ≤ avail := by
    unfold varNoBBothAuto
    simp only [VBox.outerMin, VBox.outerMax, ha, hc] at *
    split
    · refine ⟨_, _, rfl, rfl, ?_⟩
      grind
    · have hs := flexSum_pos' (a.maxC - a.minC + (c.maxC - c.minC)) (by grind)
      have hge := flexSum_ge (a.maxC - a.minC + (c.maxC - c.minC)) (by grind)
      have s1 := share_bounds (avail - (a.sugar + a.minC) - (c.sugar + c.minC)) (a.maxC - a.minC) _
        (by grind) (by grind) hs (by grind)
      have s2 := share_bounds (avail - (a.sugar + a.minC) - (c.sugar + c.minC)) (c.maxC - c.minC) _
        (by grind) (by grind) hs (by grind)
      have hsum : (avail - (a.sugar + a.minC) - (c.sugar + c.minC)) * (a.maxC - a.minC) /
            flexSum (a.maxC - a.minC + (c.maxC - c.minC)) +
          (avail - (a.sugar + a.minC) - (c.sugar + c.minC)) * (c.maxC - c.minC) /
            flexSum (a.maxC - a.minC + (c.maxC - c.minC)) ≤
          avail - (a.sugar + a.minC) - (c.sugar + c.minC) := by
        unfold flexSum at *
        split
        · rename_i h0
          have : c.maxC - c.minC = -(a.maxC - a.minC) := by grind
          rw [this]; grind
        · rename_i h0
          have : (avail - (a.sugar + a.minC) - (c.sugar + c.minC)) * (a.maxC - a.minC) /
              (a.maxC - a.minC + (c.maxC - c.minC)) +
            (avail - (a.sugar + a.minC) - (c.sugar + c.minC)) * (c.maxC - c.minC) /
              (a.maxC - a.minC + (c.maxC - c.minC)) = avail - (a.sugar + a.minC) - (c.sugar + c.minC) := by
            grind
          grind
      refine ⟨_, _, rfl, rfl, ?_⟩
      grind
  obtain ⟨wa, wc, e1, e2, hle⟩ := hbranch
  rw [e1, e2] at h
  simp only [Except.ok.injEq, Prod.mk.injEq] at h
  obtain ⟨rfl, rfl, rfl⟩ := h
  simp only [RBox.outer, VBox.sugar] at *
  grind

-- non-vacuity: three auto boxes that fit at min-content (second branch) and the two-box case
example : (match computeVariable ⟨none, 0, 0, 2, 20, 60⟩ ⟨none, 1, 1, 2, 30, 90⟩ ⟨none, 0, 0, 0, 10, 50⟩ true 120 with
    | .ok (ra, rb, rc) =>
      decide ((120 : Rat) > (VBox.mk none 1 1 2 30 90).outerMin +
        2 * max (VBox.mk none 0 0 2 20 60).outerMin (VBox.mk none 0 0 0 10 50).outerMin) &&
      decide (ra.outer 2 ≤ (120 - rb.outer 2) / 2) && decide (rc.outer 0 ≤ (120 - rb.outer 2) / 2) &&
      decide (ra.outer 2 + rb.outer 2 + rc.outer 0 ≤ 120)
    | .error _ => false) = true := by decide +kernel

example : (match computeVariable ⟨none, 0, 0, 2, 20, 60⟩ ⟨some 0, 0, 0, 0, 0, 0⟩ ⟨none, 0, 0, 0, 10, 50⟩ false 80 with
    | .ok (ra, _, rc) => decide (ra.outer 2 + rc.outer 0 ≤ 80) && decide (ra.inner > 20)
    | .error _ => false) = true := by decide +kernel

/-- Dead code: in the *second* flex-fit branch (fits at min-content but not at max-content) the flex
factor sum `Σ (max-content − min-content)` is strictly positive, so the `if flex_factor_sum == 0:
flex_factor_sum = 1` guards of that branch can never fire — without B … -/
theorem fit_min_factor_sum_pos (a c : VBox) (avail : Rat) (ha : a.inner = none) (hc : c.inner = none)
    (h1 : ¬ avail > a.outerMax + c.outerMax) (h2 : avail > a.outerMin + c.outerMin) :
    0 < (a.maxC - a.minC) + (c.maxC - c.minC) ∧
    flexSum ((a.maxC - a.minC) + (c.maxC - c.minC)) = (a.maxC - a.minC) + (c.maxC - c.minC) := by
  simp only [VBox.outerMin, VBox.outerMax, ha, hc] at h1 h2
  have : 0 < (a.maxC - a.minC) + (c.maxC - c.minC) := by grind
  exact ⟨this, by unfold flexSum; split <;> grind⟩

/-- … and with an `auto` B resolved against the imaginary box AC. -/
theorem fit_min_factor_sum_pos_b (a b c : VBox) (avail : Rat) (hb : b.inner = none)
    (h1 : ¬ avail > b.outerMax + 2 * max a.outerMax c.outerMax)
    (h2 : avail > b.outerMin + 2 * max a.outerMin c.outerMin) :
    0 < (b.maxC - b.minC) + (2 * max a.outerMax c.outerMax - 2 * max a.outerMin c.outerMin) := by
  simp only [VBox.outerMin, VBox.outerMax, hb] at h1 h2
  simp only [VBox.outerMin, VBox.outerMax]
  grind

example : ¬ (70 : Rat) > (VBox.mk none 0 0 0 20 40).outerMax + (VBox.mk none 0 0 0 20 40).outerMax := by
  simp [VBox.outerMax, VBox.sugar]; grind

/-- **css-page-3 §5.3.2: the centre box is resolved against the imaginary box "AC", twice the larger of its two
neighbours — so its size does not depend on which side the larger neighbour is**: exchanging A and C leaves the
resolved B unchanged, for all boxes and every available size. -/
theorem resolve_b_symmetric (a b c : VBox) (avail : Rat) : varResolveB a b c avail = varResolveB c b a avail := by
  have hmax : ∀ x y : Rat, max x y = max y x := by
    intro x y; simp only [Rat.max_def]; split <;> split <;> grind
  unfold varResolveB
  simp only [hmax a.outerMax c.outerMax, hmax a.outerMin c.outerMin]

/-- Non-vacuity: A narrow, C wide with wrappable content — the case in which reading C's *min*-content size for the
maximum of "AC" (seeded change C14-10) changes B: B is 70/3 wide whichever side the wide neighbour is on. -/
example : (varResolveB ⟨none, 0, 0, 0, 10, 20⟩ ⟨none, 0, 0, 0, 10, 40⟩ ⟨none, 0, 0, 0, 10, 100⟩ 150).inner =
    (varResolveB ⟨none, 0, 0, 0, 10, 100⟩ ⟨none, 0, 0, 0, 10, 40⟩ ⟨none, 0, 0, 0, 10, 20⟩ 150).inner := by
  decide +kernel

end Wp.C14
