/-
C19 — the propagation of text-decoration-line (`Model/TextDecoration`): the lines of an element are its own lines
together with its parent's, whatever was computed before — the function has no memory, and (on the implementation, by
the `text-decoration` correspondence section) it leaves its arguments as they are: the set of a cascaded value belongs
to the parsed style sheet, shared by the elements the rule matches and by the renders that use the sheet.
-/
import WpModel.Model.TextDecoration

namespace Wp.C19.Cascade
open Wp Wp.TextDecoration

/-- The lines a value draws. -/
def has (v : Val) (l : Line) : Bool :=
  match v with
  | .lines h => h l
  | _ => false

/-- **lines_are_own_and_parents**: for text-decoration-line (values `'none'` or sets), an element draws exactly its own
lines and its parent's. -/
theorem lines_are_own_and_parents (value parent : Val) (cascaded : Bool) (l : Line)
    (hv : ∀ id, value ≠ .other id) (hp : ∀ id, parent ≠ .other id) :
    has (textDecoration .line value parent cascaded) l = (has value l || has parent l) := by
  cases value with
  | none => cases parent with
    | none => rfl
    | lines b => simp [textDecoration, Val.isNone, has]
    | other id => exact absurd rfl (hp id)
  | lines a => cases parent with
    | none => simp [textDecoration, Val.isNone, has]
    | lines b => simp [textDecoration, Val.isNone, has, union]
    | other id => exact absurd rfl (hp id)
  | other id => exact absurd rfl (hv id)

/-- Propagating twice from the same parent changes nothing more (a second render of the same tree, or a second element
matched by the same rule under the same parent, computes the same lines). -/
theorem propagation_idempotent (value parent : Val) (c1 c2 : Bool) (l : Line)
    (hv : ∀ id, value ≠ .other id) (hp : ∀ id, parent ≠ .other id) :
    has (textDecoration .line (textDecoration .line value parent c1) parent c2) l =
      has (textDecoration .line value parent c1) l := by
  have hv' : ∀ id, textDecoration .line value parent c1 ≠ .other id := by
    intro id
    cases value with
    | none => cases parent with
      | none => simp [textDecoration, Val.isNone]
      | lines b => simp [textDecoration, Val.isNone]
      | other id' => exact absurd rfl (hp id')
    | lines a => cases parent <;> simp [textDecoration, Val.isNone]
    | other id' => exact absurd rfl (hv id')
  rw [lines_are_own_and_parents _ _ _ _ hv' hp, lines_are_own_and_parents _ _ _ _ hv hp]
  cases has value l <;> cases has parent l <;> rfl

/-- **own_value_independent_of_parent_history**: what an element computes depends on its own value and its parent's
only; in particular an element outside any decorated ancestor (`parent = 'none'`) draws exactly its own lines — the
statement the seeded change C19-7 broke on the implementation by writing the union into the rule's set. -/
theorem undecorated_parent_keeps_own (value : Val) (cascaded : Bool) :
    textDecoration .line value .none cascaded = value := by
  simp [textDecoration, Val.isNone]

/-- The other three properties: the cascaded value if there is one, else the parent's. -/
theorem colour_style_thickness (value parent : Val) (cascaded : Bool) :
    textDecoration .color value parent cascaded = (if cascaded then value else parent) ∧
    textDecoration .style value parent cascaded = (if cascaded then value else parent) ∧
    textDecoration .thickness value parent cascaded = (if cascaded then value else parent) := by
  cases cascaded <;> simp [textDecoration]

/-- Non-vacuity: `<u><s>` draws both lines, `<s>` alone one. -/
example :
    let u : Val := .lines (fun l => l == .underline)
    let s : Val := .lines (fun l => l == .lineThrough)
    (textDecoration .line s u true).render = "{underline+line-through}" ∧
    (textDecoration .line s .none true).render = "{line-through}" ∧
    (textDecoration .line .none u false).render = "{underline}" := by decide

end Wp.C19.Cascade
