/-
C11, fifth file — the constraint equations of absolutely / fixed positioned boxes at the *document level*: theorems
about `absoluteBlock` (`absolute_box_layout` + `absolute_block`: percentages resolved against the containing
rectangle, `absolute_width` under its min/max wrapper, `absolute_height`, the content layout, the final translation),
obtained by composing the function-level theorems of `Props/C11.lean` (`abs_width_wrapper`, `abs_equation_h`,
`abs_left_honoured`, `abs_static_position_h`, `abs_width_minmax`, `abs_equation_v`).  They lift the clauses that the
Python oracle `abs_doc_violation` checks on sampled rendered documents to every computed style and containing
block of the model.
-/
import WpModel.Props.C11

namespace Wp.C11
open Wp Wp.Absolute

/-- The horizontal attributes `absolute_box_layout` hands to `absolute_width`: percentages resolved against the
width of the containing rectangle. -/
def hboxOf (st : AbsStyle) (cb : Rect) (minC maxC sx : Rat) : HBox :=
  { left := st.left.resolve cb.w, right := st.right.resolve cb.w, width := st.width.resolve cb.w,
    ml := st.ml.resolve cb.w, mr := st.mr.resolve cb.w,
    pl := autoZero (st.pl.resolve cb.w), pr := autoZero (st.pr.resolve cb.w), bl := st.bl, br := st.br,
    minW := autoZero (st.minW.resolve cb.w), maxW := st.maxW.resolve cb.w,
    minC := minC, maxC := maxC, posX := sx }

/-- The vertical attributes handed to `absolute_height` (margins and paddings refer to the *width*). -/
def vboxOf (st : AbsStyle) (cb : Rect) (sy : Rat) : VBox :=
  { top := st.top.resolve cb.h, bottom := st.bottom.resolve cb.h, height := st.height.resolve cb.h,
    mt := st.mt.resolve cb.w, mb := st.mb.resolve cb.w,
    pt := autoZero (st.pt.resolve cb.w), pbot := autoZero (st.pbot.resolve cb.w), bt := st.bt, bb := st.bb,
    posY := sy }

/-- `absolute_block` decomposed: horizontally the result is the one-pass result (`usedH`) for the box with the
width that the min/max wrapper settled on; vertically it is `absolute_height` followed by the translation for the
used height. -/
theorem absoluteBlock_ok (st : AbsStyle) (cb : Rect) (ltr : Bool) (sx sy minC maxC hW hN : Rat) (r : AbsResult)
    (h : absoluteBlock st cb ltr sx sy minC maxC hW hN = .ok r) :
    (∃ w', absoluteWidth (hboxOf st cb minC maxC sx) ltr cb.x cb.w =
        .ok (absoluteWidthCore ((hboxOf st cb minC maxC sx).setWidth w') ltr cb.x cb.w) ∧
           (w' = (hboxOf st cb minC maxC sx).width ∨
            (∃ mx, (hboxOf st cb minC maxC sx).maxW = some mx ∧ w' = some mx) ∨
            w' = some (hboxOf st cb minC maxC sx).minW) ∧
      let u := usedH ((hboxOf st cb minC maxC sx).setWidth w') ltr cb.x cb.w
      r.x = u.x ∧ r.width = u.w ∧ r.ml = u.ml ∧ r.mr = u.mr ∧
      r.mw = u.w + (hboxOf st cb minC maxC sx).pb + u.ml + u.mr) ∧
    (let rv := absoluteHeight (vboxOf st cb sy) cb.y cb.h
     r.y = finalY rv r.height ∧ r.mt = autoZero rv.1.mt ∧ r.mb = autoZero rv.1.mb ∧
     r.mh = r.height + (vboxOf st cb sy).pb + r.mt + r.mb) := by
  unfold absoluteBlock at h
  simp only at h
  change (match absoluteWidth (hboxOf st cb minC maxC sx) ltr cb.x cb.w with
    | .error e => _ | .ok rh => _) = _ at h
  obtain ⟨w', hw, hw'⟩ := abs_width_wrapper (hboxOf st cb minC maxC sx) ltr cb.x cb.w
  rw [hw] at h
  simp only at h
  obtain ⟨hres, _⟩ := abs_width_resolved ((hboxOf st cb minC maxC sx).setWidth w') ltr cb.x cb.w
  cases hwid : (absoluteWidthCore ((hboxOf st cb minC maxC sx).setWidth w') ltr cb.x cb.w).1.width with
  | none => rw [hwid] at hres; simp at hres
  | some w =>
    simp only [finalX, hwid] at h
    simp only [Except.ok.injEq] at h
    subst h
    refine ⟨⟨w', hw, hw', ?_⟩, ?_⟩
    · refine ⟨?_, ?_, ?_, ?_, ?_⟩ <;>
        first
          | rfl
          | (simp only [usedH, hwid, autoZero]; done)
          | (simp only [usedH, hwid, autoZero]; rfl)
    · exact ⟨rfl, rfl, rfl, rfl⟩


private theorem finalY_top (b : VBox) (cbY cbH h t : Rat) (ht : b.top = some t) :
    finalY (absoluteHeight b cbY cbH) h = cbY + t := by
  rcases b with ⟨t0, bo, hh, mt, mb, pt, pb, bt, bb, py⟩
  simp at ht; subst ht
  cases bo <;> cases hh <;> cases mt <;> cases mb <;> simp [absoluteHeight, finalY] <;> grind

private theorem finalY_static (b : VBox) (cbY cbH h : Rat) (ht : b.top = none) (hb : b.bottom = none) :
    finalY (absoluteHeight b cbY cbH) h = b.posY := by
  rcases b with ⟨t0, bo, hh, mt, mb, pt, pb, bt, bb, py⟩
  simp at ht hb; subst ht; subst hb
  cases hh <;> cases mt <;> cases mb <;> simp [absoluteHeight, finalY] <;> grind

/-- **The horizontal constraint equation at the document level** (CSS 2.1 §10.3.7, the first clause of the property
for positioned boxes): whatever the computed style of an absolutely / fixed positioned block — every offset, size
and margin independently auto, px or a percentage of the containing block, paddings, borders, `min-width` /
`max-width` included (the wrapper re-solves the equation with the clamped width) — in ltr and rtl,
`absolute_box_layout` + `absolute_block` place its margin box so that a specified `left` is the distance from the
left edge of the containing rectangle, a specified `right` the distance to its right edge:
`left + margin box + right = width of the containing block`; with both auto (ltr) the static position is kept; the
margin box is the used width plus paddings, borders and used margins; the used width respects `min-width`, and
`max-width` when that is not below `min-width`. -/
theorem abs_block_equation_h (st : AbsStyle) (cb : Rect) (ltr : Bool) (sx sy minC maxC hW hN : Rat) (r : AbsResult)
    (h : absoluteBlock st cb ltr sx sy minC maxC hW hN = .ok r) :
    (∀ l, st.left.resolve cb.w = some l → r.x = cb.x + l) ∧
    (∀ rt, st.right.resolve cb.w = some rt → r.x + r.mw + rt = cb.x + cb.w) ∧
    (st.left.resolve cb.w = none → st.right.resolve cb.w = none → ltr = true → r.x = sx) ∧
    r.mw = r.width + (autoZero (st.pl.resolve cb.w) + autoZero (st.pr.resolve cb.w) + st.bl + st.br) + r.ml + r.mr ∧
    autoZero (st.minW.resolve cb.w) ≤ r.width ∧
    (∀ mx, st.maxW.resolve cb.w = some mx → autoZero (st.minW.resolve cb.w) ≤ mx → r.width ≤ mx) := by
  obtain ⟨⟨w', hw, _, hx, hwd, hml, hmr, hmw⟩, _⟩ := absoluteBlock_ok st cb ltr sx sy minC maxC hW hN r h
  have e1 : ((hboxOf st cb minC maxC sx).setWidth w').left = st.left.resolve cb.w := rfl
  have e2 : ((hboxOf st cb minC maxC sx).setWidth w').right = st.right.resolve cb.w := rfl
  have e3 : ((hboxOf st cb minC maxC sx).setWidth w').pb = (hboxOf st cb minC maxC sx).pb := rfl
  refine ⟨?_, ?_, ?_, ?_, ?_⟩
  · intro l hl
    rw [hx]; exact abs_left_honoured _ ltr cb.x cb.w l (by rw [e1]; exact hl)
  · intro rt hrt
    have := abs_equation_h _ ltr cb.x cb.w rt (by rw [e2]; exact hrt)
    simp only [e3] at this
    rw [hx, hmw]; grind
  · intro hl hr hltr
    have := (abs_static_position_h _ ltr cb.x cb.w (by rw [e1]; exact hl) (by rw [e2]; exact hr)).1 hltr
    rw [hx]; exact this
  · rw [hmw, hwd, hml, hmr]; simp only [hboxOf, HBox.pb]
  · obtain ⟨hres, _⟩ := abs_width_resolved ((hboxOf st cb minC maxC sx).setWidth w') ltr cb.x cb.w
    cases hwid : (absoluteWidthCore ((hboxOf st cb minC maxC sx).setWidth w') ltr cb.x cb.w).1.width with
    | none => rw [hwid] at hres; simp at hres
    | some w =>
      have hm := abs_width_minmax (hboxOf st cb minC maxC sx) ltr cb.x cb.w _ w hw hwid
      have hrw : r.width = w := by rw [hwd]; simp [usedH, hwid, autoZero]
      rw [hrw]
      exact hm

/-- **The vertical constraint equation at the document level** (CSS 2.1 §10.6.4): a specified `top` is the distance
from the top edge of the containing rectangle (always); with `top` and `bottom` auto the static position is kept;
the margin box is the used height plus paddings, borders and used margins; and a specified `bottom` is the distance
to the bottom edge — `top + margin box + bottom = height of the containing block` — provided that a specified (or
`top`/`bottom`-solved) height was not changed afterwards by `min-height` / `max-height` (the excluded case: the
clamp is applied by `block_container_layout` after `absolute_height` solved the equation, and nothing is re-solved;
an auto height that is clamped is fine, the translation uses the used height). -/
theorem abs_block_equation_v_partial (st : AbsStyle) (cb : Rect) (ltr : Bool) (sx sy minC maxC hW hN : Rat)
    (r : AbsResult) (h : absoluteBlock st cb ltr sx sy minC maxC hW hN = .ok r) :
    (∀ t, st.top.resolve cb.h = some t → r.y = cb.y + t) ∧
    (st.top.resolve cb.h = none → st.bottom.resolve cb.h = none → r.y = sy) ∧
    r.mh = r.height + (autoZero (st.pt.resolve cb.w) + autoZero (st.pbot.resolve cb.w) + st.bt + st.bb) +
      r.mt + r.mb ∧
    (∀ b, st.bottom.resolve cb.h = some b →
      (∀ hs, (absoluteHeight (vboxOf st cb sy) cb.y cb.h).1.height = some hs → r.height = hs) →
      r.y + r.mh + b = cb.y + cb.h) := by
  obtain ⟨_, hy, hmt, hmb, hmh⟩ := absoluteBlock_ok st cb ltr sx sy minC maxC hW hN r h
  refine ⟨?_, ?_, ?_, ?_⟩
  · intro t ht
    rw [hy]; exact finalY_top _ cb.y cb.h _ t ht
  · intro ht hb
    rw [hy]; exact finalY_static _ cb.y cb.h _ ht hb
  · rw [hmh]; simp only [vboxOf, VBox.pb]
  · intro b hb hun
    have heq := abs_equation_v (vboxOf st cb sy) cb.y cb.h r.height b hb
    have hh : (usedV (vboxOf st cb sy) cb.y cb.h r.height).h = r.height := by
      simp only [usedV]
      cases hc : (absoluteHeight (vboxOf st cb sy) cb.y cb.h).1.height with
      | none => rfl
      | some hs => exact (hun hs hc).symm
    have hyy : (usedV (vboxOf st cb sy) cb.y cb.h r.height).y = r.y := by
      rw [hy]
      simp only [usedV, finalY]
      cases hc : (absoluteHeight (vboxOf st cb sy) cb.y cb.h).1.height with
      | none => rfl
      | some hs => rw [hun hs hc]
    simp only at heq
    rw [hyy, hh] at heq
    have e1 : (usedV (vboxOf st cb sy) cb.y cb.h r.height).mt = r.mt := by rw [hmt]; rfl
    have e2 : (usedV (vboxOf st cb sy) cb.y cb.h r.height).mb = r.mb := by rw [hmb]; rfl
    rw [e1, e2] at heq
    rw [hmh]; grind

/-- Non-vacuity (percentages, paddings, borders, an active `max-width`): `right: 10%` of a 200px containing block at
x = 20, auto width with content 30..70 wide, `max-width: 40px`: the margin box (47px) ends 20px before the right
edge, `top: 5px` below the top edge. -/
example :
    let st : AbsStyle := ⟨.auto, .pct 10, .px 5, .auto, .auto, .auto, .px 3, .auto, .px 0, .px 0,
      .px 2, .px 0, .px 0, .px 0, 1, 1, 0, 0, .auto, .px 40, .auto, .auto⟩
    (absoluteBlock st ⟨20, 10, 200, 100⟩ true 5 7 30 70 10 20).toOption.map
      (fun r => (r.x, r.y, r.mw, r.width, r.x + r.mw + 20)) = some (153, 15, 47, 40, 20 + 200) := by
  decide +kernel

/-! ## Replaced boxes (`absolute_replaced`) at the document level -/

/-- `absolute_replaced`, both halves composed, with everything that is known about each used value: the result is
placed at `cb + (left, top)`; both constraint equations hold; a specified offset is the used one (except the one
CSS 2.1 §10.3.8 / §10.6.5 say to ignore when nothing is auto: `right` in ltr, `left` in rtl, `bottom`); with both
offsets of an axis auto the static position is kept (ltr horizontally). -/
theorem abs_replaced_full (b : RBox) (ltr : Bool) (cbX cbY cbW cbH : Rat) :
    ∃ r l rt t bo ml mr mt mb, absoluteReplaced b ltr cbX cbY cbW cbH = .ok r ∧
      r.posX = cbX + l ∧ r.posY = cbY + t ∧
      r.ml = some ml ∧ r.mr = some mr ∧ r.mt = some mt ∧ r.mb = some mb ∧
      r.borderWidth = b.borderWidth ∧ r.borderHeight = b.borderHeight ∧
      l + ml + b.borderWidth + mr + rt = cbW ∧
      t + mt + b.borderHeight + mb + bo = cbH ∧
      (∀ l0, b.left = some l0 → (b.right = none ∨ b.ml = none ∨ b.mr = none ∨ ltr = true) → l = l0) ∧
      (∀ r0, b.right = some r0 → (b.left = none ∨ b.ml = none ∨ b.mr = none ∨ ltr = false) → rt = r0) ∧
      (∀ t0, b.top = some t0 → t = t0) ∧
      (∀ b0, b.bottom = some b0 → (b.top = none ∨ b.mt = none ∨ b.mb = none) → bo = b0) ∧
      (b.left = none → b.right = none → ltr = true → l = b.posX - cbX) ∧
      (b.top = none → b.bottom = none → t = b.posY - cbY) := by
  obtain ⟨l, rt, ml, mr, h1, h2, h3, h4, hf, kl, kr, ks, heq⟩ := abs_replaced_h b ltr cbX cbW
  obtain ⟨t, bo, mt, mb, g1, g2, g3, g4, gf, kt, kb, kvs, _, geq⟩ :=
    abs_replaced_v (absoluteReplacedH b ltr cbX cbW) cbY cbH
  have e1 : (absoluteReplacedH b ltr cbX cbW).top = b.top := by rw [hf]
  have e2 : (absoluteReplacedH b ltr cbX cbW).bottom = b.bottom := by rw [hf]
  have e3 : (absoluteReplacedH b ltr cbX cbW).mt = b.mt := by rw [hf]
  have e4 : (absoluteReplacedH b ltr cbX cbW).mb = b.mb := by rw [hf]
  have e5 : (absoluteReplacedH b ltr cbX cbW).borderHeight = b.borderHeight := by
    rw [hf]; simp [RBox.borderHeight]
  have e6 : (absoluteReplacedH b ltr cbX cbW).borderWidth = b.borderWidth := by
    rw [hf]; simp [RBox.borderWidth]
  have e7 : (absoluteReplacedH b ltr cbX cbW).posY = b.posY := by rw [hf]
  have hl : (absoluteReplacedV (absoluteReplacedH b ltr cbX cbW) cbY cbH).left = some l := by
    rw [gf]; simp; exact h1
  refine ⟨{ absoluteReplacedV (absoluteReplacedH b ltr cbX cbW) cbY cbH with posX := cbX + l, posY := cbY + t },
    l, rt, t, bo, ml, mr, mt, mb, ?_, rfl, rfl, ?_, ?_, ?_, ?_, ?_, ?_, heq, ?_, kl, kr, ?_, ?_, ?_, ?_⟩
  · unfold absoluteReplaced
    simp only
    rw [hl, g1]
  · simp; rw [gf]; simp; exact h3
  · simp; rw [gf]; simp; exact h4
  · simp; exact g3
  · simp; exact g4
  · simp only [RBox.borderWidth]; rw [gf]; simp; exact e6
  · simp only [RBox.borderHeight]; rw [gf]; simp; exact e5
  · rw [← e5]; exact geq
  · intro t0 ht; exact kt t0 (by rw [e1]; exact ht)
  · intro b0 hb hc; exact kb b0 (by rw [e2]; exact hb) (by rw [e1, e3, e4]; exact hc)
  · intro hl0 hr0 hltr; exact (ks hl0 hr0).1 hltr
  · intro ht hb; rw [← e7]; exact kvs (by rw [e1]; exact ht) (by rw [e2]; exact hb)

/-- The box `absolute_box_layout` hands to `absolute_replaced` for an image with specified sizes `w`, `h`. -/
def rboxOf (st : AbsStyle) (cb : Rect) (w h sx sy : Rat) : RBox :=
  { left := st.left.resolve cb.w, right := st.right.resolve cb.w,
    top := st.top.resolve cb.h, bottom := st.bottom.resolve cb.h,
    ml := st.ml.resolve cb.w, mr := st.mr.resolve cb.w, mt := st.mt.resolve cb.w, mb := st.mb.resolve cb.w,
    width := w, height := h,
    pl := autoZero (st.pl.resolve cb.w), pr := autoZero (st.pr.resolve cb.w), bl := st.bl, br := st.br,
    pt := autoZero (st.pt.resolve cb.w), pbot := autoZero (st.pbot.resolve cb.w), bt := st.bt, bb := st.bb,
    posX := sx, posY := sy }

/-- **The constraint equations of an absolutely / fixed positioned replaced box at the document level** (CSS 2.1
§10.3.8 / §10.6.5; `absolute_box_layout` + `absolute_replaced` for an image with specified sizes): whatever the
computed style — offsets and margins independently auto, px or percentages of the containing rectangle, paddings,
borders, ltr / rtl — there are used offsets `l rt t bo` with the margin box at `cb + (l, t)`,
`l + margin box + rt = width` and `t + margin box + bo = height` of the containing block; a specified offset is the
used one, except the one the specification says to ignore when nothing on the axis is auto (`right` in ltr, `left`
in rtl, `bottom`); with both offsets of an axis auto the static position is kept (ltr horizontally). -/
theorem abs_replaced_doc_equation (st : AbsStyle) (cb : Rect) (ltr : Bool) (sx sy : Rat) (r : AbsResult)
    (h : absoluteReplacedDoc st cb ltr sx sy = .ok r) :
    ∃ l rt t bo, r.x = cb.x + l ∧ r.y = cb.y + t ∧ l + r.mw + rt = cb.w ∧ t + r.mh + bo = cb.h ∧
      (∀ l0, st.left.resolve cb.w = some l0 → (st.right.resolve cb.w = none ∨ st.ml.resolve cb.w = none ∨
        st.mr.resolve cb.w = none ∨ ltr = true) → l = l0) ∧
      (∀ r0, st.right.resolve cb.w = some r0 → (st.left.resolve cb.w = none ∨ st.ml.resolve cb.w = none ∨
        st.mr.resolve cb.w = none ∨ ltr = false) → rt = r0) ∧
      (∀ t0, st.top.resolve cb.h = some t0 → t = t0) ∧
      (∀ b0, st.bottom.resolve cb.h = some b0 → (st.top.resolve cb.h = none ∨ st.mt.resolve cb.w = none ∨
        st.mb.resolve cb.w = none) → bo = b0) ∧
      (st.left.resolve cb.w = none → st.right.resolve cb.w = none → ltr = true → r.x = sx) ∧
      (st.top.resolve cb.h = none → st.bottom.resolve cb.h = none → r.y = sy) := by
  unfold absoluteReplacedDoc at h
  split at h
  · rename_i w hh hw hhh
    simp only at h
    change (match absoluteReplaced (rboxOf st cb w hh sx sy) ltr cb.x cb.y cb.w cb.h with
      | .error e => _ | .ok r => _) = _ at h
    obtain ⟨r', l, rt, t, bo, ml, mr, mt, mb, hok, px, py, m1, m2, m3, m4, bw, bh, eqh, eqv, kl, kr, kt, kb, sh, sv⟩ :=
      abs_replaced_full (rboxOf st cb w hh sx sy) ltr cb.x cb.y cb.w cb.h
    rw [hok] at h
    simp only [Except.ok.injEq] at h
    subst h
    simp only [m1, m2, m3, m4, autoZero]
    refine ⟨l, rt, t, bo, px, py, ?_, ?_, ?_, ?_, ?_, ?_, ?_, ?_⟩
    · rw [bw]; grind
    · rw [bh]; grind
    · intro l0 hl hc; exact kl l0 hl hc
    · intro r0 hr hc; exact kr r0 hr hc
    · intro t0 ht; exact kt t0 ht
    · intro b0 hb hc; exact kb b0 hb hc
    · intro hl hr hltr
      have := sh hl hr hltr
      have hp : (rboxOf st cb w hh sx sy).posX = sx := rfl
      rw [px, this, hp]; grind
    · intro ht hb
      have := sv ht hb
      have hp : (rboxOf st cb w hh sx sy).posY = sy := rfl
      rw [py, this, hp]; grind
  · simp at h

/-- Non-vacuity: an image 40x30 with `right: 10px; top: 10%; margin-right: 5px`, a 2px left padding and 1px borders
in a 200x100 containing rectangle at (20, 10): the margin box (49px) ends 10px before the right edge. -/
example :
    let st : AbsStyle := ⟨.auto, .px 10, .pct 10, .auto, .px 40, .px 30, .auto, .px 5, .px 0, .px 0,
      .px 2, .px 0, .px 0, .px 0, 1, 1, 1, 1, .auto, .auto, .auto, .auto⟩
    (absoluteReplacedDoc st ⟨20, 10, 200, 100⟩ true 33 44).toOption.map
      (fun r => (r.x, r.y, r.mw, r.mh, r.x + r.mw + 10)) = some (161, 20, 49, 32, 20 + 200) := by
  decide +kernel

end Wp.C11
