/-
C07 (part 11) — `font-family`: one family per comma-separated part; an unquoted family is its identifiers joined by
spaces, so that losing a comma merges two families into one (what `var-fallback-commas-dropped` does to a fallback).
-/
import WpModel.Model.FontFamilyC07

namespace Wp.C07
open Wp Wp.Font07

/-! ## 31. font-family -/

/-- **One family per part, in order**: an accepted value has exactly as many families as comma-separated parts, and
the i-th family is what the i-th part alone gives. -/
theorem font_family_parts : ∀ (parts : List (List FTok)) (out : List String), fontFamily parts = some out →
    out.length = parts.length ∧ parts.map familyOne = out.map some
  | [], out, h => by simp [fontFamily] at h; subst h; simp
  | part :: rest, out, h => by
    simp only [fontFamily] at h
    cases hp : familyOne part with
    | none => rw [hp] at h; cases h
    | some f =>
      rw [hp] at h
      cases hr : fontFamily rest with
      | none => rw [hr] at h; cases h
      | some fs =>
        rw [hr] at h
        simp only [Option.map_some, Option.some.injEq] at h
        subst h
        obtain ⟨h1, h2⟩ := font_family_parts rest fs hr
        simp [h1, h2, hp]

/-- **What a part may be** (`_partial`: css-fonts-4 §3.1 also forbids the CSS-wide keywords as an unquoted family
name — `font-family: inherit, serif` is invalid — which the code does not check: finding
`css-wide-keyword-as-ident`, witness `Witness.C07.font_family_css_wide_as_ident`): a family comes from one string
token, taken as it is, or from a non-empty run of identifier tokens joined by single spaces. -/
theorem font_family_one_partial (toks : List FTok) (f : String) (h : familyOne toks = some f) :
    (∃ v, toks = [.str v] ∧ f = v) ∨
    (toks ≠ [] ∧ (∀ t ∈ toks, ∃ v, t = .ident v) ∧ f = " ".intercalate (toks.map FTok.value)) := by
  have hgen : (if (!toks.isEmpty && toks.all FTok.isIdent) = true then
      some (" ".intercalate (toks.map FTok.value)) else none) = some f →
      (toks ≠ [] ∧ (∀ t ∈ toks, ∃ v, t = .ident v) ∧ f = " ".intercalate (toks.map FTok.value)) := by
    intro hh
    split at hh
    · rename_i hc
      simp only [Bool.and_eq_true, Bool.not_eq_true', List.isEmpty_eq_false_iff, List.all_eq_true] at hc
      cases hh
      refine ⟨hc.1, fun t ht => ?_, rfl⟩
      have := hc.2 t ht
      cases t with
      | ident v => exact ⟨v, rfl⟩
      | str v => simp [FTok.isIdent] at this
      | other => simp [FTok.isIdent] at this
    · cases hh
  match toks, h with
  | [.str v], h => left; simp [familyOne] at h; exact ⟨v, rfl, h.symm⟩
  | [], h => right; exact hgen (by simpa [familyOne] using h)
  | [.ident v], h => right; exact hgen (by simpa [familyOne] using h)
  | [.other], h => right; exact hgen (by simpa [familyOne] using h)
  | a :: b :: rest, h => right; exact hgen (by simpa [familyOne] using h)

/-- Every non-empty run of identifiers is a family (completeness), and a lone string is itself. -/
theorem font_family_accepts (vs : List String) (hne : vs ≠ []) (s : String) :
    familyOne (vs.map .ident) = some (" ".intercalate vs) ∧ familyOne [.str s] = some s := by
  constructor
  · have hall : (vs.map FTok.ident).all FTok.isIdent = true := by
      simp [List.all_eq_true, FTok.isIdent]
    have hemp : (vs.map FTok.ident).isEmpty = false := by
      cases vs with
      | nil => exact absurd rfl hne
      | cons a r => rfl
    have hval : (vs.map FTok.ident).map FTok.value = vs := by
      simp [List.map_map, Function.comp_def, FTok.value]
    match vs, hne, hall, hemp, hval with
    | [a], _, _, _, _ => simp [familyOne, FTok.isIdent, FTok.value]
    | a :: b :: r, _, hall, _, hval =>
      simp only [List.map_cons] at hall hval ⊢
      simp only [familyOne]
      simp [FTok.isIdent, FTok.value, List.map_map, Function.comp_def]
  · rfl

/-- **A lost comma merges two families**: `Arial, sans-serif` is two families; the same tokens without the comma
are the single family `Arial sans-serif` — how the dropped commas of a `var()` fallback (finding
`var-fallback-commas-dropped`) change the computed `font-family`. -/
theorem font_family_comma_matters (a b : List String) (ha : a ≠ []) (hb : b ≠ []) :
    fontFamily [a.map .ident, b.map .ident] = some [" ".intercalate a, " ".intercalate b] ∧
    fontFamily [(a ++ b).map .ident] = some [" ".intercalate (a ++ b)] := by
  have hab : a ++ b ≠ [] := by simp [ha]
  constructor
  · simp [fontFamily, (font_family_accepts a ha "").1, (font_family_accepts b hb "").1]
  · have h := (font_family_accepts (a ++ b) hab "").1
    simp only [fontFamily, h]
    rfl

/-- Non-vacuity: `"My Font", Arial Black, serif`; an empty part, a number, a string next to an identifier refuse. -/
example :
    fontFamily [[.str "My Font"], [.ident "Arial", .ident "Black"], [.ident "serif"]]
      = some ["My Font", "Arial Black", "serif"] ∧
    fontFamily [[.ident "a"], []] = none ∧ fontFamily [[.other]] = none ∧
    fontFamily [[.str "x", .ident "a"]] = none ∧ fontFamily [[.str "x", .str "y"]] = none ∧
    fontFamily [] = some [] := by decide

end Wp.C07
