/-
C04 on rendered documents (table rows, row groups, nested blocks): soundness of the adjacency checker.
The resolved value is computed by the *proved* resolution function (`Wp.resolve`, tables regenerated
from block.py), so the checker states: whenever the strongest value meeting between two siblings forces
a break, they are on different pages and the second starts on a page of the requested side.
-/
import WpModel.Model.BreakTrace
import WpModel.Props.C04

namespace Wp.C04Trace
open Wp Wp.BreakTrace

theorem obs_sound (os : List Obs) (h : badObs os = []) :
    ∀ o ∈ os, forces false (resolve o.values) = true →
      o.pageA < o.pageB ∧
      ∀ side, PM.requestedSide o.ltr (some (resolve o.values)) = some side → o.rightB = side := by
  intro o ho hf
  unfold badObs at h
  simp only [List.map_eq_nil_iff, List.filter_eq_nil_iff] at h
  obtain ⟨i, hlt, hget⟩ := List.mem_iff_getElem.mp ho
  have hm : (o, i) ∈ os.zipIdx := by
    rw [List.mem_zipIdx_iff_getElem?]
    simp [hget, hlt]
  have hok := h (o, i) hm
  simp only [Bool.not_eq_eq_eq_not, Bool.not_true, Bool.not_eq_false] at hok
  unfold obsOk at hok
  simp only [hf, ↓reduceIte, Bool.and_eq_true, decide_eq_true_eq] at hok
  refine ⟨hok.1, ?_⟩
  intro side hs
  rw [hs] at hok
  simpa using hok.2

/-- Combined with the resolution theorems: if *any* box meeting at the boundary carries a forcing value,
an accepted observation has the two siblings on different pages. -/
theorem forced_value_separates (os : List Obs) (h : badObs os = []) (o : Obs) (ho : o ∈ os)
    (hv : ∃ v ∈ o.values, forces false v = true) : o.pageA < o.pageB :=
  (obs_sound os h o ho (C04.forced_wins false o.values hv)).1

example : badObs [⟨[.auto, .avoid, .right], 0, 2, true, true⟩, ⟨[.page], 1, 1, false, true⟩] = [1] := by decide

private theorem filter_map_nil {α : Type} (ok : α → Bool) (os : List α)
    (h : ((os.zipIdx.filter (fun (o, _) => !ok o)).map Prod.snd) = []) : ∀ o ∈ os, ok o = true := by
  intro o ho
  simp only [List.map_eq_nil_iff, List.filter_eq_nil_iff] at h
  obtain ⟨i, hlt, hget⟩ := List.mem_iff_getElem.mp ho
  have hm : (o, i) ∈ os.zipIdx := by
    rw [List.mem_zipIdx_iff_getElem?]
    simp [hget, hlt]
  simpa using h (o, i) hm

/-- Accepted observations honour `break-before/after: avoid`: two siblings meeting at an avoiding value are on the
same page unless the first one was the first content of its page (no other legal break point before it). -/
theorem avoid_obs_sound (os : List AvoidObs) (h : badAvoid os = []) :
    ∀ o ∈ os, avoids false (resolve o.values) = true → o.pageA = o.pageB ∨ o.aFirst = true := by
  intro o ho ha
  have hok := filter_map_nil avoidOk os h o ho
  unfold avoidOk at hok
  simp only [ha, ↓reduceIte, Bool.or_eq_true, beq_iff_eq] at hok
  exact hok

/-- Accepted observations honour `break-inside: avoid`: the unit is on one page unless it was the first content
of its page. -/
theorem inside_obs_sound (os : List InsideObs) (h : badInside os = []) :
    ∀ o ∈ os, avoids false o.value = true → o.pages ≤ 1 ∨ o.first = true := by
  intro o ho ha
  have hok := filter_map_nil insideOk os h o ho
  unfold insideOk at hok
  simp only [ha, ↓reduceIte, Bool.or_eq_true, decide_eq_true_eq] at hok
  exact hok

example : badAvoid [⟨[.auto, .avoid], 0, 1, false⟩, ⟨[.avoid, .auto], 1, 2, true⟩, ⟨[.auto], 0, 1, false⟩] = [0] := by
  decide
example : badInside [⟨.avoid, 2, false⟩, ⟨.avoid, 2, true⟩, ⟨.auto, 3, false⟩, ⟨.avoidPage, 1, false⟩] = [0] := by
  decide

end Wp.C04Trace
