/-
C04 on rendered documents (table rows, row groups, nested blocks): soundness of the adjacency checker.
The resolved value is computed by the *proved* resolution function (`Wp.resolve`, tables regenerated
from block.py), so the checker states: whenever the strongest value meeting between two siblings forces
a break, they are on different pages and the second starts on a page of the requested side.
-/
import WpModel.Model.BreakTrace
import WpModel.Props.C04

namespace Wp.C04Trace
open Wp Wp.BreakTrace

theorem obs_sound (os : List Obs) (h : badObs os = []) :
    ∀ o ∈ os, forces false (resolve o.values) = true →
      o.pageA < o.pageB ∧
      ∀ side, PM.requestedSide o.ltr (some (resolve o.values)) = some side → o.rightB = side := by
  intro o ho hf
  unfold badObs at h
  simp only [List.map_eq_nil_iff, List.filter_eq_nil_iff] at h
  obtain ⟨i, hlt, hget⟩ := List.mem_iff_getElem.mp ho
  have hm : (o, i) ∈ os.zipIdx := by
    rw [List.mem_zipIdx_iff_getElem?]
    simp [hget, hlt]
  have hok := h (o, i) hm
  simp only [Bool.not_eq_eq_eq_not, Bool.not_true, Bool.not_eq_false] at hok
  unfold obsOk at hok
  simp only [hf, ↓reduceIte, Bool.and_eq_true, decide_eq_true_eq] at hok
  refine ⟨hok.1, ?_⟩
  intro side hs
  rw [hs] at hok
  simpa using hok.2

/-- Combined with the resolution theorems: if *any* box meeting at the boundary carries a forcing value,
an accepted observation has the two siblings on different pages. -/
theorem forced_value_separates (os : List Obs) (h : badObs os = []) (o : Obs) (ho : o ∈ os)
    (hv : ∃ v ∈ o.values, forces false v = true) : o.pageA < o.pageB :=
  (obs_sound os h o ho (C04.forced_wins false o.values hv)).1

example : badObs [⟨[.auto, .avoid, .right], 0, 2, true, true⟩, ⟨[.page], 1, 1, false, true⟩] = [1] := by decide

end Wp.C04Trace
