/-
C05 (pagination model) — block stacking: where `block_container_layout` puts the children of a block
(`position_y` handed from child to child, top of the border box = position + collapsed adjoining margins),
that placed children do not overlap when margins are non-negative, the laws of `collapse_margin`, and the
used height of an unfragmented box.
-/
import WpModel.Lemmas.Stacking

namespace Wp.C05Pm
open Wp Wp.PM

/-! ### `collapse_margin` -/

/-- `collapse_margin(ms)` = the largest non-negative margin + the smallest non-positive margin (each 0 when
there is none): `maxPos ms = foldl max 0 ms`, `minNeg ms = foldl min 0 ms`. -/
theorem collapse_margin_eq (ms : List Rat) : collapseMargin ms = maxPos ms + minNeg ms :=
  collapseMargin_eq ms

/-- `maxPos` is the maximum of 0 and the margins: an upper bound, attained by 0 or a margin. -/
theorem maxPos_spec (ms : List Rat) :
    0 ≤ maxPos ms ∧ (∀ m ∈ ms, m ≤ maxPos ms) ∧ (maxPos ms = 0 ∨ maxPos ms ∈ ms) :=
  ⟨maxPos_nonneg ms, maxPos_ge ms, maxPos_mem ms⟩

/-- `minNeg` is the minimum of 0 and the margins. -/
theorem minNeg_spec (ms : List Rat) :
    minNeg ms ≤ 0 ∧ (∀ m ∈ ms, minNeg ms ≤ m) ∧ (minNeg ms = 0 ∨ minNeg ms ∈ ms) :=
  ⟨minNeg_nonpos ms, minNeg_le ms, minNeg_mem ms⟩

/-- The order in which margins become adjoining does not matter. -/
theorem collapse_margin_perm {a b : List Rat} (h : a.Perm b) : collapseMargin a = collapseMargin b :=
  collapseMargin_perm h

/-- Joining two sets of adjoining margins. -/
theorem collapse_margin_append (a b : List Rat) :
    collapseMargin (a ++ b) = max (maxPos a) (maxPos b) + min (minNeg a) (minNeg b) :=
  collapseMargin_append a b

/-- Only non-negative margins: the largest one (0 for none). -/
theorem collapse_margin_nonneg (ms : List Rat) (h : ∀ m ∈ ms, 0 ≤ m) :
    collapseMargin ms = maxPos ms ∧ 0 ≤ collapseMargin ms :=
  ⟨collapseMargin_of_nonneg ms h, collapseMargin_nonneg ms h⟩

/-- Only non-positive margins: the most negative one (0 for none). -/
theorem collapse_margin_nonpos (ms : List Rat) (h : ∀ m ∈ ms, m ≤ 0) : collapseMargin ms = minNeg ms :=
  collapseMargin_of_nonpos ms h

example : collapseMargin [10, -4, 7, -6, 0] = 4 ∧ maxPos [10, -4, 7, -6, 0] = 10 ∧ minNeg [10, -4, 7, -6, 0] = -6 := by
  decide +kernel

/-! ### the position handed from child to child, the top of the border box -/

/-- **Stacking, position** (`_in_flow_layout`): after the layout of a child, `position_y` is unchanged when
the child is dropped or collapses through, else it is the bottom of the child's border box. -/
theorem stacking_position (c : Ctx) (bs : Rat) (pienc : Bool) (posY : Rat) (r : LayoutResult)
    (frag : Option Frag) (posY' : Rat) (h : firstPass c bs pienc posY r = .keep frag posY') :
    (frag = none ∧ posY' = posY) ∨
    (∃ f, frag = some f ∧ r.frag = some f ∧
      ((r.collapsingThrough = true ∧ posY' = posY) ∨
       (r.collapsingThrough = false ∧ posY' = f.geo.borderBoxY + f.geo.borderHeight))) :=
  firstPass_posY c bs pienc posY r frag posY' h

/-- **Stacking, border top** (`prepare` + `finishTail`): the border box of a block fragment starts at the
position handed by the parent plus the collapsed adjoining margins, i.e. the final content of the
`adjoining_margins` list object the box received (the caller's margins, then its own top margin, then
those of its first descendants while they collapse with it). -/
theorem border_top_block (c : Ctx) (id : Nat) (st : PStyle) (kids : List PBox) (idx : Nat) (y bs : Rat)
    (skip : Option Resume) (cb pie : Bool) (adjL : List Rat) (f : Frag)
    (h : (layoutBox c (.block id st kids) idx y bs skip cb pie adjL).frag = some f) :
    f.geo.borderBoxY = y + collapseMargin (layoutBox c (.block id st kids) idx y bs skip cb pie adjL).adjL := by
  obtain ⟨h1, h2⟩ := layoutBox_border_top c _ idx y bs skip cb pie adjL f h
  rw [h1]
  split
  · grind
  · rcases h2 with h2 | ⟨_, ⟨_, _, _, _, h3⟩, _⟩
    · rw [h2]; grind
    · cases h3

/-- The same for any box on a page that already has content (the tall-first-line rule, which removes the top
margin of a paragraph, only applies on an empty page). -/
theorem border_top_nonempty_page (c : Ctx) (box : PBox) (idx : Nat) (y bs : Rat)
    (skip : Option Resume) (cb : Bool) (adjL : List Rat) (f : Frag)
    (h : (layoutBox c box idx y bs skip cb false adjL).frag = some f) :
    f.geo.borderBoxY = y + collapseMargin (layoutBox c box idx y bs skip cb false adjL).adjL := by
  obtain ⟨h1, h2⟩ := layoutBox_border_top c box idx y bs skip cb false adjL f h
  rw [h1]
  split
  · grind
  · rcases h2 with h2 | ⟨h3, _⟩
    · rw [h2]; grind
    · cases h3

/-- The general form: for a paragraph with top border / padding whose first line was translated by the
tall-first-line rule, minus the top margin that rule removed. -/
theorem border_top (c : Ctx) (box : PBox) (idx : Nat) (y bs : Rat) (skip : Option Resume)
    (cb pie : Bool) (adjL : List Rat) (f : Frag)
    (h : (layoutBox c box idx y bs skip cb pie adjL).frag = some f) :
    f.geo.borderBoxY = y + collapseMargin (layoutBox c box idx y bs skip cb pie adjL).adjL
      - (if (prepare c box.st y bs skip cb pie adjL).cwc then 0
         else (prepare c box.st y bs skip cb pie adjL).b.mt - f.geo.mt) :=
  (layoutBox_border_top c box idx y bs skip cb pie adjL f h).1

/-! ### placed children do not overlap (non-negative margins) -/

/-- In a stacked list, a child that is not empty ends at or above the top of the next one. -/
theorem stacked_adjacent : (fs : List Frag) → ∀ (y : Rat), stackedFrom y fs → ∀ (i : Nat) (f g : Frag),
    fs[i]? = some f → fs[i + 1]? = some g → f.isEmpty = true ∨ f.geo.borderBottom ≤ g.geo.borderBoxY
  | [] => by intro y _ i f g hf; simp at hf
  | x :: xs => by
    intro y h i f g hf hg
    simp only [stackedFrom] at h
    cases i with
    | zero =>
      simp only [List.getElem?_cons_zero, Option.some.injEq] at hf
      subst hf
      simp only [Nat.zero_add, List.getElem?_cons_succ] at hg
      cases xs with
      | nil => simp at hg
      | cons z zs =>
        simp only [List.getElem?_cons_zero, Option.some.injEq] at hg
        subst hg
        rcases h.2 with h2 | h2
        · right; simp only [stackedFrom] at h2; exact h2.1
        · left; exact h2.1
    | succ i =>
      simp only [List.getElem?_cons_succ] at hf hg
      rcases h.2 with h2 | h2
      · exact stacked_adjacent xs _ h2 i f g hf hg
      · exact stacked_adjacent xs _ h2.2 i f g hf hg

/-- **No overlap** (C05, partial: all margins of the subtree and all margins already adjoining are ≥ 0):
the fragment returned by `block_level_layout` starts at or below the position handed by its parent, and
in every block fragment of the tree the children are stacked: each border box starts at or below the current
position, which then moves to the bottom of that border box — or stays, for a child without content (one
that collapsed through). -/
theorem no_overlap_partial (box : PBox) (hn : NonNegMargins box) (c : Ctx) (idx : Nat) (y bs : Rat)
    (skip : Option Resume) (cb pie : Bool) (adjL : List Rat) (hadj : ∀ m ∈ adjL, 0 ≤ m) (f : Frag)
    (hf : (layoutBox c box idx y bs skip cb pie adjL).frag = some f) :
    y ≤ f.geo.borderBoxY ∧ FragStacked f := by
  obtain ⟨_, _, h3⟩ := box_stack box hn c idx y bs skip cb pie adjL hadj
  obtain ⟨_, h4, h5, _⟩ := h3 f hf
  exact ⟨h4, h5⟩

/-- Adjacent children of a returned block fragment: the first one has no content, or ends at or above the
top of the second one. -/
theorem adjacent_children_partial (id : Nat) (st : PStyle) (kids : List PBox) (hn : NonNegMargins (.block id st kids))
    (c : Ctx) (idx : Nat) (y bs : Rat) (skip : Option Resume) (cb pie : Bool) (adjL : List Rat)
    (hadj : ∀ m ∈ adjL, 0 ≤ m) (id' idx' : Nat) (st' : PStyle) (g : Geo) (fkids : List Frag)
    (hf : (layoutBox c (.block id st kids) idx y bs skip cb pie adjL).frag = some (.block id' idx' st' g fkids))
    (i : Nat) (f1 f2 : Frag) (h1 : fkids[i]? = some f1) (h2 : fkids[i + 1]? = some f2) :
    f1.isEmpty = true ∨ f1.geo.borderBoxY + f1.geo.borderHeight ≤ f2.geo.borderBoxY := by
  obtain ⟨_, hs⟩ := no_overlap_partial _ hn c idx y bs skip cb pie adjL hadj _ hf
  simp only [FragStacked] at hs
  obtain ⟨⟨y0, hy0⟩, _⟩ := hs
  exact stacked_adjacent fkids y0 hy0 i f1 f2 h1 h2

private theorem nonNeg_emptyRoot (b : PBox) (h : NonNegMargins b) : NonNegMargins (emptyRoot b) := by
  cases b with
  | para id n lh st => simpa [emptyRoot, NonNegMargins] using h
  | block id st kids =>
    simp only [NonNegMargins] at h
    simp [emptyRoot, NonNegMargins, NonNegMarginsList, h.1]

/-- The same for the root fragment of every page made by `remake_page`. -/
theorem remakePage_no_overlap_partial (d : Doc) (hn : NonNegMargins d.root) (index : Nat)
    (resume : Option Resume) (np : NextPage) (right : Bool) (p : Page)
    (hp : remakePage d index resume np right = some p) :
    0 ≤ p.root.geo.borderBoxY ∧ FragStacked p.root := by
  obtain ⟨c, _, hf, _⟩ := remakePage_root d index resume np right p hp
  have hn' : NonNegMargins (pageSource d p) := by
    unfold pageSource
    split
    · exact nonNeg_emptyRoot _ hn
    · exact hn
  exact no_overlap_partial _ hn' c 0 0 0 resume false true [] (by intro m hm; cases hm) p.root hf

/-! ### used height of an unfragmented box -/

/-- **Heights** (C05): an unfragmented box gets `max(min(h₀, max-height), min-height)` — min-height wins —
where `h₀` is the fixed `height`, or for `height: auto` the position reached after the children (and the
margins that stop collapsing at the bottom of the box) minus the top of the content box. -/
theorem unfragmented_height (c : Ctx) (st : PStyle) (b : BoxSt) (bs : Rat)
    (cwc dbd : Bool) (posY : Rat) (adjL cur : List Rat) (curIsL hasKids : Bool) :
    let g := (finishTail c st b bs cwc dbd none posY adjL cur curIsL hasKids).geo
    let h0 := match st.height with
      | none => tailPosY st b posY cur hasKids - g.contentBoxY
      | some h => h
    g.h = max (match st.maxH with | none => h0 | some m => min h0 m) st.minH := by
  have h1 := finishTail_h_unfragmented c st b bs cwc dbd posY adjL cur curIsL hasKids
  have h2 := finishTail_geo_frame c st b bs cwc dbd none posY adjL cur curIsL hasKids
  dsimp only at h2 ⊢
  obtain ⟨hy, hmt, hbt, hpt⟩ := h2
  rw [h1]
  simp only [tailH0, Geo.contentBoxY, hy, hmt, hbt, hpt]
  cases st.maxH <;> cases st.height <;> rfl

/-- Whole layouts: every unfragmented fragment is at least `min-height` high (so not negative when
`min-height ≥ 0`) and at most `max-height` when that is not below `min-height`. -/
theorem height_bounds (c : Ctx) (box : PBox) (idx : Nat) (y bs : Rat) (skip : Option Resume)
    (cb pie : Bool) (adjL : List Rat) (f : Frag)
    (hf : (layoutBox c box idx y bs skip cb pie adjL).frag = some f)
    (hr : (layoutBox c box idx y bs skip cb pie adjL).resume = none) :
    box.st.minH ≤ f.geo.h ∧ (∀ m, box.st.maxH = some m → box.st.minH ≤ m → f.geo.h ≤ m) := by
  obtain ⟨b, dbd, posY, adjL', cur, curIsL, hasKids, hg, _⟩ := layoutBox_geo_tail c box idx y bs skip cb pie adjL f hf
  rw [hr] at hg
  rw [hg, finishTail_h_unfragmented]
  constructor
  · grind
  · intro m hm hle
    rw [hm]
    grind


/-! Non-vacuity: a paragraph (margins 4 / 6), an empty block (margins 3 / 8), a block with top padding
holding a paragraph, and a long paragraph, on 100px pages. Border boxes on page 1 (top, bottom, empty?):
the empty block sits at 30 = 24 + max(6, 3) without advancing the position; the next block starts at
32 = 24 + max(6, 3, 8, 5); the last paragraph at 62 = 60 + max(2, 1) and is stretched to the page bottom. -/
def exDoc : Doc :=
  { pageH := 100, rootLtr := true,
    root := .block 0 { plainSt with isRoot := true }
      [.para 1 2 10 { plainSt with mt := 4, mb := 6 },
       .block 2 { plainSt with mt := 3, mb := 8 } [],
       .block 3 { plainSt with mt := 5, pt := 1, mb := 2 } [.para 4 2 10 { plainSt with mt := 7 }],
       .para 5 9 10 { plainSt with mt := 1 }] }

example : NonNegMargins exDoc.root := by
  simp only [exDoc, NonNegMargins, NonNegMarginsList, plainSt]
  decide +kernel

example : (paginate exDoc 10).map (fun ps => ps.map (fun p =>
      p.root.kids.map (fun k => (k.geo.borderBoxY, k.geo.borderBottom, k.isEmpty)))) =
    some [[(4, 24, false), (30, 30, true), (32, 60, false), (62, 100, false)], [(0, 60, false)]] := by
  decide +kernel

/-- Heights on the same document: (min-height ≤ h) for every child of page 1; the unfragmented ones have
their content height. -/
example : (paginate exDoc 10).map (fun ps => ps.map (fun p => p.root.kids.map (fun k => k.geo.h))) =
    some [[20, 0, 27, 38], [60]] := by decide +kernel

end Wp.C05Pm
