/-
C20 — Resources go through the caller's URL fetcher; fetch failures degrade gracefully.
Property theorems only (helper lemmas are `private`).  All statements are about the model of
`Model/Resources.lean` (tied to /repo by the correspondence harness `py/props/c20.py`) and about the
call-site lists of `Gen/FetchSites.lean`, regenerated from the source by an AST scan on every run.
-/
import WpModel.Model.Resources
import WpModel.Model.ResourcesDoc
import WpModel.Gen.FetchSites

namespace Wp.C20
open Wp Wp.Res

/-! ## (a) `fetch` is a funnel -/

def Ev.isCall : Ev → Bool
  | .call _ => true
  | _ => false

def Ev.isClose : Ev → Bool
  | .close => true
  | .closeWarn => true
  | _ => false

/-- `fetch_funnel` (1): whatever `Exception` the fetcher raises, the `with` statement raises
`URLFetchingError` carrying the class and message, and the body is never entered. -/
theorem fetch_funnel_raises {α} (e : Exc) (url : String) (body : Resp → Except Exc α) :
    fetch (.raises e) url body = ([.call url], .error ⟨"URLFetchingError", e.cls ++ ": " ++ e.msg⟩) ∧
    (Exc.wrapFetch e).isUrlFetching = true := by
  constructor
  · rfl
  · simp [Exc.wrapFetch, Exc.isUrlFetching]

/-- `fetch_funnel` (2): the fetcher is called exactly once, first, with the URL given. -/
theorem fetch_funnel_one_call {α} (f : Fetched) (url : String) (body : Resp → Except Exc α) :
    (fetch f url body).1.head? = some (.call url) ∧
    ((fetch f url body).1.filter Ev.isCall) = [.call url] := by
  cases f with
  | raises e => simp [fetch, List.filter, Ev.isCall]
  | notDict => simp [fetch, List.filter, Ev.isCall]
  | resp r =>
    cases h : r.fileObj with
    | none => simp [fetch, h, List.filter, Ev.isCall]
    | some fo => cases hc : fo.closeErr <;> simp [fetch, h, hc, List.filter, Ev.isCall]

/-- `fetch_funnel` (3): when the result carries a file object it is closed exactly once, after the
body, on every path — the body returning or raising makes no difference to the trace — and a
failing `close()` is only logged; without a file object nothing is closed. -/
theorem fetch_funnel_closes_once {α} (r : Resp) (url : String) (body : Resp → Except Exc α) :
    (∀ fo, r.fileObj = some fo →
      (fetch (.resp r) url body).1 = [.call url, .body, if fo.closeErr then .closeWarn else .close] ∧
      ((fetch (.resp r) url body).1.filter Ev.isClose).length = 1) ∧
    (r.fileObj = none → (fetch (.resp r) url body).1.filter Ev.isClose = []) := by
  constructor
  · intro fo h
    cases hc : fo.closeErr <;> simp [fetch, h, hc, List.filter, Ev.isClose]
  · intro h
    simp [fetch, h, List.filter, Ev.isClose]

/-- `fetch_funnel` (4): for a dict result, the `with` statement does what the body does on the
result completed with `redirected_url = url` by default (`mime_type` stays `None` when absent);
a failing `close()` never changes the outcome. -/
theorem fetch_funnel_body {α} (r : Resp) (url : String) (body : Resp → Except Exc α) :
    (fetch (.resp r) url body).2 = body (r.withDefaults url) ∧
    (r.withDefaults url).redirected = some (r.redirected.getD url) ∧
    (r.withDefaults url).mime = r.mime ∧ (r.withDefaults url).content = r.content := by
  refine ⟨?_, rfl, rfl, rfl⟩
  cases h : r.fileObj <;> simp [fetch, h]

/-- `fetch_funnel` (5): an exception leaving the `with` statement is the wrapped fetcher exception,
the `AttributeError` of a non-dict result, or an exception of the body itself. -/
theorem fetch_funnel_errors {α} (f : Fetched) (url : String) (body : Resp → Except Exc α) (e : Exc)
    (h : (fetch f url body).2 = .error e) :
    (∃ e', f = .raises e' ∧ e = e'.wrapFetch) ∨ (f = .notDict ∧ e.cls = "AttributeError") ∨
    (∃ r, f = .resp r ∧ body (r.withDefaults url) = .error e) := by
  cases f with
  | raises e' => left; exact ⟨e', rfl, by simpa [fetch] using h.symm⟩
  | notDict =>
    right; left
    refine ⟨rfl, ?_⟩
    have : e = ⟨"AttributeError", "'NoneType' object has no attribute 'setdefault'"⟩ := by
      simpa [fetch] using h.symm
    rw [this]
  | resp r =>
    right; right
    refine ⟨r, rfl, ?_⟩
    rw [← (fetch_funnel_body r url body).1]; exact h

example : (fetch (.raises ⟨"OSError", "reset"⟩) "http://a/x" (fun _ => Except.ok ())).2 =
    .error ⟨"URLFetchingError", "OSError: reset"⟩ := rfl

/-! ## (b) `get_image_from_uri` -/

/-- The fetch hands bytes to the loader or fails *at the fetcher*: the fetcher raises, or returns a
dict with a `string`, or with a `file_obj` whose `read()` succeeds. -/
def Fetched.absorbed : Fetched → Bool
  | .raises _ => true
  | .notDict => false
  | .resp r => r.hasString || (match r.fileObj with | some fo => fo.readErr.isNone | none => false)

private theorem readAll_ok_of_absorbed (r : Resp) (h : Fetched.absorbed (.resp r) = true) :
    readAll r = .ok r.content := by
  unfold Fetched.absorbed at h
  unfold readAll
  cases hs : r.hasString with
  | true => simp
  | false =>
    simp [hs] at h
    cases hf : r.fileObj with
    | none => simp [hf] at h
    | some fo =>
      simp [hf] at h
      cases hr : fo.readErr with
      | none => simp [hr]
      | some e => simp [hr] at h

private theorem decideImage_error_cls (req : Req) (opts : Opts) (fn : Option String) (c : Content)
    (m : Option String) (e : Exc) (h : decideImage req opts fn c m = .error e) :
    e.isImageLoading = true := by
  unfold decideImage at h
  cases hp : c.pillow with
  | none =>
    cases hx : c.xmlOk <;> cases hm : (m == some "image/svg+xml") <;>
      simp [hx, hp, hm] at h <;> (first | (rw [← h]; rfl) | skip)
  | some p =>
    cases hr : rasterInit p req.orient fn opts with
    | ok v =>
      cases hx : c.xmlOk <;> cases hm : (m == some "image/svg+xml") <;> simp [hx, hp, hm, hr] at h
    | error e' =>
      cases hx : c.xmlOk <;> cases hm : (m == some "image/svg+xml") <;>
        simp [hx, hp, hm, hr] at h <;> (rw [← h]; rfl)

/- Full statement (false of the current code, see `Witness.C20.read_error_escapes`):
   `∀ cache fetcher opts req, ∃ v, (getImage cache fetcher opts req).2.2 = .ok v`. -/
/-- `image_total`: for every fetch outcome that is absorbed (the fetcher raises — any exception —
or delivers bytes: empty, truncated, wrong type, HTML, anything), `get_image_from_uri` returns an
image or `None`; it never raises. -/
theorem image_total_partial (cache : Cache) (fetcher : Fetcher) (opts : Opts) (req : Req)
    (h : Fetched.absorbed (fetcher req.url) = true) :
    ∃ v, (getImage cache fetcher opts req).2.2 = .ok v := by
  unfold getImage
  cases hc : cache.find? (req.key opts) with
  | some v => exact ⟨v, by simp⟩
  | none =>
    simp only
    cases hf : fetcher req.url with
    | raises e =>
      refine ⟨none, ?_⟩
      simp [fetch, Exc.wrapFetch, Exc.isUrlFetching]
    | notDict => simp [hf, Fetched.absorbed] at h
    | resp r =>
      rw [hf] at h
      have hbody : (fetch (.resp r) req.url (imageBody req)).2 =
          imageBody req (r.withDefaults req.url) := (fetch_funnel_body r req.url (imageBody req)).1
      have hread : readAll (r.withDefaults req.url) = .ok r.content := readAll_ok_of_absorbed r h
      cases hfe : fetch (.resp r) req.url (imageBody req) with
      | mk evs fetched =>
        have h2 : fetched = imageBody req (r.withDefaults req.url) := by
          have := hbody; rw [hfe] at this; exact this
        simp only [imageBody, hread] at h2
        subst h2
        simp only
        cases hd : decideImage req opts
            (if urlScheme ((r.withDefaults req.url).redirected.getD "") == "file"
              then some (urlFilename ((r.withDefaults req.url).redirected.getD "")) else none)
            r.content (effectiveMime req.forcedMime (r.withDefaults req.url)) with
        | ok img => exact ⟨some img, rfl⟩
        | error e =>
          have := decideImage_error_cls _ _ _ _ _ _ hd
          refine ⟨none, ?_⟩
          simp [this]

example : Fetched.absorbed (.resp ⟨true, none, some "text/html", none, ⟨22, false, none, false, true, false⟩⟩) = true ∧
    (getImage [] (fun _ => .resp ⟨true, none, some "text/html", none, ⟨22, false, none, false, true, false⟩⟩)
      ⟨false, none, none⟩ ⟨"http://a/x.png", .fromImage, none⟩).2.2 = .ok none := ⟨rfl, rfl⟩

/-- `image_total`, fetcher side: a fetcher that raises — whatever the exception — gives `None`,
which is cached under the request's key (the fetcher is not asked again). -/
theorem image_fetch_failure_is_none (cache : Cache) (fetcher : Fetcher) (opts : Opts) (req : Req) (e : Exc)
    (hmiss : cache.find? (req.key opts) = none) (h : fetcher req.url = .raises e) :
    getImage cache fetcher opts req = (((req.key opts), none) :: cache, [.call req.url], .ok none) := by
  unfold getImage
  simp [hmiss, h, fetch, Exc.wrapFetch, Exc.isUrlFetching]

/-- `image_total`, data side: bytes that neither Pillow nor the XML parser accept (empty, truncated
header, HTML, text, a font, …) give `None` under every MIME type, served as `string` or through a
readable `file_obj`. -/
theorem image_undecodable_is_none (cache : Cache) (fetcher : Fetcher) (opts : Opts) (req : Req) (r : Resp)
    (hmiss : cache.find? (req.key opts) = none) (h : fetcher req.url = .resp r)
    (habs : Fetched.absorbed (.resp r) = true) (hp : r.content.pillow = none) (hx : r.content.xmlOk = false) :
    (getImage cache fetcher opts req).2.2 = .ok none ∧
    (getImage cache fetcher opts req).1 = ((req.key opts), none) :: cache := by
  have hread : readAll (r.withDefaults req.url) = .ok r.content := readAll_ok_of_absorbed r habs
  have hbody : (fetch (.resp r) req.url (imageBody req)).2 =
      imageBody req (r.withDefaults req.url) := (fetch_funnel_body r req.url (imageBody req)).1
  unfold getImage
  simp only [hmiss, h]
  cases hfe : fetch (.resp r) req.url (imageBody req) with
  | mk evs fetched =>
    have h2 : fetched = imageBody req (r.withDefaults req.url) := by
      have := hbody; rw [hfe] at this; exact this
    simp only [imageBody, hread] at h2
    subst h2
    cases hm : (effectiveMime req.forcedMime (r.withDefaults req.url) == some "image/svg+xml") <;>
      simp [decideImage, hp, hx, hm, Exc.isImageLoading, Exc.isUrlFetching]

/-- The converse of `image_total_partial`: on a cache miss the three unabsorbed outcomes do escape
(and leave the cache unchanged): a non-dict result (`AttributeError`), a dict with neither `string`
nor `file_obj` (`KeyError`), a `file_obj` whose `read()` raises anything but the two caught classes
(that very exception). -/
theorem image_escapes (cache : Cache) (fetcher : Fetcher) (opts : Opts) (req : Req)
    (hmiss : cache.find? (req.key opts) = none) :
    (fetcher req.url = .notDict → ∃ m, (getImage cache fetcher opts req).2.2 = .error ⟨"AttributeError", m⟩) ∧
    (∀ r, fetcher req.url = .resp r → r.hasString = false → r.fileObj = none →
      (getImage cache fetcher opts req).2.2 = .error ⟨"KeyError", "'file_obj'"⟩) ∧
    (∀ r fo e, fetcher req.url = .resp r → r.hasString = false → r.fileObj = some fo → fo.readErr = some e →
      (e.isUrlFetching || e.isImageLoading) = false →
      (getImage cache fetcher opts req).2.2 = .error e ∧ (getImage cache fetcher opts req).1 = cache) := by
  refine ⟨?_, ?_, ?_⟩
  · intro hf
    exact ⟨"'NoneType' object has no attribute 'setdefault'",
      by simp [getImage, hmiss, hf, fetch, Exc.isUrlFetching, Exc.isImageLoading]⟩
  · intro r hf hs hfo
    simp [getImage, hmiss, hf, fetch, hfo, imageBody, readAll, Resp.withDefaults, hs, Exc.isUrlFetching,
      Exc.isImageLoading]
  · intro r fo e hf hs hfo hr hcls
    cases hc : fo.closeErr <;>
      simp [getImage, hmiss, hf, fetch, hfo, hc, imageBody, readAll, Resp.withDefaults, hs, hr, hcls]

example : ∃ e, (getImage [] (fun _ => .resp ⟨false, some ⟨some ⟨"OSError", "reset"⟩, false⟩, none, none,
      ⟨1, false, some ⟨"PNG", "RGB", false, false, true⟩, false, true, false⟩⟩) ⟨false, none, none⟩
      ⟨"http://a/x.png", .fromImage, none⟩).2.2 = .error e := ⟨_, rfl⟩

/-! ### the cache: one fetch per (URL, orientation), failures included -/

private theorem find_cons_self (c : Cache) (k : String) (v : Option Img) :
    Cache.find? ((k, v) :: c) k = some v := by
  simp [Cache.find?]

/-- A cache hit calls nothing and returns the cached value (an image, or the `None` of an earlier
failure). -/
theorem image_cache_hit (cache : Cache) (fetcher : Fetcher) (opts : Opts) (req : Req) (v : Option Img)
    (h : cache.find? (req.key opts) = some v) :
    getImage cache fetcher opts req = (cache, [], .ok v) := by
  simp [getImage, h]

/-- After any call that returned (image or `None`), the same request is a cache hit: a resource is
fetched at most once per (URL, orientation), also when the fetch failed. -/
theorem image_fetched_at_most_once (cache : Cache) (fetcher : Fetcher) (opts : Opts) (req : Req) (v : Option Img)
    (h : (getImage cache fetcher opts req).2.2 = .ok v) :
    getImage (getImage cache fetcher opts req).1 fetcher opts req =
      ((getImage cache fetcher opts req).1, [], .ok v) := by
  apply image_cache_hit
  unfold getImage at h ⊢
  cases hc : cache.find? (req.key opts) with
  | some w =>
    simp [hc] at h ⊢
    rw [← h]
  | none =>
    simp only [hc] at h ⊢
    cases hfe : fetch (fetcher req.url) req.url (imageBody req) with
    | mk evs fetched =>
      simp only [hfe] at h ⊢
      cases fetched with
      | error e =>
        simp only at h ⊢
        cases hcls : (e.isUrlFetching || e.isImageLoading) with
        | true =>
          simp only [hcls] at h ⊢
          simp at h
          subst h
          exact find_cons_self _ _ _
        | false => simp [hcls] at h
      | ok t =>
        obtain ⟨fn, content, mime⟩ := t
        simp only at h ⊢
        cases hd : decideImage req opts fn content mime with
        | ok img =>
          simp only [hd] at h ⊢
          simp at h
          subst h
          exact find_cons_self _ _ _
        | error e =>
          simp only [hd] at h ⊢
          cases hcls : (e.isUrlFetching || e.isImageLoading) with
          | true =>
            simp only [hcls] at h ⊢
            simp at h
            subst h
            exact find_cons_self _ _ _
          | false => simp [hcls] at h

/-! ### only the fetcher's answers for the requested URLs matter -/

/-- `every_loader_uses_fetcher` (images): the result of a call depends on the fetcher only through
its answer for the requested URL, … -/
theorem image_depends_on_fetcher_at_url (cache : Cache) (f g : Fetcher) (opts : Opts) (req : Req)
    (h : f req.url = g req.url) : getImage cache f opts req = getImage cache g opts req := by
  simp [getImage, h]

/-- … and so does any sequence of calls sharing a cache. -/
theorem images_depend_on_fetcher_at_urls (f g : Fetcher) (reqs : List (Opts × Req)) (cache : Cache)
    (h : ∀ r ∈ reqs, f r.2.url = g r.2.url) : runImages f cache reqs = runImages g cache reqs := by
  induction reqs generalizing cache with
  | nil => rfl
  | cons r rest ih =>
    obtain ⟨opts, req⟩ := r
    have h1 := image_depends_on_fetcher_at_url cache f g opts req (h (opts, req) (by simp))
    simp only [runImages, h1]
    rw [ih _ (fun r' hr' => h r' (by simp [hr']))]

/-- The only URL a call hands to the fetcher is the requested one (absolute, as resolved by the caller). -/
theorem image_calls_only_requested (cache : Cache) (fetcher : Fetcher) (opts : Opts) (req : Req) (u : String)
    (h : Ev.call u ∈ (getImage cache fetcher opts req).2.1) : u = req.url := by
  unfold getImage at h
  cases hc : cache.find? (req.key opts) with
  | some v => simp [hc] at h
  | none =>
    simp only [hc] at h
    have hcalls := (fetch_funnel_one_call (fetcher req.url) req.url (imageBody req)).2
    cases hfe : fetch (fetcher req.url) req.url (imageBody req) with
    | mk evs fetched =>
      rw [hfe] at hcalls
      simp only [hfe] at h
      have hin : Ev.call u ∈ evs := by
        cases fetched with
        | error e =>
          simp only at h
          cases hcls : (e.isUrlFetching || e.isImageLoading) <;> simp only [hcls] at h <;> exact h
        | ok t =>
          obtain ⟨fn, content, mime⟩ := t
          simp only at h
          cases hd : decideImage req opts fn content mime with
          | ok img => simp only [hd] at h; exact h
          | error e =>
            simp only [hd] at h
            cases hcls : (e.isUrlFetching || e.isImageLoading) <;> simp only [hcls] at h <;> exact h
      have : Ev.call u ∈ evs.filter Ev.isCall := by
        simp [List.mem_filter, hin, Ev.isCall]
      rw [hcalls] at this
      simpa using this

/-! ## (c) a failed reference leaves what the document without the reference leaves -/

/-- `failure_as_absent` (img): with an image that could not be loaded, `handle_img` generates exactly
the boxes of the same element without `src` (the alt text, or nothing). -/
theorem failure_as_absent_img (src alt : Option String) :
    handleImg src alt none = handleImg none alt none := by
  unfold handleImg
  cases src with
  | none => rfl
  | some s => by_cases h : s = "" <;> simp [h]

/-- `failure_as_absent` (embed, object): nothing / the fallback children, as without `src` / `data`. -/
theorem failure_as_absent_embed_object (src : Option String) :
    handleEmbed src none = handleEmbed none none ∧ handleObject src none = handleObject none none := by
  cases src <;> simp [handleEmbed, handleObject]

example : handleImg (some "http://a/x.png") (some "ALT") none = [.altText "ALT"] := by decide

/-- Same effect on the cascade and on the fonts: same selectors in the same order, same
`add_font_face` calls, same escaping exception (the fetch log may differ). -/
def _root_.Wp.Res.Out.sameEffect (a b : Out) : Prop := a.rules = b.rules ∧ a.fonts = b.fonts ∧ a.err = b.err

/-- No effect at all besides fetch events. -/
def _root_.Wp.Res.Out.silent (a : Out) : Prop := a.rules = [] ∧ a.fonts = [] ∧ a.err = none

private theorem ofEvs_silent (evs : List Ev) : (Out.ofEvs evs).silent := by
  refine ⟨?_, ?_, rfl⟩ <;> simp [Out.ofEvs, Out.rules, Out.fonts, List.filterMap_map]
  all_goals (induction evs <;> simp_all [List.filterMap])

private theorem empty_silent : ({} : Out).silent := ⟨rfl, rfl, rfl⟩

private theorem seq_fields (a b : Out) (h : a.err = none) :
    (a.seq b).rules = a.rules ++ b.rules ∧ (a.seq b).fonts = a.fonts ++ b.fonts ∧ (a.seq b).err = b.err := by
  simp [Out.seq, h, Out.rules, Out.fonts, List.filterMap_append]

private theorem seq_silent_left (s b : Out) (h : s.silent) : (s.seq b).sameEffect b := by
  obtain ⟨hr, hf, he⟩ := h
  obtain ⟨h1, h2, h3⟩ := seq_fields s b he
  exact ⟨by rw [h1, hr]; rfl, by rw [h2, hf]; rfl, h3⟩

private theorem seq_congr_right (a b b' : Out) (h : b.sameEffect b') : (a.seq b).sameEffect (a.seq b') := by
  cases ha : a.err with
  | some e => simp [Out.seq, ha, Out.sameEffect]
  | none =>
    obtain ⟨h1, h2, h3⟩ := seq_fields a b ha
    obtain ⟨h1', h2', h3'⟩ := seq_fields a b' ha
    obtain ⟨hr, hf, he⟩ := h
    exact ⟨by rw [h1, h1', hr], by rw [h2, h2', hf], by rw [h3, h3', he]⟩

private theorem absorb_raises_silent (evs : List Ev) (e : Exc) :
    (Out.ofEvs evs (some e.wrapFetch)).absorbFetchError.silent := by
  have h : (Out.ofEvs evs (some e.wrapFetch)).absorbFetchError = Out.ofEvs evs := by
    simp [Out.absorbFetchError, Out.ofEvs, Exc.wrapFetch, Exc.isUrlFetching]
  rw [h]; exact ofEvs_silent evs

private theorem absorb_of_silent (o : Out) (h : o.silent) : o.absorbFetchError = o := by
  simp [Out.absorbFetchError, h.2.2]

/-- A stylesheet fetch that fails gracefully: the fetcher raises (any exception), or — where the MIME
type is checked — the response is not `text/css`. -/
def _root_.Wp.Res.Sheet.failsGracefully (checkMime : Bool) : Sheet → Prop
  | .mk (.raises _) _ => True
  | .mk (.resp r) _ => checkMime = true ∧ r.mime ≠ some "text/css"
  | .mk .notDict _ => False

private theorem runSheet_raises (d : String) (c : Bool) (url : String) (e : Exc) (items : List CssItem) :
    runSheet d c url (.mk (.raises e) items) = Out.ofEvs [.call url] (some e.wrapFetch) := by
  simp [runSheet, fetch]

private theorem runSheet_wrong_mime (d : String) (url : String) (r : Resp) (items : List CssItem)
    (h : r.mime ≠ some "text/css") : (runSheet d true url (.mk (.resp r) items)).silent := by
  have hb : cssSourceBody true (r.withDefaults url) = .ok false := by
    simp [cssSourceBody, Resp.withDefaults, h]
  have := (fetch_funnel_body r url (cssSourceBody true)).1
  rw [runSheet]
  cases hfe : fetch (.resp r) url (cssSourceBody true) with
  | mk evs src =>
    rw [hfe] at this
    simp only at this
    subst this
    simp only [hb]
    exact ofEvs_silent evs

private theorem sheet_failure_absorbed_silent (d : String) (c : Bool) (url : String) (sh : Sheet)
    (hf : sh.failsGracefully c) : (runSheet d c url sh).absorbFetchError.silent := by
  cases sh with
  | mk fetched items =>
    cases fetched with
    | raises e => rw [runSheet_raises]; exact absorb_raises_silent _ e
    | notDict => exact absurd hf (by simp [Sheet.failsGracefully])
    | resp r =>
      obtain ⟨hc, hm⟩ := hf
      subst hc
      have hs := runSheet_wrong_mime d url r items hm
      rw [absorb_of_silent _ hs]; exact hs

/-- `failure_as_absent` (linked stylesheet), element level: a `<link>` whose stylesheet fails
gracefully contributes no selector, no font and no exception, whatever its attributes. -/
theorem link_failure_is_silent (d : String) (el : StyleEl) (hl : el.isLink = true)
    (hf : el.target.failsGracefully true) : (runStyleEl d el).silent := by
  unfold runStyleEl
  split
  · exact empty_silent
  · split
    · exact empty_silent
    · split
      · rename_i h; simp [hl] at h
      · split
        · exact empty_silent
        · split
          · exact empty_silent
          · split
            · exact empty_silent
            · exact sheet_failure_absorbed_silent d true _ el.target hf

private theorem findStylesheets_cons (d : String) (el : StyleEl) (rest : List StyleEl) :
    findStylesheets d (el :: rest) = (runStyleEl d el).seq (findStylesheets d rest) := rfl

/-- `failure_as_absent` (linked stylesheet), document level: the cascade input (selectors in order,
`@font-face` calls, escaping exception) of a document with a gracefully failing `<link>` anywhere is
that of the document without this element. -/
theorem failure_as_absent_link (d : String) (pre post : List StyleEl) (el : StyleEl) (hl : el.isLink = true)
    (hf : el.target.failsGracefully true) :
    (findStylesheets d (pre ++ el :: post)).sameEffect (findStylesheets d (pre ++ post)) := by
  induction pre with
  | nil =>
    simp only [List.nil_append, findStylesheets_cons]
    exact seq_silent_left _ _ (link_failure_is_silent d el hl hf)
  | cons x xs ih =>
    simp only [List.cons_append, findStylesheets_cons]
    exact seq_congr_right _ _ _ ih

example : (findStylesheets "print"
      [⟨true, none, none, some "stylesheet", some "http://a/s.css", none, [],
        .mk (.raises ⟨"OSError", "reset"⟩) [.rule 7]⟩,
       ⟨false, none, none, none, none, none, [.rule 3], .mk .notDict []⟩]).rules = [3] := by decide

private theorem runItems_import (d : String) (u : String) (m : List String) (target : Sheet) (rest : List CssItem)
    (hm : evaluateMedia m d = true) :
    runItems d false (.importRule (some u) (some m) target :: rest) =
      (runSheet d false u target).absorbFetchError.seq (runItems d false rest) := by
  simp only [runItems]; simp [hm]

/-- `failure_as_absent` (@import): an `@import` whose fetch raises (any exception) is skipped: the
rest of the stylesheet has the effect it has without the rule — wherever the rule stands and whether
or not imports are still allowed there. -/
theorem failure_as_absent_import (d : String) (ign : Bool) (u : Option String) (m : Option (List String))
    (e : Exc) (items rest : List CssItem) :
    (runItems d ign (.importRule u m (.mk (.raises e) items) :: rest)).sameEffect (runItems d ign rest) := by
  have refl : (runItems d ign rest).sameEffect (runItems d ign rest) := ⟨rfl, rfl, rfl⟩
  cases ign with
  | true => simp only [runItems]; simpa using refl
  | false =>
    cases u with
    | none => simp only [runItems]; simpa using refl
    | some u =>
      cases m with
      | none => simp only [runItems]; simpa using refl
      | some m =>
        cases hm : evaluateMedia m d with
        | false => simp only [runItems]; simpa [hm] using refl
        | true =>
          rw [runItems_import d u m _ rest hm]
          exact seq_silent_left _ _ (sheet_failure_absorbed_silent d false u _ trivial)

/-! ### @font-face -/

/-- What `add_font_face` leaves behind, apart from the fetch log. -/
def _root_.Wp.Res.FontOut.sameEffect (a b : FontOut) : Prop :=
  a.installed = b.installed ∧ a.written = b.written ∧ a.warned = b.warned ∧ a.err = b.err

/-- The same, not counting the bytes written to the private temp file (a fetched but unusable font
is written there before fontconfig rejects it). -/
def _root_.Wp.Res.FontOut.sameOutcome (a b : FontOut) : Prop :=
  a.installed = b.installed ∧ a.warned = b.warned ∧ a.err = b.err

private theorem fontLoop_frame (fetcher : Fetcher) (srcs : List FontSrc) (a b : FontOut)
    (h : a.sameEffect b) : (fontLoop fetcher srcs a).sameEffect (fontLoop fetcher srcs b) := by
  induction srcs generalizing a b with
  | nil => obtain ⟨h1, h2, _, h4⟩ := h; exact ⟨h1, h2, rfl, h4⟩
  | cons src rest ih =>
    obtain ⟨h1, h2, h3, h4⟩ := h
    simp only [fontLoop]
    split
    · exact ih a b ⟨h1, h2, h3, h4⟩
    · rename_i url _
      cases hfe : fetch (fetcher url) url readAll with
      | mk evs got =>
        simp only
        cases got with
        | error e => exact ih _ _ ⟨h1, h2, h3, h4⟩
        | ok content =>
          simp only
          split
          · exact ih _ _ ⟨h1, h2, h3, h4⟩
          · split
            · exact ⟨rfl, by simp [h2], h3, h4⟩
            · exact ih _ _ ⟨h1, by simp [h2], h3, h4⟩

private theorem fontLoop_frame_outcome (fetcher : Fetcher) (srcs : List FontSrc) (a b : FontOut)
    (h : a.sameOutcome b) : (fontLoop fetcher srcs a).sameOutcome (fontLoop fetcher srcs b) := by
  induction srcs generalizing a b with
  | nil => obtain ⟨h1, _, h3⟩ := h; exact ⟨h1, rfl, h3⟩
  | cons src rest ih =>
    obtain ⟨h1, h2, h3⟩ := h
    simp only [fontLoop]
    split
    · exact ih a b ⟨h1, h2, h3⟩
    · rename_i url _
      cases hfe : fetch (fetcher url) url readAll with
      | mk evs got =>
        simp only
        cases got with
        | error e => exact ih _ _ ⟨h1, h2, h3⟩
        | ok content =>
          simp only
          split
          · exact ih _ _ ⟨h1, h2, h3⟩
          · split
            · exact ⟨rfl, h2, h3⟩
            · exact ih _ _ ⟨h1, h2, h3⟩

/-- Does this `src` entry end with a font registered in fontconfig? -/
def srcInstalls (fetcher : Fetcher) (src : FontSrc) : Bool :=
  match src.target with
  | none => false
  | some url =>
    match (fetch (fetcher url) url readAll).2 with
    | .error _ => false
    | .ok content => !(content.woff && !content.woffOk) && content.fontOk

/-- `failure_as_absent` (@font-face `src`), full strength since the repair of
`font-data-then-local-typeerror`: an entry that does not end with an installed font — broken URL,
`internal`, unmatched `local()`, a fetch that raises / is not a dict / cannot be read, a woff that
does not decode, data fontconfig rejects — is skipped: the font installed, the warning and the
outcome are those of the `src` list without it, wherever it stands and whatever follows. -/
theorem failure_as_absent_font_src (fetcher : Fetcher) (src : FontSrc) (rest : List FontSrc) (acc : FontOut)
    (h : srcInstalls fetcher src = false) :
    (fontLoop fetcher (src :: rest) acc).sameOutcome (fontLoop fetcher rest acc) := by
  have refl : ∀ o : FontOut, o.sameOutcome o := fun o => ⟨rfl, rfl, rfl⟩
  unfold srcInstalls at h
  simp only [fontLoop]
  split
  · exact refl _
  · rename_i url hurl
    rw [hurl] at h
    simp only at h
    cases hfe : fetch (fetcher url) url readAll with
    | mk evs got =>
      rw [hfe] at h
      simp only at h ⊢
      cases got with
      | error e => exact fontLoop_frame_outcome fetcher rest _ _ ⟨rfl, rfl, rfl⟩
      | ok content =>
        simp only at h ⊢
        split
        · exact fontLoop_frame_outcome fetcher rest _ _ ⟨rfl, rfl, rfl⟩
        · rename_i hw
          have hfo : content.fontOk = false := by
            cases hb : content.fontOk with
            | false => rfl
            | true => simp [hb] at h; simp [h] at hw
          simp only [hfo]
          exact fontLoop_frame_outcome fetcher rest _ _ ⟨rfl, rfl, rfl⟩

/-- When the fetch itself fails (the fetcher raises — any exception), not even the temp file differs. -/
theorem failure_as_absent_font_fetch (fetcher : Fetcher) (u : String) (e : Exc) (rest : List FontSrc) (acc : FontOut)
    (hf : fetcher u = .raises e) :
    (fontLoop fetcher (.external (some u) :: rest) acc).sameEffect (fontLoop fetcher rest acc) := by
  simp only [fontLoop, FontSrc.target, hf, fetch]
  exact fontLoop_frame fetcher rest _ _ ⟨rfl, rfl, rfl, rfl⟩

example : (fontLoop (fun _ => .raises ⟨"OSError", "x"⟩)
      [.external (some "http://a/f.woff"), .«local» "Nope" false false "file:///none"] {}).warned = true := by
  decide

/-- Regression (finding `font-data-then-local-typeerror`, repaired in 829d022): a fetched but unusable
font followed by a `local()` entry no longer raises; the entry is skipped and the next one is tried. -/
example :
    let fetcher : Fetcher := fun _ => .resp ⟨true, none, none, none, ⟨25, false, none, false, true, false⟩⟩
    (fontLoop fetcher [.external (some "http://a.test/f.ttf"), .«local» "Foo" true false "file:///none"] {}).err = none ∧
    (fontLoop fetcher [.external (some "http://a.test/f.ttf"), .«local» "Foo" true false "file:///none"] {}).warned = true ∧
    srcInstalls fetcher (.external (some "http://a.test/f.ttf")) = false := by decide

/-! ### attachments -/

/-- `failure_as_absent` (attachment): a failing fetch gives `None` (nothing is added to the PDF). -/
theorem attachment_failure_is_none (fetcher : Fetcher) (url : String) (e : Exc) (h : fetcher url = .raises e) :
    writeAttachment fetcher url = ([.call url], .ok none) := by
  simp [writeAttachment, h, fetch, Exc.wrapFetch, Exc.isUrlFetching]

/-- `failure_as_absent` (`<link rel=attachment>`): the embedded files of the document are those of
the document without the failing attachment, wherever it stands in the list. -/
theorem failure_as_absent_attachment (fetcher : Fetcher) (pre post : List String) (url : String) (e : Exc)
    (h : fetcher url = .raises e) :
    (metadataAttachments fetcher (pre ++ url :: post)).2 = (metadataAttachments fetcher (pre ++ post)).2 := by
  induction pre with
  | nil =>
    simp only [List.nil_append, metadataAttachments, attachment_failure_is_none fetcher url e h]
    cases (metadataAttachments fetcher post).2 <;> simp [Except.map]
  | cons x xs ih =>
    simp only [List.cons_append, metadataAttachments]
    cases hx : writeAttachment fetcher x with
    | mk evs out =>
      cases out with
      | error e' => rfl
      | ok v => simp only [ih]

/-- `add_annotations` fetches each distinct attachment target at most once: a target already in
`annot_files` (embedded, or failed) is not fetched again. -/
theorem annotation_target_fetched_once (fetcher : Fetcher) (files : List (String × Option Nat)) (url : String)
    (v : Option Nat) (rest : List String) (h : files.lookup url = some v) :
    (annotAttachments fetcher files (url :: rest)).1 = (annotAttachments fetcher files rest).1 := by
  simp [annotAttachments, h]

/-! ### graceful degradation of the other loaders: no exception for absorbed fetch outcomes -/

/-- `write_pdf_attachment` never raises for an absorbed fetch outcome. -/
theorem attachment_total_partial (fetcher : Fetcher) (url : String) (h : Fetched.absorbed (fetcher url) = true) :
    ∃ v, (writeAttachment fetcher url).2 = .ok v := by
  unfold writeAttachment
  cases hf : fetcher url with
  | raises e => exact ⟨none, by simp [fetch, Exc.wrapFetch, Exc.isUrlFetching]⟩
  | notDict => simp [hf, Fetched.absorbed] at h
  | resp r =>
    rw [hf] at h
    have hbody := (fetch_funnel_body r url attachmentBody).1
    have hread : attachmentBody (r.withDefaults url) = .ok r.content := readAll_ok_of_absorbed r h
    cases hfe : fetch (.resp r) url attachmentBody with
    | mk evs got =>
      rw [hfe] at hbody
      simp only at hbody
      rw [hread] at hbody
      subst hbody
      exact ⟨some r.content.id, rfl⟩

/-- `add_font_face` never raises, whatever the `src` list and whatever the fetcher does for each URL
(raise, not a dict, unreadable stream, garbage, valid font).  Full strength since 829d022. -/
theorem font_loop_total (fetcher : Fetcher) (srcs : List FontSrc) (acc : FontOut) (hacc : acc.err = none) :
    (fontLoop fetcher srcs acc).err = none := by
  induction srcs generalizing acc with
  | nil => simpa [fontLoop] using hacc
  | cons s rest ih =>
    simp only [fontLoop]
    split
    · exact ih _ hacc
    · rename_i url _
      cases fetch (fetcher url) url readAll with
      | mk evs got =>
        simp only
        cases got with
        | error e => exact ih _ (by simpa using hacc)
        | ok content =>
          simp only
          split
          · exact ih _ (by simpa using hacc)
          · split
            · simpa using hacc
            · exact ih _ (by simpa using hacc)

mutual
  /-- Every fetch reachable from the item is absorbed (raises at the fetcher, or delivers bytes). -/
  def itemAllAbsorbed : CssItem → Bool
    | .rule _ => true
    | .other => true
    | .importRule _ _ target => sheetAllAbsorbed target
    | .mediaRule _ items => itemsAllAbsorbed items
    | .fontFace _ _ => true
  def itemsAllAbsorbed : List CssItem → Bool
    | [] => true
    | i :: rest => itemAllAbsorbed i && itemsAllAbsorbed rest
  def sheetAllAbsorbed : Sheet → Bool
    | .mk f items => Fetched.absorbed f && itemsAllAbsorbed items
end

private theorem seq_err_none (a b : Out) (ha : a.err = none) (hb : b.err = none) : (a.seq b).err = none := by
  simp [Out.seq, ha, hb]

private theorem absorb_err_none (o : Out) (h : o.err = none) : o.absorbFetchError.err = none := by
  simp [Out.absorbFetchError, h]

private theorem cssSourceBody_ok (c : Bool) (r : Resp) (url : String) (h : Fetched.absorbed (.resp r) = true) :
    ∃ b, cssSourceBody c (r.withDefaults url) = .ok b := by
  unfold cssSourceBody
  by_cases hm : (c && (r.withDefaults url).mime != some "text/css") = true
  · exact ⟨false, by simp [hm]⟩
  · simp only [hm]
    have := readAll_ok_of_absorbed r h
    unfold readAll at this
    cases hs : r.hasString with
    | true => exact ⟨true, by simp [Resp.withDefaults, hs]⟩
    | false =>
      cases hf : r.fileObj with
      | none => simp [hs, hf] at this
      | some fo =>
        cases hr : fo.readErr with
        | some e => simp [hs, hf, hr] at this
        | none => exact ⟨true, by simp [Resp.withDefaults, hs, hf, hr]⟩

mutual
  /-- `preprocess_stylesheet` never raises when every reachable `@import` fetch is absorbed. -/
  theorem stylesheet_items_total_partial (d : String) :
      ∀ (ign : Bool) (items : List CssItem), itemsAllAbsorbed items = true → (runItems d ign items).err = none
    | _, [], _ => rfl
    | ign, .rule id :: rest, h => by
      simp only [itemsAllAbsorbed, itemAllAbsorbed, Bool.true_and] at h
      simp only [runItems]
      exact seq_err_none _ _ rfl (stylesheet_items_total_partial d true rest h)
    | ign, .other :: rest, h => by
      simp only [itemsAllAbsorbed, itemAllAbsorbed, Bool.true_and] at h
      simp only [runItems]
      exact stylesheet_items_total_partial d true rest h
    | ign, .fontFace complete face :: rest, h => by
      simp only [itemsAllAbsorbed, itemAllAbsorbed, Bool.true_and] at h
      simp only [runItems]
      refine seq_err_none _ _ ?_ (stylesheet_items_total_partial d true rest h)
      cases complete <;> rfl
    | ign, .mediaRule media items :: rest, h => by
      simp only [itemsAllAbsorbed, itemAllAbsorbed, Bool.and_eq_true] at h
      simp only [runItems]
      cases media with
      | none => exact stylesheet_items_total_partial d ign rest h.2
      | some m =>
        simp only
        split
        · exact stylesheet_items_total_partial d true rest h.2
        · exact seq_err_none _ _ (stylesheet_items_total_partial d true items h.1)
            (stylesheet_items_total_partial d true rest h.2)
    | ign, .importRule url media target :: rest, h => by
      simp only [itemsAllAbsorbed, itemAllAbsorbed, Bool.and_eq_true] at h
      simp only [runItems]
      split
      · exact stylesheet_items_total_partial d ign rest h.2
      · split
        · exact stylesheet_items_total_partial d ign rest h.2
        · exact stylesheet_items_total_partial d ign rest h.2
        · split
          · exact stylesheet_items_total_partial d ign rest h.2
          · exact seq_err_none _ _ (stylesheet_sheet_total_partial d false _ target h.1)
              (stylesheet_items_total_partial d ign rest h.2)
  /-- `CSS(url=…)` inside `try … except URLFetchingError` never raises when every reachable fetch is
  absorbed (the fetcher raising included: that is the logged case). -/
  theorem stylesheet_sheet_total_partial (d : String) (c : Bool) (url : String) :
      ∀ (sh : Sheet), sheetAllAbsorbed sh = true → (runSheet d c url sh).absorbFetchError.err = none
    | .mk (.raises e) items, _ => by
      rw [runSheet_raises]; exact (absorb_raises_silent _ e).2.2
    | .mk .notDict items, h => by simp [sheetAllAbsorbed, Fetched.absorbed] at h
    | .mk (.resp r) items, h => by
      simp only [sheetAllAbsorbed, Bool.and_eq_true] at h
      obtain ⟨b, hb⟩ := cssSourceBody_ok c r url h.1
      have hbody := (fetch_funnel_body r url (cssSourceBody c)).1
      apply absorb_err_none
      simp only [runSheet]
      cases hfe : fetch (.resp r) url (cssSourceBody c) with
      | mk evs src =>
        rw [hfe] at hbody
        simp only at hbody
        rw [hb] at hbody
        subst hbody
        cases b with
        | false => rfl
        | true => exact seq_err_none _ _ rfl (stylesheet_items_total_partial d false items h.2)
end

/-- `find_stylesheets` never raises when every stylesheet fetch of the document — linked or imported,
at any depth — is absorbed: failures are logged and skipped. -/
theorem find_stylesheets_total_partial (d : String) (els : List StyleEl)
    (h : ∀ el ∈ els, (el.isLink = false → itemsAllAbsorbed el.items = true) ∧
                     (el.isLink = true → sheetAllAbsorbed el.target = true)) :
    (findStylesheets d els).err = none := by
  induction els with
  | nil => rfl
  | cons el rest ih =>
    have hel := h el (by simp)
    refine seq_err_none _ _ ?_ (ih (fun e he => h e (by simp [he])))
    unfold runStyleEl
    split
    · rfl
    · split
      · rfl
      · split
        · rename_i hl
          exact stylesheet_items_total_partial d false el.items (hel.1 (by simpa using hl))
        · rename_i hl
          split
          · rfl
          · split
            · rfl
            · split
              · rfl
              · exact stylesheet_sheet_total_partial d true _ el.target (hel.2 (by simpa using hl))

/-! ## (d) the bytes embedded are the bytes the fetcher returned -/

/-- Without a local file name, `RasterImage` keeps its data in memory. -/
theorem raster_without_filename_in_memory (p : Pil) (o : Orient) (opts : Opts) (fmt : String) (src : Src)
    (h : rasterInit p o none opts = .ok (fmt, src)) : src = .memOriginal ∨ src = .memReencoded := by
  unfold rasterInit at h
  simp only [ite_self, cacheImageData] at h
  split at h <;> split at h <;> (try split at h) <;> simp at h <;> simp [← h.2]

/-- What `decide_image` builds from content `c` with no file name reads nothing from disk and embeds
`c`'s bytes, as they are or re-encoded by Pillow. -/
private theorem decideImage_no_filename (req : Req) (opts : Opts) (c : Content) (m : Option String) (img : Img)
    (h : decideImage req opts none c m = .ok img) (fs : Fs) :
    (dataAtWrite fs img = .ok (.fetched c.id) ∨ dataAtWrite fs img = .ok (.reencodedFrom c.id)) ∧
    opensAtWrite img = [] := by
  have hsvg : ∀ i, Img.svg c.id = i →
      (dataAtWrite fs i = .ok (.fetched c.id) ∨ dataAtWrite fs i = .ok (.reencodedFrom c.id)) ∧
      opensAtWrite i = [] := by
    intro i hi; subst hi; simp [dataAtWrite, opensAtWrite]
  have hraster : ∀ p fmt src i, rasterInit p req.orient none opts = .ok (fmt, src) → Img.raster fmt src c.id = i →
      (dataAtWrite fs i = .ok (.fetched c.id) ∨ dataAtWrite fs i = .ok (.reencodedFrom c.id)) ∧
      opensAtWrite i = [] := by
    intro p fmt src i hr hi; subst hi
    rcases raster_without_filename_in_memory p req.orient opts fmt src hr with hs | hs <;>
      simp [dataAtWrite, opensAtWrite, hs]
  unfold decideImage at h
  cases hp : c.pillow with
  | none =>
    cases hx : c.xmlOk <;> cases hm : (m == some "image/svg+xml") <;>
      simp [hx, hp, hm] at h <;> exact hsvg _ h
  | some p =>
    cases hr : rasterInit p req.orient none opts with
    | error e =>
      cases hx : c.xmlOk <;> cases hm : (m == some "image/svg+xml") <;> simp [hx, hp, hm, hr] at h <;> exact hsvg _ h
    | ok v =>
      obtain ⟨fmt, src⟩ := v
      cases hx : c.xmlOk <;> cases hm : (m == some "image/svg+xml") <;>
        simp [hx, hp, hm, hr] at h <;> first | exact hsvg _ h | exact hraster _ _ _ _ hr h

private theorem readAll_ok_content (r : Resp) (c : Content) (h : readAll r = .ok c) : c = r.content := by
  unfold readAll at h
  cases hs : r.hasString with
  | true => simp [hs] at h; exact h.symm
  | false =>
    cases hf : r.fileObj with
    | none => simp [hs, hf] at h
    | some fo =>
      cases hr : fo.readErr with
      | some e => simp [hs, hf, hr] at h
      | none => simp [hs, hf, hr] at h; exact h.symm

/- Full statement (false of the current code, see `Witness.C20.lazy_local_reread`): the same without
   the hypothesis on the scheme of the redirected URL. -/
/-- `bytes_from_fetcher`: when the URL the fetcher reports (`redirected_url`, by default the
requested URL) is not a `file:` URL, the image `get_image_from_uri` returns embeds the bytes the
fetcher returned — as they are, or re-encoded from them — whatever is on the local file system, and
opens no file when the PDF is written. -/
theorem bytes_from_fetcher_partial (fetcher : Fetcher) (opts : Opts) (req : Req) (r : Resp) (img : Img)
    (hf : fetcher req.url = .resp r)
    (hscheme : urlScheme (r.redirected.getD req.url) ≠ "file")
    (h : (getImage [] fetcher opts req).2.2 = .ok (some img)) (fs : Fs) :
    (dataAtWrite fs img = .ok (.fetched r.content.id) ∨ dataAtWrite fs img = .ok (.reencodedFrom r.content.id)) ∧
    opensAtWrite img = [] := by
  have hbody : (fetch (.resp r) req.url (imageBody req)).2 =
      imageBody req (r.withDefaults req.url) := (fetch_funnel_body r req.url (imageBody req)).1
  have hred : (r.withDefaults req.url).redirected.getD "" = r.redirected.getD req.url := by
    simp [Resp.withDefaults]
  unfold getImage at h
  simp only [Cache.find?, hf] at h
  cases hfe : fetch (.resp r) req.url (imageBody req) with
  | mk evs fetched =>
    have h2 : fetched = imageBody req (r.withDefaults req.url) := by
      have := hbody; rw [hfe] at this; exact this
    subst h2
    simp only [hfe] at h
    unfold imageBody at h
    rw [hred] at h
    have hs : (urlScheme (r.redirected.getD req.url) == "file") = false := by
      simpa using hscheme
    simp only [hs] at h
    cases hread : readAll (r.withDefaults req.url) with
    | error e =>
      simp only [hread] at h
      cases hcls : (e.isUrlFetching || e.isImageLoading) <;> simp [hcls] at h
    | ok content =>
      have hcontent : content = r.content := readAll_ok_content (r.withDefaults req.url) content hread
      subst hcontent
      simp only [hread] at h
      cases hd : decideImage req opts none r.content (effectiveMime req.forcedMime (r.withDefaults req.url)) with
      | error e =>
        simp only [Bool.false_eq_true, ↓reduceIte, hd] at h
        cases hcls : (e.isUrlFetching || e.isImageLoading) <;> simp [hcls] at h
      | ok img' =>
        simp only [Bool.false_eq_true, ↓reduceIte, hd] at h
        have : img' = img := by simpa using h
        subst this
        exact decideImage_no_filename req opts r.content _ img' hd fs

example : (getImage [] (fun _ => .resp ⟨true, none, some "image/png", none,
      ⟨1, false, some ⟨"PNG", "RGB", false, false, true⟩, false, true, false⟩⟩) ⟨false, none, none⟩
      ⟨"http://a/x.png", .fromImage, none⟩).2.2 = .ok (some (.raster "PNG" .memOriginal 1)) := rfl

/-- SVG images, re-encoded rasters and in-memory rasters never read the file system, under any URL. -/
theorem only_lazy_local_opens (img : Img) (h : opensAtWrite img ≠ []) :
    ∃ fmt path c, img = .raster fmt (.lazyLocal path) c := by
  cases img with
  | svg c => simp [opensAtWrite] at h
  | raster fmt src c =>
    cases src with
    | lazyLocal path => exact ⟨fmt, path, c, rfl⟩
    | memOriginal => simp [opensAtWrite] at h
    | memReencoded => simp [opensAtWrite] at h

/-! ## (c′, d′) the whole document: render and write_pdf complete, nothing is opened -/

/-- No cached image re-reads the file system. -/
def cacheInMemory (cache : Cache) : Prop := ∀ k img, (k, some img) ∈ cache → opensAtWrite img = []

/-- The fetcher's answer for `u`, if a dict, does not report a `file:` location. -/
def notFileLocation (fetcher : Fetcher) (u : String) : Prop :=
  ∀ r, fetcher u = .resp r → urlScheme (r.redirected.getD u) ≠ "file"

private theorem getImage_keeps_in_memory (cache : Cache) (fetcher : Fetcher) (opts : Opts) (req : Req)
    (hc : cacheInMemory cache) (hn : notFileLocation fetcher req.url) :
    cacheInMemory (getImage cache fetcher opts req).1 := by
  have extend : ∀ v : Option Img, (∀ img, v = some img → opensAtWrite img = []) →
      cacheInMemory (((req.key opts), v) :: cache) := by
    intro v hv k img hmem
    simp only [List.mem_cons, Prod.mk.injEq] at hmem
    rcases hmem with ⟨_, h2⟩ | hmem
    · exact hv img h2.symm
    · exact hc k img hmem
  cases hfind : cache.find? (req.key opts) with
  | some v => rw [image_cache_hit cache fetcher opts req v hfind]; exact hc
  | none =>
    cases hf : fetcher req.url with
    | raises e =>
      rw [image_fetch_failure_is_none cache fetcher opts req e hfind hf]
      exact extend none (by simp)
    | notDict =>
      have : (getImage cache fetcher opts req).1 = cache := by
        simp [getImage, hfind, hf, fetch, Exc.isUrlFetching, Exc.isImageLoading]
      rw [this]; exact hc
    | resp r =>
      have hbody := (fetch_funnel_body r req.url (imageBody req)).1
      have hred : (r.withDefaults req.url).redirected.getD "" = r.redirected.getD req.url := by
        simp [Resp.withDefaults]
      have hs : (urlScheme (r.redirected.getD req.url) == "file") = false := by
        simpa using hn r hf
      unfold getImage
      simp only [hfind, hf]
      cases hfe : fetch (.resp r) req.url (imageBody req) with
      | mk evs fetched =>
        rw [hfe] at hbody
        simp only at hbody
        subst hbody
        simp only
        unfold imageBody
        rw [hred]
        simp only [hs]
        cases hread : readAll (r.withDefaults req.url) with
        | error e =>
          simp only
          cases hcls : (e.isUrlFetching || e.isImageLoading)
          · simpa using hc
          · simp only [↓reduceIte]; exact extend none (by simp)
        | ok content =>
          simp only [Bool.false_eq_true, ↓reduceIte]
          cases hd : decideImage req opts none content (effectiveMime req.forcedMime (r.withDefaults req.url)) with
          | ok img =>
            simp only
            exact extend (some img) (fun i hi => by
              cases hi
              exact (decideImage_no_filename req opts content _ img hd (fun _ => none)).2)
          | error e =>
            simp only
            cases hcls : (e.isUrlFetching || e.isImageLoading)
            · simpa using hc
            · simp only [↓reduceIte]; exact extend none (by simp)

private theorem runRefs_total (fetcher : Fetcher) (opts : Opts) (refs : List Doc.ImgRef) (cache : Cache)
    (hc : cacheInMemory cache)
    (h : ∀ r ∈ refs, ∀ u, r.url = some u → Fetched.absorbed (fetcher u) = true ∧ notFileLocation fetcher u) :
    (Doc.runRefs fetcher opts cache refs).2.2.2 = none ∧
    cacheInMemory (Doc.runRefs fetcher opts cache refs).2.2.1 := by
  induction refs generalizing cache with
  | nil => exact ⟨rfl, hc⟩
  | cons r rest ih =>
    have hrest : ∀ r' ∈ rest, ∀ u, r'.url = some u → Fetched.absorbed (fetcher u) = true ∧ notFileLocation fetcher u :=
      fun r' hr' => h r' (by simp [hr'])
    unfold Doc.runRefs
    cases hu : r.url with
    | none => simpa using ih cache hc hrest
    | some u =>
      simp only
      by_cases he : (u == "") = true
      · simp only [he, ↓reduceIte]; simpa using ih cache hc hrest
      · simp only [he]
        obtain ⟨habs, hnf⟩ := h r (by simp) u hu
        have hreq : (⟨u, r.orient, r.forcedMime⟩ : Req).url = u := rfl
        obtain ⟨v, hv⟩ := image_total_partial cache fetcher opts ⟨u, r.orient, r.forcedMime⟩ (by rw [hreq]; exact habs)
        have hkeep := getImage_keeps_in_memory cache fetcher opts ⟨u, r.orient, r.forcedMime⟩ hc (by rw [hreq]; exact hnf)
        cases hg : getImage cache fetcher opts ⟨u, r.orient, r.forcedMime⟩ with
        | mk cache' rest' =>
          cases rest' with
          | mk evs out =>
            rw [hg] at hv hkeep
            simp only at hv hkeep
            subst hv
            simpa using ih cache' hkeep hrest

private theorem drawItems_keeps_in_memory (fetcher : Fetcher) (opts : Opts) (deeper : Cache → String → Nat → Svg.DrawOut)
    (hdeeper : ∀ cache key c, cacheInMemory cache → cacheInMemory (deeper cache key c).1)
    (items : List Doc.SvgItem) (cache : Cache) (hc : cacheInMemory cache)
    (h : ∀ u, Doc.SvgItem.image (some u) ∈ items → notFileLocation fetcher u) :
    cacheInMemory (Svg.drawItems fetcher opts deeper cache items).1 := by
  induction items generalizing cache with
  | nil => exact hc
  | cons it rest ih =>
    have hrest : ∀ u, Doc.SvgItem.image (some u) ∈ rest → notFileLocation fetcher u :=
      fun u hu => h u (by simp [hu])
    cases it with
    | useExternal u => simp only [Svg.drawItems]; exact ih cache hc hrest
    | image url =>
      cases url with
      | none => simp only [Svg.drawItems]; exact ih cache hc hrest
      | some url =>
        simp only [Svg.drawItems]
        split
        · exact ih cache hc hrest
        · have hkeep := getImage_keeps_in_memory cache fetcher opts ⟨url, .fromImage, some "image/*"⟩ hc
            (h url (by simp))
          split
          · rename_i c' evs e hg
            rw [hg] at hkeep; exact hkeep
          · rename_i c' evs c hg
            rw [hg] at hkeep
            exact ih _ (hdeeper _ _ _ hkeep) hrest
          · rename_i c' evs v hne hg
            rw [hg] at hkeep
            exact ih _ hkeep hrest

private theorem lookup_mem {α} (l : List (Nat × α)) (k : Nat) (v : α) (h : l.lookup k = some v) : (k, v) ∈ l := by
  induction l with
  | nil => simp [List.lookup] at h
  | cons x xs ih =>
    obtain ⟨k', v'⟩ := x
    simp only [List.lookup] at h
    split at h
    · rename_i heq
      have : k = k' := by simpa using heq
      cases h; subst this; simp
    · exact List.mem_cons_of_mem _ (ih h)

private theorem drawObject_keeps_in_memory (fetcher : Fetcher) (opts : Opts) (info : List (Nat × List Doc.SvgItem))
    (h : ∀ e ∈ info, ∀ u, Doc.SvgItem.image (some u) ∈ e.2 → notFileLocation fetcher u)
    (fuel : Nat) (drawing : List String) (cache : Cache) (key : String) (c : Nat) (hc : cacheInMemory cache) :
    cacheInMemory (Svg.drawObject fetcher opts info fuel drawing cache key c).1 := by
  induction fuel generalizing drawing cache key c with
  | zero => exact hc
  | succ fuel ih =>
    simp only [Svg.drawObject]
    split
    · exact hc
    · apply drawItems_keeps_in_memory fetcher opts _ (fun cache' key' c' hc' => ih _ cache' key' c' hc') _ cache hc
      cases hl : info.lookup c with
      | none => intro u hu; simp at hu
      | some items => exact h (c, items) (lookup_mem info c items hl)

private theorem paintSvgs_keeps_in_memory (fetcher : Fetcher) (opts : Opts) (info : List (Nat × List Doc.SvgItem))
    (cs : List (String × Nat)) (cache : Cache) (hc : cacheInMemory cache)
    (h : ∀ e ∈ info, ∀ u, Doc.SvgItem.image (some u) ∈ e.2 → notFileLocation fetcher u) :
    cacheInMemory (Doc.paintSvgs fetcher opts info cache cs).1 := by
  induction cs generalizing cache with
  | nil => exact hc
  | cons c rest ih =>
    obtain ⟨key, c⟩ := c
    simp only [Doc.paintSvgs]
    apply ih
    exact drawObject_keeps_in_memory fetcher opts info h _ _ cache key c hc

private theorem localPaths_nil (cache : Cache) (fmt : String) (h : cacheInMemory cache) :
    Doc.localPaths cache fmt = [] := by
  unfold Doc.localPaths
  have hd : ∀ l : List String, l = [] → l.eraseDups = [] := by intro l hl; subst hl; rfl
  apply hd
  rw [List.filterMap_eq_nil_iff]
  intro x hx
  obtain ⟨k, v⟩ := x
  have hmem : (k, v) ∈ cache := by simpa using hx
  cases v with
  | none => rfl
  | some img =>
    cases img with
    | svg c => rfl
    | raster f src c =>
      cases src with
      | lazyLocal p =>
        have := h k _ hmem
        simp [opensAtWrite] at this
      | memOriginal => rfl
      | memReencoded => rfl

private theorem annots_total (fetcher : Fetcher) (urls : List String) (files : List (String × Option Nat))
    (h : ∀ u ∈ urls, Fetched.absorbed (fetcher u) = true) :
    ∃ vs, (annotAttachments fetcher files urls).2 = .ok vs := by
  induction urls generalizing files with
  | nil => exact ⟨[], rfl⟩
  | cons u rest ih =>
    have hrest : ∀ u' ∈ rest, Fetched.absorbed (fetcher u') = true := fun u' hu' => h u' (by simp [hu'])
    unfold annotAttachments
    cases hl : files.lookup u with
    | some v =>
      obtain ⟨vs, hvs⟩ := ih files hrest
      exact ⟨v :: vs, by simp [hvs, Except.map]⟩
    | none =>
      obtain ⟨v, hv⟩ := attachment_total_partial fetcher u (h u (by simp))
      cases hw : writeAttachment fetcher u with
      | mk evs out =>
        rw [hw] at hv
        simp only at hv
        subst hv
        obtain ⟨vs, hvs⟩ := ih ((u, v) :: files) hrest
        exact ⟨v :: vs, by simp [hvs, Except.map]⟩

private theorem metas_total (fetcher : Fetcher) (urls : List String)
    (h : ∀ u ∈ urls, Fetched.absorbed (fetcher u) = true) :
    ∃ vs, (metadataAttachments fetcher urls).2 = .ok vs := by
  induction urls with
  | nil => exact ⟨[], rfl⟩
  | cons u rest ih =>
    obtain ⟨vs, hvs⟩ := ih (fun u' hu' => h u' (by simp [hu']))
    obtain ⟨v, hv⟩ := attachment_total_partial fetcher u (h u (by simp))
    unfold metadataAttachments
    cases hw : writeAttachment fetcher u with
    | mk evs out =>
      rw [hw] at hv
      simp only at hv
      subst hv
      refine ⟨match v with | some c => c :: vs | none => vs, ?_⟩
      cases v <;> simp [hvs, Except.map]

private theorem interp_total (fetcher : Fetcher) (acts : List Act) (st : FontState) :
    (Doc.interp fetcher st acts).2.2.2 = none := by
  induction acts generalizing st with
  | nil => rfl
  | cons a rest ih =>
    cases a with
    | rule i => simp only [Doc.interp]; exact ih st
    | ev e => simp only [Doc.interp]; exact ih st
    | font face =>
      simp only [Doc.interp]
      have herr : (addFontFace fetcher st face).2.err = none := by
        unfold addFontFace
        split
        · rfl
        · exact font_loop_total fetcher face.srcs {} rfl
      cases ha : addFontFace fetcher st face with
      | mk st' out =>
        rw [ha] at herr
        simp only at herr
        simp only [herr]
        exact ih st'

/-- A document on which the property must hold in full: every fetch it triggers either raises at the
fetcher or delivers bytes (any bytes), and no image comes with a `file:` location.  (`@font-face`
rules need no hypothesis since 829d022.) -/
structure PlainDocument (d : Doc.Document) : Prop where
  styles : ∀ el ∈ d.styles, (el.isLink = false → itemsAllAbsorbed el.items = true) ∧
                            (el.isLink = true → sheetAllAbsorbed el.target = true)
  images : ∀ r ∈ d.images, ∀ u, r.url = some u → Fetched.absorbed (d.fetcher u) = true ∧ notFileLocation d.fetcher u
  metas : ∀ u ∈ d.metaAttachments, Fetched.absorbed (d.fetcher u) = true
  annots : ∀ u ∈ d.annotAttachments, Fetched.absorbed (d.fetcher u) = true
  svgs : ∀ e ∈ d.svgInfo, ∀ u, Doc.SvgItem.image (some u) ∈ e.2 → notFileLocation d.fetcher u

/-- `failure degrades gracefully`, whole pipeline: on a plain document — whatever subset of its
fetches fails and in whatever mode (exception, empty, truncated, wrong type, HTML) — `render` and
`write_pdf` both complete, and no local file is opened behind the fetcher, whatever is on disk.  The
fetches made while SVG images are drawn need no hypothesis at all besides the `file:` one: whatever
they raise is absorbed by `SVGImage.draw`. -/
theorem document_completes_partial (d : Doc.Document) (h : PlainDocument d) :
    (Doc.run d).render = .ok () ∧ (Doc.run d).write = .ok () ∧ (Doc.run d).opens = [] := by
  have hcss := find_stylesheets_total_partial d.device d.styles h.styles
  have hinterp := interp_total d.fetcher (findStylesheets d.device d.styles).acts {}
  have hrefs := runRefs_total d.fetcher d.opts d.images [] (by intro k img hm; simp at hm) h.images
  obtain ⟨as, has⟩ := annots_total d.fetcher d.annotAttachments [] h.annots
  obtain ⟨ms, hms⟩ := metas_total d.fetcher d.metaAttachments h.metas
  simp only [Doc.run]
  cases hi : Doc.interp d.fetcher {} (findStylesheets d.device d.styles).acts with
  | mk log r1 =>
    obtain ⟨rules, inst, fontErr⟩ := r1
    rw [hi] at hinterp
    simp only at hinterp
    subst hinterp
    simp only [hcss]
    cases hr : Doc.runRefs d.fetcher d.opts [] d.images with
    | mk ilog r2 =>
      obtain ⟨boxes, cache, ierr⟩ := r2
      rw [hr] at hrefs
      simp only at hrefs
      obtain ⟨hierr, hmem⟩ := hrefs
      subst hierr
      simp only
      cases ha : annotAttachments d.fetcher [] d.annotAttachments with
      | mk evs aout =>
        rw [ha] at has
        simp only at has
        subst has
        simp only
        have hmem := paintSvgs_keeps_in_memory d.fetcher d.opts d.svgInfo
          ((Doc.paintOrder d.images).filterMap (Doc.svgOfRef d.opts cache)) cache hmem h.svgs
        cases hm : metadataAttachments d.fetcher d.metaAttachments with
        | mk evs' mout =>
          rw [hm] at hms
          simp only at hms
          subst hms
          simp [localPaths_nil _ _ hmem, Doc.readLocal]

/-- Non-vacuity: a document with a stylesheet, an @import, a font, an image and an attachment whose
fetches all fail is plain; it renders with the alt text, no rule, no font, nothing embedded. -/
def failingDocument : Doc.Document where
  device := "print"
  styles := [⟨true, none, none, some "stylesheet", some "http://a.test/s.css", none, [],
              .mk (.raises ⟨"OSError", "reset"⟩) [.rule 1]⟩,
             ⟨false, none, none, none, none, none,
              [.importRule (some "http://a.test/i.css") (some ["all"]) (.mk (.raises ⟨"TimeoutError", ""⟩) [.rule 2]),
               .fontFace true ⟨1, [.external (some "http://a.test/f.woff")]⟩, .rule 3], .mk .notDict []⟩]
  images := [⟨.img, some "http://a.test/x.png", some "ALT", .fromImage, none, none⟩]
  metaAttachments := ["http://a.test/a.bin"]
  annotAttachments := []
  fetcher := fun _ => .raises ⟨"OSError", "reset"⟩
  opts := ⟨false, none, none⟩
  fs := fun _ => none

example : PlainDocument failingDocument := by
  refine ⟨?_, ?_, ?_, ?_, ?_⟩
  · intro el hel
    simp only [failingDocument, List.mem_cons, List.not_mem_nil, or_false] at hel
    rcases hel with h | h <;> subst h <;>
      simp [itemsAllAbsorbed, itemAllAbsorbed, sheetAllAbsorbed, Fetched.absorbed]
  · intro r hr u hu
    refine ⟨rfl, ?_⟩
    intro resp hresp
    simp [failingDocument] at hresp
  · intro u _; rfl
  · intro u hu; simp [failingDocument] at hu
  · intro e he u _ r hr
    simp [failingDocument] at hr

example : (Doc.run failingDocument).rules = [3] ∧ (Doc.run failingDocument).boxes = [[.altText "ALT"]] ∧
    (Doc.run failingDocument).embedded = [] := by decide

/-! ## (e) every loader gets its bytes from the fetcher; call sites that open files are whitelisted -/

/-- `every_loader_uses_fetcher` (fonts): the `src` loop depends on the fetcher only through its
answers for the URLs of the list (`url(...)` entries and the files matched by `local(...)`). -/
theorem fonts_depend_on_fetcher_at_urls (f g : Fetcher) (srcs : List FontSrc) (acc : FontOut)
    (h : ∀ s ∈ srcs, ∀ u, s.target = some u → f u = g u) :
    fontLoop f srcs acc = fontLoop g srcs acc := by
  induction srcs generalizing acc with
  | nil => rfl
  | cons s rest ih =>
    have hrest : ∀ s' ∈ rest, ∀ u, s'.target = some u → f u = g u :=
      fun s' hs' u hu => h s' (by simp [hs']) u hu
    simp only [fontLoop]
    split
    · exact ih _ hrest
    · rename_i url hurl
      have hfg : f url = g url := by
        exact h s (by simp) url hurl
      rw [hfg]
      cases fetch (g url) url readAll with
      | mk evs got =>
        simp only
        cases got with
        | error e => exact ih _ hrest
        | ok content =>
          simp only
          split
          · exact ih _ hrest
          · split
            · rfl
            · exact ih _ hrest

/-- `every_loader_uses_fetcher` (attachments). -/
theorem attachment_depends_on_fetcher_at_url (f g : Fetcher) (url : String) (h : f url = g url) :
    writeAttachment f url = writeAttachment g url := by
  simp [writeAttachment, h]

/-- Classification of the call sites that can open a file, a URL or a socket. -/
inductive SiteKind where
  | callerInput      -- a path / target given by the caller through the API, not by the document
  | bundled          -- data files shipped with the package (importlib.resources)
  | fontTemp         -- the private temp dir where fetched fonts are written for fontconfig
  | diskCache        -- the image cache directory chosen by the caller
  | memory           -- `Image.open(BytesIO(...))`: bytes already in memory
  | defaultFetcher   -- inside `default_url_fetcher`, the fetcher used when the caller gives none
  | lazyLocalImage   -- `LazyLocalImage.data`: re-reads a `file:` path at write time (known finding)
  deriving DecidableEq, Repr

/-- The whitelist: every site that exists today, with the reason it is allowed. -/
def openWhitelist : List ((String × String × String × String) × SiteKind) := [
  (("__init__.py", "Attachment.__init__", "getctime", "filename"), .callerInput),
  (("__init__.py", "Attachment.__init__", "getmtime", "filename"), .callerInput),
  (("__init__.py", "_select_source", "open", "filename"), .callerInput),
  (("document.py", "DiskCache.__getitem__", "self._path_from_key(key).read_bytes", "-"), .diskCache),
  (("document.py", "DiskCache.__setitem__", "path.write_bytes", "value"), .diskCache),
  (("document.py", "DiskCache.__contains__", "self._path_from_key(key).exists", "-"), .diskCache),
  (("document.py", "DiskCache.__del__", "path.unlink", "-"), .diskCache),
  (("document.py", "Document.write_pdf", "open", "target"), .callerInput),
  (("draw/text.py", "draw_first_line", "Image.open", "BytesIO()"), .memory),
  (("html.py", "<module>", "files(css) / 'html5_ua.css'.read_text", "const"), .bundled),
  (("html.py", "<module>", "files(css) / 'html5_ua_form.css'.read_text", "const"), .bundled),
  (("html.py", "<module>", "files(css) / 'html5_ph.css'.read_text", "const"), .bundled),
  (("images.py", "RasterImage.get_x_object", "Image.open", "BytesIO()"), .memory),
  (("images.py", "LazyLocalImage.data", "Path(self._filename).read_bytes", "-"), .lazyLocalImage),
  (("images.py", "get_image_from_uri", "Image.open", "BytesIO()"), .memory),
  (("pdf/__init__.py", "generate_pdf", "files(__package__) / 'sRGB2014.icc'.read_bytes", "-"), .bundled),
  (("text/fonts.py", "FontConfiguration.add_font_face", "mkdtemp", "-"), .fontTemp),
  (("text/fonts.py", "FontConfiguration.add_font_face", "font_path.exists", "-"), .fontTemp),
  (("text/fonts.py", "FontConfiguration.add_font_face", "font_path.write_bytes", "font"), .fontTemp),
  (("text/fonts.py", "FontConfiguration.__del__", "rmtree", "self._folder"), .fontTemp),
  (("urls.py", "default_url_fetcher", "urlopen", "Request()"), .defaultFetcher),
  (("urls.py", "default_url_fetcher", "Request", "url"), .defaultFetcher)]

/-- `every_loader_uses_fetcher`, tie to the source: every call site of `open`, `read_bytes`,
`read_text`, `write_bytes`, `urlopen`, `Request`, `mkdtemp`, … found by the AST scan of
`weasyprint/**/*.py` on this run is on the whitelist.  (A new site breaks this fact.) -/
theorem open_sites_whitelisted : ∀ s ∈ Gen.openSites, (openWhitelist.map (·.1)).contains s = true := by
  decide +kernel

/-- Exactly one whitelisted kind reads a path named by the document behind the fetcher's back:
`LazyLocalImage.data` (the known finding `lazy-local-image-reread`). -/
theorem only_lazy_local_reads_document_paths :
    (openWhitelist.filter (fun e => e.2 = .lazyLocalImage)).map (·.1) =
      [("images.py", "LazyLocalImage.data", "Path(self._filename).read_bytes", "-")] := by
  decide +kernel

/-- The places where a fetcher is called: `urls.fetch` itself, the three loaders that go through it
(`_select_source` for HTML / CSS / attachments, `get_image_from_uri`, `add_font_face`), and the two
SVG sites that bypass `fetch` (`<use>` of an external document calls the fetcher directly;
`@import` in an SVG `<style>` calls a method that does not exist and the image is dropped). -/
def fetchWhitelist : List (String × String × String) := [
  ("__init__.py", "_select_source", "fetch"),
  ("images.py", "get_image_from_uri", "fetch"),
  ("svg/css.py", "find_stylesheets_rules", "tree.fetch_url"),
  ("svg/defs.py", "get_use_tree", "svg.url_fetcher"),
  ("text/fonts.py", "FontConfiguration.add_font_face", "fetch"),
  ("urls.py", "fetch", "url_fetcher")]

theorem fetch_sites_exact : Gen.fetchSites = fetchWhitelist := by decide +kernel

/-! ### which exceptions each loader absorbs: the `except` clauses of the source, regenerated each run -/

/-- The functions whose `try` statements the models mirror. -/
def loaderScopes : List String := ["fetch", "get_image_from_uri", "SVGImage.draw", "find_stylesheets", "preprocess_stylesheet",
  "FontConfiguration.add_font_face", "get_use_tree", "write_pdf_attachment", "handle_svg"]

/-- The `except` clauses of the loaders, in source order, and the model branch that mirrors each. -/
def handlerWhitelist : List (String × String × String) := [
  -- `try: CSS(url=…) except URLFetchingError` around a `<link>`: `Out.absorbFetchError` in `runStyleEl`
  ("css/__init__.py", "find_stylesheets", "URLFetchingError"),
  -- invalid selector (not a fetch); then `@import`: `absorbFetchError` in `runItems`
  ("css/__init__.py", "preprocess_stylesheet", "cssselect2.SelectorError"),
  ("css/__init__.py", "preprocess_stylesheet", "URLFetchingError"),
  -- inline `<svg>`: whatever building the image raises is logged, no box
  ("html.py", "handle_svg", "Exception"),
  -- `SVGImage.draw`: everything raised while drawing is swallowed, the `_drawing` flag reset (`drawSvg`, error branch)
  ("images.py", "SVGImage.draw", "BaseException +finally"),
  -- `getImage`: `e.isUrlFetching || e.isImageLoading`; the four inner ones re-raise as `ImageLoadingError` (`decideImage`)
  ("images.py", "get_image_from_uri", "(URLFetchingError, ImageLoadingError)"),
  ("images.py", "get_image_from_uri", "Exception"),
  ("images.py", "get_image_from_uri", "Exception"),
  ("images.py", "get_image_from_uri", "Exception"),
  ("images.py", "get_image_from_uri", "Exception"),
  -- `writeAttachment`: `e.isUrlFetching`
  ("pdf/anchors.py", "write_pdf_attachment", "URLFetchingError"),
  -- local `<use>` target missing; external `<use>`: fetch + parse failures give no tree (`drawSvg`, `useExternal`)
  ("svg/defs.py", "get_use_tree", "Exception"),
  ("svg/defs.py", "get_use_tree", "Exception"),
  -- `fontLoop`: `except Exception: continue` around the fetch, and around the WOFF decoding
  ("text/fonts.py", "FontConfiguration.add_font_face", "Exception"),
  ("text/fonts.py", "FontConfiguration.add_font_face", "Exception"),
  -- `fetch`: the fetcher call (→ `URLFetchingError`), the `with` body (`finally`: close), `file_obj.close()` (warning)
  ("urls.py", "fetch", "Exception"),
  ("urls.py", "fetch", " +finally"),
  ("urls.py", "fetch", "Exception")]

/-- The exception classes the loaders absorb are exactly those the models absorb: narrowing an `except` clause (a
failure mode then aborts the render) or widening one changes this list and breaks the proof. -/
theorem loader_handlers_exact :
    Gen.handlerSites.filter (fun s => loaderScopes.contains s.2.1) = handlerWhitelist := by decide +kernel

end Wp.C20
