/-
C03 (progress) and the termination half of C02 for PM stage 2c (multi-column containers).

`pos box σ` = units of the box consumed before the resume position `σ` (one unit per line, one per box:
`sizeBox`).  For ALL documents of the extended grammar without fixed heights on blocks / paragraphs and with
`orphans, widows ≥ 1` — `column-span: all` children of any shape included:
* `layout_progress`: a layout that returns a fragment and a resume position returns a strictly later
  position — also for a container, whose resume position is computed from the last real column;
* `page_progress`: a non-blank page finishes the document or hands over a strictly later position;
* `paginate_bounded`: `make_all_pages` never needs more than `2·size + 2` pages (the fuel of the model
  never runs out) and produces at most `2·size` pages.
With spanning children page progress was false before the repair b24b457 (a page that showed nothing new; now
`Witness.C01Col.group_resumed_span_once`); since b24b457 and d7e3d63 the hypothesis `NoSpan` is gone
(`Lemmas/ColSegBlock.colsLoop_spec`).
-/
import WpModel.Lemmas.ColSegPages

namespace Wp.C03Col
open Wp Wp.PM Wp.PMC

theorem pos_lt_size (box : ColBox) (σ : Option Resume) : PMC.pos box σ < sizeBox box := PMC.pos_lt_size box σ

/-- **Strict progress of `block_level_layout`**, extended grammar. -/
theorem layout_progress (box : ColBox) (hN : PMC.NoFixedHeight box) (hW : PMC.WellFormed box)
    (c : CCtx) (idx : Nat) (y bs : Rat) (skip : Option Resume) (cb pie : Bool) (adjL : List Rat) (f : CFrag)
    (r : Resume)
    (hf : (PMC.layoutBox c box idx y bs skip cb pie adjL).frag = some f)
    (hr : (PMC.layoutBox c box idx y bs skip cb pie adjL).resume = some r) :
    PMC.pos box skip < PMC.pos box (some r) := by
  have := PMC.box_spec box (PMC.good_of box hN hW) c idx y bs skip cb pie adjL
  rw [hr] at this
  exact PMC.boxPost_progress _ _ _ _ _ this hf

/-- **Strict progress of pages**, extended grammar. -/
theorem page_progress (d : CDoc) (hN : PMC.NoFixedHeight d.root) (hW : PMC.WellFormed d.root)
    (index : Nat) (resume : Option Resume) (np : NextPage) (right : Bool) (p : CPage)
    (hp : PMC.remakePage d index resume np right = .ok p) (hnb : p.type.blank = false) :
    p.resume = none ∨ PMC.pos d.root resume < PMC.pos d.root p.resume := by
  obtain ⟨_, h2⟩ := PMC.remakePage_lines d (PMC.good_of _ hN hW) index resume np right p hp
  cases hr : p.resume with
  | none => left; rfl
  | some r => right; exact (h2 hnb).2 r hr

private theorem isBlank_flip (side : Option Bool) (right : Bool) (h : isBlank side right = true) :
    isBlank side (!right) = false := by
  cases side with
  | none => cases right <;> simp [isBlank] at h
  | some s => cases s <;> cases right <;> simp [isBlank] at h ⊢

/-- A blank page changes nothing and is followed by a non-blank page. -/
theorem blank_then_nonblank (d : CDoc) (index : Nat) (resume : Option Resume) (np : NextPage) (right : Bool)
    (p : CPage) (hp : PMC.remakePage d index resume np right = .ok p) (hb : p.type.blank = true) :
    p.resume = resume ∧ p.nextPage = np ∧
    ∀ p', PMC.remakePage d (index + 1) p.resume p.nextPage (!right) = .ok p' → p'.type.blank = false := by
  obtain ⟨hbl, h1, _⟩ := PMC.remakePage_spec d index resume np right p hp
  obtain ⟨hr, hn, _⟩ := h1 hb
  refine ⟨hr, hn, ?_⟩
  intro p' hp'
  obtain ⟨hbl', _, _⟩ := PMC.remakePage_spec d (index + 1) p.resume p.nextPage (!right) p' hp'
  rw [hbl', hn]
  apply isBlank_flip
  rw [← hbl]; exact hb

/-! ### the number of pages is bounded -/

def pagesNeeded (d : CDoc) (resume : Option Resume) (np : NextPage) (right : Bool) : Nat :=
  2 * (sizeBox d.root - PMC.pos d.root resume) + (if isBlank (requestedSide d.rootLtr np.brk) right then 1 else 0)

def PagesOut.isFuel : PagesOut → Bool
  | .fuel => true
  | _ => false

/-- **`make_all_pages` never runs out of fuel**: with at least `pagesNeeded` units it returns pages (at most that
many), or stops on `assert root_box` / an exception — from every page-maker state. -/
theorem makeAllPages_bounded (d : CDoc) (hN : PMC.NoFixedHeight d.root) (hW : PMC.WellFormed d.root) :
    ∀ (fuel index : Nat) (resume : Option Resume) (np : NextPage) (right : Bool),
    pagesNeeded d resume np right ≤ fuel →
    PagesOut.isFuel (PMC.makeAllPages d fuel index resume np right) = false ∧
    ∀ pages, PMC.makeAllPages d fuel index resume np right = .ok pages →
      pages.length ≤ pagesNeeded d resume np right := by
  intro fuel
  induction fuel with
  | zero =>
    intro index resume np right h
    have := PMC.pos_lt_size d.root resume
    unfold pagesNeeded at h
    omega
  | succ fuel ih =>
    intro index resume np right h
    have hlt := PMC.pos_lt_size d.root resume
    unfold PMC.makeAllPages
    cases hp : PMC.remakePage d index resume np right with
    | assertFail => simp [PagesOut.isFuel]
    | raised e => simp [PagesOut.isFuel]
    | ok p =>
      simp only
      cases hr : p.resume with
      | none =>
        simp only [PagesOut.isFuel, PagesOut.ok.injEq, true_and]
        intro pages hpg
        subst hpg
        unfold pagesNeeded
        simp only [List.length_singleton]
        omega
      | some r =>
        simp only
        obtain ⟨hbl, _, _⟩ := PMC.remakePage_spec d index resume np right p hp
        have key : pagesNeeded d (some r) p.nextPage (!right) + 1 ≤ pagesNeeded d resume np right := by
          cases hb : p.type.blank with
          | true =>
            obtain ⟨hres, hnp, hnext⟩ := blank_then_nonblank d index resume np right p hp hb
            have hflip : isBlank (requestedSide d.rootLtr np.brk) (!right) = false := by
              cases hside : requestedSide d.rootLtr np.brk with
              | none => cases right <;> simp [isBlank]
              | some sd =>
                rw [hb, hside] at hbl
                revert hbl; cases sd <;> cases right <;> simp [isBlank]
            unfold pagesNeeded
            rw [hnp, hflip, ← hbl, hb, ← hr, hres]
            simp
          | false =>
            have hprog := page_progress d hN hW index resume np right p hp hb
            rw [hr] at hprog
            have hprog : PMC.pos d.root resume < PMC.pos d.root (some r) := by
              rcases hprog with h | h
              · cases h
              · exact h
            have hlt' := PMC.pos_lt_size d.root (some r)
            unfold pagesNeeded
            rw [← hbl, hb]
            split <;> simp <;> omega
        obtain ⟨hnf, hlen⟩ := ih (index + 1) (some r) p.nextPage (!right) (by omega)
        cases hm : PMC.makeAllPages d fuel (index + 1) (some r) p.nextPage (!right) with
        | fuel => rw [hm] at hnf; simp [PagesOut.isFuel] at hnf
        | assertFail => simp [PagesOut.isFuel]
        | raised e => simp [PagesOut.isFuel]
        | ok ps =>
          simp only [PagesOut.isFuel, PagesOut.ok.injEq, true_and]
          intro pages hpg
          subst hpg
          have := hlen ps hm
          simp only [List.length_cons]
          omega

/-- **Pagination is bounded**: `2·size + 2` units of fuel are always enough and a paginated document has at most
`2·size` pages. -/
theorem paginate_bounded (d : CDoc) (hN : PMC.NoFixedHeight d.root) (hW : PMC.WellFormed d.root) :
    PagesOut.isFuel (paginateCol d (2 * sizeBox d.root + 2)) = false ∧
    ∀ pages, paginateCol d (2 * sizeBox d.root + 2) = .ok pages → pages.length ≤ 2 * sizeBox d.root := by
  unfold paginateCol
  have hn : pagesNeeded d none { brk := none, page := some (PMC.boxPageStart d.root) } (PMC.firstRight d) ≤
      2 * sizeBox d.root := by
    unfold pagesNeeded
    simp [requestedSide, isBlank]
    omega
  obtain ⟨h1, h2⟩ := makeAllPages_bounded d hN hW (2 * sizeBox d.root + 2) 0 none
    { brk := none, page := some (PMC.boxPageStart d.root) } (PMC.firstRight d) (by omega)
  exact ⟨h1, fun pages hp => by have := h2 pages hp; omega⟩

/-! Non-vacuity: `C01Col.exDoc`-like document (size 19): 3 pages, positions 0 → 5 → 14 → end. -/
def exSt : PStyle :=
  { mt := 0, mb := 0, pt := 0, pb := 0, bt := 0, bb := 0, height := none, minH := 0, maxH := none,
    brkBefore := .auto, brkAfter := .auto, brkInside := .auto, clone := false, page := "", orphans := 1, widows := 1,
    isRoot := false }

def exDoc : CDoc :=
  { pageH := 40, rootLtr := true,
    root := .block 9 { exSt with isRoot := true } [.block 8 exSt
      [.para 1 2 10 exSt,
       .columns 4 { exSt with mt := 5 } { count := 2, balance := true, ltr := true, width := 192 } [false, false]
         [.para 2 6 10 exSt, .para 3 2 10 { exSt with mt := 4 }],
       .para 5 2 10 exSt]] }

example : PMC.NoFixedHeight exDoc.root ∧ PMC.WellFormed exDoc.root ∧ sizeBox exDoc.root = 19 := by
  refine ⟨?_, ?_, by decide⟩ <;>
  simp [exDoc, exSt, PMC.NoFixedHeight, PMC.NoFixedHeightList, PMC.WellFormed, PMC.WellFormedList]

example : (match paginateCol exDoc 42 with
    | .ok ps => ps.map (fun (p : CPage) => PMC.pos exDoc.root p.resume)
    | _ => []) = [5, 14, 0] := by
  decide +kernel

/-! Non-vacuity with spanning children (`C01Col.exSpan`, size 20): a group, a spanning block with two paragraphs
cut by the page, a group: positions 0 → 7 → 14 → end. -/
def exSpan : CDoc :=
  { pageH := 40, rootLtr := true,
    root := .block 9 { exSt with isRoot := true } [.block 8 exSt
      [.columns 7 exSt { count := 2, balance := true, ltr := true, width := 192 } [false, true, false]
        [.para 6 2 10 exSt,
         .block 5 exSt [.para 1 2 10 exSt, .para 2 4 10 exSt],
         .para 3 4 10 exSt]]] }

example : PMC.NoFixedHeight exSpan.root ∧ PMC.WellFormed exSpan.root ∧ sizeBox exSpan.root = 20 := by
  refine ⟨?_, ?_, by decide⟩ <;>
  simp [exSpan, exSt, PMC.NoFixedHeight, PMC.NoFixedHeightList, PMC.WellFormed, PMC.WellFormedList]

example : (match paginateCol exSpan 42 with
    | .ok ps => ps.map (fun (p : CPage) => PMC.pos exSpan.root p.resume)
    | _ => []) = [7, 14, 0] := by
  decide +kernel

end Wp.C03Col
