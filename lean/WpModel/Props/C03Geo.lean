/-
C03 / C05 — geometry of paragraph fragments in the pagination model: every kept line fits on the page
unless it is the first line placed on an empty page; lines are stacked by the line height.
-/
import WpModel.Lemmas.ParaGeo
import WpModel.Lemmas.Geometry

namespace Wp.C03Geo
open Wp Wp.PM

private theorem lineboxLayout_lines (c : Ctx) (st : PStyle) (b : BoxSt) (n : Nat) (lineH : Rat) (pie : Bool)
    (adj : List Rat) (bs posY : Rat) (skip : Option Resume) (dbd : Bool) :
    (lineboxLayout c st b n lineH pie adj bs posY skip dbd).lines =
      outLines (lineboxLoop c st b n lineH pie adj bs posY skip dbd) := by
  unfold lineboxLayout
  split <;> simp_all [outLines]

/-- **Line fits** (C03): every line kept in a paragraph fragment ends at or above `pageBottom − bottomSpace`
(same fudge factor as the layout), unless it is the first line of this fragment and the page was empty
when the paragraph was started — the only case where the layout accepts an overflowing line, to make
progress. For any number of lines, resume position, page geometry, orphans/widows. -/
theorem line_fits (c : Ctx) (st : PStyle) (b : BoxSt) (n : Nat) (lineH : Rat) (pie : Bool)
    (adj : List Rat) (bs posY : Rat) (skip : Option Resume) (dbd : Bool) (hdeco : 0 ≤ b.bb + b.pb) :
    ∀ p ∈ (lineboxLayout c st b n lineH pie adj bs posY skip dbd).lines,
      (pie = true ∧ p.1 = skipLine skip) ∨ c.overflowsPage bs (p.2 + lineH) = false := by
  rw [lineboxLayout_lines]
  unfold lineboxLoop
  exact lineLoop_fits c st b n lineH pie bs (skipLine skip) _ _ _ _ hdeco (fun _ => rfl) (by simp)

/-- On a page that already has content no kept line overflows at all. -/
theorem line_fits_nonempty_page (c : Ctx) (st : PStyle) (b : BoxSt) (n : Nat) (lineH : Rat)
    (adj : List Rat) (bs posY : Rat) (skip : Option Resume) (dbd : Bool) (hdeco : 0 ≤ b.bb + b.pb) :
    ∀ p ∈ (lineboxLayout c st b n lineH false adj bs posY skip dbd).lines,
      c.overflowsPage bs (p.2 + lineH) = false := by
  intro p hp
  rcases line_fits c st b n lineH false adj bs posY skip dbd hdeco p hp with h | h
  · cases h.1
  · exact h

/-- **Lines stack** (C03/C05/C09): line `j` of the fragment (other than its first line, which the
tall-first-line rule may translate up by the box's top margin) sits exactly `(j − k)·lineH` below the
start position — consecutive lines touch, without gap or overlap. -/
theorem lines_stack (c : Ctx) (st : PStyle) (b : BoxSt) (n : Nat) (lineH : Rat) (pie : Bool)
    (adj : List Rat) (bs posY : Rat) (skip : Option Resume) (dbd : Bool) (hdeco : 0 ≤ b.bb + b.pb) :
    ∀ p ∈ (lineboxLayout c st b n lineH pie adj bs posY skip dbd).lines, p.1 ≠ skipLine skip →
      p.2 = lineStart adj posY + ((p.1 : Rat) - (skipLine skip : Rat)) * lineH := by
  rw [lineboxLayout_lines]
  unfold lineboxLoop
  exact lineLoop_stack c st b n lineH pie bs (skipLine skip) (lineStart adj posY) _ _ _ _ hdeco
    (fun _ => rfl) (by grind) (by simp)


/-! ### whole layouts and pages

`placedLines f pie box` lists every line of every paragraph fragment inside the fragment tree `f` of the
source box `box` (line heights are read in the source), `exempt` marking the first line of a paragraph laid
out with `page_is_empty` — which stays true only along first-placed children. `DecoOk box`: in every box
bottom padding + border ≥ 0 and, with `box-decoration-break: clone`, bottom padding + border + margin ≥ 0. -/

/-- **Line fits, whole layout** (C03): in every fragment tree returned by `block_level_layout`, every line of
every paragraph fragment ends above `pageBottom − bottomSpace` — through nested blocks, cloned decorations,
the relayout with a larger bottom space and `find_earlier_page_break` — unless it is the first line of the
first content placed while the page was empty. -/
theorem layout_line_fits (box : PBox) (hd : DecoOk box) (c : Ctx) (idx : Nat) (y bs : Rat)
    (skip : Option Resume) (cb pie : Bool) (adjL : List Rat) (f : Frag)
    (hf : (layoutBox c box idx y bs skip cb pie adjL).frag = some f) :
    ∀ l ∈ placedLines f pie box, l.exempt = true ∨ c.overflowsPage bs (l.y + l.lineH) = false :=
  box_fits box hd c idx y bs skip cb pie adjL f hf

/-- With no bottom space reserved (the root box): no line crosses the page bottom itself. -/
theorem page_line_fits (box : PBox) (hd : DecoOk box) (c : Ctx) (idx : Nat) (y : Rat)
    (skip : Option Resume) (cb pie : Bool) (adjL : List Rat) (f : Frag)
    (hf : (layoutBox c box idx y 0 skip cb pie adjL).frag = some f) :
    ∀ l ∈ placedLines f pie box, l.exempt = true ∨ l.y + l.lineH ≤ c.pageBottom * (1 + 1 / 1000000000) := by
  intro l hl
  rcases box_fits box hd c idx y 0 skip cb pie adjL f hf l hl with h | h
  · left; exact h
  · right
    simp only [Ctx.overflowsPage, overflows, PlacedLine.bottom] at h
    grind

/-- Only the very first placed line can be exempt, and only when the layout started on an empty page. -/
theorem only_first_line_exempt (f : Frag) (pie : Bool) (box : PBox) :
    (∀ l ∈ (placedLines f pie box).tail, l.exempt = false) ∧
    (pie = false → ∀ l ∈ placedLines f pie box, l.exempt = false) :=
  placedLines_exempt f pie box

/-- On a page that already has content, no line of the layout overflows. -/
theorem layout_line_fits_nonempty_page (box : PBox) (hd : DecoOk box) (c : Ctx) (idx : Nat) (y bs : Rat)
    (skip : Option Resume) (cb : Bool) (adjL : List Rat) (f : Frag)
    (hf : (layoutBox c box idx y bs skip cb false adjL).frag = some f) :
    ∀ l ∈ placedLines f false box, c.overflowsPage bs (l.y + l.lineH) = false := by
  intro l hl
  rcases box_fits box hd c idx y bs skip cb false adjL f hf l hl with h | h
  · rw [(placedLines_exempt f false box).2 rfl l hl] at h; cases h
  · exact h

/-- **Line fits, pages** (C03): on every page made by `remake_page`, every line ends above the bottom of the
page area (`pageH`, with the layout's fudge factor `1 + 10⁻⁹`), except possibly the very first line of the
page. (`pageSource d p` = the root box, or its childless copy on a blank page.) -/
theorem remakePage_line_fits (d : Doc) (hd : DecoOk d.root) (index : Nat) (resume : Option Resume)
    (np : NextPage) (right : Bool) (p : Page) (hp : remakePage d index resume np right = some p) :
    ∀ l ∈ (placedLines p.root true (pageSource d p)).tail, l.y + l.lineH ≤ d.pageH * (1 + 1 / 1000000000) := by
  obtain ⟨c, hc, hf, _⟩ := remakePage_root d index resume np right p hp
  intro l hl
  have hne := (placedLines_exempt p.root true (pageSource d p)).1 l hl
  rcases page_line_fits (pageSource d p) (decoOk_pageSource d p hd) c 0 0 resume false true [] p.root hf l
    (List.mem_of_mem_tail hl) with h | h
  · rw [hne] at h; cases h
  · rw [← hc]; exact h

/-- The same for every page of a paginated document. -/
theorem paginate_line_fits (d : Doc) (hd : DecoOk d.root) (fuel : Nat) (pages : List Page)
    (h : paginate d fuel = some pages) :
    ∀ p ∈ pages, ∀ l ∈ (placedLines p.root true (pageSource d p)).tail,
      l.y + l.lineH ≤ d.pageH * (1 + 1 / 1000000000) := by
  have key : ∀ (fuel index : Nat) (resume : Option Resume) (np : NextPage) (right : Bool) (pages : List Page),
      makeAllPages d fuel index resume np right = some pages →
      ∀ p ∈ pages, ∀ l ∈ (placedLines p.root true (pageSource d p)).tail,
        l.y + l.lineH ≤ d.pageH * (1 + 1 / 1000000000) := by
    intro fuel
    induction fuel with
    | zero => intro index resume np right pages h; simp [makeAllPages] at h
    | succ fuel ih =>
      intro index resume np right pages h
      simp only [makeAllPages] at h
      split at h
      · cases h
      · rename_i p hp
        have hpage := remakePage_line_fits d hd index resume np right p hp
        split at h
        · simp only [Option.some.injEq] at h
          subst h
          intro q hq
          simp only [List.mem_singleton] at hq
          subst hq
          exact hpage
        · split at h
          · rename_i ps hps
            simp only [Option.some.injEq] at h
            subst h
            intro q hq
            rcases List.mem_cons.mp hq with rfl | hq
            · exact hpage
            · exact ih _ _ _ _ ps hps q hq
          · cases h
  exact key fuel 0 none _ _ pages h


/-! ### the height of a fragmented box

`tailY b cwc adjL` = used `position_y` (moved by the collapsed margins when the box collapses with its
children), `tailH0 …` = the height before stretching: the fixed `height`, or for `auto`
`position_y(after the margins following the last child) − content_box_y`. -/

/-- **Fragment height** (C03): a fragmented box whose decorations are not cloned loses its bottom margin,
padding and border and gets the height `max(own height, pageBottom − bottomSpace − content_box_y)`: it is
stretched exactly to the bottom of the area it may use, and extends beyond only if its own content
(an accepted overflowing first line, a fixed height) does. -/
theorem fragment_height (c : Ctx) (st : PStyle) (b : BoxSt) (bs : Rat)
    (cwc : Bool) (r : Resume) (posY : Rat) (adjL cur : List Rat) (curIsL hasKids : Bool)
    (hc : st.clone = false) :
    let g := (finishTail c st b bs cwc false (some r) posY adjL cur curIsL hasKids).geo
    g.mb = 0 ∧ g.pb = 0 ∧ g.bb = 0 ∧
    g.h = max (tailH0 st b cwc posY adjL cur hasKids) (c.pageBottom - bs - g.contentBoxY) ∧
    g.contentBoxY + g.h = max (g.contentBoxY + tailH0 st b cwc posY adjL cur hasKids) (c.pageBottom - bs) := by
  have h1 := finishTail_fragmented_plain c st b bs cwc r posY adjL cur curIsL hasKids hc
  have h2 := finishTail_geo_frame c st b bs cwc false (some r) posY adjL cur curIsL hasKids
  dsimp only at h1 h2 ⊢
  obtain ⟨ha, hb, hcc, hd⟩ := h1
  obtain ⟨hy, hmt, hbt, hpt⟩ := h2
  refine ⟨ha, hb, hcc, ?_, ?_⟩
  · rw [hd]; simp only [Geo.contentBoxY, hy, hmt, hbt, hpt]
  · rw [hd]; simp only [Geo.contentBoxY, hy, hmt, hbt, hpt]; grind

/-- **Fragment height with cloned decorations** (`draw_bottom_decoration`): margins, padding and border are
kept; `bs` already contains `pb + bb + mb` (added by `prepare`). If the own height plus the bottom
decorations is smaller than the room `pageBottom − bs − content_box_y`, the content box is stretched to
`pageBottom − bs` exactly (so the margin box ends at the caller's `pageBottom − bottomSpace`); otherwise
the own height is kept — in particular a box whose content ends within the last `pb + bb + mb` of the room
is *not* stretched. -/
theorem fragment_height_clone (c : Ctx) (st : PStyle) (b : BoxSt) (bs : Rat)
    (cwc : Bool) (r : Resume) (posY : Rat) (adjL cur : List Rat) (curIsL hasKids : Bool)
    (hc : st.clone = true) :
    let g := (finishTail c st b bs cwc true (some r) posY adjL cur curIsL hasKids).geo
    let h0 := tailH0 st b cwc posY adjL cur hasKids
    g.mb = b.mb ∧ g.pb = b.pb ∧ g.bb = b.bb ∧
    (h0 + (b.pb + b.bb + b.mb) < c.pageBottom - bs - g.contentBoxY → g.contentBoxY + g.h = c.pageBottom - bs) ∧
    (¬ h0 + (b.pb + b.bb + b.mb) < c.pageBottom - bs - g.contentBoxY → g.h = h0) := by
  have h1 := finishTail_fragmented_clone c st b bs cwc r posY adjL cur curIsL hasKids hc
  have h2 := finishTail_geo_frame c st b bs cwc true (some r) posY adjL cur curIsL hasKids
  dsimp only at h1 h2 ⊢
  obtain ⟨ha, hb, hcc, hd⟩ := h1
  obtain ⟨hy, hmt, hbt, hpt⟩ := h2
  refine ⟨ha, hb, hcc, ?_, ?_⟩
  · intro hlt
    simp only [Geo.contentBoxY, hy, hmt, hbt, hpt] at hlt ⊢
    rw [hd, if_pos hlt]; grind
  · intro hlt
    simp only [Geo.contentBoxY, hy, hmt, hbt, hpt] at hlt
    rw [hd, if_neg hlt]

/-- **A fragmented box reaches the bottom of its page area** (whole layouts): every fragment returned by
`block_level_layout` together with a resume position, decorations not cloned, has no bottom margin / padding /
border and its content box ends at or below `pageBottom − bottomSpace`. -/
theorem fragment_reaches_bottom (c : Ctx) (box : PBox) (idx : Nat) (y bs : Rat) (skip : Option Resume)
    (cb pie : Bool) (adjL : List Rat) (f : Frag) (r : Resume)
    (hf : (layoutBox c box idx y bs skip cb pie adjL).frag = some f)
    (hr : (layoutBox c box idx y bs skip cb pie adjL).resume = some r)
    (hc : box.st.clone = false) :
    f.geo.mb = 0 ∧ f.geo.pb = 0 ∧ f.geo.bb = 0 ∧ c.pageBottom - bs ≤ f.geo.contentBoxY + f.geo.h := by
  obtain ⟨b, dbd, posY, adjL', cur, curIsL, hasKids, hg, hdbd, _⟩ := layoutBox_geo_tail c box idx y bs skip cb pie adjL f hf
  rw [hr] at hg hdbd
  have hd : dbd = false := by rw [hdbd rfl, hc]
  subst hd
  have hbs : (prepare c box.st y bs skip cb pie adjL).bs = bs := by rw [prepare_bs, hc]; simp
  rw [hbs] at hg
  obtain ⟨h1, h2, h3, _, h5⟩ := fragment_height c box.st b bs _ r posY adjL' cur curIsL hasKids hc
  rw [hg]
  refine ⟨h1, h2, h3, ?_⟩
  rw [h5]
  grind

/-! Non-vacuity: a paragraph with a top margin followed by a block with cloned bottom padding and border
holding a second paragraph, on 55px pages: 4 pages; page 2 shows lines 5–6 of the first paragraph and lines
0–1 of the second, ending at 10, 20, 30, 40 (6px stay reserved for the cloned decorations). -/
def exDoc : Doc :=
  { pageH := 55, rootLtr := true,
    root := .block 0 { plainSt with isRoot := true }
      [.para 1 7 10 { plainSt with mt := 4 },
       .block 3 { plainSt with clone := true, pb := 5, bb := 1 } [.para 2 8 10 plainSt]] }

example : DecoOk exDoc.root := by
  simp only [exDoc, DecoOk, DecoOkList, PStyle.DecoOk, plainSt]
  decide +kernel

example : (paginate exDoc 10).map (fun ps => ps.map (fun p =>
      (placedLines p.root true (pageSource exDoc p)).map (fun l => (l.exempt, l.para, l.line, l.y + l.lineH)))) =
    some [[(true, 1, 0, 14), (false, 1, 1, 24), (false, 1, 2, 34), (false, 1, 3, 44), (false, 1, 4, 54)],
      [(true, 1, 5, 10), (false, 1, 6, 20), (false, 2, 0, 30), (false, 2, 1, 40)],
      [(true, 2, 2, 10), (false, 2, 3, 20), (false, 2, 4, 30), (false, 2, 5, 40)],
      [(true, 2, 6, 10), (false, 2, 7, 20)]] := by decide +kernel


/-- Fragment heights on the same document: per page (fragmented?, content bottom of the root), and for each
child (cloned?, content bottom, bottom padding + border + margin). The fragmented root and the fragmented first
paragraph are stretched to 55; the fragmented cloned block ends its content at 49 = 55 − (5 + 1) and keeps its
decorations; on the last page nothing is stretched. -/
example : (paginate exDoc 10).map (fun ps => ps.map (fun p =>
      (p.resume.isSome, p.root.geo.contentBoxY + p.root.geo.h))) =
    some [(true, 55), (true, 55), (true, 55), (false, 26)] := by decide +kernel

example : (paginate exDoc 10).map (fun ps => ps.map (fun p =>
      p.root.kids.map (fun k => (k.st.clone, k.geo.contentBoxY + k.geo.h, k.geo.pb + k.geo.bb + k.geo.mb)))) =
    some [[(false, 55, 0)], [(false, 20, 0), (true, 49, 6)], [(true, 49, 6)], [(true, 20, 6)]] := by
  decide +kernel

/-! ### unbreakable blocks: what `_in_flow_layout` does with the fragment of a child (`firstPass`)

`_in_flow_layout` compares the bottom of the child's *content box* (`content_box_y() + height`) and of its
*border box* with `pageBottom − bottomSpace`. For a child that cannot be fragmented any further (a fixed
`height`, an empty block with padding or border) this test is the only thing that keeps it inside the page. -/

/-- **A kept child fits** (C03, "no unbreakable block ends below the bottom edge unless it is the first
content"): when the first pass keeps the fragment of a child, either margins collapse through the child (it
has no extent), or the child is the first content of an empty page, or both its content box and its border
box end above `pageBottom − bottomSpace`. -/
theorem firstPass_keep_fits (c : Ctx) (bs : Rat) (pienc : Bool) (posY : Rat) (r : LayoutResult) (f : Frag)
    (posY' : Rat) (h : firstPass c bs pienc posY r = .keep (some f) posY') :
    r.frag = some f ∧
    (r.collapsingThrough = true ∨ pienc = true ∨
      (c.overflowsPage bs (f.geo.contentBoxY + f.geo.h) = false ∧
       c.overflowsPage bs (f.geo.borderBoxY + f.geo.borderHeight) = false)) := by
  unfold firstPass at h
  split at h
  · cases h
  · rename_i f0 hf0
    split at h
    · rename_i hthrough
      simp only [FirstPass.keep.injEq, Option.some.injEq] at h
      obtain ⟨rfl, _⟩ := h
      exact ⟨hf0, Or.inl hthrough⟩
    · dsimp only at h
      cases hp : pienc with
      | true => 
        subst hp
        simp only [Bool.not_true, Bool.false_and, Bool.false_eq_true, ↓reduceIte, FirstPass.keep.injEq,
          Option.some.injEq] at h
        exact ⟨by rw [hf0, h.1], Or.inr (Or.inl rfl)⟩
      | false =>
        subst hp
        simp only [Bool.not_false, Bool.true_and] at h
        split at h
        · cases h
        · rename_i hcontent
          split at h
          · cases h
          · rename_i hborder
            simp only [FirstPass.keep.injEq, Option.some.injEq] at h
            obtain ⟨rfl, _⟩ := h
            refine ⟨hf0, Or.inr (Or.inr ⟨?_, ?_⟩)⟩
            · simpa using hcontent
            · simpa using hborder

/-- **A child whose content box crosses the page bottom is sent to the next page** whenever something was
already placed on this page: the first pass discards its fragment. -/
theorem firstPass_discards_content_overflow (c : Ctx) (bs posY : Rat) (r : LayoutResult) (f : Frag)
    (hf : r.frag = some f) (ht : r.collapsingThrough = false)
    (ho : c.overflowsPage bs (f.geo.contentBoxY + f.geo.h) = true) :
    firstPass c bs false posY r = .keep none posY := by
  unfold firstPass
  simp [hf, ht, ho]

/-- **A child whose content fits but whose bottom padding / border crosses the page bottom is laid out again**
with the bottom space enlarged by exactly that padding and border. -/
theorem firstPass_relayout_border_overflow (c : Ctx) (bs posY : Rat) (r : LayoutResult) (f : Frag)
    (hf : r.frag = some f) (ht : r.collapsingThrough = false)
    (hc : c.overflowsPage bs (f.geo.contentBoxY + f.geo.h) = false)
    (hb : c.overflowsPage bs (f.geo.borderBoxY + f.geo.borderHeight) = true) :
    firstPass c bs false posY r = .redo (bs + (f.geo.pb + f.geo.bb)) := by
  unfold firstPass
  simp [hf, ht, hc, hb]

/-- The exemption: as first content of an empty page, the fragment is kept whatever its size. -/
theorem firstPass_first_content_kept (c : Ctx) (bs posY : Rat) (r : LayoutResult) (f : Frag)
    (hf : r.frag = some f) : ∃ y, firstPass c bs true posY r = .keep (some f) y := by
  unfold firstPass
  simp only [hf, Bool.not_true, Bool.false_and, Bool.false_eq_true, ↓reduceIte]
  split
  · exact ⟨_, rfl⟩
  · exact ⟨_, rfl⟩

/-! Non-vacuity and regression document for the content-box edge (100px pages, seven 10px lines, then a block
of `height: 30px` with `padding-top: 8px; border-top: 2px`): its border box starts at 70, its content box at 80
and ends at 110 > 100, so the block goes to page 2 although `border_box_y + height = 100` would fit. With
`height: 20px` the content box ends exactly at 100 and the block stays. (Boxes: id, y, content bottom.) -/
def fixedDoc (h : Rat) : Doc :=
  { pageH := 100, rootLtr := true,
    root := .block 0 { plainSt with isRoot := true }
      [.block 1 plainSt
        [.para 2 7 10 plainSt, .block 3 { plainSt with height := some h, pt := 8, bt := 2 } [],
         .para 4 1 10 plainSt]] }

def kidsSummary (d : Doc) : Option (List (List (Nat × Rat × Rat))) :=
  (paginate d 10).map (fun ps => ps.map (fun p =>
    match p.root with
    | .block _ _ _ _ [.block _ _ _ _ kids] =>
      kids.map (fun k => ((match k with | .para id .. => id | .block id .. => id), k.geo.y,
        k.geo.contentBoxY + k.geo.h))
    | _ => []))

example : kidsSummary (fixedDoc 30) = some [[(2, 0, 70)], [(3, 0, 40), (4, 40, 50)]] := by decide +kernel
example : kidsSummary (fixedDoc 20) = some [[(2, 0, 70), (3, 70, 100)], [(4, 0, 10)]] := by decide +kernel

/-! ### boxes rebuilt by `find_earlier_page_break` (repair 24ce8bf)

When an avoided break sends the layout back to an earlier break opportunity *inside* already laid-out boxes, every
box on the way down is rebuilt with `copy_with_children` and - since the repair - loses its bottom margin, padding
and border (`remove_decoration(end=True)`), at every nesting level. -/

/-- "This fragment has no bottom decoration left, or clones it." -/
def EndCut (f : Frag) : Prop := f.st.clone = true ∨ (f.geo.mb = 0 ∧ f.geo.pb = 0 ∧ f.geo.bb = 0)

theorem endCut_cutEnd (f : Frag) : EndCut f.cutEnd := by
  unfold EndCut
  cases hc : f.st.clone with
  | true => left; cases f <;> simpa [Frag.cutEnd, Frag.st] using hc
  | false =>
    right
    cases f <;> simp_all [Frag.cutEnd, Geo.cutBottom, Frag.geo, Frag.st]

/-- **Every box cut at an earlier page break has lost its bottom decoration** (all fragment lists): in the children kept by `find_earlier_page_break`, the last one is
either one of the original children, untouched (the break falls after it), or a box that was cut and then has no
bottom margin, padding or border left unless it clones its decorations. -/
theorem findEarlier_last_is_cut : (fs : List Frag) → ∀ (kept : List Frag) (r : Resume),
    (findEarlierGo fs).found = some (kept, r) →
    ∃ k, kept.getLast? = some k ∧ (k ∈ fs ∨ EndCut k)
  | [] => by
    intro kept r h
    simp [findEarlierGo] at h
  | x :: xs => by
    intro kept r h
    rw [findEarlierGo] at h
    dsimp only at h
    split at h
    · rename_i kept0 r0 hfound
      simp only [Option.some.injEq, Prod.mk.injEq] at h
      obtain ⟨rfl, rfl⟩ := h
      obtain ⟨k, hk, hor⟩ := findEarlier_last_is_cut xs kept0 r0 hfound
      refine ⟨k, ?_, ?_⟩
      · cases kept0 with
        | nil => simp at hk
        | cons a l => simpa [List.getLast?_cons_cons] using hk
      · rcases hor with hmem | hcut
        · left; exact List.mem_cons_of_mem _ hmem
        · right; exact hcut
    · split at h
      · simp only [Option.some.injEq, Prod.mk.injEq] at h
        obtain ⟨rfl, rfl⟩ := h
        exact ⟨x, by simp, Or.inl (List.mem_cons_self ..)⟩
      · split at h
        · split at h
          · rename_i x' r1 hfe
            simp only [Option.some.injEq, Prod.mk.injEq] at h
            obtain ⟨rfl, rfl⟩ := h
            exact ⟨x'.cutEnd, by simp, Or.inr (endCut_cutEnd x')⟩
          · simp at h
        · simp at h

/-- The same one level down: the children of a box rebuilt by `find_earlier_page_break` end with an untouched
original child or with a cut one - so the property holds along the whole chain of rebuilt boxes. -/
theorem findEarlierFrag_kids_last (id idx : Nat) (st : PStyle) (g : Geo) (kids : List Frag) (x' : Frag) (r : Resume)
    (h : findEarlierFrag (.block id idx st g kids) = some (x', r)) :
    ∃ kids' k, x' = .block id idx st g kids' ∧ kids'.getLast? = some k ∧ (k ∈ kids ∨ EndCut k) := by
  simp only [findEarlierFrag] at h
  split at h
  · rename_i kids' r0 hfound
    simp only [Option.some.injEq, Prod.mk.injEq] at h
    obtain ⟨rfl, rfl⟩ := h
    obtain ⟨k, hk, hor⟩ := findEarlier_last_is_cut kids kids' r0 hfound
    exact ⟨kids', k, rfl, hk, hor⟩
  · cases h

/-! Non-vacuity: a laid-out block with `padding-bottom: 5` holding a five-line paragraph fragment, followed by a
one-line paragraph whose `break-before` is avoided: the walk cuts the block after line 3 and removes its padding. -/
example :
    ((findEarlierGo
        [.block 2 0 { plainSt with pb := 5 } { y := 0, mt := 0, mb := 0, pt := 0, pb := 5, bt := 0, bb := 0, h := 50 }
           [.para 3 0 plainSt 5 { y := 0, mt := 0, mb := 0, pt := 0, pb := 0, bt := 0, bb := 0, h := 50 }
             [(0, 0), (1, 10), (2, 20), (3, 30), (4, 40)]],
         .para 4 1 { plainSt with brkBefore := .avoid } 1
           { y := 55, mt := 0, mb := 0, pt := 0, pb := 0, bt := 0, bb := 0, h := 10 } [(0, 55)]]).found.map
      (fun kr => kr.1.map (fun k => (k.geo.pb, k.geo.h, fragLines k)))) =
    some [(0, 50, [(3, 0), (3, 1), (3, 2), (3, 3)])] := by decide +kernel

/-- Consequence for the geometry clause "a fragmented box's own bottom padding / border also fits": the border
box of a cut box (not cloning) ends exactly where its content box ends. -/
theorem endCut_border_bottom (f : Frag) (h : f.st.clone = false) (hc : EndCut f) :
    f.geo.borderBoxY + f.geo.borderHeight = f.geo.contentBoxY + f.geo.h := by
  rcases hc with hc | ⟨_, hpb, hbb⟩
  · rw [h] at hc; cases hc
  · simp only [Geo.borderBoxY, Geo.borderHeight, Geo.contentBoxY, hpb, hbb]; grind

/-! ### boxes through which margins collapse take no room and never need a page of their own

`block_container_layout` declares a box *collapsed through* when it has no in-flow child, its `height` is `auto`
**or 0**, and it has no min-height, padding or border; `_in_flow_layout` then skips the page-overflow test for it
and leaves `position_y` where it was. -/

/-- **Exactly which boxes are collapsed through** (the tail of `block_container_layout`), whatever the page
geometry, the margins and the resume state. -/
theorem finishTail_through_iff (c : Ctx) (st : PStyle) (b : BoxSt) (bs : Rat) (cwc dbd : Bool)
    (resume : Option Resume) (posY : Rat) (adjL cur : List Rat) (curIsL hasKids : Bool) :
    (finishTail c st b bs cwc dbd resume posY adjL cur curIsL hasKids).through = true ↔
      (hasKids = false ∧ (st.height = none ∨ st.height = some 0) ∧ st.minH = 0 ∧
        b.bt = 0 ∧ b.pt = 0 ∧ b.bb = 0 ∧ b.pb = 0) := by
  unfold finishTail
  cases hasKids <;> cases cwc <;> simp <;> grind

/-- **A collapsed-through child is always kept, and takes no room**: the first pass keeps its fragment without
looking at the page bottom and hands the next sibling the same `position_y`. -/
theorem firstPass_through_kept (c : Ctx) (bs : Rat) (pienc : Bool) (posY : Rat) (r : LayoutResult) (f : Frag)
    (hf : r.frag = some f) (ht : r.collapsingThrough = true) :
    firstPass c bs pienc posY r = .keep (some f) posY := by
  unfold firstPass
  simp [hf, ht]

/-! Regression documents for the `height: 0` spelling (100px pages, nine 10px lines, then an empty box with
`margin-top: 20px`): with `height: 0` as with `height: auto` everything is on one page and the empty box sits at
the bottom of the text; an empty box with `padding-top: 1px` instead is not collapsed through and goes to page 2. -/
def spacerDoc (st : PStyle) : Doc :=
  { pageH := 100, rootLtr := true,
    root := .block 0 { plainSt with isRoot := true }
      [.block 1 plainSt [.para 2 9 10 plainSt, .block 3 st []]] }

example : ((paginate (spacerDoc { plainSt with height := some 0, mt := 20 }) 10).map List.length,
    (paginate (spacerDoc { plainSt with mt := 20 }) 10).map List.length,
    (paginate (spacerDoc { plainSt with mt := 20, pt := 1 }) 10).map List.length) = (some 1, some 1, some 2) := by
  decide +kernel

end Wp.C03Geo
