/-
C03 / C05 — geometry of paragraph fragments in the pagination model: every kept line fits on the page
unless it is the first line placed on an empty page; lines are stacked by the line height.
-/
import WpModel.Lemmas.ParaGeo

namespace Wp.C03Geo
open Wp Wp.PM

private theorem lineboxLayout_lines (c : Ctx) (st : PStyle) (b : BoxSt) (n : Nat) (lineH : Rat) (pie : Bool)
    (adj : List Rat) (bs posY : Rat) (skip : Option Resume) (dbd : Bool) :
    (lineboxLayout c st b n lineH pie adj bs posY skip dbd).lines =
      outLines (lineboxLoop c st b n lineH pie adj bs posY skip dbd) := by
  unfold lineboxLayout
  split <;> simp_all [outLines]

/-- **Line fits** (C03): every line kept in a paragraph fragment ends at or above `pageBottom − bottomSpace`
(same fudge factor as the layout), unless it is the first line of this fragment and the page was empty
when the paragraph was started — the only case where the layout accepts an overflowing line, to make
progress. For any number of lines, resume position, page geometry, orphans/widows. -/
theorem line_fits (c : Ctx) (st : PStyle) (b : BoxSt) (n : Nat) (lineH : Rat) (pie : Bool)
    (adj : List Rat) (bs posY : Rat) (skip : Option Resume) (dbd : Bool) (hdeco : 0 ≤ b.bb + b.pb) :
    ∀ p ∈ (lineboxLayout c st b n lineH pie adj bs posY skip dbd).lines,
      (pie = true ∧ p.1 = skipLine skip) ∨ c.overflowsPage bs (p.2 + lineH) = false := by
  rw [lineboxLayout_lines]
  unfold lineboxLoop
  exact lineLoop_fits c st b n lineH pie bs (skipLine skip) _ _ _ _ hdeco (fun _ => rfl) (by simp)

/-- On a page that already has content no kept line overflows at all. -/
theorem line_fits_nonempty_page (c : Ctx) (st : PStyle) (b : BoxSt) (n : Nat) (lineH : Rat)
    (adj : List Rat) (bs posY : Rat) (skip : Option Resume) (dbd : Bool) (hdeco : 0 ≤ b.bb + b.pb) :
    ∀ p ∈ (lineboxLayout c st b n lineH false adj bs posY skip dbd).lines,
      c.overflowsPage bs (p.2 + lineH) = false := by
  intro p hp
  rcases line_fits c st b n lineH false adj bs posY skip dbd hdeco p hp with h | h
  · cases h.1
  · exact h

/-- **Lines stack** (C03/C05/C09): line `j` of the fragment (other than its first line, which the
tall-first-line rule may translate up by the box's top margin) sits exactly `(j − k)·lineH` below the
start position — consecutive lines touch, without gap or overlap. -/
theorem lines_stack (c : Ctx) (st : PStyle) (b : BoxSt) (n : Nat) (lineH : Rat) (pie : Bool)
    (adj : List Rat) (bs posY : Rat) (skip : Option Resume) (dbd : Bool) (hdeco : 0 ≤ b.bb + b.pb) :
    ∀ p ∈ (lineboxLayout c st b n lineH pie adj bs posY skip dbd).lines, p.1 ≠ skipLine skip →
      p.2 = lineStart adj posY + ((p.1 : Rat) - (skipLine skip : Rat)) * lineH := by
  rw [lineboxLayout_lines]
  unfold lineboxLoop
  exact lineLoop_stack c st b n lineH pie bs (skipLine skip) (lineStart adj posY) _ _ _ _ hdeco
    (fun _ => rfl) (by grind) (by simp)

end Wp.C03Geo
