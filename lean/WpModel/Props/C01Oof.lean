/-
C01 for PM stage 2a — pagination with out-of-flow children (absolutely positioned boxes, full-width
floats, `clear`) conserves the content of the flow; out-of-flow boxes are continued page after page from
where they were cut — and are lost at the end of the document (the open finding
`out-of-flow-lost-at-document-end`, witness in `Witness/C01Oof.lean`). The two duplication findings
(`float-fragment-duplicated`, `absolute-placeholder-survives-abort`) were repaired in /repo (cdccac3,
e3ac9f0): the model follows, their witnesses are regression theorems now, and §4 below states, for all
inputs, the two facts the repairs established (`cancelled_block_leaves_nothing`, `only_children_continued`).
A finding of the same family, reached in round 3 by widening the grammar to nested floats
(`nested-out-of-flow-in-postponed-float`), was repaired in round 4 (0d665d0): regression theorem
`Witness.nested_float_in_postponed_float_not_duplicated`, and for all inputs `postponed_float_leaves_nothing`.

1. Embedding: on stage-1 documents the extended model *is* stage 1 (so C01–C05 stage-1 theorems hold for
   the static fragment of the extended grammar).
2. In-flow conservation, for all documents of the extended grammar: `segment`, `pages_conserve`.
3. Out-of-flow boxes: `float_segment`, `abs_segment`, `continuation_segment` (each fragment shows the
   lines from the resume position it was given up to the one it registers), `continued_next_page` (what a
   page registers is what the next page continues, in order).
-/
import WpModel.Lemmas.OofEmbed
import WpModel.Lemmas.OofPages
import WpModel.Lemmas.OofTotal
import WpModel.Lemmas.OofFrame
import WpModel.Lemmas.OofWorld
import WpModel.Props.C01
import WpModel.Witness.C01Oof

namespace Wp.PMO.C01Oof
open Wp Wp.PM

/-! ### 1. embedding of stage 1 -/

/-- **Embedding theorem**: the extended pagination of an embedded stage-1 document is the embedding of
its stage-1 pagination (same pages, fragments, geometry, resume positions; nothing out of flow). -/
theorem embed_agrees (d : PM.Doc) (fuel : Nat) :
    PMO.paginate (embedDoc d) fuel = (PM.paginate d fuel).map (embedPages 0) :=
  paginate_embed d fuel

/-- The same at the level of one `block_level_layout` call. -/
theorem embed_layout (box : PBox) (c : Ctx) (idx : Nat) (y bs : Rat) (skip : Option Resume) (cb pie : Bool)
    (adjL : List Rat) :
    PMO.layoutBox c (embed box) idx y bs skip cb pie adjL World.empty =
      embedResult (PM.layoutBox c box idx y bs skip cb pie adjL) :=
  layoutBox_embed box c idx y bs skip cb pie adjL

/-- Transfer, as an example of use: the in-flow lines of the embedded pages are the stage-1 lines. -/
theorem embedFrag_lines : (f : Frag) → PMO.fragLines (embedFrag f) = PM.fragLines f := by
  intro f
  induction f using Frag.rec (motive_2 := fun fs => PMO.fragLinesList (embedFragList fs) = PM.fragLinesList fs) with
  | para id idx st n g lines => simp [embedFrag, PMO.fragLines, PM.fragLines]
  | block id idx st g kids ih => simpa [embedFrag, PMO.fragLines, PM.fragLines] using ih
  | nil => rfl
  | cons f fs ihf ihfs => simp [embedFragList, PMO.fragLinesList, PM.fragLinesList, ihf, ihfs]

/-! Non-vacuity of the embedding: the stage-1 example document (6 pages, one blank). -/
example : (PMO.paginate (embedDoc Wp.C01.exDoc) 50).map (fun ps => ps.map (fun p => (p.type.blank, PMO.fragLines p.root))) =
    some [(false, [(1, 0), (1, 1)]), (false, [(1, 2)]), (false, [(3, 0), (3, 1)]), (false, [(3, 2), (3, 3)]),
      (true, []), (false, [(5, 0)])] := by decide +kernel

/-! ### 2. the flow: nothing lost, duplicated or reordered

`fragLines f` = the lines of the fragment's own flow (lines inside floats / absolute boxes excluded),
`linesFrom box skip` = the in-flow lines of the box at / after the skip position. Hypotheses: `Good`
(no fixed `height`, `orphans, widows ≥ 1`, on the in-flow boxes only) and a well-formed skip stack (a
sub-stack only under an in-flow child — what every layout returns: `segment_wf`). No hypothesis on
geometry, floats, clearance, the threaded state. -/

theorem segment (box : OBox) (hg : Good box) (c : Ctx) (idx : Nat) (y bs : Rat)
    (skip : Option Resume) (cb pie : Bool) (adjL : List Rat) (w : World) (hwf : WfSkip box skip) (f : OFrag)
    (h : (layoutBox c box idx y bs skip cb pie adjL w).frag = some f) :
    fragLines f ++ restOut box (layoutBox c box idx y bs skip cb pie adjL w).resume = linesFrom box skip :=
  boxPost_lines _ _ _ _ _ _ (box_spec box hg c idx y bs skip cb pie adjL w hwf) h

/-- The resume position a layout returns is well formed (so the hypothesis of `segment` propagates). -/
theorem segment_wf (box : OBox) (hg : Good box) (c : Ctx) (idx : Nat) (y bs : Rat)
    (skip : Option Resume) (cb pie : Bool) (adjL : List Rat) (w : World) (hwf : WfSkip box skip) (f : OFrag)
    (h : (layoutBox c box idx y bs skip cb pie adjL w).frag = some f) :
    WfSkip box (layoutBox c box idx y bs skip cb pie adjL w).resume := by
  have hs := box_spec box hg c idx y bs skip cb pie adjL w hwf f h
  cases hr : (layoutBox c box idx y bs skip cb pie adjL w).resume with
  | none => exact wfSkip_none _
  | some r => rw [hr] at hs; exact hs.2.2.2

/-- One page: blank pages show no in-flow line and leave the position; other pages show a prefix of what
was left — continuation fragments and laid-out absolute boxes of the final root do not count. -/
theorem page_segment (d : Doc) (hg : Good d.root) (index : Nat) (resume : Option Resume) (np : NextPage)
    (right : Bool) (brokenIn : List Broken) (rootTop : Rat) (p : Page) (hwf : WfSkip d.root resume)
    (hp : remakePage d index resume np right brokenIn rootTop = some p) :
    (p.type.blank = true → fragLines p.root = [] ∧ p.resume = resume) ∧
    (p.type.blank = false → fragLines p.root ++ restOut d.root p.resume = linesFrom d.root resume) := by
  obtain ⟨h1, h2⟩ := remakePage_lines d hg index resume np right brokenIn rootTop p hwf hp
  exact ⟨fun hb => ⟨(h1 hb).1, (h1 hb).2.1⟩, fun hb => (h2 hb).1⟩

private theorem pagesLines_eq (pages : List Page) :
    pagesLines pages = (pages.map (fun p => fragLines p.root)).flatten := by
  induction pages with
  | nil => rfl
  | cons p ps ih => simp [pagesLines, ih]

/-- **Pages theorem (flow)**: the in-flow lines shown by the pages, concatenated, are exactly the in-flow
lines of the document, in order — whatever floats, absolute boxes and clearance do to the geometry. -/
theorem pages_conserve (d : Doc) (hg : Good d.root) (fuel : Nat) (pages : List Page)
    (h : paginate d fuel = some pages) :
    (pages.map (fun p => fragLines p.root)).flatten = linesFrom d.root none := by
  rw [← pagesLines_eq]
  unfold paginate at h
  exact makeAllPages_lines d hg fuel 0 none _ _ [] 0 pages (fun _ => by simp [requestedSide, isBlank])
    (wfSkip_none _) h

/-! ### 3. out-of-flow boxes: each fragment is a segment, continued on the very next page

A float / absolutely positioned box is itself laid out by `layoutBox` (in a formatting context of its
own, `page_is_empty = true`), so `segment` applies to it: the lines of the fragment followed by the lines
designated by the resume position registered in `broken_out_of_flow` are the lines designated by the
position it was started at. What remains to be said is that placing the float (translation, serial) does
not touch the lines, that the registered position is the returned one, and that the next page starts from
exactly what this page registered. -/

/-- Placing a float (`find_float_position`, `excluded_shapes.append`) keeps its lines. -/
theorem float_placed_lines (shapes0 : List Shape) (r : LayoutResult) (f : OFrag) (ser : Nat) (w : World)
    (h : floatDone shapes0 r = (some (f, ser), w)) : ∃ f0, r.frag = some f0 ∧ fragLines f = fragLines f0 := by
  unfold floatDone at h
  split at h
  · simp at h
  · rename_i f0 hf0
    simp only [Prod.mk.injEq, Option.some.injEq] at h
    refine ⟨f0, hf0, ?_⟩
    rw [← h.1.1]
    have hs : ∀ (g : OFrag) (k : Nat), fragLines (g.withSer k) = fragLines g := by
      intro g k; cases g <;> rfl
    rw [hs]
    unfold placeFloat
    simp only [fragLines_translate]
    split
    · split
      · simp [fragLines_translate]
      · rfl
    · rfl

/-- **A float in the block flow** (`_out_of_flow_layout`): when it is added, its fragment shows the lines
of the float from the start, and what is registered for the next page (`localBroken`, merged into
`context.broken_out_of_flow` by the enclosing box) designates the rest. -/
theorem float_segment (c : Ctx) (index : Nat) (pie : Bool) (bs y : Rat) (child : OBox) (hc : child.inFlow = false)
    (hg : Good child) (s s' : KidsLoop) (w0 : World)
    (h : floatStep c index pie bs child hc s (layoutBox c child index y bs none false true [] w0) = (none, s')) :
    ∃ f, s'.newChildren = s.newChildren ++ [f] ∧
      fragLines f ++ restOut child (layoutBox c child index y bs none false true [] w0).resume =
        linesFrom child none ∧
      s'.localBroken.map (fun e => (e.box.id, e.resume)) =
        s.localBroken.map (fun e => (e.box.id, e.resume)) ++
          (match (layoutBox c child index y bs none false true [] w0).resume with
            | some ρ => [(child.id, ρ)]
            | none => []) := by
  unfold floatStep at h
  cases hfd : floatDone s.w.shapes (layoutBox c child index y bs none false true [] w0) with
  | mk o w =>
    rw [hfd] at h
    cases o with
    | none => simp at h
    | some fs =>
      obtain ⟨f, ser⟩ := fs
      obtain ⟨f0, hf0, hl⟩ := float_placed_lines _ _ _ _ _ hfd
      by_cases hadd : (pie && s.newChildren.isEmpty || !c.overflowsPage bs (f.geo.y + f.geo.h)) = true
      · simp only [hadd, ↓reduceIte, Prod.mk.injEq, true_and] at h
        subst h
        refine ⟨f.withIdx index, rfl, ?_, ?_⟩
        · rw [fragLines_withIdx, hl]
          exact segment child hg c index y bs none false true [] w0 (wfSkip_none _) f0 hf0
        · simp only [List.map_append]
          cases (layoutBox c child index y bs none false true [] w0).resume <;> simp
      · simp only [hadd, Bool.false_eq_true, ↓reduceIte] at h
        split at h <;> simp at h

/-- **An absolutely positioned box of the page** (`absolute_layout` at the end of `make_page`): its
fragment shows its lines from the start; it is registered in `broken_out_of_flow` iff something is left,
with the returned resume position. -/
theorem abs_segment (c : Ctx) (acc : World × List (Nat × OFrag)) (e : AbsEntry) (hg : Good e.box) :
    (∃ f, (absStep c acc e).2 = acc.2 ++ [(e.ser, f)] ∧
      ∃ r : LayoutResult, r.frag = some f ∧ fragLines f ++ restOut e.box r.resume = linesFrom e.box none ∧
        (absStep c acc e).1.broken.map (fun b => (b.box.id, b.resume)) =
          r.w.broken.map (fun b => (b.box.id, b.resume)) ++
            (match r.resume with | some ρ => [(e.box.id, ρ)] | none => [])) := by
  have hsome := layoutAbs_isSome c (boxDepth e.box) e.box e.idx e.y none acc.1
  cases hfr : (layoutAbs c (boxDepth e.box) e.box e.idx e.y none acc.1).frag with
  | none => rw [hfr] at hsome; simp at hsome
  | some f =>
    obtain ⟨f0, hf0, hl⟩ := layoutAbs_lines c _ e.box e.idx e.y none acc.1 f hfr
    have hseg := segment e.box hg c e.idx e.y 0 none false true [] _ (wfSkip_none _) f0 hf0
    refine ⟨f, ?_, _, hfr, ?_, ?_⟩
    · unfold absStep
      simp only [hfr]
    · rw [hl, layoutAbs_resume]; exact hseg
    · unfold absStep
      simp only [hfr, List.map_append]
      cases (layoutAbs c (boxDepth e.box) e.box e.idx e.y none acc.1).resume <;> simp

/-- **Continuation on the next page** (`make_page`, the loop over `context.broken_out_of_flow`): the box
cut on the previous page is laid out from exactly the registered resume position; its fragment is
appended to the continuations (which `make_page` puts in front of the root's children), and it is
registered again iff something is still left. -/
theorem continuation_segment (c : Ctx) (rootTop : Rat) (acc : World × List OFrag) (e : Broken)
    (hg : Good e.box) (hwf : WfSkip e.box (some e.resume)) :
    ∃ g, (contStep c rootTop acc e).2 = acc.2 ++ [g] ∧
      ∃ r : LayoutResult, fragLines g ++ restOut e.box r.resume = linesFrom e.box (some e.resume) ∧
        (contStep c rootTop acc e).1.broken.map (fun b => (b.box.id, b.resume)) =
          r.w.broken.map (fun b => (b.box.id, b.resume)) ++
            (match r.resume with | some ρ => [(e.box.id, ρ)] | none => []) := by
  unfold contStep
  dsimp only
  split
  · -- a float
    have hsome := box_some e.box c 0 (floatY acc.1.shapes e.box.st.clear rootTop) 0 (some e.resume) false []
      { acc.1 with shapes := [] }
    cases hfr : (layoutBox c e.box 0 (floatY acc.1.shapes e.box.st.clear rootTop) 0 (some e.resume) false true []
        { acc.1 with shapes := [] }).frag with
    | none => rw [hfr] at hsome; simp at hsome
    | some f0 =>
      have hseg := segment e.box hg c 0 (floatY acc.1.shapes e.box.st.clear rootTop) 0 (some e.resume) false true []
        { acc.1 with shapes := [] } hwf f0 hfr
      split
      · rename_i w' hfd
        unfold floatDone at hfd
        simp [hfr] at hfd
      · rename_i f ser w' hfd
        obtain ⟨f0', hf0', hl⟩ := float_placed_lines _ _ _ _ _ hfd
        rw [hfr] at hf0'
        cases hf0'
        refine ⟨f, rfl, _, by rw [hl]; exact hseg, ?_⟩
        have hw' : w'.broken = (layoutBox c e.box 0 (floatY acc.1.shapes e.box.st.clear rootTop) 0 (some e.resume)
            false true [] { acc.1 with shapes := [] }).w.broken := by
          unfold floatDone at hfd
          simp only [hfr, Prod.mk.injEq] at hfd
          rw [← hfd.2]
          rfl
        simp only [List.map_append, hw']
        cases (layoutBox c e.box 0 (floatY acc.1.shapes e.box.st.clear rootTop) 0 (some e.resume) false true []
          { acc.1 with shapes := [] }).resume <;> simp
  · -- an absolutely positioned box
    have hsome := layoutAbs_isSome c (boxDepth e.box) e.box e.idx rootTop (some e.resume) acc.1
    cases hfr : (layoutAbs c (boxDepth e.box) e.box e.idx rootTop (some e.resume) acc.1).frag with
    | none => rw [hfr] at hsome; simp at hsome
    | some f =>
      obtain ⟨f0, hf0, hl⟩ := layoutAbs_lines c _ e.box e.idx rootTop (some e.resume) acc.1 f hfr
      have hseg := segment e.box hg c e.idx rootTop 0 (some e.resume) false true [] _ hwf f0 hf0
      simp only
      refine ⟨f, rfl, layoutAbs c (boxDepth e.box) e.box e.idx rootTop (some e.resume) acc.1, ?_, ?_⟩
      · rw [hl, layoutAbs_resume]; exact hseg
      · simp only [List.map_append]
        cases (layoutAbs c (boxDepth e.box) e.box e.idx rootTop (some e.resume) acc.1).resume <;> simp

/-- **Consecutive pages**: the `broken_out_of_flow` a page ends with is what the next page starts from (in
order) — so by `continuation_segment` every cut out-of-flow box goes on, on the very next page, from where
it stopped. Nothing of the kind holds after the *last* page: `Witness.C01Oof.lost_at_document_end`. -/
theorem continued_next_page (d : Doc) (fuel index : Nat) (resume : Option Resume) (np : NextPage) (right : Bool)
    (brokenIn : List Broken) (rootTop : Rat) (p q : Page) (rest : List Page)
    (h : makeAllPages d (fuel + 1) index resume np right brokenIn rootTop = some (p :: q :: rest)) :
    remakePage d index resume np right brokenIn rootTop = some p ∧
    ∃ fuel', makeAllPages d (fuel' + 1) (index + 1) p.resume p.nextPage (!right) p.broken p.rootTop =
      some (q :: rest) := by
  unfold makeAllPages at h
  split at h
  · cases h
  · rename_i p' hp
    split at h
    · simp at h
    · split at h
      · rename_i ps hps
        simp only [Option.some.injEq, List.cons.injEq] at h
        obtain ⟨rfl, rfl⟩ := h
        refine ⟨hp, ?_⟩
        cases fuel with
        | zero => simp [makeAllPages] at hps
        | succ k => exact ⟨k, hps⟩
      · cases h

/-! ### 4. what the repairs e3ac9f0 and cdccac3 made true, for all inputs -/

/-- **A cancelled block leaves nothing behind** (repair e3ac9f0): when the children loop of
`block_container_layout` aborts, no placeholder and no cut float of the children laid out so far stays in
`absolute_boxes` / `context.broken_out_of_flow` — whatever the children, at any depth. (False before the
repair: `Witness.absolute_placeholder_removed_on_abort` is the former counterexample.) -/
theorem cancelled_block_leaves_nothing (c : Ctx) (st : OStyle) (p : Prep) (pie : Bool) (id idx : Nat)
    (page : String) (s : KidsLoop) :
    let r := finishBlock c st p pie id idx (.aborted page s)
    r.frag = none ∧ (∀ e ∈ r.w.absL, e.ser ∉ fragSersList s.newChildren) ∧
      (∀ e ∈ r.w.broken, e.ser ∉ fragSersList s.newChildren) ∧
      (∀ e ∈ r.w.absL, e ∈ s.w.absL) ∧ (∀ e ∈ r.w.broken, e ∈ s.w.broken) := by
  simp only [finishBlock, abortResult, World.remove]
  refine ⟨trivial, ?_, ?_, ?_, ?_⟩ <;> intro e he <;> simp only [List.mem_filter] at he
  · simpa using he.2
  · simpa using he.2
  · exact he.1
  · exact he.1

/-- **Only children are continued** (repair cdccac3): what a block container hands over to
`context.broken_out_of_flow` are cut floats that are still among its children — a float dropped from the page
by `find_earlier_page_break` is not continued (it is laid out again in full). (False before the repair:
`Witness.float_fragment_not_duplicated` is the former counterexample.) -/
theorem only_children_continued (kids : List OFrag) (localBroken : List Broken) :
    (∀ e ∈ keptBroken kids localBroken, e ∈ localBroken ∧ ∃ f ∈ kids, f.ser = e.ser) ∧
    (∀ e ∈ localBroken, (∃ f ∈ kids, f.ser = e.ser) → e ∈ keptBroken kids localBroken) := by
  constructor
  · intro e he
    simp only [keptBroken, List.mem_filter, List.any_eq_true, beq_iff_eq] at he
    exact he
  · intro e he hf
    simp only [keptBroken, List.mem_filter, List.any_eq_true, beq_iff_eq]
    exact ⟨he, hf⟩

/-- … and that is what `finishContainer` registers: the world's `broken_out_of_flow` grows by exactly
`keptBroken`, or — a fragmented box that must not be — loses every entry of the children. -/
theorem finishContainer_broken (c : Ctx) (st : OStyle) (b : BoxSt) (pie : Bool) (bs : Rat) (cwc dbd : Bool)
    (resume : Option Resume) (posY : Rat) (adjL cur : List Rat) (curIsL : Bool) (np : NextPage) (hasKids : Bool)
    (pageEnd : String) (kids : List OFrag) (lb : List Broken) (w : World) (mk : Geo → OFrag) :
    let r := finishContainer c st b pie bs cwc dbd resume posY adjL cur curIsL np hasKids pageEnd kids lb w mk
    (r.frag.isSome = true → r.w.broken = w.broken ++ keptBroken kids lb) ∧
    (r.frag = none → ∀ e ∈ r.w.broken, e ∈ w.broken ∧ e.ser ∉ fragSersList kids) := by
  simp only [finishContainer]
  split
  · refine ⟨by simp, fun _ e he => ?_⟩
    simp only [World.remove, List.mem_filter] at he
    exact ⟨he.1, by simpa using he.2⟩
  · exact ⟨fun _ => rfl, by simp⟩

/-- **A postponed float leaves nothing behind** (repair 0d665d0): when a float does not fit and is not added
(`_out_of_flow_layout`, `add_child` false), the children loop stops, and no placeholder / cut float nested in
the discarded layout of the float stays in `absolute_boxes` / `context.broken_out_of_flow` — whether the page
break stays before the float or `find_earlier_page_break` moves it up. (False before the repair:
`Witness.nested_float_in_postponed_float_not_duplicated` is the former counterexample.) -/
theorem postponed_float_leaves_nothing (c : Ctx) (index : Nat) (pie : Bool) (bs : Rat) (child : OBox)
    (hc : child.inFlow = false) (s : KidsLoop) (r : LayoutResult) (f : OFrag) (ser : Nat) (w : World)
    (hfd : floatDone s.w.shapes r = (some (f, ser), w))
    (hnot : (pie && s.newChildren.isEmpty || !c.overflowsPage bs (f.geo.y + f.geo.h)) = false) :
    ∃ res s', (floatStep c index pie bs child hc s r).1 = some (.stopped res s') ∧
      (∀ e ∈ s'.w.absL, e.ser ∉ fragSers f ∧ e ∈ w.absL) ∧
      (∀ e ∈ s'.w.broken, e.ser ∉ fragSers f ∧ e ∈ w.broken) := by
  unfold floatStep
  rw [hfd]
  simp only [hnot, Bool.false_eq_true, ↓reduceIte]
  split
  · refine ⟨_, _, rfl, ?_, ?_⟩ <;> intro e he <;>
      simp only [World.removeDropped, World.remove, List.mem_filter] at he <;>
      exact ⟨by simpa using he.1.2, he.1.1⟩
  · refine ⟨_, _, rfl, ?_, ?_⟩ <;> intro e he <;>
      simp only [World.remove, List.mem_filter] at he <;>
      exact ⟨by simpa using he.2, he.1⟩

/-! Non-vacuity: a cut float (serial 7) that is no longer a child is not kept; one that is, is. -/
example :
    let e : Broken := { ser := 7, box := .para 2 6 10 (Witness.floated Witness.st0), idx := 0,
                        resume := .node 0 (some (.line 3)), oof := rfl }
    (keptBroken [] [e]).length = 0 ∧
      (keptBroken [.para 7 2 1 (Witness.floated Witness.st0) 6 dummyGeo [(0, 0)]] [e]).length = 1 := by
  decide +kernel

/-! ### 5. from the single step to the page: everything registered is continued, in order, at the top of the next page

`continuation_segment` speaks of one iteration of `make_page`'s loop over `context.broken_out_of_flow`.
Lifted to the whole loop and to the page that `remake_page` returns: the root fragment of the page starts
with exactly one fragment per registered box, in registration order, each of them a real fragment (never a
bare placeholder) that shows the lines of its box from the registered resume position up to some later
position (`ContOf`) — whatever else the page does (floats, clearance, nested absolutely positioned boxes laid
out in place of their placeholders). Hypothesis, explicit: the registered boxes are `Good` and their resume
positions well formed (what `segment_wf` gives for every position a layout returns). -/

/-- `g` is a continuation of the registered item `e`: a real fragment whose own-flow lines, followed by what
some later position `ρ` designates, are what `e.resume` designates in `e.box`. -/
def ContOf (e : Broken) (g : OFrag) : Prop :=
  g.isPh = false ∧ ∃ ρ : Option Resume, fragLines g ++ restOut e.box ρ = linesFrom e.box (some e.resume)

/-- One continuation per registered item, in the same order (`ContAll`, spelled out: core has none). -/
inductive ContAll : List Broken → List OFrag → Prop
  | nil : ContAll [] []
  | cons {e : Broken} {g : OFrag} {es : List Broken} {gs : List OFrag} :
      ContOf e g → ContAll es gs → ContAll (e :: es) (g :: gs)

theorem ContAll.length_eq {es : List Broken} {gs : List OFrag} (h : ContAll es gs) : es.length = gs.length := by
  induction h with
  | nil => rfl
  | cons _ _ ih => simp [ih]

/-- **The loop over `context.broken_out_of_flow`**: one continuation per registered box, in order. -/
theorem continuations_chain (c : Ctx) (rootTop : Rat) : ∀ (es : List Broken) (acc : World × List OFrag),
    (∀ e ∈ es, Good e.box ∧ WfSkip e.box (some e.resume)) → (∀ g ∈ acc.2, g.isPh = false) →
    ∃ gs, (es.foldl (contStep c rootTop) acc).2 = acc.2 ++ gs ∧ ContAll es gs
  | [], acc, _, _ => ⟨[], by simp, ContAll.nil⟩
  | e :: es, acc, hes, hacc => by
    have he := hes e List.mem_cons_self
    obtain ⟨g, hg, r, hlines, _⟩ := continuation_segment c rootTop acc e he.1 he.2
    have hph := contStep_notPh c rootTop acc e hacc
    have hgph : g.isPh = false := hph g (by rw [hg]; simp)
    obtain ⟨gs, hgs, hall⟩ := continuations_chain c rootTop es (contStep c rootTop acc e)
      (fun e' he' => hes e' (List.mem_cons_of_mem _ he')) hph
    refine ⟨g :: gs, ?_, ContAll.cons ⟨hgph, r.resume, hlines⟩ hall⟩
    simp only [List.foldl_cons]
    rw [hgs, hg, List.append_assoc]
    rfl

/-- `set_laid_out_box` on the continuations (absolutely positioned boxes nested in a continued float are laid
out with the page's) keeps them continuations. -/
theorem contOf_substAbs (res : List (Nat × OFrag)) (hres : ∀ p ∈ res, p.2.inFlow = false) :
    ∀ (es : List Broken) (gs : List OFrag), ContAll es gs →
      ContAll es (substAbsList res gs)
  | _, _, .nil => by simpa [substAbsList] using ContAll.nil
  | _, _, .cons (e := e) (g := g) (es := es) (gs := gs) h hrest => by
    simp only [substAbsList]
    refine ContAll.cons ⟨substAbs_isPh_of_notPh res g h.1, ?_⟩ (contOf_substAbs res hres es gs hrest)
    obtain ⟨ρ, hρ⟩ := h.2
    exact ⟨ρ, by rw [substAbs_lines_of_notPh res hres g h.1]; exact hρ⟩

/-- **Page theorem (out-of-flow boxes)**: the root fragment of every page made by `remake_page` for a block
root begins with the continuations of the boxes registered by the previous page — all of them, in order, each
from its registered position — followed by the children of the root's own layout. -/
theorem page_continues (d : Doc) (id : Nat) (st : OStyle) (kids : List OBox) (hroot : d.root = .block id st kids)
    (index : Nat) (resume : Option Resume) (np : NextPage) (right : Bool) (brokenIn : List Broken) (rootTop : Rat)
    (p : Page) (hin : ∀ e ∈ brokenIn, Good e.box ∧ WfSkip e.box (some e.resume))
    (hp : remakePage d index resume np right brokenIn rootTop = some p) :
    ∃ gs ks ser idx g, ContAll brokenIn gs ∧ p.root = .block ser id idx st g (gs ++ ks) := by
  unfold remakePage at hp
  dsimp only at hp
  split at hp
  · simp at hp
  · rename_i f hfrag
    simp only [Option.some.injEq] at hp
    subst hp
    obtain ⟨gs, hgs, hall⟩ := continuations_chain
      { pageBottom := d.pageH, currentPage := index + 1, forcedBreak := forcedBreakOf np } rootTop brokenIn
      (World.empty, []) hin (fun g hg => by simp at hg)
    simp only [List.nil_append] at hgs
    have hblock : ∃ g ks, f = .block 0 id 0 st g ks := by
      rw [hroot] at hfrag
      split at hfrag
      · exact layoutBox_block_frag _ _ _ _ _ _ _ _ _ _ _ _ f (by simpa [emptyRoot] using hfrag)
      · exact layoutBox_block_frag _ _ _ _ _ _ _ _ _ _ _ _ f hfrag
    obtain ⟨g, ks, rfl⟩ := hblock
    simp only [substAbs, finishRoot]
    rw [hgs]
    exact ⟨_, _, _, _, _, contOf_substAbs _ (absFold_oof _ _ (_, []) (fun q hq => by simp at hq)) _ _ hall, rfl⟩

/-- **Consecutive pages of a document**: what page `p` registered is continued — all of it, in order — at the
top of the very next page `q` (`continued_next_page` + `page_continues`). -/
theorem next_page_continues (d : Doc) (id : Nat) (st : OStyle) (kids : List OBox) (hroot : d.root = .block id st kids)
    (fuel index : Nat) (resume : Option Resume) (np : NextPage) (right : Bool) (brokenIn : List Broken)
    (rootTop : Rat) (p q : Page) (rest : List Page)
    (h : makeAllPages d (fuel + 1) index resume np right brokenIn rootTop = some (p :: q :: rest))
    (hreg : ∀ e ∈ p.broken, Good e.box ∧ WfSkip e.box (some e.resume)) :
    ∃ gs ks ser idx g, ContAll p.broken gs ∧ q.root = .block ser id idx st g (gs ++ ks) := by
  obtain ⟨_, fuel', hq⟩ := continued_next_page d fuel index resume np right brokenIn rootTop p q rest h
  have hq' : remakePage d (index + 1) p.resume p.nextPage (!right) p.broken p.rootTop = some q := by
    unfold makeAllPages at hq
    split at hq
    · cases hq
    · rename_i q' hq'
      split at hq
      · simp only [Option.some.injEq, List.cons.injEq] at hq; rw [← hq.1]; exact hq'
      · split at hq
        · simp only [Option.some.injEq, List.cons.injEq] at hq; rw [← hq.1]; exact hq'
        · cases hq
  exact page_continues d id st kids hroot (index + 1) p.resume p.nextPage (!right) p.broken p.rootTop q hreg hq'

/-! Non-vacuity of §5 on `exDoc` (below): page 1 registers the float 2, page 2 the absolutely positioned box 4;
the root of the next page starts with their continuation (first child: same box id), and the hypothesis of
`next_page_continues` holds for the registered items (`Good`, well-formed resume position). -/
private def fragId : OFrag → Nat
  | .para _ id _ _ _ _ _ => id
  | .block _ id _ _ _ _ => id
  | .ph _ id _ _ => id
private def rootKidIds : OFrag → List Nat
  | .block _ _ _ _ _ ks => ks.map fragId
  | _ => []

/-! ### non-vacuity

A 2-line paragraph, a 6-line full-width float, a 2-line paragraph with `clear:left`, a 4-line absolutely
positioned paragraph, a 4-line paragraph, on 50px pages with 10px lines: the float is cut on page 1 and
continued on page 2, where the absolute box starts and is cut; page 3 continues it. The hypotheses hold,
the flow is conserved, and here so are the out-of-flow boxes (nothing is pending after the last page). -/

open Witness in
def exDoc : Doc :=
  mkDoc 50 [.para 1 2 10 (flow st0), .para 2 6 10 (floated st0),
    .para 3 2 10 { flow st0 with clear := true }, .para 4 4 10 (absolute st0), .para 5 4 10 (flow st0)]

example : Good exDoc.root ∧ GoodDeep exDoc.root := by
  simp [exDoc, Witness.mkDoc, Good, GoodList, GoodDeep, GoodDeepList, Witness.flow, Witness.floated,
    Witness.absolute, Witness.st0]

example : (paginate exDoc 40).map (fun ps => ps.map fun p =>
      (fragLines p.root, Witness.allLines p.root,
        p.broken.map fun e => (e.box.id, skipLine (subSkipOf (some e.resume))))) =
    some [([(1, 0), (1, 1)], [(1, 0), (1, 1), (2, 0), (2, 1), (2, 2)], [(2, 3)]),
      ([(3, 0), (3, 1)], [(2, 3), (2, 4), (2, 5), (3, 0), (3, 1), (4, 0)], [(4, 1)]),
      ([(5, 0), (5, 1), (5, 2), (5, 3)], [(4, 1), (4, 2), (4, 3), (5, 0), (5, 1), (5, 2), (5, 3)], [])] ∧
    linesFrom exDoc.root none = [(1, 0), (1, 1), (3, 0), (3, 1), (5, 0), (5, 1), (5, 2), (5, 3)] :=
  ⟨by decide +kernel, by decide +kernel⟩

/-! Nested absolutely positioned boxes (round 4, `layoutAbs`): a 2-line paragraph, an absolutely positioned
block holding [2 lines, an absolutely positioned block of 5 lines, 1 line], then 4 lines, on 50px pages. The
inner box starts at `y = 40`, is cut after its first line and registered (before its containing box would be);
page 2 continues it. Every line of the document is shown exactly once. -/
open Witness in
def exAbsInAbs : Doc :=
  mkDoc 50 [.para 1 2 10 (flow st0),
    .block 5 (absolute st0) [.para 2 2 10 (flow st0), .block 6 (absolute st0) [.para 3 5 10 (flow st0)],
      .para 4 1 10 (flow st0)],
    .para 7 4 10 (flow st0)]

example : Witness.summary exAbsInAbs 30 = some
    [([(1, 0), (1, 1), (2, 0), (2, 1), (3, 0), (4, 0), (7, 0), (7, 1), (7, 2)], [(6, 0)]),
     ([(3, 1), (3, 2), (3, 3), (3, 4), (7, 3)], [])] := by decide +kernel

example : (paginate exDoc 40).map (fun ps => ps.map fun p => (p.broken.map (fun e => e.box.id), rootKidIds p.root)) =
    some [([2], [99]), ([4], [2, 99]), ([], [4, 99])] := by decide +kernel

example : Good (.para 2 6 10 (Witness.floated Witness.st0)) ∧
    WfSkip (.para 2 6 10 (Witness.floated Witness.st0)) (some (.node 0 (some (.line 3)))) := by
  simp [Good, WfSkip, Witness.floated, Witness.st0]

/-- `segment` on a resumed layout (the root of `exDoc` resumed at its third child, in an empty world). -/
example :
    let r := layoutBox { pageBottom := 50, currentPage := 2, forcedBreak := false } exDoc.root 0 0 0
      (some (.node 0 (some (.node 2 none)))) false true [] World.empty
    r.frag.map fragLines = some [(3, 0), (3, 1), (5, 0), (5, 1), (5, 2)] ∧ r.resume.isSome = true ∧
      restOut exDoc.root r.resume = [(5, 3)] ∧ r.w.absL.length = 1 :=
  ⟨by decide +kernel, by decide +kernel, by decide +kernel, by decide +kernel⟩

/-- `WfSkip`: a sub-stack under the float child (index 1) is ill-formed, under the paragraph (index 2) fine. -/
example : ¬ WfSkip exDoc.root (some (.node 0 (some (.node 1 (some (.line 1)))))) ∧
    WfSkip exDoc.root (some (.node 0 (some (.node 2 (some (.node 0 (some (.line 1)))))))) := by
  simp [exDoc, Witness.mkDoc, WfSkip, WfSkipKids, OBox.inFlow, OBox.st, Witness.flow, Witness.floated]

/-! ### 6. the world invariant: the hypothesis of §5 holds for every good document

`Lemmas/OofWorld.lean` proves, by the mutual induction over the whole layout (`layoutBox_wok` / `layoutKids_sok`,
then `layoutAbs_wok`, `contStep_wok`, `absStep_wok`, `remakePage_registered_ok`, `makeAllPages_registered_ok`), that
every item a layout leaves in `absolute_boxes` or registers in `context.broken_out_of_flow` is a box of the
document with — for the registered ones — a well-formed resume position (`EOk`). So the explicit hypothesis of
`next_page_continues` can go: -/

/-- A fine registered item satisfies the hypothesis of `continuation_segment` / `page_continues`. -/
theorem eok_good_wf (e : Broken) (h : EOk e) : Good e.box ∧ WfSkip e.box (some e.resume) :=
  ⟨good_of_deep e.box h.1, h.2⟩

/-- **Everything a page registers is continued on the next page — for every good document, no hypothesis on the
registered items** (`next_page_continues` with its hypothesis discharged by the world invariant
`makeAllPages_registered_ok`): for consecutive pages `p, q` of a document whose boxes all have `height: auto`
and `orphans, widows ≥ 1` (`GoodDeep`), the root of `q` starts with one real fragment per item of
`p.broken`, in order, each showing the lines of its box from the registered position. -/
theorem document_continues (d : Doc) (hd : GoodDeep d.root) (id : Nat) (st : OStyle) (kids : List OBox)
    (hroot : d.root = .block id st kids) (fuel index : Nat) (resume : Option Resume) (np : NextPage) (right : Bool)
    (brokenIn : List Broken) (rootTop : Rat) (hin : ∀ e ∈ brokenIn, EOk e) (p q : Page) (rest : List Page)
    (h : makeAllPages d (fuel + 1) index resume np right brokenIn rootTop = some (p :: q :: rest)) :
    ∃ gs ks ser idx g, ContAll p.broken gs ∧ q.root = .block ser id idx st g (gs ++ ks) := by
  have hok := makeAllPages_registered_ok d hd (fuel + 1) index resume np right brokenIn rootTop _ hin h p
    List.mem_cons_self
  exact next_page_continues d id st kids hroot fuel index resume np right brokenIn rootTop p q rest h
    (fun e he => eok_good_wf e (hok e he))

/-- The same for any two consecutive pages of `paginate` (the document starts with nothing registered). -/
theorem paginate_continues (d : Doc) (hd : GoodDeep d.root) (id : Nat) (st : OStyle) (kids : List OBox)
    (hroot : d.root = .block id st kids) (fuel : Nat) (pages : List Page) (h : paginate d fuel = some pages) :
    ∀ (pre : List Page) (p q : Page) (rest : List Page), pages = pre ++ p :: q :: rest →
      ∃ gs ks ser idx g, ContAll p.broken gs ∧ q.root = .block ser id idx st g (gs ++ ks) := by
  unfold paginate at h
  have key : ∀ (fuel index : Nat) (resume : Option Resume) (np : NextPage) (right : Bool) (brokenIn : List Broken)
      (rootTop : Rat) (pages : List Page), (∀ e ∈ brokenIn, EOk e) →
      makeAllPages d fuel index resume np right brokenIn rootTop = some pages →
      ∀ (pre : List Page) (p q : Page) (rest : List Page), pages = pre ++ p :: q :: rest →
        ∃ gs ks ser idx g, ContAll p.broken gs ∧ q.root = .block ser id idx st g (gs ++ ks) := by
    intro fuel
    induction fuel with
    | zero => intro index resume np right bi rt pages _ h; simp [makeAllPages] at h
    | succ fuel ih =>
      intro index resume np right bi rt pages hin h pre p q rest hpages
      cases pre with
      | nil =>
        simp only [List.nil_append] at hpages
        subst hpages
        exact document_continues d hd id st kids hroot fuel index resume np right bi rt hin p q rest h
      | cons p0 pre' =>
        simp only [List.cons_append] at hpages
        subst hpages
        have hp0 := makeAllPages_registered_ok d hd (fuel + 1) index resume np right bi rt _ hin h p0
          List.mem_cons_self
        -- the tail of the pages is itself a `makeAllPages` run started from what `p0` registered
        unfold makeAllPages at h
        split at h
        · cases h
        · rename_i p' hp'
          split at h
          · simp only [Option.some.injEq, List.cons.injEq] at h
            have := h.2
            cases pre' <;> simp at this
          · split at h
            · rename_i ps hps
              simp only [Option.some.injEq, List.cons.injEq] at h
              obtain ⟨rfl, rfl⟩ := h
              exact ih _ _ _ _ _ _ _ hp0 hps pre' p q rest rfl
            · cases h
  exact key fuel 0 none _ _ [] 0 pages (by simp) h


/-! Non-vacuity: `exDoc` is `GoodDeep` with a block root, so `paginate_continues` applies to its three pages (the
float 2 registered by page 1 and the absolutely positioned box 4 registered by page 2 are continued). -/
example (pages : List Page) (h : paginate exDoc 40 = some pages) :=
  paginate_continues exDoc
    (by simp [exDoc, Witness.mkDoc, GoodDeep, GoodDeepList, Witness.flow, Witness.floated, Witness.absolute,
      Witness.st0])
    100 _ _ rfl 40 pages h

end Wp.PMO.C01Oof
