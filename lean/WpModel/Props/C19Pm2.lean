/-
C19 (determinism) corollaries of the pagination model: layout does not depend on box ids, a successful
pagination does not depend on the fuel, a page is a function of the page-maker state.
-/
import WpModel.Lemmas.Pm2Renumber
import WpModel.Props.C02Pm2
import WpModel.Props.C01

namespace Wp.C19Pm2
open Wp Wp.PM

/-- **Renumbering commutes with pagination**: for every function `f` on ids, every document (no hypothesis
at all) and every fuel, paginating the renumbered document gives the renumbered pages — same page types,
resume positions, pending breaks, geometry, lines; only the `id` fields differ. -/
theorem paginate_renumber (f : Nat → Nat) (d : Doc) (fuel : Nat) :
    paginate (d.mapIds f) fuel = (paginate d fuel).map (List.map (Page.mapIds f)) := by
  unfold paginate
  have h1 : firstRight (d.mapIds f) = firstRight d := by
    unfold firstRight Doc.mapIds
    simp
  have h2 : boxPageStart (d.mapIds f).root = boxPageStart d.root := boxPageStart_mapIds f d.root
  rw [h1, h2]
  exact makeAllPages_mapIds f d fuel 0 none _ _

/-- **Layout does not depend on box ids**: two documents that differ only by their ids (equal after erasing
all ids) have the same pages up to ids. -/
theorem paginate_ids_irrelevant (d d' : Doc) (fuel : Nat) (h : d.mapIds (fun _ => 0) = d'.mapIds (fun _ => 0)) :
    (paginate d fuel).map (List.map (Page.mapIds (fun _ => 0))) =
      (paginate d' fuel).map (List.map (Page.mapIds (fun _ => 0))) := by
  rw [← paginate_renumber, ← paginate_renumber, h]

/-- Everything but the ids is literally equal: page types, resume positions and pending breaks of the
renumbered document are those of the original. -/
theorem paginate_renumber_types (f : Nat → Nat) (d : Doc) (fuel : Nat) :
    (paginate (d.mapIds f) fuel).map (List.map (fun p => (p.type, p.resume, p.nextPage))) =
      (paginate d fuel).map (List.map (fun p => (p.type, p.resume, p.nextPage))) := by
  rw [paginate_renumber]
  cases paginate d fuel with
  | none => rfl
  | some ps =>
    simp only [Option.map_some, List.map_map]
    rfl

/-- The fuel is irrelevant (every document with `orphans, widows ≥ 1`): see `C02Pm2.paginate_fuel_irrelevant`;
and two successful runs always agree: `C02Pm2.paginate_fuel_deterministic`. -/
theorem paginate_fuel_irrelevant (d : Doc) (hW : WellFormed d.root) (fuel : Nat)
    (hf : 2 * size d.root ≤ fuel) : paginate d fuel = paginate d (2 * size d.root) :=
  C02Pm2.paginate_fuel_irrelevant d hW fuel hf

/-! Non-vacuity: `C01.exDoc` renumbered by `id ↦ 100 - id` (ids no longer in source order). -/
example : (paginate (C01.exDoc.mapIds (fun i => 100 - i)) 50).map
      (fun ps => ps.map (fun p => (p.type.blank, fragLines p.root))) =
    some [(false, [(99, 0), (99, 1)]), (false, [(99, 2)]), (false, [(97, 0), (97, 1)]),
      (false, [(97, 2), (97, 3)]), (true, []), (false, [(95, 0)])] := by decide +kernel

end Wp.C19Pm2
