/-
C17 — "with glyphs that map back through the font's ToUnicode table to its text".  Property theorems
about the glyph → text table (`Model/ToUnicode.lean`), third file of C17.
-/
import WpModel.Lemmas.ToUnicode
import WpModel.Lemmas.Transform

namespace Wp.C17
open Wp Wp.ToUnicode

/-- **Map-back.**  If, over everything drawn with a font, a glyph always stands for the same text
(and agrees with what the table already holds), then after the runs were recorded the glyphs of the
runs decode to exactly the concatenation of their cluster texts. -/
theorem tounicode_maps_back (m : CMap) (pairs : List (Nat × List Nat)) (h : Functional m pairs) :
    decode (recordAll m pairs) (pairs.map (·.1)) = some (pairs.flatMap (·.2)) :=
  decode_of_lookup _ pairs (lookup_recordAll m pairs h)

/-- What decoded before still decodes to the same text after more text was drawn with the font
(entries are never overwritten). -/
theorem tounicode_stable (m : CMap) (pairs : List (Nat × List Nat)) (glyphs text : List Nat)
    (h : decode m glyphs = some text) : decode (recordAll m pairs) glyphs = some text := by
  induction glyphs generalizing text with
  | nil => simpa [decode] using h
  | cons g gs ih =>
    simp only [decode] at h ⊢
    cases hl : lookup m g with
    | none => simp [hl] at h
    | some t =>
      cases hd : decode m gs with
      | none => simp [hl, hd] at h
      | some ts =>
        simp only [hl, hd, Option.some.injEq] at h
        rw [lookup_recordAll_some m pairs g t hl, ih ts hd]
        simp [h]

/-- Decoding is compositional: a text-showing operator split in two decodes to the concatenation. -/
theorem tounicode_concat (m : CMap) (a b x y : List Nat) (ha : decode m a = some x) (hb : decode m b = some y) :
    decode m (a ++ b) = some (x ++ y) := by
  rw [decode_append, ha, hb]

example : Functional [] [(72, [0x48]), (101, [0x65]), (108, [0x6c]), (108, [0x6c]), (111, [0x6f])] := by
  refine ⟨fun p _ t h => by simp [lookup] at h, ?_⟩
  decide

example : decode (recordAll [] [(72, [0x48]), (0xcf3, [0x66, 0x69])]) [72, 0xcf3] = some [0x48, 0x66, 0x69] := by
  decide

/-! ## The transformation matrix applied to a subtree -/

section Transform
open Wp.Transform Wp.Rounded

/-- **The transform-origin is a fixed point** of the matrix of any list of scale / rotate / skew /
translation-free `matrix()` functions: the box is transformed about its origin. -/
theorem transform_origin_fixed (bbx bby bw bh : Rat) (ox oy : Dim) (fns : List Fn)
    (h : ∀ fn ∈ fns, fn.isLinear = true) :
    (transformationMatrix bbx bby bw bh ox oy fns).apply (bbx + percentage ox bw) (bby + percentage oy bh) =
      (bbx + percentage ox bw, bby + percentage oy bh) := by
  unfold transformationMatrix
  simp only []
  rw [M.apply_mul]
  have h0 : (M.translation (-(bbx + percentage ox bw)) (-(bby + percentage oy bh))).apply
      (bbx + percentage ox bw) (bby + percentage oy bh) = (0, 0) := by
    simp only [M.apply, M.translation]; apply Prod.ext <;> simp only <;> grind
  rw [h0, fold_apply_zero bw bh fns _ h]
  simp only [M.apply, M.translation]; apply Prod.ext <;> simp only <;> grind

/-- **Translations do not depend on the origin**: a list of `translate()` functions gives the pure
translation by the sum of the offsets (percentages of the border box). -/
theorem transform_translate_only (bbx bby bw bh : Rat) (ox oy : Dim) (fns : List Fn)
    (h : ∀ fn ∈ fns, fn.isTranslate = true) :
    transformationMatrix bbx bby bw bh ox oy fns =
      M.translation (shift bw bh fns).1 (shift bw bh fns).2 := by
  unfold transformationMatrix
  simp only []
  rw [fold_translate bw bh fns _ _ h]
  apply M.ext' <;> simp [M.mul, M.translation] <;> grind

/-- **The determinant** — whose vanishing makes `draw_stacking_context` paint nothing of the subtree —
is the product of the determinants of the functions: neither the origin nor translations matter. -/
theorem transform_determinant (bbx bby bw bh : Rat) (ox oy : Dim) (fns : List Fn) :
    (transformationMatrix bbx bby bw bh ox oy fns).det =
      fns.foldl (fun p fn => (fnMatrix bw bh fn).det * p) 1 := by
  unfold transformationMatrix
  simp only []
  rw [M.det_mul, fold_det]
  have h1 : (M.translation (-(bbx + percentage ox bw)) (-(bby + percentage oy bh))).det = 1 := by
    simp [M.det, M.translation] <;> grind
  have h2 : (M.translation (bbx + percentage ox bw) (bby + percentage oy bh)).det = 1 := by
    simp [M.det, M.translation] <;> grind
  rw [h1, h2, Rat.one_mul]

/-- Applying the matrix of a composition is applying the matrices one after the other. -/
theorem transform_compose (p q : M) (x y : Rat) :
    (p.mul q).apply x y = q.apply (p.apply x y).1 (p.apply x y).2 := M.apply_mul p q x y

example : (transformationMatrix 10 20 100 50 ⟨50, true⟩ ⟨50, true⟩ [.scale 2 3]).apply 60 45 = (60, 45) := by
  decide +kernel
example : (transformationMatrix 10 20 100 50 ⟨50, true⟩ ⟨50, true⟩ [.scale 0 3]).det = 0 := by
  decide +kernel
example : transformationMatrix 10 20 100 50 ⟨50, true⟩ ⟨0, false⟩ [.translate ⟨1001, false⟩ ⟨0, false⟩] =
    M.translation 1001 0 := by decide +kernel

end Transform

end Wp.C17
