/-
C03 (geometry) for PM stage 2c: every line of every page ends above the bottom of the page area, unless it is
the first line of the first content placed on an empty page or the first line of a column box — for ALL documents
of the extended grammar (any columns, `column-span: all` children included, any break values, fixed heights,
nested blocks, the second layout with a larger bottom space, `find_earlier_page_break`) whose decorations are not
negative: `DecoOk` = stage-1 `PStyle.DecoOk` in paragraphs and blocks, and for a container only
`padding-bottom + border-bottom ≥ 0` (always true in CSS).  Until the repair 94e08d4 the theorem also needed
`margin-bottom + padding-bottom + border-bottom ≥ 0` on every container (the second layout of `block_box_layout`
could shrink the bottom space); that hypothesis is gone: `paginate_line_fits` is the full-strength statement, and
`Witness.C01Col.container_negative_margin_fits` is the regression theorem on the former counterexample.

`container_after_span_fits` is the strict complement for the exemption "first line of a column box": a column box
that follows a spanning block in the same container fragment was laid out with `page_is_empty = False`, so ALL its
lines fit, the first one included (the class of the seeded change C03-2: `columns_layout` no longer clearing
`page_is_empty` after a spanning block).

`paginate_after_span_fits` lifts it to every page of a paginated document (`strictLines`: the whole fragment tree,
`Lemmas/ColGeoPage.lean`), and `afterSpan_not_exempt` shows that the collected lines really carry no exemption
(unless a container is nested inside the column).  Together they are the theorem form of the geometry oracle
`pm_col_corr.geometry_violation` ("a line below the page bottom is first on its page, or first in a column of a
group before which nothing was placed").

`lh` maps a paragraph id to its line height (paragraph fragments do not record it); `LhOk lh box` says it agrees
with the source — any document with distinct paragraph ids has such an `lh`.
-/
import WpModel.Lemmas.ColGeo
import WpModel.Lemmas.ColGeoStrict
import WpModel.Lemmas.ColGeoFirst
import WpModel.Lemmas.ColGeoPage

namespace Wp.C03GeoCol
open Wp Wp.PM Wp.PMC

/-- **Line fits, whole layout.** -/
theorem layout_line_fits (lh : Nat → Rat) (box : ColBox) (hd : PMC.DecoOk box) (hl : LhOk lh box) (c : CCtx)
    (idx : Nat) (y bs : Rat) (skip : Option Resume) (cb pie : Bool) (adjL : List Rat) (f : CFrag)
    (hf : (PMC.layoutBox c box idx y bs skip cb pie adjL).frag = some f) :
    ∀ l ∈ PMC.placedLines lh f pie, l.exempt = true ∨ c.overflowsPage bs (l.y + l.lineH) = false :=
  (PMC.box_fits lh box hd hl c idx y bs skip cb pie adjL f hf).1

/-- Each column box of a container, taken alone: its lines fit above the bottom space it was given (at least the
container's), the first one excepted. -/
theorem column_line_fits (lh : Nat → Rat) (kids : List ColBox) (hd : PMC.DecoOkList kids) (hl : LhOkList lh kids)
    (c : CCtx) (st : PStyle) (flags : List Bool) (a skipIdx : Nat) (bs : Rat) (pie : Bool) (s : PMC.KidsLoop)
    (hs : s.newChildren = []) :
    ∀ l ∈ PMC.placedList lh (PMC.layoutKids c st kids flags 0 skipIdx a bs pie s).children true,
      l.exempt = true ∨ c.overflowsPage bs (l.y + l.lineH) = false :=
  PMC.linesOk_placedList_anyPie lh c bs _ pie
    (PMC.kids_fits lh kids hd hl c st flags 0 skipIdx a bs pie s (by rw [hs]; exact PMC.linesOk_nil c bs))

theorem decoOk_emptyRoot (b : ColBox) (h : PMC.DecoOk b) : PMC.DecoOk (PMC.emptyRoot b) := by
  cases b with
  | para id n lh st => simpa [PMC.emptyRoot, PMC.DecoOk] using h
  | block id st kids =>
    simp only [PMC.DecoOk] at h
    simp [PMC.emptyRoot, PMC.DecoOk, PMC.DecoOkList, h.1]
  | columns id st cs flags kids =>
    simp only [PMC.DecoOk] at h
    simp [PMC.emptyRoot, PMC.DecoOk, PMC.DecoOkList, h.1]

theorem lhOk_emptyRoot (lh : Nat → Rat) (b : ColBox) (h : LhOk lh b) : LhOk lh (PMC.emptyRoot b) := by
  cases b with
  | para id n l st => simpa [PMC.emptyRoot, LhOk] using h
  | block id st kids => simp [PMC.emptyRoot, LhOk, LhOkList]
  | columns id st cs flags kids => simp [PMC.emptyRoot, LhOk, LhOkList]

/-- **Line fits, one page** (`remake_page`): every line ends above the page bottom (`pageH`, with the layout's
fudge factor `1 + 10⁻⁹`) or is exempt. -/
theorem remakePage_line_fits (lh : Nat → Rat) (d : CDoc) (hd : PMC.DecoOk d.root) (hl : LhOk lh d.root) (index : Nat)
    (resume : Option Resume) (np : NextPage) (right : Bool) (p : CPage)
    (hp : PMC.remakePage d index resume np right = .ok p) :
    ∀ l ∈ PMC.placedLines lh p.root true, l.exempt = true ∨ l.y + l.lineH ≤ d.pageH * (1 + 1 / 1000000000) := by
  unfold PMC.remakePage at hp
  dsimp only at hp
  split at hp
  · cases hp
  · split at hp
    · cases hp
    · rename_i f hfrag
      simp only [PageOut.ok.injEq] at hp
      subst hp
      intro l hlmem
      have hbox : PMC.DecoOk (if isBlank (requestedSide d.rootLtr np.brk) right = true then PMC.emptyRoot d.root
          else d.root) ∧ LhOk lh (if isBlank (requestedSide d.rootLtr np.brk) right = true then PMC.emptyRoot d.root
          else d.root) := by
        split
        · exact ⟨decoOk_emptyRoot _ hd, lhOk_emptyRoot lh _ hl⟩
        · exact ⟨hd, hl⟩
      rcases layout_line_fits lh _ hbox.1 hbox.2 _ 0 0 0 resume false true [] f hfrag l hlmem with h | h
      · left; exact h
      · right
        simp only [CCtx.overflowsPage, overflows, Bool.false_or, decide_eq_false_iff_not] at h
        grind

/-- **Line fits, all pages** of a paginated document. -/
theorem paginate_line_fits (lh : Nat → Rat) (d : CDoc) (hd : PMC.DecoOk d.root) (hl : LhOk lh d.root) (fuel : Nat)
    (pages : List CPage) (h : paginateCol d fuel = .ok pages) :
    ∀ p ∈ pages, ∀ l ∈ PMC.placedLines lh p.root true,
      l.exempt = true ∨ l.y + l.lineH ≤ d.pageH * (1 + 1 / 1000000000) := by
  have key : ∀ (fuel index : Nat) (resume : Option Resume) (np : NextPage) (right : Bool) (pages : List CPage),
      PMC.makeAllPages d fuel index resume np right = .ok pages →
      ∀ p ∈ pages, ∀ l ∈ PMC.placedLines lh p.root true,
        l.exempt = true ∨ l.y + l.lineH ≤ d.pageH * (1 + 1 / 1000000000) := by
    intro fuel
    induction fuel with
    | zero => intro index resume np right pages h; simp [PMC.makeAllPages] at h
    | succ fuel ih =>
      intro index resume np right pages h
      simp only [PMC.makeAllPages] at h
      split at h
      · cases h
      · cases h
      · rename_i p hp
        have hpage := remakePage_line_fits lh d hd hl index resume np right p hp
        split at h
        · simp only [PagesOut.ok.injEq] at h
          subst h
          intro q hq
          simp only [List.mem_singleton] at hq
          subst hq
          exact hpage
        · split at h
          · rename_i ps hps
            simp only [PagesOut.ok.injEq] at h
            subst h
            intro q hq
            rcases List.mem_cons.mp hq with rfl | hq
            · exact hpage
            · exact ih _ _ _ _ ps hps q hq
          · rename_i hne
            exact absurd h (hne pages)
  exact key fuel 0 none _ _ pages h

/-! ### which lines are exempt: the first line of the page, the first line of each column -/

mutual
/-- Number of column boxes in a fragment tree. -/
def columnCount : CFrag → Nat
  | .para _ _ _ _ _ _ => 0
  | .block _ _ _ _ kids => columnCountList kids
  | .cols _ _ _ _ kids => columnCountList kids
  | .column _ _ _ _ kids => 1 + columnCountList kids
def columnCountList : List CFrag → Nat
  | [] => 0
  | f :: fs => columnCount f + columnCountList fs
end

def exemptCount (L : List PlacedLine) : Nat := (L.filter (·.exempt)).length

theorem exemptCount_append (A B : List PlacedLine) : exemptCount (A ++ B) = exemptCount A + exemptCount B := by
  simp [exemptCount]

theorem paraPlaced_exemptCount (pie : Bool) (id : Nat) (lineH : Rat) (lines : List (Nat × Rat)) :
    exemptCount (paraPlaced pie id lineH lines) ≤ (if pie then 1 else 0) := by
  cases lines with
  | nil => simp [paraPlaced, exemptCount]
  | cons a l =>
    cases pie <;> simp [paraPlaced, exemptCount, List.filter_map, Function.comp_def]

mutual
/-- At most one exempt line per column box, plus one for the page when it was empty. -/
theorem placedLines_exemptCount (lh : Nat → Rat) : (f : CFrag) → ∀ (pie : Bool),
    exemptCount (PMC.placedLines lh f pie) ≤ columnCount f + (if pie then 1 else 0)
  | .para id _ _ _ _ lines => by
    intro pie
    simp only [PMC.placedLines, columnCount, Nat.zero_add]
    exact paraPlaced_exemptCount _ _ _ _
  | .block _ _ _ _ kids => by
    intro pie; simp only [PMC.placedLines, columnCount]; exact placedList_exemptCount lh kids pie
  | .cols _ _ _ _ kids => by
    intro pie; simp only [PMC.placedLines, columnCount]; exact placedList_exemptCount lh kids pie
  | .column _ _ _ _ kids => by
    intro pie
    simp only [PMC.placedLines, columnCount]
    have := placedList_exemptCount lh kids true
    simp only [if_true] at this
    split <;> omega
theorem placedList_exemptCount (lh : Nat → Rat) : (fs : List CFrag) → ∀ (pie : Bool),
    exemptCount (PMC.placedList lh fs pie) ≤ columnCountList fs + (if pie then 1 else 0)
  | [] => by intro pie; simp [PMC.placedList, exemptCount, columnCountList]
  | f :: rest => by
    intro pie
    simp only [PMC.placedList, columnCountList, exemptCount_append]
    have h1 := placedLines_exemptCount lh f pie
    have h2 := placedList_exemptCount lh rest false
    simp only [Bool.false_eq_true, if_false, Nat.add_zero] at h2
    omega
end

/-- On a page without column boxes (in particular every page of a stage-1 document) at most one line — the
first — may cross the page bottom; with `k` column boxes at most `k + 1`. -/
theorem page_exempt_bound (lh : Nat → Rat) (p : CPage) :
    exemptCount (PMC.placedLines lh p.root true) ≤ columnCount p.root + 1 := by
  have := placedLines_exemptCount lh p.root true
  simpa using this

/-! ### non-vacuity: a balanced 2-column container with padding, between paragraphs (three pages) -/

def exSt : PStyle :=
  { mt := 0, mb := 0, pt := 0, pb := 0, bt := 0, bb := 0, height := none, minH := 0, maxH := none,
    brkBefore := .auto, brkAfter := .auto, brkInside := .auto, clone := false, page := "", orphans := 1, widows := 1,
    isRoot := false }

def exDoc : CDoc :=
  { pageH := 40, rootLtr := true,
    root := .block 9 { exSt with isRoot := true } [.block 8 exSt
      [.para 1 3 10 exSt,
       .columns 4 { exSt with mt := 5, pb := 2, bb := 1 } { count := 2, balance := true, ltr := true, width := 192 }
         [false, true, false]
         [.para 2 6 10 exSt, .para 6 1 10 exSt, .para 3 2 10 { exSt with mt := 4 }],
       .para 5 2 10 exSt]] }

example : PMC.DecoOk exDoc.root ∧ LhOk (fun _ => 10) exDoc.root := by
  constructor
  · simp only [exDoc, exSt, PMC.DecoOk, PMC.DecoOkList, PStyle.DecoOk]
    decide +kernel
  · simp [exDoc, LhOk, LhOkList]

/-- (page, paragraph, line, top, exempt) of every placed line: the container has a span child here. -/
example : (match paginateCol exDoc 30 with
    | .ok ps => ps.map (fun (p : CPage) =>
        (PMC.placedLines (fun _ => 10) p.root true).map fun (l : PlacedLine) => (l.para, l.line, l.y, l.exempt))
    | _ => []) =
    [[(1, 0, 0, true), (1, 1, 10, false), (1, 2, 20, false)],
     [(2, 0, 0, true), (2, 1, 10, false), (2, 2, 20, false), (2, 3, 0, true), (2, 4, 10, false), (2, 5, 20, false),
      (6, 0, 30, false)],
     [(3, 0, 4, true), (3, 1, 0, true), (5, 0, 17, false), (5, 1, 27, false)]] := by
  decide +kernel

/-! ### no exemption for the columns that follow a spanning block -/

/-- **Columns after a spanning block fit entirely.** For every `block_level_layout` call on a multi-column
container (any columns, spans, heights, break values; `DecoOk` as above): in the returned fragment, every line of
every column box that comes after a spanning block ends above `pageBottom − bs` — `afterSpan` marks none of them
exempt. -/
theorem container_after_span_fits (lh : Nat → Rat) (id : Nat) (st : PStyle) (cs : ColSpec) (flags : List Bool)
    (kids : List ColBox) (hd : PMC.DecoOk (.columns id st cs flags kids))
    (hl : LhOk lh (.columns id st cs flags kids))
    (c : CCtx) (idx : Nat) (y bs : Rat) (skip : Option Resume) (cb pie : Bool) (adjL : List Rat) (f : CFrag)
    (hf : (PMC.layoutBox c (.columns id st cs flags kids) idx y bs skip cb pie adjL).frag = some f) :
    ∀ l ∈ PMC.afterSpan lh f.kids false, l.exempt = true ∨ c.overflowsPage bs (l.y + l.lineH) = false :=
  PMC.container_after_span_fits lh id st cs flags kids hd hl c idx y bs skip cb pie adjL f hf

/-- Non-vacuity: a group, a spanning block cut by the page, a group (40px pages).  On page 2 the rest of the
spanning block takes 30px; the two columns after it hold one line each, bottom at 40 = the page bottom, and these
lines are not exempt. -/
def exSpan : CDoc :=
  { pageH := 40, rootLtr := true,
    root := .block 9 { exSt with isRoot := true } [.block 8 exSt
      [.columns 7 exSt { count := 2, balance := true, ltr := true, width := 192 } [false, true, false]
        [.para 6 2 10 exSt,
         .block 5 exSt [.para 1 2 10 exSt, .para 2 4 10 exSt],
         .para 3 4 10 exSt]]] }

example : (match paginateCol exSpan 30 with
    | .ok ps => ps.map (fun (p : CPage) =>
        ((p.root.kids.flatMap CFrag.kids).flatMap fun (f : CFrag) => PMC.afterSpan (fun _ => 10) f.kids false).map
          fun (l : PlacedLine) => (l.para, l.line, l.y + l.lineH, l.exempt))
    | _ => []) = [[], [(3, 0, 40, false), (3, 1, 40, false)], []] := by decide +kernel

/-! ### page level: no exemption for the columns that follow a spanning block -/

/-- **Columns after a spanning block fit entirely, whole layout**: `strictLines` collects, over the whole
fragment tree returned by a `block_level_layout` call, the lines of the column boxes that follow a spanning block
in their container; none of them is marked exempt by its column, and all end above `pageBottom − bs`. -/
theorem layout_after_span_fits (lh : Nat → Rat) (box : ColBox) (hd : PMC.DecoOk box) (hl : LhOk lh box) (c : CCtx)
    (idx : Nat) (y bs : Rat) (skip : Option Resume) (cb pie : Bool) (adjL : List Rat) (f : CFrag)
    (hf : (PMC.layoutBox c box idx y bs skip cb pie adjL).frag = some f) :
    ∀ l ∈ PMC.strictLines lh f, l.exempt = true ∨ c.overflowsPage bs (l.y + l.lineH) = false :=
  PMC.box_page lh box hd hl c idx y bs skip cb pie adjL f hf

/-- One page (`remake_page`). -/
theorem remakePage_after_span_fits (lh : Nat → Rat) (d : CDoc) (hd : PMC.DecoOk d.root) (hl : LhOk lh d.root)
    (index : Nat) (resume : Option Resume) (np : NextPage) (right : Bool) (p : CPage)
    (hp : PMC.remakePage d index resume np right = .ok p) :
    ∀ l ∈ PMC.strictLines lh p.root, l.exempt = true ∨ l.y + l.lineH ≤ d.pageH * (1 + 1 / 1000000000) := by
  unfold PMC.remakePage at hp
  dsimp only at hp
  split at hp
  · cases hp
  · split at hp
    · cases hp
    · rename_i f hfrag
      simp only [PageOut.ok.injEq] at hp
      subst hp
      intro l hlmem
      have hbox : PMC.DecoOk (if isBlank (requestedSide d.rootLtr np.brk) right = true then PMC.emptyRoot d.root
          else d.root) ∧ LhOk lh (if isBlank (requestedSide d.rootLtr np.brk) right = true then PMC.emptyRoot d.root
          else d.root) := by
        split
        · exact ⟨decoOk_emptyRoot _ hd, lhOk_emptyRoot lh _ hl⟩
        · exact ⟨hd, hl⟩
      rcases layout_after_span_fits lh _ hbox.1 hbox.2 _ 0 0 0 resume false true [] f hfrag l hlmem with h | h
      · left; exact h
      · right
        simp only [CCtx.overflowsPage, overflows, Bool.false_or, decide_eq_false_iff_not] at h
        grind

/-- **All pages of a paginated document**: on every page, every line of every column box that follows a spanning
block in its container ends above the page bottom (with the layout's fudge factor) — the first line of such a
column is NOT exempt (`paginate_line_fits` exempts the first line of every column box; here `exempt` can only come
from a container nested inside such a column). -/
theorem paginate_after_span_fits (lh : Nat → Rat) (d : CDoc) (hd : PMC.DecoOk d.root) (hl : LhOk lh d.root)
    (fuel : Nat) (pages : List CPage) (h : paginateCol d fuel = .ok pages) :
    ∀ p ∈ pages, ∀ l ∈ PMC.strictLines lh p.root,
      l.exempt = true ∨ l.y + l.lineH ≤ d.pageH * (1 + 1 / 1000000000) := by
  have key : ∀ (fuel index : Nat) (resume : Option Resume) (np : NextPage) (right : Bool) (pages : List CPage),
      PMC.makeAllPages d fuel index resume np right = .ok pages →
      ∀ p ∈ pages, ∀ l ∈ PMC.strictLines lh p.root,
        l.exempt = true ∨ l.y + l.lineH ≤ d.pageH * (1 + 1 / 1000000000) := by
    intro fuel
    induction fuel with
    | zero => intro index resume np right pages h; simp [PMC.makeAllPages] at h
    | succ fuel ih =>
      intro index resume np right pages h
      simp only [PMC.makeAllPages] at h
      split at h
      · cases h
      · cases h
      · rename_i p hp
        have hpage := remakePage_after_span_fits lh d hd hl index resume np right p hp
        split at h
        · simp only [PagesOut.ok.injEq] at h
          subst h
          intro q hq
          simp only [List.mem_singleton] at hq
          subst hq
          exact hpage
        · split at h
          · rename_i ps hps
            simp only [PagesOut.ok.injEq] at h
            subst h
            intro q hq
            rcases List.mem_cons.mp hq with rfl | hq
            · exact hpage
            · exact ih _ _ _ _ ps hps q hq
          · rename_i hne
            exact absurd h (hne pages)
  exact key fuel 0 none _ _ pages h

/-- Column boxes nested inside the children of the given fragments (containers inside columns). -/
def nestedColumns : List CFrag → Nat
  | [] => 0
  | f :: rest => columnCountList f.kids + nestedColumns rest

/-- **The lines `afterSpan` collects are not exempt**: an exemption can only come from a column box of a container
nested inside the column (at most one line per such nested column box); for a container whose columns hold only
paragraphs and blocks none of the collected lines is exempt. -/
theorem afterSpan_exemptCount (lh : Nat → Rat) : (l : List CFrag) → ∀ (seen : Bool),
    exemptCount (PMC.afterSpan lh l seen) ≤ nestedColumns l
  | [] => by intro seen; simp [PMC.afterSpan, exemptCount, nestedColumns]
  | f :: rest => by
    intro seen
    simp only [PMC.afterSpan, nestedColumns, exemptCount_append]
    have h1 := placedList_exemptCount lh f.kids false
    simp only [Bool.false_eq_true, if_false, Nat.add_zero] at h1
    have h2 := afterSpan_exemptCount lh rest (seen || !f.isColumn)
    split
    · omega
    · simp only [exemptCount, List.filter_nil, List.length_nil] at *
      omega

theorem afterSpan_not_exempt (lh : Nat → Rat) (l : List CFrag) (seen : Bool) (h : nestedColumns l = 0) :
    ∀ p ∈ PMC.afterSpan lh l seen, p.exempt = false := by
  have hc := afterSpan_exemptCount lh l seen
  rw [h] at hc
  intro p hp
  cases he : p.exempt with
  | false => rfl
  | true =>
    have : p ∈ (PMC.afterSpan lh l seen).filter (·.exempt) := List.mem_filter.mpr ⟨hp, he⟩
    have hl : 0 < ((PMC.afterSpan lh l seen).filter (·.exempt)).length := List.length_pos_of_mem this
    simp only [exemptCount] at hc
    omega

/-- Without nested containers nothing is exempt: the lines of a column that follows a spanning block and holds only
paragraphs and blocks are all checked. -/
example : (match paginateCol exSpan 30 with
    | .ok ps => ps.map (fun (p : CPage) =>
        (PMC.strictLines (fun _ => 10) p.root).map fun (l : PlacedLine) => (l.para, l.line, l.y + l.lineH, l.exempt))
    | _ => []) = [[], [(3, 0, 40, false), (3, 1, 40, false)], []] := by decide +kernel

example : PMC.DecoOk exSpan.root ∧ LhOk (fun _ => 10) exSpan.root := by
  constructor
  · simp only [exSpan, exSt, PMC.DecoOk, PMC.DecoOkList, PStyle.DecoOk]
    decide +kernel
  · simp [exSpan, LhOk, LhOkList]

/-! ### a container that is not the first content of its page: no exemption at all -/

/-- **A container laid out with `page_is_empty = False`** (something was placed on the page before it): every line
of every column box of the returned fragment — the first group included — ends above `pageBottom − bs`;
`afterSpan lh kids true` marks none of them exempt (`afterSpan_not_exempt`).  With `container_after_span_fits` this
is the whole of the oracle's rule "the first line of a column may cross the page bottom only if nothing was placed
on the page before its group". -/
theorem container_not_first_fits (lh : Nat → Rat) (id : Nat) (st : PStyle) (cs : ColSpec) (flags : List Bool)
    (kids : List ColBox) (hd : PMC.DecoOk (.columns id st cs flags kids))
    (hl : LhOk lh (.columns id st cs flags kids))
    (c : CCtx) (idx : Nat) (y bs : Rat) (skip : Option Resume) (cb : Bool) (adjL : List Rat) (f : CFrag)
    (hf : (PMC.layoutBox c (.columns id st cs flags kids) idx y bs skip cb false adjL).frag = some f) :
    ∀ l ∈ PMC.afterSpan lh f.kids true, l.exempt = true ∨ c.overflowsPage bs (l.y + l.lineH) = false :=
  PMC.container_not_first_fits lh id st cs flags kids hd hl c idx y bs skip cb adjL f hf

/-- Non-vacuity: a 2-line paragraph, then a container (`margin-top: 5px`) on 40px pages: on page 1 the container
starts at y = 25 with `page_is_empty = False`; its two columns hold one line each, bottom 35, not exempt. -/
def exFirst : CDoc :=
  { pageH := 40, rootLtr := true,
    root := .block 9 { exSt with isRoot := true } [.block 8 exSt
      [.para 1 2 10 exSt,
       .columns 4 { exSt with mt := 5 } { count := 2, balance := true, ltr := true, width := 192 } [false]
         [.para 2 6 10 exSt]]] }

example : (match paginateCol exFirst 30 with
    | .ok ps => (ps.take 1).map (fun (p : CPage) =>
        ((p.root.kids.flatMap CFrag.kids).flatMap fun (f : CFrag) => PMC.afterSpan (fun _ => 10) f.kids true).map
          fun (l : PlacedLine) => (l.para, l.line, l.y + l.lineH, l.exempt))
    | _ => []) = [[(2, 0, 35, false), (2, 1, 35, false)]] := by decide +kernel

end Wp.C03GeoCol
