/-
C14 — the sheet of a page: `size`, `marks`, `bleed` (`Model/PageSheet.lean`, tables regenerated from
`computed_values.PAGE_SIZES` into `Gen/PageSizes.lean`).
-/
import WpModel.Model.PageSheet

namespace Wp.C14
open Wp Wp.PageSheet

/-! ## The generated table -/

/-- Every named page size is in portrait orientation (the source's own `assert`): width < height. -/
theorem named_sizes_portrait : ∀ r ∈ Gen.pageSizes, r.2.1 < r.2.2.1 := by decide +kernel

/-- Names are unique: `PAGE_SIZES` read as a list has the meaning of the dict. -/
theorem named_sizes_unique : (Gen.pageSizes.map (·.1)).Nodup := by decide +kernel

/-- The names, in the order of the table (ISO A, B, C and JIS B from the smallest to the largest, then the three
North-American sizes). -/
theorem named_sizes_names : Gen.pageSizes.map (·.1) =
    ["a10", "a9", "a8", "a7", "a6", "a5", "a4", "a3", "a2", "a1", "a0",
     "b10", "b9", "b8", "b7", "b6", "b5", "b4", "b3", "b2", "b1", "b0",
     "c10", "c9", "c8", "c7", "c6", "c5", "c4", "c3", "c2", "c1", "c0",
     "jis-b10", "jis-b9", "jis-b8", "jis-b7", "jis-b6", "jis-b5", "jis-b4", "jis-b3", "jis-b2", "jis-b1", "jis-b0",
     "letter", "legal", "ledger"] := by decide +kernel

/-- Row `i` is row `i + 1` cut in half (ISO 216 / JIS P 0138): its height is the width of the larger sheet, its
width half the height of the larger sheet rounded down to the millimetre, same unit. -/
def halvesAt (i : Nat) : Bool :=
  match Gen.pageSizes[i]?, Gen.pageSizes[i + 1]? with
  | some (_, w, h, u), some (_, w', h', u') => u == "mm" && u' == "mm" && h == w' && (w : Rat) == ((h' / 2).floor : Int)
  | _, _ => false

/-- **Every ISO A / B / C and JIS B size of the generated table is the next larger one cut in half**, starting from
A0 = 841 × 1189, B0 = 1000 × 1414, C0 = 917 × 1297, JIS B0 = 1030 × 1456 mm: an edit of any of the 44 rows of
`PAGE_SIZES` that is not a real paper size breaks this theorem. -/
theorem iso_series_halving :
    (∀ i ∈ List.range 10, halvesAt i = true) ∧ (∀ i ∈ List.range 10, halvesAt (11 + i) = true) ∧
    (∀ i ∈ List.range 10, halvesAt (22 + i) = true) ∧ (∀ i ∈ List.range 10, halvesAt (33 + i) = true) ∧
    lookupSize "a0" = some (⟨841, some "mm"⟩, ⟨1189, some "mm"⟩) ∧
    lookupSize "b0" = some (⟨1000, some "mm"⟩, ⟨1414, some "mm"⟩) ∧
    lookupSize "c0" = some (⟨917, some "mm"⟩, ⟨1297, some "mm"⟩) ∧
    lookupSize "jis-b0" = some (⟨1030, some "mm"⟩, ⟨1456, some "mm"⟩) := by decide +kernel

/-- The css-page-3 names (A5, A4, A3, B5, B4, JIS-B5, JIS-B4, letter, legal, ledger) with their dimensions. -/
theorem css_page_3_sizes :
    lookupSize "a5" = some (⟨148, some "mm"⟩, ⟨210, some "mm"⟩) ∧ lookupSize "a4" = some (⟨210, some "mm"⟩, ⟨297, some "mm"⟩) ∧
    lookupSize "a3" = some (⟨297, some "mm"⟩, ⟨420, some "mm"⟩) ∧ lookupSize "b5" = some (⟨176, some "mm"⟩, ⟨250, some "mm"⟩) ∧
    lookupSize "b4" = some (⟨250, some "mm"⟩, ⟨353, some "mm"⟩) ∧
    lookupSize "jis-b5" = some (⟨182, some "mm"⟩, ⟨257, some "mm"⟩) ∧
    lookupSize "jis-b4" = some (⟨257, some "mm"⟩, ⟨364, some "mm"⟩) ∧
    lookupSize "letter" = some (⟨17 / 2, some "in"⟩, ⟨11, some "in"⟩) ∧
    lookupSize "legal" = some (⟨17 / 2, some "in"⟩, ⟨14, some "in"⟩) ∧
    lookupSize "ledger" = some (⟨11, some "in"⟩, ⟨17, some "in"⟩) ∧
    initialPageSize = lookupSize "a4" := by decide +kernel

/-- The absolute units are the CSS ones: 1in = 96px = 72pt = 6pc = 2.54cm = 25.4mm = 101.6q. -/
theorem absolute_units :
    Gen.absoluteUnits = [("px", 1), ("pt", 96 / 72), ("pc", 96 / 6), ("in", 96), ("cm", 96 * 100 / 254),
                         ("mm", 96 * 10 / 254), ("q", 96 * 10 / 1016)] := by decide +kernel

/-! ## `size` -/

/-- One non-negative length: a square sheet.  Two: width × height.  (For every token list.) -/
theorem size_one_length (t : STok) (d : SDim) (h : getLength false t = some d) : sizeValidate [t] = some (d, d) := by
  simp [sizeValidate, sizeByLengths, h]

theorem size_two_lengths (t1 t2 : STok) (d1 d2 : SDim) (h1 : getLength false t1 = some d1)
    (h2 : getLength false t2 = some d2) : sizeValidate [t1, t2] = some (d1, d2) := by
  simp [sizeValidate, sizeByLengths, h1, h2]

/-- More than two component values are never a valid `size`. -/
theorem size_three_invalid (t1 t2 t3 : STok) (rest : List STok) : sizeValidate (t1 :: t2 :: t3 :: rest) = none := by
  have hl : ∀ (a b c : Option SDim) (r : List (Option SDim)), sizeByLengths (a :: b :: c :: r) = none := by
    intro a b c r; unfold sizeByLengths; split
    · cases a <;> cases b <;> rfl
    · rfl
  simp only [sizeValidate, List.map_cons, hl]
  rfl

private theorem getLength_ident (neg : Bool) (s : String) : getLength neg (.ident s) = none := rfl

/-- A page-size name alone is the named size in portrait orientation. -/
theorem size_name (n : String) (sz : SDim × SDim) (h : lookupSize n = some sz) :
    sizeValidate [.ident n] = some sz := by
  simp [sizeValidate, sizeByLengths, sizeByKeywords, getLength_ident, getKeyword, h]

/-- **`landscape` exchanges width and height of what `portrait` gives, for every keyword `n` (valid or not),
in either order of the two keywords.** -/
theorem size_landscape_swaps (n : String) (hn : n ≠ "portrait" ∧ n ≠ "landscape") :
    sizeValidate [.ident n, .ident "landscape"] = (sizeValidate [.ident n, .ident "portrait"]).map (fun p => (p.2, p.1)) ∧
    sizeValidate [.ident "landscape", .ident n] = sizeValidate [.ident n, .ident "landscape"] ∧
    sizeValidate [.ident "portrait", .ident n] = sizeValidate [.ident n, .ident "portrait"] := by
  have h0 : isOrientation (some n) = false := by simp [isOrientation, hn.1, hn.2]
  have hp : isOrientation (some "portrait") = true := by decide
  have hl : isOrientation (some "landscape") = true := by decide
  refine ⟨?_, ?_, ?_⟩ <;>
    (simp only [sizeValidate, sizeByLengths, sizeByKeywords, List.map_cons, List.map_nil, getLength_ident, getKeyword, List.all_cons, Option.isSome_none,
      Bool.false_and, Bool.false_eq_true, ↓reduceIte, h0, hp, hl, Option.bind_some]
     try (cases lookupSize n <;> simp))

/-- A named size with an orientation: portrait is the table entry, landscape has the longer side horizontal. -/
theorem size_name_orientation (n : String) (w h : SDim) (hn : n ≠ "portrait" ∧ n ≠ "landscape")
    (hl : lookupSize n = some (w, h)) :
    sizeValidate [.ident n, .ident "portrait"] = some (w, h) ∧ sizeValidate [.ident n, .ident "landscape"] = some (h, w) := by
  have h0 : isOrientation (some n) = false := by simp [isOrientation, hn.1, hn.2]
  have hp : isOrientation (some "portrait") = true := by decide
  have hl' : isOrientation (some "landscape") = true := by decide
  constructor <;>
    simp [sizeValidate, sizeByLengths, sizeByKeywords, getLength_ident, getKeyword, h0, hp, hl', hl]

/-- `auto` and `portrait` are the initial A4 sheet, `landscape` its rotation. -/
theorem size_auto :
    sizeValidate [.ident "auto"] = lookupSize "a4" ∧ sizeValidate [.ident "portrait"] = lookupSize "a4" ∧
    sizeValidate [.ident "landscape"] = (lookupSize "a4").map (fun p => (p.2, p.1)) := by decide +kernel

/-- Negative lengths and percentages are never accepted in `size`. -/
theorem size_rejects_negative_and_percent (v : Rat) (u : String) (hv : v < 0) (p : Rat) :
    sizeValidate [.dim v u] = none ∧ sizeValidate [.pct p] = none := by
  have : ¬ (v ≥ 0) := by grind
  simp [sizeValidate, sizeByLengths, sizeByKeywords, getLength, getKeyword, this]

/-- The computed size in CSS pixels: `a5 landscape` is 210mm × 148mm = 793.70… × 559.37… px. -/
example : (sizeValidate [.ident "a5", .ident "landscape"]).map (sizeComputed 16 16) =
    some (.px (210 * 960 / 254), .px (148 * 960 / 254)) := by decide +kernel

/-- An absolute length computes to `value × LENGTHS_TO_PIXELS[unit]`, independently of the font sizes. -/
theorem compute_absolute (fs rfs fs' rfs' v f : Rat) (u : String) (h : Gen.absoluteUnits.find? (fun r => r.1 == u) = some (u, f)) :
    computeLength fs rfs ⟨v, some u⟩ = computeLength fs' rfs' ⟨v, some u⟩ ∧
    (v ≠ 0 → u ≠ "px" → computeLength fs rfs ⟨v, some u⟩ = .px (v * f)) := by
  constructor
  · simp only [computeLength, h]
  · intro hv hu
    simp [computeLength, hv, hu, h]

/-! ## `marks` and `bleed` -/

/-- `marks` is valid exactly for `none`, `crop`, `cross` and the two orders of `crop cross`. -/
theorem marks_valid_iff (toks : List STok) (l : List String) :
    marksValidate toks = some l ↔
      (toks = [.ident "none"] ∧ l = []) ∨ (toks = [.ident "crop"] ∧ l = ["crop"]) ∨
      (toks = [.ident "cross"] ∧ l = ["cross"]) ∨ (toks = [.ident "crop", .ident "cross"] ∧ l = ["crop", "cross"]) ∨
      (toks = [.ident "cross", .ident "crop"] ∧ l = ["cross", "crop"]) := by
  have hk : ∀ (t : STok) (k : String), getKeyword t = some k ↔ t = .ident k := by
    intro t k; cases t <;> simp [getKeyword]
  constructor
  · intro h
    match toks with
    | [] => simp [marksValidate] at h
    | [a] =>
      simp only [marksValidate] at h
      split at h
      · rename_i hc; cases h; exact Or.inr (Or.inl ⟨by rw [(hk a "crop").mp hc], rfl⟩)
      · rename_i hc; cases h; exact Or.inr (Or.inr (Or.inl ⟨by rw [(hk a "cross").mp hc], rfl⟩))
      · rename_i hc; cases h; exact Or.inl ⟨by rw [(hk a "none").mp hc], rfl⟩
      · cases h
    | [a, b] =>
      simp only [marksValidate] at h
      split at h
      · rename_i hc
        simp only [List.contains_cons, List.contains_nil, Bool.or_false, Bool.and_eq_true, Bool.or_eq_true,
          beq_iff_eq] at hc
        obtain ⟨h1, h2⟩ := hc
        have h1 := h1.imp Eq.symm Eq.symm
        have h2 := h2.imp Eq.symm Eq.symm
        have e1 : ∀ t : STok, getKeyword t = some "crop" → getKeyword t = some "cross" → False := by
          intro t x y; rw [x] at y; simp at y
        rcases h1 with h1 | h1 <;> rcases h2 with h2 | h2
        · exact absurd h2 (fun y => e1 a h1 y)
        · have ha := (hk a "crop").mp h1; have hb := (hk b "cross").mp h2
          subst ha; subst hb
          simp only [getKeyword, List.filterMap_cons, id, List.filterMap_nil, Option.some.injEq] at h
          exact Or.inr (Or.inr (Or.inr (Or.inl ⟨rfl, h.symm⟩)))
        · have ha := (hk a "cross").mp h2; have hb := (hk b "crop").mp h1
          subst ha; subst hb
          simp only [getKeyword, List.filterMap_cons, id, List.filterMap_nil, Option.some.injEq] at h
          exact Or.inr (Or.inr (Or.inr (Or.inr ⟨rfl, h.symm⟩)))
        · exact absurd h2 (fun y => e1 b h1 y)
      · cases h
    | _ :: _ :: _ :: _ => simp [marksValidate] at h
  · rintro (⟨rfl, rfl⟩ | ⟨rfl, rfl⟩ | ⟨rfl, rfl⟩ | ⟨rfl, rfl⟩ | ⟨rfl, rfl⟩) <;> decide

/-- css-page-3: the computed value of `bleed: auto` is 6pt (8px) **exactly when `marks` contains `crop`**, otherwise
zero — whatever else `marks` contains and whatever the font sizes. -/
theorem bleed_auto (marks : List String) (fs rfs : Rat) :
    bleedComputed marks fs rfs .auto = .px (if "crop" ∈ marks then 8 else 0) := by
  simp only [bleedComputed]
  congr 1
  by_cases h : "crop" ∈ marks <;> simp [h]

/-- Registration crosses alone need no bleed (the input of seeded change C14-4). -/
example : bleedComputed ["cross"] 16 16 .auto = .px 0 ∧ bleedComputed ["cross", "crop"] 16 16 .auto = .px 8 := by
  decide +kernel

/-- A length for `bleed` does not depend on `marks`. -/
theorem bleed_length (m1 m2 : List String) (fs rfs : Rat) (d : SDim) :
    bleedComputed m1 fs rfs (.len d) = bleedComputed m2 fs rfs (.len d) := rfl

/-- 6pt is 8px in the generated unit table (the constant 8 of `computed_values.bleed` is the spec's 6pt). -/
example : computeLength 16 16 ⟨6, some "pt"⟩ = .px 8 := by decide +kernel

/-! ## The sheet of one rule -/

/-- An invalid `size` leaves the initial A4 sheet; an invalid `marks` leaves none; an invalid `bleed` leaves the
user-agent value. -/
theorem sheet_invalid_declarations (fs rfs : Rat) (ua : Rat) (size marks bleed : List STok)
    (hs : sizeValidate size = none) (hm : marksValidate marks = none) (hb : bleedValidate bleed = none) :
    sheetOf fs rfs (some ua) (some size) (some marks) (some bleed) = sheetOf fs rfs (some ua) none none none := by
  simp [sheetOf, hs, hm, hb]

example : sheetOf 16 16 (some 0) none none none =
    { width := .px (210 * 960 / 254), height := .px (297 * 960 / 254), bleed := .px 0, marks := [] } := by
  decide +kernel

end Wp.C14
