/-
C10 — from the source to the pages: the two models of the table pipeline composed.
`Model/TableGroupOrder` (↔ `wrap_table`, `formatting_structure/build.py`: which row groups are header,
footer, bodies) feeds `Model/TablePages` (↔ `table_layout`, `layout/table.py`: `group_layout`,
`body_groups_layout`, `all_groups_layout` and the page loop).  The clause "when a table breaks across pages
each body row appears once" is stated on the *source* row groups, for every list of groups, every
assignment of `display` kinds and every sequence of pages.
-/
import WpModel.Props.C10Pages
import WpModel.Props.C10Groups

namespace Wp.C10Document
open Wp Wp.TablePages Wp.TableGroups Wp.C10.Pages

/-- The group `table_layout` finds at source index `j` (an index that `wrap_table` produced is always
in range; the empty group stands for "no such group"). -/
def groupAt (groups : List PGroup) (j : Nat) : PGroup := groups.getD j ⟨[], .auto, .auto, .auto⟩

/-- The table as `table_layout` receives it from `wrap_table`: `table.children[0]` is the header when
there is one, `table.children[-1]` the footer, the other groups — in the order `wrap_table` left them —
are the body groups. -/
def mkTable (sp : Rat) (inside : Brk) (groups : List PGroup) (kinds : List GKind) : PTable :=
  ⟨sp, inside, (split kinds).header.map (groupAt groups), (split kinds).footer.map (groupAt groups),
   (split kinds).bodies.map (groupAt groups)⟩

private theorem indexed_map_fst (i : Nat) (rs : List PRow) :
    (indexed i rs).map (·.1) = List.range' i rs.length := by
  induction rs generalizing i with
  | nil => rfl
  | cons r rs ih => simp [indexed, ih, List.range'_succ]

/-- The rows of the source groups `idxs`, `(source group, row)`, each once, in order. -/
def sourceRows (groups : List PGroup) (idxs : List Nat) : List (Nat × Nat) :=
  idxs.flatMap (fun j => (List.range (groupAt groups j).rows.length).map (fun r => (j, r)))

private theorem remainingGroups_source (groups : List PGroup) (pre l : List Nat) :
    (remainingGroups pre.length (l.map (groupAt groups)) none).map
        (fun p => ((pre ++ l).getD p.1 0, p.2)) = sourceRows groups l := by
  induction l generalizing pre with
  | nil => simp [remainingGroups, sourceRows]
  | cons j l ih =>
    simp only [List.map_cons, remainingGroups, List.map_append, List.map_map, sourceRows, List.flatMap_cons]
    congr 1
    · have hget : (pre ++ j :: l).getD pre.length 0 = j := by simp
      have : (groupRemaining (groupAt groups j) ((none : Option Nat).getD 0)).map (·.1) =
          List.range (groupAt groups j).rows.length := by
        simp [groupRemaining, indexed_map_fst, List.range_eq_range']
      rw [← this, List.map_map]
      apply List.map_congr_left
      intro p _
      simp [hget]
    · have := ih (pre ++ [j])
      simp only [List.length_append, List.length_singleton, List.append_assoc, List.singleton_append] at this
      exact this

/-- **document_rows_once.**  From the source to the pages, across `wrap_table` and `table_layout`: take
any row groups with any `display` kinds (several `thead` / `tfoot` included), let `wrap_table` pick the
header and the footer, and let the page loop finish the table over *any* sequence of pages.  Then the
body rows of the fragments, read in order and traced back to their source group, are exactly the rows
of every group that is not the first `table-header-group` / the first `table-footer-group`, each once, in
source order; header, footer and these groups together are all the groups of the table, each once. -/
theorem document_rows_once (sp : Rat) (inside : Brk) (groups : List PGroup) (kinds : List GKind)
    (attempts : List Attempt) (fs : List Fragment)
    (h : paginate (mkTable sp inside groups kinds) none attempts = .ok (fs, true)) :
    (fs.flatMap fragRows).map (fun p => ((split kinds).bodies.getD p.1 0, p.2)) =
      sourceRows groups (split kinds).bodies ∧
    (split kinds).bodies.Pairwise (· < ·) ∧
    (split kinds).header = kinds.idxOf? GKind.header ∧ (split kinds).footer = kinds.idxOf? GKind.footer ∧
    (layoutOrder (split kinds)).Perm (List.range kinds.length) := by
  refine ⟨?_, C10Groups.bodies_in_source_order kinds, C10Groups.header_is_first kinds,
    C10Groups.footer_is_first kinds, C10Groups.groups_once kinds⟩
  rw [rows_once_table _ attempts fs h]
  have := remainingGroups_source groups [] (split kinds).bodies
  simpa [allRows, remaining, mkTable] using this


private def r10 : PRow := ⟨10, .auto, .auto⟩
private def grp (n : Nat) : PGroup := ⟨List.replicate n r10, .auto, .auto, .auto⟩
private def page40 : Attempt := ⟨40, 0, 0, true⟩

/-- Non-vacuity: `thead` (1 row), `tbody` (3 rows), `tfoot` (1 row), a second `tfoot` (2 rows), rows 10px
high on 40px pages: the page loop finishes the table in three fragments, each with header and footer,
showing the rows of source group 1 and then those of source group 3 (the second `tfoot`, a body group),
each once. -/
example :
    (paginate (mkTable 0 .auto [grp 1, grp 3, grp 1, grp 2] [.header, .body, .footer, .footer]) none
        [page40, page40, page40, page40]).toOption.map (fun r => r.1.map fragRows) =
      some [[(0, 0), (0, 1)], [(0, 2), (1, 0)], [(1, 1)]] ∧
    (paginate (mkTable 0 .auto [grp 1, grp 3, grp 1, grp 2] [.header, .body, .footer, .footer]) none
        [page40, page40, page40, page40]).toOption.map
      (fun r => (r.1.all (fun (f : Fragment) => f.header && f.footer), r.2)) = some (true, true) ∧
    sourceRows [grp 1, grp 3, grp 1, grp 2] (split [.header, .body, .footer, .footer]).bodies =
      [(1, 0), (1, 1), (1, 2), (3, 0), (3, 1)] := by
  refine ⟨by decide +kernel, by decide +kernel, by decide +kernel⟩

end Wp.C10Document
