/-
C04 — Break controls are honoured.  Property theorems only (helper lemmas are `private` and local).
All statements are over `Wp.step / resolve / forces / avoids`, whose tables are regenerated from
/repo/weasyprint/layout/block.py on every run: an edit of the source table re-checks (and may break)
every `decide` below.
-/
import WpModel.Model.Break
import WpModel.Lemmas.ParaLines

namespace Wp.C04
open Wp

/-- Strength of a break value (css-break-3 §3.1 / css-page-3 "allowed page breaks"):
sides > page > column > avoid > avoid-page > avoid-column > auto. -/
def rank : Brk → Nat
  | .auto => 0 | .avoidColumn => 1 | .avoidPage => 2 | .avoid => 3
  | .column => 4 | .page => 5
  | .left => 6 | .right => 6 | .recto => 6 | .verso => 6

def isSide (v : Brk) : Bool := rank v == 6

/-- Characterisation of the *source table*: a later value replaces the current result iff it is a
side value or strictly stronger. -/
theorem step_rank (r v : Brk) : step r v = if isSide v || rank v > rank r then v else r := by
  cases r <;> cases v <;> decide

/-- The AST-extracted table and the graph obtained by calling the real function agree. -/
theorem graph2_agrees : ∀ e ∈ Gen.graph2, resolve [e.1, e.2.1] = e.2.2 := by decide

theorem avoid_graph_agrees : ∀ e ∈ Gen.avoidGraph, avoids e.2.1 e.1 = e.2.2 := by decide
theorem force_graph_agrees : ∀ e ∈ Gen.forceGraph, forces e.2.1 e.1 = e.2.2 := by decide

/-- `forces` and `avoids` are thresholds of `rank`. -/
theorem forces_iff_rank (c : Bool) (v : Brk) :
    forces c v = decide (rank v ≥ (if c then 4 else 5)) := by
  cases c <;> cases v <;> decide

theorem avoids_iff_rank (c : Bool) (v : Brk) :
    avoids c v = decide ((if c then 1 else 2) ≤ rank v ∧ rank v ≤ 3) := by
  cases c <;> cases v <;> decide

private theorem rank_step (r v : Brk) : rank (step r v) = max (rank r) (rank v) := by
  cases r <;> cases v <;> decide

private theorem rank_foldl (vs : List Brk) (r : Brk) :
    rank (vs.foldl step r) = vs.foldl (fun m v => max m (rank v)) (rank r) := by
  induction vs generalizing r with
  | nil => rfl
  | cons v vs ih => simp only [List.foldl_cons, ih, rank_step]

private theorem foldl_max_ge (vs : List Brk) (m : Nat) :
    m ≤ vs.foldl (fun m v => max m (rank v)) m ∧
    ∀ v ∈ vs, rank v ≤ vs.foldl (fun m v => max m (rank v)) m := by
  induction vs generalizing m with
  | nil => simp
  | cons x xs ih =>
    simp only [List.foldl_cons, List.mem_cons]
    have h := ih (max m (rank x))
    constructor
    · exact Nat.le_trans (Nat.le_max_left _ _) h.1
    · intro v hv
      cases hv with
      | inl e => subst e; exact Nat.le_trans (Nat.le_max_right _ _) h.1
      | inr hm => exact h.2 v hm

private theorem foldl_max_le (vs : List Brk) (m b : Nat) (hm : m ≤ b) (h : ∀ v ∈ vs, rank v ≤ b) :
    vs.foldl (fun m v => max m (rank v)) m ≤ b := by
  induction vs generalizing m with
  | nil => simpa
  | cons x xs ih =>
    simp only [List.foldl_cons]
    apply ih
    · exact Nat.max_le.mpr ⟨hm, h x (by simp)⟩
    · intro v hv; exact h v (by simp [hv])

/-- (c) the strongest value among all boxes meeting at a point wins, for value sequences of any
length: the rank of the result is the maximum rank. -/
theorem resolve_rank_ge (vs : List Brk) : ∀ v ∈ vs, rank v ≤ rank (resolve vs) := by
  intro v hv
  unfold resolve
  rw [rank_foldl]
  exact (foldl_max_ge vs _).2 v hv

theorem resolve_rank_le (vs : List Brk) (b : Nat) (h : ∀ v ∈ vs, rank v ≤ b) :
    rank (resolve vs) ≤ b := by
  unfold resolve
  rw [rank_foldl]
  exact foldl_max_le vs _ b (by simp [rank]) h

private theorem foldl_mem (vs : List Brk) (r : Brk) : vs.foldl step r = r ∨ vs.foldl step r ∈ vs := by
  induction vs generalizing r with
  | nil => simp
  | cons v vs ih =>
    simp only [List.foldl_cons, List.mem_cons]
    rcases ih (step r v) with h | h
    · rw [h]
      have : step r v = r ∨ step r v = v := by
        unfold step; split <;> simp
      rcases this with e | e
      · left; exact e
      · right; left; exact e
    · right; right; exact h

/-- The result is one of the values that met (or `auto`). -/
theorem resolve_mem (vs : List Brk) : resolve vs = .auto ∨ resolve vs ∈ vs := foldl_mem vs .auto

/-- (a)+(c) a forced break anywhere in the sequence forces the result, in both contexts
(inside / outside a multi-column container), for sequences of any length. -/
theorem forced_wins (c : Bool) (vs : List Brk) (h : ∃ v ∈ vs, forces c v = true) :
    forces c (resolve vs) = true := by
  obtain ⟨v, hv, hf⟩ := h
  rw [forces_iff_rank] at hf ⊢
  have := resolve_rank_ge vs v hv
  simp only [decide_eq_true_eq] at hf ⊢
  omega

/-- (d) if nothing forces a break and some box asks to avoid it, the result avoids it.
Hypothesis `hcol`: outside a multi-column container no `column` value is present (a `column` value
does not force a break there but still outranks `avoid` in the source table: see
`Witness.C04.column_hides_avoid`). -/
theorem avoid_wins_partial (c : Bool) (vs : List Brk)
    (hno : ∀ v ∈ vs, forces c v = false) (hcol : c = false → ∀ v ∈ vs, v ≠ .column)
    (h : ∃ v ∈ vs, avoids c v = true) : avoids c (resolve vs) = true := by
  obtain ⟨v, hv, ha⟩ := h
  rw [avoids_iff_rank] at ha ⊢
  have hge := resolve_rank_ge vs v hv
  have hle : rank (resolve vs) ≤ 3 := by
    apply resolve_rank_le
    intro w hw
    have hf := hno w hw
    rw [forces_iff_rank] at hf
    cases c with
    | true => simp at hf; omega
    | false =>
      have hne := hcol rfl w hw
      cases w <;> simp_all [rank]
  simp only [decide_eq_true_eq] at ha ⊢
  omega

/-- Inside a multi-column container the statement holds without the extra hypothesis. -/
theorem avoid_wins_in_column (vs : List Brk)
    (hno : ∀ v ∈ vs, forces true v = false) (h : ∃ v ∈ vs, avoids true v = true) :
    avoids true (resolve vs) = true :=
  avoid_wins_partial true vs hno (by intro h; cases h) h

/-- No value that neither forces nor avoids can produce a forced or avoided result out of nothing. -/
theorem auto_stays (vs : List Brk) (h : ∀ v ∈ vs, v = .auto) : resolve vs = .auto := by
  have := resolve_rank_le vs 0 (by intro v hv; rw [h v hv]; decide)
  cases hr : resolve vs <;> simp_all [rank]

private theorem foldl_side (vs : List Brk) (r : Brk) (hr : isSide r = true) :
    isSide (vs.foldl step r) = true := by
  induction vs generalizing r with
  | nil => simpa
  | cons v vs ih =>
    apply ih
    revert hr; cases r <;> cases v <;> decide

/-- (b) among side values the last one in tree order wins, whatever precedes or follows it. -/
theorem last_side_wins (pre post : List Brk) (s : Brk) (hs : isSide s = true)
    (hpost : ∀ v ∈ post, isSide v = false) : resolve (pre ++ s :: post) = s := by
  unfold resolve
  rw [List.foldl_append, List.foldl_cons]
  have h1 : step (pre.foldl step .auto) s = s := by
    revert hs; cases (pre.foldl step .auto) <;> cases s <;> decide
  rw [h1]
  clear h1
  induction post with
  | nil => rfl
  | cons v vs ih =>
    have hv := hpost v (by simp)
    have : step s v = s := by
      revert hs hv; cases s <;> cases v <;> decide
    rw [List.foldl_cons, this]
    exact ih (by intro w hw; exact hpost w (by simp [hw]))

/-- Box level: the break between two siblings is forced as soon as any box on the two meeting
chains (last descendants of the one before, first descendants of the one after) forces it. -/
theorem forced_between (c : Bool) (a b : BBox)
    (h : (∃ v ∈ afterChain a, forces c v = true) ∨ (∃ v ∈ beforeChain b, forces c v = true)) :
    forces c (pageBreakBetween a b) = true := by
  apply forced_wins
  unfold meetingValues
  rcases h with ⟨v, hv, hf⟩ | ⟨v, hv, hf⟩
  · exact ⟨v, by simp [hv], hf⟩
  · exact ⟨v, by simp [hv], hf⟩

/-! Non-vacuity: the hypotheses are met by concrete, non-trivial inputs. -/
example : (∃ v ∈ [Brk.avoid, .column, .page, .auto], forces false v = true) ∧
    resolve [Brk.avoid, .column, .page, .auto] = .page := by decide
example : (∀ v ∈ [Brk.avoidColumn, .avoid, .auto], forces false v = false) ∧
    (∃ v ∈ [Brk.avoidColumn, .avoid, .auto], avoids false v = true) ∧
    avoids false (resolve [Brk.avoidColumn, .avoid, .auto]) = true := by decide
example : resolve ([Brk.left, .page] ++ Brk.right :: [.page, .avoid]) = .right := by decide
example : pageBreakBetween
    (.mk true .auto .auto [.mk true .auto .auto [], .mk true .auto .column []])
    (.mk true .auto .auto [.mk true .page .auto []]) = .page := by decide

/-! ### orphans and widows (PM model: `_linebox_layout` + `_break_line`) -/

open Wp.PM in
/-- (d)(e) When a paragraph is broken on a page that already has content (`page_is_empty` false), at
least `orphans` lines stay in this fragment and at least `widows` lines are left for the next page;
the only other outcomes are "no break" or "abort" (the whole paragraph is pushed to the next page).
Holds for any number of lines, any resume position, any geometry. -/
theorem orphans_widows (c : Ctx) (st : PStyle) (b : BoxSt) (n : Nat) (lineH : Rat)
    (adj : List Rat) (bs posY : Rat) (skip : Option Resume) (dbd : Bool)
    (hk : skipLine skip ≤ n) (hw : 1 ≤ st.widows)
    (hstop : (lineboxLayout c st b n lineH false adj bs posY skip dbd).stop = true)
    (hab : (lineboxLayout c st b n lineH false adj bs posY skip dbd).abort = false) :
    let r := lineboxLayout c st b n lineH false adj bs posY skip dbd
    r.lines.length ≥ st.orphans ∧ n - (skipLine skip + r.lines.length) ≥ st.widows := by
  intro r
  show r.lines.length ≥ st.orphans ∧ n - (skipLine skip + r.lines.length) ≥ st.widows
  have hr : r = lineboxLayout c st b n lineH false adj bs posY skip dbd := rfl
  clear_value r
  unfold lineboxLayout at hr hstop hab
  cases hloop : lineboxLoop c st b n lineH false adj bs posY skip dbd with
  | done s => rw [hloop] at hstop; simp at hstop
  | broke a stp res s =>
    rw [hloop] at hr hab
    simp only at hab
    subst hab
    subst hr
    simp only
    unfold lineboxLoop at hloop
    exact lineLoop_break_orphans_widows c st b n lineH bs (skipLine skip) _ _ _ _ s stp res
      (Nat.le_refl _) (by simp) (by omega) hw hloop

/-! ### forced breaks and page sides in the pagination model -/

open Wp.PM in
/-- (a) Between two in-flow siblings, as soon as the resolved value forces a break (or the page name
changes to a named page), the children loop stops *before* the second sibling: it is not laid out on
this page, the resume position is exactly that sibling, and the pending `next_page` carries the
resolved break value and the sibling's page name. For every parent, every state of the loop. -/
theorem forced_break_stops (c : Ctx) (st : PStyle) (child : PBox) (rest : List PBox) (index skipIdx : Nat)
    (bs : Rat) (pie : Bool) (s : KidsLoop) (hidx : ¬ index < skipIdx) (hf : (meetBreak s child).2 = true) :
    layoutKids c st (child :: rest) index skipIdx bs pie s =
      .stopped (some (.node index none))
        { s with nextPage := { brk := some (meetBreak s child).1, page := some (boxPageStart child) } } := by
  unfold layoutKids
  simp [hidx, hf]

open Wp.PM in
/-- …and the test that triggers it is exactly "the values meeting between the last laid-out sibling
and the next one resolve to a forcing value, or the page name changes to a non-empty name". -/
theorem meetBreak_forced_iff (s : KidsLoop) (child : PBox) (l : Frag) (hl : s.newChildren.getLast? = some l) :
    (meetBreak s child).2 = true ↔
      (forces false (breakBetween l child) = true ∨
        (fragPageEnd l ≠ boxPageStart child ∧ boxPageStart child ≠ "")) := by
  unfold meetBreak
  simp only [hl, forcesPage]
  constructor
  · intro h
    simp only [Bool.or_eq_true, Bool.and_eq_true, decide_eq_true_eq] at h
    rcases h with h | h
    · right; exact h
    · left; exact h
  · intro h
    simp only [Bool.or_eq_true, Bool.and_eq_true, decide_eq_true_eq]
    rcases h with h | h
    · right; exact h
    · left; exact h

open Wp.PM in
/-- The first sibling laid out on a page is never preceded by a forced break (nothing to break from). -/
theorem meetBreak_first (s : KidsLoop) (child : PBox) (h : s.newChildren = []) :
    meetBreak s child = (.auto, false) := by
  unfold meetBreak; simp [h]

/-- Arithmetic of blank pages: with a requested side, the current page either already has it, or it
is blank and the next page (sides alternate) has it. -/
theorem blank_then_side (side right : Bool) :
    (PM.isBlank (some side) right = false ∧ right = side) ∨
    (PM.isBlank (some side) right = true ∧ right = !side ∧ PM.isBlank (some side) (!right) = false) := by
  cases side <;> cases right <;> decide

theorem no_side_no_blank (right : Bool) : PM.isBlank none right = false := by
  cases right <;> decide

open Wp.PM in
/-- What `remake_page` records for the page it makes: side = the page maker's `right_page`, blank
exactly when the requested side differs; a blank page is unnamed and leaves the resume position and
the pending break untouched (so the requested side is re-examined for the next page). -/
theorem remakePage_type (d : Doc) (index : Nat) (resume : Option Resume) (np : NextPage) (right : Bool)
    (p : Page) (hp : remakePage d index resume np right = some p) :
    p.type.right = right ∧ p.type.index = index ∧
    p.type.blank = isBlank (requestedSide d.rootLtr np.brk) right ∧
    (p.type.blank = true → p.type.name = "" ∧ p.resume = resume ∧ p.nextPage = np) := by
  unfold remakePage at hp
  dsimp only at hp
  split at hp
  · simp at hp
  · simp only [Option.some.injEq] at hp
    subst hp
    refine ⟨rfl, rfl, rfl, ?_⟩
    intro hb
    simp only at hb
    simp [hb]

open Wp.PM in
/-- (b) Page sides: when a side is requested, the page made now either has that side and is not
blank, or is a blank page and the page after it has the requested side and is not blank. -/
theorem side_honoured (d : Doc) (index : Nat) (resume : Option Resume) (np : NextPage) (right side : Bool)
    (hs : requestedSide d.rootLtr np.brk = some side) (p : Page)
    (hp : remakePage d index resume np right = some p) :
    (p.type.blank = false ∧ p.type.right = side) ∨
    (p.type.blank = true ∧ p.type.name = "" ∧
      ∀ p', remakePage d (index + 1) p.resume p.nextPage (!right) = some p' →
        p'.type.blank = false ∧ p'.type.right = side) := by
  obtain ⟨hr, _, hb, hkeep⟩ := remakePage_type d index resume np right p hp
  rw [hs] at hb
  rcases blank_then_side side right with ⟨h1, h2⟩ | ⟨h1, h2, h3⟩
  · left; rw [hb, hr]; exact ⟨h1, h2⟩
  · right
    rw [h1] at hb
    obtain ⟨hn, hres, hnp⟩ := hkeep hb
    refine ⟨hb, hn, ?_⟩
    intro p' hp'
    rw [hres, hnp] at hp'
    obtain ⟨hr', _, hb', _⟩ := remakePage_type d (index + 1) resume np (!right) p' hp'
    rw [hs, h3] at hb'
    refine ⟨hb', ?_⟩
    rw [hr', h2]; simp

open Wp.PM in
/-- Without a requested side no blank page is inserted and the page has the page maker's side
(which alternates: `right_page = not right_page`). -/
theorem no_blank_without_side (d : Doc) (index : Nat) (resume : Option Resume) (np : NextPage) (right : Bool)
    (hs : requestedSide d.rootLtr np.brk = none) (p : Page)
    (hp : remakePage d index resume np right = some p) : p.type.blank = false ∧ p.type.right = right := by
  obtain ⟨hr, _, hb, _⟩ := remakePage_type d index resume np right p hp
  rw [hs, no_side_no_blank] at hb
  exact ⟨hb, hr⟩

/-! ### break-inside: avoid -/

open Wp.PM in
private theorem finishContainer_avoid_inside (c : Ctx) (st : PStyle) (b : BoxSt) (isStart pie : Bool) (bs : Rat)
    (cwc dbd : Bool) (resume : Option Resume) (posY : Rat) (adjL cur : List Rat) (curIsL : Bool)
    (np : NextPage) (hasKids : Bool) (pageEnd : String) (mk : Geo → Frag)
    (hav : avoids false st.brkInside = true)
    (hf : (finishContainer c st b isStart pie bs cwc dbd resume posY adjL cur curIsL np hasKids pageEnd mk).frag.isSome = true)
    (hr : (finishContainer c st b isStart pie bs cwc dbd resume posY adjL cur curIsL np hasKids pageEnd mk).resume.isSome = true) :
    pie = true := by
  unfold finishContainer at hf hr
  have hav' : avoidsPage st.brkInside = true := hav
  cases hp : pie with
  | true => rfl
  | false =>
    exfalso
    rw [hp, hav'] at hf hr
    cases hres : resume with
    | none => rw [hres] at hr; simp at hr
    | some r => rw [hres] at hf; simp at hf

open Wp.PM in
/-- (d)(e) `break-inside: avoid` (or `avoid-page`): a box that asks not to be broken is fragmented
(returned with a resume position) **only if the page was empty when it was started** — otherwise
the layout returns no fragment and the whole box is pushed to the next page. Any box, any content. -/
theorem avoid_inside_honoured (box : PBox) (c : Ctx) (idx : Nat) (y bs : Rat) (skip : Option Resume)
    (cb pie : Bool) (adjL : List Rat) (hav : avoids false box.st.brkInside = true)
    (hf : (layoutBox c box idx y bs skip cb pie adjL).frag.isSome = true)
    (hr : (layoutBox c box idx y bs skip cb pie adjL).resume.isSome = true) : pie = true := by
  cases box with
  | para id n lineH st =>
    unfold layoutBox at hf hr
    unfold finishPara at hf hr
    dsimp only at hf hr
    split at hf
    · simp [abortResult] at hf
    · rename_i hna
      rw [if_neg hna] at hr
      exact finishContainer_avoid_inside _ _ _ _ _ _ _ _ _ _ _ _ _ _ _ _ _ hav hf hr
  | block id st kids =>
    unfold layoutBox at hf hr
    unfold finishBlock at hf hr
    dsimp only at hf hr
    split at hf
    · simp [abortResult] at hf
    · rename_i heq
      rw [heq] at hr
      exact finishContainer_avoid_inside _ _ _ _ _ _ _ _ _ _ _ _ _ _ _ _ _ hav hf hr
    · rename_i heq
      rw [heq] at hr
      exact finishContainer_avoid_inside _ _ _ _ _ _ _ _ _ _ _ _ _ _ _ _ _ hav hf hr

end Wp.C04
