/-
C19 — the dates written for an embedded file (`Model/AttachDates`).  Full statement (false of the code:
`Witness.C19.attachment_dates_follow_the_clock`, known finding `attachment-dates-from-wall-clock`): the dates are a
function of the inputs of the render and of `SOURCE_DATE_EPOCH`, not of the wall clock.  What does hold:
-/
import WpModel.Model.AttachDates

namespace Wp.C19.Attach
open Wp.AttachDates

/-- **attachment_dates_reproducible_partial**: the dates do not depend on when the `Attachment` is built as soon as
each of them is given by the caller or can be read from a file (`filename=`) — the hypothesis excludes exactly the
attachments of `<link rel=attachment>` / `<a rel=attachment>`, which are built from a URL without dates. -/
theorem attachment_dates_reproducible_partial (i : Input) (now' : String)
    (hc : i.created.isSome = true ∨ i.fileTimes.isSome = true)
    (hm : i.modified.isSome = true ∨ i.fileTimes.isSome = true) :
    dates { i with now := now' } = dates i := by
  obtain ⟨c, m, ft, now, ep⟩ := i
  cases c <;> cases m <;> cases ft <;> simp_all [dates]

/-- `SOURCE_DATE_EPOCH` is not an input at all (whatever its value, the same dates). -/
theorem source_date_epoch_ignored (i : Input) (e : Option String) :
    dates { i with sourceDateEpoch := e } = dates i := rfl

/-- Explicit dates win over the file's, the file's over the clock. -/
theorem explicit_dates_win (i : Input) (c m : String) (h1 : i.created = some c) (h2 : i.modified = some m) :
    dates i = (c, m) := by
  simp [dates, h1, h2]

example : dates ⟨some "c", none, some ("fc", "fm"), "now", none⟩ = ("c", "fm") ∧
    dates ⟨none, none, none, "now", some "0"⟩ = ("now", "now") := by decide

end Wp.C19.Attach
