/-
C03 geometry on the footnote grammar (PM stage 2b).

* `layout_line_fits`, `paginate_line_fits` — every line of every page ends above the bottom of the page box, the
  first line of the page excepted — for **every** `@footnote` style (any margins, negative ones included, bottom
  decorations, `max-height`, per-page-type rules) and footnote bodies of non-negative heights; through nested blocks,
  cloned decorations, the second layout, `find_earlier_page_break`, and every footnote being laid out, postponed or
  un-laid-out on the way.  Full strength since repair 2efefde (what the area takes from the page is clamped at 0):
  the hypothesis `AreaHyp` (decorations sum ≥ 0) these theorems had is gone; the former witness
  `area_negative_margin_box_overflows` is the regression theorem `Witness/C01Foot.area_negative_margin_box_clamped`
  (earlier: 84e5b27 for the emptied area, 8db5909 for the fragmented one).
* `page_bottom_exact` — for every `@footnote` style `context.page_bottom` always is the page bottom minus the
  (clamped) margin height of the footnote area; `page_bottom_le` — and never exceeds the page box bottom.
* `para_lines_above_footnotes`, `page_bottom_is_area_top` — the lines of a paragraph end above `page_bottom` as the
  layout leaves it, which is the top of the footnote area put on the page (or the page box bottom if that is higher).
* the footnote area: it ends exactly at the page bottom (`area_at_page_bottom`), its footnotes are stacked without
  gap or overlap (`area_stacked`).
-/
import WpModel.Lemmas.FootGeoBox
import WpModel.Lemmas.FootOverlap
import WpModel.Lemmas.FootOps
import WpModel.Props.C01Foot

namespace Wp.C03FootGeo
open Wp Wp.PM Wp.PMF

/-- **Line fits, whole layout, with footnotes.** -/
theorem layout_line_fits (box : FootBox) (hd : DecoOk box.erase) (hh : HeightsOk box) (c : FCtx) (idx : Nat)
    (y bs : Rat) (skip : Option Resume) (cb pie : Bool) (adjL : List Rat) (fs : FState)
    (hinv : PbInv c fs) (f : Frag) (hf : (layoutBoxF c box idx y bs skip cb pie adjL fs).r.frag = some f) :
    ∀ l ∈ placedLines f pie box.erase, l.exempt = true ∨ overflows (c.pageH - bs) (l.y + l.lineH) = false :=
  (boxF_fits box hd hh c idx y bs skip cb pie adjL fs hinv).1 f hf

/-- **`page_bottom` bookkeeping is exact** (any `@footnote` style, any box styles): after any layout the page
bottom is the page box bottom minus the margin height of the footnote area (or untouched when no footnote was ever
laid out). -/
theorem page_bottom_exact (box : FootBox) (hh : HeightsOk box) (c : FCtx) (idx : Nat)
    (y bs : Rat) (skip : Option Resume) (cb pie : Bool) (adjL : List Rat) (fs : FState) (hinv : PbInv c fs) :
    PbInv c (layoutBoxF c box idx y bs skip cb pie adjL fs).fs :=
  boxF_inv box hh c idx y bs skip cb pie adjL fs hinv

/-- … and never exceeds the page box bottom, whatever the `@footnote` style (full strength since 2efefde). -/
theorem page_bottom_le (box : FootBox) (hh : HeightsOk box) (c : FCtx) (idx : Nat)
    (y bs : Rat) (skip : Option Resume) (cb pie : Bool) (adjL : List Rat) (fs : FState)
    (hinv : PbInv c fs) : (layoutBoxF c box idx y bs skip cb pie adjL fs).fs.pageBottom ≤ c.pageH :=
  (boxF_inv box hh c idx y bs skip cb pie adjL fs hinv).le

/-! ### a line and the footnotes it keeps on the page -/

theorem footLoop_reported_ne (c : FCtx) (guard pie : Bool) (bs y : Rat) (F : List Fn) (fs : FState)
    (h : fs.reported ≠ []) : (footLoop c guard pie bs y F fs).2.reported ≠ [] := by
  induction F generalizing fs with
  | nil => exact h
  | cons f rest ih =>
    have h2 : (reportFootnote c (layoutFootnote c fs f).1 f).reported ≠ [] := by simp
    unfold footLoop
    split
    · dsimp only
      split
      · split
        · exact h2
        · split
          · split <;> exact h2
          · exact ih _ h2
      · exact ih _ (by simpa using h)
    · exact ih _ h

/-- **The line that keeps its footnotes ends above them** (C03 with footnotes: body text does not run into the
footnote area): when the footnote loop of a line ends with every footnote of the line kept on the page (nothing
postponed), the line — its bottom `y`, bottom padding/border included when it is the last of its box — does not
overflow `context.page_bottom` *as it is after those footnotes were laid out*, i.e. the top of the footnote area
that now holds them; or the line had no footnote to lay out and the state is unchanged. -/
theorem line_above_its_footnotes (c : FCtx) (guard pie : Bool) (bs y : Rat) (F : List Fn) (fs fs' : FState)
    (h : footLoop c guard pie bs y F fs = (.ok, fs')) (hrep : fs'.reported = []) :
    (ctxOf c fs').overflowsPage bs y = false ∨ fs' = fs := by
  induction F generalizing fs with
  | nil => simp only [footLoop, Prod.mk.injEq, true_and] at h; exact Or.inr h.symm
  | cons f rest ih =>
    unfold footLoop at h
    split at h
    · dsimp only at h
      split at h
      · -- the footnote overflowed and was postponed: `reported` stays non-empty to the end of the loop
        exfalso
        have h2 : (reportFootnote c (layoutFootnote c fs f).1 f).reported ≠ [] := by simp
        split at h
        · simp at h
        · split at h
          · split at h <;> simp at h
          · have := footLoop_reported_ne c guard pie bs y rest _ h2
            rw [h] at this
            exact this hrep
      · rename_i hov
        simp only [Bool.or_eq_true, not_or, Bool.not_eq_true] at hov
        rcases ih _ h with h1 | h1
        · exact Or.inl h1
        · left; rw [h1]; exact hov.2
    · exact ih _ h

theorem updateArea_areaH_ne (c : FCtx) (g : FState) (hc : g.cur ≠ []) : (updateArea c g).1.areaH ≠ none := by
  unfold updateArea; dsimp only
  split
  · rename_i he; exact absurd (List.isEmpty_iff.mp he) hc
  · simp

theorem layoutFootnote_areaH_ne (c : FCtx) (g : FState) (f : Fn) : (layoutFootnote c g f).1.areaH ≠ none := by
  unfold layoutFootnote
  exact updateArea_areaH_ne c _ (by simp)

/-- While nothing is postponed the area only grows: once it has a height it keeps one. -/
theorem footLoop_areaH_keep (c : FCtx) (guard pie : Bool) (bs y : Rat) (G : List Fn) (g : FState)
    (hg : g.areaH ≠ none) (hrep : (footLoop c guard pie bs y G g).2.reported = []) :
    (footLoop c guard pie bs y G g).2.areaH ≠ none := by
  induction G generalizing g with
  | nil => exact hg
  | cons x xs ih =>
    have h2 : (reportFootnote c (layoutFootnote c g x).1 x).reported ≠ [] := by simp
    unfold footLoop at hrep ⊢
    split
    · rename_i hp
      rw [if_pos hp] at hrep
      dsimp only at hrep ⊢
      split
      · rename_i hov
        rw [if_pos hov] at hrep
        exfalso
        split at hrep
        · exact h2 hrep
        · split at hrep
          · split at hrep <;> exact h2 hrep
          · exact footLoop_reported_ne c guard pie bs y xs _ h2 hrep
      · rename_i hov
        rw [if_neg hov] at hrep
        exact ih _ (layoutFootnote_areaH_ne c g x) hrep
    · rename_i hp
      rw [if_neg hp] at hrep
      exact ih _ hg hrep

/-- A footnote loop that postpones nothing and leaves the area without a height laid nothing out. -/
theorem footLoop_unchanged (c : FCtx) (guard pie : Bool) (bs y : Rat) (F : List Fn) (fs : FState)
    (hrep : (footLoop c guard pie bs y F fs).2.reported = [])
    (h : (footLoop c guard pie bs y F fs).2.areaH = none) : (footLoop c guard pie bs y F fs).2 = fs := by
  induction F generalizing fs with
  | nil => rfl
  | cons f rest ih =>
    have h2 : (reportFootnote c (layoutFootnote c fs f).1 f).reported ≠ [] := by simp
    unfold footLoop at h hrep ⊢
    split
    · rename_i hp
      rw [if_pos hp] at h hrep
      dsimp only at h hrep ⊢
      exfalso
      split at hrep
      · split at hrep
        · exact h2 hrep
        · split at hrep
          · split at hrep <;> exact h2 hrep
          · exact footLoop_reported_ne c guard pie bs y rest _ h2 hrep
      · rename_i hov
        rw [if_neg hov] at h
        exact footLoop_areaH_keep c guard pie bs y rest _ (layoutFootnote_areaH_ne c fs f) hrep h
    · rename_i hp
      rw [if_neg hp] at h hrep
      exact ih _ hrep h

/-- … and with the page-bottom invariant that is the top of the footnote area: `page_bottom = page height −
margin height of the area`. -/
theorem line_above_area_top (c : FCtx) (guard pie : Bool) (bs y : Rat) (F : List Fn) (fs fs' : FState)
    (hinv : PbInv c fs) (hF : ∀ f ∈ F, 0 ≤ f.height)
    (h : footLoop c guard pie bs y F fs = (.ok, fs')) (hrep : fs'.reported = []) (hne : fs' ≠ fs) :
    ∃ areaH, fs'.areaH = some areaH ∧
      overflows (c.pageH - max0 (c.area.marginHeight areaH) - bs) y = false := by
  have hinv' : PbInv c fs' := by
    have := footLoop_inv c guard pie bs y F fs hinv hF
    rw [h] at this; exact this
  rcases line_above_its_footnotes c guard pie bs y F fs fs' h hrep with h1 | h1
  · rcases hinv'.2.1 with ⟨hnone, _⟩ | ⟨a, ha, _, hpb⟩
    · exfalso
      apply hne
      have := footLoop_unchanged c guard pie bs y F fs (by rw [h]; exact hrep) (by rw [h]; exact hnone)
      rw [h] at this
      exact this
    · refine ⟨a, ha, ?_⟩
      simp only [Ctx.overflowsPage, ctxOf, hpb] at h1
      exact h1
  · exact absurd h1 hne

/-! ### a paragraph and the footnote area: the lines end above `page_bottom` as the layout leaves it -/

/-- The state in which a page starts (no footnote laid out yet) satisfies the exact bookkeeping `PbX`. -/
theorem pbx_page_start (c : FCtx) (pending : List Fn) :
    PbX c { pending := pending, cur := [], reported := [], pageBottom := c.pageH, areaH := none } :=
  ⟨⟨by simp, Or.inl ⟨rfl, rfl⟩, by simp⟩, by simp [pbOf]⟩

/-- **Body text does not run into the footnote area, paragraph level** (C03 with footnotes; the whole-layout form
needs the stacking of boxes under non-negative margins and is not proved): for the layout of a paragraph started in
any state with exact bookkeeping — footnotes of earlier content already in the area, footnotes postponed from the
previous page — every line of the returned fragment, the first line excepted when the paragraph started an empty
page, ends above `context.page_bottom` *as the layout leaves it*: the page bottom minus the footnote area that
holds all footnotes taken so far, those called from this paragraph included (`PbX`: `page_bottom = pbOf cur`).
Through every footnote laid out, postponed (`footnote-policy` auto/line/block) or un-laid-out by `_break_line`. -/
theorem para_lines_above_footnotes (id n : Nat) (lineH : Rat) (st : PStyle) (calls : List Call) (hd : st.DecoOk)
    (hh : ∀ cl ∈ calls, 0 ≤ (cl.m : Rat) * cl.h) (hlh : 0 ≤ lineH) (c : FCtx) (idx : Nat)
    (y bs : Rat) (skip : Option Resume) (cb pie : Bool) (adjL : List Rat) (fs : FState) (hx : PbX c fs) (f : Frag)
    (hf : (layoutBoxF c (.para id n lineH st calls) idx y bs skip cb pie adjL fs).r.frag = some f) :
    let fs' := (layoutBoxF c (.para id n lineH st calls) idx y bs skip cb pie adjL fs).fs
    fs'.pageBottom = pbOf c fs'.cur ∧
    ∀ l ∈ placedLines f pie (.para id n lineH st), l.exempt = true ∨
      overflows (pbOf c fs'.cur - bs) l.bottom = false := by
  intro fs'
  obtain ⟨h1, h2⟩ := para_fits_final id n lineH st calls hd hh hlh c idx y bs skip cb pie adjL fs hx f hf
  refine ⟨h1.2, ?_⟩
  intro l hl
  rcases h2 l hl with h | h
  · exact Or.inl h
  · right
    simp only [Ctx.overflowsPage, ctxOf] at h
    rw [← h1.2]
    exact h

/-- `pbOf`: with no footnote in the area the page bottom is the page box bottom; with some, it is the top of the
area's margin box (`areaOut.y`) — or the page box bottom when that top lies below it (margin box of negative
height: the clamp of repair 2efefde). -/
theorem pbOf_is_area_top (c : FCtx) (cur : List Fn) (o : AreaOut) (h : areaOut c.area c.pageH cur = some o) :
    pbOf c cur = if o.y ≤ c.pageH then o.y else c.pageH := by
  have hb := areaOut_bottom c.area c.pageH cur o h
  unfold areaOut at h
  split at h
  · cases h
  · rename_i hne
    unfold pbOf
    rw [if_neg hne]
    unfold max0
    split <;> split <;> grind

/-! ### the footnote methods of `LayoutContext`, called in any order -/

/-- **`context.page_bottom` stays exact under any sequence of `layout_footnote` / `report_footnote` /
`unlayout_footnote` calls** (function level: the calls are compared one by one with the real `LayoutContext` by
`py/harness/pm_foot_ops.py`, in orders that no document produces): from the state in which a page starts, after
every call `page_bottom` is the page box bottom minus what the area holding the current footnotes takes (`pbOf`),
and never exceeds the page box bottom — for every `@footnote` style. -/
theorem context_page_bottom_exact (c : FCtx) (fns : List Fn) (ops : List FOp)
    (hh : ∀ op ∈ ops, 0 ≤ op.fn.height) :
    ∀ r ∈ applyOps c (pageStartState c fns) ops, r.1.pageBottom = pbOf c r.1.cur ∧ r.1.pageBottom ≤ c.pageH :=
  applyOps_exact c ops _ (pageStartState_pbx c fns) hh

/-- **No sequence of calls loses or duplicates a footnote box** (C01 at the level of the context): calls on the
footnotes the context knows leave every box exactly as often in `footnotes + current_page_footnotes +
reported_footnotes` as at the start of the page. -/
theorem context_conserves_footnotes (c : FCtx) (fns : List Fn) (ops : List FOp)
    (hin : ∀ op ∈ ops, op.fn ∈ fns) :
    ∀ r ∈ applyOps c (pageStartState c fns) ops, ∀ g, (allFns r.1).count g = fns.count g := by
  intro r hr g
  have := applyOps_conserve c ops (pageStartState c fns)
    (by intro op ho; simp [allFns, pageStartState, hin op ho]) r hr g
  simpa [allFns, pageStartState] using this

/-! ### pages -/

def pageSourceF (d : FDoc) (p : FPage) : FootBox := if p.page.type.blank then emptyRootF d.root else d.root

theorem heightsOk_emptyRootF (b : FootBox) : HeightsOk (emptyRootF b) := by
  cases b <;> simp [emptyRootF, HeightsOk, HeightsOkList]

theorem placeReported_inv (c : FCtx) (L : List Fn) (i : Nat) (fs : FState) (h : PbInv c fs)
    (hL : ∀ f ∈ L, 0 ≤ f.height) : PbInv c (placeReported c L i fs) := by
  induction L generalizing i fs with
  | nil => exact h
  | cons f rest ih =>
    have hf := hL f (by simp)
    have h0 : PbInv c { fs with pending := fs.pending ++ [f] } := h
    have h1 := layoutFootnote_inv c _ f h0 hf
    unfold placeReported
    dsimp only
    split
    · have h2 := reportFootnote_inv c _ f h1 hf
      exact ⟨h2.1, h2.2.1, fun g hg => hL g hg⟩
    · exact ih _ _ h1 (fun g hg => hL g (by simp [hg]))

/-- One page: the lines fit, and what the page postpones still has non-negative heights. -/
theorem remakePageF_line_fits (d : FDoc) (hd : DecoOk d.root.erase) (hh : HeightsOk d.root)
    (index : Nat) (resume : Option Resume) (np : NextPage) (right : Bool) (pending reported : List Fn)
    (hrep : ∀ f ∈ reported, 0 ≤ f.height) (p : FPage)
    (hp : remakePageF d index resume np right pending reported = some p) :
    (∀ l ∈ (placedLines p.page.root true (pageSourceF d p).erase).tail,
      l.y + l.lineH ≤ d.pageH * (1 + 1 / 1000000000)) ∧
    (∀ f ∈ p.reported, 0 ≤ f.height) := by
  unfold remakePageF at hp
  dsimp only at hp
  split at hp
  · cases hp
  · rename_i f hfrag
    simp only [Option.some.injEq] at hp
    have hinv0 : PbInv (pageCtxOf d index resume np right reported) (pageStart d (pageCtxOf d index resume np right reported) pending reported) := by
      unfold pageStart
      apply placeReported_inv _ _ _ _ _ hrep
      exact ⟨by simp, Or.inl ⟨rfl, rfl⟩, by simp⟩
    have hsrc : DecoOk (if isBlankF d resume np right reported = true then emptyRootF d.root else d.root).erase ∧
        HeightsOk (if isBlankF d resume np right reported = true then emptyRootF d.root else d.root) := by
      split
      · exact ⟨by rw [erase_emptyRootF]; exact decoOk_emptyRoot _ hd, heightsOk_emptyRootF _⟩
      · exact ⟨hd, hh⟩
    have hfit := boxF_fits _ hsrc.1 hsrc.2 (pageCtxOf d index resume np right reported) 0 0 0 resume false true []
      (pageStart d (pageCtxOf d index resume np right reported) pending reported) hinv0
    subst hp
    constructor
    · intro l hl
      have hex := (placedLines_exempt f true (pageSourceF d _).erase).1 l hl
      have hmem := List.mem_of_mem_tail hl
      simp only [pageSourceF] at hex hmem
      rcases hfit.1 f hfrag l hmem with h | h
      · rw [hex] at h; cases h
      · simp only [ctxH, pageCtx, pageCtxOf, Ctx.overflowsPage, overflows, PlacedLine.bottom] at h
        grind
    · exact hfit.2.2.2

theorem areaOut_none (a : AreaStyle) (pageH : Rat) (cur : List Fn) (h : areaOut a pageH cur = none) :
    cur.isEmpty = true := by
  unfold areaOut at h
  split at h
  · assumption
  · cases h

theorem pbOf_empty (c : FCtx) (cur : List Fn) (h : cur.isEmpty = true) : pbOf c cur = c.pageH := by
  unfold pbOf; rw [if_pos h]

/-- **When a page is done, `context.page_bottom` is the top of the footnote area put on it** (any `@footnote`
style, any box styles): the state in which the layout of the root box ends holds the page's footnotes, its
`page_bottom` is `pbOf` of them, and that is the `y` of the area rendered on the page (the page box bottom when the
page has no footnote, or when the area's margin box starts below it). With `para_lines_above_footnotes` this ties the bound the lines were checked against to the
box drawn on the page. -/
theorem page_bottom_is_area_top (d : FDoc) (hh : HeightsOk d.root) (index : Nat) (resume : Option Resume)
    (np : NextPage) (right : Bool) (pending reported : List Fn) (hrep : ∀ f ∈ reported, 0 ≤ f.height) (p : FPage)
    (hp : remakePageF d index resume np right pending reported = some p) :
    ∃ fsEnd : FState, fsEnd.cur = p.cur ∧
      fsEnd.pageBottom = pbOf (pageCtxOf d index resume np right reported) p.cur ∧
      (p.area = none → fsEnd.pageBottom = d.pageH) ∧
      (∀ o, p.area = some o → fsEnd.pageBottom = if o.y ≤ d.pageH then o.y else d.pageH) := by
  unfold remakePageF at hp
  dsimp only at hp
  split at hp
  · cases hp
  · rename_i f hfrag
    simp only [Option.some.injEq] at hp
    have hx0 : PbX (pageCtxOf d index resume np right reported)
        (pageStart d (pageCtxOf d index resume np right reported) pending reported) := by
      unfold pageStart
      apply placeReported_pbx _ _ _ _ _ hrep
      exact pbx_page_start _ pending
    have hsrc : HeightsOk (if isBlankF d resume np right reported = true then emptyRootF d.root else d.root) := by
      split
      · exact heightsOk_emptyRootF _
      · exact hh
    have hx := boxF_pbx _ hsrc (pageCtxOf d index resume np right reported) 0 0 0 resume false true []
      (pageStart d (pageCtxOf d index resume np right reported) pending reported) hx0
    subst hp
    refine ⟨_, rfl, hx.2, ?_, ?_⟩
    · intro hnone
      simp only at hnone
      rw [hx.2, pbOf_empty _ _ (areaOut_none _ _ _ hnone)]
      rfl
    · intro o ho
      simp only at ho
      rw [hx.2]
      exact pbOf_is_area_top _ _ o ho

/-! ### body text and the footnote area, whole pages of single-chain documents -/

theorem single_emptyRootF (b : FootBox) (hl : LineHOk b) : Single (emptyRootF b) ∧ LineHOk (emptyRootF b) := by
  cases b with
  | para id n lineH st calls => simpa [emptyRootF, Single, LineHOk] using hl
  | block id st kids => simp [emptyRootF, Single, SingleList, LineHOk, LineHOkList]

/-- **Body text does not run into the footnote area** (C03 with footnotes), whole pages, for documents that are a
chain of boxes around one paragraph (`Single`: every block has at most one child — html > body > p, any
decorations, breaks, orphans/widows, any footnote policies, any `@footnote` styles): on every page made by
`make_page`, every line but the first ends above `context.page_bottom` as it is when the page is done, `pbOf` of
the page's footnotes — by `page_bottom_is_area_top` the top of the footnote area rendered on the page (the page box
bottom when there is none).  The general case needs, in addition, that sibling boxes are stacked (non-negative
margins); it is stated on the implementation's output by the judge `pm_foot_corr.overlap_violation`. -/
theorem single_chain_lines_above_area (d : FDoc) (hs : Single d.root) (hd : DecoOk d.root.erase)
    (hh : HeightsOk d.root) (hl : LineHOk d.root) (index : Nat) (resume : Option Resume) (np : NextPage)
    (right : Bool) (pending reported : List Fn) (hrep : ∀ f ∈ reported, 0 ≤ f.height) (p : FPage)
    (hp : remakePageF d index resume np right pending reported = some p) :
    ∀ l ∈ (placedLines p.page.root true (pageSourceF d p).erase).tail,
      overflows (pbOf (pageCtxOf d index resume np right reported) p.cur) (l.y + l.lineH) = false := by
  unfold remakePageF at hp
  dsimp only at hp
  split at hp
  · cases hp
  · rename_i f hfrag
    simp only [Option.some.injEq] at hp
    have hx0 : PbX (pageCtxOf d index resume np right reported)
        (pageStart d (pageCtxOf d index resume np right reported) pending reported) := by
      unfold pageStart
      apply placeReported_pbx _ _ _ _ _ hrep
      exact pbx_page_start _ pending
    have hsrc : Single (if isBlankF d resume np right reported = true then emptyRootF d.root else d.root) ∧
        DecoOk (if isBlankF d resume np right reported = true then emptyRootF d.root else d.root).erase ∧
        HeightsOk (if isBlankF d resume np right reported = true then emptyRootF d.root else d.root) ∧
        LineHOk (if isBlankF d resume np right reported = true then emptyRootF d.root else d.root) := by
      split
      · exact ⟨(single_emptyRootF _ hl).1, by rw [erase_emptyRootF]; exact decoOk_emptyRoot _ hd,
          heightsOk_emptyRootF _, (single_emptyRootF _ hl).2⟩
      · exact ⟨hs, hd, hh, hl⟩
    have hfit := boxF_chain _ hsrc.1 hsrc.2.1 hsrc.2.2.1 hsrc.2.2.2 (pageCtxOf d index resume np right reported)
      0 0 0 resume false true [] (pageStart d (pageCtxOf d index resume np right reported) pending reported) hx0
    subst hp
    intro l hl'
    have hex := (placedLines_exempt f true (pageSourceF d _).erase).1 l hl'
    have hmem := List.mem_of_mem_tail hl'
    simp only [pageSourceF] at hex hmem
    rcases hfit.2 f hfrag l hmem with h | h
    · rw [hex] at h; cases h
    · simp only [Ctx.overflowsPage, ctxOf, PlacedLine.bottom] at h
      rw [hfit.1.2] at h
      have e : ∀ a : Rat, a - 0 = a := by intro a; grind
      rw [e] at h
      exact h

/-- The layout context as far as `pbOf` looks at it: the `@footnote` style of the page's type and the page height. -/
def areaCtx (d : FDoc) (p : FPage) : FCtx :=
  { area := d.areaFor p.page.type.name, pageH := d.pageH, currentPage := 0, forcedBreak := false, tbl := [] }

theorem pbOf_ctx (c c' : FCtx) (cur : List Fn) (h1 : c.area = c'.area) (h2 : c.pageH = c'.pageH) :
    pbOf c cur = pbOf c' cur := by
  unfold pbOf; rw [h1, h2]

theorem remakePageF_name (d : FDoc) (index : Nat) (resume : Option Resume) (np : NextPage) (right : Bool)
    (pending reported : List Fn) (p : FPage) (hp : remakePageF d index resume np right pending reported = some p) :
    p.page.type.name = pageNameF d resume np right reported := by
  unfold remakePageF at hp
  dsimp only at hp
  split at hp
  · cases hp
  · simp only [Option.some.injEq] at hp
    subst hp
    rfl

/-- **… on all pages of a single-chain document**: on every page of the pagination, every line but the first ends
above `pbOf` of the page's own footnotes in the page type's `@footnote` style — the top of the footnote area
rendered on that page. -/
theorem single_chain_paginate (d : FDoc) (hs : Single d.root) (hd : DecoOk d.root.erase)
    (hh : HeightsOk d.root) (hl : LineHOk d.root) (fuel : Nat) (pages : List FPage)
    (h : paginateFoot d fuel = some pages) :
    ∀ p ∈ pages, ∀ l ∈ (placedLines p.page.root true (pageSourceF d p).erase).tail,
      overflows (pbOf (areaCtx d p) p.cur) (l.y + l.lineH) = false := by
  have key : ∀ (fuel index : Nat) (resume : Option Resume) (np : NextPage) (right : Bool)
      (pending reported : List Fn) (pages : List FPage), (∀ f ∈ reported, 0 ≤ f.height) →
      makeAllPagesF d fuel index resume np right pending reported = some pages →
      ∀ p ∈ pages, ∀ l ∈ (placedLines p.page.root true (pageSourceF d p).erase).tail,
        overflows (pbOf (areaCtx d p) p.cur) (l.y + l.lineH) = false := by
    intro fuel
    induction fuel with
    | zero => intro index resume np right pending reported pages _ h; simp [makeAllPagesF] at h
    | succ fuel ih =>
      intro index resume np right pending reported pages hrep h
      unfold makeAllPagesF at h
      split at h
      · cases h
      · rename_i p hp
        have hpage : ∀ l ∈ (placedLines p.page.root true (pageSourceF d p).erase).tail,
            overflows (pbOf (areaCtx d p) p.cur) (l.y + l.lineH) = false := by
          intro l hl'
          have := single_chain_lines_above_area d hs hd hh hl index resume np right pending reported hrep p hp l hl'
          rw [pbOf_ctx (areaCtx d p) (pageCtxOf d index resume np right reported) p.cur
            (by simp only [areaCtx, pageCtxOf]
                rw [remakePageF_name d index resume np right pending reported p hp]) rfl]
          exact this
        have hrep' := (remakePageF_line_fits d hd hh index resume np right pending reported hrep p hp).2
        split at h
        · simp only [Option.some.injEq] at h
          subst h
          intro q hq
          simp only [List.mem_singleton] at hq
          subst hq
          exact hpage
        · split at h
          · rename_i ps hps
            simp only [Option.some.injEq] at h
            subst h
            intro q hq
            rcases List.mem_cons.mp hq with rfl | hq
            · exact hpage
            · exact ih _ _ _ _ _ _ ps hrep' hps q hq
          · cases h
  unfold paginateFoot at h
  exact key fuel 0 none _ _ _ [] pages (by simp) h

/-- **Line fits, all pages of a footnote document** (C03): on every page, every line but possibly the first ends
above the bottom of the page box. -/
theorem paginate_line_fits (d : FDoc) (hd : DecoOk d.root.erase) (hh : HeightsOk d.root)
    (fuel : Nat) (pages : List FPage) (h : paginateFoot d fuel = some pages) :
    ∀ p ∈ pages, ∀ l ∈ (placedLines p.page.root true (pageSourceF d p).erase).tail,
      l.y + l.lineH ≤ d.pageH * (1 + 1 / 1000000000) := by
  have key : ∀ (fuel index : Nat) (resume : Option Resume) (np : NextPage) (right : Bool)
      (pending reported : List Fn) (pages : List FPage), (∀ f ∈ reported, 0 ≤ f.height) →
      makeAllPagesF d fuel index resume np right pending reported = some pages →
      ∀ p ∈ pages, ∀ l ∈ (placedLines p.page.root true (pageSourceF d p).erase).tail,
        l.y + l.lineH ≤ d.pageH * (1 + 1 / 1000000000) := by
    intro fuel
    induction fuel with
    | zero => intro index resume np right pending reported pages _ h; simp [makeAllPagesF] at h
    | succ fuel ih =>
      intro index resume np right pending reported pages hrep h
      unfold makeAllPagesF at h
      split at h
      · cases h
      · rename_i p hp
        obtain ⟨hpage, hrep'⟩ := remakePageF_line_fits d hd hh index resume np right pending reported hrep p hp
        split at h
        · simp only [Option.some.injEq] at h
          subst h
          intro q hq
          simp only [List.mem_singleton] at hq
          subst hq
          exact hpage
        · split at h
          · rename_i ps hps
            simp only [Option.some.injEq] at h
            subst h
            intro q hq
            rcases List.mem_cons.mp hq with rfl | hq
            · exact hpage
            · exact ih _ _ _ _ _ _ ps hrep' hps q hq
          · cases h
  unfold paginateFoot at h
  exact key fuel 0 none _ _ _ [] pages (by simp) h

/-! ### the footnote area -/

/-- The footnote area's margin box ends exactly at the bottom of the page box. -/
theorem area_at_page_bottom (a : AreaStyle) (pageH : Rat) (cur : List Fn) (o : AreaOut)
    (h : areaOut a pageH cur = some o) : o.y + (areaLayout a pageH cur).marginHeight = pageH :=
  areaOut_bottom a pageH cur o h

/-- The footnotes of the area are stacked from its content top: the `i`-th starts where the previous ones end. -/
theorem area_stacked (y : Rat) (l : List Fn) :
    (areaKids y l).map (fun k => k.2.1) = (List.range l.length).map (fun i => y + sumHeights (l.take i)) :=
  areaKids_stack y l

/-! ### non-vacuity -/

example : DecoOk C01Foot.exDoc.root.erase ∧ HeightsOk C01Foot.exDoc.root := by
  refine ⟨?_, ?_⟩
  · simp [C01Foot.exDoc, C01Foot.exDocOf, FootBox.erase, eraseList, DecoOk, DecoOkList, PStyle.DecoOk, C01Foot.exSt]
    decide +kernel
  · simp only [C01Foot.exDoc, C01Foot.exDocOf, HeightsOk, HeightsOkList, List.mem_cons, List.not_mem_nil, or_false,
      forall_eq_or_imp, forall_eq, and_true]
    decide +kernel

/-- The lines of `exDoc`'s pages (exempt?, line, y), the first of each page exempt … -/
example : (paginateFoot C01Foot.exDoc 20).map (fun ps => ps.map (fun p =>
      (placedLines p.page.root true (pageSourceF C01Foot.exDoc p).erase).map (fun l => (l.exempt, l.line, l.y)))) =
    some [[(true, 0, 0), (false, 1, 10), (false, 2, 20)], [(true, 3, 0)], [(true, 4, 0)]] := by decide +kernel

/-- … and the footnote areas (y, height) on the 40px pages: 10px at y = 30 under lines ending at 30, etc. -/
example : (paginateFoot C01Foot.exDoc 20).map (fun ps => ps.map (fun p => p.area.map (fun a => (a.y, a.h)))) =
    some [some (30, 10), some (20, 20), some (10, 30)] := by decide +kernel

/-- `line_above_area_top` is not vacuous: a line ending at 30 on a 40px page keeps its 10px footnote (area height
10, top at 30, nothing postponed); with a 20px footnote the footnote is postponed instead. -/
example :
    let c : FCtx := { area := C01Foot.exArea, pageH := 40, currentPage := 1, forcedBreak := false, tbl := [] }
    let f : Fn := ⟨1, 1, 10, .auto, ""⟩
    let g : Fn := ⟨2, 2, 10, .auto, ""⟩
    let fs : FState := { pending := [f, g], cur := [], reported := [], pageBottom := 40, areaH := none }
    ((footLoop c true false 0 30 [f] fs).1, (footLoop c true false 0 30 [f] fs).2.reported.length,
      (footLoop c true false 0 30 [f] fs).2.areaH, (footLoop c true false 0 30 [f] fs).2.pageBottom) =
      (FootOut.ok, 0, some 10, 30) ∧
    (footLoop c true false 0 30 [g] fs).2.reported.length = 1 := by
  decide +kernel

/-- `para_lines_above_footnotes` on page 1 of `exDoc` (40px page): the paragraph keeps footnote 1 (10px) and
postpones footnote 2; `page_bottom` ends at 30 = the area top, and the three lines end at 10, 20, 30. -/
example :
    let c : FCtx := pageCtxOf C01Foot.exDoc 0 none { brk := none, page := some "" } true []
    let R := layoutBoxF c (.para 1 5 10 C01Foot.exSt [⟨1, 1, 1, 10, .auto⟩, ⟨2, 2, 2, 10, .auto⟩, ⟨4, 3, 3, 10, .line⟩])
      0 0 0 none false true []
      { pending := boxFns C01Foot.exDoc.root, cur := [], reported := [], pageBottom := 40, areaH := none }
    (R.fs.pageBottom, pbOf c R.fs.cur, R.fs.cur.map (·.fid), R.fs.reported.map (·.fid),
      R.r.frag.map (fun f => (placedLines f true (.para 1 5 10 C01Foot.exSt)).map (fun l => l.bottom))) =
    (30, 30, [1], [2], some [10, 20, 30]) := by decide +kernel

/-- `single_chain_lines_above_area` is not vacuous: `exDoc` (html > body > one paragraph of 5 lines, 3 footnotes,
one of them `footnote-policy: line`) is a single chain; per page the line bottoms and the area top. -/
example : Single C01Foot.exDoc.root ∧ LineHOk C01Foot.exDoc.root ∧
    (paginateFoot C01Foot.exDoc 20).map (fun ps => ps.map (fun p =>
      ((placedLines p.page.root true (pageSourceF C01Foot.exDoc p).erase).map (fun l => l.bottom),
        p.area.map (fun a => a.y)))) =
    some [([10, 20, 30], some 30), ([10], some 20), ([10], some 10)] := by
  refine ⟨by simp [C01Foot.exDoc, C01Foot.exDocOf, Single, SingleList], ?_, by decide +kernel⟩
  simp only [C01Foot.exDoc, C01Foot.exDocOf, LineHOk, LineHOkList, and_true]
  decide +kernel

/-- The two theorems are not vacuous: a 60px page, `@footnote{margin-top:-14px}`, footnotes 1 (10px) and 2 (30px):
lay 1, lay 2, report 2, unlay 1, report 1 (invalid: 1 is waiting again — the trace stops). Per call: `page_bottom`,
area height, and the three lists. -/
example :
    let c : FCtx := { area := { C01Foot.exArea with mt := -14 }, pageH := 60, currentPage := 1, forcedBreak := false,
                      tbl := [] }
    let f1 : Fn := ⟨1, 1, 10, .auto, ""⟩
    let f2 : Fn := ⟨2, 3, 10, .auto, ""⟩
    (applyOps c (pageStartState c [f1, f2]) [.lay f1, .lay f2, .report f2, .unlay f1, .report f1]).map
      (fun r => (r.1.pageBottom, r.1.areaH, r.1.cur.map (·.fid), r.1.reported.map (·.fid), r.1.pending.map (·.fid))) =
    [(60, some 10, [1], [], [2]), (34, some 40, [1, 2], [], []), (60, some 10, [1], [2], []),
     (60, none, [], [2], [1])] := by decide +kernel

end Wp.C03FootGeo
