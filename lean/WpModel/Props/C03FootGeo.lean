/-
C03 geometry on the footnote grammar (PM stage 2b).

* `layout_line_fits`, `paginate_line_fits` — every line of every page ends above the bottom of the page box, the
  first line of the page excepted — for documents whose `@footnote` area has no bottom margin/padding/border
  (`AreaHyp`) and whose footnote bodies have non-negative heights; through nested blocks, cloned decorations, the
  second layout, `find_earlier_page_break`, and every footnote being laid out, postponed or un-laid-out on the way.
  Why the hypothesis: with a bottom decoration *and* footnotes of two page names, `context.page_bottom` drifts up
  (`corpus/C01/footnote_named_page_overlap.json`, finding footnote-named-page-area-overlap).
* `page_bottom_exact` — under the same hypothesis `context.page_bottom` always is the page bottom minus the margin
  height of the footnote area.
* the footnote area: it ends exactly at the page bottom (`area_at_page_bottom`), its footnotes are stacked without
  gap or overlap (`area_stacked`).
-/
import WpModel.Lemmas.FootGeoBox
import WpModel.Props.C01Foot

namespace Wp.C03FootGeo
open Wp Wp.PM Wp.PMF

/-- **Line fits, whole layout, with footnotes.** -/
theorem layout_line_fits (box : FootBox) (hd : DecoOk box.erase) (hh : HeightsOk box) (c : FCtx) (idx : Nat)
    (y bs : Rat) (skip : Option Resume) (cb pie : Bool) (adjL : List Rat) (fs : FState) (ha : AreaHyp c.area)
    (hinv : PbInv c fs) (f : Frag) (hf : (layoutBoxF c box idx y bs skip cb pie adjL fs).r.frag = some f) :
    ∀ l ∈ placedLines f pie box.erase, l.exempt = true ∨ overflows (c.pageH - bs) (l.y + l.lineH) = false :=
  (boxF_fits box hd hh c idx y bs skip cb pie adjL fs ha hinv).1 f hf

/-- **`page_bottom` bookkeeping is exact** (no bottom decoration on the area): after any layout the page bottom is
the page box bottom minus the margin height of the footnote area (or untouched when no footnote was ever laid
out), and never exceeds the page box bottom. -/
theorem page_bottom_exact (box : FootBox) (hd : DecoOk box.erase) (hh : HeightsOk box) (c : FCtx) (idx : Nat)
    (y bs : Rat) (skip : Option Resume) (cb pie : Bool) (adjL : List Rat) (fs : FState) (ha : AreaHyp c.area)
    (hinv : PbInv c fs) :
    PbInv c (layoutBoxF c box idx y bs skip cb pie adjL fs).fs ∧
    (layoutBoxF c box idx y bs skip cb pie adjL fs).fs.pageBottom ≤ c.pageH :=
  ⟨(boxF_fits box hd hh c idx y bs skip cb pie adjL fs ha hinv).2,
   ((boxF_fits box hd hh c idx y bs skip cb pie adjL fs ha hinv).2).le ha⟩

/-! ### pages -/

def pageSourceF (d : FDoc) (p : FPage) : FootBox := if p.page.type.blank then emptyRootF d.root else d.root

theorem heightsOk_emptyRootF (b : FootBox) : HeightsOk (emptyRootF b) := by
  cases b <;> simp [emptyRootF, HeightsOk, HeightsOkList]

theorem placeReported_inv (c : FCtx) (L : List Fn) (i : Nat) (fs : FState) (ha : AreaHyp c.area) (h : PbInv c fs)
    (hL : ∀ f ∈ L, 0 ≤ f.height) : PbInv c (placeReported c L i fs) := by
  induction L generalizing i fs with
  | nil => exact h
  | cons f rest ih =>
    have hf := hL f (by simp)
    have h0 : PbInv c { fs with pending := fs.pending ++ [f] } := h
    have h1 := layoutFootnote_inv c _ f ha h0 hf
    unfold placeReported
    dsimp only
    split
    · have h2 := reportFootnote_inv c _ f ha h1 hf
      exact ⟨h2.1, h2.2.1, fun g hg => hL g hg⟩
    · exact ih _ _ h1 (fun g hg => hL g (by simp [hg]))

/-- One page: the lines fit, and what the page postpones still has non-negative heights. -/
theorem remakePageF_line_fits (d : FDoc) (hd : DecoOk d.root.erase) (hh : HeightsOk d.root) (ha : AreaHyp d.area)
    (index : Nat) (resume : Option Resume) (np : NextPage) (right : Bool) (pending reported : List Fn)
    (hrep : ∀ f ∈ reported, 0 ≤ f.height) (p : FPage)
    (hp : remakePageF d index resume np right pending reported = some p) :
    (∀ l ∈ (placedLines p.page.root true (pageSourceF d p).erase).tail,
      l.y + l.lineH ≤ d.pageH * (1 + 1 / 1000000000)) ∧
    (∀ f ∈ p.reported, 0 ≤ f.height) := by
  unfold remakePageF at hp
  dsimp only at hp
  split at hp
  · cases hp
  · rename_i f hfrag
    simp only [Option.some.injEq] at hp
    have hinv0 : PbInv (pageCtx d index np) (pageStart d (pageCtx d index np) pending reported) := by
      unfold pageStart
      apply placeReported_inv _ _ _ _ ha _ hrep
      exact ⟨by simp, Or.inl ⟨rfl, rfl⟩, by simp⟩
    have hsrc : DecoOk (if isBlankF d resume np right reported = true then emptyRootF d.root else d.root).erase ∧
        HeightsOk (if isBlankF d resume np right reported = true then emptyRootF d.root else d.root) := by
      split
      · exact ⟨by rw [erase_emptyRootF]; exact decoOk_emptyRoot _ hd, heightsOk_emptyRootF _⟩
      · exact ⟨hd, hh⟩
    have hfit := boxF_fits _ hsrc.1 hsrc.2 (pageCtx d index np) 0 0 0 resume false true []
      (pageStart d (pageCtx d index np) pending reported) ha hinv0
    subst hp
    constructor
    · intro l hl
      have hex := (placedLines_exempt f true (pageSourceF d _).erase).1 l hl
      have hmem := List.mem_of_mem_tail hl
      simp only [pageSourceF] at hex hmem
      rcases hfit.1 f hfrag l hmem with h | h
      · rw [hex] at h; cases h
      · simp only [ctxH, pageCtx, Ctx.overflowsPage, overflows, PlacedLine.bottom] at h
        grind
    · exact hfit.2.2.2

/-- **Line fits, all pages of a footnote document** (C03): on every page, every line but possibly the first ends
above the bottom of the page box. -/
theorem paginate_line_fits (d : FDoc) (hd : DecoOk d.root.erase) (hh : HeightsOk d.root) (ha : AreaHyp d.area)
    (fuel : Nat) (pages : List FPage) (h : paginateFoot d fuel = some pages) :
    ∀ p ∈ pages, ∀ l ∈ (placedLines p.page.root true (pageSourceF d p).erase).tail,
      l.y + l.lineH ≤ d.pageH * (1 + 1 / 1000000000) := by
  have key : ∀ (fuel index : Nat) (resume : Option Resume) (np : NextPage) (right : Bool)
      (pending reported : List Fn) (pages : List FPage), (∀ f ∈ reported, 0 ≤ f.height) →
      makeAllPagesF d fuel index resume np right pending reported = some pages →
      ∀ p ∈ pages, ∀ l ∈ (placedLines p.page.root true (pageSourceF d p).erase).tail,
        l.y + l.lineH ≤ d.pageH * (1 + 1 / 1000000000) := by
    intro fuel
    induction fuel with
    | zero => intro index resume np right pending reported pages _ h; simp [makeAllPagesF] at h
    | succ fuel ih =>
      intro index resume np right pending reported pages hrep h
      unfold makeAllPagesF at h
      split at h
      · cases h
      · rename_i p hp
        obtain ⟨hpage, hrep'⟩ := remakePageF_line_fits d hd hh ha index resume np right pending reported hrep p hp
        split at h
        · simp only [Option.some.injEq] at h
          subst h
          intro q hq
          simp only [List.mem_singleton] at hq
          subst hq
          exact hpage
        · split at h
          · rename_i ps hps
            simp only [Option.some.injEq] at h
            subst h
            intro q hq
            rcases List.mem_cons.mp hq with rfl | hq
            · exact hpage
            · exact ih _ _ _ _ _ _ ps hrep' hps q hq
          · cases h
  unfold paginateFoot at h
  exact key fuel 0 none _ _ _ [] pages (by simp) h

/-! ### the footnote area -/

/-- The footnote area's margin box ends exactly at the bottom of the page box. -/
theorem area_at_page_bottom (a : AreaStyle) (pageH : Rat) (cur : List Fn) (o : AreaOut)
    (h : areaOut a pageH cur = some o) : o.y + (areaLayout a pageH cur).marginHeight = pageH :=
  areaOut_bottom a pageH cur o h

/-- The footnotes of the area are stacked from its content top: the `i`-th starts where the previous ones end. -/
theorem area_stacked (y : Rat) (l : List Fn) :
    (areaKids y l).map (fun k => k.2.1) = (List.range l.length).map (fun i => y + sumHeights (l.take i)) :=
  areaKids_stack y l

/-! ### non-vacuity -/

example : DecoOk C01Foot.exDoc.root.erase ∧ HeightsOk C01Foot.exDoc.root ∧ AreaHyp C01Foot.exDoc.area := by
  refine ⟨?_, ?_, ⟨rfl, rfl, rfl, by decide +kernel⟩⟩
  · simp [C01Foot.exDoc, C01Foot.exDocOf, FootBox.erase, eraseList, DecoOk, DecoOkList, PStyle.DecoOk, C01Foot.exSt]
    decide +kernel
  · simp only [C01Foot.exDoc, C01Foot.exDocOf, HeightsOk, HeightsOkList, List.mem_cons, List.not_mem_nil, or_false,
      forall_eq_or_imp, forall_eq, and_true]
    decide +kernel

/-- The lines of `exDoc`'s pages (exempt?, line, y), the first of each page exempt … -/
example : (paginateFoot C01Foot.exDoc 20).map (fun ps => ps.map (fun p =>
      (placedLines p.page.root true (pageSourceF C01Foot.exDoc p).erase).map (fun l => (l.exempt, l.line, l.y)))) =
    some [[(true, 0, 0), (false, 1, 10), (false, 2, 20)], [(true, 3, 0)], [(true, 4, 0)]] := by decide +kernel

/-- … and the footnote areas (y, height) on the 40px pages: 10px at y = 30 under lines ending at 30, etc. -/
example : (paginateFoot C01Foot.exDoc 20).map (fun ps => ps.map (fun p => p.area.map (fun a => (a.y, a.h)))) =
    some [some (30, 10), some (20, 20), some (10, 30)] := by decide +kernel

end Wp.C03FootGeo
