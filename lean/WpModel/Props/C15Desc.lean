/-
C15 — `@counter-style` descriptors: theorems about `Model/CounterDescriptors.lean` (the validators of
css/validation/descriptors.py and the rule-level checks of preprocess_stylesheet), and their link to
`render_value`: what the validators accept is what steps 2–3 of `render_value` can work with — except
`range: auto`, which they turn into a value `render_value` cannot read (finding `range-auto-crash`).
-/
import WpModel.Model.CounterDescriptors

namespace Wp.C15
open Wp.Counters Wp.CounterDescriptors

/-! ## `additive-symbols`: weights strictly decreasing -/

private theorem all_gt_of_last (acc : List (Nat × Sym)) (last r : Nat × Sym)
    (hp : acc.Pairwise (fun a b => a.1 > b.1)) (hl : acc.getLast? = some last) (h : ¬ last.1 ≤ r.1) :
    ∀ a ∈ acc, a.1 > r.1 := by
  intro a ha
  have hlast : last ∈ acc := List.mem_of_getLast? hl
  by_cases e : a = last
  · subst e; omega
  · -- `a` comes before `last` in a pairwise-decreasing list
    have : a.1 > last.1 := by
      obtain ⟨pre, hacc⟩ : ∃ pre, acc = pre ++ [last] := by
        have := List.getLast?_eq_some_iff.mp hl
        obtain ⟨pre, h⟩ := this
        exact ⟨pre, h⟩
      subst hacc
      rw [List.pairwise_append] at hp
      have ha' : a ∈ pre := by
        rcases List.mem_append.mp ha with h1 | h1
        · exact h1
        · simp at h1; exact absurd h1 e
      exact hp.2.2 a ha' last (by simp)
    omega

private theorem additiveLoopV_sorted : ∀ (parts : List (List Tok)) (acc out : List (Nat × Sym)),
    acc.Pairwise (fun a b => a.1 > b.1) → additiveLoopV parts acc = some out →
    out.Pairwise (fun a b => a.1 > b.1) := by
  intro parts
  induction parts with
  | nil => intro acc out hp h; simp [additiveLoopV] at h; subst h; exact hp
  | cons p rest ih =>
    intro acc out hp h
    unfold additiveLoopV at h
    cases hpad : pad p with
    | none => simp [hpad] at h
    | some r =>
      simp only [hpad] at h
      cases hl : acc.getLast? with
      | none =>
        simp only [hl] at h
        have : acc = [] := by simpa using hl
        subst this
        exact ih _ out (by simp) h
      | some last =>
        simp only [hl] at h
        by_cases hle : last.1 ≤ r.1
        · simp [hle] at h
        · simp only [hle, if_false] at h
          apply ih _ out _ h
          rw [List.pairwise_append]
          exact ⟨hp, by simp, fun a ha b hb => by
            have hbr : b = r := by simpa using hb
            rw [hbr]; exact all_gt_of_last acc last r hp hl hle a ha⟩

/-- What the `additive-symbols` validator accepts lists its weights in strictly decreasing order
(so `C15.additive_sorted` applies to every registered additive style). -/
theorem additive_validated_descending (toks : List Tok) (l : List (Nat × Sym))
    (h : additiveSymbols toks = some l) : l.Pairwise (fun a b => a.1 > b.1) :=
  additiveLoopV_sorted _ [] l (by simp) h

/-! ## `range` -/

/-- A validated `(min, max)` pair is ordered; bounds are `-inf` only on the left, `+inf` only on the right. -/
theorem range_validated_ordered (toks : List Tok) (lo hi : Bound) (h : rangePart toks = some (.pair lo hi)) :
    lo ≠ .posInf ∧ hi ≠ .negInf ∧ ∀ x y, lo = .fin x → hi = .fin y → x ≤ y := by
  unfold rangePart at h
  split at h
  · split at h <;> simp at h
  · rename_i a b
    cases hlo : loBound a with
    | none => simp [hlo] at h
    | some lo' =>
      cases hhi : hiBound b with
      | none => simp [hlo, hhi] at h
      | some hi' =>
        simp only [hlo, hhi] at h
        split at h
        · rename_i hle
          simp only [Option.some.injEq, RangeEntry.pair.injEq] at h
          obtain ⟨e1, e2⟩ := h
          subst e1 e2
          refine ⟨?_, ?_, ?_⟩
          · intro e; subst e
            cases a <;> simp [loBound] at hlo
          · intro e; subst e
            cases b <;> simp [hiBound] at hhi
          · intro x y ex ey; subst ex ey; simpa [boundLe] using hle
        · simp at h
  · simp at h

/-- The root of finding `range-auto-crash`: the validator's value for `range: auto` is a one-element
tuple holding the string `'auto'` — not the `'auto'` that `render_value` tests for. -/
theorem range_auto_is_tuple : range [.ident "auto"] = some (.entries [.autoKw]) := by decide

/-- … and `render_value`'s range test raises on it, whatever the value. -/
theorem range_auto_unreadable (d : Desc) (system : String) (v : Int)
    (h : d.range = range [.ident "auto"]) : inRange d system v = .error .valueError := by
  rw [range_auto_is_tuple] at h
  simp [inRange, h, inRanges]

/-! ## `system` and the rule-level checks -/

/-- What the `system` validator returns for a non-`extends` value: one of the six keywords, with a first
value exactly for `fixed`. -/
theorem system_validated_shape (toks : List Tok) (s : Sys) (h : system toks = .ok (some s)) (he : s.ext = false) :
    (s.name = "fixed" ∧ s.fixed.isSome = true) ∨
    ((s.name = "cyclic" ∨ s.name = "numeric" ∨ s.name = "alphabetic" ∨ s.name = "symbolic" ∨ s.name = "additive") ∧
      s.fixed = none) := by
  unfold system at h
  split at h
  · simp at h
  · split at h
    · simp at h
    · rename_i t0 rest
      simp only at h
      split at h
      · -- extends
        split at h
        · split at h
          · split at h
            · simp only [Except.ok.injEq, Option.some.injEq] at h; subst h; simp at he
            · simp at h
          · simp at h
        · simp at h
      · split at h
        · split at h
          · simp only [Except.ok.injEq, Option.some.injEq] at h; subst h; left; simp
          · simp only [Except.ok.injEq, Option.some.injEq] at h; subst h; left; simp
          · simp at h
        · split at h
          · rename_i hk
            simp only [Except.ok.injEq, Option.some.injEq] at h
            subst h
            right
            simp only [Bool.and_eq_true, Bool.or_eq_true, decide_eq_true_eq] at hk
            obtain ⟨_, hk⟩ := hk
            refine ⟨?_, rfl⟩
            rcases hk with (((hk | hk) | hk) | hk) | hk <;> simp [hk]
          · simp at h

private theorem accepted_one (d : Desc) (s : Sys) (hs : d.system = some s) (he : s.ext = false)
    (hn : s.name = "cyclic" ∨ s.name = "fixed" ∨ s.name = "symbolic") (h : ruleAccepted d = true) :
    1 ≤ (d.symbols.getD []).length := by
  rcases hn with hn | hn | hn <;>
  · simp [ruleAccepted, hs, he, hn] at h
    exact Nat.pos_of_ne_zero (fun e => h (List.eq_nil_of_length_eq_zero e))

private theorem accepted_two (d : Desc) (s : Sys) (hs : d.system = some s) (he : s.ext = false)
    (hn : s.name = "alphabetic" ∨ s.name = "numeric") (h : ruleAccepted d = true) :
    2 ≤ (d.symbols.getD []).length := by
  rcases hn with hn | hn <;>
  · simp [ruleAccepted, hs, he, hn] at h
    omega

private theorem accepted_additive (d : Desc) (s : Sys) (hs : d.system = some s) (he : s.ext = false)
    (hn : s.name = "additive") (h : ruleAccepted d = true) : 2 ≤ (d.additive.getD []).length := by
  simp [ruleAccepted, hs, he, hn] at h
  omega

/-- **Registered styles have the symbols their system needs**: for a rule accepted by
`preprocess_stylesheet` whose `system` came from the validator and is not `extends`, step 3 of
`render_value` never raises and never takes the "wrong number of symbols → decimal" exit; it yields an
initial representation or asks for the fallback. -/
theorem registered_style_step3_ok (d : Desc) (s : Sys) (toks : List Tok) (hs : d.system = some s)
    (hv : system toks = .ok (some s)) (he : s.ext = false) (hacc : ruleAccepted d = true) (v : Int) (b : Bool) :
    (∃ t, step3 d s.name s.fixed v b = .initial t) ∨ (∃ w, step3 d s.name s.fixed v b = .fallback w) := by
  have hshape := system_validated_shape toks s hv he
  have symsOf : ∀ k, k ≤ (d.symbols.getD []).length → 1 ≤ k →
      ∃ syms, d.symbols = some syms ∧ k ≤ syms.length := by
    intro k hk h1
    cases hsym : d.symbols with
    | none => simp [hsym] at hk; omega
    | some syms => exact ⟨syms, rfl, by simpa [hsym] using hk⟩
  rcases hshape with ⟨hn, hf⟩ | ⟨hn, hf⟩
  · -- fixed
    obtain ⟨f, hf'⟩ := Option.isSome_iff_exists.mp hf
    obtain ⟨syms, hsym, hlen⟩ := symsOf 1 (accepted_one d s hs he (Or.inr (Or.inl hn)) hacc) (by omega)
    have hl : ¬ syms.length < 1 := by omega
    rw [hn, hf']
    simp only [step3, hsym, hl]
    simp
    split
    · exact Or.inl ⟨_, rfl⟩
    · exact Or.inr ⟨_, rfl⟩
  · rcases hn with hn | hn | hn | hn | hn
    · obtain ⟨syms, hsym, hlen⟩ := symsOf 1 (accepted_one d s hs he (Or.inl hn) hacc) (by omega)
      have hl : ¬ syms.length < 1 := by omega
      rw [hn]; left
      simp [step3, hsym, hl]
    · obtain ⟨syms, hsym, hlen⟩ := symsOf 2 (accepted_two d s hs he (Or.inr hn) hacc) (by omega)
      have hl : ¬ syms.length < 2 := by omega
      rw [hn]; left
      by_cases hv0 : v = 0
      · subst hv0
        cases syms with
        | nil => simp at hlen
        | cons x xs => simp [step3, hsym]
      · simp [step3, hsym, hl, hv0]
    · obtain ⟨syms, hsym, hlen⟩ := symsOf 2 (accepted_two d s hs he (Or.inl hn) hacc) (by omega)
      have hl : ¬ syms.length < 2 := by omega
      rw [hn]; left
      simp [step3, hsym, hl]
    · obtain ⟨syms, hsym, hlen⟩ := symsOf 1 (accepted_one d s hs he (Or.inr (Or.inr hn)) hacc) (by omega)
      have hl : ¬ syms.length < 1 := by omega
      rw [hn]; left
      simp [step3, hsym, hl]
    · have h2 := accepted_additive d s hs he hn hacc
      cases hadd : d.additive with
      | none => simp [hadd] at h2
      | some tuples =>
        have hl : ¬ tuples.length < 1 := by simp [hadd] at h2; omega
        rw [hn]
        simp only [step3, hadd]
        simp only [String.reduceEq, if_false, if_true, hl]
        by_cases hv0 : v = 0
        · simp only [hv0, if_true]
          split
          · exact Or.inl ⟨_, rfl⟩
          · exact Or.inr ⟨_, rfl⟩
        · simp only [hv0, if_false]
          split
          · exact Or.inl ⟨_, rfl⟩
          · exact Or.inr ⟨_, rfl⟩

/-- An `extends` rule is registered whatever it declares (so its own `symbols` may be too few or empty:
findings `extends-own-symbols-loses-sign`, `extends-empty-symbols-index-error`). -/
theorem extends_rule_always_registered (decls : List Decl) (s : Sys)
    (h : (decls.foldl applyDecl {}).system = some s) (he : s.ext = true) :
    buildRule decls = some (decls.foldl applyDecl {}) := by
  simp [buildRule, ruleAccepted, h, he]

/-- `system:` with an empty value makes the validator raise instead of rejecting the declaration
(reported for C07/C02). -/
theorem system_empty_raises : system [] = .error .indexError := rfl

/-- A `pad` value is a non-negative integer and a symbol, in either order. -/
theorem pad_validated (toks : List Tok) (n : Nat) (s : Sym) (h : pad toks = some (n, s)) : toks.length = 2 := by
  unfold pad at h
  split at h
  · assumption
  · simp at h

/-! Non-vacuity -/
section Examples
example : additiveSymbols [.int 10, .ident "X", .comma, .int 5, .ident "V", .comma, .ident "I", .int 1]
    = some [(10, .str "X"), (5, .str "V"), (1, .str "I")] := by decide
example : additiveSymbols [.int 5, .ident "V", .comma, .int 5, .ident "I"] = none := by decide
example : rangePart [.ident "infinite", .int 3] = some (.pair .negInf (.fin 3)) := by decide
example : rangePart [.int 3, .int 1] = none := by decide
example : system [.ident "FIXED", .int (-2)] = .ok (some ⟨false, "fixed", some (-2)⟩) := by rfl
example : system [.ident "extends", .ident "Foo"] = .ok (some ⟨true, "foo", none⟩) := by rfl
example : buildRule [.system ⟨false, "alphabetic", none⟩, .symbols [.str "a"]] = none := by decide
example : (buildRule [.system ⟨true, "lower-alpha", none⟩, .symbols [.str "x"]]).isSome = true := by decide
end Examples

end Wp.C15
