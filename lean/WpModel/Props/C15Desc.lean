/-
C15 — `@counter-style` descriptors: theorems about `Model/CounterDescriptors.lean` (the validators of
css/validation/descriptors.py and the rule-level checks of preprocess_stylesheet), and their link to
`render_value`: what the validators accept is what steps 2–3 of `render_value` can work with — including
`range: auto` since `fix:` 5be1d36 (it used to be stored as `('auto',)`, finding `range-auto-crash`).
-/
import WpModel.Model.CounterDescriptors
import WpModel.Props.C15

namespace Wp.C15
open Wp.Counters Wp.CounterDescriptors

/-! ## `additive-symbols`: weights strictly decreasing -/

private theorem all_gt_of_last (acc : List (Nat × Sym)) (last r : Nat × Sym)
    (hp : acc.Pairwise (fun a b => a.1 > b.1)) (hl : acc.getLast? = some last) (h : ¬ last.1 ≤ r.1) :
    ∀ a ∈ acc, a.1 > r.1 := by
  intro a ha
  have hlast : last ∈ acc := List.mem_of_getLast? hl
  by_cases e : a = last
  · subst e; omega
  · -- `a` comes before `last` in a pairwise-decreasing list
    have : a.1 > last.1 := by
      obtain ⟨pre, hacc⟩ : ∃ pre, acc = pre ++ [last] := by
        have := List.getLast?_eq_some_iff.mp hl
        obtain ⟨pre, h⟩ := this
        exact ⟨pre, h⟩
      subst hacc
      rw [List.pairwise_append] at hp
      have ha' : a ∈ pre := by
        rcases List.mem_append.mp ha with h1 | h1
        · exact h1
        · simp at h1; exact absurd h1 e
      exact hp.2.2 a ha' last (by simp)
    omega

private theorem additiveLoopV_sorted : ∀ (parts : List (List Tok)) (acc out : List (Nat × Sym)),
    acc.Pairwise (fun a b => a.1 > b.1) → additiveLoopV parts acc = some out →
    out.Pairwise (fun a b => a.1 > b.1) := by
  intro parts
  induction parts with
  | nil => intro acc out hp h; simp [additiveLoopV] at h; subst h; exact hp
  | cons p rest ih =>
    intro acc out hp h
    unfold additiveLoopV at h
    cases hpad : pad p with
    | none => simp [hpad] at h
    | some r =>
      simp only [hpad] at h
      cases hl : acc.getLast? with
      | none =>
        simp only [hl] at h
        have : acc = [] := by simpa using hl
        subst this
        exact ih _ out (by simp) h
      | some last =>
        simp only [hl] at h
        by_cases hle : last.1 ≤ r.1
        · simp [hle] at h
        · simp only [hle, if_false] at h
          apply ih _ out _ h
          rw [List.pairwise_append]
          exact ⟨hp, by simp, fun a ha b hb => by
            have hbr : b = r := by simpa using hb
            rw [hbr]; exact all_gt_of_last acc last r hp hl hle a ha⟩

/-- What the `additive-symbols` validator accepts lists its weights in strictly decreasing order
(so `C15.additive_sorted` applies to every registered additive style). -/
theorem additive_validated_descending (toks : List Tok) (l : List (Nat × Sym))
    (h : additiveSymbols toks = some l) : l.Pairwise (fun a b => a.1 > b.1) :=
  additiveLoopV_sorted _ [] l (by simp) h

/-! ## `range` -/

/-- A validated `(min, max)` pair is ordered; bounds are `-inf` only on the left, `+inf` only on the right. -/
theorem range_validated_ordered (toks : List Tok) (lo hi : Bound) (h : rangePart toks = some (.pair lo hi)) :
    lo ≠ .posInf ∧ hi ≠ .negInf ∧ ∀ x y, lo = .fin x → hi = .fin y → x ≤ y := by
  unfold rangePart at h
  split at h
  · rename_i a b
    cases hlo : loBound a with
    | none => simp [hlo] at h
    | some lo' =>
      cases hhi : hiBound b with
      | none => simp [hlo, hhi] at h
      | some hi' =>
        simp only [hlo, hhi] at h
        split at h
        · rename_i hle
          simp only [Option.some.injEq, RangeEntry.pair.injEq] at h
          obtain ⟨e1, e2⟩ := h
          subst e1 e2
          refine ⟨?_, ?_, ?_⟩
          · intro e; subst e
            cases a <;> simp [loBound] at hlo
          · intro e; subst e
            cases b <;> simp [hiBound] at hhi
          · intro x y ex ey; subst ex ey; simpa [boundLe] using hle
        · simp at h
  · simp at h

/-- Regression for the repaired finding `range-auto-crash` (`fix:` 5be1d36): the validator's value for
`range: auto` (any case) is the string `'auto'` that `render_value` tests for — no longer the tuple
`('auto',)`. -/
theorem range_auto_is_keyword :
    range [.ident "auto"] = some .auto ∧ range [.ident "AUTO"] = some .auto := by decide

/-- … and `auto` is not a member of a list of ranges any more. -/
theorem range_auto_in_list_invalid :
    range [.ident "auto", .comma, .int 1, .int 2] = none ∧ range [.int 1, .int 2, .comma, .ident "auto"] = none := by
  decide

private theorem rangePart_is_pair (toks : List Tok) (e : RangeEntry) (h : rangePart toks = some e) :
    e ≠ .autoKw := by
  unfold rangePart at h
  split at h
  · split at h
    · split at h
      · simp only [Option.some.injEq] at h; subst h; simp
      · simp at h
    · simp at h
  · simp at h

private theorem allParts_pairs : ∀ (parts : List (List Tok)) (l : List RangeEntry),
    allParts rangePart parts = some l → RangeEntry.autoKw ∉ l := by
  intro parts
  induction parts with
  | nil => intro l h; simp [allParts] at h; subst h; simp
  | cons p rest ih =>
    intro l h
    unfold allParts at h
    cases hp : rangePart p with
    | none => simp [hp] at h
    | some e =>
      simp only [hp] at h
      cases hr : allParts rangePart rest with
      | none => simp [hr] at h
      | some l' =>
        simp only [hr, Option.map_some, Option.some.injEq] at h
        subst h
        intro hm
        rcases List.mem_cons.mp hm with h1 | h1
        · exact rangePart_is_pair p e hp h1.symm
        · exact ih l' hr h1

/-- **C15.validated_range_is_pairs** — every tuple the `range` validator returns holds `(min, max)` pairs
only. -/
theorem validated_range_is_pairs (toks : List Tok) (l : List RangeEntry) (h : range toks = some (.entries l)) :
    RangeEntry.autoKw ∉ l := by
  unfold range at h
  split at h
  · simp at h
  · cases hl : rangeList toks with
    | none => simp [hl] at h
    | some l' =>
      simp only [hl, Option.map_some, Option.some.injEq, RangeDesc.entries.injEq] at h
      subst h
      exact allParts_pairs _ _ hl

/-- **C15.range_test_total** (full strength since `fix:` 5be1d36; it was `range_test_total_partial` with the
hypothesis "no `'auto'` inside the tuple", refuted by the witness `range_auto_raises` for `range: auto`):
on a style whose `range` is absent or came from the validator — whatever the tokens — step 2 of
`render_value` never raises. -/
theorem range_test_total (counter : Desc) (system : String) (v : Int) (toks : List Tok)
    (h : counter.range = none ∨ counter.range = range toks) : ∃ b, inRange counter system v = .ok b := by
  apply range_test_total_pairs
  intro l hl
  rcases h with h | h
  · rw [h] at hl; simp at hl
  · rw [h] at hl; exact validated_range_is_pairs toks l hl

/-- `range: auto` means the automatic range of the system (css-counter-styles-3 §3.3). -/
theorem range_auto_reads_as_auto (d : Desc) (system : String) (v : Int) (h : d.range = range [.ident "auto"]) :
    inRange d system v = .ok ((autoRange system).1.leInt v && (autoRange system).2.geInt v) := by
  rw [range_auto_is_keyword.1] at h
  simp only [inRange, h]

/-! ## `system` and the rule-level checks -/

/-- What the `system` validator returns for a non-`extends` value: one of the six keywords, with a first
value exactly for `fixed`. -/
theorem system_validated_shape (toks : List Tok) (s : Sys) (h : system toks = .ok (some s)) (he : s.ext = false) :
    (s.name = "fixed" ∧ s.fixed.isSome = true) ∨
    ((s.name = "cyclic" ∨ s.name = "numeric" ∨ s.name = "alphabetic" ∨ s.name = "symbolic" ∨ s.name = "additive") ∧
      s.fixed = none) := by
  unfold system at h
  split at h
  · simp at h
  · split at h
    · simp at h
    · rename_i t0 rest
      simp only at h
      split at h
      · -- extends
        split at h
        · split at h
          · split at h
            · simp only [Except.ok.injEq, Option.some.injEq] at h; subst h; simp at he
            · simp at h
          · simp at h
        · simp at h
      · split at h
        · split at h
          · simp only [Except.ok.injEq, Option.some.injEq] at h; subst h; left; simp
          · simp only [Except.ok.injEq, Option.some.injEq] at h; subst h; left; simp
          · simp at h
        · split at h
          · rename_i hk
            simp only [Except.ok.injEq, Option.some.injEq] at h
            subst h
            right
            simp only [Bool.and_eq_true, Bool.or_eq_true, decide_eq_true_eq] at hk
            obtain ⟨_, hk⟩ := hk
            refine ⟨?_, rfl⟩
            rcases hk with (((hk | hk) | hk) | hk) | hk <;> simp [hk]
          · simp at h

private theorem accepted_one (d : Desc) (s : Sys) (hs : d.system = some s) (he : s.ext = false)
    (hn : s.name = "cyclic" ∨ s.name = "fixed" ∨ s.name = "symbolic") (h : ruleAccepted d = true) :
    1 ≤ (d.symbols.getD []).length := by
  rcases hn with hn | hn | hn <;>
  · simp [ruleAccepted, hs, he, hn] at h
    exact Nat.pos_of_ne_zero (fun e => h (List.eq_nil_of_length_eq_zero e))

private theorem accepted_two (d : Desc) (s : Sys) (hs : d.system = some s) (he : s.ext = false)
    (hn : s.name = "alphabetic" ∨ s.name = "numeric") (h : ruleAccepted d = true) :
    2 ≤ (d.symbols.getD []).length := by
  rcases hn with hn | hn <;>
  · simp [ruleAccepted, hs, he, hn] at h
    omega

private theorem accepted_additive (d : Desc) (s : Sys) (hs : d.system = some s) (he : s.ext = false)
    (hn : s.name = "additive") (h : ruleAccepted d = true) : 2 ≤ (d.additive.getD []).length := by
  simp [ruleAccepted, hs, he, hn] at h
  omega

/-- **Registered styles have the symbols their system needs**: for a rule accepted by
`preprocess_stylesheet` whose `system` came from the validator and is not `extends`, step 3 of
`render_value` never raises and never takes the "wrong number of symbols → decimal" exit; it yields an
initial representation or asks for the fallback. -/
theorem registered_style_step3_ok (d : Desc) (s : Sys) (toks : List Tok) (hs : d.system = some s)
    (hv : system toks = .ok (some s)) (he : s.ext = false) (hacc : ruleAccepted d = true) (v : Int) (b : Bool) :
    (∃ t, step3 d s.name s.fixed v b = .initial t) ∨ (∃ w, step3 d s.name s.fixed v b = .fallback w) := by
  have hshape := system_validated_shape toks s hv he
  have symsOf : ∀ k, k ≤ (d.symbols.getD []).length → 1 ≤ k →
      ∃ syms, d.symbols = some syms ∧ k ≤ syms.length := by
    intro k hk h1
    cases hsym : d.symbols with
    | none => simp [hsym] at hk; omega
    | some syms => exact ⟨syms, rfl, by simpa [hsym] using hk⟩
  rcases hshape with ⟨hn, hf⟩ | ⟨hn, hf⟩
  · -- fixed
    obtain ⟨f, hf'⟩ := Option.isSome_iff_exists.mp hf
    obtain ⟨syms, hsym, hlen⟩ := symsOf 1 (accepted_one d s hs he (Or.inr (Or.inl hn)) hacc) (by omega)
    have hl : ¬ syms.length < 1 := by omega
    rw [hn, hf']
    simp only [step3, hsym, hl]
    simp
    split
    · exact Or.inl ⟨_, rfl⟩
    · exact Or.inr ⟨_, rfl⟩
  · rcases hn with hn | hn | hn | hn | hn
    · obtain ⟨syms, hsym, hlen⟩ := symsOf 1 (accepted_one d s hs he (Or.inl hn) hacc) (by omega)
      have hl : ¬ syms.length < 1 := by omega
      rw [hn]; left
      simp [step3, hsym, hl]
    · obtain ⟨syms, hsym, hlen⟩ := symsOf 2 (accepted_two d s hs he (Or.inr hn) hacc) (by omega)
      have hl : ¬ syms.length < 2 := by omega
      rw [hn]; left
      by_cases hv0 : v = 0
      · simp [step3, hsym, hl, hv0]
      · simp [step3, hsym, hl, hv0]
    · obtain ⟨syms, hsym, hlen⟩ := symsOf 2 (accepted_two d s hs he (Or.inl hn) hacc) (by omega)
      have hl : ¬ syms.length < 2 := by omega
      rw [hn]; left
      simp [step3, hsym, hl]
    · obtain ⟨syms, hsym, hlen⟩ := symsOf 1 (accepted_one d s hs he (Or.inr (Or.inr hn)) hacc) (by omega)
      have hl : ¬ syms.length < 1 := by omega
      rw [hn]; left
      simp [step3, hsym, hl]
    · have h2 := accepted_additive d s hs he hn hacc
      cases hadd : d.additive with
      | none => simp [hadd] at h2
      | some tuples =>
        have hl : ¬ tuples.length < 1 := by simp [hadd] at h2; omega
        rw [hn]
        simp only [step3, hadd]
        simp only [String.reduceEq, if_false, if_true, hl]
        by_cases hv0 : v = 0
        · simp only [hv0, if_true]
          split
          · exact Or.inl ⟨_, rfl⟩
          · exact Or.inr ⟨_, rfl⟩
        · simp only [hv0, if_false]
          split
          · exact Or.inl ⟨_, rfl⟩
          · exact Or.inr ⟨_, rfl⟩

/-- An `extends` rule is registered whatever it declares (so its own `symbols` may be too few: step 3 then
takes the decimal exit with the original value, `C15.decimal_fallback_value`). -/
theorem extends_rule_always_registered (decls : List Decl) (s : Sys)
    (h : (decls.foldl applyDecl {}).system = some s) (he : s.ext = true) :
    buildRule decls = some (decls.foldl applyDecl {}) := by
  simp [buildRule, ruleAccepted, h, he]

/-- `system` called directly on an empty value raises (`tokens[0]`) … -/
theorem system_empty_raises : system [] = .error .indexError := rfl

private theorem system_cons_ok (t0 : Tok) (rest : List Tok) : ∃ r, system (t0 :: rest) = .ok r := by
  unfold system
  split
  · exact ⟨_, rfl⟩
  · simp only
    repeat' split
    all_goals exact ⟨_, rfl⟩

/-- … it is the only failure point of the validators … -/
theorem validate_error_only_empty (name : String) (toks : List Tok) (e : DErr)
    (h : validate name toks = some (.error e)) : toks = [] := by
  cases toks with
  | nil => rfl
  | cons t0 rest =>
    exfalso
    unfold validate at h
    split at h <;> try (simp at h; done)
    obtain ⟨r, hr⟩ := system_cons_ok t0 rest
    simp [hr, Except.map] at h

/-- **C15.preprocess_descriptors_total** (since `fix:` d71ddd0, which rejects an empty value before the
validator is called): collecting the declarations of a `@counter-style` rule never raises. -/
theorem preprocess_descriptors_total : ∀ (decls : List (String × List Tok)) (acc : List Decl),
    ∃ ds, preprocessDescriptors decls acc = .ok ds := by
  intro decls
  induction decls with
  | nil => intro acc; exact ⟨acc, rfl⟩
  | cons d rest ih =>
    intro acc
    obtain ⟨n, toks⟩ := d
    unfold preprocessDescriptors
    cases h1 : preprocessOne n toks with
    | ok r => cases r with
      | none => exact ih acc
      | some x => exact ih _
    | error e =>
      exfalso
      unfold preprocessOne at h1
      split at h1
      · simp at h1
      · rename_i hne
        cases hv : validate n toks with
        | none => simp [hv] at h1
        | some r =>
          simp only [hv] at h1
          subst h1
          have := validate_error_only_empty n toks e hv
          subst this
          simp at hne

/-- An empty value leaves the descriptor unset (`symbols: ;` no longer registers the empty tuple). -/
theorem preprocess_empty_ignored (name : String) : preprocessOne name [] = .ok none := rfl

/-- A `pad` value is a non-negative integer and a symbol, in either order. -/
theorem pad_validated (toks : List Tok) (n : Nat) (s : Sym) (h : pad toks = some (n, s)) : toks.length = 2 := by
  unfold pad at h
  split at h
  · assumption
  · simp at h

/-! ## From the parsed rule to `render_value`: a registered rule renders without raising -/

/-- A declaration that came out of a validator (on a non-empty value). -/
def Validated (d : Decl) : Prop := ∃ name toks, validate name toks = some (.ok (some d))

private theorem preprocessOne_validated (name : String) (toks : List Tok) (d : Decl)
    (h : preprocessOne name toks = .ok (some d)) : Validated d := by
  unfold preprocessOne at h
  split at h
  · simp at h
  · cases hv : validate name toks with
    | none => simp [hv] at h
    | some r => simp only [hv] at h; subst h; exact ⟨name, toks, hv⟩

/-- Everything `preprocess_descriptors` yields came out of a validator. -/
theorem preprocess_validated : ∀ (decls : List (String × List Tok)) (acc ds : List Decl),
    preprocessDescriptors decls acc = .ok ds → (∀ d ∈ acc, Validated d) → ∀ d ∈ ds, Validated d := by
  intro decls
  induction decls with
  | nil => intro acc ds h hacc; simp [preprocessDescriptors] at h; subst h; exact hacc
  | cons x rest ih =>
    intro acc ds h hacc
    obtain ⟨n, toks⟩ := x
    unfold preprocessDescriptors at h
    cases h1 : preprocessOne n toks with
    | error e => simp [h1] at h
    | ok r =>
      cases r with
      | none => simp only [h1] at h; exact ih acc ds h hacc
      | some d =>
        simp only [h1] at h
        apply ih _ ds h
        intro d' hd'
        rcases List.mem_append.mp hd' with hm | hm
        · exact hacc d' hm
        · simp at hm; rw [hm]; exact preprocessOne_validated n toks d h1

private theorem validated_range (r : RangeDesc) (h : Validated (.range r)) : ∃ toks, range toks = some r := by
  obtain ⟨name, toks, hv⟩ := h
  unfold validate at hv
  split at hv
  · cases hs : system toks with
    | error e => simp [hs, Except.map] at hv
    | ok o => cases o <;> simp [hs, Except.map] at hv
  · cases h : negative toks <;> simp [h] at hv
  · cases h : prefixSuffix toks <;> simp [h] at hv
  · cases h : prefixSuffix toks <;> simp [h] at hv
  · cases h : range toks with
    | none => simp [h] at hv
    | some r' => simp [h] at hv; subst hv; exact ⟨toks, h⟩
  · cases h : pad toks <;> simp [h] at hv
  · cases h : fallback toks <;> simp [h] at hv
  · cases h : symbols toks <;> simp [h] at hv
  · cases h : additiveSymbols toks <;> simp [h] at hv
  · simp at hv

private theorem validated_system (s : Sys) (h : Validated (.system s)) : ∃ toks, system toks = .ok (some s) := by
  obtain ⟨name, toks, hv⟩ := h
  unfold validate at hv
  split at hv
  · cases hs : system toks with
    | error e => simp [hs, Except.map] at hv
    | ok o =>
      cases o with
      | none => simp [hs, Except.map] at hv
      | some s' => simp [hs, Except.map] at hv; subst hv; exact ⟨toks, hs⟩
  · cases h : negative toks <;> simp [h] at hv
  · cases h : prefixSuffix toks <;> simp [h] at hv
  · cases h : prefixSuffix toks <;> simp [h] at hv
  · cases h : range toks <;> simp [h] at hv
  · cases h : pad toks <;> simp [h] at hv
  · cases h : fallback toks <;> simp [h] at hv
  · cases h : symbols toks <;> simp [h] at hv
  · cases h : additiveSymbols toks <;> simp [h] at hv
  · simp at hv

private theorem foldl_range (ds : List Decl) : ∀ (d0 : Desc) (r : RangeDesc),
    (ds.foldl applyDecl d0).range = some r → d0.range = some r ∨ Decl.range r ∈ ds := by
  induction ds with
  | nil => intro d0 r h; exact Or.inl h
  | cons x xs ih =>
    intro d0 r h
    rcases ih (applyDecl d0 x) r h with h1 | h1
    · cases x <;> simp [applyDecl] at h1 <;> first | exact Or.inl h1 | (subst h1; exact Or.inr (by simp))
    · exact Or.inr (List.mem_cons_of_mem _ h1)

private theorem foldl_system (ds : List Decl) : ∀ (d0 : Desc) (s : Sys),
    (ds.foldl applyDecl d0).system = some s → d0.system = some s ∨ Decl.system s ∈ ds := by
  induction ds with
  | nil => intro d0 s h; exact Or.inl h
  | cons x xs ih =>
    intro d0 s h
    rcases ih (applyDecl d0 x) s h with h1 | h1
    · cases x <;> simp [applyDecl] at h1 <;> first | exact Or.inl h1 | (subst h1; exact Or.inr (by simp))
    · exact Or.inr (List.mem_cons_of_mem _ h1)

/-- **C15.registered_rule_renders** — from the source text to `render_value`: for every `@counter-style` rule,
whatever its declarations (token soup included), if `preprocess_descriptors` + the rule-level checks register it
and it does not `extends`, then for every value step 2 (range test) does not raise and step 3 yields an initial
representation or asks for the fallback style — it never raises and never takes the "wrong number of symbols"
exit. -/
theorem registered_rule_renders (decls : List (String × List Tok)) (ds : List Decl) (d : Desc)
    (hp : preprocessDescriptors decls [] = .ok ds) (hb : buildRule ds = some d) (he : (sysOf d).1 = false)
    (v : Int) (b : Bool) :
    (∃ r, inRange d (sysOf d).2.1 v = .ok r) ∧
    ((∃ t, step3 d (sysOf d).2.1 (sysOf d).2.2 v b = .initial t) ∨
     (∃ w, step3 d (sysOf d).2.1 (sysOf d).2.2 v b = .fallback w)) := by
  have hval := preprocess_validated decls [] ds hp (by simp)
  have hd : d = ds.foldl applyDecl {} ∧ ruleAccepted d = true := by
    unfold buildRule at hb
    simp only at hb
    split at hb
    · rename_i hacc
      simp only [Option.some.injEq] at hb
      subst hb; exact ⟨rfl, hacc⟩
    · simp at hb
  obtain ⟨hdef, hacc⟩ := hd
  constructor
  · -- step 2
    cases hr : d.range with
    | none => exact range_test_total d _ v [] (Or.inl hr)
    | some r =>
      rcases foldl_range ds {} r (by rw [← hdef]; exact hr) with h0 | hmem
      · simp at h0
      · obtain ⟨toks, ht⟩ := validated_range r (hval _ hmem)
        exact range_test_total d _ v toks (Or.inr (by rw [hr, ht]))
  · -- step 3
    cases hs : d.system with
    | none =>
      -- `system` absent: symbolic, at least one symbol
      have hso : sysOf d = (false, "symbolic", none) := by simp [sysOf, hs]
      rw [hso]
      have h1 : 1 ≤ (d.symbols.getD []).length := by
        simp [ruleAccepted, hs] at hacc
        exact Nat.pos_of_ne_zero (fun e => hacc (List.eq_nil_of_length_eq_zero e))
      cases hsym : d.symbols with
      | none => simp [hsym] at h1
      | some syms =>
        have hl : ¬ syms.length < 1 := by simp [hsym] at h1; omega
        left
        simp [step3, hsym, hl]
    | some s =>
      have hso : sysOf d = (s.ext, s.name, s.fixed) := by simp [sysOf, hs]
      rw [hso] at he ⊢
      rcases foldl_system ds {} s (by rw [← hdef]; exact hs) with h0 | hmem
      · simp at h0
      · obtain ⟨toks, ht⟩ := validated_system s (hval _ hmem)
        exact registered_style_step3_ok d s toks hs ht he hacc v b

/-! Non-vacuity -/
section Examples
example : additiveSymbols [.int 10, .ident "X", .comma, .int 5, .ident "V", .comma, .ident "I", .int 1]
    = some [(10, .str "X"), (5, .str "V"), (1, .str "I")] := by decide
example : additiveSymbols [.int 5, .ident "V", .comma, .int 5, .ident "I"] = none := by decide
example : rangePart [.ident "infinite", .int 3] = some (.pair .negInf (.fin 3)) := by decide
example : rangePart [.int 3, .int 1] = none := by decide
example : range [.int 1, .int 3, .comma, .ident "infinite", .int 0] =
    some (.entries [.pair (.fin 1) (.fin 3), .pair .negInf (.fin 0)]) := by decide
example : inRange { range := range [.ident "Auto"] } "alphabetic" 0 = .ok false := by decide
example : (preprocessDescriptors [("system", [.ident "Numeric"]), ("symbols", [.str "0", .ident "a"]),
    ("range", [.ident "auto"]), ("pad", [])] []).map buildRule =
    .ok (some { system := some ⟨false, "numeric", none⟩, symbols := some [.str "0", .str "a"], range := some .auto }) := by
  rfl
example : preprocessDescriptors [("system", [.ident "extends", .ident "decimal"]), ("symbols", []),
    ("speak-as", [.ident "auto"]), ("range", [.ident "auto"])] [] =
    .ok [.system ⟨true, "decimal", none⟩, .range .auto] := by rfl
example : system [.ident "FIXED", .int (-2)] = .ok (some ⟨false, "fixed", some (-2)⟩) := by rfl
example : system [.ident "extends", .ident "Foo"] = .ok (some ⟨true, "foo", none⟩) := by rfl
example : buildRule [.system ⟨false, "alphabetic", none⟩, .symbols [.str "a"]] = none := by decide
example : (buildRule [.system ⟨true, "lower-alpha", none⟩, .symbols [.str "x"]]).isSome = true := by decide
end Examples

end Wp.C15
