/-
C06 — tuple-valued properties, content lists, `anchor` / `lang`, and the `find_stylesheets` tests
(round 2).  Core Lean only.
-/
import WpModel.Props.C06

namespace Wp.C06
open Wp Wp.Cascade Wp.Computed Wp.Style Wp.StyleDoc Wp.Gen.Units

/-! ## tuple-valued properties: every component goes through `length` -/

/-- `tuple(length(style, name, v, …) for v in values)` keeps the arity. -/
theorem mapLength_length (env : Env) (po : Bool) (l r : List Val) (h : mapLength env po l = .ok r) :
    r.length = l.length := by
  induction l generalizing r with
  | nil => simp [mapLength] at h; subst h; rfl
  | cons v rest ih =>
    simp only [mapLength, bind, Except.bind] at h
    cases hv : length env v none po with
    | error e => rw [hv] at h; cases h
    | ok a =>
      rw [hv] at h
      cases ht : mapLength env po rest with
      | error e => rw [ht] at h; cases h
      | ok t =>
        rw [ht] at h
        simp only [pure, Except.pure, Except.ok.injEq] at h
        subst h
        simp [ih t ht]

/-- Each component is computed by `length` on its own: the i-th result is `length` of the i-th
value (so `em` / `rem` / absolute units in `border-spacing`, `border-radius`, `transform-origin`,
`background-position`, `clip`, `size` … refer to the same references as in a single length). -/
theorem mapLength_get (env : Env) (po : Bool) (l r : List Val) (h : mapLength env po l = .ok r)
    (i : Nat) (v : Val) (hv : l[i]? = some v) : ∃ w, r[i]? = some w ∧ length env v none po = .ok w := by
  induction l generalizing r i with
  | nil => simp at hv
  | cons x rest ih =>
    simp only [mapLength, bind, Except.bind] at h
    cases hx : length env x none po with
    | error e => rw [hx] at h; cases h
    | ok a =>
      rw [hx] at h
      cases ht : mapLength env po rest with
      | error e => rw [ht] at h; cases h
      | ok t =>
        rw [ht] at h
        simp only [pure, Except.pure, Except.ok.injEq] at h
        subst h
        cases i with
        | zero => simp at hv; subst hv; exact ⟨a, by simp, hx⟩
        | succ n => simp at hv ⊢; exact ih t ht n hv

/-- `border-spacing: 1em 2rem` (pixels only) on concrete references. -/
theorem border_spacing_em_rem (env : Env) (fs rs : Rat) (q r : Rat) (hq : q ≠ 0) (hr : r ≠ 0)
    (hfs : env.fontSize () = .ok fs) (hrs : env.rootFontSize () = .ok rs) :
    lengthTuple env (.tup [.dim q "em", .dim r "rem"]) = .ok (.tup [.num (q * fs), .num (r * rs)]) := by
  unfold lengthTuple
  simp only [elems, bind, Except.bind, mapLength, pure, Except.pure]
  rw [length_em_own env q hq true, length_rem env r hr fs true hfs, hfs, hrs]
  simp [Except.map, px, mkTuple, allSome, kwName?]

/-! ## the four-value expansion of the `border-image-*` properties -/

/-- 1 value ↦ all four sides, 2 ↦ (vertical, horizontal), 3 ↦ left = right, 4 ↦ as given. -/
theorem padFour_spec (a b c d : Val) :
    padFour [a] = [a, a, a, a] ∧ padFour [a, b] = [a, b, a, b] ∧
    padFour [a, b, c] = [a, b, c, b] ∧ padFour [a, b, c, d] = [a, b, c, d] := ⟨rfl, rfl, rfl, rfl⟩

theorem padFour_length (l : List Val) (h1 : 1 ≤ l.length) (h4 : l.length ≤ 4) : (padFour l).length = 4 := by
  match l, h1, h4 with
  | [_], _, _ => rfl
  | [_, _], _, _ => rfl
  | [_, _, _], _, _ => rfl
  | [_, _, _, _], _, _ => rfl

/-! ## content, anchor, lang -/

/-- `content: normal` is `contents` on an element and `inhibit` on a pseudo-element; `none` is
`inhibit` on both. -/
theorem content_keywords (env : Env) :
    content env (.strs ["normal"]) = .ok (.kw (if env.pseudo then "inhibit" else "contents")) ∧
    content env (.strs ["none"]) = .ok (.kw "inhibit") := by
  constructor <;> rfl

/-- The content-list item kinds that are their own computed value. -/
def passthroughKinds : List String :=
  ["string", "content", "url", "quote", "leader()", "counter()", "counters()", "content()", "element()", "string()"]

/-- A content list made only of strings, counters, `content()` … is its own computed value
(whatever came before it). -/
theorem content_items_passthrough (env : Env) (prev : Option Val) (l : List Val)
    (h : ∀ item ∈ l, ∃ name rest, item = .strs (name :: rest) ∧ name ∈ passthroughKinds) :
    contentItems env prev l = .ok l := by
  induction l generalizing prev with
  | nil => rfl
  | cons item rest ih =>
    obtain ⟨name, tl, he, hn⟩ := h item (by simp)
    subst he
    have hrest : ∀ it ∈ rest, ∃ name rest, it = .strs (name :: rest) ∧ name ∈ passthroughKinds :=
      fun it hit => h it (List.mem_cons_of_mem _ hit)
    simp only [passthroughKinds, List.mem_cons, List.not_mem_nil, or_false] at hn
    rcases hn with rfl | rfl | rfl | rfl | rfl | rfl | rfl | rfl | rfl | rfl <;>
      simp [contentItems, headName, bind, Except.bind, pure, Except.pure, ih _ hrest] <;> decide

/-- `anchor: none` / `lang: none` compute to `None`; `attr(x)` to the element's attribute (or
`None` when absent or empty); `lang: "fr"` to the string. -/
theorem anchor_lang_spec (env : Env) (key : String) :
    anchor env (.kw "none") = .ok .null ∧ lang env (.kw "none") = .ok .null ∧
    anchor env (.strs ["attr()", key]) = .ok (attrOrNone env key) ∧
    lang env (.strs ["attr()", key]) = .ok (attrOrNone env key) ∧
    lang env (.strs ["string", key]) = .ok (.kw key) := by
  refine ⟨rfl, rfl, rfl, rfl, rfl⟩

/-! ## which `<style>` / `<link>` elements contribute a sheet -/

/-- `find_stylesheets`: an author sheet is used iff its type is `text/css`, its media attribute
selects the device, and — for `<link>` — it has an `href`, its `rel` contains `stylesheet`
(ASCII case-insensitively) and not `alternate`, and the fetch succeeds. -/
theorem sheet_found_iff (device : String) (s : DocSheet) :
    sheetFound device s = true ↔
      s.elem.mime = "text/css" ∧
      (match s.media with | none => True | some m => "all" ∈ m ∨ device ∈ m) ∧
      (s.elem.isLink = true →
        s.elem.hasHref = true ∧ hasLinkType s.elem.rels "stylesheet" = true ∧
        hasLinkType s.elem.rels "alternate" = false ∧ s.elem.fetchOk = true) := by
  unfold sheetFound
  by_cases hm : s.elem.mime = "text/css"
  · simp only [hm, bne_self_eq_false, Bool.false_eq_true, if_false, true_and]
    cases hmed : s.media with
    | none =>
      simp only [Bool.not_true, Bool.false_eq_true, if_false, true_and]
      cases hl : s.elem.isLink <;> cases hh : s.elem.hasHref <;>
        cases h1 : hasLinkType s.elem.rels "stylesheet" <;> cases h2 : hasLinkType s.elem.rels "alternate" <;>
        cases hf : s.elem.fetchOk <;> simp
    | some m =>
      by_cases hq : evaluateMediaQuery m device = true
      · have hq' := (media_applies_iff m device).mp hq
        simp only [hq, Bool.not_true, Bool.false_eq_true, if_false, hq', true_and]
        cases hl : s.elem.isLink <;> cases hh : s.elem.hasHref <;>
          cases h1 : hasLinkType s.elem.rels "stylesheet" <;> cases h2 : hasLinkType s.elem.rels "alternate" <;>
          cases hf : s.elem.fetchOk <;> simp
      · have hq' : ¬ ("all" ∈ m ∨ device ∈ m) := fun h => hq ((media_applies_iff m device).mpr h)
        have hqf : evaluateMediaQuery m device = false := by simpa using hq
        simp [hqf, hq']
  · have : (s.elem.mime != "text/css") = true := by simpa using hm
    simp [this, hm]

/-! ## the document-level model refines the spec -/

private theorem lookup_map_get (st : CStyle Casc) (key : String) :
    lookup key (st.map (fun p => (p.1, p.2.1))) = (st.get key).map (fun r => r.1) := by
  induction st with
  | nil => rfl
  | cons p rest ih =>
    obtain ⟨a, v, w⟩ := p
    simp only [List.map_cons, lookup, CStyle.get]
    by_cases h : (a == key) = true
    · simp [h]
    · simp [h, ih]

/-- Document level: the cascaded value that `ComputedStyle.__missing__` sees for `(element, pseudo)`
and a property is the value of the cascade's winner among all the weighted declarations that the
style attributes, hints and sheets of the document (UA, hints, author sheets found in the document
with their `@import`s and `@media` blocks, user sheets) contribute to that element, in application
order. -/
theorem doc_cascaded_is_winner (doc : Doc) (e : DocElem) (pseudo : Option String) (el : Elem)
    (ds : List (WDecl Casc)) (hd : elementDecls e.attrs (sheetMatches doc e) pseudo = .ok ds)
    (he : elemOf doc e pseudo = .ok el) (key : String) :
    lookup key el.cascaded = (winner (declsFor key ds)).map (fun r => r.1) := by
  unfold elemOf elementCascade at he
  rw [hd] at he
  simp only [Except.map, bind, Except.bind, pure, Except.pure, Except.ok.injEq] at he
  subst he
  simp only
  rw [lookup_map_get, cascade_refines_spec]

/-! ### grid track sizes -/

/-- `_compute_track_breadth`: the three keywords and flexible lengths (`fr`) are their own computed
value; every other `<length-percentage>` goes through `length` (so `em` / `rem` / `ex` / `ch` are
resolved against the same references as everywhere else). -/
theorem track_breadth_spec (env : Env) (q : Rat) (u : String) :
    computeTrackBreadth env (.kw "auto") = .ok (some (.kw "auto")) ∧
    computeTrackBreadth env (.kw "min-content") = .ok (some (.kw "min-content")) ∧
    computeTrackBreadth env (.kw "max-content") = .ok (some (.kw "max-content")) ∧
    computeTrackBreadth env (.dim q "fr") = .ok (some (.dim q "fr")) ∧
    (u ≠ "fr" → computeTrackBreadth env (.dim q u) = (length env (.dim q u)).map some) := by
  refine ⟨rfl, rfl, rfl, ?_, ?_⟩
  · simp [computeTrackBreadth]
  · intro hu
    simp [computeTrackBreadth, hu]

/-- A track list keeps its shape: line names (even positions) are copied, one computed size per
size (odd positions). -/
theorem track_list_one_size (env : Env) (fuel : Nat) (names1 names2 : Val) (q : Rat) (u : String) (hu : u ≠ "fr") :
    trackSizeFrom env (fuel + 4) [names1, .dim q u, names2] 0 =
      (length env (.dim q u)).map (fun l => [names1, l, names2]) := by
  have hb : (u == "fr") = false := by simpa using hu
  simp only [trackSizeFrom, computeTrackBreadth, hb]
  cases length env (.dim q u) <;> simp [bind, Except.bind, pure, Except.pure, Except.map]

/-- `grid-template-*: none` and `subgrid …` are their own computed value. -/
theorem grid_template_keywords (env : Env) (rest : List Val) :
    gridTemplate env (.kw "none") = .ok (.kw "none") ∧
    gridTemplate env (.tup (.kw "subgrid" :: rest)) = .ok (.tup (.kw "subgrid" :: rest)) := by
  constructor
  · rfl
  · simp [gridTemplate, Val.isKw, headName, bind, Except.bind, pure, Except.pure]

example : hasLinkType ["Alternate", "STYLESHEET"] "stylesheet" = true ∧
    hasLinkType ["Alternate", "STYLESHEET"] "alternate" = true := by decide
private def exampleSheet : DocSheet :=
  { kind := .author, media := some ["screen", "print"], rules := [],
    elem := { isLink := true, rels := ["x", "StyleSheet"] } }
example : sheetFound "print" exampleSheet = true := by decide
private def exampleEnv : Env :=
  { fontSize := fun _ => .ok 20, rootFontSize := fun _ => .ok 16, parentFontSize := none,
    parentFontWeight := none, exRatio := 1 / 2, chRatio := 1 / 2, get := fun _ => .ok (.kw "x"),
    specified := fun _ => .ok (.kw "x"), isRoot := true, pseudo := false }
example : (lengthTuple exampleEnv (.tup [.dim 1 "em", .dim 2 "px"])).toOption = some (.tup [.num 20, .num 2]) := by
  decide +kernel
-- `[a] 2em [b] minmax(1em, 1fr) [] repeat(2, [] 1rem [])` at font-size 20px, root 16px
example : (gridTemplate exampleEnv (.tup [.strs ["a"], .dim 2 "em", .strs ["b"],
      .tup [.kw "minmax()", .dim 1 "em", .dim 1 "fr"], .strs [],
      .tup [.kw "repeat()", .num 2, .tup [.strs [], .dim 1 "rem", .strs []]], .strs []])).toOption =
    some (.tup [.strs ["a"], .dim 40 "px", .strs ["b"],
      .tup [.kw "minmax()", .dim 20 "px", .dim 1 "fr"], .strs [],
      .tup [.kw "repeat()", .num 2, .tup [.strs [], .dim 16 "px", .strs []]], .strs []]) := by
  decide +kernel
example : (gridAuto exampleEnv (.tup [.tup [.kw "minmax()", .dim 1 "em", .kw "auto"], .dim 3 "rem"])).toOption =
    some (.tup [.tup [.kw "minmax()", .dim 20 "px", .kw "auto"], .dim 48 "px"]) := by
  decide +kernel
example : (borderImageSlice (.tup [.dim 10 "none", .dim 20 "%", .kw "fill"])).toOption =
    some (.tup [.num 10, .dim 20 "%", .num 10, .dim 20 "%", .kw "fill"]) := by decide +kernel

end Wp.C06
