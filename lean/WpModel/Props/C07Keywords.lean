/-
C07 (part 5) — keyword-only validators (table regenerated from properties.py) and what the expanders rely on:
the keywords they synthesise are valid for their target longhand, the classes they sort tokens into are disjoint.
-/
import WpModel.Model.KeywordsC07
import WpModel.Model.Declarations

namespace Wp.C07
open Wp Wp.Decl Wp.Kw

/-! ## 21. Keyword-only validators -/

/-- A keyword-only property (not comma separated) accepts exactly one identifier token whose lower-case value
is in its table — nothing else: no second token, no non-identifier, no comma list. -/
theorem keyword_valid_iff (name : String) (keywords : List String) (tokens : List KTok) (out : List String)
    (h : entry name = some (keywords, false)) :
    validate name [tokens] = some (some out) ↔ ∃ kw, tokens = [some kw] ∧ kw ∈ keywords ∧ out = [kw] := by
  simp only [validate, h, Bool.false_eq_true, if_false, Option.some.injEq]
  match tokens with
  | [] => simp [validateOne, singleKeyword]
  | [none] => simp [validateOne, singleKeyword]
  | [some kw] =>
    by_cases hk : kw ∈ keywords
    · simp [validateOne, singleKeyword, hk, eq_comm]
    · simp [validateOne, singleKeyword, hk]
  | _ :: _ :: _ => simp [validateOne, singleKeyword]

/-- A comma-separated keyword property accepts exactly the lists all of whose parts are one such identifier. -/
theorem keyword_list_valid_iff (keywords : List String) :
    ∀ (parts : List (List KTok)) (out : List String),
      validateParts keywords parts = some out ↔
        parts.length = out.length ∧ ∀ i (h1 : i < parts.length) (h2 : i < out.length),
          parts[i] = [some out[i]] ∧ out[i] ∈ keywords
  | [], out => by
    cases out <;> simp [validateParts]
  | part :: rest, out => by
    cases out with
    | nil =>
      simp only [validateParts]
      cases validateOne keywords part <;> cases validateParts keywords rest <;> simp
    | cons k ks =>
      have ih := keyword_list_valid_iff keywords rest ks
      simp only [validateParts]
      constructor
      · intro h
        cases h1 : validateOne keywords part with
        | none => simp [h1] at h
        | some kw =>
          cases h2 : validateParts keywords rest with
          | none => simp [h1, h2] at h
          | some kws =>
            simp only [h1, h2, Option.some.injEq, List.cons.injEq] at h
            obtain ⟨rfl, rfl⟩ := h
            have hrest := (ih.mp h2)
            refine ⟨by simp [hrest.1], ?_⟩
            intro i hi1 hi2
            cases i with
            | zero =>
              simp only [List.getElem_cons_zero]
              unfold validateOne at h1
              cases hs : singleKeyword part with
              | none => simp [hs] at h1
              | some kw' =>
                simp only [hs] at h1
                by_cases hc : keywords.contains kw' = true
                · rw [if_pos hc] at h1
                  cases h1
                  refine ⟨?_, by simpa using hc⟩
                  match part, hs with
                  | [some x], hs => simp [singleKeyword] at hs; subst hs; rfl
                · rw [if_neg hc] at h1
                  cases h1
            | succ j =>
              simp only [List.getElem_cons_succ]
              exact hrest.2 j (by simpa using hi1) (by simpa using hi2)
      · rintro ⟨hl, hall⟩
        have h0 := hall 0 (by simp) (by simp)
        simp only [List.getElem_cons_zero] at h0
        have hrest : validateParts keywords rest = some ks := by
          apply ih.mpr
          refine ⟨by simpa using hl, fun i h1 h2 => ?_⟩
          have := hall (i + 1) (by simpa using h1) (by simpa using h2)
          simpa using this
        have hone : validateOne keywords part = some k := by
          rw [h0.1]
          simp [validateOne, singleKeyword, h0.2]
        simp [hone, hrest]

example : validate "border-collapse" [[some "collapse"]] = some (some ["collapse"]) ∧
    validate "border-collapse" [[some "collapse", some "separate"]] = some none ∧
    validate "background-attachment" [[some "scroll"], [some "fixed"]] = some (some ["scroll", "fixed"]) ∧
    validate "width" [[some "auto"]] = none := by decide

/-! ## 22. What the expanders take for granted about those tables -/

private def kws (name : String) : List String := ((entry name).map (·.1)).getD []

/-- `outline-style` is `border-style` without `hidden` (why `outline: hidden` is classified as a style by
`expand_border_side` and then refused by the longhand). -/
theorem outline_style_is_border_style_minus_hidden :
    (kws "border-top-style").filter (· != "hidden") = kws "outline-style" := by decide

/-- The four border sides and `column-rule-style` share one table. -/
theorem border_styles_agree :
    kws "border-top-style" = kws "border-right-style" ∧ kws "border-top-style" = kws "border-bottom-style" ∧
    kws "border-top-style" = kws "border-left-style" ∧ kws "border-top-style" = kws "column-rule-style" := by decide

/-- `flex-flow`: no keyword is both a direction and a wrap mode, so the two components can be told apart in
any order. -/
theorem flex_flow_classes_disjoint : ∀ k ∈ kws "flex-direction", k ∉ kws "flex-wrap" := by decide

/-- **`flex-flow: a b` = `flex-flow: b a`** whenever no token is both a direction and a wrap mode (true of the
generated tables: `flex_flow_classes_disjoint`). -/
theorem flex_flow_perm {α : Type} (a b : FlowTok α) (ha : ¬(a.isDirection = true ∧ a.isWrap = true))
    (hb : ¬(b.isDirection = true ∧ b.isWrap = true)) :
    (flexFlowRaw [a, b]).items = (flexFlowRaw [b, a]).items ∧ (flexFlowRaw [a, b]).ends = (flexFlowRaw [b, a]).ends := by
  obtain ⟨ad, aw, x⟩ := a
  obtain ⟨bd, bw, y⟩ := b
  cases ad <;> cases aw <;> cases bd <;> cases bw <;> simp_all [flexFlowRaw]

/-- The keywords `page-break-before/after/inside` forward or synthesise (`always` ↦ `page`) are accepted by
`break-before`, `break-after`, `break-inside`: the rename can only be refused by the shorthand itself. -/
theorem page_break_targets_valid :
    (∀ k ∈ ["auto", "left", "right", "avoid", "page"], k ∈ kws "break-before" ∧ k ∈ kws "break-after") ∧
    (∀ k ∈ ["auto", "avoid"], k ∈ kws "break-inside") := by decide

/-- The identifiers `text-align` synthesises (`justify-all` ↦ `justify`, last line of `justify` ↦ `start`) are
valid for `text-align-all` / `text-align-last`, and every `text-align-all` keyword but `justify` is a valid
`text-align-last` (it is copied there). -/
theorem text_align_targets_valid :
    "justify" ∈ kws "text-align-all" ∧ "start" ∈ kws "text-align-last" ∧
    ∀ k ∈ kws "text-align-all", k ≠ "justify" → k ∈ kws "text-align-last" := by decide

/-- The identifiers `line-clamp` synthesises for `continue` are in its table. -/
theorem line_clamp_targets_valid : "auto" ∈ kws "continue" ∧ "discard" ∈ kws "continue" := by decide

/-- The style keywords `expand_text_decoration` tests for are exactly the `text-decoration-style` table, and
none of them is a line keyword. -/
theorem text_decoration_style_table :
    kws "text-decoration-style" = ["solid", "double", "dotted", "dashed", "wavy"] ∧
    ∀ k ∈ kws "text-decoration-style", k ∉ ["none", "underline", "overline", "line-through", "blink"] := by decide

/-- `word-wrap` forwards to `overflow-wrap`, whose table is: -/
theorem overflow_wrap_table : kws "overflow-wrap" = ["anywhere", "normal", "break-word"] := by decide

end Wp.C07
