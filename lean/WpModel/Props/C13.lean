/-
C13 — Replaced content: sizing rules, painted rectangle, embedded once.
Property theorems only (helper lemmas: `WpModel/Lemmas/Replaced.lean`, `Lemmas/ImageDedupe.lean`).
Every statement is about the hand models of `layout/replaced.py`, `layout/min_max.py`,
`layout/background.py`, `pdf/stream.py::add_image`, `pdf/__init__.py::_use_references`,
`images.py::RasterImage.draw`, `draw/__init__.py::draw_replacedbox`, tied to the source by the exact
correspondence of `py/props/c13.py` and by `Gen/ReplacedConsts` (regenerated each run).
-/
import WpModel.Lemmas.Replaced
import WpModel.Lemmas.ImageDedupe
import WpModel.Lemmas.ReplacedBg
import WpModel.Model.ReplacedBg
import WpModel.Model.ImageDraw
import WpModel.Model.RasterEmbed
import WpModel.Model.ReplacedDoc
import WpModel.Lemmas.ReplacedDoc
import WpModel.Lemmas.ReplacedRtl
import WpModel.Gen.ImageInherited
import WpModel.Model.CanvasBg
import WpModel.Lemmas.ImageId

set_option linter.unusedSimpArgs false
set_option linter.unusedVariables false
set_option linter.unnecessarySeqFocus false

namespace Wp.C13
open Wp Wp.Replaced

/-! ## C13.used_size — CSS 2.1 10.3.2 / 10.6.2 -/

/-- `RasterImage.get_intrinsic_size`: the intrinsic size is the pixel size divided by
`image-resolution`, and its quotient is the pixel ratio. -/
theorem raster_intrinsic (pw ph res : Rat) (hres : res ≠ 0) (hph : ph ≠ 0) :
    rasterIntrinsic pw ph res (pw / ph) = .ok ⟨some (pw / res), some (ph / res), some (pw / ph)⟩ ∧
    (pw / res) / (ph / res) = pw / ph := by
  refine ⟨by simp [rasterIntrinsic, pyDiv, hres, bind, Except.bind, pure, Except.pure], ?_⟩
  field_simp

/-- Both `width` and `height` auto, intrinsic width, height and (consistent) ratio known, no
min/max violated: the used size is the intrinsic size. -/
theorem used_size_intrinsic (i : Intr) (cb : Cb) (b : RBox) (iw ih : Rat)
    (hw : b.width = none) (hh : b.height = none)
    (hiw : i.w = some iw) (hih : i.h = some ih) (hr : i.ratio = some (iw / ih))
    (piw : 0 < iw) (pih : 0 < ih)
    (hvw : viol iw b.minWidth (capMax b.minWidth b.maxWidth) = .ok)
    (hvh : viol ih b.minHeight (capMax b.minHeight b.maxHeight) = .ok) :
    ∃ b', inlineReplacedWH true i cb b = .ok b' ∧ b'.width = some iw ∧ b'.height = some ih := by
  have hr0 : iw / ih ≠ 0 := div_ne_zero (ne_of_gt piw) (ne_of_gt pih)
  have hquot : iw / (iw / ih) = ih := by field_simp
  have e1 := rbwCore_point1 i cb b iw hw hh hiw
  have e2 : rbhCore i { b with width := some iw } = .ok { b with width := some iw, height := some ih } := by
    rw [rbhCore_ratio i { b with width := some iw } iw (iw / ih) rfl hh hr hr0, hquot]
  have e3 : minMaxAutoReplaced { b with width := some iw, height := some ih } =
      .ok { b with width := some iw, height := some ih } := by
    simp [minMaxAutoReplaced, num, bind, Except.bind, mmarCore_no_violation iw ih _ _ _ _ hvw hvh, pure,
      Except.pure]
  refine ⟨{ b with width := some iw, height := some ih }, ?_, rfl, rfl⟩
  simp [inlineReplacedWH, bind, Except.bind, e1, e2, e3]

example : ∃ b', inlineReplacedWH true ⟨some 40, some 20, some (40 / 20)⟩ ⟨100, false⟩
    ⟨none, none, some 0, some 0, some 0, some 0, 0, 0, 0, 0, 0, none, 0, none, 0, false⟩ = .ok b' ∧
    b'.width = some 40 ∧ b'.height = some 20 :=
  used_size_intrinsic _ _ _ 40 20 rfl rfl rfl rfl rfl (by norm_num) (by norm_num)
    (by simp [viol, capMax, gtMax]) (by simp [viol, capMax, gtMax])

/-- Nothing known about the image and nothing specified: 300 × 150 (the literals of the source,
`Gen.replacedDefaultWidth/Height`). -/
theorem used_size_default (cb : Cb) (b : RBox) (hw : b.width = none) (hh : b.height = none)
    (hvw : viol Gen.replacedDefaultWidth b.minWidth (capMax b.minWidth b.maxWidth) = .ok)
    (hvh : viol Gen.replacedDefaultHeight b.minHeight (capMax b.minHeight b.maxHeight) = .ok) :
    ∃ b', inlineReplacedWH true ⟨none, none, none⟩ cb b = .ok b' ∧
      b'.width = some Gen.replacedDefaultWidth ∧ b'.height = some Gen.replacedDefaultHeight := by
  have e1 := rbwCore_point5 ⟨none, none, none⟩ cb b hw rfl rfl
  have e2 := rbhCore_default ⟨none, none, none⟩ { b with width := some Gen.replacedDefaultWidth }
    Gen.replacedDefaultWidth rfl hh rfl rfl
  have e3 : minMaxAutoReplaced
      { b with width := some Gen.replacedDefaultWidth, height := some Gen.replacedDefaultHeight } =
      .ok { b with width := some Gen.replacedDefaultWidth, height := some Gen.replacedDefaultHeight } := by
    simp [minMaxAutoReplaced, num, bind, Except.bind,
      mmarCore_no_violation _ _ _ _ _ _ hvw hvh, pure, Except.pure]
  refine ⟨{ b with width := some Gen.replacedDefaultWidth, height := some Gen.replacedDefaultHeight },
    ?_, rfl, rfl⟩
  simp [inlineReplacedWH, bind, Except.bind, e1, e2, e3]

theorem default_size_is_300_150 : Gen.replacedDefaultWidth = 300 ∧ Gen.replacedDefaultHeight = 150 := by
  constructor <;> rfl

/-- Exactly one dimension auto and a ratio: `width = height · ratio` (width auto), resp.
`height = width / ratio` (height auto), i.e. `width / height = ratio`. -/
theorem used_size_one_auto_keeps_ratio (i : Intr) (cb : Cb) (b : RBox) (x r : Rat)
    (hr : i.ratio = some r) (hr0 : r ≠ 0) :
    (b.width = none → b.height = some x →
      rbwCore i cb b = .ok { b with width := some (x * r) } ∧ (x ≠ 0 → x * r / x = r)) ∧
    (b.width = some x → b.height = none →
      rbhCore i b = .ok { b with height := some (x / r) } ∧ (x ≠ 0 → x / (x / r) = r)) := by
  refine ⟨fun hw hh => ⟨rbwCore_point2b i cb b x r hw hh hr, fun hx => by field_simp⟩,
    fun hw hh => ⟨rbhCore_ratio i b x r hw hh hr hr0, fun hx => by field_simp⟩⟩

example : rbwCore ⟨none, none, some 2⟩ ⟨100, false⟩
    ⟨none, some 30, some 0, some 0, some 0, some 0, 0, 0, 0, 0, 0, none, 0, none, 0, false⟩ =
    .ok ⟨some (30 * 2), some 30, some 0, some 0, some 0, some 0, 0, 0, 0, 0, 0, none, 0, none, 0, false⟩ :=
  ((used_size_one_auto_keeps_ratio ⟨none, none, some 2⟩ _ _ 30 2 rfl (by norm_num)).1 rfl rfl).1

/-- The remaining rows of the 10.3.2 table, as equations of the model (`rbwCore`): point 1
(intrinsic width), point 2 (height · ratio), point 4, point 5; point 3 is `used_size_ratio_only`. -/
theorem used_width_table (i : Intr) (cb : Cb) (b : RBox) (hw : b.width = none) :
    (∀ iw, b.height = none → i.w = some iw → rbwCore i cb b = .ok { b with width := some iw }) ∧
    (∀ ih r, b.height = none → i.w = none → i.ratio = some r → i.h = some ih →
      rbwCore i cb b = .ok { b with width := some (ih * r) }) ∧
    (∀ iw, i.ratio = none → i.w = some iw → rbwCore i cb b = .ok { b with width := some iw }) ∧
    (i.ratio = none → i.w = none → rbwCore i cb b = .ok { b with width := some Gen.replacedDefaultWidth }) :=
  ⟨fun iw hh hi => rbwCore_point1 i cb b iw hw hh hi,
   fun ih r hh hi hr hih => rbwCore_point2a i cb b ih r hw hh hi hr hih,
   fun iw hr hi => rbwCore_point4 i cb b iw hw hr hi,
   fun hr hi => rbwCore_point5 i cb b hw hr hi⟩

/-- 10.6.2 as equations of `rbhCore` (the used width is already a number, as in every caller). -/
theorem used_height_table (i : Intr) (b : RBox) (w : Rat) (hw : b.width = some w) (hh : b.height = none) :
    (∀ r, i.ratio = some r → r ≠ 0 → rbhCore i b = .ok { b with height := some (w / r) }) ∧
    (∀ ih, i.ratio = none → i.h = some ih → rbhCore i b = .ok { b with height := some ih }) ∧
    (i.ratio = none → i.h = none → rbhCore i b = .ok { b with height := some Gen.replacedDefaultHeight }) :=
  ⟨fun r hr hr0 => rbhCore_ratio i b w r hw hh hr hr0,
   fun ih hr hih => rbhCore_intrinsic i b w ih hw hh hr hih,
   fun hr hih => rbhCore_default i b w hw hh hr hih⟩

/-- Point 3 of 10.3.2 (only a ratio is known, both sizes auto): the width comes from the
block-level width equation applied to the containing block the caller passes.  Every caller passes
the containing block of the box: the in-flow ones (`atomic_box`, `block_replaced_box_layout`, floats)
directly, `absolute_replaced` as the tuple `(cb_width, cb_height)` since repair a8f8a59 — see
`abs_replaced_uses_containing_block_width` below, which completes what used to be the `_partial`
form of this theorem (finding `abs-replaced-ratio-only-width`, fixed). -/
theorem used_size_ratio_only (i : Intr) (cb : Cb) (b : RBox) (r : Rat)
    (hw : b.width = none) (hh : b.height = none) (hi : i.w = none) (hr : i.ratio = some r) (hih : i.h = none) :
    rbwCore i cb b = blockLevelWidth b cb ∧
    (b.marginLeft = some 0 → b.marginRight = some 0 → b.pb = 0 → b.minWidth ≤ cb.width → b.maxWidth = none →
      ∃ b', rbwCore i cb b = .ok b' ∧ b'.width = some cb.width) := by
  refine ⟨rbwCore_point3 i cb b r hw hh hi hr hih, fun hml hmr hpb hmin hmax => ?_⟩
  rw [rbwCore_point3 i cb b r hw hh hi hr hih]
  have hcore : (blwCore b cb).width = some cb.width := by
    simp [blwCore, blwAutoWidth, blwOverConstrained, blwOverflow, blwMargins, hw, hml, hmr, hpb]
  have hmw : (blwCore b cb).maxWidth = none := by rw [(blwCore_fields b cb).2.2, hmax]
  have hmn : (blwCore b cb).minWidth = b.minWidth := (blwCore_fields b cb).2.1
  refine ⟨blwCore b cb, ?_, hcore⟩
  simp [blockLevelWidth, withMinMaxWidth, mmwMax, mmwMin, hcore, hmw, hmn, num, bind, Except.bind, pure,
    Except.pure, not_lt.mpr hmin]

/-- `absolute_replaced` sizes the box exactly as the in-flow inline case does against a containing
block of width `cb_width` (ltr): the position `(cb_x, cb_y)` and the height of the containing block
play no part in the used size.  In particular a ratio-only image (SVG with a `viewBox` only), both
sizes auto, no margins / paddings / borders, gets the width of its containing block wherever that
block lies (CSS 2.1 10.3.8 → 10.3.2). -/
theorem abs_replaced_uses_containing_block_width (sa : Bool) (i : Intr) (cbX cbY cbW cbH : Rat) (b : RBox) :
    absoluteReplacedWH sa i cbX cbY cbW cbH b = inlineReplacedWH sa i ⟨cbW, false⟩ b ∧
    (∀ cbX' cbY' cbH', absoluteReplacedWH sa i cbX' cbY' cbW cbH' b = absoluteReplacedWH sa i cbX cbY cbW cbH b) ∧
    (∀ r, b.width = none → b.height = none → i.w = none → i.h = none → i.ratio = some r →
      b.marginLeft = some 0 → b.marginRight = some 0 → b.pb = 0 → b.minWidth ≤ cbW → b.maxWidth = none →
      ∃ b', rbwCore i ⟨cbW, false⟩ b = .ok b' ∧ b'.width = some cbW) :=
  ⟨rfl, fun _ _ _ => rfl, fun r hw hh hi hih hr hml hmr hpb hmin hmax =>
    (used_size_ratio_only i ⟨cbW, false⟩ b r hw hh hi hr hih).2 hml hmr hpb hmin hmax⟩

/-- Regression for the fixed finding `abs-replaced-ratio-only-width` (same input as the former
witness): containing block at x = 40 (and at x = 0), 200 wide: the used size is 200 x 100. -/
example :
    (absoluteReplacedWH true ⟨none, none, some 2⟩ 40 0 200 300
      ⟨none, none, some 0, some 0, some 0, some 0, 0, 0, 0, 0, 0, none, 0, none, 0, false⟩).toOption.map
        (fun b => (b.width, b.height)) = some (some 200, some 100) ∧
    (absoluteReplacedWH true ⟨none, none, some 2⟩ 0 0 200 300
      ⟨none, none, some 0, some 0, some 0, some 0, 0, 0, 0, 0, 0, none, 0, none, 0, false⟩).toOption.map
        (fun b => (b.width, b.height)) = some (some 200, some 100) := by
  constructor <;> decide +kernel

/-- A specified (or resolved) width outside `[min-width, max-width]` is clamped: the used width of
`replaced_box_width` lies in `[min, max(min, max)]`; likewise `replaced_box_height`. -/
theorem used_size_within_min_max (i : Intr) (cb : Cb) (b b' : RBox) :
    (replacedBoxWidth i cb b = .ok b' →
      ∃ w, b'.width = some w ∧ b.minWidth ≤ w ∧ (w = b.minWidth ∨ ∀ m, b.maxWidth = some m → w ≤ m)) ∧
    (replacedBoxHeight i b = .ok b' →
      ∃ h, b'.height = some h ∧ b.minHeight ≤ h ∧ (h = b.minHeight ∨ ∀ m, b.maxHeight = some m → h ≤ m)) :=
  ⟨fun h => (withMinMaxWidth_bounds _ (rbw_widthFn i cb) b b' h).2.2,
   fun h => (withMinMaxHeight_bounds _ (rbh_heightFn i) b b' h).2.2⟩

/-- `replaced_box_width` never raises; `replaced_box_height` and the whole inline layout succeed as
soon as the ratio is not zero (a zero ratio divides by zero: `box.width / ratio`). -/
theorem used_size_total (i : Intr) (cb : Cb) (b : RBox) :
    (∃ b', replacedBoxWidth i cb b = .ok b') ∧
    (i.ratio ≠ some 0 → ∀ sa, ∃ b', inlineReplacedBoxLayout sa i cb b = .ok b') := by
  refine ⟨replacedBoxWidth_total' i cb b, fun hr sa => ?_⟩
  unfold inlineReplacedBoxLayout inlineReplacedWH
  generalize { b with marginTop := _, marginRight := _, marginBottom := _, marginLeft := _ } = b0
  cases sa
  · -- specified sizes: decorated functions
    obtain ⟨b1, h1⟩ := replacedBoxWidth_total' i cb b0
    obtain ⟨_, _, w, hw1, _⟩ := withMinMaxWidth_bounds _ (rbw_widthFn i cb) b0 b1 h1
    obtain ⟨b2, h2⟩ := replacedBoxHeight_total' i hr b1 w hw1
    exact ⟨b2, by simp [bind, Except.bind, h1, h2]⟩
  · -- both auto: cores, then the 10.4 table
    obtain ⟨b1, w, h1, _, _, hw1, _⟩ := rbwCore_spec i cb b0
    obtain ⟨b2, h, h2, hh2, hw2⟩ := rbhCore_total i hr b1 w hw1
    obtain ⟨r, hr'⟩ := mmar_total_with Gen.minMaxEpsWidth Gen.minMaxEpsHeight
      (ne_of_gt epsW_pos) (ne_of_gt epsH_pos) w h b2.minWidth b2.minHeight b2.maxWidth b2.maxHeight
    refine ⟨{ b2 with width := some r.1, height := some r.2 }, ?_⟩
    simp [bind, Except.bind, h1, h2, minMaxAutoReplaced, hw2, hh2, num, mmarCore, hr', pure, Except.pure]


/-! ## C13.document — from the computed style of an `<img>` to its used size

The function-level theorems above, composed as the layout composes the functions (`Model/ReplacedDoc.lean`:
`resolve_percentages`, then `inline_replaced_box_layout`); the same composition is compared with rendered
documents by the `documents` section (`docimg` lines). -/

/-- **Intrinsic size divided by `image-resolution` by default**: an inline `<img>` showing a raster image
of `pw × ph` pixels, every sizing property at its initial value (`width`, `height` auto, no min / max), in
any containing block and with any margins, paddings and borders, is `pw / res × ph / res`. -/
theorem doc_image_default_size (c : CssBox) (cb : Cb) (cbh : Len) (cx py pw ph res : Rat)
    (hpw : 0 < pw) (hph : 0 < ph) (hres : 0 < res)
    (hw : c.width = none) (hh : c.height = none) (hminw : c.minWidth = none) (hminh : c.minHeight = none)
    (hmaxw : c.maxWidth = none) (hmaxh : c.maxHeight = none) :
    ∃ b x y, docImage false c cb cbh cx py pw ph res (pw / ph) = .ok (b, x, y) ∧
      b.width = some (pw / res) ∧ b.height = some (ph / res) := by
  obtain ⟨r1, r2, r3, r4, r5, r6⟩ := resolve_auto c cb.width cbh cx hw hh hminw hminh hmaxw hmaxh
  have hres0 : res ≠ 0 := ne_of_gt hres
  have hratio : pw / ph = (pw / res) / (ph / res) := by field_simp
  set b0 := resolvePercentages c cb.width cbh cx with hb0
  set b1 : RBox := { b0 with
    marginTop := some (b0.marginTop.getD 0), marginRight := some (b0.marginRight.getD 0),
    marginBottom := some (b0.marginBottom.getD 0), marginLeft := some (b0.marginLeft.getD 0) } with hb1
  obtain ⟨b', hb', hw', hh'⟩ := used_size_intrinsic ⟨some (pw / res), some (ph / res), some (pw / ph)⟩ cb b1
    (pw / res) (ph / res) (by simp [hb1, r1]) (by simp [hb1, r2]) rfl rfl (by rw [hratio])
    (div_pos hpw hres) (div_pos hph hres)
    (by simp [hb1, r3, r5, viol, capMax, gtMax, not_lt.mpr (le_of_lt (div_pos hpw hres))])
    (by simp [hb1, r4, r6, viol, capMax, gtMax, not_lt.mpr (le_of_lt (div_pos hph hres))])
  refine ⟨b', b'.positionX, py, ?_, hw', hh'⟩
  simp [docImage, rasterIntrinsic, pyDiv, hres0, bind, Except.bind, pure, Except.pure, docImageI, hw, hh,
    inlineReplacedBoxLayout, ← hb0, ← hb1, hb']

example : ∃ b x y, docImage false ⟨none, none, none, none, none, none, some (.px 3), none, none, none, .px 1, .pct 10, 2, 0⟩
    ⟨200, false⟩ none 0 0 8 4 2 (8 / 4) = .ok (b, x, y) ∧ b.width = some (8 / 2) ∧ b.height = some (4 / 2) :=
  doc_image_default_size _ _ _ _ _ 8 4 2 (by norm_num) (by norm_num) (by norm_num) rfl rfl rfl rfl rfl rfl

/-- The sizing part of `block_replaced_box_layout` for an image whose intrinsic width, height and (consistent)
ratio are known, both sizes auto and no min/max violated: the used size is the intrinsic size, the horizontal
margins are settled by the block width equation. -/
theorem block_sizing_intrinsic (i : Intr) (cb : Cb) (b : RBox) (iw ih : Rat)
    (hw : b.width = none) (hh : b.height = none)
    (hiw : i.w = some iw) (hih : i.h = some ih) (hr : i.ratio = some (iw / ih))
    (piw : 0 < iw) (pih : 0 < ih)
    (hvw : viol iw b.minWidth (capMax b.minWidth b.maxWidth) = .ok)
    (hvh : viol ih b.minHeight (capMax b.minHeight b.maxHeight) = .ok) :
    ∃ b', blockReplacedSizing true i cb b = .ok b' ∧ b'.width = some iw ∧ b'.height = some ih ∧
      (∃ ml mr, b'.marginLeft = some ml ∧ b'.marginRight = some mr) ∧ b'.marginTop = b.marginTop := by
  have hr0 : iw / ih ≠ 0 := div_ne_zero (ne_of_gt piw) (ne_of_gt pih)
  have hquot : iw / (iw / ih) = ih := by field_simp
  rcases b with ⟨bw, bh, bml, bmr, bmt, bmb, pl, pr, bl, br, mnw, mxw, mnh, mxh, px, col⟩
  simp only at hw hh hvw hvh
  subst hw; subst hh
  have e1 := rbwCore_point1 i cb ⟨none, none, bml, bmr, bmt, bmb, pl, pr, bl, br, mnw, mxw, mnh, mxh, px, col⟩ iw rfl rfl hiw
  obtain ⟨ml1, mr1, px1, e2⟩ := blwCore_known_width
    ⟨some iw, none, bml, bmr, bmt, bmb, pl, pr, bl, br, mnw, mxw, mnh, mxh, px, col⟩ cb iw rfl
  have e3 := rbhCore_ratio i ⟨some iw, none, some ml1, some mr1, bmt, bmb, pl, pr, bl, br, mnw, mxw, mnh, mxh, px1, col⟩
    iw (iw / ih) rfl rfl hr hr0
  rw [hquot] at e3
  have e4 : minMaxAutoReplaced ⟨some iw, some ih, some ml1, some mr1, bmt, bmb, pl, pr, bl, br, mnw, mxw, mnh, mxh, px1, col⟩ =
      .ok ⟨some iw, some ih, some ml1, some mr1, bmt, bmb, pl, pr, bl, br, mnw, mxw, mnh, mxh, px1, col⟩ := by
    simp [minMaxAutoReplaced, num, bind, Except.bind, mmarCore_no_violation iw ih _ _ _ _ hvw hvh, pure, Except.pure]
  obtain ⟨ml2, mr2, px2, e5⟩ := blwCore_known_width
    ⟨some iw, some ih, bml, bmr, bmt, bmb, pl, pr, bl, br, mnw, mxw, mnh, mxh, px1, col⟩ cb iw rfl
  simp only at e1 e2 e3 e5
  refine ⟨⟨some iw, some ih, some ml2, some mr2, bmt, bmb, pl, pr, bl, br, mnw, mxw, mnh, mxh, px2, col⟩, ?_, rfl, rfl,
    ⟨ml2, mr2, rfl, rfl⟩, rfl⟩
  simp only [blockReplacedSizing, if_true, brwCore, bind, Except.bind, pure, Except.pure, e1, e2, e3, e4, e5]

/-- **Intrinsic size divided by `image-resolution` by default — for a block-level image too**: a
`display: block` `<img>` showing a raster image of `pw × ph` pixels, every sizing property at its initial value,
in any containing block (ltr or rtl) and with any margins, paddings and borders, is laid out
`pw / res × ph / res` by `block_level_layout` → `block_replaced_box_layout` (no floats around). -/
theorem doc_block_image_default_size (c : CssBox) (cb : Cb) (cbh : Len) (cx py pw ph res : Rat)
    (hpw : 0 < pw) (hph : 0 < ph) (hres : 0 < res)
    (hw : c.width = none) (hh : c.height = none) (hminw : c.minWidth = none) (hminh : c.minHeight = none)
    (hmaxw : c.maxWidth = none) (hmaxh : c.maxHeight = none) :
    ∃ b x y, docImage true c cb cbh cx py pw ph res (pw / ph) = .ok (b, x, y) ∧
      b.width = some (pw / res) ∧ b.height = some (ph / res) := by
  obtain ⟨r1, r2, r3, r4, r5, r6⟩ := resolve_auto c cb.width cbh cx hw hh hminw hminh hmaxw hmaxh
  have hres0 : res ≠ 0 := ne_of_gt hres
  have hratio : pw / ph = (pw / res) / (ph / res) := by field_simp
  set b0 := resolvePercentages c cb.width cbh cx with hb0
  set b1 : RBox := { b0 with marginTop := some (b0.marginTop.getD 0), marginBottom := some (b0.marginBottom.getD 0) } with hb1
  obtain ⟨b', hb', hw', hh', ⟨ml, mr, hml, hmr⟩, hmt⟩ := block_sizing_intrinsic
    ⟨some (pw / res), some (ph / res), some (pw / ph)⟩ cb b1
    (pw / res) (ph / res) (by simp [hb1, r1]) (by simp [hb1, r2]) rfl rfl (by rw [hratio])
    (div_pos hpw hres) (div_pos hph hres)
    (by simp [hb1, r3, r5, viol, capMax, gtMax, not_lt.mpr (le_of_lt (div_pos hpw hres))])
    (by simp [hb1, r4, r6, viol, capMax, gtMax, not_lt.mpr (le_of_lt (div_pos hph hres))])
  have hmt' : b'.marginTop = some (b0.marginTop.getD 0) := by rw [hmt]
  obtain ⟨x, y, hxy⟩ : ∃ x y, avoidCollisionsNoFloats b' cx cb py = .ok (x, y) := by
    simp [avoidCollisionsNoFloats, num, hw', hml, hmr, hmt', bind, Except.bind, pure, Except.pure]
  refine ⟨{ b' with positionX := x }, x, y, ?_, hw', hh'⟩
  simp [docImage, rasterIntrinsic, pyDiv, hres0, bind, Except.bind, pure, Except.pure, docImageI, hw, hh,
    blockReplacedBoxLayout, ← hb0, ← hb1, hb', hxy]

/-- Non-vacuity: a block `<img>` of 8 × 4 px at 2dppx with `margin-left: auto` in a 200px rtl containing block. -/
example : (docImage true ⟨none, none, none, none, none, none, none, some (.px 3), none, none, .px 1, .pct 10, 2, 0⟩
    ⟨200, true⟩ none 0 0 8 4 2 (8 / 4)).toOption.map (fun r => (r.1.width, r.1.height)) = some (some 4, some 2) := by
  decide +kernel

/-! ### where a block-level image goes: the used margins of 10.3.3 and the placement -/

/-- What 10.3.3 asks of the used margins, for all inputs: a given margin is kept; when the box fits and a margin
is `auto`, the equation `margin-left + P + width + margin-right = containing width` holds with non-negative
auto margins, equal when both are auto (the image is centred); when it does not fit, `auto` margins are 0. -/
theorem used_margins_spec (P w cbw : Rat) (ml mr : Len) :
    (∀ m, ml = some m → (usedMargins P w cbw ml mr).1 = m) ∧
    (∀ m, mr = some m → (usedMargins P w cbw ml mr).2 = m) ∧
    (P + w + ml.getD 0 + mr.getD 0 ≤ cbw → (ml = none ∨ mr = none) →
      (usedMargins P w cbw ml mr).1 + P + w + (usedMargins P w cbw ml mr).2 = cbw ∧
      (ml = none → 0 ≤ (usedMargins P w cbw ml mr).1) ∧ (mr = none → 0 ≤ (usedMargins P w cbw ml mr).2) ∧
      (ml = none → mr = none → (usedMargins P w cbw ml mr).1 = (usedMargins P w cbw ml mr).2 ∧
        (usedMargins P w cbw ml mr).1 = (cbw - P - w) / 2)) ∧
    (cbw < P + w + ml.getD 0 + mr.getD 0 → usedMargins P w cbw ml mr = (ml.getD 0, mr.getD 0)) := by
  unfold usedMargins
  rcases ml with _ | l <;> rcases mr with _ | r <;> simp only [Option.getD] <;>
    refine ⟨?_, ?_, ?_, ?_⟩ <;> intros <;> split_ifs <;> simp_all <;>
    (try (refine ⟨?_, ?_⟩)) <;> (try linarith) <;> (try (intros; linarith))

/-- `block_sizing_intrinsic` with the margins it ends with: those of 10.3.3 for the *intrinsic* width, computed
from the margins the box came with (the intermediate run of the width equation leaves no trace). -/
theorem block_sizing_margins (i : Intr) (cb : Cb) (b : RBox) (iw ih : Rat)
    (hw : b.width = none) (hh : b.height = none)
    (hiw : i.w = some iw) (hih : i.h = some ih) (hr : i.ratio = some (iw / ih))
    (piw : 0 < iw) (pih : 0 < ih)
    (hvw : viol iw b.minWidth (capMax b.minWidth b.maxWidth) = .ok)
    (hvh : viol ih b.minHeight (capMax b.minHeight b.maxHeight) = .ok) :
    ∃ b', blockReplacedSizing true i cb b = .ok b' ∧ b'.width = some iw ∧ b'.height = some ih ∧
      b'.marginLeft = some (usedMargins b.pb iw cb.width b.marginLeft b.marginRight).1 ∧
      b'.marginRight = some (usedMargins b.pb iw cb.width b.marginLeft b.marginRight).2 ∧
      b'.marginTop = b.marginTop ∧ b'.pb = b.pb := by
  have hr0 : iw / ih ≠ 0 := div_ne_zero (ne_of_gt piw) (ne_of_gt pih)
  have hquot : iw / (iw / ih) = ih := by field_simp
  rcases b with ⟨bw, bh, bml, bmr, bmt, bmb, pl, pr, bl, br, mnw, mxw, mnh, mxh, px, col⟩
  simp only at hw hh hvw hvh
  subst hw; subst hh
  have e1 := rbwCore_point1 i cb ⟨none, none, bml, bmr, bmt, bmb, pl, pr, bl, br, mnw, mxw, mnh, mxh, px, col⟩ iw rfl rfl hiw
  obtain ⟨ml1, mr1, px1, e2⟩ := blwCore_known_width
    ⟨some iw, none, bml, bmr, bmt, bmb, pl, pr, bl, br, mnw, mxw, mnh, mxh, px, col⟩ cb iw rfl
  have e3 := rbhCore_ratio i ⟨some iw, none, some ml1, some mr1, bmt, bmb, pl, pr, bl, br, mnw, mxw, mnh, mxh, px1, col⟩
    iw (iw / ih) rfl rfl hr hr0
  rw [hquot] at e3
  have e4 : minMaxAutoReplaced ⟨some iw, some ih, some ml1, some mr1, bmt, bmb, pl, pr, bl, br, mnw, mxw, mnh, mxh, px1, col⟩ =
      .ok ⟨some iw, some ih, some ml1, some mr1, bmt, bmb, pl, pr, bl, br, mnw, mxw, mnh, mxh, px1, col⟩ := by
    simp [minMaxAutoReplaced, num, bind, Except.bind, mmarCore_no_violation iw ih _ _ _ _ hvw hvh, pure, Except.pure]
  obtain ⟨ml2, mr2, px2, e5⟩ := blwCore_known_width
    ⟨some iw, some ih, bml, bmr, bmt, bmb, pl, pr, bl, br, mnw, mxw, mnh, mxh, px1, col⟩ cb iw rfl
  obtain ⟨u1, u2, _⟩ := blwCore_used_margins
    ⟨some iw, some ih, bml, bmr, bmt, bmb, pl, pr, bl, br, mnw, mxw, mnh, mxh, px1, col⟩ cb iw rfl
  simp only at e1 e2 e3 e5
  rw [e5] at u1 u2
  simp only at u1 u2
  refine ⟨⟨some iw, some ih, some ml2, some mr2, bmt, bmb, pl, pr, bl, br, mnw, mxw, mnh, mxh, px2, col⟩, ?_, rfl, rfl,
    u1, u2, rfl, rfl⟩
  simp only [blockReplacedSizing, if_true, brwCore, bind, Except.bind, pure, Except.pure, e1, e2, e3, e4, e5]

/-- **Where a block-level image goes** (CSS 2.1 10.3.4 → 10.3.3, and the placement of `block_replaced_box_layout`
without floats): a `display: block` `<img>` of `pw × ph` px with initial sizing properties gets the used margins
of 10.3.3 for the width `pw / res`; in an ltr containing block its margin box starts at the content edge of the
containing block, in an rtl one it ends at the opposite content edge. -/
theorem doc_block_image_margins (c : CssBox) (cb : Cb) (cbh : Len) (cx py pw ph res : Rat)
    (hpw : 0 < pw) (hph : 0 < ph) (hres : 0 < res)
    (hw : c.width = none) (hh : c.height = none) (hminw : c.minWidth = none) (hminh : c.minHeight = none)
    (hmaxw : c.maxWidth = none) (hmaxh : c.maxHeight = none) :
    ∃ b x y, docImage true c cb cbh cx py pw ph res (pw / ph) = .ok (b, x, y) ∧
      b.width = some (pw / res) ∧ b.height = some (ph / res) ∧
      b.marginLeft = some (usedMargins (resolvePercentages c cb.width cbh cx).pb (pw / res) cb.width
        (resolvePercentages c cb.width cbh cx).marginLeft (resolvePercentages c cb.width cbh cx).marginRight).1 ∧
      b.marginRight = some (usedMargins (resolvePercentages c cb.width cbh cx).pb (pw / res) cb.width
        (resolvePercentages c cb.width cbh cx).marginLeft (resolvePercentages c cb.width cbh cx).marginRight).2 ∧
      b.positionX = x ∧
      (cb.rtl = false → x = cx) ∧
      (cb.rtl = true → ∀ ml mr, b.marginLeft = some ml → b.marginRight = some mr →
        x + ml + (pw / res + (resolvePercentages c cb.width cbh cx).pb) + mr = cx + cb.width) := by
  obtain ⟨r1, r2, r3, r4, r5, r6⟩ := resolve_auto c cb.width cbh cx hw hh hminw hminh hmaxw hmaxh
  have hres0 : res ≠ 0 := ne_of_gt hres
  have hratio : pw / ph = (pw / res) / (ph / res) := by field_simp
  set b0 := resolvePercentages c cb.width cbh cx with hb0
  set b1 : RBox := { b0 with marginTop := some (b0.marginTop.getD 0), marginBottom := some (b0.marginBottom.getD 0) } with hb1
  obtain ⟨b', hb', hw', hh', hml, hmr, hmt, hpb⟩ := block_sizing_margins
    ⟨some (pw / res), some (ph / res), some (pw / ph)⟩ cb b1
    (pw / res) (ph / res) (by simp [hb1, r1]) (by simp [hb1, r2]) rfl rfl (by rw [hratio])
    (div_pos hpw hres) (div_pos hph hres)
    (by simp [hb1, r3, r5, viol, capMax, gtMax, not_lt.mpr (le_of_lt (div_pos hpw hres))])
    (by simp [hb1, r4, r6, viol, capMax, gtMax, not_lt.mpr (le_of_lt (div_pos hph hres))])
  have hmt' : b'.marginTop = some (b0.marginTop.getD 0) := by rw [hmt]
  have hpb1 : b1.pb = b0.pb := rfl
  have hml1 : b1.marginLeft = b0.marginLeft := rfl
  have hmr1 : b1.marginRight = b0.marginRight := rfl
  rw [hpb1, hml1, hmr1] at hml hmr
  rw [hpb1] at hpb
  obtain ⟨x, y, hxy⟩ : ∃ x y, avoidCollisionsNoFloats b' cx cb py = .ok (x, y) := by
    simp [avoidCollisionsNoFloats, num, hw', hml, hmr, hmt', bind, Except.bind, pure, Except.pure]
  refine ⟨{ b' with positionX := x }, x, y, ?_, hw', hh', hml, hmr, rfl, ?_, ?_⟩
  · simp [docImage, rasterIntrinsic, pyDiv, hres0, bind, Except.bind, pure, Except.pure, docImageI, hw, hh,
      blockReplacedBoxLayout, ← hb0, ← hb1, hb', hxy]
  · intro hltr
    simp [avoidCollisionsNoFloats, num, hw', hml, hmr, hmt', bind, Except.bind, pure, Except.pure, hltr] at hxy
    linarith [hxy.1]
  · intro hrtl ml mr hml' hmr'
    simp only at hml' hmr'
    rw [hml] at hml'; rw [hmr] at hmr'
    simp [avoidCollisionsNoFloats, num, hw', hml, hmr, hmt', bind, Except.bind, pure, Except.pure, hrtl] at hxy
    have h1 := Option.some.inj hml'
    have h2 := Option.some.inj hmr'
    have hpb' : b'.paddingLeft + b'.paddingRight + b'.borderLeft + b'.borderRight = b0.pb := hpb
    linarith [hxy.1, hpb', h1, h2]

/-- **`margin: auto` centres a block-level image**: a `display: block` `<img>` of `pw × ph` px with initial sizing
properties and `margin-left: auto; margin-right: auto`, whose border box fits in the containing block, has equal
used margins `(cb_width − paddings − borders − pw / res) / 2` (not negative), and its margin box spans the content
box of the containing block exactly (`position_x` is its content edge) — in ltr and in rtl alike: the border box
starts that margin away from the edge. -/
theorem doc_block_image_centered (c : CssBox) (cb : Cb) (cbh : Len) (cx py pw ph res : Rat)
    (hpw : 0 < pw) (hph : 0 < ph) (hres : 0 < res)
    (hw : c.width = none) (hh : c.height = none) (hminw : c.minWidth = none) (hminh : c.minHeight = none)
    (hmaxw : c.maxWidth = none) (hmaxh : c.maxHeight = none)
    (hml : c.marginLeft = none) (hmr : c.marginRight = none)
    (hfit : (resolvePercentages c cb.width cbh cx).pb + pw / res ≤ cb.width) :
    ∃ b x y, docImage true c cb cbh cx py pw ph res (pw / ph) = .ok (b, x, y) ∧
      b.width = some (pw / res) ∧ b.height = some (ph / res) ∧
      b.marginLeft = some ((cb.width - (resolvePercentages c cb.width cbh cx).pb - pw / res) / 2) ∧
      b.marginRight = some ((cb.width - (resolvePercentages c cb.width cbh cx).pb - pw / res) / 2) ∧
      0 ≤ (cb.width - (resolvePercentages c cb.width cbh cx).pb - pw / res) / 2 ∧
      x = cx := by
  obtain ⟨b, x, y, hdoc, hbw, hbh, hbl, hbr, hpx, hltr, hrtl⟩ :=
    doc_block_image_margins c cb cbh cx py pw ph res hpw hph hres hw hh hminw hminh hmaxw hmaxh
  have m1 : (resolvePercentages c cb.width cbh cx).marginLeft = none := by
    cases cbh <;> simp [resolvePercentages, hml]
  have m2 : (resolvePercentages c cb.width cbh cx).marginRight = none := by
    cases cbh <;> simp [resolvePercentages, hmr]
  rw [m1, m2] at hbl hbr
  obtain ⟨_, _, hs, _⟩ := used_margins_spec (resolvePercentages c cb.width cbh cx).pb (pw / res) cb.width none none
  obtain ⟨heq, h0, _, hc⟩ := hs (by simpa using hfit) (Or.inl rfl)
  obtain ⟨hsame, hval⟩ := hc rfl rfl
  rw [hval] at hbl
  rw [← hsame, hval] at hbr
  refine ⟨b, x, y, hdoc, hbw, hbh, hbl, hbr, by rw [← hval]; exact h0 rfl, ?_⟩
  rcases hd : cb.rtl with _ | _
  · exact hltr hd
  · have := hrtl hd _ _ hbl hbr
    linarith

/-- Non-vacuity: an 8 × 4 px block image at 2dppx, `margin: 0 auto`, 1px + 10% padding and a 2px left border in a
200px containing block (ltr, then rtl): used width 4, both margins (200 − 23 − 4) / 2, `position_x` = the content
edge 7 of the containing block. -/
example : (docImage true ⟨none, none, none, none, none, none, none, none, none, none, .px 1, .pct 10, 2, 0⟩
      ⟨200, false⟩ none 7 0 8 4 2 (8 / 4)).toOption.map (fun r => (r.1.width, r.1.marginLeft, r.1.marginRight, r.2.1)) =
      some (some 4, some (173 / 2), some (173 / 2), 7) ∧
    (docImage true ⟨none, none, none, none, none, none, none, none, none, none, .px 1, .pct 10, 2, 0⟩
      ⟨200, true⟩ none 7 0 8 4 2 (8 / 4)).toOption.map (fun r => (r.1.width, r.1.marginLeft, r.1.marginRight, r.2.1)) =
      some (some 4, some (173 / 2), some (173 / 2), 7) := by
  constructor <;> decide +kernel

/-- …and a given `margin-right: 30px` with `margin-left: auto` in rtl: the left margin takes the rest and the margin
box ends at the right content edge (7 + 200). -/
example : (docImage true ⟨none, none, none, none, none, none, none, some (.px 30), none, none, .px 0, .px 0, 0, 0⟩
      ⟨200, true⟩ none 7 0 8 4 2 (8 / 4)).toOption.map (fun r => (r.1.marginLeft, r.1.marginRight, r.2.1)) =
    some (some 166, some 30, 7) := by
  decide +kernel

/-- **No declared `image-resolution` can make the intrinsic size divide by zero or come out negative**
(repair d011d54; finding `image-resolution-zero-division`, filed under C07): the validator keeps a
resolution only when it is positive, so the computed value is positive for every declaration (valid,
zero, negative, wrong unit, not a dimension), `RasterImage.get_intrinsic_size` succeeds, and a
`pw × ph` image with positive sides has a positive intrinsic size.  This discharges the hypothesis
`0 < res` of `doc_image_default_size` for every document. -/
theorem image_resolution_positive (declared : Option (Rat × Option Rat)) (pw ph ratio : Rat) :
    0 < computedResolution declared ∧
    (∀ v f r, imageResolutionValid v f = some r → 0 < r ∧ ∃ f', f = some f' ∧ r = v * f') ∧
    (∃ i, rasterIntrinsic pw ph (computedResolution declared) ratio = .ok i ∧
      (0 < pw → 0 < ph → ∃ w h, i.w = some w ∧ i.h = some h ∧ 0 < w ∧ 0 < h)) := by
  have hvalid : ∀ v f r, imageResolutionValid v f = some r → 0 < r ∧ ∃ f', f = some f' ∧ r = v * f' := by
    intro v f r h
    unfold imageResolutionValid at h
    rcases f with _ | f'
    · simp at h
    · simp only at h
      split_ifs at h with hp
      · obtain rfl := Option.some.inj h
        exact ⟨hp, f', rfl, rfl⟩
  have hpos : 0 < computedResolution declared := by
    unfold computedResolution
    rcases declared with _ | ⟨v, f⟩
    · norm_num
    · show 0 < (imageResolutionValid v f).getD 1
      rcases hv : imageResolutionValid v f with _ | r
      · simp
      · simpa using (hvalid v f r hv).1
  refine ⟨hpos, hvalid, ?_⟩
  have h0 : computedResolution declared ≠ 0 := ne_of_gt hpos
  refine ⟨⟨some (pw / computedResolution declared), some (ph / computedResolution declared), some ratio⟩,
    by simp [rasterIntrinsic, pyDiv, h0, bind, Except.bind, pure, Except.pure], ?_⟩
  intro hpw hph
  exact ⟨_, _, rfl, rfl, div_pos hpw hpos, div_pos hph hpos⟩

/-- Regression inputs of the fixed finding: `image-resolution: 0dppx` and `-1dppx` are dropped (the image is
laid out at the initial 1dppx), `2dppx` and `192dpi` (factor 1/96) are kept, `2px` is not a resolution. -/
example : computedResolution (some (0, some 1)) = 1 ∧ computedResolution (some (-1, some 1)) = 1 ∧
    computedResolution (some (2, some 1)) = 2 ∧ computedResolution (some (192, some (1 / 96))) = 2 ∧
    computedResolution (some (2, none)) = 1 := by
  refine ⟨?_, ?_, ?_, ?_, ?_⟩ <;> decide +kernel

/-- Percentages: `width`, `min-width`, `max-width`, horizontal margins and paddings of an image resolve
against the *width* of the containing block; a percentage `height` against its height and to `auto` when
that height is `auto` (CSS 2.1 10.5). -/
theorem doc_percentages (c : CssBox) (cbw px : Rat) (cbh : Len) (v : Rat) :
    (c.width = some (.pct v) → (resolvePercentages c cbw cbh px).width = some (cbw * v / 100)) ∧
    (c.height = some (.pct v) → cbh = none → (resolvePercentages c cbw cbh px).height = none) ∧
    (∀ ch, c.height = some (.pct v) → cbh = some ch → (resolvePercentages c cbw cbh px).height = some (ch * v / 100)) ∧
    (c.maxWidth = some (.pct v) → (resolvePercentages c cbw cbh px).maxWidth = some (cbw * v / 100)) ∧
    (c.width = some (.px v) → (resolvePercentages c cbw cbh px).width = some v) := by
  refine ⟨?_, ?_, ?_, ?_, ?_⟩
  · intro h; cases cbh <;> simp [resolvePercentages, h, percentage]
  · intro h hc; subst hc; simp [resolvePercentages, h]
  · intro ch h hc; subst hc; simp [resolvePercentages, h, percentage]
  · intro h; cases cbh <;> simp [resolvePercentages, h, percentage]
  · intro h; cases cbh <;> simp [resolvePercentages, h, percentage]


/-- **A specified size is clamped by `min-width` / `max-width` resolved against the containing block's width**,
for the whole pipeline from the computed style (percentages included) to the used width. -/
theorem doc_image_within_min_max (c : CssBox) (cb : Cb) (cbh : Len) (cx py pw ph res ratio : Rat)
    (b : RBox) (x y : Rat) (hspec : (c.width.isNone && c.height.isNone) = false)
    (h : docImage false c cb cbh cx py pw ph res ratio = .ok (b, x, y)) :
    let minW : Rat := match c.minWidth with | some d => percentage d cb.width | none => 0
    let maxW : MaxLen := c.maxWidth.map (fun d => percentage d cb.width)
    ∃ w, b.width = some w ∧ minW ≤ w ∧ (w = minW ∨ ∀ m, maxW = some m → w ≤ m) := by
  intro minW maxW
  unfold docImage at h
  simp only [bind, Except.bind] at h
  rcases hi : rasterIntrinsic pw ph res ratio with e | i
  · simp [hi] at h
  · simp only [hi, docImageI, hspec, Bool.false_eq_true, if_false, bind, Except.bind, pure, Except.pure] at h
    rcases h1 : inlineReplacedBoxLayout false i cb (resolvePercentages c cb.width cbh cx) with e | b1
    · simp [h1] at h
    · simp [h1] at h
      obtain ⟨rfl, _, _⟩ := h
      obtain ⟨w, hw, hge, hor⟩ := irl_bounds i cb _ b1 h1
      have hmin : (resolvePercentages c cb.width cbh cx).minWidth = minW := by
        cases cbh <;> rfl
      have hmax : (resolvePercentages c cb.width cbh cx).maxWidth = maxW := by
        cases cbh <;> rfl
      exact ⟨w, hw, by rw [← hmin]; exact hge, by rw [← hmin, ← hmax]; exact hor⟩

example : (docImage false ⟨some (.pct 100), none, none, none, some (.pct 25), none, none, none, none, none, .px 0, .px 0, 0, 0⟩
    ⟨200, false⟩ none 0 0 8 4 1 (8 / 4)).toOption.map (fun r => (r.1.width, r.1.height)) = some (some 50, some 25) := by
  decide +kernel

/-- **An over-constrained rtl block is shifted exactly once, by the space its *used* width leaves** — also when
`min-width` / `max-width` clamp the width and `handle_min_max_width` runs `block_level_width` again (repair
165e254; before it each re-run shifted the already shifted box). -/
theorem blw_rtl_shift_once (b : RBox) (cb : Cb) (w ml mr : Rat)
    (hw : b.width = some w) (hml : b.marginLeft = some ml) (hmr : b.marginRight = some mr) (b' : RBox)
    (h : blockLevelWidth b cb = .ok b') :
    ∃ w', b' = shifted b cb ml mr w' := by
  have hb : b = { b with width := some w } := by cases b; simp_all
  have reset : ∀ x y, resetBox (shifted b cb ml mr x) b y = { b with width := some y } := by
    intro x y; unfold shifted resetBox; cases b; simp_all
  let f : RBox → Except Err RBox := fun b => .ok (blwCore b cb)
  have hf : ∀ x y, f (resetBox (shifted b cb ml mr x) b y) = .ok (shifted b cb ml mr y) := by
    intro x y; show Except.ok (blwCore _ cb) = _; rw [reset, blwCore_with_width b cb ml mr y hml hmr]
  have emax : ∀ x, mmwMax f b.marginLeft b.marginRight b.positionX (shifted b cb ml mr x) =
      (match b.maxWidth with
        | some m => if x > m then f (resetBox (shifted b cb ml mr x) b m) else .ok (shifted b cb ml mr x)
        | none => .ok (shifted b cb ml mr x)) := fun x => rfl
  have emin : ∀ x, mmwMin f b.marginLeft b.marginRight b.positionX (shifted b cb ml mr x) =
      (if x < b.minWidth then f (resetBox (shifted b cb ml mr x) b b.minWidth) else .ok (shifted b cb ml mr x)) :=
    fun x => rfl
  have h' : (do
      let b1 ← f b
      let b2 ← mmwMax f b.marginLeft b.marginRight b.positionX b1
      mmwMin f b.marginLeft b.marginRight b.positionX b2) = .ok b' := h
  have h1 : f b = .ok (shifted b cb ml mr w) := by
    show Except.ok (blwCore b cb) = _
    rw [hb, blwCore_with_width b cb ml mr w hml hmr]
    unfold shifted; cases b; simp_all
  simp only [h1, bind, Except.bind] at h'
  obtain ⟨x, hx⟩ : ∃ x, mmwMax f b.marginLeft b.marginRight b.positionX (shifted b cb ml mr w) =
      .ok (shifted b cb ml mr x) := by
    rw [emax]
    rcases b.maxWidth with _ | m
    · exact ⟨w, rfl⟩
    · simp only []
      split_ifs
      · exact ⟨m, hf w m⟩
      · exact ⟨w, rfl⟩
  rw [hx] at h'
  simp only [] at h'
  rw [emin] at h'
  split_ifs at h'
  · rw [hf] at h'; exact ⟨_, (Except.ok.inj h').symm⟩
  · exact ⟨x, (Except.ok.inj h').symm⟩

/-- `width: 200px; max-width: 50px; margin: 0` in a 100px rtl containing block, box at x = 0: the used width is
50 and the box is moved by 100 − 50 = 50, once (it was −100 + 50 = −50 before the repair). -/
example : (blockLevelWidth ⟨some 200, none, some 0, some 0, some 0, some 0, 0, 0, 0, 0, 0, some 50, 0, none, 0, false⟩
    ⟨100, true⟩).toOption.map (fun b => (b.width, b.positionX)) = some (some 50, 50) := by decide +kernel

/-! ## C13.minmax_table — CSS 2.1 10.4, `min_max_auto_replaced` -/

/-- The used size after `min_max_auto_replaced` lies in `[min, max(min, max)]` on both axes
(positive sizes; for a zero size the code substitutes `1e-6` and may exceed a zero maximum by it). -/
theorem minmax_table_within (w h minW minH : Rat) (maxW maxH : MaxLen) (hw : 0 < w) (hh : 0 < h)
    (w' h' : Rat) (hres : mmarCore w h minW minH maxW maxH = .ok (w', h')) :
    (minW ≤ w' ∧ ∀ m, capMax minW maxW = some m → w' ≤ m) ∧
    (minH ≤ h' ∧ ∀ m, capMax minH maxH = some m → h' ≤ m) :=
  minmax_within_with _ _ w h minW minH maxW maxH hw hh w' h' hres

example : mmarCore 200 100 0 0 (some 50) none = .ok (50, 25) := by
  simp [mmarCore, mmarCoreWith, viol, capMax, gtMax, finite, pyDiv, bind, Except.bind, pure, Except.pure]
  norm_num

/-- No violation: unchanged.  Exactly one constraint violated: that dimension goes to the violated
bound and the ratio is preserved (`w'·h = h'·w`) unless the other dimension is stopped by its own
opposite bound. -/
theorem minmax_table_ratio (w h minW minH : Rat) (maxW maxH : MaxLen) (hw : 0 < w) (hh : 0 < h)
    (w' h' : Rat) (hres : mmarCore w h minW minH maxW maxH = .ok (w', h')) :
    (viol w minW (capMax minW maxW) = .ok → viol h minH (capMax minH maxH) = .ok → w' = w ∧ h' = h) ∧
    (viol w minW (capMax minW maxW) = .max → viol h minH (capMax minH maxH) = .ok →
      capMax minW maxW = some w' ∧ (w' * h = h' * w ∨ h' = minH)) ∧
    (viol w minW (capMax minW maxW) = .min → viol h minH (capMax minH maxH) = .ok →
      w' = minW ∧ (w' * h = h' * w ∨ capMax minH maxH = some h')) ∧
    (viol w minW (capMax minW maxW) = .ok → viol h minH (capMax minH maxH) = .max →
      capMax minH maxH = some h' ∧ (w' * h = h' * w ∨ w' = minW)) ∧
    (viol w minW (capMax minW maxW) = .ok → viol h minH (capMax minH maxH) = .min →
      h' = minH ∧ (w' * h = h' * w ∨ capMax minW maxW = some w')) :=
  minmax_ratio_with _ _ w h minW minH maxW maxH hw hh w' h' hres

/-- `min_max_auto_replaced` never divides by zero and never fails, for any numbers. -/
theorem minmax_table_total (w h minW minH : Rat) (maxW maxH : MaxLen) :
    ∃ r, mmarCore w h minW minH maxW maxH = .ok r :=
  mmar_total_with _ _ (ne_of_gt epsW_pos) (ne_of_gt epsH_pos) w h minW minH maxW maxH

/-- The `violations == (…)` chain of the source (regenerated each run) has exactly the eight
non-trivial cases of the 10.4 table, each once: removing or duplicating a case breaks this proof. -/
theorem minmax_table_cases_generated :
    (∀ vw vh : Viol, (vw, vh) ≠ (.ok, .ok) → (vw.css, vh.css) ∈ Gen.violationCases) ∧
    Gen.violationCases.length = 8 ∧ ("", "") ∉ Gen.violationCases := by
  refine ⟨?_, by decide, by decide⟩
  intro vw vh h
  cases vw <;> cases vh <;> first | exact absurd rfl h | decide

/-! ## C13.default_sizing / C13.contain_cover — css-images-3 concrete object size -/

/-- `contain`: inside the constraint rectangle, touching it on one axis, ratio kept; `cover`: covers it,
touching on one axis, ratio kept; without a ratio both are the rectangle itself. -/
theorem contain_cover (cw ch : Rat) :
    (∀ r w h, 0 < r → containSizing cw ch (some r) = .ok (w, h) →
      w ≤ cw ∧ h ≤ ch ∧ (w = cw ∨ h = ch) ∧ w = h * r) ∧
    (∀ r w h, 0 < r → coverSizing cw ch (some r) = .ok (w, h) →
      cw ≤ w ∧ ch ≤ h ∧ (w = cw ∨ h = ch) ∧ w = h * r) ∧
    (∀ cover, constraintSizing cw ch none cover = .ok (cw, ch)) ∧
    (∀ r cover, r ≠ 0 → ∃ p, constraintSizing cw ch (some r) cover = .ok p) :=
  ⟨fun r w h hr => contain_fits cw ch r w h hr, fun r w h hr => cover_covers cw ch r w h hr,
   fun cover => constraint_no_ratio cw ch cover, fun r cover hr => constraint_total cw ch r hr cover⟩

example : containSizing 100 30 (some 2) = .ok (60, 30) ∧ coverSizing 100 30 (some 2) = .ok (100, 50) := by
  constructor <;> simp [containSizing, coverSizing, constraintSizing, pyDiv, bind, Except.bind, pure, Except.pure] <;>
    norm_num

/-- `default_image_sizing`: both specified → as specified; one specified → the other through the
ratio (else the intrinsic dimension, else the default); none specified → the intrinsic size if
any dimension is known (completed through the ratio), else `contain` in the default box. -/
theorem default_sizing (i : Intr) (dw dh : Rat) :
    (∀ w h, defaultImageSizing i (some w) (some h) dw dh = .ok (w, h)) ∧
    (∀ w r, i.ratio = some r → r ≠ 0 → defaultImageSizing i (some w) none dw dh = .ok (w, w / r)) ∧
    (∀ h r, i.ratio = some r → defaultImageSizing i none (some h) dw dh = .ok (h * r, h)) ∧
    (∀ iw ih, i.w = some iw → i.h = some ih → defaultImageSizing i none none dw dh = .ok (iw, ih)) ∧
    (i.w = none → i.h = none → defaultImageSizing i none none dw dh = containSizing dw dh i.ratio) := by
  refine ⟨fun w h => rfl, fun w r hr hr0 => ?_, fun h r hr => ?_, fun iw ih hw hh => ?_, fun hw hh => ?_⟩
  · simp [defaultImageSizing, disSpecified, hr, pyDiv, hr0, bind, Except.bind, pure, Except.pure]
  · simp [defaultImageSizing, disSpecified, hr]
  · simp [defaultImageSizing, disSpecified, hw, hh]
  · simp [defaultImageSizing, disSpecified, hw, hh]

/-! ## C13.object_fit — `replacedbox_layout` -/

/-- The draw size for each `object-fit` value (`iw × ih`: the intrinsic size, itself the `contain`
size when the image has none). -/
theorem object_fit_size (g : Geom) (ratio : Option Rat) (iw ih : Rat) :
    drawSize g .fill ratio iw ih = .ok (g.width, g.height) ∧
    drawSize g .contain ratio iw ih = containSizing g.width g.height ratio ∧
    drawSize g .cover ratio iw ih = coverSizing g.width g.height ratio ∧
    drawSize g .none ratio iw ih = .ok (iw, ih) ∧
    (∀ cw ch, containSizing g.width g.height ratio = .ok (cw, ch) →
      drawSize g .scaleDown ratio iw ih = .ok (min cw iw, min ch ih)) := by
  refine ⟨rfl, rfl, rfl, rfl, fun cw ch h => ?_⟩
  simp [drawSize, h, bind, Except.bind, pure, Except.pure]

/-- The painted rectangle: the draw size, placed at the `object-position` percentage of the free
space, measured from the named edge, relative to the content box. -/
theorem object_fit_position (g : Geom) (fit : ObjectFit) (pos : Position) (i : Intr) (r : DrawRect)
    (hres : replacedboxLayout g fit pos i = .ok r) :
    (∃ iw ih, layoutIntrinsic g i = .ok (iw, ih) ∧ drawSize g fit i.ratio iw ih = .ok (r.w, r.h)) ∧
    r.x = g.contentBoxX + placeAxis pos.fromRight pos.x (g.width - r.w) ∧
    r.y = g.contentBoxY + placeAxis pos.fromBottom pos.y (g.height - r.h) := by
  unfold replacedboxLayout at hres
  simp only [bind, Except.bind, pure, Except.pure] at hres
  rcases h1 : layoutIntrinsic g i with e | ⟨iw, ih⟩
  · simp [h1] at hres
  · simp only [h1] at hres
    rcases h2 : drawSize g fit i.ratio iw ih with e | ⟨dw, dh⟩
    · simp [h2] at hres
    · simp [h2] at hres; subst hres
      exact ⟨⟨iw, ih, rfl, h2⟩, by simp [placeRect, add_comm], by simp [placeRect, add_comm]⟩

/-- For `fill`, `contain` and `scale-down`, with percentage positions in `[0, 100]`, the painted
rectangle lies inside the content box. -/
theorem object_fit_inside_content_box (g : Geom) (fit : ObjectFit) (pos : Position) (i : Intr) (r : DrawRect)
    (px py : Rat) (hfit : fit = .fill ∨ fit = .contain ∨ fit = .scaleDown)
    (hratio : ∀ q, i.ratio = some q → 0 < q)
    (hx : pos.x = .pct px) (hy : pos.y = .pct py) (hpx : 0 ≤ px ∧ px ≤ 100) (hpy : 0 ≤ py ∧ py ≤ 100)
    (hres : replacedboxLayout g fit pos i = .ok r) :
    g.contentBoxX ≤ r.x ∧ r.x + r.w ≤ g.contentBoxX + g.width ∧
    g.contentBoxY ≤ r.y ∧ r.y + r.h ≤ g.contentBoxY + g.height := by
  obtain ⟨⟨iw, ih, _, hd⟩, ex, ey⟩ := object_fit_position g fit pos i r hres
  obtain ⟨hw, hh⟩ := drawSize_inside g fit i.ratio iw ih r.w r.h hfit hratio hd
  obtain ⟨ax, bx⟩ := placeAxis_pct_range pos.fromRight px (g.width - r.w) hpx.1 hpx.2 (by linarith)
  obtain ⟨ay, bY⟩ := placeAxis_pct_range pos.fromBottom py (g.height - r.h) hpy.1 hpy.2 (by linarith)
  rw [hx] at ex; rw [hy] at ey
  refine ⟨?_, ?_, ?_, ?_⟩ <;> linarith

example : replacedboxLayout ⟨10, 20, 0, 0, 0, 0, 0, 0, 0, 0, 0, 0, 0, 0, 100, 30⟩ .contain
    ⟨false, .pct 50, false, .pct 50⟩ ⟨some 40, some 20, some 2⟩ = .ok ⟨60, 30, 30, 20⟩ := by
  simp [replacedboxLayout, layoutIntrinsic, drawSize, containSizing, constraintSizing, placeRect, placeAxis,
    percentage, pyDiv, Geom.contentBoxX, Geom.contentBoxY, bind, Except.bind, pure, Except.pure]
  norm_num

/-! ## C13.background_layer — `layout_background_layer` -/

/-- `background-repeat: round`: unless the tile is empty on that axis (nothing is painted then), an
integer number `n ≥ 1` of tiles exactly fills the positioning area on that axis (`n` = Python's `round`
of area / image, at least 1) and `background-position` is ignored there.  Full strength since the
repair of `background-round-zero-size` (a zero-sized image skips the arithmetic instead of dividing
by zero; `background_round_total`). -/
theorem background_round (g : Geom) (kind : BoxKind) (pg : Geom) (i : Intr) (size : BgSize) (clip : BoxArea)
    (rx ry : Repeat) (origin : BoxArea) (pos : Position) (fixed : Bool) (pa : Rect) (l : Layer)
    (hres : layoutBackgroundLayer g kind pg (some i) size clip rx ry origin pos fixed = .ok ⟨pa, some l⟩) :
    (rx = .round → l.size.1 = 0 ∨
      ∃ n : Int, 1 ≤ n ∧ l.size.1 * (n : Rat) = l.positioningArea.w ∧ l.position.1 = 0) ∧
    (ry = .round → l.size.2 = 0 ∨
      ∃ n : Int, 1 ≤ n ∧ l.size.2 * (n : Rat) = l.positioningArea.h ∧ l.position.2 = 0) := by
  obtain ⟨positioning, s, p1, p2, h1, h2, h3, h4, rfl⟩ := layer_inv g kind pg i size clip rx ry origin pos fixed pa l hres
  constructor
  · rintro rfl
    obtain ⟨hx1, hx0, _⟩ := roundX_spec ry size positioning.w _ p1 h3
    -- with `round` on x, the later y step leaves the width and the x position alone
    have hkeep : p2.iw = p1.iw ∧ p2.px = p1.px := by
      by_cases hry : ry = .round
      · subst hry
        obtain ⟨_, _, hpx', hiw⟩ := roundY_spec .round size positioning.h p1 p2 h4
        exact ⟨hiw rfl, hpx'⟩
      · have := roundY_not_round .round ry size positioning.h p1 p2 hry h4
        subst this; exact ⟨rfl, rfl⟩
    by_cases h0 : s.1 = 0
    · left
      have : p1 = _ := hx0 h0
      simp only [hkeep.1, this, h0]
    · right
      obtain ⟨n, hn, hfill, hpx⟩ := hx1 h0
      exact ⟨n, hn, by simp only [hkeep.1, hfill], by simp only [hkeep.2, hpx]⟩
  · rintro rfl
    obtain ⟨hy1, hy0, _, _⟩ := roundY_spec rx size positioning.h p1 p2 h4
    by_cases h0 : p1.ih = 0
    · left
      have : p2 = p1 := hy0 h0
      simp only [this, h0]
    · right
      obtain ⟨n, hn, hfill, hpy⟩ := hy1 h0
      exact ⟨n, hn, hfill, hpy⟩

/-- The `round` steps of `layout_background_layer` never raise, whatever the tile size (regression
statement for the repaired `background-round-zero-size`). -/
theorem background_round_total (rx ry : Repeat) (size : BgSize) (pw ph : Rat) (p : Placed) :
    ∃ p1 p2, roundX rx ry size pw p = .ok p1 ∧ roundY rx ry size ph p1 = .ok p2 := by
  obtain ⟨p1, h1⟩ := roundX_total rx ry size pw p
  obtain ⟨p2, h2⟩ := roundY_total rx ry size ph p1
  exact ⟨p1, p2, h1, h2⟩

/-- Regression for `background-round-zero-size`: `background-size: 0 auto` with `round` is laid out
(tile 0 × 0, then not painted) instead of raising ZeroDivisionError. -/
example : (layoutBackgroundLayer ⟨0, 0, 0, 0, 0, 0, 0, 0, 0, 0, 0, 0, 0, 0, 100, 50⟩ .plain
      ⟨0, 0, 0, 0, 0, 0, 0, 0, 0, 0, 0, 0, 0, 0, 100, 50⟩ (some ⟨some 4, some 4, some 1⟩)
      (.explicit (some (.px 0)) none) .borderBox .round .repeat .paddingBox ⟨false, .pct 0, false, .pct 0⟩
      false).toOption.map (fun r => r.layer.map (fun l => l.size)) = some (some (0, 0)) := by decide +kernel

/-- Without `round`, the layer's size is the concrete object size and the position the
`background-position` percentage of the free space, from the named edge. -/
theorem background_no_round (g : Geom) (kind : BoxKind) (pg : Geom) (i : Intr) (size : BgSize) (clip : BoxArea)
    (rx ry : Repeat) (origin : BoxArea) (pos : Position) (fixed : Bool) (pa : Rect) (l : Layer)
    (hrx : rx ≠ .round) (hry : ry ≠ .round)
    (hres : layoutBackgroundLayer g kind pg (some i) size clip rx ry origin pos fixed = .ok ⟨pa, some l⟩) :
    positioningAreaOf g kind pg origin fixed = .ok l.positioningArea ∧
    concreteSize i size l.positioningArea.w l.positioningArea.h = .ok l.size ∧
    l.position = (placeAxis pos.fromRight pos.x (l.positioningArea.w - l.size.1),
                  placeAxis pos.fromBottom pos.y (l.positioningArea.h - l.size.2)) := by
  obtain ⟨positioning, s, p1, p2, h1, h2, h3, h4, rfl⟩ := layer_inv g kind pg i size clip rx ry origin pos fixed pa l hres
  have e1 := roundX_not_round rx ry size positioning.w _ p1 hrx h3
  have e2 := roundY_not_round rx ry size positioning.h p1 p2 hry h4
  subst e2; subst e1
  exact ⟨h1, h2, rfl⟩


/-- The tile count of `round` is the nearest integer (half to even) to area / image, but at least 1. -/
theorem background_round_count (positioning image : Rat) (n : Int) (s : Rat)
    (hres : roundTiles positioning image = .ok (n, s)) :
    1 ≤ n ∧ s * (n : Rat) = positioning ∧
    (1 / 2 ≤ positioning / image →
      (n : Rat) - positioning / image ≤ 1 / 2 ∧ positioning / image - (n : Rat) ≤ 1 / 2) :=
  let ⟨a, b, _, d⟩ := roundTiles_spec positioning image n s hres
  ⟨a, b, d⟩

example : roundTiles 100 30 = .ok (3, 100 / 3) := by decide +kernel
example : roundHalfEven (5 / 2) = 2 ∧ roundHalfEven (7 / 2) = 4 ∧ roundHalfEven (-1 / 2) = 0 := by decide +kernel

/-! ## C13.embedded_once — `Stream.add_image`, `_use_references` -/

/-- For any drawing (images, nested groups and patterns, any number of pages sharing the resources):
`_use_references` succeeds, appends exactly one image XObject per distinct name — i.e. per distinct
`(image.id, interpolate)` pair, the naming being injective —, in first-use order, and every image entry
of every `Resources` dictionary references the object of its name. -/
theorem embedded_once (draws : List ImageDedupe.Draw) (base : Nat) :
    (∃ st, ImageDedupe.document draws base = some st ∧
      (imageObjNames st.objs).Nodup ∧
      (∀ n, n ∈ imageObjNames st.objs ↔ n ∈ drawNamesList draws) ∧
      imageObjNames st.objs = st.made.map Prod.fst ∧
      RefsOk st) ∧
    (∀ id1 id2 b1 b2, ImageDedupe.imageName id1 b1 = ImageDedupe.imageName id2 b2 → id1 = id2 ∧ b1 = b2) :=
  ⟨embedded_once_tree draws base, imageName_injective⟩

example : (ImageDedupe.document
    [.image "a" true 1 false, .group [.image "a" true (1/2) false, .image "b" false 1 true], .image "a" true 1 false] 7).map
      (fun st => (imageObjNames st.objs, st.made)) = some (["ia1", "ib0"], [("ia1", 7), ("ib0", 9)]) := by
  decide +kernel

/-! ## C13.draw_ctm — `RasterImage.draw`, `draw_replacedbox` -/

/-- `cm` operators compose: a point of the inner system goes through the later matrix first. -/
theorem cm_andThen_apply (first second : Cm) (u v : Rat) :
    (first.andThen second).apply u v = first.apply (second.apply u v).1 (second.apply u v).2 := by
  simp only [Cm.andThen, Cm.apply, Prod.mk.injEq]
  constructor <;> ring

theorem rasterDraw_spec (id : String) (pw ph : Rat) (dpi : Option Rat) (cw ch c00 c11 : Rat) (auto : Bool)
    (o : ImageOps) (hres : rasterDraw id pw ph dpi cw ch c00 c11 auto = .ok (some o)) :
    o.cm = ⟨cw, 0, 0, -ch, 0, ch⟩ ∧ o.name = ImageDedupe.imageName id auto ∧ o.interpolate = auto ∧
    0 < pw ∧ 0 < ph ∧ (dpi = none → o.ratio = 1) := by
  unfold rasterDraw at hres
  split_ifs at hres with hz
  · simp at hres
  · have hpos : 0 < pw ∧ 0 < ph := by
      simp only [Bool.or_eq_true, decide_eq_true_eq, not_or, not_le] at hz; exact hz
    simp only [bind, Except.bind, pure, Except.pure] at hres
    rcases hr : dpiRatio pw ph dpi cw ch c00 c11 with e | ratio
    · simp [hr] at hres
    · simp [hr] at hres; subst hres
      refine ⟨rfl, rfl, rfl, hpos.1, hpos.2, fun h => ?_⟩
      subst h; simp [dpiRatio] at hr; exact hr.symm

/-- **C13.draw_ctm.** What `draw_replacedbox` emits maps the unit square of image space onto the
rectangle computed by `replacedbox_layout` (top edge of the image at `y`, y-down page space). -/
theorem draw_ctm (visible : Bool) (g : Geom) (fit : ObjectFit) (pos : Position) (res ratio : Rat)
    (id : String) (pw ph : Rat) (dpi : Option Rat) (c00 c11 : Rat) (auto : Bool) (ops : ReplacedOps)
    (hres : drawReplacedbox visible g fit pos res ratio id pw ph dpi c00 c11 auto = .ok (some ops)) :
    ∃ i r, rasterIntrinsic pw ph res ratio = .ok i ∧ replacedboxLayout g fit pos i = .ok r ∧
      0 < r.w ∧ 0 < r.h ∧
      (ops.translate.andThen ops.image.cm).apply 0 1 = (r.x, r.y) ∧
      (ops.translate.andThen ops.image.cm).apply 1 1 = (r.x + r.w, r.y) ∧
      (ops.translate.andThen ops.image.cm).apply 0 0 = (r.x, r.y + r.h) ∧
      (ops.translate.andThen ops.image.cm).apply 1 0 = (r.x + r.w, r.y + r.h) ∧
      ops.image.name = ImageDedupe.imageName id auto := by
  unfold drawReplacedbox at hres
  simp only [bind, Except.bind, pure, Except.pure] at hres
  split_ifs at hres with hv
  · simp at hres
  · rcases hi : rasterIntrinsic pw ph res ratio with e | i
    · simp [hi] at hres
    · simp only [hi] at hres
      rcases hl : replacedboxLayout g fit pos i with e | r
      · simp [hl] at hres
      · simp only [hl] at hres
        split_ifs at hres with hsz
        · simp at hres
        · have hpos : 0 < r.w ∧ 0 < r.h := by
            simp only [Bool.or_eq_true, decide_eq_true_eq, not_or, not_le] at hsz; exact hsz
          rcases hd : rasterDraw id pw ph dpi r.w r.h c00 c11 auto with e | o
          · simp [hd] at hres
          · simp only [hd] at hres
            rcases o with _ | o
            · simp at hres
            · simp at hres; subst hres
              obtain ⟨hcm, hname, _, _, _, _⟩ := rasterDraw_spec id pw ph dpi r.w r.h c00 c11 auto o hd
              refine ⟨i, r, rfl, hl, hpos.1, hpos.2, ?_, ?_, ?_, ?_, hname⟩ <;>
                (simp [Cm.andThen, Cm.apply, hcm] <;> try constructor) <;> try ring



/-! ## further clauses -/

/-- `SVGImage.get_intrinsic_size`: whenever it reports a width, a height (both non-zero) and a ratio,
they agree (`width / height = ratio`), whether the ratio came from the attributes or from the viewBox. -/
theorem svg_intrinsic_consistent (w h : Option Rat) (vb : Option (Rat × Rat)) (w' h' r : Rat)
    (hres : svgIntrinsic w h vb = .ok ⟨some w', some h', some r⟩) (hw : w' ≠ 0) (hh : h' ≠ 0) :
    w' / h' = r := by
  rcases w with _ | w0 <;> rcases h with _ | h0 <;> rcases vb with _ | ⟨vw, vh⟩ <;>
    simp [svgIntrinsic, truthy, pyDiv, bind, Except.bind, pure, Except.pure] at hres
  · -- neither attribute, viewBox: no dimension is produced
    split_ifs at hres <;> simp at hres
  · -- height only, viewBox
    split_ifs at hres with h1 h2 <;> simp at hres
    obtain ⟨rfl, rfl, rfl⟩ := hres
    field_simp
  · -- width only, viewBox
    split_ifs at hres with h1 h2 h3 <;> simp at hres
    obtain ⟨rfl, rfl, rfl⟩ := hres
    field_simp
  · -- both attributes, no viewBox
    split_ifs at hres with h1 <;> simp at hres
    · obtain ⟨rfl, rfl, rfl⟩ := hres; rfl
    · obtain ⟨rfl, rfl, rfl⟩ := hres; exact absurd ⟨hw, hh⟩ h1
  · -- both attributes, viewBox ignored
    split_ifs at hres with h1 <;> simp at hres
    · obtain ⟨rfl, rfl, rfl⟩ := hres; rfl
    · obtain ⟨rfl, rfl, rfl⟩ := hres; exact absurd ⟨hw, hh⟩ h1

/-- `background-repeat: space` in `draw_background_image`: with `n = ⌊area / tile⌋ ≥ 2` tiles the step
is such that the first tile starts at the area's origin and the last one ends exactly at its end. -/
theorem background_space_fills (image positioning painting position step p : Rat) (himg : 0 < image)
    (hn : 2 ≤ (positioning / image).floor)
    (hres : repeatAxis .space image positioning painting position = .ok (step, p)) :
    p = 0 ∧ image + (((positioning / image).floor : Int) - 1 : Rat) * step = positioning := by
  have hi : image ≠ 0 := ne_of_gt himg
  have hn' : (((positioning / image).floor : Int) : Rat) - 1 ≠ 0 := by
    have : (2 : Rat) ≤ ((positioning / image).floor : Int) := by exact_mod_cast hn
    linarith
  simp [repeatAxis, pyDiv, hi, hn, hn', bind, Except.bind, pure, Except.pure] at hres
  obtain ⟨rfl, rfl⟩ := hres
  refine ⟨rfl, ?_⟩
  field_simp
  ring

/-- A `contain` (resp. `cover`) background without `round`: the tile fits inside (resp. covers) the
positioning area, touching it on one axis, with the image's ratio. -/
theorem background_contain_cover (g : Geom) (kind : BoxKind) (pg : Geom) (i : Intr) (clip : BoxArea)
    (rx ry : Repeat) (origin : BoxArea) (pos : Position) (fixed : Bool) (pa : Rect) (l : Layer) (r : Rat)
    (hrx : rx ≠ .round) (hry : ry ≠ .round) (hr : i.ratio = some r) (hpos : 0 < r) :
    (layoutBackgroundLayer g kind pg (some i) .contain clip rx ry origin pos fixed = .ok ⟨pa, some l⟩ →
      l.size.1 ≤ l.positioningArea.w ∧ l.size.2 ≤ l.positioningArea.h ∧
      (l.size.1 = l.positioningArea.w ∨ l.size.2 = l.positioningArea.h) ∧ l.size.1 = l.size.2 * r) ∧
    (layoutBackgroundLayer g kind pg (some i) .cover clip rx ry origin pos fixed = .ok ⟨pa, some l⟩ →
      l.positioningArea.w ≤ l.size.1 ∧ l.positioningArea.h ≤ l.size.2 ∧
      (l.size.1 = l.positioningArea.w ∨ l.size.2 = l.positioningArea.h) ∧ l.size.1 = l.size.2 * r) := by
  constructor <;> intro hres
  · obtain ⟨_, h2, _⟩ := background_no_round g kind pg i .contain clip rx ry origin pos fixed pa l hrx hry hres
    simp only [concreteSize, hr] at h2
    exact contain_fits _ _ r _ _ hpos h2
  · obtain ⟨_, h2, _⟩ := background_no_round g kind pg i .cover clip rx ry origin pos fixed pa l hrx hry hres
    simp only [concreteSize, hr] at h2
    exact cover_covers _ _ r _ _ hpos h2


/-! ## non-vacuity: the hypotheses of the theorems above hold on concrete inputs -/

/-- `width: 500px; max-width: 300px` → 300; `height: auto` with ratio 2 → 150. -/
example : ((replacedBoxWidth ⟨some 40, some 20, some 2⟩ ⟨1000, false⟩
      ⟨some 500, none, some 0, some 0, some 0, some 0, 0, 0, 0, 0, 0, some 300, 0, none, 0, false⟩).toOption.bind
    (fun b => (replacedBoxHeight ⟨some 40, some 20, some 2⟩ b).toOption)).map (fun b => (b.width, b.height)) =
    some (some 300, some 150) := by decide +kernel

/-- A 100 × 50 padding box, a 30 × 30 image, `round repeat`: 3 tiles of 100/3 (auto height follows). -/
example : (layoutBackgroundLayer ⟨0, 0, 0, 0, 0, 0, 0, 0, 0, 0, 0, 0, 0, 0, 100, 50⟩ .plain
      ⟨0, 0, 0, 0, 0, 0, 0, 0, 0, 0, 0, 0, 0, 0, 400, 400⟩ (some ⟨some 30, some 30, some 1⟩)
      (.explicit none none) .borderBox .round .repeat .paddingBox ⟨false, .pct 50, false, .pct 50⟩ false).toOption.map
    (fun r => r.layer.map (fun l => (l.size, l.position))) = some (some ((100 / 3, 100 / 3), (0, 10))) := by
  decide +kernel

/-- `space`: a 100-wide area and 30-wide tiles: 3 tiles, step 35 (30 + 2·35 = 100). -/
example : repeatAxis .space 30 100 100 7 = .ok (35, 0) := by decide +kernel

/-- `draw_replacedbox` of a 4 × 2 px image, `object-fit: contain` in a 100 × 30 content box at (10, 20):
translate to (30, 20), then `60 0 0 -30 0 30 cm`. -/
example : (drawReplacedbox true ⟨10, 20, 0, 0, 0, 0, 0, 0, 0, 0, 0, 0, 0, 0, 100, 30⟩ .contain
      ⟨false, .pct 50, false, .pct 50⟩ 1 2 "a" 4 2 none (3 / 4) (-3 / 4) true).toOption.map
    (fun o => o.map (fun o => ((o.translate.e, o.translate.f), (o.image.cm.a, o.image.cm.d, o.image.cm.f)))) =
    some (some ((30, 20), (60, -30, 30))) := by decide +kernel

example : (svgIntrinsic (some 64) none (some (2, 8))).toOption.map (fun i => (i.w, i.h, i.ratio)) =
    some (some 64, some 256, some (2 / 8)) := by decide +kernel


/-! ## C13.embedded_alpha — decisions of `RasterImage.__init__` / `get_x_object` -/

section Embed
open Wp.RasterEmbed

/-- What `rasterInit` decides, whenever it succeeds: the normalised mode and the JPEG path. -/
theorem rasterInit_mode (s : Src) (o : Opts) (r : Raster) (h : rasterInit s o = .ok r) :
    r.mode = (normalise s.mode s.transparency).1 ∧
    r.jpeg = (!(normalise s.mode s.transparency).2 && (s.format == .jpeg || s.format == .mpo)) := by
  unfold rasterInit at h
  rcases hn : normalise s.mode s.transparency with ⟨m, c⟩
  simp only [hn] at h
  cases c <;> simp at h ⊢
  · split_ifs at h <;> simp at h <;> subst h <;> simp_all
  · split_ifs at h <;> simp at h <;> subst h <;> simp_all

/-- **An image with an alpha channel or transparency information gets an `/SMask`; one without does
not.**  For every image that Pillow's decoders can produce (`JPEG`/`MPO` files decode to `L`, `RGB` or
`CMYK`) except palette-with-alpha (`PA`: never embedded, see `Witness.unwritable_mode_not_loaded`), whatever the options and
the orientation, whenever the image is embedded at all. -/
theorem embed_smask_iff_alpha (s : Src) (o : Opts) (r : Raster) (x : XObject)
    (h : embed s o = .ok (r, x)) (hpa : s.mode ≠ .PA)
    (hjpeg : s.format = .jpeg ∨ s.format = .mpo → s.mode = .L ∨ s.mode = .RGB ∨ s.mode = .CMYK) :
    x.smask = hasAlpha s := by
  unfold embed at h
  rcases hr : rasterInit s o with e | r'
  · simp [hr] at h
  · simp [hr] at h
    obtain ⟨rfl, rfl⟩ := h
    obtain ⟨hm, hj⟩ := rasterInit_mode s o r' hr
    rcases s with ⟨m, t, f, a, rot, hd⟩
    simp only [xObject, hasAlpha, hm, hj] at *
    cases t <;> cases f <;> cases m <;> simp_all [normalise] <;> try decide

/-- The colour space follows the normalised mode: transparency information, bilevel, palette and
integer images are RGB, `L`/`LA` grey, `CMYK` (JPEG) CMYK. -/
theorem embed_colour_space (s : Src) (o : Opts) (r : Raster) (x : XObject) (h : embed s o = .ok (r, x)) :
    x.colorSpace = colorSpaceOf (normalise s.mode s.transparency).1 ∧
    (x.colors3 = true → x.colorSpace = "/DeviceRGB") := by
  unfold embed at h
  rcases hr : rasterInit s o with e | r'
  · simp [hr] at h
  · simp [hr] at h
    obtain ⟨rfl, rfl⟩ := h
    obtain ⟨hm, _⟩ := rasterInit_mode s o r' hr
    constructor
    · unfold xObject; split_ifs <;> simp [hm]
    · unfold xObject; split_ifs <;> simp
      rintro (h | h) <;> simp [h, colorSpaceOf]

/-- Lossless unless a lossy option was requested: a JPEG file, and a PNG file that needs no mode
conversion, are passed through byte for byte when neither `optimize_images`, `jpeg_quality` nor a
rotation is requested; and every non-JPEG image of a mode other than `I;16` / `CMYK` / `PA` / `F` that
is embedded at all is embedded as a plain 8-bit grey/RGB(+mask) stream (`faithful`), which is what
the decoded-pixel correspondence then checks against Pillow. -/
theorem embed_lossless (s : Src) (o : Opts) (r : Raster) (h : rasterInit s o = .ok r) :
    ((s.format = .jpeg ∨ s.format = .mpo) → s.transparency = false →
      (s.mode = .L ∨ s.mode = .RGB ∨ s.mode = .CMYK) →
      s.hasData = true → s.rotated = false → o.optimize = false → o.quality = false → r.reencoded = false) ∧
    (s.format = .png → s.transparency = false → (s.mode = .L ∨ s.mode = .LA ∨ s.mode = .RGB ∨ s.mode = .RGBA) →
      s.hasData = true → s.rotated = false → o.optimize = false → r.reencoded = false) ∧
    (r.jpeg = false → (s.transparency = true ∨ s.mode = .bilevel ∨ s.mode = .L ∨ s.mode = .LA ∨ s.mode = .P ∨
      s.mode = .RGB ∨ s.mode = .RGBA ∨ s.mode = .I) → faithful r = true) := by
  obtain ⟨hm, hj⟩ := rasterInit_mode s o r h
  rcases s with ⟨m, t, f, a, rot, hd⟩
  rcases o with ⟨op, q⟩
  refine ⟨?_, ?_, ?_⟩
  · rintro hf rfl hmode rfl rfl rfl rfl
    rcases hf with rfl | rfl <;> rcases hmode with rfl | rfl | rfl <;>
      simp [rasterInit, normalise] at h <;> subst h <;> rfl
  · rintro rfl rfl hmode rfl rfl rfl
    rcases hmode with rfl | rfl | rfl | rfl <;> simp [rasterInit, normalise] at h <;> subst h <;> rfl
  · intro hjf hmode
    simp only [faithful, hjf, hm]
    cases t <;> cases m <;> simp_all [normalise]

/-- **The image loader never aborts the rendering on an image Pillow has opened** (repair d7dc388; it is
a function into `Option`, `none` = "Failed to load image", alternative text rendered), and it refuses an
image exactly when the encoder of its path cannot write the normalised mode: the JPEG path for a
JPEG/MPO file that kept its format, the PNG path otherwise — and then only when the data has to be
re-encoded (no source bytes, `optimize_images`, `jpeg_quality`, or a non-PNG source). -/
theorem load_refuses_iff (s : Src) (o : Opts) :
    loadRaster s o = none ↔
      (let n := normalise s.mode s.transparency
       let fmt := if n.2 then Fmt.other else s.format
       let noData := !(s.hasData && !s.rotated)
       if fmt == .jpeg || fmt == .mpo then (noData || o.optimize || o.quality) && !jpegWritable n.1
       else (noData || o.optimize || fmt != .png) && !pngWritable n.1) = true := by
  unfold loadRaster rasterInit
  rcases hn : normalise s.mode s.transparency with ⟨m, c⟩
  simp only []
  split_ifs <;> simp_all

/-- Every image whose normalised mode is one of the four that PDF image XObjects carry natively
(`L`, `LA`, `RGB`, `RGBA` — i.e. every PNG / GIF / WEBP / BMP / TIFF of mode `1`, `L`, `LA`, `P`, `RGB`,
`RGBA`, `I`, and anything with transparency information) and which does not come from a JPEG file is
loaded, whatever the options and the orientation; so is every JPEG / MPO of mode `L`, `RGB`, `CMYK`. -/
theorem load_total (s : Src) (o : Opts) :
    ((s.format ≠ .jpeg ∧ s.format ≠ .mpo) →
      (s.transparency = true ∨ s.mode = .bilevel ∨ s.mode = .L ∨ s.mode = .LA ∨ s.mode = .P ∨ s.mode = .RGB ∨
        s.mode = .RGBA ∨ s.mode = .I) → (loadRaster s o).isSome = true) ∧
    ((s.format = .jpeg ∨ s.format = .mpo) → s.transparency = false →
      (s.mode = .L ∨ s.mode = .RGB ∨ s.mode = .CMYK) → (loadRaster s o).isSome = true) := by
  rcases s with ⟨m, t, f, a, rot, hd⟩
  rcases o with ⟨op, q⟩
  constructor
  · rintro ⟨h1, h2⟩ hm
    cases t <;> cases f <;> cases m <;> simp_all [loadRaster, rasterInit, normalise, pngWritable, jpegWritable] <;>
      (split_ifs <;> simp)
  · rintro hf rfl hm
    rcases hf with rfl | rfl <;> rcases hm with rfl | rfl | rfl <;>
      simp [loadRaster, rasterInit, normalise, pngWritable, jpegWritable] <;> (split_ifs <;> simp)

/-- `loadRaster` / `loadEmbed` are `rasterInit` / `embed` with the exception turned into `none`. -/
theorem load_eq_embed (s : Src) (o : Opts) :
    loadEmbed s o = (embed s o).toOption ∧ loadRaster s o = (rasterInit s o).toOption := by
  unfold loadEmbed loadRaster embed
  rcases rasterInit s o with e | r <;> simp [Except.toOption]

example : loadRaster ⟨.CMYK, false, .other, false, false, true⟩ ⟨false, false⟩ = none ∧
    (loadRaster ⟨.CMYK, false, .jpeg, true, false, true⟩ ⟨false, false⟩).isSome = true ∧
    (loadRaster ⟨.P, true, .other, false, true, true⟩ ⟨true, true⟩).isSome = true := by
  refine ⟨?_, ?_, ?_⟩ <;> decide +kernel

example : (embed ⟨.P, true, .png, false, false, true⟩ ⟨false, false⟩).toOption =
    some (⟨.RGBA, false, true, false⟩, ⟨"/DeviceRGB", "/FlateDecode", true, true, false⟩) := by decide +kernel

example : (embed ⟨.CMYK, false, .jpeg, true, false, true⟩ ⟨false, false⟩).toOption =
    some (⟨.CMYK, true, false, true⟩, ⟨"/DeviceCMYK", "/DCTDecode", false, false, true⟩) := by decide +kernel

/-- `invert_colors`, whenever `rasterInit` succeeds: the normalised mode is CMYK and the opened file has APP14. -/
theorem rasterInit_invert (s : Src) (o : Opts) (r : Raster) (h : rasterInit s o = .ok r) :
    r.invert = ((normalise s.mode s.transparency).1 == .CMYK && s.app14) := by
  unfold rasterInit at h
  rcases hn : normalise s.mode s.transparency with ⟨m, c⟩
  simp only [hn] at h
  cases c <;> simp at h ⊢
  · split_ifs at h <;> simp at h <;> subst h <;> simp_all
  · split_ifs at h <;> simp at h <;> subst h <;> simp_all

/-- **An Adobe CMYK JPEG is un-inverted exactly when its file says so, whatever `image-orientation` and the
options did to it.**  The `/Decode [1 0 1 0 1 0 1 0]` array is on the image XObject iff the image goes the JPEG
path, its normalised mode is CMYK and the *opened file* carries an APP14 marker; for a CMYK JPEG/MPO source that is
`/Decode` ⇔ APP14, with `/DCTDecode` and `/DeviceCMYK`; and the decision is a function of what `Image.open`
reports (mode, transparency, format, APP14) alone: rotation, missing source bytes, `optimize_images` and
`jpeg_quality` cannot change it. -/
theorem embed_decode_iff_app14 (s : Src) (o : Opts) (r : Raster) (x : XObject) (h : embed s o = .ok (r, x)) :
    x.decodeInverted = (r.jpeg && (r.mode == .CMYK) && s.app14) ∧
    (s.transparency = false → s.mode = .CMYK → (s.format = .jpeg ∨ s.format = .mpo) →
      x.decodeInverted = s.app14 ∧ x.filter = "/DCTDecode" ∧ x.colorSpace = "/DeviceCMYK") ∧
    (∀ s' : Src, s'.mode = s.mode → s'.transparency = s.transparency → s'.format = s.format → s'.app14 = s.app14 →
      ∀ o' r' x', embed s' o' = .ok (r', x') → x'.decodeInverted = x.decodeInverted) := by
  have key : ∀ (s : Src) (o : Opts) (r : Raster) (x : XObject), embed s o = .ok (r, x) →
      x.decodeInverted = ((!(normalise s.mode s.transparency).2 && (s.format == .jpeg || s.format == .mpo)) &&
        ((normalise s.mode s.transparency).1 == .CMYK) && s.app14) ∧
      r.mode = (normalise s.mode s.transparency).1 ∧
      r.jpeg = (!(normalise s.mode s.transparency).2 && (s.format == .jpeg || s.format == .mpo)) ∧
      x = xObject r := by
    intro s o r x h
    unfold embed at h
    rcases hr : rasterInit s o with e | r'
    · simp [hr] at h
    · simp [hr] at h
      obtain ⟨rfl, rfl⟩ := h
      obtain ⟨hm, hj⟩ := rasterInit_mode s o r' hr
      have hi := rasterInit_invert s o r' hr
      refine ⟨?_, hm, hj, rfl⟩
      unfold xObject
      split_ifs with hjp
      · simp [hi, ← hj, hjp]
      · simp [← hj, hjp]
  obtain ⟨hd, hm, hj, hx⟩ := key s o r x h
  refine ⟨by rw [hd, hm, hj], ?_, ?_⟩
  · intro ht hmode hf
    have hn : normalise s.mode s.transparency = (.CMYK, false) := by simp [normalise, ht, hmode]
    have hjpeg : r.jpeg = true := by
      rw [hj, hn]; rcases hf with hf | hf <;> simp [hf]
    refine ⟨by rw [hd, hn]; rcases hf with hf | hf <;> simp [hf], ?_, ?_⟩
    · rw [hx]; simp [xObject, hjpeg]
    · rw [hx]; simp [xObject, hjpeg, hm, hn, colorSpaceOf]
  · intro s' h1 h2 h3 h4 o' r' x' h'
    obtain ⟨hd', _, _, _⟩ := key s' o' r' x' h'
    rw [hd', hd, h1, h2, h3, h4]

/-- Non-vacuity: Pillow's Adobe CMYK JPEG, untouched and rotated with `optimize_images`: `/Decode` both times. -/
example : (embed ⟨.CMYK, false, .jpeg, true, false, true⟩ ⟨false, false⟩).toOption.map (fun p => p.2.decodeInverted) = some true ∧
    (embed ⟨.CMYK, false, .jpeg, true, true, true⟩ ⟨true, false⟩).toOption.map (fun p => p.2.decodeInverted) = some true ∧
    (embed ⟨.CMYK, false, .jpeg, false, true, true⟩ ⟨false, false⟩).toOption.map (fun p => p.2.decodeInverted) = some false := by
  refine ⟨?_, ?_, ?_⟩ <;> decide +kernel


end Embed

/-! ## C13.image_properties_inherited — the regenerated `INHERITED` table -/

/-- Each of the three image properties of css-images-3 §6 (`image-orientation`, `image-rendering`,
`image-resolution`) is in the regenerated `INHERITED` set, as the specification defines them (full strength
since repair 8f3706e; `image-orientation` was the missing one — finding `image-orientation-not-inherited`,
fixed): an image below an element that sets one of them is sized, rotated and sampled with that value. -/
theorem image_properties_inherited_table :
    (∀ p ∈ Gen.imagePropsInherited, p.2 = true) ∧
    Gen.imagePropsInherited.map Prod.fst = ["image_orientation", "image_rendering", "image_resolution"] := by
  constructor
  · decide
  · rfl

/-! ## C13.canvas_background — `layout_backgrounds`: the propagated background keeps its own computed values -/

/-- The canvas layers are those of the chosen element's style on the page geometry: the page's own style (its
image-resolution in particular) and the other element's style play no part. -/
theorem canvas_from_chosen_style (pageG : Geom) (bt br bb bl : Rat) (pageStyle : BgStyle) (rootG : Geom)
    (rootStyle : BgStyle) (isHtml : Bool) (body : Option (Geom × BgStyle)) (c : Chosen) (ls : List LayerResult)
    (h : layoutBackgrounds pageG bt br bb bl pageStyle rootG rootStyle isHtml body = .ok (c, ls)) :
    (c = .nobody ∧ ls = []) ∨
    ∃ s, canvasFor pageG bt br bb bl s = .ok ls ∧
      ((c = .root ∧ s = rootStyle) ∨ (c = .body ∧ isHtml = true ∧ ∃ g, body = some (g, s))) := by
  unfold layoutBackgrounds at h
  simp only [bind, Except.bind, pure, Except.pure] at h
  rcases h0 : layoutBoxBackgrounds pageG (.page bt br bb bl) pageG true pageStyle with e | pb
  · simp [h0] at h
  simp only [h0] at h
  rcases h1 : layoutBoxBackgrounds rootG .plain pageG false rootStyle with e | rootBg
  · simp [h1] at h
  simp only [h1] at h
  rcases body with _ | ⟨g, sb⟩
  · -- no body
    simp only [chooseCanvas] at h
    by_cases hr : rootBg == .none
    · simp [hr] at h; exact Or.inl ⟨h.1.symm, h.2⟩
    · simp [hr] at h
      rcases hc : canvasFor pageG bt br bb bl rootStyle with e | l
      · simp [hc] at h
      · simp [hc] at h
        exact Or.inr ⟨rootStyle, by rw [hc, h.2], Or.inl ⟨h.1.symm, rfl⟩⟩
  · rcases h2 : layoutBoxBackgrounds g .plain pageG false sb with e | bodyBg
    · simp [h2, Except.map] at h
    simp only [h2, Except.map, chooseCanvas] at h
    by_cases hr : rootBg == .none
    · cases isHtml
      · simp [hr] at h; exact Or.inl ⟨h.1.symm, h.2⟩
      · by_cases hb : bodyBg == .none
        · simp [hr, hb] at h; exact Or.inl ⟨h.1.symm, h.2⟩
        · simp [hr, hb] at h
          rcases hc : canvasFor pageG bt br bb bl sb with e | l
          · simp [hc] at h
          · simp [hc] at h
            exact Or.inr ⟨sb, by rw [hc, h.2], Or.inr ⟨h.1.symm, rfl, g, rfl⟩⟩
    · simp [hr] at h
      rcases hc : canvasFor pageG bt br bb bl rootStyle with e | l
      · simp [hc] at h
      · simp [hc] at h
        exact Or.inr ⟨rootStyle, by rw [hc, h.2], Or.inl ⟨h.1.symm, rfl⟩⟩

/-- **The canvas background of a raster image is sized with the `image-resolution` of the element it comes
from**: with `background-size: auto`, no `round` axis, a `pw × ph` px image and the (positive) resolution
`s.res` of the propagated element's style, the canvas has one layer whose tile is `pw / s.res × ph / s.res`
— whatever the page's own `image-resolution` — painted over the page's border box. -/
theorem canvas_tile_uses_own_resolution (pageG : Geom) (bt br bb bl : Rat) (s : BgStyle) (pw ph : Rat)
    (himg : s.image = some (pw, ph)) (hvis : s.hidden = false) (hsize : s.size = .explicit none none)
    (hrx : s.rx ≠ .round) (hry : s.ry ≠ .round) (hres : 0 < s.res) (hpw : 0 < pw) (hph : 0 < ph)
    (ls : List LayerResult) (h : canvasFor pageG bt br bb bl s = .ok ls) :
    ∃ l lay, ls = [l] ∧ l.layer = some lay ∧ lay.size = (pw / s.res, ph / s.res) ∧
      boxRectangle pageG .borderBox = .ok l.paintingArea := by
  have hres0 : s.res ≠ 0 := ne_of_gt hres
  have hph0 : ph ≠ 0 := ne_of_gt hph
  unfold canvasFor at h
  simp only [bind, Except.bind, pure, Except.pure] at h
  rcases hb : boxRectangle pageG .borderBox with e | border
  · simp [hb] at h
  simp only [hb] at h
  have hl : layoutBoxBackgrounds pageG (.page bt br bb bl) pageG true s =
      (layoutBackgroundLayer pageG (.page bt br bb bl) pageG (some ⟨some (pw / s.res), some (ph / s.res), some (pw / ph)⟩)
        s.size s.clip s.rx s.ry s.origin s.pos s.fixed).map (fun l => BoxBg.layers [l]) := by
    simp [layoutBoxBackgrounds, himg, hvis, pyDiv, hph0, rasterIntrinsic, hres0, bind, Except.bind, pure, Except.pure,
      Except.map]
  rw [hl] at h
  rcases hlay : layoutBackgroundLayer pageG (.page bt br bb bl) pageG
      (some ⟨some (pw / s.res), some (ph / s.res), some (pw / ph)⟩) s.size s.clip s.rx s.ry s.origin s.pos s.fixed with e | l
  · simp [hlay, Except.map] at h
  simp [hlay, Except.map] at h
  subst h
  rcases l with ⟨pa, lay⟩
  rcases lay with _ | lay
  · -- no layer: only for a zero intrinsic size
    exfalso
    have hw : pw / s.res ≠ 0 := ne_of_gt (div_pos hpw hres)
    have hh : ph / s.res ≠ 0 := ne_of_gt (div_pos hph hres)
    simp [layoutBackgroundLayer, bind, Except.bind, pure, Except.pure, hw, hh] at hlay
    repeat' (split at hlay <;> try (simp at hlay))
  · obtain ⟨_, hc, _⟩ := background_no_round pageG (.page bt br bb bl) pageG _ s.size s.clip s.rx s.ry s.origin s.pos
      s.fixed pa lay hrx hry hlay
    rw [hsize] at hc
    simp [concreteSize, percentageOpt, defaultImageSizing, disSpecified] at hc
    exact ⟨_, lay, rfl, rfl, hc.symm, rfl⟩

/-- Non-vacuity: `<body>` with a 8 × 4 px image at 2dppx under an `<html>` without background, page style at
1dppx: the canvas tile is 4 × 2. -/
example : (layoutBackgrounds ⟨0, 0, 0, 0, 0, 0, 0, 0, 0, 0, 0, 0, 0, 0, 100, 50⟩ 0 0 0 0
      ⟨none, false, false, 1, .explicit none none, .borderBox, .repeat, .repeat, .paddingBox, ⟨false, .pct 0, false, .pct 0⟩, false⟩
      ⟨0, 0, 0, 0, 0, 0, 0, 0, 0, 0, 0, 0, 0, 0, 100, 20⟩
      ⟨none, false, false, 1, .explicit none none, .borderBox, .repeat, .repeat, .paddingBox, ⟨false, .pct 0, false, .pct 0⟩, false⟩
      true
      (some (⟨0, 0, 0, 0, 0, 0, 0, 0, 0, 0, 0, 0, 0, 0, 100, 20⟩,
        ⟨some (8, 4), false, false, 2, .explicit none none, .borderBox, .repeat, .repeat, .paddingBox, ⟨false, .pct 0, false, .pct 0⟩, false⟩))).toOption.map
    (fun r => (r.1, r.2.map (fun l => l.layer.map (fun y => y.size)))) = some (.body, [some (4, 2)]) := by
  decide +kernel

/-! ## C13.image_identity — `get_image_from_uri`: one id per distinct (source, orientation, options) -/

open Wp.ImageId in
/-- Two requests of one document get the same image id exactly when they have the same key. -/
theorem same_id_iff_same_key (reqs : List Key) (a b : Key) (ha : a ∈ reqs) (hb : b ∈ reqs) :
    firstSame reqs a = firstSame reqs b ↔ a = b := by
  constructor
  · intro h
    obtain ⟨h1, e1⟩ := firstSame_spec reqs a ha
    obtain ⟨h2, e2⟩ := firstSame_spec reqs b hb
    have : reqs[firstSame reqs a] = reqs[firstSame reqs b] := by simp [h]
    rw [e1, e2] at this
    exact this
  · rintro rfl; rfl

open Wp.ImageId in
/-- Hence two uses are drawn with the same image XObject name `i{id}{interpolate}` exactly when they have the
same key and the same `image-rendering` class — for any injective naming of the keys (`md5`, trusted) —: the
same source under two image-orientations is two images. -/
theorem same_xobject_iff (idOf : Key → String) (hinj : Function.Injective idOf) (a b : Key) (ia ib : Bool) :
    ImageDedupe.imageName (idOf a) ia = ImageDedupe.imageName (idOf b) ib ↔ a = b ∧ ia = ib := by
  constructor
  · intro h
    obtain ⟨h1, h2⟩ := imageName_injective _ _ _ _ h
    exact ⟨hinj h1, h2⟩
  · rintro ⟨rfl, rfl⟩; rfl

open Wp.ImageId in
example : idClasses [⟨0, 0, 0, 0, 0⟩, ⟨0, 2, 0, 0, 0⟩, ⟨0, 0, 0, 0, 0⟩, ⟨1, 0, 0, 0, 0⟩, ⟨0, 2, 0, 0, 96⟩] = [0, 1, 0, 3, 4] := by
  decide +kernel

end Wp.C13
