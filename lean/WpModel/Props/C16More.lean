/-
C16 — round 2 theorems about the content-stream machine.
-/
import WpModel.Lemmas.PdfStreamErrors
import WpModel.Lemmas.PdfNames
import WpModel.Lemmas.PdfOwner

namespace Wp.C16
open Wp Wp.Pdf

/-- **stream_raises_only_assert**: for *every* sequence of API calls on a fresh `Stream` (bracketed or not), the only
exception the modelled methods can raise is the `assert self._ctm_stack` of an unmatched `pop_state`: `_ctm_stack` is
never empty after a call that returned, so `self.ctm` (`_ctm_stack[-1]`) and `_ctm_stack.pop()` cannot raise
`IndexError`.  (Together with `balanced`: under API-level bracketing nothing is raised at all.) -/
theorem stream_raises_only_assert (mark : Bool) (r : Res) (calls : List Call) (e : PyErr)
    (h : runS r { mark := mark } calls = .error e) : e = .assertFailed "pop_state:_ctm_stack" :=
  runS_error calls r _ e (by simp) h

/-- The error is reachable (so the statement is not vacuous) … -/
example : ∃ e, runS {} {} [.push, .pop, .pop] = .error e := ⟨_, rfl⟩

/-- **resources_unshared**: in every document state reachable from what `generate_pdf` sets up, two different group /
pattern streams never write to the same resource dictionary, and none of them writes to the page dictionary: every
sub-resource dictionary has exactly one owner.  This is the structural fact `_reference_resources` relies on when it
asserts `resources['Font'] is None` (a dictionary reached through two owners would trip it), and why giving each form
XObject / pattern its own `/Resources` is sound. -/
theorem resources_unshared (mark : Bool) (pages : Nat) (calls : List WCall) (w' : World)
    (hs : ScopedRun (World.init mark pages) calls) (hrun : (World.init mark pages).run calls = .ok w') :
    (∀ (h h' : Nat) (s s' : SState), w'.streams[h]? = some s → w'.streams[h']? = some s' →
      s.id.isSome = true → s'.id.isSome = true → s.res = s'.res → h = h') ∧
    (∀ (h : Nat) (s : SState), w'.streams[h]? = some s → s.id.isSome = true → 0 < s.res) := by
  have := World.run_owner calls _ w' (owner_init mark pages) (init_ok mark pages) hs hrun
  exact ⟨this.inj, this.nonzero⟩

/-! ## The `/Dests` name array -/

open Wp.PdfNames in
/-- **names_sorted_partial**: the `/Names` array of `/Dests` has exactly one key per anchor name given (a permutation of
them), in Python `str` order; and when every name is ASCII the keys — then literal strings holding the names themselves
— are sorted in the lexical byte order a PDF reader searches a name tree with (PDF 32000-1 7.9.6).

Full statement (keys byte-sorted for *all* names): **false of the current code** — `Witness.dests_names_unsorted`:
a non-ASCII name is written as `<FEFF…>` UTF-16BE, whose bytes do not order like the code points `sorted()` compared
(known finding `dests-names-unsorted`). -/
theorem names_sorted_partial (names : List PyStr) :
    (pySorted names).Perm names ∧ sortedBy lexLe (pySorted names) = true ∧
    (names.all isAscii = true → sortedBy lexLe (destKeys names) = true) := by
  refine ⟨pySorted_perm names, pySorted_sorted names, ?_⟩
  intro h
  unfold destKeys
  rw [map_keyBytes_ascii _ (pySorted_all isAscii names h)]
  exact pySorted_sorted names

open Wp.PdfNames in
example : destKeys [[98], [97, 122], [97]] = [[97], [97, 122], [98]] := by decide

end Wp.C16
