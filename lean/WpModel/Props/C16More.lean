/-
C16 — round 2 theorems about the content-stream machine.
-/
import WpModel.Lemmas.PdfStreamErrors
import WpModel.Lemmas.PdfNames
import WpModel.Lemmas.PdfOwner

namespace Wp.C16
open Wp Wp.Pdf

/-- **stream_raises_only_assert**: for *every* sequence of API calls on a fresh `Stream` (bracketed or not), the only
exception the modelled methods can raise is the `assert self._ctm_stack` of an unmatched `pop_state`: `_ctm_stack` is
never empty after a call that returned, so `self.ctm` (`_ctm_stack[-1]`) and `_ctm_stack.pop()` cannot raise
`IndexError`.  (Together with `balanced`: under API-level bracketing nothing is raised at all.) -/
theorem stream_raises_only_assert (mark : Bool) (r : Res) (calls : List Call) (e : PyErr)
    (h : runS r { mark := mark } calls = .error e) : e = .assertFailed "pop_state:_ctm_stack" :=
  runS_error calls r _ e (by simp) h

/-- The error is reachable (so the statement is not vacuous) … -/
example : ∃ e, runS {} {} [.push, .pop, .pop] = .error e := ⟨_, rfl⟩

/-- **resources_unshared**: in every document state reachable from what `generate_pdf` sets up, two different group /
pattern streams never write to the same resource dictionary, and none of them writes to the page dictionary: every
sub-resource dictionary has exactly one owner.  This is the structural fact `_reference_resources` relies on when it
asserts `resources['Font'] is None` (a dictionary reached through two owners would trip it), and why giving each form
XObject / pattern its own `/Resources` is sound. -/
theorem resources_unshared (mark : Bool) (pages : Nat) (calls : List WCall) (w' : World)
    (hs : ScopedRun (World.init mark pages) calls) (hrun : (World.init mark pages).run calls = .ok w') :
    (∀ (h h' : Nat) (s s' : SState), w'.streams[h]? = some s → w'.streams[h']? = some s' →
      s.id.isSome = true → s'.id.isSome = true → s.res = s'.res → h = h') ∧
    (∀ (h : Nat) (s : SState), w'.streams[h]? = some s → s.id.isSome = true → 0 < s.res) := by
  have := World.run_owner calls _ w' (owner_init mark pages) (init_ok mark pages) hs hrun
  exact ⟨this.inj, this.nonzero⟩

/-! ## The `/Dests` name array -/

open Wp.PdfNames in
/-- **names_sorted** (full strength since the repair of finding `dests-names-unsorted`): for *every* list of anchor
names — ASCII or not — the `/Names` array of `/Dests` has exactly one key per anchor name given (the names in array
order are a permutation of them), and the keys, as the bytes the written string objects denote (the text itself, or
`FE FF` + UTF-16BE), are sorted in the lexical byte order a PDF reader searches a name tree with (PDF 32000-1 7.9.6).
Before the repair this held for ASCII names only (`sorted()` compared code points, not key bytes). -/
theorem names_sorted (names : List PyStr) :
    (destOrder names).Perm names ∧ sortedBy lexLe (destKeys names) = true := by
  refine ⟨pySortedBy_perm keyBytes names, ?_⟩
  unfold destKeys destOrder
  rw [map_pySortedBy]
  exact pySorted_sorted _

open Wp.PdfNames in
/-- **names_strictly_sorted**: `resolve_links` keeps one anchor per name, so the names given are pairwise distinct; for
every such list of names (Unicode scalar values: what `str.encode` accepts) the keys of the `/Dests` name array are
pairwise distinct too — `pydyf.String` never writes two names as the same bytes, whether as text or as `FE FF` +
UTF-16BE with surrogate pairs — and *strictly* increasing in byte order: a reader bisecting the name tree finds every
anchor, and exactly one entry for it. -/
theorem names_strictly_sorted (names : List PyStr) (hv : names.all validStr = true) (hd : names.Nodup) :
    sortedBy lexLt (destKeys names) = true := by
  apply sortedBy_strict _ (names_sorted names).2
  unfold destKeys
  have hperm := (names_sorted names).1
  have hnd : (destOrder names).Nodup := hperm.nodup_iff.mpr hd
  have hval : ∀ x ∈ destOrder names, validStr x = true := fun x hx =>
    List.all_eq_true.mp hv x (hperm.mem_iff.mp hx)
  exact map_keyBytes_nodup _ hnd hval

open Wp.PdfNames in
/-- Non-vacuity: `b`, `aé`, `😀` (a surrogate pair), `a` are distinct valid names. -/
example : [[98], [97, 233], [0x1F600], [97]].all validStr = true ∧
    destKeys [[98], [97, 233], [0x1F600], [97]] =
      [[97], [98], [0xFE, 0xFF, 0, 97, 0, 233], [0xFE, 0xFF, 0xD8, 0x3D, 0xDE, 0x00]] := by decide

open Wp.PdfNames in
/-- For ASCII names nothing changed: the order is Python's `sorted(pdf_names)` and the keys are the names. -/
theorem names_sorted_ascii (names : List PyStr) (h : names.all isAscii = true) :
    destOrder names = pySorted names ∧ destKeys names = pySorted names := by
  have h1 : destOrder names = pySorted names := pySortedBy_ascii names h
  refine ⟨h1, ?_⟩
  unfold destKeys
  rw [h1, map_keyBytes_ascii _ (pySorted_all isAscii names h)]

open Wp.PdfNames in
example : destKeys [[98], [97, 122], [97]] = [[97], [97, 122], [98]] := by decide

open Wp.PdfNames in
/-- Non-vacuity on mixed names (`b`, `aé`, `€`, `a`): the ASCII keys come first, then the `FE FF …` keys. -/
example : destKeys [[98], [97, 233], [0x20AC], [97]] =
    [[97], [98], [0xFE, 0xFF, 0, 97, 0, 233], [0xFE, 0xFF, 0x20, 0xAC]] := by decide

/-! ## The `/EmbeddedFiles` name array -/

open Wp.PdfNames in
/-- **embedded_files_sorted** (full strength since the repair of finding `embedded-files-sorted-by-serialised-key`): for
*every* list of attachment file names — blanks, parentheses, backslashes, prefixes of one another included — the `/Names`
array of `/EmbeddedFiles` lists exactly the attachments given (a permutation) and its keys are sorted in the lexical
byte order of a name tree (PDF 32000-1 7.9.6).  (Equal file names give equal adjacent keys: C18's finding
`embedded-files-duplicate-keys`.) -/
theorem embedded_files_sorted (names : List (List Nat)) :
    (embeddedKeys names).Perm names ∧ sortedBy lexLe (embeddedKeys names) = true := by
  refine ⟨pySortedBy_perm _ names, ?_⟩
  have h := map_pySortedBy (fun n => n) names
  simp only [List.map_id'] at h
  unfold embeddedKeys
  rw [h]
  exact pySorted_sorted _

open Wp.PdfNames in
/-- What held before the repair, kept because it explains the old order: sorting the written forms `(name)` sorts the
names when no name holds a byte at or below `)` nor a backslash. -/
theorem written_order_sorted_plain (names : List (List Nat)) (hp : ∀ n ∈ names, plainName n = true) :
    sortedBy lexLe (embeddedKeysWrittenOrder names) = true := by
  apply sortedBy_of_map_litData
  · intro x hx
    exact hp x ((pySortedBy_perm litData names).mem_iff.mp hx)
  · unfold embeddedKeysWrittenOrder
    rw [map_pySortedBy]
    exact pySorted_sorted _

open Wp.PdfNames in
/-- Non-vacuity: `b.txt`, `a.txt`, `a-1.txt`; the keys come out sorted. -/
example : (∀ n ∈ [[98, 46, 116, 120, 116], [97, 46, 116, 120, 116], [97, 45, 49, 46, 116, 120, 116]],
      plainName n = true) ∧
    embeddedKeys [[98, 46, 116, 120, 116], [97, 46, 116, 120, 116], [97, 45, 49, 46, 116, 120, 116]] =
      [[97, 45, 49, 46, 116, 120, 116], [97, 46, 116, 120, 116], [98, 46, 116, 120, 116]] := by decide

end Wp.C16
