/-
C05 — box-decoration removal (`Model/BoxDeco.lean`: `_reset_spacing`, `ParentBox.remove_decoration`,
`InlineBox.remove_decoration`): what a fragment keeps and loses (clauses (a)(b)(g)), the laws of the operation
(`clone`, idempotence, start/end independence, rtl as the mirror image of ltr), what `remove_decoration_sides`
records, and the link to the pagination model (`PM.Geo.cutBottom`, the box cut by `find_earlier_page_break`,
is `remove_decoration(start=False, end=True)`) and to `resolve_radii_percentages`.  Core Lean only.
-/
import WpModel.Model.BoxDeco
import WpModel.Model.BoxModel
import WpModel.Model.Paginate

namespace Wp.C05Deco
open Wp Wp.BoxEdges Wp.BoxDeco

/-! ### `_reset_spacing` -/

/-- (a) `_reset_spacing` never touches the position and the content size. -/
theorem resetSpacing_content (s : Side) (b : DBox) :
    (resetSpacing s b).box.x = b.box.x ∧ (resetSpacing s b).box.y = b.box.y ∧
    (resetSpacing s b).box.w = b.box.w ∧ (resetSpacing s b).box.h = b.box.h := by
  cases s <;> exact ⟨rfl, rfl, rfl, rfl⟩

/-- It records the side, and only adds to the record. -/
theorem resetSpacing_removed (s t : Side) (b : DBox) :
    (resetSpacing s b).removed.mem t = (decide (t = s) || b.removed.mem t) := by
  cases s <;> cases t <;> simp [resetSpacing, Sides.add, Sides.mem]

theorem resetSpacing_idem (s : Side) (b : DBox) : resetSpacing s (resetSpacing s b) = resetSpacing s b := by
  cases s <;> rfl

theorem resetSpacing_comm (s t : Side) (b : DBox) :
    resetSpacing s (resetSpacing t b) = resetSpacing t (resetSpacing s b) := by
  cases s <;> cases t <;> rfl

/-! ### `ParentBox.remove_decoration` -/

/-- `box-decoration-break: clone`: every fragment keeps the whole decoration. -/
theorem removeDecoration_clone (s e : Bool) (b : DBox) : removeDecoration true s e b = b := rfl

/-- Nothing to remove: nothing changes. -/
theorem removeDecoration_none (c : Bool) (b : DBox) : removeDecoration c false false b = b := by
  cases c <;> rfl

/-- (a) position and content size are never changed (the content box only moves because the decoration
above it is gone, see `removeDecoration_geometry`). -/
theorem removeDecoration_content (c s e : Bool) (b : DBox) :
    (removeDecoration c s e b).box.x = b.box.x ∧ (removeDecoration c s e b).box.y = b.box.y ∧
    (removeDecoration c s e b).box.w = b.box.w ∧ (removeDecoration c s e b).box.h = b.box.h ∧
    (removeDecoration c s e b).box.ml = b.box.ml ∧ (removeDecoration c s e b).box.mr = b.box.mr ∧
    (removeDecoration c s e b).box.pl = b.box.pl ∧ (removeDecoration c s e b).box.pr = b.box.pr ∧
    (removeDecoration c s e b).box.bl = b.box.bl ∧ (removeDecoration c s e b).box.br = b.box.br := by
  cases c <;> cases s <;> cases e <;> exact ⟨rfl, rfl, rfl, rfl, rfl, rfl, rfl, rfl, rfl, rfl⟩

/-- The vertical used values after `remove_decoration(start, end)` without `clone`: the start side loses its
top margin, padding and border, the end side its bottom ones; the other side keeps them. -/
theorem removeDecoration_vertical (s e : Bool) (b : DBox) :
    let r := (removeDecoration false s e b).box
    r.mt = (if s then 0 else b.box.mt) ∧ r.pt = (if s then 0 else b.box.pt) ∧ r.bt = (if s then 0 else b.box.bt) ∧
    r.mb = (if e then 0 else b.box.mb) ∧ r.pb = (if e then 0 else b.box.pb) ∧ r.bb = (if e then 0 else b.box.bb) := by
  cases s <;> cases e <;> exact ⟨rfl, rfl, rfl, rfl, rfl, rfl⟩

/-- (a)(g) **The geometry of a fragment**: the horizontal extent is unchanged; the margin box shrinks by exactly
the removed margins, paddings and borders; a fragment without its start decoration has its content box at the
top of its margin box (`content_box_y() = position_y`). -/
theorem removeDecoration_geometry (s e : Bool) (b : DBox) :
    let r := (removeDecoration false s e b).box
    r.marginWidth = b.box.marginWidth ∧ r.contentBoxX = b.box.contentBoxX ∧
    r.marginHeight = b.box.marginHeight
      - (if s then b.box.mt + b.box.pt + b.box.bt else 0) - (if e then b.box.mb + b.box.pb + b.box.bb else 0) ∧
    (s = true → r.contentBoxY = b.box.y) ∧ (s = false → r.contentBoxY = b.box.contentBoxY) := by
  cases s <;> cases e <;>
    simp [removeDecoration, resetSpacing, EBox.marginWidth, EBox.borderWidth, EBox.paddingWidth, EBox.contentBoxX,
      EBox.marginHeight, EBox.borderHeight, EBox.paddingHeight, EBox.contentBoxY] <;> grind

/-- (a) non-negative sizes stay non-negative. -/
theorem removeDecoration_nonneg (c s e : Bool) (b : DBox)
    (h : 0 ≤ b.box.pt ∧ 0 ≤ b.box.pb ∧ 0 ≤ b.box.bt ∧ 0 ≤ b.box.bb) :
    let r := (removeDecoration c s e b).box
    0 ≤ r.pt ∧ 0 ≤ r.pb ∧ 0 ≤ r.bt ∧ 0 ≤ r.bb := by
  obtain ⟨h1, h2, h3, h4⟩ := h
  have z : (0 : Rat) ≤ 0 := Rat.le_refl
  cases c <;> cases s <;> cases e <;>
    (refine ⟨?_, ?_, ?_, ?_⟩ <;> first | exact h1 | exact h2 | exact h3 | exact h4 | exact z)

/-- Idempotent: removing the same decoration again changes nothing (a fragment that is laid out again). -/
theorem removeDecoration_idem (c s e : Bool) (b : DBox) :
    removeDecoration c s e (removeDecoration c s e b) = removeDecoration c s e b := by
  cases c <;> cases s <;> cases e <;> rfl

/-- Start and end are independent: in any order, together or one after the other. -/
theorem removeDecoration_split (c s e : Bool) (b : DBox) :
    removeDecoration c s e b = removeDecoration c false e (removeDecoration c s false b) ∧
    removeDecoration c s e b = removeDecoration c s false (removeDecoration c false e b) := by
  cases c <;> cases s <;> cases e <;> exact ⟨rfl, rfl⟩

/-- Successive calls accumulate (a middle fragment: first cut at its end, later at its start). -/
theorem removeDecoration_acc (c s e s' e' : Bool) (b : DBox) :
    removeDecoration c s' e' (removeDecoration c s e b) = removeDecoration c (s || s') (e || e') b := by
  cases c <;> cases s <;> cases e <;> cases s' <;> cases e' <;> rfl

/-- `remove_decoration_sides` after the call: exactly the sides recorded before plus the removed ones. -/
theorem removeDecoration_removed (c s e : Bool) (b : DBox) (t : Side) :
    (removeDecoration c s e b).removed.mem t =
      (b.removed.mem t || (!c && ((s && decide (t = .top)) || (e && decide (t = .bottom))))) := by
  cases c <;> cases s <;> cases e <;> cases t <;>
    simp [removeDecoration, resetSpacing, Sides.add, Sides.mem]

/-- A removed side has no margin, padding or border left (what the painter and `resolve_radii_percentages`
rely on when they read `remove_decoration_sides`). -/
theorem removeDecoration_zero (s e : Bool) (b : DBox) :
    let r := removeDecoration false s e b
    (s = true → r.removed.top = true ∧ r.box.mt = 0 ∧ r.box.pt = 0 ∧ r.box.bt = 0) ∧
    (e = true → r.removed.bottom = true ∧ r.box.mb = 0 ∧ r.box.pb = 0 ∧ r.box.bb = 0) := by
  cases s <;> cases e <;> simp [removeDecoration, resetSpacing, Sides.add]

/-! ### `InlineBox.remove_decoration` -/

theorem removeDecorationInline_clone (ltr s e : Bool) (b : DBox) : removeDecorationInline true ltr s e b = b := rfl

/-- The horizontal used values: in ltr the start is the left side, in rtl the right side. -/
theorem removeDecorationInline_horizontal (ltr s e : Bool) (b : DBox) :
    let r := (removeDecorationInline false ltr s e b).box
    let l := if ltr then s else e      -- is the left side removed?
    let rr := if ltr then e else s     -- is the right side removed?
    r.ml = (if l then 0 else b.box.ml) ∧ r.pl = (if l then 0 else b.box.pl) ∧ r.bl = (if l then 0 else b.box.bl) ∧
    r.mr = (if rr then 0 else b.box.mr) ∧ r.pr = (if rr then 0 else b.box.pr) ∧ r.br = (if rr then 0 else b.box.br) ∧
    r.mt = b.box.mt ∧ r.mb = b.box.mb ∧ r.pt = b.box.pt ∧ r.pb = b.box.pb ∧ r.bt = b.box.bt ∧ r.bb = b.box.bb ∧
    r.w = b.box.w ∧ r.h = b.box.h ∧ r.x = b.box.x ∧ r.y = b.box.y := by
  cases ltr <;> cases s <;> cases e <;> exact ⟨rfl, rfl, rfl, rfl, rfl, rfl, rfl, rfl, rfl, rfl, rfl, rfl, rfl, rfl, rfl, rfl⟩

/-- Left/right mirror image of a box and of its record. -/
def mirror (b : DBox) : DBox :=
  { box := { b.box with ml := b.box.mr, mr := b.box.ml, pl := b.box.pr, pr := b.box.pl, bl := b.box.br, br := b.box.bl },
    removed := { b.removed with left := b.removed.right, right := b.removed.left } }

theorem mirror_mirror (b : DBox) : mirror (mirror b) = b := rfl

/-- **rtl is the mirror image of ltr**: removing the decoration of an inline box in an rtl context is removing it
in ltr on the mirrored box, mirrored back. -/
theorem removeDecorationInline_rtl_mirror (c s e : Bool) (b : DBox) :
    removeDecorationInline c false s e b = mirror (removeDecorationInline c true s e (mirror b)) := by
  cases c <;> cases s <;> cases e <;> rfl

/-- …and swapping start and end is swapping the direction. -/
theorem removeDecorationInline_swap (c ltr s e : Bool) (b : DBox) :
    removeDecorationInline c ltr s e b = removeDecorationInline c (!ltr) e s b := by
  cases c <;> cases ltr <;> cases s <;> cases e <;> rfl

theorem removeDecorationInline_width (ltr s e : Bool) (b : DBox) :
    let r := (removeDecorationInline false ltr s e b).box
    r.marginHeight = b.box.marginHeight ∧
    r.marginWidth = b.box.marginWidth
      - (if s then (if ltr then b.box.ml + b.box.pl + b.box.bl else b.box.mr + b.box.pr + b.box.br) else 0)
      - (if e then (if ltr then b.box.mr + b.box.pr + b.box.br else b.box.ml + b.box.pl + b.box.bl) else 0) := by
  cases ltr <;> cases s <;> cases e <;>
    simp [removeDecorationInline, resetSpacing, EBox.marginWidth, EBox.borderWidth, EBox.paddingWidth,
      EBox.marginHeight, EBox.borderHeight, EBox.paddingHeight] <;> grind

/-! ### links: the pagination model and `resolve_radii_percentages` -/

/-- The vertical used values of a box as the pagination model keeps them. -/
def pmGeo (b : EBox) : PM.Geo :=
  { y := b.y, mt := b.mt, mb := b.mb, pt := b.pt, pb := b.pb, bt := b.bt, bb := b.bb, h := b.h }

/-- **The pagination model's cut is `remove_decoration(start=False, end=True)`** (block.py
`find_earlier_page_break` since /repo 24ce8bf: `new_child.remove_decoration(start=False, end=True)`): the
geometry `PM.Geo.cutBottom` gives the box it cuts is the vertical geometry of the function model, for every box
and both values of `box-decoration-break`. -/
theorem cutBottom_is_removeDecoration (st : PM.PStyle) (b : DBox) :
    (pmGeo b.box).cutBottom st = pmGeo (removeDecoration st.clone false true b).box := by
  unfold PM.Geo.cutBottom
  cases st.clone <;> rfl

/-- A fragment cut at its end has square bottom corners: `resolve_radii_percentages` gives `(0, 0)` for a corner
on a side recorded by `remove_decoration`. -/
theorem removed_side_radius (s : Bool) (b : DBox) (rx ry : BoxModel.DimQ) (bw bh : Rat) :
    BoxModel.resolveRadius rx ry (removeDecoration false s true b).removed.bottom bw bh = .ok (0, 0) := by
  have : (removeDecoration false s true b).removed.bottom = true := by cases s <;> rfl
  rw [this]
  unfold BoxModel.resolveRadius
  split <;> rfl

/-! ### non-vacuity -/

def exBox : DBox :=
  { box := { x := 10, y := 20, w := 100, h := 30, ml := 1, mr := 2, mt := 3, mb := 4, pl := 5, pr := 6, pt := 7,
             pb := 8, bl := 9, br := 10, bt := 11, bb := 12 },
    removed := Sides.empty }

/-- A first fragment (`end`): margin box 75 − 24 = 51 high, content box still at 41; a middle fragment: 30 high,
content box at the top of the margin box; `clone` keeps everything; an rtl inline start fragment loses its right
side. -/
example :
    (removeDecoration false false true exBox).box.marginHeight = 51 ∧
    (removeDecoration false false true exBox).box.contentBoxY = 41 ∧
    (removeDecoration false true true exBox).box.marginHeight = 30 ∧
    (removeDecoration false true true exBox).box.contentBoxY = 20 ∧
    (removeDecoration false true true exBox).removed = { Sides.empty with top := true, bottom := true } ∧
    removeDecoration true true true exBox = exBox ∧
    (removeDecorationInline false false true false exBox).box.marginWidth = 133 - 18 ∧
    (removeDecorationInline false false true false exBox).removed = { Sides.empty with right := true } := by
  decide +kernel

end Wp.C05Deco
