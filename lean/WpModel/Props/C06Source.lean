/-
C06 — the literal tables inside the mirrored Python functions, regenerated from the source on every
run (`Gen/C06Source.lean`, `py/extract/c06_source.py`), against the literals the hand-written models
use.  A source edit that changes one of them changes the generated file and breaks a proof here,
before any correspondence case is run.
-/
import WpModel.Gen.C06Source
import WpModel.Model.RatioCache
import WpModel.Model.StyleDoc

namespace Wp.C06
open Wp Wp.Gen.C06Source Wp.Gen.Units Wp.Computed

/-- The per-document cache of `character_ratio` has **one table per measured character**, and a new
cache (of a `ComputedStyle` as of an `AnonymousStyle`) is created with both: the layout that
`Model/RatioCache.lean` mirrors (`Cache.ex`, `Cache.ch`) and that `ratio_cache_transparent` needs.
(Merging the two tables, or selecting the same table for `x` and `0`, breaks the `Nodup` clause.) -/
theorem ratio_cache_layout :
    ratioCharacters = ["x", "0"] ∧
    ratioTableOf.map (·.1) = ratioCharacters ∧
    (ratioTableOf.map (·.2)).Nodup ∧
    (∀ p ∈ ratioTableOf, p.2 ∈ cacheInitComputed ∧ p.2 ∈ cacheInitAnonymous) ∧
    cacheInitComputed = cacheInitAnonymous ∧
    ratioTableOf = [("x", "ratio_ex"), ("0", "ratio_ch")] := by
  decide

/-- The characters `Model/RatioCache.characterRatio` accepts are the ones the source asserts. -/
theorem ratio_characters_match_model (m : RatioCache.Measure) (c : RatioCache.Cache) (s : Nat) (key ch : String) :
    ch ∈ ratioCharacters ↔ ∃ q, (RatioCache.characterRatio m c ⟨s, key, ch⟩).1 = .ok q := by
  have hchars : ratioCharacters = ["x", "0"] := ratio_cache_layout.1
  rw [hchars]
  unfold RatioCache.characterRatio
  constructor
  · intro h
    have h' : ch = "x" ∨ ch = "0" := by simpa using h
    rcases h' with h' | h' <;> subst h' <;> simp <;> split <;> simp
  · intro ⟨q, hq⟩
    by_cases h1 : ch = "x"
    · simp [h1]
    · by_cases h2 : ch = "0"
      · simp [h2]
      · simp [h1, h2] at hq

/-- The styles that share a cache: a new style takes its parent's cache when `if parent_style:` holds
(the parent exists and already holds a value), in both classes. -/
theorem cache_shared_with_parent :
    cacheSharedIfComputed = "parent_style" ∧ cacheSharedIfAnonymous = "parent_style" := by decide

/-- `AnonymousStyle.__init__` presets exactly the keys `Style.anonymousKey` answers with 0, all to 0;
each of them is a border-width-like property (its computing function is `border_width`, generated
`COMPUTER_FUNCTIONS`), for which 0 is the computed value under the initial style `none`. -/
theorem anonymous_presets :
    anonymousPresets.map (·.1) = ["border_top_width", "border_bottom_width", "border_left_width",
                                  "border_right_width", "outline_width"] ∧
    (∀ p ∈ anonymousPresets, p.2 = 0 ∧ lookup p.1 computerFunctions = some "border_width") := by
  decide

theorem anonymous_presets_match_model (get : String → Except CErr Val) :
    ∀ p ∈ anonymousPresets, (Style.anonymousKey get p.1).toOption = some (.num 0) := by
  intro p hp
  simp only [anonymousPresets, List.mem_cons, List.mem_nil_iff, or_false] at hp
  rcases hp with rfl | rfl | rfl | rfl | rfl <;> simp [Style.anonymousKey, Except.toOption]

/-- `find_stylesheets`: every comma-separated item of the `media` attribute is stripped and
lower-cased (`StyleDoc.attrMedia`; `lower` since commit b7ca8f6). -/
theorem media_attr_item_methods :
    mediaItemMethods = ["strip", "lower"] ∧ mediaSplit = "media_attr.split(',')" := by decide

/-- The membership tests of the mirrored functions are the ones written in the models:
`Computed.length` (pass-through keywords, font-relative units), `Computed.borderWidth`,
`Computed.verticalAlign`, `Computed.contentItems` (three groups), `RatioCache.characterRatio`,
`Computed.computeFloat`, `Computed.display`, `Style.textDecoration`, `Style.specified4` /
`C06Branches` (`specified-saved`). -/
theorem source_membership_tests :
    inTests =
      [("length", "value", "in", ["auto", "content", "from-font"]),
       ("length", "unit", "in", ["em", "ex", "ch", "rem"]),
       ("border_width", "border_style", "in", ["none", "hidden"]),
       ("vertical_align", "value", "in", ["baseline", "middle", "text-top", "text-bottom", "top", "bottom"]),
       ("_content_list", "value[0]", "in", ["string", "content", "url", "quote", "leader()"]),
       ("_content_list", "value[0]", "in", ["counter()", "counters()", "content()", "element()", "string()"]),
       ("_content_list", "value[0]", "in", ["target-counter()", "target-counters()", "target-text()"]),
       ("character_ratio", "character", "in", ["x", "0"]),
       ("compute_float", "position", "in", ["absolute", "fixed"]),
       ("display", "position", "in", ["absolute", "fixed"]),
       ("text_decoration", "key", "in", ["text_decoration_color", "text_decoration_style", "text_decoration_thickness"]),
       ("ComputedStyle.__missing__", "key", "in", ["position", "float", "display"])] := by
  rfl

/-- The font-relative units of `length` are exactly the units that are not in the generated
`LENGTHS_TO_PIXELS` and that the model resolves against a font size. -/
theorem font_relative_units_from_source :
    ∀ t ∈ inTests, t.1 = "length" → t.2.1 = "unit" →
      t.2.2.2 = ["em", "ex", "ch", "rem"] ∧ ∀ u ∈ t.2.2.2, lookup u lengthsToPixels = none := by
  decide

end Wp.C06
