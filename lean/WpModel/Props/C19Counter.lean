/-
C19 — the caller's `CounterStyle` dictionary across renders (`Model/CounterDict`): what a render resolves for the names
it can rely on — the UA counter styles and the styles the document defines — does not depend on what the shared
dictionary held before.  Tie: the `counter-dict` correspondence section (real `HTML.render(counter_style=cs)` over
sequences of documents, the real dictionary read back after every render).
-/
import WpModel.Model.CounterDict

namespace Wp.C19.Counter
open Wp.CounterDict

/-- The last value written for `k` by a list of stores. -/
def lastOf : List (String × String) → String → Option String
  | [], _ => none
  | (k', v) :: rest, k => match lastOf rest k with
    | some w => some w
    | none => if k' = k then some v else none

theorem dget_dset (d : Dict) (k v k' : String) : dget (dset d k v) k' = if k = k' then some v else dget d k' := by
  induction d with
  | nil => by_cases h : k = k' <;> simp [dset, dget, h]
  | cons e rest ih =>
    obtain ⟨k2, v2⟩ := e
    by_cases h1 : k2 = k
    · subst h1
      by_cases h2 : k2 = k' <;> simp [dset, dget, h2]
    · by_cases h2 : k = k'
      · subst h2; simp [dset, dget, h1, ih]
      · by_cases h3 : k2 = k'
        · subst h3; simp [dset, dget, h1, h2]
        · simp [dset, dget, h1, h2, h3, ih]

theorem get_setAll (kvs : List (String × String)) (d : Dict) (k : String) :
    dget (setAll d kvs) k = match lastOf kvs k with
      | some v => some v
      | none => dget d k := by
  induction kvs generalizing d with
  | nil => rfl
  | cons e rest ih =>
    obtain ⟨k', v⟩ := e
    simp only [setAll, lastOf]
    rw [ih]
    cases h : lastOf rest k with
    | some w => rfl
    | none =>
      simp only []
      rw [dget_dset]
      by_cases e : k' = k <;> simp [e]

theorem lastOf_isSome (kvs : List (String × String)) (k : String) :
    (lastOf kvs k).isSome = true ↔ k ∈ kvs.map (·.1) := by
  induction kvs with
  | nil => simp [lastOf]
  | cons e rest ih =>
    obtain ⟨k', v⟩ := e
    simp only [lastOf, List.map_cons, List.mem_cons]
    cases h : lastOf rest k with
    | some w =>
      have : k ∈ rest.map (·.1) := ih.mp (by simp [h])
      simp [this]
    | none =>
      have hn : k ∉ rest.map (·.1) := fun hm => by
        have := ih.mpr hm; simp [h] at this
      by_cases e : k' = k
      · simp [e]
      · simp only [e, if_false, Option.isSome_none, Bool.false_eq_true, false_iff, not_or]
        exact ⟨fun h' => e h'.symm, hn⟩

/-- What a render leaves under `k`: the document's last rule for `k`, else the UA style, else what was there. -/
theorem get_renderStyles (ua doc : List (String × String)) (cs : Dict) (k : String) :
    dget (renderStyles ua doc cs) k = match lastOf doc k with
      | some v => some v
      | none => match lastOf ua k with
        | some v => some v
        | none => dget cs k := by
  unfold renderStyles
  rw [get_setAll, get_setAll]

/-- **defined_names_history_independent**: for every name that is a UA counter style or that the document defines, what
the render resolves from the dictionary does not depend on what the shared dictionary held before — on which documents
were rendered with it earlier, and what they (re)defined (the class of the seeded change C19-11: nothing derived from
the dictionary may outlive the render that derived it). -/
theorem defined_names_history_independent (ua doc : List (String × String)) (cs1 cs2 : Dict) (k : String)
    (h : k ∈ ua.map (·.1) ∨ k ∈ doc.map (·.1)) :
    dget (renderStyles ua doc cs1) k = dget (renderStyles ua doc cs2) k := by
  rw [get_renderStyles, get_renderStyles]
  cases hd : lastOf doc k with
  | some v => rfl
  | none =>
    cases hu : lastOf ua k with
    | some v => rfl
    | none =>
      exfalso
      rcases h with h | h
      · have := (lastOf_isSome ua k).mpr h; simp [hu] at this
      · have := (lastOf_isSome doc k).mpr h; simp [hd] at this

/-- The excluded case is real (by design of the API: the dictionary is where the caller collects `@counter-style`
rules): a name that is neither a UA style nor defined by the document keeps what an earlier render stored. -/
theorem other_names_persist (ua doc : List (String × String)) (cs : Dict) (k : String)
    (hu : k ∉ ua.map (·.1)) (hd : k ∉ doc.map (·.1)) : dget (renderStyles ua doc cs) k = dget cs k := by
  rw [get_renderStyles]
  have h1 : lastOf doc k = none := by
    cases h : lastOf doc k with
    | none => rfl
    | some v => exact absurd ((lastOf_isSome doc k).mp (by simp [h])) hd
  have h2 : lastOf ua k = none := by
    cases h : lastOf ua k with
    | none => rfl
    | some v => exact absurd ((lastOf_isSome ua k).mp (by simp [h])) hu
  simp [h1, h2]

/-- Document level: in any history of renders sharing one dictionary, the names the `i`-th document can rely on (UA
styles and its own rules) are bound after its render exactly as when it is rendered alone with a new `CounterStyle()`. -/
theorem history_as_alone (ua : List (String × String)) (cs : Dict) (docs : List (List (String × String))) (i : Nat)
    (doc : List (String × String)) (d : Dict) (hdoc : docs[i]? = some doc) (hd : (runRenders ua cs docs)[i]? = some d)
    (k : String) (h : k ∈ ua.map (·.1) ∨ k ∈ doc.map (·.1)) : dget d k = dget (renderStyles ua doc []) k := by
  induction docs generalizing cs i with
  | nil => simp at hdoc
  | cons d0 rest ih =>
    cases i with
    | zero =>
      simp only [List.getElem?_cons_zero, Option.some.injEq] at hdoc
      subst hdoc
      simp only [runRenders, List.getElem?_cons_zero, Option.some.injEq] at hd
      subst hd
      exact defined_names_history_independent ua d0 cs [] k h
    | succ j =>
      simp only [List.getElem?_cons_succ] at hdoc
      simp only [runRenders, List.getElem?_cons_succ] at hd
      exact ih _ j hdoc hd

example :
    (runRenders [("lower-alpha", "ua"), ("decimal", "ua")] []
      [[("lower-alpha", "m1"), ("stars", "m2")], [], [("stars", "m3")]]).map
        (fun d => (dget d "lower-alpha", dget d "stars")) =
      [(some "m1", some "m2"), (some "ua", some "m2"), (some "ua", some "m3")] := by decide

end Wp.C19.Counter
