/-
C10 — page breaking of tables: theorems about the predictive model `Model/TablePages.lean`
(↔ `group_layout`, `body_groups_layout`, `all_groups_layout`, `table_layout` of
`weasyprint/layout/table.py`; every recorded call of the real `table_layout` on tables with unsplit
rows is compared with the model by the section `doc-pages-predict` of `py/props/c10.py`).

Main results, for every table (any number of groups / rows, any heights, any page geometry):
* `fragment_prefix`  — one call places a prefix of the rows that were still to be placed, in order,
                       and `resume_at` points exactly at the first row not placed;
* `rows_once`        — over any sequence of calls that ends with `resume_at = None`, the rows placed
                       are exactly all the body rows, once each, in order;
* `progress`         — a call on an empty page places at least one row (so the sequence ends);
* `header_footer_when_fit` — when the header, the footer and the first remaining row fit together,
                       the fragment has both;
* `header_footer_never_alone` — a fragment on an empty page with a header or footer has a body row.
-/
import Mathlib.Tactic.Linarith
import WpModel.Model.TablePages

namespace Wp.C10.Pages
open Wp Wp.TablePages

/-- Rows with their indices from `idx`. -/
def indexed : Nat → List PRow → List (Nat × PRow)
  | _, [] => []
  | idx, r :: rs => (idx, r) :: indexed (idx + 1) rs

private theorem indexed_split (idx k : Nat) (rows : List PRow) :
    indexed idx rows = indexed idx (rows.take k) ++ indexed (idx + k) (rows.drop k) := by
  induction rows generalizing idx k with
  | nil => simp [indexed]
  | cons r rs ih =>
    cases k with
    | zero => simp [indexed]
    | succ k =>
      simp only [List.take_succ_cons, List.drop_succ_cons, indexed, List.cons_append]
      rw [ih (idx + 1) k]
      have : idx + 1 + k = idx + (k + 1) := by omega
      rw [this]

/-- The row loop keeps the rows already kept and adds a run of consecutive rows; `resume` is the
index of the first row not kept; giving up only happens before any row is kept. -/
theorem rowsLoop_spec (sp pb : Rat) (bs : BSpace) (orig : Bool) (rows : List PRow) :
    ∀ (idx : Nat) (acc : List (Nat × PRow)) (y : Rat) (e : Bool) (o : RowsOut),
      rowsLoop sp pb bs orig idx rows acc y e = .ok o →
      ∃ k, k ≤ rows.length ∧ o.placed = acc.reverse ++ indexed idx (rows.take k) ∧
        (o.gaveUp = true → acc = [] ∧ k = 0 ∧ o.resume = none) ∧
        (o.gaveUp = false → o.resume = none → k = rows.length) ∧
        (∀ r, o.resume = some r → r = idx + k ∧ k < rows.length) := by
  induction rows with
  | nil =>
    intro idx acc y e o h
    unfold rowsLoop at h
    injection h with h; subst h
    refine ⟨0, Nat.le_refl _, ?_, ?_, ?_, ?_⟩
    · simp [indexed]
    · intro h; cases h
    · intro _ _; rfl
    · intro r h; cases h
  | cons row rest ih =>
    intro idx acc y e o h
    unfold rowsLoop at h
    simp only at h
    have stop : ∀ (nx : Option Brk), o = ⟨acc.reverse, y, some idx, nx, false⟩ →
        ∃ k, k ≤ (row :: rest).length ∧ o.placed = acc.reverse ++ indexed idx ((row :: rest).take k) ∧
          (o.gaveUp = true → acc = [] ∧ k = 0 ∧ o.resume = none) ∧
          (o.gaveUp = false → o.resume = none → k = (row :: rest).length) ∧
          (∀ r, o.resume = some r → r = idx + k ∧ k < (row :: rest).length) := by
      intro nx ho
      subst ho
      refine ⟨0, Nat.zero_le _, ?_, ?_, ?_, ?_⟩
      · simp [indexed]
      · intro h; cases h
      · intro _ h; cases h
      · intro r hr
        injection hr with hr
        exact ⟨by omega, by simp⟩
    split at h
    · -- forced break
      injection h with h
      exact stop _ h.symm
    · split at h
      · -- overflow on a non-empty page
        split at h
        · split at h
          · cases h
          · injection h with h
            exact stop _ h.symm
        · split at h
          · injection h with h
            exact stop _ h.symm
          · injection h with h; subst h
            refine ⟨0, Nat.zero_le _, ?_, ?_, ?_, ?_⟩
            · simp [indexed]
            · intro _; exact ⟨rfl, rfl, rfl⟩
            · intro h; cases h
            · intro r h; cases h
      · -- the row is kept
        obtain ⟨k, hk, hp, hg, hn, hr⟩ := ih (idx + 1) ((idx, row) :: acc) _ false o h
        refine ⟨k + 1, by simp; omega, ?_, ?_, ?_, ?_⟩
        · rw [hp]
          simp [indexed]
        · intro hgu
          have := (hg hgu).1
          cases this
        · intro hgu hres
          have := hn hgu hres
          simp; omega
        · intro r hres
          obtain ⟨h1, h2⟩ := hr r hres
          exact ⟨by omega, by simp; omega⟩

/-- Rows of group `g` still to be placed from row `s`, with their indices. -/
def groupRemaining (g : PGroup) (s : Nat) : List (Nat × PRow) := indexed s (g.rows.drop s)

/-- What is left of a group after `resume_at`. -/
def groupRest (g : PGroup) : Option Nat → List (Nat × PRow)
  | none => []
  | some r => groupRemaining g r

/-- **group_prefix.** `group_layout` keeps a prefix of the rows of the group that were still to be
placed; with `resume_at = {r: None}` the rest starts exactly at `r`, without it the group is done. -/
theorem group_prefix (sp pb : Rat) (g : PGroup) (y : Rat) (bs : BSpace) (e : Bool) (skip : Option Nat)
    (rows : List (Nat × PRow)) (gy h : Rat) (resume : Option Nat) (next : Option Brk)
    (hres : groupLayout sp pb g y bs e skip = .ok (.some rows gy h resume next)) :
    groupRemaining g (skip.getD 0) = rows ++ groupRest g resume ∧
    (∀ r, resume = some r → skip.getD 0 ≤ r ∧ r < g.rows.length) := by
  unfold groupLayout at hres
  simp only at hres
  split at hres
  · cases hres
  · rename_i o ho
    obtain ⟨k, hk, hp, hg, hn, hr⟩ := rowsLoop_spec sp pb bs e _ _ _ _ _ o ho
    split at hres
    · cases hres
    · rename_i hgu
      have hgu' : o.gaveUp = false := by simpa using hgu
      split at hres
      · cases hres
      · injection hres with hres
        injection hres with h1 h2 h3 h4 h5
        subst h1; subst h4
        simp only [List.reverse_nil, List.nil_append] at hp
        unfold groupRemaining
        constructor
        · rw [indexed_split (skip.getD 0) k (g.rows.drop (skip.getD 0)), ← hp]
          congr 1
          cases hres' : o.resume with
          | none =>
            have := hn hgu' hres'
            rw [List.drop_of_length_le (by omega)]
            rfl
          | some r =>
            obtain ⟨e1, _⟩ := hr r hres'
            unfold groupRest groupRemaining
            simp only
            rw [List.drop_drop, e1]
        · intro r hres'
          obtain ⟨e1, e2⟩ := hr r hres'
          simp only [List.length_drop] at e2
          exact ⟨by omega, by omega⟩

/-- All body rows `(group, row)` still to be placed, from group `gi` on (first group from row `sr`). -/
def remainingGroups : Nat → List PGroup → Option Nat → List (Nat × Nat)
  | _, [], _ => []
  | gi, g :: rest, sr =>
    (groupRemaining g (sr.getD 0)).map (fun p => (gi, p.1)) ++ remainingGroups (gi + 1) rest none

/-- Rows still to be placed after a skip stack / `resume_at`. -/
def remaining (bodies : List PGroup) : Option Resume → List (Nat × Nat)
  | none => remainingGroups 0 bodies none
  | some r => remainingGroups r.group (bodies.drop r.group) r.row

/-- The body rows `(group, row)` of a list of kept groups. -/
def placedRows (gs : List PlacedGroup) : List (Nat × Nat) :=
  gs.flatMap (fun pg => pg.rows.map (fun p => (pg.index, p.1)))

/-- What is left after a fragment. -/
def rest (bodies : List PGroup) : Option Resume → List (Nat × Nat)
  | none => []
  | some r => remaining bodies (some r)

private theorem placedRows_append (a b : List PlacedGroup) :
    placedRows (a ++ b) = placedRows a ++ placedRows b := by
  simp [placedRows]

private theorem groupsOf_cons (p : PlacedGroup × PGroup) (acc : List (PlacedGroup × PGroup)) :
    groupsOf (p :: acc) = groupsOf acc ++ [p.1] := by
  simp [groupsOf]

private theorem drop_succ_eq {α} (l : List α) (i : Nat) (x : α) (xs : List α) (h : l.drop i = x :: xs) :
    l.drop (i + 1) = xs := by
  have : l.drop (i + 1) = (l.drop i).drop 1 := by rw [List.drop_drop]
  rw [this, h]
  rfl

/-- The group loop keeps whole groups, then possibly a prefix of one more, and `resume_at` points at
the first row not kept (or at a whole group). -/
theorem bodiesLoop_spec (sp pb : Rat) (bs : BSpace) (all : List PGroup) (groups : List PGroup) :
    ∀ (idx : Nat) (acc : List (PlacedGroup × PGroup)) (y : Rat) (e : Bool) (sr : Option Nat) (o : BodiesOut),
      groups = all.drop idx → (acc ≠ [] → sr = none) →
      bodiesLoop sp pb bs idx groups acc y e sr = .ok o →
      (o.groups = none → acc = []) ∧
      ∀ gs, o.groups = some gs →
        placedRows (groupsOf acc) ++ remainingGroups idx groups sr = placedRows gs ++ rest all o.resume := by
  induction groups with
  | nil =>
    intro idx acc y e sr o _ _ h
    unfold bodiesLoop at h
    injection h with h; subst h
    refine ⟨(by intro h; cases h), ?_⟩
    intro gs hgs
    injection hgs with hgs; subst hgs
    simp [remainingGroups, rest]
  | cons g more ih =>
    intro idx acc y e sr o hdrop hsr h
    have hmore : more = all.drop (idx + 1) := (drop_succ_eq all idx g more hdrop.symm).symm
    unfold bodiesLoop at h
    simp only at h
    split at h
    · -- forced break before this group
      rename_i pb' hforced
      injection h with h; subst h
      refine ⟨(by intro h; cases h), ?_⟩
      intro gs hgs
      injection hgs with hgs; subst hgs
      -- the skip row only applies to the first group of the call, where no break can be forced
      have hsn : sr = none := by
        apply hsr
        intro hnil
        rw [hnil] at hforced
        simp at hforced
      simp only [rest, remaining]
      rw [← hdrop, hsn]
    · split at h
      · cases h
      · -- the group is not kept
        split at h
        · split at h
          · cases h
          · injection h with h; subst h
            refine ⟨(by intro h; cases h), ?_⟩
            intro gs hgs
            injection hgs with hgs; subst hgs
            have hsn : sr = none := hsr (by simp)
            simp only [rest, remaining]
            rw [← hdrop, hsn]
        · injection h with h; subst h
          exact ⟨fun _ => rfl, by intro gs hgs; cases hgs⟩
      · -- the group is kept (wholly or a prefix)
        rename_i rows gy height resume next hgl
        obtain ⟨hpre, hres⟩ := group_prefix sp pb g y bs e sr rows gy height resume next hgl
        split at h
        · rename_i r
          injection h with h; subst h
          refine ⟨(by intro h; cases h), ?_⟩
          intro gs hgs
          injection hgs with hgs; subst hgs
          rw [groupsOf_cons, placedRows_append]
          simp only [rest, remaining, remainingGroups]
          rw [← hdrop]
          simp only [remainingGroups, Option.getD_some]
          rw [hpre]
          simp [placedRows, groupRest, List.map_append, List.append_assoc]
        · obtain ⟨_, ih2⟩ := ih (idx + 1) _ _ false none o hmore (fun _ => rfl) h
          refine ⟨?_, ?_⟩
          · intro hnone
            have := (ih (idx + 1) _ _ false none o hmore (fun _ => rfl) h).1 hnone
            cases this
          · intro gs hgs
            rw [← ih2 gs hgs, groupsOf_cons, placedRows_append]
            simp only [remainingGroups]
            rw [hpre]
            simp [placedRows, groupRest, List.append_assoc]

/-- `body_groups_layout` places a prefix of the rows that were still to be placed. -/
theorem bodiesLayout_prefix (t : PTable) (pb : Rat) (skip : Option Resume) (y : Rat) (bs : BSpace)
    (e : Bool) (o : BodiesOut) (h : bodiesLayout t pb skip y bs e = .ok o) (gs : List PlacedGroup)
    (hgs : o.groups = some gs) :
    remaining t.bodies skip = placedRows gs ++ rest t.bodies o.resume := by
  unfold bodiesLayout at h
  have key := (bodiesLoop_spec t.sp pb bs t.bodies _ _ [] y e _ o rfl (fun hne => absurd rfl hne) h).2 gs hgs
  simp only [groupsOf, List.reverse_nil, List.map_nil, placedRows, List.flatMap_nil, List.nil_append] at key
  rw [← show placedRows gs = List.flatMap (fun pg => List.map (fun p => (pg.index, p.1)) pg.rows) gs from rfl]
    at key
  rw [← key]
  cases skip with
  | none => simp [remaining, skipGroup, skipRow]
  | some r => simp [remaining, skipGroup, skipRow]

private theorem finish_spec (hd ft : Bool) (o : BodiesOut) (fh : Rat) (f : Fragment)
    (h : finish hd ft o fh = some f) :
    o.groups = some f.groups ∧ o.resume = f.resume ∧ f.header = hd ∧ f.footer = ft := by
  unfold finish at h
  split at h
  · cases h
  · rename_i gs hgs
    injection h with h
    subst h
    exact ⟨hgs, rfl, rfl, rfl⟩

private theorem attemptKept_spec (t : PTable) (pb : Rat) (skip : Option Resume) (pe hd ft : Bool) (y : Rat)
    (bs : BSpace) (e : Bool) (fh : Rat) (f : Fragment)
    (h : attemptKept t pb skip pe hd ft y bs e fh = .ok (some (some f))) :
    ∃ o, bodiesLayout t pb skip y bs e = .ok o ∧ o.groups = some f.groups ∧ o.resume = f.resume ∧
      f.header = hd ∧ f.footer = ft := by
  unfold attemptKept at h
  split at h
  · cases h
  · rename_i o ho
    injection h with h
    split at h
    · injection h with h
      exact ⟨o, ho, finish_spec hd ft o fh f h⟩
    · cases h

/-- Every fragment produced by `all_groups_layout` is the result of one `body_groups_layout` call on
the same skip stack, with the header / footer flags of the attempt that was kept. -/
theorem tableFragment_from_bodies (t : PTable) (pb : Rat) (skip : Option Resume) (y bs : Rat) (pe : Bool)
    (f : Fragment) (h : tableFragment t pb skip y bs pe = .ok (some f)) :
    ∃ y' bs' e' o, bodiesLayout t pb skip y' bs' e' = .ok o ∧ o.groups = some f.groups ∧
      o.resume = f.resume := by
  unfold tableFragment at h
  simp only at h
  have last : ∀ (r : Except PyErr (Option Fragment)),
      r = (match bodiesLayout t pb skip y (some bs) pe with
           | .error e => .error e
           | .ok o => .ok (finish false false o 0)) → r = .ok (some f) →
      ∃ y' bs' e' o, bodiesLayout t pb skip y' bs' e' = .ok o ∧ o.groups = some f.groups ∧
        o.resume = f.resume := by
    intro r hr hrf
    rw [hr] at hrf
    split at hrf
    · cases hrf
    · rename_i o ho
      injection hrf with hrf
      obtain ⟨h1, h2, _, _⟩ := finish_spec _ _ o 0 f hrf
      exact ⟨y, some bs, pe, o, ho, h1, h2⟩
  have kept : ∀ (hd ft : Bool) (y' : Rat) (bs' : BSpace) (e' : Bool) (fh : Rat),
      attemptKept t pb skip pe hd ft y' bs' e' fh = .ok (some (some f)) →
      ∃ y' bs' e' o, bodiesLayout t pb skip y' bs' e' = .ok o ∧ o.groups = some f.groups ∧
        o.resume = f.resume := by
    intro hd ft y' bs' e' fh hk
    obtain ⟨o, ho, h1, h2, _, _⟩ := attemptKept_spec t pb skip pe hd ft y' bs' e' fh f hk
    exact ⟨y', bs', e', o, ho, h1, h2⟩
  split at h
  · cases h
  · cases h
  · rename_i header footer _ _
    split at h
    · -- header and footer
      split at h
      · cases h
      · rename_i r hr
        injection h with h
        subst h
        exact kept _ _ _ _ _ _ hr
      · split at h
        · cases h
        · rename_i r hr
          injection h with h
          subst h
          exact kept _ _ _ _ _ _ hr
        · exact last _ rfl h
    · split at h
      · cases h
      · rename_i r hr
        injection h with h
        subst h
        exact kept _ _ _ _ _ _ hr
      · exact last _ rfl h
    · split at h
      · cases h
      · rename_i r hr
        injection h with h
        subst h
        exact kept _ _ _ _ _ _ hr
      · exact last _ rfl h
    · exact last _ rfl h

/-- The body rows of a fragment. -/
def fragRows (f : Fragment) : List (Nat × Nat) := placedRows f.groups

/-- **fragment_prefix.** One call of `table_layout` places, in order, a prefix of the body rows that
were still to be placed (given by the skip stack), and its `resume_at` designates exactly the rest:
no row is lost, repeated or reordered by a page break. -/
theorem fragment_prefix (t : PTable) (pb : Rat) (skip : Option Resume) (y bs : Rat) (pe : Bool)
    (f : Fragment) (h : tableLayout t pb skip y bs pe = .ok (some f)) :
    remaining t.bodies skip = fragRows f ++ rest t.bodies f.resume := by
  unfold tableLayout at h
  split at h
  · cases h
  · cases h
  · rename_i f' hf
    split at h
    · cases h
    · injection h with h
      injection h with h
      subst h
      obtain ⟨y', bs', e', o, ho, h1, h2⟩ := tableFragment_from_bodies t pb skip y bs pe f' hf
      rw [← h2]
      exact bodiesLayout_prefix t pb skip y' bs' e' o ho f'.groups h1

/-- One attempt to place (the rest of) the table on a page. -/
structure Attempt where
  pageBottom : Rat
  y : Rat
  bottomSpace : Rat
  pageIsEmpty : Bool
  deriving Repr

/-- The page loop around `table_layout`: each attempt either does not place the table (the caller
retries on the next page with the same skip stack) or yields a fragment and the next skip stack;
stops when a fragment has no `resume_at`.  Returns the fragments and whether the table is finished. -/
def paginate (t : PTable) : Option Resume → List Attempt → Except PyErr (List Fragment × Bool)
  | _, [] => .ok ([], false)
  | skip, a :: more =>
    match tableLayout t a.pageBottom skip a.y a.bottomSpace a.pageIsEmpty with
    | .error e => .error e
    | .ok none => paginate t skip more
    | .ok (some f) =>
      match f.resume with
      | none => .ok ([f], true)
      | some r =>
        match paginate t (some r) more with
        | .error e => .error e
        | .ok (fs, done) => .ok (f :: fs, done)

/-- **rows_once.** Whatever the pages (heights, what precedes the table, retries with a larger bottom
space …): when the page loop finishes the table, the body rows of its fragments, read in order, are
exactly the rows that were to be placed — every body row once, in document order. -/
theorem rows_once (t : PTable) (attempts : List Attempt) (skip : Option Resume) (fs : List Fragment)
    (h : paginate t skip attempts = .ok (fs, true)) :
    fs.flatMap fragRows = remaining t.bodies skip := by
  induction attempts generalizing skip fs with
  | nil => unfold paginate at h; cases h
  | cons a more ih =>
    unfold paginate at h
    split at h
    · cases h
    · exact ih skip fs h
    · rename_i f hf
      have hp := fragment_prefix t a.pageBottom skip a.y a.bottomSpace a.pageIsEmpty f hf
      split at h
      · rename_i hres
        injection h with h
        injection h with h1 h2
        subst h1
        rw [hp, hres]
        simp [rest]
      · rename_i r hres
        split at h
        · cases h
        · rename_i fs' done hrec
          injection h with h
          injection h with h1 h2
          subst h1; subst h2
          rw [hp, hres]
          simp only [List.flatMap_cons, rest]
          rw [ih (some r) fs' hrec]

/-- All body rows of a table, `(group, row)` in document order. -/
def allRows (t : PTable) : List (Nat × Nat) := remaining t.bodies none

/-- **rows_once (whole table).** From the start of the table. -/
theorem rows_once_table (t : PTable) (attempts : List Attempt) (fs : List Fragment)
    (h : paginate t none attempts = .ok (fs, true)) : fs.flatMap fragRows = allRows t :=
  rows_once t attempts none fs h

/-! ### Header and footer -/

/-- Once a row is kept the loop never gives up and keeps it. -/
private theorem rowsLoop_acc_nonempty (sp pb : Rat) (bs : BSpace) (orig : Bool) (rows : List PRow) :
    ∀ (idx : Nat) (acc : List (Nat × PRow)) (y : Rat) (e : Bool) (o : RowsOut), acc ≠ [] →
      rowsLoop sp pb bs orig idx rows acc y e = .ok o → o.placed ≠ [] ∧ o.gaveUp = false := by
  intro idx acc y e o hacc h
  obtain ⟨k, _, hp, hg, _, _⟩ := rowsLoop_spec sp pb bs orig rows idx acc y e o h
  constructor
  · rw [hp]
    intro hnil
    have := List.append_eq_nil_iff.mp hnil
    exact hacc (List.reverse_eq_nil_iff.mp this.1)
  · cases hgu : o.gaveUp with
    | false => rfl
    | true => exact absurd (hg hgu).1 hacc

/-- A first row that does not overflow (or an empty page) is kept. -/
private theorem rowsLoop_first_kept (sp pb : Rat) (bs : BSpace) (orig : Bool) (row : PRow) (more : List PRow)
    (idx : Nat) (y : Rat) (e : Bool) (o : RowsOut)
    (hfit : e = true ∨ overflows pb bs (y + row.height + sp) = false)
    (h : rowsLoop sp pb bs orig idx (row :: more) [] y e = .ok o) : o.placed ≠ [] ∧ o.gaveUp = false := by
  unfold rowsLoop at h
  simp only at h
  have hcond : (!e && overflows pb bs (y + row.height + sp)) = false := by
    rcases hfit with h1 | h1
    · simp [h1]
    · simp [h1]
  simp only [hcond] at h
  exact rowsLoop_acc_nonempty sp pb bs orig more (idx + 1) [(idx, row)] _ false o (by simp) (by simpa using h)

private theorem bodiesLoop_acc_nonempty (sp pb : Rat) (bs : BSpace) (groups : List PGroup) :
    ∀ (idx : Nat) (acc : List (PlacedGroup × PGroup)) (y : Rat) (e : Bool) (sr : Option Nat) (o : BodiesOut),
      acc ≠ [] → bodiesLoop sp pb bs idx groups acc y e sr = .ok o →
      ∃ g gs, o.groups = some (g :: gs) := by
  have hne : ∀ (acc : List (PlacedGroup × PGroup)), acc ≠ [] → ∃ g gs, groupsOf acc = g :: gs := by
    intro acc hacc
    cases hg : groupsOf acc with
    | nil =>
      exfalso
      unfold groupsOf at hg
      have := List.map_eq_nil_iff.mp hg
      exact hacc (List.reverse_eq_nil_iff.mp this)
    | cons g gs => exact ⟨g, gs, rfl⟩
  induction groups with
  | nil =>
    intro idx acc y e sr o hacc h
    unfold bodiesLoop at h
    injection h with h; subst h
    obtain ⟨g, gs, hg⟩ := hne acc hacc
    exact ⟨g, gs, by simp [hg]⟩
  | cons g more ih =>
    intro idx acc y e sr o hacc h
    unfold bodiesLoop at h
    simp only at h
    split at h
    · injection h with h; subst h
      obtain ⟨g', gs, hg⟩ := hne acc hacc
      exact ⟨g', gs, by simp [hg]⟩
    · split at h
      · cases h
      · split at h
        · split at h
          · cases h
          · injection h with h; subst h
            obtain ⟨g', gs, hg⟩ := hne _ hacc
            exact ⟨g', gs, by simp only [hg]⟩
        · exact absurd rfl hacc
      · split at h
        · injection h with h; subst h
          rename_i rows gy height resume next _ r
          obtain ⟨g', gs, hg⟩ := hne ((⟨idx, rows, gy, height⟩, g) :: acc) (List.cons_ne_nil _ _)
          exact ⟨g', gs, by simp only [hg]⟩
        · exact ih _ _ _ _ _ o (List.cons_ne_nil _ _) h

/-- The first row still to be placed after a skip stack: its group and the row. -/
def firstRemaining (t : PTable) (skip : Option Resume) : Option (PGroup × PRow) :=
  match t.bodies.drop (skipGroup skip) with
  | [] => none
  | g :: _ =>
    match g.rows.drop ((skipRow skip).getD 0) with
    | [] => none
    | row :: _ => some (g, row)

/-- When the first remaining row is kept, `body_groups_layout` returns at least one group. -/
private theorem bodiesLayout_first_kept (t : PTable) (pb : Rat) (skip : Option Resume) (y : Rat) (bs : BSpace)
    (e : Bool) (o : BodiesOut) (g : PGroup) (row : PRow) (hfirst : firstRemaining t skip = some (g, row))
    (he : e = true ∨ e = avoids false g.inside)
    (hfit : e = true ∨ overflows pb bs (y + row.height + t.sp) = false)
    (h : bodiesLayout t pb skip y bs e = .ok o) : ∃ pg gs, o.groups = some (pg :: gs) := by
  unfold bodiesLayout at h
  unfold firstRemaining at hfirst
  split at hfirst
  · cases hfirst
  · rename_i g' rest' hdrop
    split at hfirst
    · cases hfirst
    · rename_i row' more hrows
      injection hfirst with hfirst
      injection hfirst with h1 h2
      subst h1; subst h2
      rw [hdrop] at h
      unfold bodiesLoop at h
      simp only at h
      -- the group is laid out
      unfold groupLayout at h
      simp only at h
      rw [hrows] at h
      split at h
      · cases h
      · rename_i hgl
        split at hgl
        · cases hgl
        · rename_i ro hro
          obtain ⟨hpl, hgu⟩ := rowsLoop_first_kept t.sp pb bs e row' more _ y e ro hfit hro
          simp only [hgu] at hgl
          exfalso
          revert hgl
          simp only [Bool.false_eq_true, if_false]
          split
          · rename_i habort
            intro _
            simp only [Bool.and_eq_true, Bool.or_eq_true, Bool.not_eq_true'] at habort
            rcases habort.2 with ha | ha
            · rcases he with he | he
              · rw [he] at habort
                simp at habort
              · rw [he] at habort
                rw [ha] at habort
                simp at habort
            · exact hpl (List.isEmpty_iff.mp ha)
          · intro hc; cases hc
      · rename_i rows gy height resume next hgl
        split at h
        · injection h with h; subst h
          exact ⟨⟨skipGroup skip, rows, gy, height⟩, [], by simp [groupsOf]⟩
        · exact bodiesLoop_acc_nonempty _ _ _ _ _ _ _ _ _ o (List.cons_ne_nil _ _) h

private theorem avoidBreaks_first (t : PTable) (skip : Option Resume) (g : PGroup) (row : PRow)
    (hfirst : firstRemaining t skip = some (g, row)) : avoidBreaks t skip = avoids false g.inside := by
  unfold firstRemaining at hfirst
  unfold avoidBreaks
  split at hfirst
  · cases hfirst
  · rename_i g' rest' hdrop
    split at hfirst
    · cases hfirst
    · injection hfirst with hfirst
      injection hfirst with h1 h2
      subst h1
      rw [hdrop]

/-- **header_footer_when_fit.** If the header and the footer can be laid out on this page
(`hfHeight = some`) and the first row still to be placed fits below the header and above the footer
— `y + header + row + spacing ≤ (page_bottom − bottom_space − footer)(1 + 1e-9)` — then
`all_groups_layout` returns a fragment that has both the header and the footer (and that row). -/
theorem header_footer_when_fit (t : PTable) (pb : Rat) (skip : Option Resume) (y bs : Rat) (pe : Bool)
    (hh fh : Rat) (g : PGroup) (row : PRow)
    (hH : hfHeight t pb t.header y (if pe then some bs else none) = .ok (some hh))
    (hF : hfHeight t pb t.footer y (if pe then some bs else none) = .ok (some fh))
    (hfirst : firstRemaining t skip = some (g, row))
    (hfit : overflows pb (some (bs + fh)) (y + hh + row.height + t.sp) = false)
    (res : Option Fragment) (h : tableFragment t pb skip y bs pe = .ok res) :
    ∃ f, res = some f ∧ f.header = true ∧ f.footer = true ∧ f.groups ≠ [] := by
  unfold tableFragment at h
  simp only [hH, hF] at h
  unfold attemptKept at h
  have hav := avoidBreaks_first t skip g row hfirst
  cases hb : bodiesLayout t pb skip (y + hh) (addSpace (some bs) fh) (avoidBreaks t skip) with
  | error e => rw [hb] at h; cases h
  | ok o =>
    rw [hb] at h
    obtain ⟨pg, gs, hgs⟩ := bodiesLayout_first_kept t pb skip (y + hh) (addSpace (some bs) fh)
      (avoidBreaks t skip) o g row hfirst (Or.inr hav) (Or.inr (by simpa [addSpace] using hfit)) hb
    have hkeep : keepAttempt t o pe = true := by
      unfold keepAttempt
      rw [hgs]
      simp
    simp only [hkeep, if_true] at h
    injection h with h
    subst h
    unfold finish
    rw [hgs]
    exact ⟨_, rfl, rfl, rfl, by simp⟩

/-- A group whose remaining rows are not empty is either not kept at all or kept with ≥ 1 row. -/
private theorem groupLayout_rows_nonempty (sp pb : Rat) (g : PGroup) (y : Rat) (bs : BSpace) (e : Bool)
    (skip : Option Nat) (hne : g.rows.drop (skip.getD 0) ≠ [])
    (rows : List (Nat × PRow)) (gy h : Rat) (resume : Option Nat) (next : Option Brk)
    (hres : groupLayout sp pb g y bs e skip = .ok (.some rows gy h resume next)) : rows ≠ [] := by
  unfold groupLayout at hres
  simp only at hres
  cases hd : g.rows.drop (skip.getD 0) with
  | nil => exact absurd hd hne
  | cons row more =>
    rw [hd] at hres
    split at hres
    · cases hres
    · rename_i o ho
      split at hres
      · cases hres
      · rename_i hgu
        split at hres
        · cases hres
        · injection hres with hres
          injection hres with h1 _ _ _ _
          subst h1
          -- first row: kept, or the loop gave up
          unfold rowsLoop at ho
          simp only at ho
          split at ho
          · rename_i hcond
            simp only [Bool.and_eq_true, Bool.not_eq_true'] at hcond
            split at ho
            · rename_i he
              rw [hcond.1] at he
              cases he
            · injection ho with ho
              subst ho
              simp at hgu
          · exact (rowsLoop_acc_nonempty sp pb bs e more _ [(skip.getD 0, row)] _ false o (by simp) ho).1

private theorem bodiesLoop_rows_nonempty (sp pb : Rat) (bs : BSpace) (groups : List PGroup) :
    ∀ (idx : Nat) (acc : List (PlacedGroup × PGroup)) (y : Rat) (e : Bool) (sr : Option Nat) (o : BodiesOut),
      (∀ p ∈ acc, p.1.rows ≠ []) →
      (∀ g more, groups = g :: more → g.rows.drop (sr.getD 0) ≠ [] ∧ ∀ g' ∈ more, g'.rows ≠ []) →
      bodiesLoop sp pb bs idx groups acc y e sr = .ok o →
      ∀ gs, o.groups = some gs → ∀ pg ∈ gs, pg.rows ≠ [] := by
  have hof : ∀ (acc : List (PlacedGroup × PGroup)), (∀ p ∈ acc, p.1.rows ≠ []) →
      ∀ pg ∈ groupsOf acc, pg.rows ≠ [] := by
    intro acc hacc pg hpg
    unfold groupsOf at hpg
    rw [List.mem_map] at hpg
    obtain ⟨p, hp, rfl⟩ := hpg
    exact hacc p (List.mem_reverse.mp hp)
  induction groups with
  | nil =>
    intro idx acc y e sr o hacc _ h gs hgs
    unfold bodiesLoop at h
    injection h with h; subst h
    injection hgs with hgs; subst hgs
    exact hof acc hacc
  | cons g more ih =>
    intro idx acc y e sr o hacc hwf h gs hgs
    obtain ⟨hg, hmore⟩ := hwf g more rfl
    unfold bodiesLoop at h
    simp only at h
    split at h
    · injection h with h; subst h
      injection hgs with hgs; subst hgs
      exact hof acc hacc
    · split at h
      · cases h
      · split at h
        · split at h
          · cases h
          · injection h with h; subst h
            injection hgs with hgs; subst hgs
            exact hof _ hacc
        · injection h with h; subst h
          cases hgs
      · rename_i rows gy height resume next hgl
        have hrows := groupLayout_rows_nonempty sp pb g y bs e sr hg rows gy height resume next hgl
        have hacc' : ∀ p ∈ ((⟨idx, rows, gy, height⟩ : PlacedGroup), g) :: acc, p.1.rows ≠ [] := by
          intro p hp
          simp only [List.mem_cons] at hp
          rcases hp with rfl | hp
          · exact hrows
          · exact hacc p hp
        split at h
        · injection h with h; subst h
          injection hgs with hgs; subst hgs
          exact hof _ hacc'
        · refine ih _ _ _ _ _ o hacc' ?_ h gs hgs
          intro g2 more2 heq
          subst heq
          refine ⟨?_, ?_⟩
          · simpa using hmore g2 (by simp)
          · intro g3 hg3
            exact hmore g3 (by simp [hg3])

/-- **progress.** On an empty page (`page_is_empty`), as long as a body row is left (and no row group
is empty), `table_layout` places a fragment holding at least one body row: the page loop makes
progress on every fresh page, so it needs at most one page per row. -/
theorem progress (t : PTable) (pb : Rat) (skip : Option Resume) (y bs : Rat) (g : PGroup) (row : PRow)
    (hfirst : firstRemaining t skip = some (g, row)) (hwf : ∀ g' ∈ t.bodies, g'.rows ≠ [])
    (res : Option Fragment) (h : tableLayout t pb skip y bs true = .ok res) :
    ∃ f, res = some f ∧ fragRows f ≠ [] := by
  -- every fragment comes from a `bodiesLayout` call: its groups all have rows
  have hall : ∀ f, tableFragment t pb skip y bs true = .ok (some f) → ∀ pg ∈ f.groups, pg.rows ≠ [] := by
    intro f hf
    obtain ⟨y', bs', e', o, ho, hg, _⟩ := tableFragment_from_bodies t pb skip y bs true f hf
    unfold bodiesLayout at ho
    refine bodiesLoop_rows_nonempty t.sp pb bs' _ _ [] y' e' _ o (by simp) ?_ ho f.groups hg
    intro g2 more2 heq
    unfold firstRemaining at hfirst
    rw [heq] at hfirst
    simp only at hfirst
    refine ⟨?_, ?_⟩
    · intro hnil
      rw [hnil] at hfirst
      cases hfirst
    · intro g3 hg3
      apply hwf
      have : g3 ∈ t.bodies.drop (skipGroup skip) := by rw [heq]; simp [hg3]
      exact List.mem_of_mem_drop this
  -- and at least one group is kept
  have hbodies : hasRows t = true := by
    unfold hasRows
    unfold firstRemaining at hfirst
    cases hb : t.bodies with
    | nil => rw [hb] at hfirst; simp at hfirst
    | cons _ _ => rfl
  have hsome : ∃ f, tableFragment t pb skip y bs true = .ok (some f) ∧ f.groups ≠ [] := by
    have hav := avoidBreaks_first t skip g row hfirst
    have hlast : ∀ (r : Except PyErr (Option Fragment)),
        r = (match bodiesLayout t pb skip y (some bs) true with
             | .error e => .error e
             | .ok o => .ok (finish false false o 0)) →
        ∀ res', r = .ok res' → ∃ f, res' = some f ∧ f.groups ≠ [] := by
      intro r hr res' hres'
      rw [hr] at hres'
      split at hres'
      · cases hres'
      · rename_i o ho
        obtain ⟨pg, gs, hgs⟩ := bodiesLayout_first_kept t pb skip y (some bs) true o g row hfirst
          (Or.inl rfl) (Or.inl rfl) ho
        injection hres' with hres'
        subst hres'
        unfold finish
        rw [hgs]
        exact ⟨_, rfl, by simp⟩
    have hkept : ∀ (hd ft : Bool) (y' : Rat) (bs' : BSpace) (e' : Bool) (fh : Rat) (r' : Option Fragment),
        attemptKept t pb skip true hd ft y' bs' e' fh = .ok (some r') →
        ∃ f, r' = some f ∧ f.groups ≠ [] := by
      intro hd ft y' bs' e' fh r' hk
      unfold attemptKept at hk
      split at hk
      · cases hk
      · rename_i o ho
        injection hk with hk
        split at hk
        · rename_i hkeep
          injection hk with hk
          subst hk
          unfold keepAttempt at hkeep
          simp only [hbodies, Bool.not_true, Bool.or_false] at hkeep
          split at hkeep
          · rename_i pg gs hgs
            unfold finish
            rw [hgs]
            exact ⟨_, rfl, by simp⟩
          · cases hkeep
        · cases hk
    -- the result of `tableFragment`
    have hres : ∀ res', tableFragment t pb skip y bs true = .ok res' → ∃ f, res' = some f ∧ f.groups ≠ [] := by
      intro res' hr
      unfold tableFragment at hr
      simp only at hr
      split at hr
      · cases hr
      · cases hr
      · split at hr
        · split at hr
          · cases hr
          · rename_i r hk
            injection hr with hr
            subst hr
            exact hkept _ _ _ _ _ _ _ hk
          · split at hr
            · cases hr
            · rename_i r hk
              injection hr with hr
              subst hr
              exact hkept _ _ _ _ _ _ _ hk
            · exact hlast _ rfl res' hr
        · split at hr
          · cases hr
          · rename_i r hk
            injection hr with hr
            subst hr
            exact hkept _ _ _ _ _ _ _ hk
          · exact hlast _ rfl res' hr
        · split at hr
          · cases hr
          · rename_i r hk
            injection hr with hr
            subst hr
            exact hkept _ _ _ _ _ _ _ hk
          · exact hlast _ rfl res' hr
        · exact hlast _ rfl res' hr
    cases htf : tableFragment t pb skip y bs true with
    | error e =>
      unfold tableLayout at h
      rw [htf] at h
      cases h
    | ok r =>
      obtain ⟨f, hf, hne⟩ := hres r htf
      subst hf
      exact ⟨f, rfl, hne⟩
  unfold tableLayout at h
  obtain ⟨f, hf, hne⟩ := hsome
  rw [hf] at h
  simp only [Bool.not_true, Bool.and_false, Bool.false_and, Bool.false_eq_true, if_false] at h
  injection h with h
  subst h
  refine ⟨f, rfl, ?_⟩
  unfold fragRows placedRows
  intro hnil
  cases hgs : f.groups with
  | nil => exact hne hgs
  | cons pg gs =>
    rw [hgs] at hnil
    simp only [List.flatMap_cons, List.append_eq_nil_iff, List.map_eq_nil_iff] at hnil
    exact hall f hf pg (by rw [hgs]; simp) hnil.1

/-! ### Termination of the page loop -/

private theorem indexed_ne_nil (idx : Nat) (rows : List PRow) (h : rows ≠ []) : indexed idx rows ≠ [] := by
  cases rows with
  | nil => exact absurd rfl h
  | cons r rs => simp [indexed]

/-- `resume_at` always designates an existing row (or an existing, non-empty group). -/
private theorem bodiesLoop_resume_valid (sp pb : Rat) (bs : BSpace) (t : PTable)
    (hwf : ∀ g ∈ t.bodies, g.rows ≠ []) (groups : List PGroup) :
    ∀ (idx : Nat) (acc : List (PlacedGroup × PGroup)) (y : Rat) (e : Bool) (sr : Option Nat) (o : BodiesOut),
      groups = t.bodies.drop idx → bodiesLoop sp pb bs idx groups acc y e sr = .ok o →
      ∀ r, o.resume = some r → ∃ g row, firstRemaining t (some r) = some (g, row) := by
  have hgroup : ∀ (idx : Nat) (g : PGroup) (more : List PGroup), g :: more = t.bodies.drop idx →
      ∃ g' row, firstRemaining t (some ⟨idx, none⟩) = some (g', row) := by
    intro idx g more hd
    have hmem : g ∈ t.bodies := List.mem_of_mem_drop (by rw [← hd]; simp)
    unfold firstRemaining
    simp only [skipGroup, skipRow, Option.getD_none, List.drop_zero]
    rw [← hd]
    simp only
    cases hr : g.rows with
    | nil => exact absurd hr (hwf g hmem)
    | cons row _ => exact ⟨g, row, rfl⟩
  induction groups with
  | nil =>
    intro idx acc y e sr o _ h r hr
    unfold bodiesLoop at h
    injection h with h; subst h
    cases hr
  | cons g more ih =>
    intro idx acc y e sr o hdrop h r hr
    have hmore : more = t.bodies.drop (idx + 1) := (drop_succ_eq t.bodies idx g more hdrop.symm).symm
    unfold bodiesLoop at h
    simp only at h
    split at h
    · injection h with h; subst h
      injection hr with hr; subst hr
      exact hgroup idx g more hdrop
    · split at h
      · cases h
      · split at h
        · split at h
          · cases h
          · injection h with h; subst h
            injection hr with hr; subst hr
            exact hgroup idx g more hdrop
        · injection h with h; subst h
          cases hr
      · rename_i rows gy height resume next hgl
        split at h
        · rename_i r'
          injection h with h; subst h
          injection hr with hr; subst hr
          obtain ⟨_, hvalid⟩ := group_prefix sp pb g y bs e sr rows gy height (some r') next hgl
          obtain ⟨_, hlt⟩ := hvalid r' rfl
          unfold firstRemaining
          simp only [skipGroup, skipRow, Option.getD_some]
          rw [← hdrop]
          simp only
          cases hd : g.rows.drop r' with
          | nil =>
            have := List.drop_eq_nil_iff.mp hd
            omega
          | cons row _ => exact ⟨g, row, rfl⟩
        · exact ih _ _ _ _ _ o hmore h r hr

/-- After a fragment with `resume_at`, a row is left to be placed. -/
theorem fragment_resume_valid (t : PTable) (hwf : ∀ g ∈ t.bodies, g.rows ≠ []) (pb : Rat)
    (skip : Option Resume) (y bs : Rat) (pe : Bool) (f : Fragment)
    (h : tableLayout t pb skip y bs pe = .ok (some f)) (r : Resume) (hr : f.resume = some r) :
    ∃ g row, firstRemaining t (some r) = some (g, row) := by
  unfold tableLayout at h
  split at h
  · cases h
  · cases h
  · rename_i f' hf
    split at h
    · cases h
    · injection h with h
      injection h with h
      subst h
      obtain ⟨y', bs', e', o, ho, _, h2⟩ := tableFragment_from_bodies t pb skip y bs pe f' hf
      unfold bodiesLayout at ho
      exact bodiesLoop_resume_valid t.sp pb bs' t hwf _ _ [] y' e' _ o rfl ho r (by rw [h2, hr])

/-- **pagination_terminates.** Laid out on a sequence of empty pages at least as long as the number of
rows still to be placed, the table is finished (`resume_at = None` is reached), whatever the page
heights: every page takes at least one row (`progress`) and no row is placed twice
(`fragment_prefix`).  Together with `rows_once`: the fragments hold every body row exactly once. -/
theorem pagination_terminates (t : PTable) (hwf : ∀ g ∈ t.bodies, g.rows ≠ []) (attempts : List Attempt) :
    ∀ (skip : Option Resume), (∀ a ∈ attempts, a.pageIsEmpty = true) →
      (remaining t.bodies skip).length ≤ attempts.length →
      (∃ g row, firstRemaining t skip = some (g, row)) →
      ∀ res, paginate t skip attempts = .ok res →
        res.2 = true ∧ res.1.flatMap fragRows = remaining t.bodies skip := by
  induction attempts with
  | nil =>
    intro skip _ hlen hfirst res _
    obtain ⟨g, row, hf⟩ := hfirst
    exfalso
    -- a first remaining row makes `remaining` non-empty
    have : remaining t.bodies skip ≠ [] := by
      have hrem : remaining t.bodies skip =
          remainingGroups (skipGroup skip) (t.bodies.drop (skipGroup skip)) (skipRow skip) := by
        cases skip <;> simp [remaining, skipGroup, skipRow]
      rw [hrem]
      unfold firstRemaining at hf
      split at hf
      · cases hf
      · rename_i g' more hd
        split at hf
        · cases hf
        · rename_i row' more' hr
          rw [hd]
          simp only [remainingGroups, groupRemaining, hr, indexed]
          simp
    apply this
    apply List.eq_nil_of_length_eq_zero
    simpa using hlen
  | cons a more ih =>
    intro skip hempty hlen hfirst res h
    obtain ⟨g, row, hf⟩ := hfirst
    have hae : a.pageIsEmpty = true := hempty a (by simp)
    unfold paginate at h
    rw [hae] at h
    split at h
    · cases h
    · rename_i hnone
      obtain ⟨f, hf', _⟩ := progress t a.pageBottom skip a.y a.bottomSpace g row hf hwf none hnone
      cases hf'
    · rename_i f hfrag
      obtain ⟨f', hf', hrows⟩ := progress t a.pageBottom skip a.y a.bottomSpace g row hf hwf (some f) hfrag
      injection hf' with hf'
      subst hf'
      have hp := fragment_prefix t a.pageBottom skip a.y a.bottomSpace true f hfrag
      split at h
      · rename_i hres
        injection h with h
        subst h
        refine ⟨rfl, ?_⟩
        rw [hp, hres]
        simp [rest]
      · rename_i r hres
        have hvalid := fragment_resume_valid t hwf a.pageBottom skip a.y a.bottomSpace true f hfrag r hres
        have hlen' : (remaining t.bodies (some r)).length ≤ more.length := by
          have h1 : (remaining t.bodies skip).length =
              (fragRows f).length + (remaining t.bodies (some r)).length := by
            rw [hp, hres]
            simp [rest]
          have h2 : 0 < (fragRows f).length := List.length_pos_iff.mpr hrows
          simp only [List.length_cons] at hlen
          omega
        split at h
        · cases h
        · rename_i fs done hrec
          injection h with h
          subst h
          obtain ⟨hd, hfl⟩ := ih (some r) (fun a' ha' => hempty a' (by simp [ha'])) hlen' hvalid _ hrec
          refine ⟨hd, ?_⟩
          simp only [List.flatMap_cons]
          rw [hp, hres]
          simp only [rest]
          rw [hfl]

/-! ### Non-vacuity: a table with header, footer and five 10px rows on 45px pages -/

private def exRow : PRow := ⟨10, .auto, .auto⟩
private def exTable : PTable :=
  ⟨0, .auto, some ⟨[exRow], .auto, .auto, .auto⟩, some ⟨[exRow], .auto, .auto, .auto⟩,
   [⟨[exRow, exRow, exRow], .auto, .auto, .auto⟩, ⟨[exRow, ⟨10, .page, .auto⟩], .auto, .auto, .auto⟩]⟩
private def exPage : Attempt := ⟨45, 0, 0, true⟩

private def summary (r : Except PyErr (List Fragment × Bool)) : List (Bool × Bool × List (Nat × Nat)) × Bool :=
  match r with
  | .ok (fs, d) => (fs.map (fun f => (f.header, f.footer, fragRows f)), d)
  | .error _ => ([], false)

private def summary1 (r : Except PyErr (Option Fragment)) : List (Bool × Bool × List (Nat × Nat)) :=
  match r with
  | .ok (some f) => [(f.header, f.footer, fragRows f)]
  | _ => []

/-- header + 2 rows + footer per page; the forced break before the last row ends the third page early. -/
example : summary (paginate exTable none [exPage, exPage, exPage, exPage]) =
    ([(true, true, [(0, 0), (0, 1)]), (true, true, [(0, 2), (1, 0)]), (true, true, [(1, 1)])], true) := by
  decide +kernel

example : allRows exTable = [(0, 0), (0, 1), (0, 2), (1, 0), (1, 1)] := by decide +kernel
/-- On a 25px page header + row + footer do not fit: the footer is dropped first. -/
example : summary1 (tableLayout exTable 25 none 0 0 true) = [(true, false, [(0, 0)])] := by
  decide +kernel

end Wp.C10.Pages
