/-
C07 (part 4) — the rule-level funnel (`preprocess_stylesheet`): ignored rules leave no trace.
-/
import WpModel.Model.SheetC07

namespace Wp.C07
open Wp Wp.Sheet

/-! ## 20. Rules that are ignored vanish; the rest of the sheet is as if they were absent -/

/-- An ignored rule (parse error, selector that does not compile, unusable or failing `@import`, invalid media
query, unsupported page selector, invalid counter-style name, unknown at-rule) yields nothing and leaves the
`ignore_imports` state as it was. -/
theorem sheet_inert_rule (ig : Bool) (r : Rule) (h : inert r = true) : processRule ig r = ([], ig) := by
  cases r with
  | noContent => simp [processRule]
  | style id ok ps d =>
    simp only [inert, Bool.not_eq_true'] at h
    simp [processRule, h]
  | importRule u f rs =>
    simp only [inert, Bool.or_eq_true, Bool.not_eq_true'] at h
    cases ig <;> rcases h with h | h <;> cases u <;> cases f <;> simp_all [processRule]
  | media q rs =>
    cases q with
    | none => simp [processRule]
    | some m => simp [inert] at h
  | page id n d ms =>
    cases n with
    | none => simp [processRule]
    | some k => simp [inert] at h
  | fontFace => simp [inert] at h
  | counterStyle ok =>
    simp only [inert, Bool.not_eq_true'] at h
    simp [processRule, h]
  | otherAt => simp [processRule]

private theorem processRules_cons (ig : Bool) (r : Rule) (rest : List Rule) :
    processRules ig (r :: rest) =
      ((processRule ig r).1 ++ (processRules (processRule ig r).2 rest).1,
       (processRules (processRule ig r).2 rest).2) := by
  simp [processRules]

/-- **Deleting every ignored rule changes nothing**: same contributions, same final state — whatever the
other rules are, at any nesting level this function is applied to. -/
theorem sheet_inert_vanish (ig : Bool) (rules : List Rule) :
    processRules ig (rules.filter fun r => !inert r) = processRules ig rules := by
  induction rules generalizing ig with
  | nil => rfl
  | cons r rest ih =>
    by_cases h : inert r = true
    · simp only [List.filter, h, Bool.not_true]
      rw [processRules_cons, sheet_inert_rule ig r h, ih]
      simp
    · have h' : inert r = false := by simpa using h
      simp only [List.filter, h', Bool.not_false]
      rw [processRules_cons, processRules_cons, ih]

/-- An ignored rule anywhere in a sheet is as if absent. -/
theorem sheet_inert_insert (ig : Bool) (a b : List Rule) (r : Rule) (h : inert r = true) :
    processRules ig (a ++ r :: b) = processRules ig (a ++ b) := by
  induction a generalizing ig with
  | nil => rw [List.nil_append, List.nil_append, processRules_cons, sheet_inert_rule ig r h]; simp
  | cons x rest ih => simp only [List.cons_append, processRules_cons, ih]

/-- Contributions concatenate; the only thing that flows from a rule to the following ones is
`ignore_imports`. -/
theorem sheet_append (ig : Bool) (a b : List Rule) :
    processRules ig (a ++ b) =
      ((processRules ig a).1 ++ (processRules (processRules ig a).2 b).1,
       (processRules (processRules ig a).2 b).2) := by
  induction a generalizing ig with
  | nil => simp [processRules]
  | cons x rest ih => simp only [List.cons_append, processRules_cons, ih, List.append_assoc]

/-- `ignore_imports` is never reset … -/
theorem ignore_imports_sticky (r : Rule) : (processRule true r).2 = true := by
  cases r with
  | noContent => simp [processRule]
  | style id ok ps d =>
    cases ok <;> cases d <;> simp [processRule]
  | importRule u f rs => simp [processRule]
  | media q rs => cases q with
    | none => simp [processRule]
    | some m => cases m <;> simp [processRule]
  | page id n d ms => cases n <;> simp [processRule]
  | fontFace => simp [processRule]
  | counterStyle ok => cases ok <;> simp [processRule]
  | otherAt => simp [processRule]

/-- … and once set, an `@import` contributes nothing (css-cascade: `@import` must precede all other rules). -/
theorem import_after_rules_ignored (u f : Bool) (rs : List Rule) :
    processRule true (.importRule u f rs) = ([], true) := by simp [processRule]

/-- **Neighbour independence at rule level**: what a rule other than `@import` contributes does not depend on
what came before it. -/
theorem rule_events_independent (ig ig' : Bool) (r : Rule) (h : ∀ u f rs, r ≠ .importRule u f rs) :
    (processRule ig r).1 = (processRule ig' r).1 := by
  cases r with
  | importRule u f rs => exact absurd rfl (h u f rs)
  | style id ok ps d => cases ok <;> cases d <;> simp [processRule]
  | media q rs => cases q with
    | none => simp [processRule]
    | some m => cases m <;> simp [processRule]
  | page id n d ms => cases n <;> simp [processRule]
  | counterStyle ok => cases ok <;> simp [processRule]
  | _ => simp [processRule]

/-- Non-vacuity: `p >{…}` (bad selector), `@foo{}` and a parse error around a valid rule and a valid @page. -/
example : (processRules false
    [.style 1 false [] true, .otherAt, .style 2 true [true, true] true, .noContent,
     .page 3 (some 1) true [("@top-left", true), ("@foo", false)], .importRule true true [.style 4 true [true] true]]).1
    = [.selector 2 0, .selector 2 1, .pageRule 3, .marginRule 3 "@top-left"] := by decide

end Wp.C07
