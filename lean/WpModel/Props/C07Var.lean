/-
C07 (part 3) — `resolve_var` terminates on acyclic custom-property environments, which turns
"var() = substitution whenever resolve_var returns" into a total statement there.
-/
import WpModel.Model.VarSubst
import WpModel.Lemmas.C07Var
import WpModel.Props.C07

namespace Wp.C07
open Wp Wp.Decl Wp.Var

/-! ## 19. Termination on acyclic environments -/

/-- Custom-property names (underscore form, as `computed[...]` is indexed) of the identifiers that are direct
arguments of a function. -/
def identNames : List Tk → List String
  | [] => []
  | .ident v :: rest => dashToUnderscore v :: identNames rest
  | _ :: rest => identNames rest

mutual
/-- Every custom property a token may refer to: the identifier arguments of every function called `var`, at
any depth (an over-approximation of what `resolve_var` looks up). -/
def refs : Tk → List String
  | .fn _ l args => (if l == "var" then identNames args else []) ++ refsList args
  | _ => []
def refsList : List Tk → List String
  | [] => []
  | t :: rest => refs t ++ refsList rest
end

/-- The reference graph of the custom properties is acyclic: a rank decreases along every reference. -/
def Acyclic (env : Env) (rk : String → Nat) : Prop :=
  ∀ n, ∀ m ∈ refsList (env n), rk m < rk n

private theorem refsList_mem : ∀ (l : List Tk) (a : Tk), a ∈ l → ∀ m ∈ refs a, m ∈ refsList l
  | [], a, h, _, _ => by cases h
  | t :: rest, a, h, m, hm => by
    simp only [List.mem_cons] at h
    simp only [refsList, List.mem_append]
    rcases h with rfl | h
    · exact Or.inl hm
    · exact Or.inr (refsList_mem rest a h m hm)

private theorem refsList_of_mem (l : List Tk) (m : String) (h : m ∈ refsList l) : ∃ a ∈ l, m ∈ refs a := by
  induction l with
  | nil => simp [refsList] at h
  | cons t rest ih =>
    simp only [refsList, List.mem_append] at h
    rcases h with h | h
    · exact ⟨t, by simp, h⟩
    · obtain ⟨a, ha, hm⟩ := ih h
      exact ⟨a, by simp [ha], hm⟩

private theorem identNames_mem : ∀ (l : List Tk) (v : String), Tk.ident v ∈ l → dashToUnderscore v ∈ identNames l
  | [], v, h => by cases h
  | t :: rest, v, h => by
    simp only [List.mem_cons] at h
    rcases h with rfl | h
    · simp [identNames]
    · have := identNames_mem rest v h
      cases t <;> simp [identNames, this]

/-- What `parse_function` keeps are arguments of the function. -/
private theorem parseArgs_mem : ∀ (a : List Tk) (b : Bool) (out : List Tk), parseArgs a b = some out →
    ∀ x ∈ out, x ∈ a
  | [], b, out, h, x, hx => by
    cases b <;> simp [parseArgs] at h
    subst h; cases hx
  | .ws :: rest, b, out, h, x, hx => by
    simp only [parseArgs] at h
    simp [parseArgs_mem rest b out h x hx]
  | .comma :: rest, b, out, h, x, hx => by
    simp only [parseArgs] at h
    cases b with
    | true => simp at h
    | false =>
      simp only [Bool.false_eq_true, if_false] at h
      simp [parseArgs_mem rest true out h x hx]
  | .ident v :: rest, b, out, h, x, hx => by
    simp only [parseArgs, parses, if_true] at h
    cases hr : parseArgs rest false with
    | none => simp [hr] at h
    | some d =>
      simp only [hr, Option.map_some, Option.some.injEq] at h
      subst h
      simp only [List.mem_cons] at hx ⊢
      rcases hx with rfl | hx
      · exact Or.inl rfl
      · exact Or.inr (parseArgs_mem rest false d hr x hx)
  | .leaf v :: rest, b, out, h, x, hx => by
    simp only [parseArgs, parses, if_true] at h
    cases hr : parseArgs rest false with
    | none => simp [hr] at h
    | some d =>
      simp only [hr, Option.map_some, Option.some.injEq] at h
      subst h
      simp only [List.mem_cons] at hx ⊢
      rcases hx with rfl | hx
      · exact Or.inl rfl
      · exact Or.inr (parseArgs_mem rest false d hr x hx)
  | .fn n l args :: rest, b, out, h, x, hx => by
    simp only [parseArgs] at h
    split at h
    · cases hr : parseArgs rest false with
      | none => simp [hr] at h
      | some d =>
        simp only [hr, Option.map_some, Option.some.injEq] at h
        subst h
        simp only [List.mem_cons] at hx ⊢
        rcases hx with rfl | hx
        · exact Or.inl rfl
        · exact Or.inr (parseArgs_mem rest false d hr x hx)
    · cases h

/-- "Enough fuel" passes from the elements to the list. -/
private theorem fuel_for_list (P : Nat → Tk → Prop) :
    ∀ (l : List Tk), (∀ a ∈ l, ∃ f0, ∀ f, f0 ≤ f → P f a) → ∃ f0, ∀ f, f0 ≤ f → ∀ a ∈ l, P f a
  | [], _ => ⟨0, fun _ _ a ha => by cases ha⟩
  | t :: rest, h => by
    obtain ⟨f1, h1⟩ := h t (by simp)
    obtain ⟨f2, h2⟩ := fuel_for_list P rest (fun a ha => h a (by simp [ha]))
    refine ⟨max f1 f2, fun f hf a ha => ?_⟩
    simp only [List.mem_cons] at ha
    rcases ha with rfl | ha
    · exact h1 f (Nat.le_trans (Nat.le_max_left _ _) hf)
    · exact h2 f (Nat.le_trans (Nat.le_max_right _ _) hf) a ha

private theorem mapM_all_ok {α β : Type} (F : α → R β) :
    ∀ (l : List α), (∀ a ∈ l, ∃ p, F a = .ok p) → ∃ out, l.mapM F = .ok out
  | [], _ => ⟨[], rfl⟩
  | a :: rest, h => by
    obtain ⟨p, hp⟩ := h a (by simp)
    obtain ⟨out, ho⟩ := mapM_all_ok F rest (fun x hx => h x (by simp [hx]))
    exact ⟨p :: out, by rw [List.mapM_cons, hp, ho]; rfl⟩

private theorem argStep_of_ok (rv : Tk → R (Option (List Tk))) (a : Tk) (h : ∃ r, rv a = .ok r) :
    ∃ p, argStep rv a = .ok p := by
  obtain ⟨r, hr⟩ := h
  cases a with
  | fn n l xs => cases r <;> simp [argStep, hr, bind, Except.bind, pure, Except.pure]
  | _ => exact ⟨_, rfl⟩

private theorem valueStep_of_ok (rv : Tk → R (Option (List Tk))) (a : Tk) (h : ∃ r, rv a = .ok r) :
    ∃ p, valueStep rv a = .ok p := by
  obtain ⟨r, hr⟩ := h
  cases r <;> simp [valueStep, hr, bind, Except.bind, pure, Except.pure]

/-- One unfolding of `resolve_var` on a function that is not `var()` … -/
private theorem resolveVar_fn_eq (env : Env) (fuel : Nat) (name lname : String) (args : List Tk)
    (parts : List (List Tk)) (hc : checkVar (.fn name lname args) = true) (hl : (lname != "var") = true)
    (hm : args.mapM (argStep (resolveVar env fuel)) = .ok parts)
    (h2 : resolveVar env fuel (.fn name lname parts.flatten) = .ok none) :
    resolveVar env (fuel + 1) (.fn name lname args) = .ok (some [Tk.fn name lname parts.flatten]) := by
  simp only [resolveVar, hc, Bool.not_true, Bool.false_eq_true, if_false, hl, if_true, hm, h2, bind,
    Except.bind]
  rfl

/-- … and on a `var()`. -/
private theorem resolveVar_var_eq (env : Env) (fuel : Nat) (name lname : String) (args dflt : List Tk)
    (v : String) (parts : List (List Tk)) (hc : checkVar (.fn name lname args) = true)
    (hl : (lname != "var") = false) (hp : parseArgs args false = some (.ident v :: dflt))
    (hm : (if (env (dashToUnderscore v)).isEmpty then dflt else env (dashToUnderscore v)).mapM
      (valueStep (resolveVar env fuel)) = .ok parts) :
    resolveVar env (fuel + 1) (.fn name lname args) = .ok (some parts.flatten) := by
  simp only [resolveVar, hc, Bool.not_true, Bool.false_eq_true, if_false, hl, hp, hm, bind, Except.bind]
  rfl

/-- `S env t`: from some fuel on, `resolve_var` returns on `t`. -/
private def Returns (env : Env) (t : Tk) : Prop := ∃ f0, ∀ f, f0 ≤ f → ∃ r, resolveVar env f t = .ok r

private theorem returns_core (env : Env) (rk : String → Nat) (hacy : Acyclic env rk) :
    ∀ (B : Nat) (n : Nat) (t : Tk), sizeOf t ≤ n → (∀ m ∈ refs t, rk m < B) → Returns env t := by
  intro B
  induction B using Nat.strongRecOn with
  | _ B ihB =>
    intro n
    induction n with
    | zero =>
      intro t ht
      cases t <;> simp at ht
    | succ n ihn =>
      intro t ht hrefs
      cases hc : checkVar t with
      | false =>
        refine ⟨1, fun f hf => ⟨none, ?_⟩⟩
        obtain ⟨g, rfl⟩ : ∃ g, f = g + 1 := ⟨f - 1, by omega⟩
        simp [resolveVar, hc]; rfl
      | true =>
        cases t with
        | fn name lname args =>
          have hsz : ∀ a ∈ args, sizeOf a ≤ n := by
            intro a ha
            have := List.sizeOf_lt_of_mem ha
            simp only [Tk.fn.sizeOf_spec] at ht
            omega
          have hrl : ∀ a ∈ args, ∀ m ∈ refs a, rk m < B := by
            intro a ha m hm
            apply hrefs
            simp only [refs, List.mem_append]
            exact Or.inr (refsList_mem args a ha m hm)
          by_cases hl : (lname != "var") = true
          · -- another function: every argument returns, the rebuilt function has no var() left
            obtain ⟨f1, h1⟩ := fuel_for_list (fun f a => ∃ r, resolveVar env f a = .ok r) args
              (fun a ha => ihn a (hsz a ha) (hrl a ha))
            refine ⟨max f1 1 + 1, fun f hf => ?_⟩
            obtain ⟨g, rfl⟩ : ∃ g, f = g + 1 := ⟨f - 1, by omega⟩
            have hg1 : f1 ≤ g := by have := Nat.le_max_left f1 1; omega
            have hg2 : 1 ≤ g := by have := Nat.le_max_right f1 1; omega
            obtain ⟨parts, hm⟩ := mapM_all_ok (argStep (resolveVar env g)) args
              (fun a ha => argStep_of_ok _ a (h1 g hg1 a ha))
            have hparts : ∀ x ∈ parts.flatten, checkVar x = false := by
              intro x hx
              simp only [List.mem_flatten] at hx
              obtain ⟨p, hp, hxp⟩ := hx
              obtain ⟨a, _, hfa⟩ := mapM_ok_mem _ args parts hm p hp
              rcases argStep_ok _ a p hfa with hra | ⟨hra, rfl⟩ | ⟨hleaf, rfl⟩
              · exact resolveVar_no_var env g _ p hra x hxp
              · simp only [List.mem_singleton] at hxp
                subst hxp
                exact resolveVar_none env g x hra
              · simp only [List.mem_singleton] at hxp
                subst hxp
                exact checkVar_leaf x hleaf
            have hc' := checkVar_fn_false name lname parts.flatten hl hparts
            obtain ⟨g', rfl⟩ : ∃ g', g = g' + 1 := ⟨g - 1, by omega⟩
            have h2 : resolveVar env (g' + 1) (Tk.fn name lname parts.flatten) = .ok none := by
              simp [resolveVar, hc']; rfl
            exact ⟨some [Tk.fn name lname parts.flatten], resolveVar_fn_eq env _ name lname args parts hc hl hm h2⟩
          · -- var(--v, default): the value of --v has a smaller rank, the default is made of arguments
            have hl' : (lname != "var") = false := by simpa using hl
            have hlv : (lname == "var") = true := by simpa [bne] using hl'
            obtain ⟨v, dflt, hp⟩ := checkVar_var_args name lname args hl' hc
            have hvmem : Tk.ident v ∈ args := parseArgs_mem args false _ hp _ (by simp)
            have hrkv : rk (dashToUnderscore v) < B := by
              apply hrefs
              simp only [refs, hlv, if_true, List.mem_append]
              exact Or.inl (identNames_mem args v hvmem)
            have hvals : ∀ x ∈ (if (env (dashToUnderscore v)).isEmpty then dflt else env (dashToUnderscore v)),
                Returns env x := by
              intro x hx
              split at hx
              · have hxa : x ∈ args := parseArgs_mem args false _ hp x (by simp [hx])
                exact ihn x (hsz x hxa) (hrl x hxa)
              · exact ihB (rk (dashToUnderscore v)) hrkv (sizeOf x) x (Nat.le_refl _)
                  (fun m hm => hacy (dashToUnderscore v) m (refsList_mem _ x hx m hm))
            obtain ⟨f1, h1⟩ := fuel_for_list (fun f a => ∃ r, resolveVar env f a = .ok r) _ hvals
            refine ⟨f1 + 1, fun f hf => ?_⟩
            obtain ⟨g, rfl⟩ : ∃ g, f = g + 1 := ⟨f - 1, by omega⟩
            obtain ⟨parts, hm⟩ := mapM_all_ok (valueStep (resolveVar env g)) _
              (fun a ha => valueStep_of_ok _ a (h1 g (by omega) a ha))
            exact ⟨some parts.flatten, resolveVar_var_eq env g name lname args dflt v parts hc hl' hp hm⟩
        | _ => simp [checkVar] at hc

/-- **`resolve_var` terminates on acyclic environments**: if the references between custom properties admit a
rank (no `--a: var(--a)`, no longer cycle), then for every token there is a depth from which `resolve_var`
returns — no `RecursionError`, whatever the nesting of functions, fallbacks and chains of custom properties.
(The hypothesis is necessary: `Witness.C07.var_self_cycle`.) -/
theorem resolve_var_terminates (env : Env) (rk : String → Nat) (hacy : Acyclic env rk) (t : Tk) :
    ∃ f0, ∀ f, f0 ≤ f → ∃ r, resolveVar env f t = .ok r := by
  have hB : ∃ B, ∀ m ∈ refs t, rk m < B := by
    generalize refs t = l
    induction l with
    | nil => exact ⟨0, fun m hm => by cases hm⟩
    | cons x rest ih =>
      obtain ⟨B, hB⟩ := ih
      refine ⟨max B (rk x + 1), fun m hm => ?_⟩
      simp only [List.mem_cons] at hm
      rcases hm with rfl | hm
      · have := Nat.le_max_right B (rk m + 1); omega
      · have := hB m hm; have := Nat.le_max_left B (rk x + 1); omega
  obtain ⟨B, hB⟩ := hB
  exact returns_core env rk hacy B (sizeOf t) t (Nat.le_refl _) hB

/-- **`var()` ≡ textual substitution, totally**: acyclic custom properties, well-formed `var()` with comma-free
fallbacks ⇒ from some depth on `resolve_var` returns, and what it returns is the textual substitution. -/
theorem var_subst_total (env : Env) (rk : String → Nat) (hacy : Acyclic env rk)
    (henv : ∀ n, wfToks (env n) = true) (t : Tk) (ht : wfTok t = true) :
    ∃ f0, ∀ f, f0 ≤ f → ∃ r, resolveVar env f t = .ok r ∧ subst env f t = some (r.getD [t]) := by
  obtain ⟨f0, h⟩ := resolve_var_terminates env rk hacy t
  refine ⟨f0, fun f hf => ?_⟩
  obtain ⟨r, hr⟩ := h f hf
  exact ⟨r, hr, var_subst env henv f t r ht hr⟩

/-- Non-vacuity: `--a: var(--b) 1px`, `--b: red` is acyclic with rank a ↦ 1, b ↦ 0. -/
example : Acyclic
    (fun n => if n = "__a" then [.fn "var" "var" [.ident "--b"], .ws, .leaf "1px"]
      else if n = "__b" then [.ident "red"] else [])
    (fun n => if n = "__a" then 1 else 0) := by
  intro n m hm
  by_cases ha : n = "__a"
  · subst ha
    have : m = "__b" := by simpa [refsList, refs, identNames, dashToUnderscore] using hm
    subst this
    decide
  · by_cases hb : n = "__b"
    · subst hb; simp [refsList, refs] at hm
    · simp [ha, hb, refsList] at hm

end Wp.C07
