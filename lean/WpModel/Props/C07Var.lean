/-
C07 (part 3) — `resolve_var` always terminates (cycle guard: finitely many custom properties), and on acyclic
custom properties, where textual substitution has a meaning, it returns that substitution: a total statement.
-/
import WpModel.Model.VarSubst
import WpModel.Lemmas.C07Var
import WpModel.Props.C07

namespace Wp.C07
open Wp Wp.Decl Wp.Var

/-! ## 19. Termination: always on finite custom-property sets (cycle guard), and on acyclic ones -/

/-- "Enough fuel" passes from the elements to the list. -/
private theorem fuel_for_list (P : Nat → Tk → Prop) :
    ∀ (l : List Tk), (∀ a ∈ l, ∃ f0, ∀ f, f0 ≤ f → P f a) → ∃ f0, ∀ f, f0 ≤ f → ∀ a ∈ l, P f a
  | [], _ => ⟨0, fun _ _ a ha => by cases ha⟩
  | t :: rest, h => by
    obtain ⟨f1, h1⟩ := h t (by simp)
    obtain ⟨f2, h2⟩ := fuel_for_list P rest (fun a ha => h a (by simp [ha]))
    refine ⟨max f1 f2, fun f hf a ha => ?_⟩
    simp only [List.mem_cons] at ha
    rcases ha with rfl | ha
    · exact h1 f (Nat.le_trans (Nat.le_max_left _ _) hf)
    · exact h2 f (Nat.le_trans (Nat.le_max_right _ _) hf) a ha

private theorem mapM_all_ok {α β : Type} (F : α → R β) :
    ∀ (l : List α), (∀ a ∈ l, ∃ p, F a = .ok p) → ∃ out, l.mapM F = .ok out
  | [], _ => ⟨[], rfl⟩
  | a :: rest, h => by
    obtain ⟨p, hp⟩ := h a (by simp)
    obtain ⟨out, ho⟩ := mapM_all_ok F rest (fun x hx => h x (by simp [hx]))
    exact ⟨p :: out, by rw [List.mapM_cons, hp, ho]; rfl⟩

private theorem argStep_of_ok (rv : Tk → R (Option (List Tk))) (a : Tk) (h : ∃ r, rv a = .ok r) :
    ∃ p, argStep rv a = .ok p := by
  obtain ⟨r, hr⟩ := h
  cases a with
  | fn n l xs => cases r <;> simp [argStep, hr, bind, Except.bind, pure, Except.pure]
  | _ => exact ⟨_, rfl⟩

private theorem valueStep_of_ok (rv : Tk → R (Option (List Tk))) (a : Tk) (h : ∃ r, rv a = .ok r) :
    ∃ p, valueStep rv a = .ok p := by
  obtain ⟨r, hr⟩ := h
  cases r <;> simp [valueStep, hr, bind, Except.bind, pure, Except.pure]

/-- One unfolding of `resolve_var` on a function that is not `var()` … -/
private theorem resolveVar_fn_eq (env : Env) (seen : List String) (fuel : Nat) (name lname : String)
    (args : List Tk) (parts : List (List Tk)) (hc : checkVar (.fn name lname args) = true)
    (hl : (lname != "var") = true)
    (hm : args.mapM (argStep (resolveVar env seen fuel)) = .ok parts)
    (h2 : resolveVar env seen fuel (.fn name lname parts.flatten) = .ok none) :
    resolveVar env seen (fuel + 1) (.fn name lname args) = .ok (some [Tk.fn name lname parts.flatten]) := by
  simp only [resolveVar, hc, Bool.not_true, Bool.false_eq_true, if_false, hl, if_true, hm, h2, bind,
    Except.bind]
  rfl

/-- … and on a `var()`: the values are resolved with the custom property added to `seen`. -/
theorem resolveVar_var_eq (env : Env) (seen : List String) (fuel : Nat) (name lname : String)
    (args dflt : List Tk) (v : String) (parts : List (List Tk)) (hc : checkVar (.fn name lname args) = true)
    (hl : (lname != "var") = false) (hp : parseArgs args false = some (.ident v :: dflt))
    (hm : (varValues env seen (dashToUnderscore v) dflt).mapM
      (valueStep (resolveVar env (seen ++ [dashToUnderscore v]) fuel)) = .ok parts) :
    resolveVar env seen (fuel + 1) (.fn name lname args) = .ok (some parts.flatten) := by
  simp only [resolveVar, hc, Bool.not_true, Bool.false_eq_true, if_false, hl, hp, hm, bind, Except.bind]
  rfl

/-- From some fuel on, `resolve_var` returns on `t` (called with `seen`). -/
def Returns (env : Env) (seen : List String) (t : Tk) : Prop :=
  ∃ f0, ∀ f, f0 ≤ f → ∃ r, resolveVar env seen f t = .ok r

private theorem returns_no_var (env : Env) (seen : List String) (t : Tk) (hc : checkVar t = false) :
    Returns env seen t := by
  refine ⟨1, fun f hf => ⟨none, ?_⟩⟩
  obtain ⟨g, rfl⟩ : ∃ g, f = g + 1 := ⟨f - 1, by omega⟩
  simp [resolveVar, hc]; rfl

/-- A function that is not `var()` returns as soon as its arguments do: the rebuilt function has no `var()`. -/
private theorem returns_fn (env : Env) (seen : List String) (name lname : String) (args : List Tk)
    (hc : checkVar (.fn name lname args) = true) (hl : (lname != "var") = true)
    (hargs : ∀ a ∈ args, Returns env seen a) : Returns env seen (.fn name lname args) := by
  obtain ⟨f1, h1⟩ := fuel_for_list (fun f a => ∃ r, resolveVar env seen f a = .ok r) args hargs
  refine ⟨max f1 1 + 1, fun f hf => ?_⟩
  obtain ⟨g, rfl⟩ : ∃ g, f = g + 1 := ⟨f - 1, by omega⟩
  have hg1 : f1 ≤ g := by have := Nat.le_max_left f1 1; omega
  have hg2 : 1 ≤ g := by have := Nat.le_max_right f1 1; omega
  obtain ⟨parts, hm⟩ := mapM_all_ok (argStep (resolveVar env seen g)) args
    (fun a ha => argStep_of_ok _ a (h1 g hg1 a ha))
  have hc' := rebuilt_no_var env seen g name lname args parts hl hm
  obtain ⟨g', rfl⟩ : ∃ g', g = g' + 1 := ⟨g - 1, by omega⟩
  have h2 : resolveVar env seen (g' + 1) (Tk.fn name lname parts.flatten) = .ok none := by
    simp [resolveVar, hc']; rfl
  exact ⟨some [Tk.fn name lname parts.flatten], resolveVar_fn_eq env seen _ name lname args parts hc hl hm h2⟩

/-- A `var()` returns as soon as the values it stands for do. -/
private theorem returns_var (env : Env) (seen : List String) (name lname : String) (args dflt : List Tk)
    (v : String) (hc : checkVar (.fn name lname args) = true) (hl : (lname != "var") = false)
    (hp : parseArgs args false = some (.ident v :: dflt))
    (hvals : ∀ x ∈ varValues env seen (dashToUnderscore v) dflt,
      Returns env (seen ++ [dashToUnderscore v]) x) : Returns env seen (.fn name lname args) := by
  obtain ⟨f1, h1⟩ := fuel_for_list
    (fun f a => ∃ r, resolveVar env (seen ++ [dashToUnderscore v]) f a = .ok r) _ hvals
  refine ⟨f1 + 1, fun f hf => ?_⟩
  obtain ⟨g, rfl⟩ : ∃ g, f = g + 1 := ⟨f - 1, by omega⟩
  obtain ⟨parts, hm⟩ := mapM_all_ok (valueStep (resolveVar env (seen ++ [dashToUnderscore v]) g)) _
    (fun a ha => valueStep_of_ok _ a (h1 g (by omega) a ha))
  exact ⟨some parts.flatten, resolveVar_var_eq env seen g name lname args dflt v parts hc hl hp hm⟩

/-! ### Always: the cycle guard -/

/-- How many of the (finitely many) non-empty custom properties are not under substitution yet. -/
def pendingNames (names seen : List String) : Nat := (names.filter fun n => !seen.contains n).length

private theorem contains_snoc (seen : List String) (k n : String) :
    (seen ++ [k]).contains n = (seen.contains n || n == k) := by
  induction seen with
  | nil => simp only [List.nil_append, List.contains_cons, List.contains_nil, Bool.or_false, Bool.false_or]
  | cons a rest ih => simp only [List.cons_append, List.contains_cons, ih, Bool.or_assoc]

private theorem filter_len_le {α : Type} (p q : α → Bool) (h : ∀ x, q x = true → p x = true) :
    ∀ l : List α, (l.filter q).length ≤ (l.filter p).length
  | [] => Nat.le_refl _
  | a :: l => by
    have ih := filter_len_le p q h l
    simp only [List.filter_cons]
    cases hq : q a with
    | true => simp only [h a hq, if_true, List.length_cons]; omega
    | false =>
      cases hp : p a <;> simp only [if_true, Bool.false_eq_true, if_false, List.length_cons] <;> omega

private theorem filter_len_lt {α : Type} (p q : α → Bool) (h : ∀ x, q x = true → p x = true) (k : α)
    (hp : p k = true) (hq : q k = false) : ∀ l : List α, k ∈ l → (l.filter q).length < (l.filter p).length
  | [], hk => by cases hk
  | a :: l, hk => by
    have ihle := filter_len_le p q h l
    simp only [List.filter_cons]
    rcases List.mem_cons.1 hk with rfl | hk'
    · simp only [hp, hq, if_true, Bool.false_eq_true, if_false, List.length_cons]; omega
    · have ih := filter_len_lt p q h k hp hq l hk'
      cases hqa : q a with
      | true => simp only [h a hqa, if_true, List.length_cons]; omega
      | false =>
        cases hpa : p a <;> simp only [if_true, Bool.false_eq_true, if_false, List.length_cons] <;> omega

private theorem pendingNames_snoc (seen : List String) (k : String) (names : List String) :
    pendingNames names (seen ++ [k]) ≤ pendingNames names seen ∧
      (k ∈ names → seen.contains k = false → pendingNames names (seen ++ [k]) < pendingNames names seen) := by
  have h : ∀ x, (!(seen ++ [k]).contains x) = true → (!seen.contains x) = true := by
    intro x hx
    rw [contains_snoc] at hx
    cases hc : seen.contains x
    · rfl
    · rw [hc] at hx; simp at hx
  unfold pendingNames
  refine ⟨filter_len_le _ _ h names, fun hk hs => ?_⟩
  apply filter_len_lt _ _ h k _ _ names hk
  · simp only [hs, Bool.not_false]
  · simp only [contains_snoc, beq_self_eq_true, Bool.or_true, Bool.not_true]

private theorem returns_always_core (env : Env) (names : List String) (hfin : ∀ n, n ∉ names → env n = []) :
    ∀ (B : Nat) (n : Nat) (seen : List String) (t : Tk), pendingNames names seen ≤ B → sizeOf t ≤ n →
      Returns env seen t := by
  intro B
  induction B using Nat.strongRecOn with
  | _ B ihB =>
    intro n
    induction n with
    | zero =>
      intro seen t _ ht
      cases t <;> simp at ht
    | succ n ihn =>
      intro seen t hB ht
      cases hc : checkVar t with
      | false => exact returns_no_var env seen t hc
      | true =>
        cases t with
        | fn name lname args =>
          have hsz : ∀ a ∈ args, sizeOf a ≤ n := by
            intro a ha
            have := List.sizeOf_lt_of_mem ha
            simp only [Tk.fn.sizeOf_spec] at ht
            omega
          by_cases hl : (lname != "var") = true
          · exact returns_fn env seen name lname args hc hl (fun a ha => ihn seen a hB (hsz a ha))
          · have hl' : (lname != "var") = false := by simpa using hl
            obtain ⟨v, dflt, hp⟩ := checkVar_var_args name lname args hl' hc
            have hdflt : ∀ x ∈ dflt, Returns env (seen ++ [dashToUnderscore v]) x := by
              intro x hx
              have hxa : x ∈ args := parseArgs_mem args false _ hp x (by simp [hx])
              exact ihn _ x (Nat.le_trans (pendingNames_snoc seen _ names).1 hB) (hsz x hxa)
            apply returns_var env seen name lname args dflt v hc hl' hp
            intro x hx
            unfold varValues at hx
            by_cases hs : seen.contains (dashToUnderscore v) = true
            · rw [if_pos hs] at hx
              exact hdflt x hx
            · rw [if_neg hs] at hx
              by_cases he : (env (dashToUnderscore v)).isEmpty = true
              · rw [if_pos he] at hx
                exact hdflt x hx
              · rw [if_neg he] at hx
                -- a non-empty custom property met for the first time: one name less is pending
                have hmem : dashToUnderscore v ∈ names := by
                  apply Classical.byContradiction
                  intro hnot
                  rw [hfin _ hnot] at he
                  simp at he
                have hs' : seen.contains (dashToUnderscore v) = false := by simpa using hs
                have hlt := (pendingNames_snoc seen (dashToUnderscore v) names).2 hmem hs'
                exact ihB (pendingNames names (seen ++ [dashToUnderscore v])) (by omega) (sizeOf x) _ x
                  (Nat.le_refl _) (Nat.le_refl _)
        | _ => simp [checkVar] at hc

/-- **`resolve_var` always terminates** (full strength since `fix:` 2bffab3; before it the statement needed acyclic
custom properties — `--a: var(--a)` recursed until `RecursionError`): whatever the custom properties of an element
(finitely many are set: `names` lists them), cyclic or not, whatever the token, the tuple `seen` and the nesting of
functions, fallbacks and references, there is a depth from which `resolve_var` returns. -/
theorem resolve_var_terminates (env : Env) (names : List String) (hfin : ∀ n, n ∉ names → env n = [])
    (seen : List String) (t : Tk) :
    ∃ f0, ∀ f, f0 ≤ f → ∃ r, resolveVar env seen f t = .ok r :=
  returns_always_core env names hfin (pendingNames names seen) (sizeOf t) seen t (Nat.le_refl _) (Nat.le_refl _)

/-- **A custom property met again during its own substitution yields its fallback**: under `seen ∋ --v`,
`var(--v, fb…)` resolves to the resolution of `fb…` alone, whatever the value of `--v`. -/
theorem var_cycle_uses_fallback (env : Env) (seen : List String) (fuel : Nat) (name lname : String)
    (args dflt : List Tk) (v : String) (hc : checkVar (.fn name lname args) = true)
    (hl : (lname != "var") = false) (hp : parseArgs args false = some (.ident v :: dflt))
    (hseen : dashToUnderscore v ∈ seen) :
    resolveVar env seen (fuel + 1) (.fn name lname args) =
      (dflt.mapM (valueStep (resolveVar env (seen ++ [dashToUnderscore v]) fuel))).map
        (fun parts => some parts.flatten) := by
  have hcont : seen.contains (dashToUnderscore v) = true := by simpa using hseen
  simp only [resolveVar, hc, Bool.not_true, Bool.false_eq_true, if_false, hl, hp, varValues, hcont, if_true,
    bind, Except.bind]
  cases dflt.mapM (valueStep (resolveVar env (seen ++ [dashToUnderscore v]) fuel)) <;> rfl

/-- Regression (`p { --a: var(--a); width: var(--a) }`, repaired by 2bffab3): the self-reference is met with `--a`
in `seen` and yields its (empty) fallback — for every depth ≥ 2, no `RecursionError`; `--a: var(--a) 1px` gives
`1px`, and a two-property cycle `--a: var(--b)`, `--b: var(--a, 2px)` gives the inner fallback. -/
example :
    let selfEnv : Env := fun n => if n = "__a" then [.fn "var" "var" [.ident "--a"]] else []
    let selfEnv2 : Env := fun n => if n = "__a" then [.fn "var" "var" [.ident "--a"], .ws, .leaf "1px"] else []
    let twoEnv : Env := fun n =>
      if n = "__a" then [.fn "var" "var" [.ident "--b"]]
      else if n = "__b" then [.fn "var" "var" [.ident "--a", .comma, .ws, .leaf "2px"]] else []
    let tok : Tk := .fn "var" "var" [.ident "--a"]
    (match resolveVar selfEnv [] 2 tok with | .ok (some []) => true | _ => false) = true ∧
    (match resolveVar selfEnv [] 50 tok with | .ok (some []) => true | _ => false) = true ∧
    (match resolveVar selfEnv2 [] 3 tok with | .ok (some [.ws, .leaf "1px"]) => true | _ => false) = true ∧
    (match resolveVar twoEnv [] 4 tok with | .ok (some [.leaf "2px"]) => true | _ => false) = true := by
  decide

/-! ### On acyclic custom properties (no finiteness needed) -/

private theorem returns_core (env : Env) (rk : String → Nat) (hacy : Acyclic env rk) :
    ∀ (B : Nat) (n : Nat) (seen : List String) (t : Tk), sizeOf t ≤ n → (∀ m ∈ refs t, rk m < B) →
      Returns env seen t := by
  intro B
  induction B using Nat.strongRecOn with
  | _ B ihB =>
    intro n
    induction n with
    | zero =>
      intro seen t ht
      cases t <;> simp at ht
    | succ n ihn =>
      intro seen t ht hrefs
      cases hc : checkVar t with
      | false => exact returns_no_var env seen t hc
      | true =>
        cases t with
        | fn name lname args =>
          have hsz : ∀ a ∈ args, sizeOf a ≤ n := by
            intro a ha
            have := List.sizeOf_lt_of_mem ha
            simp only [Tk.fn.sizeOf_spec] at ht
            omega
          have hrl : ∀ a ∈ args, ∀ m ∈ refs a, rk m < B := by
            intro a ha m hm
            apply hrefs
            simp only [refs, List.mem_append]
            exact Or.inr (refsList_mem args a ha m hm)
          by_cases hl : (lname != "var") = true
          · exact returns_fn env seen name lname args hc hl (fun a ha => ihn seen a (hsz a ha) (hrl a ha))
          · -- var(--v, default): the value of --v has a smaller rank, the default is made of arguments
            have hl' : (lname != "var") = false := by simpa using hl
            have hlv : (lname == "var") = true := by simpa [bne] using hl'
            obtain ⟨v, dflt, hp⟩ := checkVar_var_args name lname args hl' hc
            have hvmem : Tk.ident v ∈ args := parseArgs_mem args false _ hp _ (by simp)
            have hrkv : rk (dashToUnderscore v) < B := by
              apply hrefs
              simp only [refs, hlv, if_true, List.mem_append]
              exact Or.inl (identNames_mem args v hvmem)
            have hdflt : ∀ x ∈ dflt, Returns env (seen ++ [dashToUnderscore v]) x := by
              intro x hx
              have hxa : x ∈ args := parseArgs_mem args false _ hp x (by simp [hx])
              exact ihn _ x (hsz x hxa) (hrl x hxa)
            apply returns_var env seen name lname args dflt v hc hl' hp
            intro x hx
            unfold varValues at hx
            split at hx
            · exact hdflt x hx
            · split at hx
              · exact hdflt x hx
              · exact ihB (rk (dashToUnderscore v)) hrkv (sizeOf x) _ x (Nat.le_refl _)
                  (fun m hm => hacy (dashToUnderscore v) m (refsList_mem _ x hx m hm))
        | _ => simp [checkVar] at hc

/-- `resolve_var` terminates on acyclic environments, finitely many custom properties or not: if the references
between custom properties admit a rank, then for every token there is a depth from which `resolve_var` returns. -/
theorem resolve_var_terminates_acyclic (env : Env) (rk : String → Nat) (hacy : Acyclic env rk)
    (seen : List String) (t : Tk) :
    ∃ f0, ∀ f, f0 ≤ f → ∃ r, resolveVar env seen f t = .ok r := by
  have hB : ∃ B, ∀ m ∈ refs t, rk m < B := by
    generalize refs t = l
    induction l with
    | nil => exact ⟨0, fun m hm => by cases hm⟩
    | cons x rest ih =>
      obtain ⟨B, hB⟩ := ih
      refine ⟨max B (rk x + 1), fun m hm => ?_⟩
      simp only [List.mem_cons] at hm
      rcases hm with rfl | hm
      · have := Nat.le_max_right B (rk m + 1); omega
      · have := hB m hm; have := Nat.le_max_left B (rk x + 1); omega
  obtain ⟨B, hB⟩ := hB
  exact returns_core env rk hacy B (sizeOf t) seen t (Nat.le_refl _) hB

/-- **`var()` ≡ textual substitution, totally**: acyclic custom properties, well-formed `var()` with comma-free
fallbacks ⇒ from some depth on `resolve_var` returns, and what it returns is the textual substitution. -/
theorem var_subst_total (env : Env) (rk : String → Nat) (hacy : Acyclic env rk)
    (henv : ∀ n, wfToks (env n) = true) (t : Tk) (ht : wfTok t = true) :
    ∃ f0, ∀ f, f0 ≤ f → ∃ r, resolveVar env [] f t = .ok r ∧ subst env f t = some (r.getD [t]) := by
  obtain ⟨f0, h⟩ := resolve_var_terminates_acyclic env rk hacy [] t
  refine ⟨f0, fun f hf => ?_⟩
  obtain ⟨r, hr⟩ := h f hf
  exact ⟨r, hr, var_subst env rk hacy henv f t r ht hr⟩

/-- Non-vacuity: `--a: var(--b) 1px`, `--b: red` is acyclic with rank a ↦ 1, b ↦ 0. -/
example : Acyclic
    (fun n => if n = "__a" then [.fn "var" "var" [.ident "--b"], .ws, .leaf "1px"]
      else if n = "__b" then [.ident "red"] else [])
    (fun n => if n = "__a" then 1 else 0) := by
  intro n m hm
  by_cases ha : n = "__a"
  · subst ha
    have : m = "__b" := by simpa [refsList, refs, identNames, dashToUnderscore] using hm
    subst this
    decide
  · by_cases hb : n = "__b"
    · subst hb; simp [refsList, refs] at hm
    · simp [ha, hb, refsList] at hm

end Wp.C07
