/-
C20 — `_select_source` (`Model/ResourcesSource.lean`): exactly one source or `TypeError`; only a URL source reaches the
fetcher, with the URL that was given; the base URL handed on — against which every relative reference of the document,
stylesheet or attachment is resolved — is absolute; for a URL source it is the location the fetcher reports.
-/
import WpModel.Model.ResourcesSource
import WpModel.Props.C20Trace

namespace Wp.C20.Source
open Wp Wp.Res Wp.Res.Source

/-- Anything but exactly one source is a `TypeError`, before anything is opened or fetched. -/
theorem exactly_one_source (f : Fetcher) (a : Args) (h : a.count ≠ 1) :
    selectSource f a = ([], .error ⟨"TypeError", "Expected exactly one source"⟩) := by
  simp [selectSource, h]

private theorem selectSource_one (f : Fetcher) (a : Args) (h : a.count = 1) : selectSource f a = dispatch f a := by
  simp [selectSource, h]

/-- The URL the fetcher is asked for, if the arguments name one. -/
def Args.fetchUrl (a : Args) : Option String :=
  match a.guess with
  | some (.text s _) => if urlIsAbsolute s then some s else none
  | some _ => none
  | none => if a.filename.isSome then none else a.url

private theorem selectOne_calls (f : Fetcher) (base : Option String) (c : Bool) (fn : Option FileName) (url : Option String)
    (fo : Option (Option FileName)) (u : String) (h : Ev.call u ∈ (selectOne f base c fn url fo).1) :
    fn = none ∧ url = some u := by
  cases fn with
  | some x =>
    simp only [selectOne] at h
    split at h <;> simp at h
  | none =>
    cases url with
    | some w =>
      simp only [selectOne] at h
      have hc := (fetch_funnel_one_call (f w) w (urlBody base c)).2
      have : Ev.call u ∈ List.filter Ev.isCall (fetch (f w) w (urlBody base c)).1 := by
        simp only [List.mem_filter]; exact ⟨h, rfl⟩
      rw [hc] at this
      simp at this
      exact ⟨rfl, by rw [this]⟩
    | none =>
      cases fo <;> simp [selectOne] at h

/-- `every_loader_uses_fetcher` (sources): `_select_source` calls the fetcher only for a URL source — `url=`, or a
`guess` string that is an absolute URL — and only with that very URL. -/
theorem fetches_only_the_given_url (f : Fetcher) (a : Args) (u : String) (h : Ev.call u ∈ (selectSource f a).1) :
    Args.fetchUrl a = some u := by
  by_cases hc : a.count = 1
  · rw [selectSource_one f a hc] at h
    unfold dispatch at h
    unfold Args.fetchUrl
    cases hg : a.guess with
    | none =>
      simp only [hg] at h
      obtain ⟨h1, h2⟩ := selectOne_calls f _ _ _ _ _ u h
      simp [h1, h2]
    | some g =>
      simp only [hg] at h
      cases g with
      | readable name => exact absurd (selectOne_calls f _ _ _ _ _ u h).2 (by simp)
      | path p => exact absurd (selectOne_calls f _ _ _ _ _ u h).1 (by simp)
      | text s asFile =>
        simp only at h ⊢
        by_cases habs : urlIsAbsolute s = true
        · simp only [habs, ↓reduceIte] at h ⊢
          have := (selectOne_calls f _ _ _ _ _ u h).2
          simp only [Option.some.injEq] at this
          rw [this]
        · simp only [habs, Bool.false_eq_true, ↓reduceIte] at h
          exact absurd (selectOne_calls f _ _ _ _ _ u h).1 (by simp)
  · rw [exactly_one_source f a hc] at h
    simp at h

/-- Every trace of `_select_source` is a sequence of `call [body [close]]` fetches (at most one). -/
theorem select_source_trace_good (f : Fetcher) (a : Args) : Trace.Good (selectSource f a).1 := by
  have hone : ∀ base c fn url fo, Trace.Good (selectOne f base c fn url fo).1 := by
    intro base c fn url fo
    cases fn with
    | some x => simp only [selectOne]; split <;> exact Trace.good_nil
    | none =>
      cases url with
      | some w => simp only [selectOne]; exact Trace.fetch_trace_good _ _ _
      | none => cases fo <;> exact Trace.good_nil
  by_cases hc : a.count = 1
  · rw [selectSource_one f a hc]
    unfold dispatch
    simp only
    split
    · exact hone _ _ _ _ _
    · exact hone _ _ _ _ _
    · split <;> exact hone _ _ _ _ _
    · exact hone _ _ _ _ _
  · rw [exactly_one_source f a hc]; exact Trace.good_nil

/-! ## the base URL is absolute -/

/-- `path2url` gives an absolute (`file:`) URL for the name. -/
def FileName.ok (n : FileName) : Prop := urlIsAbsolute n.asUrl = true

private theorem ensureUrl_absolute (n : FileName) (h : FileName.ok n) : urlIsAbsolute (ensureUrl n) = true := by
  unfold ensureUrl
  split
  · assumption
  · exact h

/-- What the property assumes of the environment: `path2url` returns absolute URLs for the names involved, and the
location a fetcher reports (`redirected_url`) is an absolute URL. -/
structure Sane (f : Fetcher) (a : Args) : Prop where
  base : ∀ n, a.baseUrl = some n → FileName.ok n
  filename : ∀ n, a.filename = some n → FileName.ok n
  fileObj : ∀ n, a.fileObj = some (some n) → FileName.ok n
  guessPath : ∀ n, a.guess = some (.path n) → FileName.ok n
  guessText : ∀ s n, a.guess = some (.text s n) → FileName.ok n
  guessReadable : ∀ n, a.guess = some (.readable (some n)) → FileName.ok n
  redirected : ∀ u r red, f u = .resp r → r.redirected = some red → urlIsAbsolute red = true

private theorem urlBody_base_absolute (base : Option String) (c : Bool) (r : Resp)
    (hbase : ∀ b, base = some b → urlIsAbsolute b = true)
    (hred : ∀ red, r.redirected = some red → urlIsAbsolute red = true)
    (sel : Selected) (h : urlBody base c r = .ok sel) (b : String) (hb : sel.baseUrl = some b) :
    urlIsAbsolute b = true := by
  have hb' : ∀ bb, (match base with | some b => some b | none => r.redirected) = some bb → urlIsAbsolute bb = true := by
    intro bb hbb
    cases hbase' : base with
    | none => rw [hbase'] at hbb; exact hred bb hbb
    | some b' => rw [hbase'] at hbb; simp at hbb; rw [← hbb]; exact hbase b' hbase'
  unfold urlBody at h
  split at h
  · simp only [Except.ok.injEq] at h; subst h; exact hbase b hb
  · simp only at h
    split at h
    · simp only [Except.ok.injEq] at h; subst h; exact hb' b hb
    · split at h
      · simp only [Except.ok.injEq] at h; subst h; exact hb' b hb
      · simp at h

private theorem selectOne_base_absolute (f : Fetcher) (base : Option String) (c : Bool) (fn : Option FileName)
    (url : Option String) (fo : Option (Option FileName))
    (hbase : ∀ b, base = some b → urlIsAbsolute b = true)
    (hfn : ∀ n, fn = some n → FileName.ok n)
    (hurl : ∀ u, url = some u → urlIsAbsolute u = true)
    (hfo : ∀ n, fo = some (some n) → FileName.ok n)
    (hred : ∀ u r red, f u = .resp r → r.redirected = some red → urlIsAbsolute red = true)
    (sel : Selected) (h : (selectOne f base c fn url fo).2 = .ok sel) (b : String) (hb : sel.baseUrl = some b) :
    urlIsAbsolute b = true := by
  cases fn with
  | some x =>
    simp only [selectOne] at h
    split at h
    · simp only [Except.ok.injEq] at h
      subst h
      simp only [Option.some.injEq] at hb
      cases hbase' : base with
      | none => rw [hbase'] at hb; simp at hb; rw [← hb]; exact hfn x rfl
      | some b' => rw [hbase'] at hb; simp at hb; rw [← hb]; exact hbase b' hbase'
    · simp at h
  | none =>
    cases url with
    | some w =>
      simp only [selectOne] at h
      cases hf : f w with
      | raises e => simp [hf, fetch] at h
      | notDict => simp [hf, fetch] at h
      | resp r =>
        rw [hf, (fetch_funnel_body r w (urlBody base c)).1] at h
        refine urlBody_base_absolute base c (r.withDefaults w) hbase ?_ sel h b hb
        intro red hr
        simp only [Resp.withDefaults, Option.some.injEq] at hr
        cases hrr : r.redirected with
        | none => rw [hrr] at hr; simp at hr; rw [← hr]; exact hurl w rfl
        | some x => rw [hrr] at hr; simp at hr; rw [← hr]; exact hred w r x hf hrr
    | none =>
      cases fo with
      | none =>
        simp only [selectOne, Except.ok.injEq] at h
        subst h; exact hbase b hb
      | some name =>
        simp only [selectOne, Except.ok.injEq] at h
        subst h
        simp only [fileObjBase] at hb
        cases hbase' : base with
        | some b' => rw [hbase'] at hb; simp at hb; rw [← hb]; exact hbase b' hbase'
        | none =>
          rw [hbase'] at hb
          cases name with
          | none => simp at hb
          | some n =>
            simp only at hb
            split at hb
            · simp only [Option.some.injEq] at hb; rw [← hb]; exact ensureUrl_absolute n (hfo n rfl)
            · simp at hb

/-- `the absolute URL`: whenever `_select_source` hands a base URL on, it is an absolute URL — whatever combination of
arguments was given, whatever the fetcher answered.  (A `string` or an anonymous file object without `base_url` has no base
URL at all: relative references in it are then not fetched, `get_url_attribute` logs and skips them.) -/
theorem base_url_is_absolute (f : Fetcher) (a : Args) (hs : Sane f a)
    (hurl : ∀ u, Args.fetchUrl a = some u → urlIsAbsolute u = true)
    (sel : Selected) (h : (selectSource f a).2 = .ok sel) (b : String) (hb : sel.baseUrl = some b) :
    urlIsAbsolute b = true := by
  have hbase : ∀ x, a.baseUrl.map ensureUrl = some x → urlIsAbsolute x = true := by
    intro x hx
    cases hbu : a.baseUrl with
    | none => simp [hbu] at hx
    | some n => simp [hbu] at hx; rw [← hx]; exact ensureUrl_absolute n (hs.base n hbu)
  have hc : a.count = 1 := by
    by_cases hc : a.count = 1
    · exact hc
    · rw [exactly_one_source f a hc] at h; simp at h
  rw [selectSource_one f a hc] at h
  unfold dispatch at h
  simp only at h
  cases hg : a.guess with
  | none =>
    simp only [hg] at h
    refine selectOne_base_absolute f _ _ _ _ _ hbase hs.filename ?_ hs.fileObj hs.redirected sel h b hb
    intro u hu
    cases hfn : a.filename with
    | none => exact hurl u (by simp [Args.fetchUrl, hg, hfn, hu])
    | some n =>
      -- a file name and a URL together: the count is not 1
      exfalso
      simp only [Args.count, hg, hfn, hu, Option.isSome_none, Option.isSome_some, Bool.false_eq_true, ↓reduceIte] at hc
      omega
  | some g =>
    simp only [hg] at h
    cases g with
    | readable name =>
      refine selectOne_base_absolute f _ _ none none (some name) hbase (by simp) (by simp) ?_ hs.redirected sel h b hb
      intro n hn
      simp only [Option.some.injEq] at hn
      exact hs.guessReadable n (by rw [hg, hn])
    | path p =>
      refine selectOne_base_absolute f _ _ (some p) none none hbase ?_ (by simp) (by simp) hs.redirected sel h b hb
      intro n hn
      simp only [Option.some.injEq] at hn
      exact hs.guessPath n (by rw [hg, hn])
    | text s asFile =>
      simp only at h
      by_cases habs : urlIsAbsolute s = true
      · simp only [habs, ↓reduceIte] at h
        refine selectOne_base_absolute f _ _ none (some s) none hbase (by simp) ?_ (by simp) hs.redirected sel h b hb
        intro u hu
        simp only [Option.some.injEq] at hu
        rw [← hu]; exact habs
      · simp only [habs, Bool.false_eq_true, ↓reduceIte] at h
        refine selectOne_base_absolute f _ _ (some asFile) none none hbase ?_ (by simp) (by simp) hs.redirected sel h b hb
        intro n hn
        simp only [Option.some.injEq] at hn
        exact hs.guessText s n (by rw [hg, hn])

/-- For a URL source without `base_url`, the base URL is the location the fetcher reports (`redirected_url`), by default
the URL itself: relative references of a redirected stylesheet resolve against where it really is. -/
theorem url_source_base_is_reported_location (f : Fetcher) (u : String) (r : Resp) (check : Bool) (sel : Selected)
    (hf : f u = .resp r) (hmime : (check && r.mime != some "text/css") = false)
    (h : (selectSource f { url := some u, checkMime := check }).2 = .ok sel) :
    sel.baseUrl = some (r.redirected.getD u) := by
  have hsel : selectSource f { url := some u, checkMime := check } = fetch (f u) u (urlBody none check) := by
    simp [selectSource, Args.count, dispatch, selectOne]
  rw [hsel, hf, (fetch_funnel_body r u (urlBody none check)).1] at h
  have hm : (check && (r.withDefaults u).mime != some "text/css") = false := by simpa [Resp.withDefaults] using hmime
  unfold urlBody at h
  simp only [hm, Bool.false_eq_true, ↓reduceIte] at h
  split at h
  · simp only [Except.ok.injEq] at h; subst h; simp [Resp.withDefaults]
  · split at h
    · simp only [Except.ok.injEq] at h; subst h; simp [Resp.withDefaults]
    · simp at h

/-- Non-vacuity: a stylesheet URL that the fetcher reports as moved; a file name; two sources at once. -/
example :
    let moved : Fetcher := fun _ => .resp ⟨true, none, some "text/css", some "http://moved.test/m/s.css", ⟨7, false, none, false, true, false⟩⟩
    (selectSource moved { url := some "http://a.test/s.css", checkMime := true }).2 =
      .ok ⟨"string", .fetched 7, some "http://moved.test/m/s.css"⟩ ∧
    (selectSource moved { filename := some ⟨"x.css", "file:///cwd/x.css", none⟩ }).2 =
      .ok ⟨"file_obj", .localFile "x.css", some "file:///cwd/x.css"⟩ ∧
    (selectSource moved { url := some "http://a.test/s.css", string := true }).2 =
      .error ⟨"TypeError", "Expected exactly one source"⟩ := ⟨rfl, rfl, rfl⟩

/-- Non-vacuity of `Sane`: the redirecting fetcher above with a URL source. -/
example : Sane (fun _ => .resp ⟨true, none, some "text/css", some "http://moved.test/m/s.css", ⟨7, false, none, false, true, false⟩⟩)
    { url := some "http://a.test/s.css" } := by
  refine ⟨by simp, by simp, by simp, by simp, by simp, by simp, ?_⟩
  intro u r red h1 h2
  simp only [Fetched.resp.injEq] at h1
  subst h1
  simp only [Option.some.injEq] at h2
  subst h2
  decide

/-! ## the loaders read their source through `_select_source` -/

/-- `CSS(url=…)` (the model `cssSourceBody` used by `runSheet`, `find_stylesheets` and `@import`) refines the `url` branch
of `_select_source`: "unsupported stylesheet type" exactly when `_select_source` yields the empty string; a `string`
answer is parsed as it is; an error of `_select_source` is the error of the loader. -/
theorem css_source_refines_select_source (c : Bool) (r : Resp) :
    (cssSourceBody c r = .ok false ↔ urlBody none c r = .ok ⟨"string", .emptyString, none⟩) ∧
    (∀ b, urlBody none c r = .ok ⟨"string", .fetched r.content.id, b⟩ → cssSourceBody c r = .ok true) ∧
    (∀ e, urlBody none c r = .error e → cssSourceBody c r = .error e) ∧
    (∀ b, urlBody none c r = .ok ⟨"file_obj", .fetched r.content.id, b⟩ →
      cssSourceBody c r = match r.fileObj.bind (·.readErr) with | some e => .error e | none => .ok true) := by
  unfold cssSourceBody urlBody
  cases hm : (c && r.mime != some "text/css") <;> cases hs : r.hasString <;> cases hf : r.fileObj <;>
    simp_all
  all_goals (rename_i fo; cases hr : fo.readErr <;> simp [hr])

/-- `write_pdf_attachment` (model `attachmentBody`) reads what the `url` branch of `_select_source` yields, without MIME
check. -/
theorem attachment_source_refines_select_source (r : Resp) :
    (∀ b, urlBody none false r = .ok ⟨"string", .fetched r.content.id, b⟩ → attachmentBody r = .ok r.content) ∧
    (∀ e, urlBody none false r = .error e → attachmentBody r = .error e) := by
  unfold attachmentBody urlBody
  cases hs : r.hasString <;> cases hf : r.fileObj <;> simp_all

example : urlBody none true ⟨true, none, some "text/html", none, ⟨7, false, none, false, true, false⟩⟩ =
      .ok ⟨"string", .emptyString, none⟩ ∧
    cssSourceBody true ⟨true, none, some "text/html", none, ⟨7, false, none, false, true, false⟩⟩ = .ok false := ⟨rfl, rfl⟩

end Wp.C20.Source
